(** next_msg_frame, MsgFrameIter and the chunked caller: C05, C06. *)
From Coq Require Import ZArith List Lia Bool.
From RtcmModel Require Import Types Crc Frame Scan.
From RtcmProofs Require Import BitLemmas ListZ FrameProofs.
Import ListNotations.
Open Scope Z_scope.

(** ---------- frame_new is total ---------- *)
Lemma frame_new_total d :
  frame_new d = Err Incomplete \/ frame_new d = Err NotValid \/ exists f, frame_new d = Ok f.
Proof.
  destruct (frame_new_cases d) as [[H E]|[[H [H1 E]]|[[H [H1 [H2 E]]]|[[H [H1 [H2 [H3 E]]]]|[Ha E]]]]]; rewrite E; eauto.
Qed.

(** a position is dead when its byte is not 0xD3 or its candidate is complete with a wrong checksum *)
Definition dead (s : list Z) : Prop := hd 0 s <> 211 \/ frame_new s = Err NotValid.

(** what the scanner returns for buffer [d] scanned from absolute index [i] *)
Definition scan_post (d : list Z) (i c : Z) (mf : option frame) : Prop :=
  exists k : nat, (k <= length d)%nat /\ (forall j, (j < k)%nat -> dead (skipn j d)) /\
    ((k = length d /\ c = i + zlen d /\ mf = None) \/
     ((k < length d)%nat /\ hd 0 (skipn k d) = 211 /\
      ((exists f, frame_new (skipn k d) = Ok f /\ c = i + Z.of_nat k + frame_len f /\ mf = Some f) \/
       (frame_new (skipn k d) = Err Incomplete /\ c = i + Z.of_nat k /\ mf = None)))).

Lemma scan_from_spec d : forall i, exists c mf, scan_from i d = Ok (c, mf) /\ scan_post d i c mf.
Proof.
  induction d as [|b rest IH]; intros i.
  - exists i, None. split; [reflexivity|]. exists 0%nat. split; [cbn; lia|]. split; [intros j Hj; lia|].
    left. cbn. repeat split; lia.
  - cbn [scan_from].
    assert (Hrec : forall (Hd : dead (b :: rest)),
               exists c mf, scan_from (i + 1) rest = Ok (c, mf) /\ scan_post (b :: rest) i c mf).
    { intros Hd. destruct (IH (i + 1)) as [c [mf [E [k [Hk [Hdead Hcase]]]]]].
      exists c, mf. split; [exact E|]. exists (S k). split; [cbn; lia|]. split.
      - intros j Hj. destruct j as [|j]; [exact Hd|]. cbn [skipn]. apply Hdead. lia.
      - cbn [skipn length]. rewrite zlen_cons.
        destruct Hcase as [[K1 [K2 K3]]|[K1 [K2 K3]]]; [left|right].
        + repeat split; [lia|lia|exact K3].
        + split; [lia|]. split; [exact K2|].
          destruct K3 as [[f [F1 [F2 F3]]]|[F1 [F2 F3]]]; [left; exists f|right]; repeat split; try assumption; lia. }
    destruct (Z.eqb_spec b 211) as [Hb|Hb].
    + destruct (frame_new_total (b :: rest)) as [E|[E|[f E]]]; rewrite E.
      * exists i, None. split; [reflexivity|]. exists 0%nat. split; [cbn; lia|]. split; [intros j Hj; lia|].
        right. split; [cbn; lia|]. split; [exact Hb|]. right. cbn [skipn]. repeat split; [exact E|lia].
      * apply Hrec. right. exact E.
      * exists (i + frame_len f), (Some f). split; [reflexivity|]. exists 0%nat. split; [cbn; lia|]. split; [intros j Hj; lia|].
        right. split; [cbn; lia|]. split; [exact Hb|]. left. exists f. cbn [skipn]. repeat split; [exact E|lia].
    + apply Hrec. left. exact Hb.
Qed.

Lemma scan_spec d : exists c mf, scan d = Ok (c, mf) /\ scan_post d 0 c mf.
Proof. apply scan_from_spec. Qed.

(** shifting the start index shifts the consumed count *)
Lemma scan_from_shift d : forall i, scan_from i d = match scan_from 0 d with
                                                    | Ok (c, mf) => Ok (i + c, mf)
                                                    | o => o
                                                    end.
Proof.
  induction d as [|b rest IH]; intros i; cbn [scan_from].
  - f_equal. f_equal. lia.
  - destruct (b =? 211).
    + destruct (frame_new (b :: rest)) as [m|e|]; [f_equal; f_equal; lia| |reflexivity].
      destruct e; try reflexivity.
      * rewrite (IH (i + 1)), (IH (0 + 1)). destruct (scan_from 0 rest) as [[c mf]|e|]; try reflexivity. f_equal. f_equal. lia.
      * f_equal. f_equal. lia.
    + rewrite (IH (i + 1)), (IH (0 + 1)). destruct (scan_from 0 rest) as [[c mf]|e|]; try reflexivity. f_equal. f_equal. lia.
Qed.

(** ---------- consequences of the specification ---------- *)
Lemma bytes_ok_skipn k d : bytes_ok d = true -> bytes_ok (skipn k d) = true.
Proof.
  unfold bytes_ok. rewrite !forallb_forall. intros H x Hx. apply H.
  rewrite <- (firstn_skipn k d). apply in_or_app. right. exact Hx.
Qed.

Lemma firstn_length_firstn {A} n (l : list A) : firstn (length (firstn n l)) l = firstn n l.
Proof.
  revert l. induction n as [|n IH]; intros l; [reflexivity|]. destruct l as [|x l]; [reflexivity|].
  cbn. f_equal. apply IH.
Qed.

Lemma frame_len_le s f : bytes_ok s = true -> frame_new s = Ok f ->
  6 <= frame_len f <= zlen s /\ fr_frame_data f = zfirstn (frame_len f) s.
Proof.
  intros Hb E. destruct (frame_attributes s f Hb E) as [HL [Hlen [_ [Hfd _]]]].
  destruct (frame_new_ok_inv s f E) as [[H6 [Hp [Hl Hc]]] _].
  split; [lia|]. rewrite Hfd. rewrite Hlen. reflexivity.
Qed.

(** the consumed count never exceeds the buffer; the delivered frame is the buffer slice ending at it *)
Lemma scan_consumed_le d c mf : bytes_ok d = true -> scan d = Ok (c, mf) -> 0 <= c <= zlen d.
Proof.
  intros Hb E. destruct (scan_spec d) as [c' [mf' [E' [k [Hk [_ Hcase]]]]]]. rewrite E in E'. inversion E'; subst c' mf'.
  pose proof (zlen_nonneg d).
  destruct Hcase as [[K1 [K2 K3]]|[K1 [K2 [[f [F1 [F2 F3]]]|[F1 [F2 F3]]]]]]; [lia| |unfold zlen; lia].
  destruct (frame_len_le _ f (bytes_ok_skipn k d Hb) F1) as [Hl _].
  unfold zlen in *. rewrite skipn_length in Hl. lia.
Qed.

Lemma scan_frame_slice d c f : bytes_ok d = true -> scan d = Ok (c, Some f) ->
  0 <= c - frame_len f /\ fr_frame_data f = zfirstn (frame_len f) (zskipn (c - frame_len f) d).
Proof.
  intros Hb E. destruct (scan_spec d) as [c' [mf' [E' [k [Hk [_ Hcase]]]]]]. rewrite E in E'. inversion E'; subst c' mf'.
  destruct Hcase as [[K1 [K2 K3]]|[K1 [K2 [[f' [F1 [F2 F3]]]|[F1 [F2 F3]]]]]]; try discriminate.
  inversion F3; subst f'.
  destruct (frame_len_le _ f (bytes_ok_skipn k d Hb) F1) as [Hl Hs].
  replace (c - frame_len f) with (Z.of_nat k) by lia. split; [lia|].
  unfold zskipn. rewrite Nat2Z.id. exact Hs.
Qed.

(** a dead position stays dead whatever data follows *)
Lemma dead_stable s e : bytes_ok s = true -> s <> [] -> dead s -> forall f, frame_new (s ++ e) <> Ok f.
Proof.
  intros Hb Hne Hd f E.
  destruct s as [|b r]; [congruence|].
  destruct (frame_new_ok_inv _ f E) as [[H6 [Hp [Hl Hc]]] _].
  cbn [app] in Hp. rewrite znth_cons_0 in Hp.
  destruct Hd as [Hd|Hd]; [cbn in Hd; congruence|].
  destruct (frame_new_cases (b :: r)) as [[H E1]|[[H [H1 E1]]|[[H [H1 [H2 E1]]]|[[H [H1 [H2 [H3 E1]]]]|[Ha E1]]]]]; rewrite E1 in Hd; try discriminate.
  - rewrite znth_cons_0 in H1. congruence.
  - destruct (frame_length_bytes _ Hb) as [_ HL].
    rewrite (frame_local (b :: r) e) in E by lia. rewrite E1 in E. discriminate.
Qed.

Lemma scan_skipped_dead d c mf : bytes_ok d = true -> scan d = Ok (c, mf) ->
  forall j, (Z.of_nat j < match mf with Some f => c - frame_len f | None => c end) ->
  forall e f, frame_new (skipn j d ++ e) <> Ok f.
Proof.
  intros Hb E j Hj e f. destruct (scan_spec d) as [c' [mf' [E' [k [Hk [Hdead Hcase]]]]]]. rewrite E in E'. inversion E'; subst c' mf'.
  assert (Hjk : (j < k)%nat).
  { destruct Hcase as [[K1 [K2 K3]]|[K1 [K2 [[f' [F1 [F2 F3]]]|[F1 [F2 F3]]]]]]; subst mf; unfold zlen in *; lia. }
  apply dead_stable; [apply bytes_ok_skipn; exact Hb| |apply Hdead; exact Hjk].
  intros Hnil. assert (Hl : length (skipn j d) = 0%nat) by (rewrite Hnil; reflexivity).
  rewrite skipn_length in Hl. lia.
Qed.

(** ---------- repeated scanning ("drain") ---------- *)
(** [drains d base t l]: calling the scanner repeatedly on what remains of [d] (whose first byte has
    absolute offset [base]) until it returns no frame delivers the frames [l] (absolute start offset,
    frame) and ends with [t] bytes consumed in total. *)
Inductive drains : list Z -> Z -> Z -> list (Z * frame) -> Prop :=
| drains_none d base c : scan d = Ok (c, None) -> drains d base (base + c) []
| drains_some d base c f t l : scan d = Ok (c, Some f) -> drains (zskipn c d) (base + c) t l ->
    drains d base t ((base + c - frame_len f, f) :: l).

Lemma drains_det d base t l : drains d base t l -> forall t' l', drains d base t' l' -> t = t' /\ l = l'.
Proof.
  induction 1 as [d base c E|d base c f t l E _ IH]; intros t' l' H'; inversion H'; subst.
  - match goal with H : scan d = Ok (?c', None) |- _ => rewrite E in H; inversion H; subst end. split; reflexivity.
  - match goal with H : scan d = Ok (_, Some _) |- _ => rewrite E in H; discriminate end.
  - match goal with H : scan d = Ok (_, None) |- _ => rewrite E in H; discriminate end.
  - match goal with H : scan d = Ok (?c', Some ?f') |- _ => rewrite E in H; inversion H; subst end.
    match goal with H : drains (zskipn _ d) _ _ _ |- _ => destruct (IH _ _ H) as [-> ->] end. split; reflexivity.
Qed.

Lemma scan_some_progress d c f : bytes_ok d = true -> scan d = Ok (c, Some f) -> 6 <= c <= zlen d.
Proof.
  intros Hb E. destruct (scan_frame_slice d c f Hb E) as [H0 _].
  destruct (scan_consumed_le d c _ Hb E) as [_ H1].
  destruct (scan_spec d) as [c' [mf' [E' [k [Hk [_ Hcase]]]]]]. rewrite E in E'. inversion E'; subst c' mf'.
  destruct Hcase as [[K1 [K2 K3]]|[K1 [K2 [[f' [F1 [F2 F3]]]|[F1 [F2 F3]]]]]]; try discriminate.
  inversion F3; subst f'. destruct (frame_len_le _ f (bytes_ok_skipn k d Hb) F1) as [Hl _]. lia.
Qed.

Lemma bytes_ok_zskipn c d : bytes_ok d = true -> bytes_ok (zskipn c d) = true.
Proof. apply bytes_ok_skipn. Qed.

(** a drain exists for every buffer, and delivers at most one frame per 6 bytes *)
Lemma drains_exists : forall n d base, (length d <= n)%nat -> bytes_ok d = true ->
  exists t l, drains d base t l /\ (6 * length l <= length d)%nat /\ base <= t <= base + zlen d.
Proof.
  induction n as [|n IH]; intros d base Hn Hb.
  - destruct d; [|cbn in Hn; lia]. exists (base + 0), []. split; [apply drains_none; reflexivity|]. cbn. unfold zlen. cbn. lia.
  - destruct (scan_spec d) as [c [mf [E _]]]. destruct mf as [f|].
    + destruct (scan_some_progress d c f Hb E) as [H6 Hc].
      assert (Hlen : length (zskipn c d) = (length d - Z.to_nat c)%nat) by (unfold zskipn; apply skipn_length).
      destruct (IH (zskipn c d) (base + c)) as [t [l [Hd [Hl Ht]]]].
      * unfold zlen in *. lia.
      * apply bytes_ok_zskipn. exact Hb.
      * exists t, ((base + c - frame_len f, f) :: l). split; [eapply drains_some; eassumption|].
        cbn [length]. unfold zlen in *. rewrite Hlen in *. lia.
    + exists (base + c), []. split; [apply drains_none; exact E|].
      destruct (scan_consumed_le d c _ Hb E). cbn. lia.
Qed.

(** ---------- the iterator ---------- *)
Lemma skipn_add {A} (a b : nat) (l : list A) : skipn b (skipn a l) = skipn (a + b) l.
Proof.
  revert l. induction a as [|a IH]; intros l; [reflexivity|]. destruct l as [|x l]; [cbn; destruct b; reflexivity|].
  cbn. apply IH.
Qed.
Lemma zskipn_zskipn {A} a b (l : list A) : 0 <= a -> 0 <= b -> zskipn b (zskipn a l) = zskipn (a + b) l.
Proof.
  intros Ha Hb. unfold zskipn. rewrite skipn_add. f_equal. lia.
Qed.

Lemma iter_all_spec : forall d base t l, drains d base t l ->
  forall fuel data acc, bytes_ok data = true -> 0 <= base <= zlen data -> d = zskipn base data ->
  (length l < fuel)%nat ->
  iter_all fuel data base acc = Ok (t, rev acc ++ l).
Proof.
  induction 1 as [d base c E|d base c f t l E Hd IH]; intros fuel data acc Hb Hbase Heq Hfuel.
  - destruct fuel as [|fuel]; [cbn in Hfuel; lia|]. cbn [iter_all]. unfold iter_next.
    destruct (Z.leb_spec (zlen data) base) as [Hle|Hlt].
    + assert (base = zlen data) by lia. subst base.
      assert (Hnil : d = []).
      { rewrite Heq. unfold zskipn, zlen. rewrite Nat2Z.id. apply skipn_all. }
      rewrite Hnil in E. unfold scan in E. cbn in E. assert (c = 0) by congruence. subst c.
      cbn [bind]. rewrite app_nil_r. f_equal. f_equal. lia.
    + rewrite <- Heq, E. cbn [bind]. rewrite app_nil_r. reflexivity.
  - destruct fuel as [|fuel]; [cbn in Hfuel; lia|]. cbn [iter_all]. unfold iter_next.
    assert (Hbd : bytes_ok d = true) by (subst d; apply bytes_ok_zskipn; exact Hb).
    destruct (scan_some_progress d c f Hbd E) as [H6 Hc].
    assert (Hzl : zlen d = zlen data - base) by (subst d; apply zlen_zskipn; lia).
    destruct (Z.leb_spec (zlen data) base) as [Hle|Hlt]; [lia|].
    rewrite <- Heq, E. cbn [bind].
    rewrite (IH fuel data ((base + c - frame_len f, f) :: acc)); try assumption.
    + cbn [rev]. rewrite <- app_assoc. reflexivity.
    + lia.
    + subst d. apply zskipn_zskipn; lia.
    + cbn [length] in Hfuel. lia.
Qed.

Lemma iter_run_spec data : bytes_ok data = true ->
  exists t l, drains data 0 t l /\ iter_run data = Ok (t, l).
Proof.
  intros Hb. destruct (drains_exists (length data) data 0 (le_n _) Hb) as [t [l [Hd [Hl Ht]]]].
  exists t, l. split; [exact Hd|]. unfold iter_run.
  rewrite (iter_all_spec data 0 t l Hd (S (length data)) data []); [reflexivity|exact Hb|pose proof (zlen_nonneg data); lia|reflexivity|lia].
Qed.

(** ---------- extension lemmas (C06) ---------- *)
Lemma scan_from_app_some b : forall i e c f, bytes_ok b = true ->
  scan_from i b = Ok (c, Some f) -> scan_from i (b ++ e) = Ok (c, Some f).
Proof.
  induction b as [|x rest IH]; intros i e c f Hb E; [cbn in E; discriminate|].
  assert (Hbr : bytes_ok rest = true) by (unfold bytes_ok in *; cbn in Hb; apply andb_true_iff in Hb; tauto).
  cbn [scan_from app] in *. destruct (x =? 211) eqn:Hx.
  - change (x :: rest ++ e) with ((x :: rest) ++ e).
    destruct (frame_new_cases (x :: rest)) as [[H E1]|[[H [H1 E1]]|[[H [H1 [H2 E1]]]|[[H [H1 [H2 [H3 E1]]]]|[[A [B [C D]]] E1]]]]];
      rewrite E1 in E; try discriminate.
    + rewrite znth_cons_0 in H1. apply Z.eqb_eq in Hx. congruence.
    + destruct (frame_length_bytes _ Hb) as [_ HL].
      rewrite (frame_local (x :: rest) e) by lia. rewrite E1. apply IH; assumption.
    + destruct (frame_length_bytes _ Hb) as [_ HL].
      rewrite (frame_local (x :: rest) e) by lia. rewrite E1. exact E.
  - apply IH; assumption.
Qed.

Lemma scan_some_extend b e c f : bytes_ok b = true -> scan b = Ok (c, Some f) -> scan (b ++ e) = Ok (c, Some f).
Proof. apply scan_from_app_some. Qed.

(** when no frame is found, the first [c] bytes are dead for good and scanning resumes at [c] *)
Lemma scan_from_app_none b : forall i e c, bytes_ok b = true ->
  scan_from i b = Ok (c, None) ->
  scan_from i (b ++ e) = scan_from c (zskipn (c - i) b ++ e).
Proof.
  induction b as [|x rest IH]; intros i e c Hb E.
  - cbn in E. inversion E; subst c. replace (i - i) with 0 by lia. reflexivity.
  - assert (Hbr : bytes_ok rest = true) by (unfold bytes_ok in *; cbn in Hb; apply andb_true_iff in Hb; tauto).
    assert (Hstep : forall (Hc : scan_from (i + 1) rest = Ok (c, None)),
               scan_from (i + 1) (rest ++ e) = scan_from c (zskipn (c - i) (x :: rest) ++ e)).
    { intros Hc. rewrite (IH (i + 1) e c Hbr Hc).
      assert (Hge : i + 1 <= c).
      { pose proof (scan_from_shift rest (i + 1)) as S. rewrite Hc in S.
        destruct (scan_from 0 rest) as [[c0 mf0]|?|] eqn:E0; try discriminate.
        assert (Hcc : c = i + 1 + c0) by congruence.
        destruct (scan_consumed_le rest c0 mf0 Hbr E0). lia. }
      f_equal. f_equal. unfold zskipn. replace (Z.to_nat (c - i)) with (S (Z.to_nat (c - (i + 1)))) by lia. reflexivity. }
    cbn [scan_from app] in *. destruct (x =? 211) eqn:Hx.
    + change (x :: rest ++ e) with ((x :: rest) ++ e).
      destruct (frame_new_cases (x :: rest)) as [[H E1]|[[H [H1 E1]]|[[H [H1 [H2 E1]]]|[[H [H1 [H2 [H3 E1]]]]|[[A [B [C D]]] E1]]]]];
        rewrite E1 in E; try discriminate.
      * inversion E; subst c. replace (i - i) with 0 by lia. cbn [zskipn Z.to_nat skipn].
        cbn [scan_from app]. rewrite Hx. reflexivity.
      * rewrite znth_cons_0 in H1. apply Z.eqb_eq in Hx. congruence.
      * inversion E; subst c. replace (i - i) with 0 by lia. cbn [zskipn Z.to_nat skipn].
        cbn [scan_from app]. rewrite Hx. reflexivity.
      * destruct (frame_length_bytes _ Hb) as [_ HL].
        rewrite (frame_local (x :: rest) e) by lia. rewrite E1. apply Hstep. exact E.
    + apply Hstep. exact E.
Qed.

Lemma scan_none_extend b e c : bytes_ok b = true -> scan b = Ok (c, None) ->
  scan (b ++ e) = match scan (zskipn c b ++ e) with
                  | Ok (c', mf) => Ok (c + c', mf)
                  | o => o
                  end.
Proof.
  intros Hb E. unfold scan in *. rewrite (scan_from_app_none b 0 e c Hb E).
  replace (c - 0) with c by lia. apply scan_from_shift.
Qed.

(** ---------- the caller of C06 ---------- *)
Fixpoint fed (ops : list sop) : list Z :=
  match ops with
  | [] => []
  | Append c :: r => c ++ fed r
  | Call :: r => fed r
  end.

Definition ops_bytes_ok (ops : list sop) : bool :=
  forallb (fun o => match o with Append c => bytes_ok c | Call => true end) ops.

(** invariant: whatever is appended later, draining the stream from scratch gives what was already
    delivered followed by what draining the kept tail will give *)
Definition cinv (st : cstate) (stream : list Z) : Prop :=
  bytes_ok (cs_tail st) = true /\ 0 <= cs_consumed st /\
  forall rest t l, bytes_ok rest = true ->
    drains (cs_tail st ++ rest) (cs_consumed st) t l ->
    drains (stream ++ rest) 0 t (cs_delivered st ++ l).

Lemma cinv_init : cinv cs_init [].
Proof.
  unfold cinv, cs_init. cbn. repeat split; try lia. intros rest t l _ H. exact H.
Qed.

Lemma cinv_append st stream chunk : bytes_ok chunk = true -> cinv st stream ->
  cinv {| cs_tail := cs_tail st ++ chunk; cs_delivered := cs_delivered st; cs_consumed := cs_consumed st |} (stream ++ chunk).
Proof.
  intros Hc [Hb [H0 Hinv]]. unfold cinv. cbn. split; [rewrite bytes_ok_app, Hb, Hc; reflexivity|]. split; [exact H0|].
  intros rest t l Hr Hd. rewrite <- !app_assoc in *. apply Hinv; [rewrite bytes_ok_app, Hc, Hr; reflexivity|exact Hd].
Qed.

Lemma cinv_call st stream st' : cinv st stream -> cs_step st Call = Ok st' -> cinv st' stream.
Proof.
  intros [Hb [H0 Hinv]] Hs. unfold cs_step in Hs.
  destruct (scan (cs_tail st)) as [[c mf]|?|] eqn:E; cbn [bind] in Hs; try discriminate. inversion Hs; subst st'. clear Hs.
  destruct (scan_consumed_le _ c mf Hb E) as [Hc0 Hc1].
  unfold cinv. cbn. split; [apply bytes_ok_zskipn; exact Hb|]. split; [lia|].
  intros rest t l Hr Hd.
  assert (Hbr : bytes_ok (cs_tail st ++ rest) = true) by (rewrite bytes_ok_app, Hb, Hr; reflexivity).
  destruct mf as [f|].
  - rewrite <- app_assoc. apply Hinv; [exact Hr|]. cbn [app].
    eapply drains_some.
    + apply scan_some_extend; eassumption.
    + rewrite zskipn_app_le by lia. exact Hd.
  - apply Hinv; [exact Hr|].
    pose proof (scan_none_extend _ rest c Hb E) as Hext.
    inversion Hd; subst.
    + match goal with H : scan (zskipn c (cs_tail st) ++ rest) = Ok (?c', None) |- _ => rewrite H in Hext; rename c' into c2 end.
      replace (cs_consumed st + c + c2) with (cs_consumed st + (c + c2)) by lia.
      apply drains_none. exact Hext.
    + match goal with H : scan (zskipn c (cs_tail st) ++ rest) = Ok (?c', Some ?f') |- _ => rewrite H in Hext; rename c' into c2; rename f' into f2 end.
      replace (cs_consumed st + c + c2 - frame_len f2) with (cs_consumed st + (c + c2) - frame_len f2) by lia.
      eapply drains_some; [exact Hext|].
      assert (Hb2 : bytes_ok (zskipn c (cs_tail st) ++ rest) = true)
        by (rewrite bytes_ok_app, Hr, bytes_ok_zskipn by exact Hb; reflexivity).
      match goal with H : scan (zskipn c (cs_tail st) ++ rest) = Ok (c2, Some f2) |- _ =>
        destruct (scan_some_progress _ c2 f2 Hb2 H) as [P6 _] end.
      replace (cs_consumed st + (c + c2)) with (cs_consumed st + c + c2) by lia.
      replace (zskipn (c + c2) (cs_tail st ++ rest)) with (zskipn c2 (zskipn c (cs_tail st) ++ rest)); [assumption|].
      rewrite <- (zskipn_app_le c (cs_tail st) rest) by lia. apply zskipn_zskipn; lia.
Qed.

Lemma cs_step_total st o : exists st', cs_step st o = Ok st'.
Proof.
  destruct o as [c|]; cbn [cs_step]; [eexists; reflexivity|].
  destruct (scan_spec (cs_tail st)) as [c [mf [E _]]]. rewrite E. cbn [bind]. eexists. reflexivity.
Qed.

Lemma cs_run_inv : forall ops st stream, ops_bytes_ok ops = true -> cinv st stream ->
  exists st', cs_run st ops = Ok st' /\ cinv st' (stream ++ fed ops).
Proof.
  induction ops as [|o ops IH]; intros st stream Hok Hinv.
  - exists st. split; [reflexivity|]. cbn [fed]. rewrite app_nil_r. exact Hinv.
  - cbn [ops_bytes_ok forallb] in Hok. apply andb_true_iff in Hok. destruct Hok as [Ho Hok].
    destruct (cs_step_total st o) as [st1 E1]. cbn [cs_run]. rewrite E1. cbn [bind].
    destruct o as [c|].
    + cbn [cs_step] in E1. inversion E1; subst st1.
      destruct (IH _ (stream ++ c) Hok (cinv_append st stream c Ho Hinv)) as [st' [E' I']].
      exists st'. split; [exact E'|]. cbn [fed]. rewrite app_assoc. exact I'.
    + destruct (IH st1 stream Hok (cinv_call st stream st1 Hinv E1)) as [st' [E' I']].
      exists st'. split; [exact E'|]. cbn [fed]. exact I'.
Qed.

(** quiescent: one more call finds nothing and consumes nothing *)
Definition quiescent (st : cstate) : Prop := scan (cs_tail st) = Ok (0, None).

Theorem chunking_independent ops : ops_bytes_ok ops = true ->
  exists st, cs_run cs_init ops = Ok st /\
    (* what was delivered so far is a prefix of what the whole stream delivers *)
    (exists t l, drains (fed ops) 0 t (cs_delivered st ++ l)) /\
    (* once the caller has drained its buffer, it has delivered exactly the frames of the whole stream
       and consumed exactly as many bytes *)
    (quiescent st -> drains (fed ops) 0 (cs_consumed st) (cs_delivered st)).
Proof.
  intros Hok. destruct (cs_run_inv ops cs_init [] Hok cinv_init) as [st [E [Hb [H0 Hinv]]]].
  cbn [app] in Hinv. exists st. split; [exact E|]. split.
  - destruct (drains_exists (length (cs_tail st)) (cs_tail st) (cs_consumed st) (le_n _) Hb) as [t [l [Hd _]]].
    exists t, l. specialize (Hinv [] t l eq_refl). rewrite !app_nil_r in Hinv. apply Hinv. exact Hd.
  - intros Hq.
    assert (Hd : drains (cs_tail st) (cs_consumed st) (cs_consumed st + 0) []) by (apply drains_none; exact Hq).
    pose proof (Hinv [] (cs_consumed st + 0) [] eq_refl) as H1. rewrite !app_nil_r in H1. specialize (H1 Hd).
    replace (cs_consumed st + 0) with (cs_consumed st) in H1 by lia. exact H1.
Qed.

(** after a call that returned nothing, the caller is quiescent until it appends again *)
Lemma call_none_quiescent st st' : bytes_ok (cs_tail st) = true -> cs_step st Call = Ok st' ->
  cs_delivered st' = cs_delivered st -> quiescent st' \/ exists f, scan (cs_tail st) = Ok (cs_consumed st' - cs_consumed st, Some f).
Proof.
  intros Hb Hs Hd. unfold cs_step in Hs.
  destruct (scan (cs_tail st)) as [[c mf]|?|] eqn:E; cbn [bind] in Hs; try discriminate. inversion Hs; subst st'. cbn in *.
  destruct mf as [f|]; [right; exists f; f_equal; f_equal; lia|left].
  unfold quiescent. cbn.
  pose proof (scan_none_extend (cs_tail st) [] c Hb E) as Hext. rewrite !app_nil_r in Hext. rewrite E in Hext.
  destruct (scan (zskipn c (cs_tail st))) as [[c' mf']|?|] eqn:E2; try discriminate.
  assert (Hc0 : c' = 0) by (injection Hext; intros; lia).
  assert (Hm0 : mf' = None) by congruence.
  subst c' mf'. unfold scan in *. exact E2.
Qed.

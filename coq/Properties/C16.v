(** C16 -- SSR code-bias and GLONASS bias lists keep every entry or report an error.
    Proofs are in Proofs/BiasProofs.v about Model/Bias.v (transliteration of df_msg1059_biases.rs,
    df_msg1065_biases.rs, df_msg1230_biases.rs after the capacity and count fixes).
    PARTIAL: proved -- decoding any payload never panics and never yields more entries than the list
    capacity; an accepted list has at most 63 satellites and at most 31 recognised entries per satellite
    and fits the list capacity (so no count field can wrap); the SSR signal tables are one-to-one with ids
    that fit 5 bits.  Not proved: that the decoded list is exactly the accepted multiset grouped by ascending
    satellite (needs the sequential composition of the bit-field round trip); covered by the ROUNDTRIP
    correspondence and the impl-side probes. *)
From Coq Require Import ZArith List Lia Bool.
From RtcmModel Require Import Types BitIO SigId Bias Layout Top.
From RtcmGen Require Import GenSignals GenLayouts.
From RtcmProofs Require Import ListZ SigProofs BiasProofs.
Import ListNotations.
Open Scope Z_scope.

(** table obligation: the two SSR signal tables are one-to-one and every id fits its 5-bit field *)
Theorem C16_ssr_tables_ok : table_ok 0 31 ssr_table_1059 = true /\ table_ok 0 31 ssr_table_1065 = true.
Proof. split; vm_compute; reflexivity. Qed.

Theorem C16_decode_bounded : forall data off l off',
  (t_decode_frag FBias1059 data off = Ok (VList l, off') -> zlen l <= SAT_CAP_1059) /\
  (t_decode_frag FBias1065 data off = Ok (VList l, off') -> zlen l <= SAT_CAP_1065).
Proof.
  intros data off l off'. split; intros H; cbn in H; eapply cb_decode_bounded; try eassumption; vm_compute; discriminate.
Qed.

Theorem C16_decode_no_panic : forall data off, bytes_ok data = true -> 0 <= off ->
  t_decode_frag FBias1059 data off <> Panic /\ t_decode_frag FBias1065 data off <> Panic.
Proof.
  intros data off Hb Ho. split; cbn [t_decode_frag decode_frag]; apply cb_decode_no_panic; try assumption; lia.
Qed.

(** what an accepted list looks like: no count can wrap in its field *)
Theorem C16_counts_fit_1059 : forall st l es st',
  t_encode_frag FBias1059 st (VList l) = Ok st' -> entries_of_vals l = Some es ->
  zlen es <= SAT_CAP_1059 /\
  exists sat_mask sat_num, cb_mask 63 es 0 0 = Ok (sat_mask, sat_num) /\ sat_num <= 63 /\
    forall s, 0 <= s <= 63 -> Z.testbit sat_mask s = true -> cb_count ssr_table_1059 s es <= 31.
Proof. intros st l es st' H He. cbn [t_encode_frag encode_frag] in H. eapply cb_encode_counts_fit; try eassumption. lia. Qed.

Theorem C16_counts_fit_1065 : forall st l es st',
  t_encode_frag FBias1065 st (VList l) = Ok st' -> entries_of_vals l = Some es ->
  zlen es <= SAT_CAP_1065 /\
  exists sat_mask sat_num, cb_mask 31 es 0 0 = Ok (sat_mask, sat_num) /\ sat_num <= 63 /\
    forall s, 0 <= s <= 31 -> Z.testbit sat_mask s = true -> cb_count ssr_table_1065 s es <= 31.
Proof. intros st l es st' H He. cbn [t_encode_frag encode_frag] in H. eapply cb_encode_counts_fit; try eassumption. lia. Qed.

(** non-vacuity: 40 entries on one satellite are refused (the D7 witness), 31 are accepted *)
Definition entries (n : nat) : list val := map (fun i => VStruct [VInt 7; VSig 1 67; VF32 0]) (seq 0 n).
Example C16_example : is_ok (t_encode_frag FBias1059 (repeat 0 200, 0) (VList (entries 40))) = false /\
                      is_ok (t_encode_frag FBias1059 (repeat 0 200, 0) (VList (entries 31))) = true.
Proof. split; vm_compute; reflexivity. Qed.

Print Assumptions C16_decode_bounded.
Print Assumptions C16_decode_no_panic.
Print Assumptions C16_counts_fit_1059.

(** Conditional compilation of the message modules (src/msg/mod.rs, src/msg/message.rs, src/df/dfs.rs):
    which module exists under which feature selection, and the dispatch table a selection leaves. *)
From Coq Require Import ZArith List Bool String.
From RtcmModel Require Import Types.
Import ListNotations.
Open Scope Z_scope.

Definition selection := list string.

Definition feature_on (F : selection) (f : string) : bool := existsb (String.eqb f) F.

(** #[cfg(feature = f)] mod m;  -- include_msg!(m, f) *)
Definition msg_module_on (includes : list (string * string)) (F : selection) (m : string) : bool :=
  existsb (fun r => String.eqb (fst r) m && feature_on F (snd r)) includes.

(** #[cfg(any(feature = .., ..))] mod sm; *)
Definition shared_module_on (shared : list (string * list string)) (F : selection) (sm : string) : bool :=
  existsb (fun r => String.eqb (fst r) sm && existsb (feature_on F) (snd r)) shared.

(** hand-written field codecs in dfs.rs: #[cfg(feature = f)] pub mod m; *)
Definition hand_module_on (gates : list (string * string)) (F : selection) (m : string) : bool :=
  existsb (fun r => String.eqb (snd r) m && feature_on F (fst r)) gates.

(** the match arms of from_message_frame that survive cfg: rows whose feature is selected *)
Definition arms_on {A} (rows : list (string * Z)) (table : list (Z * A)) (F : selection) : list (Z * A) :=
  filter (fun r => existsb (fun row => (snd row =? fst r) && feature_on F (fst row)) rows) table.

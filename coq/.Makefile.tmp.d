Model/Types.vo Model/Types.glob Model/Types.v.beautified Model/Types.required_vo: Model/Types.v 
Model/Types.vio: Model/Types.v 
Model/Types.vos Model/Types.vok Model/Types.required_vos: Model/Types.v 
Model/BitIO.vo Model/BitIO.glob Model/BitIO.v.beautified Model/BitIO.required_vo: Model/BitIO.v Model/Types.vo
Model/BitIO.vio: Model/BitIO.v Model/Types.vio
Model/BitIO.vos Model/BitIO.vok Model/BitIO.required_vos: Model/BitIO.v Model/Types.vos
Model/Crc.vo Model/Crc.glob Model/Crc.v.beautified Model/Crc.required_vo: Model/Crc.v Model/Types.vo
Model/Crc.vio: Model/Crc.v Model/Types.vio
Model/Crc.vos Model/Crc.vok Model/Crc.required_vos: Model/Crc.v Model/Types.vos
Model/Frame.vo Model/Frame.glob Model/Frame.v.beautified Model/Frame.required_vo: Model/Frame.v Model/Types.vo Model/Crc.vo
Model/Frame.vio: Model/Frame.v Model/Types.vio Model/Crc.vio
Model/Frame.vos Model/Frame.vok Model/Frame.required_vos: Model/Frame.v Model/Types.vos Model/Crc.vos
Model/Scan.vo Model/Scan.glob Model/Scan.v.beautified Model/Scan.required_vo: Model/Scan.v Model/Types.vo Model/Crc.vo Model/Frame.vo
Model/Scan.vio: Model/Scan.v Model/Types.vio Model/Crc.vio Model/Frame.vio
Model/Scan.vos Model/Scan.vok Model/Scan.required_vos: Model/Scan.v Model/Types.vos Model/Crc.vos Model/Frame.vos
Model/Floats.vo Model/Floats.glob Model/Floats.v.beautified Model/Floats.required_vo: Model/Floats.v Model/Types.vo
Model/Floats.vio: Model/Floats.v Model/Types.vio
Model/Floats.vos Model/Floats.vok Model/Floats.required_vos: Model/Floats.v Model/Types.vos
Model/Field.vo Model/Field.glob Model/Field.v.beautified Model/Field.required_vo: Model/Field.v Model/Types.vo Model/BitIO.vo Model/Floats.vo
Model/Field.vio: Model/Field.v Model/Types.vio Model/BitIO.vio Model/Floats.vio
Model/Field.vos Model/Field.vok Model/Field.required_vos: Model/Field.v Model/Types.vos Model/BitIO.vos Model/Floats.vos
Model/SigId.vo Model/SigId.glob Model/SigId.v.beautified Model/SigId.required_vo: Model/SigId.v Model/Types.vo
Model/SigId.vio: Model/SigId.v Model/Types.vio
Model/SigId.vos Model/SigId.vok Model/SigId.required_vos: Model/SigId.v Model/Types.vos
Model/Text.vo Model/Text.glob Model/Text.v.beautified Model/Text.required_vo: Model/Text.v Model/Types.vo Model/BitIO.vo Model/Field.vo
Model/Text.vio: Model/Text.v Model/Types.vio Model/BitIO.vio Model/Field.vio
Model/Text.vos Model/Text.vok Model/Text.required_vos: Model/Text.v Model/Types.vos Model/BitIO.vos Model/Field.vos
Model/Bias.vo Model/Bias.glob Model/Bias.v.beautified Model/Bias.required_vo: Model/Bias.v Model/Types.vo Model/BitIO.vo Model/Floats.vo Model/Field.vo Model/SigId.vo
Model/Bias.vio: Model/Bias.v Model/Types.vio Model/BitIO.vio Model/Floats.vio Model/Field.vio Model/SigId.vio
Model/Bias.vos Model/Bias.vok Model/Bias.required_vos: Model/Bias.v Model/Types.vos Model/BitIO.vos Model/Floats.vos Model/Field.vos Model/SigId.vos

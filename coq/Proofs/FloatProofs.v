(** Scaled (float-typed) data fields: decoding a carrier value and encoding the result gives the value
    back, for every value of the field's range (C08), by an error-bound argument on Flocq's
    BinarySingleNaN operations.  Generic in the format; the per-row side conditions are a boolean
    ([frow_ok], on exact rationals) that the property files check for every regenerated row. *)
From Coq Require Import Reals ZArith Lia Lra Psatz Bool QArith Qreals.
From Flocq Require Import Core Relative BinarySingleNaN.
From RtcmModel Require Import Types BitIO Floats Field.
Open Scope R_scope.

Section FP.
Variables prec emax : Z.
Context (Hp : Prec_gt_0 prec) (Hpe : Prec_lt_emax prec emax).
Hypothesis Hprec : (4 <= prec)%Z.
Notation emin := (3 - emax - prec)%Z.
Notation fexp := (FLT_exp emin prec).
Notation rnd := (round radix2 fexp ZnearestE).
Notation bf := (binary_float prec emax).
Notation u := (bpow radix2 (- prec)).
Notation eta := (bpow radix2 (emin - 1)).

Lemma prec_emax : (prec < emax)%Z. Proof. exact Hpe. Qed.
Lemma prec_pos : (0 < prec)%Z. Proof. exact Hp. Qed.

Local Instance fexp_valid : Valid_exp fexp. Proof. apply FLT_exp_valid. exact Hp. Qed.

Lemma u_pos : 0 < u. Proof. apply bpow_gt_0. Qed.
Lemma eta_pos : 0 < eta. Proof. apply bpow_gt_0. Qed.

(** one rounding: absolute error at most u|x| + eta *)
Lemma rnd_err x : Rabs (rnd x - x) <= u * Rabs x + eta.
Proof.
  destruct (error_N_FLT radix2 emin prec prec_pos (fun x => negb (Z.even x)) x) as [eps [et [He [Ht [_ E]]]]].
  rewrite E. replace (x * (1 + eps) + et - x) with (x * eps + et) by ring.
  eapply Rle_trans; [apply Rabs_triang|]. rewrite Rabs_mult.
  replace (/ 2 * bpow radix2 (- prec + 1)) with u in He.
  2:{ replace (- prec + 1)%Z with (- prec + 1)%Z by reflexivity. rewrite bpow_plus. simpl (bpow radix2 1). lra. }
  replace (/ 2 * bpow radix2 emin) with eta in Ht.
  2:{ replace emin with (emin - 1 + 1)%Z at 2 by lia. rewrite bpow_plus. simpl (bpow radix2 1). lra. }
  apply Rplus_le_compat; [|exact Ht]. rewrite Rmult_comm. apply Rmult_le_compat_r; [apply Rabs_pos|exact He].
Qed.

Lemma rnd_abs_le x y : Rabs (rnd x - x) <= y -> Rabs (rnd x) <= Rabs x + y.
Proof. intros H. replace (rnd x) with (x + (rnd x - x)) by ring. eapply Rle_trans; [apply Rabs_triang|]. lra. Qed.

Lemma lt_emax_of_le x : Rabs x <= bpow radix2 (emax - 1) -> Rlt_bool (Rabs (rnd x)) (bpow radix2 emax) = true.
Proof.
  intros H. apply Rlt_bool_true.
  apply Rle_lt_trans with (bpow radix2 (emax - 1)); [|apply bpow_lt; lia].
  apply abs_round_le_generic; [apply fexp_valid|apply valid_rnd_N| |exact H].
  apply generic_format_bpow. unfold FLT_exp. pose proof prec_emax. pose proof prec_pos. lia.
Qed.

(** a dyadic m * 2^e with |m| < 2^prec and emin <= e is representable *)
Lemma format_dyadic m e : (Z.abs m < 2 ^ prec)%Z -> (emin <= e)%Z -> generic_format radix2 fexp (IZR m * bpow radix2 e).
Proof.
  intros Hm He. change (IZR m * bpow radix2 e) with (F2R (Float radix2 m e)).
  apply generic_format_FLT. exists (Float radix2 m e); cbn [Fnum Fexp]; [reflexivity|exact Hm|exact He].
Qed.

Lemma of_me_correct m e : (Z.abs m < 2 ^ prec)%Z -> (emin <= e)%Z -> Rabs (IZR m * bpow radix2 e) <= bpow radix2 (emax - 1) ->
  B2R (of_me prec emax Hp Hpe m e) = IZR m * bpow radix2 e /\ is_finite (of_me prec emax Hp Hpe m e) = true.
Proof.
  intros Hm He Hb. unfold of_me.
  pose proof (binary_normalize_correct prec emax Hp Hpe mode_NE m e false) as H. cbv zeta in H.
  change (F2R (Float radix2 m e)) with (IZR m * bpow radix2 e) in H.
  change (round_mode mode_NE) with ZnearestE in H. change (SpecFloat.fexp prec emax) with fexp in H.
  rewrite (round_generic radix2 fexp ZnearestE _ (format_dyadic m e Hm He)) in H.
  rewrite Rlt_bool_true in H.
  - destruct H as [H1 [H2 _]]. split; assumption.
  - eapply Rle_lt_trans; [exact Hb|]. apply bpow_lt. lia.
Qed.

Lemma pow2_emax_bound (k : Z) : (0 <= k <= prec)%Z -> IZR (2 ^ k) <= bpow radix2 (emax - 1).
Proof.
  intros Hk. change 2%Z with (radix_val radix2). rewrite IZR_Zpower by lia. apply bpow_le. pose proof prec_emax. lia.
Qed.

Lemma ofZ_correct n : (Z.abs n < 2 ^ prec)%Z -> B2R (ofZ prec emax Hp Hpe n) = IZR n /\ is_finite (ofZ prec emax Hp Hpe n) = true.
Proof.
  intros Hn. unfold ofZ. destruct (of_me_correct n 0 Hn) as [A B].
  - pose proof prec_emax. pose proof prec_pos. lia.
  - simpl (bpow radix2 0). rewrite Rmult_1_r, <- abs_IZR.
    apply Rle_trans with (IZR (2 ^ prec)); [apply IZR_le; lia|]. apply pow2_emax_bound. pose proof prec_pos. lia.
  - simpl (bpow radix2 0) in A. rewrite Rmult_1_r in A. split; assumption.
Qed.

Lemma bpow_m1 : bpow radix2 (-1) = /2. Proof. reflexivity. Qed.

Lemma fhalf_correct : B2R (fhalf prec emax Hp Hpe) = /2 /\ is_finite (fhalf prec emax Hp Hpe) = true.
Proof.
  unfold fhalf. destruct (of_me_correct 1 (-1)) as [A B].
  - apply Z.lt_le_trans with (2 ^ 1)%Z; [reflexivity|]. apply Z.pow_le_mono_r; lia.
  - pose proof prec_emax. lia.
  - rewrite bpow_m1, Rabs_pos_eq by lra. apply Rle_trans with (bpow radix2 0); [simpl; lra|]. apply bpow_le. pose proof prec_emax. lia.
  - rewrite bpow_m1 in A. split; [lra|exact B].
Qed.
Lemma fmhalf_correct : B2R (fmhalf prec emax Hp Hpe) = - /2 /\ is_finite (fmhalf prec emax Hp Hpe) = true.
Proof.
  unfold fmhalf. destruct (of_me_correct (-1) (-1)) as [A B].
  - apply Z.lt_le_trans with (2 ^ 1)%Z; [reflexivity|]. apply Z.pow_le_mono_r; lia.
  - pose proof prec_emax. lia.
  - rewrite bpow_m1, Rabs_left by lra. apply Rle_trans with (bpow radix2 0); [simpl; lra|]. apply bpow_le. pose proof prec_emax. lia.
  - rewrite bpow_m1 in A. split; [lra|exact B].
Qed.

(** the four operations, when the exact result is at most 2^(emax-1) in magnitude *)
Lemma fmul_ok x y : is_finite x = true -> is_finite y = true -> Rabs (B2R x * B2R y) <= bpow radix2 (emax - 1) ->
  B2R (fmul prec emax Hp Hpe x y) = rnd (B2R x * B2R y) /\ is_finite (fmul prec emax Hp Hpe x y) = true.
Proof.
  intros Fx Fy Hb. unfold fmul. pose proof (Bmult_correct prec emax Hp Hpe mode_NE x y) as H.
  change (round_mode mode_NE) with ZnearestE in H. change (SpecFloat.fexp prec emax) with fexp in H.
  rewrite (lt_emax_of_le _ Hb) in H. destruct H as [A [B _]]. rewrite Fx, Fy in B. split; assumption.
Qed.
Lemma fadd_ok x y : is_finite x = true -> is_finite y = true -> Rabs (B2R x + B2R y) <= bpow radix2 (emax - 1) ->
  B2R (fadd prec emax Hp Hpe x y) = rnd (B2R x + B2R y) /\ is_finite (fadd prec emax Hp Hpe x y) = true.
Proof.
  intros Fx Fy Hb. unfold fadd. pose proof (Bplus_correct prec emax Hp Hpe mode_NE x y Fx Fy) as H.
  change (round_mode mode_NE) with ZnearestE in H. change (SpecFloat.fexp prec emax) with fexp in H.
  rewrite (lt_emax_of_le _ Hb) in H. destruct H as [A [B _]]. split; assumption.
Qed.
Lemma fsub_ok x y : is_finite x = true -> is_finite y = true -> Rabs (B2R x - B2R y) <= bpow radix2 (emax - 1) ->
  B2R (fsub prec emax Hp Hpe x y) = rnd (B2R x - B2R y) /\ is_finite (fsub prec emax Hp Hpe x y) = true.
Proof.
  intros Fx Fy Hb. unfold fsub. pose proof (Bminus_correct prec emax Hp Hpe mode_NE x y Fx Fy) as H.
  change (round_mode mode_NE) with ZnearestE in H. change (SpecFloat.fexp prec emax) with fexp in H.
  rewrite (lt_emax_of_le _ Hb) in H. destruct H as [A [B _]]. split; assumption.
Qed.
Lemma fdiv_ok x y : is_finite x = true -> B2R y <> 0 -> Rabs (B2R x / B2R y) <= bpow radix2 (emax - 1) ->
  B2R (fdiv prec emax Hp Hpe x y) = rnd (B2R x / B2R y) /\ is_finite (fdiv prec emax Hp Hpe x y) = true.
Proof.
  intros Fx Hy Hb. unfold fdiv. pose proof (Bdiv_correct prec emax Hp Hpe mode_NE x y Hy) as H.
  change (round_mode mode_NE) with ZnearestE in H. change (SpecFloat.fexp prec emax) with fexp in H.
  rewrite (lt_emax_of_le _ Hb) in H. destruct H as [A [B _]]. rewrite Fx in B. split; assumption.
Qed.

Lemma fge_correct x y : is_finite x = true -> is_finite y = true -> fge prec emax x y = Rle_bool (B2R y) (B2R x).
Proof.
  intros Fx Fy. unfold fge. rewrite (Bcompare_correct prec emax x y Fx Fy).
  destruct (Rcompare_spec (B2R x) (B2R y)); destruct (Rle_bool_spec (B2R y) (B2R x)); try reflexivity; lra.
Qed.

Lemma Btrunc_Ztrunc (x : bf) : Btrunc x = Ztrunc (B2R x).
Proof.
  apply eq_IZR. rewrite Btrunc_correct by exact Hpe.
  unfold round, F2R, scaled_mantissa, cexp, FIX_exp; cbn [Fnum Fexp]. simpl bpow. rewrite !Rmult_1_r. reflexivity.
Qed.

Lemma to_int_sat_ok lo hi (x : bf) : is_finite x = true -> (lo <= Ztrunc (B2R x) <= hi)%Z ->
  to_int_sat prec emax lo hi x = Ztrunc (B2R x).
Proof.
  intros Fx Hr. destruct x as [s|s| |s m e Hb]; try discriminate.
  - cbn [to_int_sat B2R]. rewrite Ztrunc_IZR. reflexivity.
  - unfold to_int_sat. rewrite Btrunc_Ztrunc.
    destruct (Z.ltb_spec (Ztrunc (B2R (B754_finite s m e Hb))) lo); [lia|].
    destruct (Z.ltb_spec hi (Ztrunc (B2R (B754_finite s m e Hb)))); [lia|]. reflexivity.
Qed.

(** ---------- the real-number core ---------- *)
Lemma quot_close R N E x1 n : 0 < R -> 0 <= E -> 0 <= N -> Rabs (IZR n) <= N -> Rabs (x1 - IZR n * R) <= E ->
  E * (1 + u) + u * N * R + eta * R <= R / 4 ->
  Rabs (rnd (x1 / R) - IZR n) <= /4 /\ Rabs (x1 / R) <= N + /4.
Proof.
  intros HR HE HN Hn Hx Hc. pose proof u_pos as Hu. pose proof eta_pos as Het.
  assert (Hq0 : Rabs (x1 / R - IZR n) <= E / R).
  { replace (x1 / R - IZR n) with ((x1 - IZR n * R) / R) by (field; lra).
    unfold Rdiv. rewrite Rabs_mult, (Rabs_pos_eq (/ R)) by (left; apply Rinv_0_lt_compat; exact HR).
    apply Rmult_le_compat_r; [left; apply Rinv_0_lt_compat; exact HR|exact Hx]. }
  assert (HER : E / R * (1 + u) + u * N + eta <= /4).
  { apply Rmult_le_reg_r with R; [exact HR|].
    replace ((E / R * (1 + u) + u * N + eta) * R) with (E * (1 + u) + u * N * R + eta * R) by (field; lra). lra. }
  assert (HER0 : 0 <= E / R) by (apply Rmult_le_pos; [exact HE|left; apply Rinv_0_lt_compat; exact HR]).
  assert (HuN : 0 <= u * N) by (apply Rmult_le_pos; lra).
  assert (HuE : 0 <= E / R * u) by (apply Rmult_le_pos; lra).
  assert (Hq0a : Rabs (x1 / R) <= N + E / R).
  { replace (x1 / R) with (IZR n + (x1 / R - IZR n)) by ring. eapply Rle_trans; [apply Rabs_triang|]. lra. }
  split; [|lra].
  replace (rnd (x1 / R) - IZR n) with ((rnd (x1 / R) - x1 / R) + (x1 / R - IZR n)) by ring.
  eapply Rle_trans; [apply Rabs_triang|].
  pose proof (rnd_err (x1 / R)) as He.
  assert (u * Rabs (x1 / R) <= u * (N + E / R)) by (apply Rmult_le_compat_l; lra).
  lra.
Qed.

Lemma quarter_format n k : (Z.abs (4 * n + k) < 2 ^ prec)%Z -> generic_format radix2 fexp (IZR n + IZR k / 4).
Proof.
  intros H. replace (IZR n + IZR k / 4) with (IZR (4 * n + k) * bpow radix2 (-2)).
  - apply format_dyadic; [exact H|]. pose proof prec_emax. lia.
  - rewrite plus_IZR, mult_IZR. change (bpow radix2 (-2)) with (/ 4). field.
Qed.

Lemma round_trunc q n : Rabs (q - IZR n) <= /4 -> (4 * Z.abs n + 3 < 2 ^ prec)%Z ->
  (0 <= q -> Ztrunc (rnd (q + /2)) = n) /\ (q < 0 -> Ztrunc (rnd (q - /2)) = n).
Proof.
  intros Hq Hn. apply Rabs_le_inv in Hq. split; intros H0.
  - assert (Hn0 : (0 <= n)%Z). { assert (IZR (-1) < IZR n) by (simpl; lra). apply lt_IZR in H. lia. }
    assert (L : IZR n + IZR 1 / 4 <= rnd (q + /2)).
    { rewrite <- (round_generic radix2 fexp ZnearestE (IZR n + IZR 1 / 4)) by (apply quarter_format; lia).
      apply round_le; [apply fexp_valid|apply valid_rnd_N|simpl; lra]. }
    assert (U : rnd (q + /2) <= IZR n + IZR 3 / 4).
    { rewrite <- (round_generic radix2 fexp ZnearestE (IZR n + IZR 3 / 4)) by (apply quarter_format; lia).
      apply round_le; [apply fexp_valid|apply valid_rnd_N|simpl; lra]. }
    assert (0 <= IZR n) by (apply IZR_le; exact Hn0).
    rewrite Ztrunc_floor by lra. apply Zfloor_imp. rewrite plus_IZR. lra.
  - assert (Hn0 : (n <= 0)%Z). { assert (IZR n < IZR 1) by (simpl; lra). apply lt_IZR in H. lia. }
    assert (L : IZR n + IZR (-3) / 4 <= rnd (q - /2)).
    { rewrite <- (round_generic radix2 fexp ZnearestE (IZR n + IZR (-3) / 4)) by (apply quarter_format; lia).
      apply round_le; [apply fexp_valid|apply valid_rnd_N|]. replace (IZR (-3)) with (-3) by (simpl; lra). lra. }
    assert (U : rnd (q - /2) <= IZR n + IZR (-1) / 4).
    { rewrite <- (round_generic radix2 fexp ZnearestE (IZR n + IZR (-1) / 4)) by (apply quarter_format; lia).
      apply round_le; [apply fexp_valid|apply valid_rnd_N|]. replace (IZR (-1)) with (-1) by (simpl; lra). lra. }
    assert (IZR n <= 0) by (apply IZR_le; exact Hn0).
    replace (IZR (-3)) with (-3) in L by (simpl; lra). replace (IZR (-1)) with (-1) in U by (simpl; lra).
    rewrite Ztrunc_ceil by lra. apply Zceil_imp. rewrite minus_IZR. lra.
Qed.

Lemma rnd_nonneg0 x : 0 <= x -> 0 <= rnd x.
Proof. intros H. rewrite <- (round_0 radix2 fexp ZnearestE). apply round_le; [apply fexp_valid|apply valid_rnd_N|exact H]. Qed.

(** ---------- encoding an arbitrary in-range value (C11) ---------- *)
Definition half_adj (q : R) : R := if Rle_bool 0 q then rnd (q + /2) else rnd (q - /2).
Definition clampZ (lo hi t : Z) : Z := if (t <? lo)%Z then lo else if (hi <? t)%Z then hi else t.

Lemma half_adj_mono p q : p <= q -> half_adj p <= half_adj q.
Proof.
  intros H. unfold half_adj. destruct (Rle_bool_spec 0 p) as [Hp0|Hp0]; destruct (Rle_bool_spec 0 q) as [Hq0|Hq0].
  - apply round_le; [apply fexp_valid|apply valid_rnd_N|lra].
  - lra.
  - apply round_le; [apply fexp_valid|apply valid_rnd_N|lra].
  - apply round_le; [apply fexp_valid|apply valid_rnd_N|lra].
Qed.

Lemma clampZ_mono lo hi a b : (lo <= hi)%Z -> (a <= b)%Z -> (clampZ lo hi a <= clampZ lo hi b)%Z.
Proof. intros Hl H. unfold clampZ. destruct (Z.ltb_spec a lo); destruct (Z.ltb_spec b lo); destruct (Z.ltb_spec hi a); destruct (Z.ltb_spec hi b); lia. Qed.
Lemma clampZ_id lo hi a : (lo <= a <= hi)%Z -> clampZ lo hi a = a.
Proof. intros H. unfold clampZ. destruct (Z.ltb_spec a lo); [lia|]. destruct (Z.ltb_spec hi a); [lia|reflexivity]. Qed.

Lemma to_int_sat_clamp lo hi (x : bf) : is_finite x = true -> (lo <= 0 <= hi)%Z ->
  to_int_sat prec emax lo hi x = clampZ lo hi (Ztrunc (B2R x)).
Proof.
  intros Fx Hr. destruct x as [s|s| |s m e Hb]; try discriminate.
  - cbn [to_int_sat B2R]. rewrite Ztrunc_IZR. rewrite clampZ_id by lia. reflexivity.
  - unfold to_int_sat, clampZ. rewrite Btrunc_Ztrunc. reflexivity.
Qed.

(** |Ztrunc (half_adj q) - q| <= 1/2 + u (|q| + 1/2) + eta *)
Lemma half_adj_near q : Rabs (IZR (Ztrunc (half_adj q)) - q) <= /2 + (u * (Rabs q + /2) + eta).
Proof.
  pose proof u_pos as Hu. pose proof eta_pos as Het. unfold half_adj.
  destruct (Rle_bool_spec 0 q) as [Hq|Hq].
  - set (y := q + /2). pose proof (rnd_err y) as He.
    assert (Hy : Rabs y <= Rabs q + /2) by (unfold y; rewrite !Rabs_pos_eq by lra; lra).
    assert (Hry : 0 <= rnd y) by (apply rnd_nonneg0; unfold y; lra).
    rewrite Ztrunc_floor by exact Hry.
    pose proof (Zfloor_lb (rnd y)) as F1. pose proof (Zfloor_ub (rnd y)) as F2.
    apply Rabs_le_inv in He. assert (u * Rabs y <= u * (Rabs q + /2)) by (apply Rmult_le_compat_l; lra).
    apply Rabs_le. unfold y in *. lra.
  - set (y := q - /2). pose proof (rnd_err y) as He.
    assert (Hy : Rabs y <= Rabs q + /2) by (unfold y; rewrite !Rabs_left by lra; lra).
    assert (Hry : rnd y <= 0).
    { rewrite <- (round_0 radix2 fexp ZnearestE). apply round_le; [apply fexp_valid|apply valid_rnd_N|unfold y; lra]. }
    rewrite Ztrunc_ceil by exact Hry.
    pose proof (Zceil_ub (rnd y)) as F1. pose proof (Zceil_lb (rnd y)) as F2.
    apply Rabs_le_inv in He. assert (u * Rabs y <= u * (Rabs q + /2)) by (apply Rmult_le_compat_l; lra).
    apply Rabs_le. unfold y in *. lra.
Qed.

(** ---------- decode then encode ---------- *)
Definition biasR (bias : option bf) : R := match bias with Some b => B2R b | None => 0 end.
Definition eE1 (N : Z) (Rr : R) : R := u * IZR N * Rr + eta.
Definition eE2 (N : Z) (Rr Bb : R) : R := u * (IZR N * Rr + eE1 N Rr + Bb) + eta.
Definition eE3 (N : Z) (Rr Bb : R) : R := u * (IZR N * Rr + eE1 N Rr + eE2 N Rr Bb) + eta.
Definition eEtot (hasb : bool) (N : Z) (Rr Bb : R) : R :=
  if hasb then eE1 N Rr + eE2 N Rr Bb + eE3 N Rr Bb else eE1 N Rr.
Definition eEdec (hasb : bool) (N : Z) (Rr Bb : R) : R := if hasb then eE1 N Rr + eE2 N Rr Bb else eE1 N Rr.
Definition has_bias (bias : option bf) : bool := match bias with Some _ => true | None => false end.

Section Row.
  Variable r : bf.
  Variable bias : option bf.
  Variable N : Z.
  Notation Rr := (B2R r).
  Notation Bb := (biasR bias).
  Notation E1 := (eE1 N Rr).
  Notation E2 := (eE2 N Rr Bb).
  Notation E3 := (eE3 N Rr Bb).
  Notation Etot := (eEtot (has_bias bias) N Rr Bb).

  Hypothesis r_fin : is_finite r = true.
  Hypothesis r_pos : 0 < Rr.
  Hypothesis b_fin : match bias with Some b => is_finite b = true | None => True end.
  Hypothesis b_pos : 0 <= Bb.
  Hypothesis N_pos : (0 <= N)%Z.
  Hypothesis N_small : (4 * N + 3 < 2 ^ prec)%Z.
  Hypothesis Hc1 : Etot * (1 + u) + u * IZR N * Rr + eta * Rr <= Rr / 4.
  Hypothesis Hc2 : IZR N * Rr + Etot + Bb <= bpow radix2 (emax - 1).

  Variable n : Z.
  Hypothesis n_le : (Z.abs n <= N)%Z.
  Hypothesis n_sign : match bias with Some _ => (0 <= n)%Z | None => True end.

  Lemma E1_pos : 0 <= E1.
  Proof. unfold eE1. pose proof u_pos. pose proof eta_pos. assert (0 <= IZR N) by (apply IZR_le; exact N_pos). assert (0 <= u * IZR N * Rr) by (repeat apply Rmult_le_pos; lra). lra. Qed.
  Lemma E2_pos : 0 <= E2.
  Proof. unfold eE2. pose proof u_pos. pose proof eta_pos. pose proof E1_pos. assert (0 <= IZR N) by (apply IZR_le; exact N_pos). assert (0 <= IZR N * Rr) by (apply Rmult_le_pos; lra). assert (0 <= u * (IZR N * Rr + E1 + Bb)) by (apply Rmult_le_pos; lra). lra. Qed.
  Lemma E3_pos : 0 <= E3.
  Proof. unfold eE3. pose proof u_pos. pose proof eta_pos. pose proof E1_pos. pose proof E2_pos. assert (0 <= IZR N) by (apply IZR_le; exact N_pos). assert (0 <= IZR N * Rr) by (apply Rmult_le_pos; lra). assert (0 <= u * (IZR N * Rr + E1 + E2)) by (apply Rmult_le_pos; lra). lra. Qed.
  Lemma Etot_ge : E1 <= Etot /\ 0 <= Etot.
  Proof. pose proof E1_pos. pose proof E2_pos. pose proof E3_pos. unfold eEtot. destruct (has_bias bias); lra. Qed.

  Lemma absn : Rabs (IZR n) <= IZR N.
  Proof. rewrite <- abs_IZR. apply IZR_le. exact n_le. Qed.
  Lemma NR_pos : 0 <= IZR N * Rr.
  Proof. apply Rmult_le_pos; [apply IZR_le; exact N_pos|lra]. Qed.
  Lemma absnR : Rabs (IZR n * Rr) <= IZR N * Rr.
  Proof. rewrite Rabs_mult, (Rabs_pos_eq Rr) by lra. apply Rmult_le_compat_r; [lra|exact absn]. Qed.

  Lemma n_repr : (Z.abs n < 2 ^ prec)%Z.
  Proof. lia. Qed.

  (** the product: d1 = rnd (n Rr) *)
  Notation zf := (ofZ prec emax Hp Hpe n).
  Notation d1f := (fmul prec emax Hp Hpe zf r).
  Lemma d1_ok : B2R d1f = rnd (IZR n * Rr) /\ is_finite d1f = true /\ Rabs (rnd (IZR n * Rr) - IZR n * Rr) <= E1.
  Proof.
    destruct (ofZ_correct n n_repr) as [Zv Zf]. pose proof Etot_ge as [HE1 HE0]. pose proof NR_pos. pose proof absnR.
    destruct (fmul_ok zf r Zf r_fin) as [A Bf]; [rewrite Zv; lra|]. rewrite Zv in A.
    split; [exact A|]. split; [exact Bf|].
    eapply Rle_trans; [apply rnd_err|]. unfold eE1. pose proof u_pos.
    assert (u * Rabs (IZR n * Rr) <= u * (IZR N * Rr)) by (apply Rmult_le_compat_l; lra). lra.
  Qed.

  Lemma rnd_nonneg x : 0 <= x -> 0 <= rnd x.
  Proof. intros H. rewrite <- (round_0 radix2 fexp ZnearestE). apply round_le; [apply fexp_valid|apply valid_rnd_N|exact H]. Qed.

  Lemma B2R_format (x : bf) : generic_format radix2 fexp (B2R x).
  Proof. apply generic_format_B2R. Qed.

  Notation decf := (fdec_core prec emax Hp Hpe (Some r) bias n).

  (** the decoded value is finite, passes the bias test, and after removing the bias is within Etot of n Rr *)
  Lemma dec_ok : is_finite decf = true /\
    exists x1f, match bias with
                | None => Ok decf
                | Some b => if fge prec emax decf b then Ok (fsub prec emax Hp Hpe decf b) else Err OutOfRange
                end = Ok x1f /\ is_finite x1f = true /\ Rabs (B2R x1f - IZR n * Rr) <= Etot.
  Proof.
    destruct d1_ok as [D1v [D1f D1e]]. pose proof Etot_ge as [HE1 HE0]. pose proof NR_pos as HNR. pose proof absnR as HnR.
    pose proof E1_pos. pose proof E2_pos. pose proof E3_pos. pose proof u_pos as Hu. pose proof eta_pos.
    unfold fdec_core. revert b_fin n_sign b_pos Hc1 Hc2 HE1 HE0 H H0 H1. destruct bias as [b|]; cbn [has_bias biasR eEtot]; intros b_fin' n_sign' b_pos' Hc1' Hc2' HE1 HE0 H H0 H1.
    - (* biased: n >= 0 *)
      set (d1 := rnd (IZR n * Rr)) in *.
      assert (Hn0 : 0 <= IZR n) by (apply IZR_le; exact n_sign').
      assert (Hd1p : 0 <= d1) by (apply rnd_nonneg; apply Rmult_le_pos; lra).
      assert (Hd1a : Rabs d1 <= IZR N * Rr + eE1 N Rr).
      { replace d1 with (IZR n * Rr + (d1 - IZR n * Rr)) by ring. eapply Rle_trans; [apply Rabs_triang|]. lra. }
      rewrite Rabs_pos_eq in Hd1a by exact Hd1p.
      destruct (fadd_ok d1f b D1f b_fin') as [Sv Sf]; [rewrite D1v; fold d1; rewrite Rabs_pos_eq by lra; lra|].
      rewrite D1v in Sv. fold d1 in Sv.
      set (d := rnd (d1 + B2R b)) in *.
      assert (Hde : Rabs (d - (d1 + B2R b)) <= eE2 N Rr (B2R b)).
      { eapply Rle_trans; [apply rnd_err|]. unfold eE2. rewrite Rabs_pos_eq by lra.
        assert (u * (d1 + B2R b) <= u * (IZR N * Rr + eE1 N Rr + B2R b)) by (apply Rmult_le_compat_l; lra). lra. }
      assert (Hdb : B2R b <= d).
      { unfold d. rewrite <- (round_generic radix2 fexp ZnearestE (B2R b)) at 1 by apply B2R_format.
        apply round_le; [apply fexp_valid|apply valid_rnd_N|lra]. }
      split; [exact Sf|].
      rewrite (fge_correct _ b Sf b_fin'), Sv. destruct (Rle_bool_spec (B2R b) d) as [_|Hlt]; [|lra].
      apply Rabs_le_inv in Hde.
      assert (Ht : Rabs (d - B2R b) <= IZR N * Rr + eE1 N Rr + eE2 N Rr (B2R b)) by (apply Rabs_le; lra).
      destruct (fsub_ok _ b Sf b_fin') as [Tv Tf]; [rewrite Sv; lra|]. rewrite Sv in Tv.
      eexists. split; [reflexivity|]. split; [exact Tf|]. rewrite Tv.
      replace (rnd (d - B2R b) - IZR n * Rr) with ((rnd (d - B2R b) - (d - B2R b)) + (d - (d1 + B2R b)) + (d1 - IZR n * Rr)) by ring.
      eapply Rle_trans; [apply Rabs_triang|]. eapply Rle_trans; [apply Rplus_le_compat_r; apply Rabs_triang|].
      assert (Rabs (rnd (d - B2R b) - (d - B2R b)) <= eE3 N Rr (B2R b)).
      { eapply Rle_trans; [apply rnd_err|]. unfold eE3.
        assert (u * Rabs (d - B2R b) <= u * (IZR N * Rr + eE1 N Rr + eE2 N Rr (B2R b))) by (apply Rmult_le_compat_l; lra). lra. }
      assert (Rabs (d - (d1 + B2R b)) <= eE2 N Rr (B2R b)) by (apply Rabs_le; lra).
      lra.
    - split; [exact D1f|]. eexists. split; [reflexivity|]. split; [exact D1f|]. rewrite D1v. exact D1e.
  Qed.

  (** the decoded value is within Edec of n R + B, and (biased rows) not below the bias *)
  Lemma dec_val : Rabs (B2R decf - (IZR n * Rr + Bb)) <= eEdec (has_bias bias) N Rr Bb /\ (has_bias bias = true -> Bb <= B2R decf).
  Proof.
    destruct d1_ok as [D1v [D1f D1e]]. pose proof NR_pos as HNR. pose proof absnR as HnR.
    pose proof E1_pos. pose proof E2_pos. pose proof E3_pos. pose proof u_pos as Hu. pose proof eta_pos.
    unfold fdec_core. revert b_fin n_sign b_pos Hc1 Hc2 H H0 H1. destruct bias as [b|]; cbn [has_bias biasR eEtot eEdec]; intros b_fin' n_sign' b_pos' Hc1' Hc2' H H0 H1.
    - set (d1 := rnd (IZR n * Rr)) in *.
      assert (Hn0 : 0 <= IZR n) by (apply IZR_le; exact n_sign').
      assert (Hd1p : 0 <= d1) by (apply rnd_nonneg; apply Rmult_le_pos; lra).
      assert (Hd1a : Rabs d1 <= IZR N * Rr + eE1 N Rr).
      { replace d1 with (IZR n * Rr + (d1 - IZR n * Rr)) by ring. eapply Rle_trans; [apply Rabs_triang|]. lra. }
      rewrite Rabs_pos_eq in Hd1a by exact Hd1p.
      destruct (fadd_ok d1f b D1f b_fin') as [Sv Sf]; [rewrite D1v; fold d1; rewrite Rabs_pos_eq by lra; lra|].
      rewrite D1v in Sv. fold d1 in Sv. rewrite Sv.
      assert (Hde : Rabs (rnd (d1 + B2R b) - (d1 + B2R b)) <= eE2 N Rr (B2R b)).
      { eapply Rle_trans; [apply rnd_err|]. unfold eE2. rewrite Rabs_pos_eq by lra.
        assert (u * (d1 + B2R b) <= u * (IZR N * Rr + eE1 N Rr + B2R b)) by (apply Rmult_le_compat_l; lra). lra. }
      split.
      + replace (rnd (d1 + B2R b) - (IZR n * Rr + B2R b)) with ((rnd (d1 + B2R b) - (d1 + B2R b)) + (d1 - IZR n * Rr)) by ring.
        eapply Rle_trans; [apply Rabs_triang|]. lra.
      + intros _. rewrite <- (round_generic radix2 fexp ZnearestE (B2R b)) at 1 by apply B2R_format.
        apply round_le; [apply fexp_valid|apply valid_rnd_N|lra].
    - rewrite D1v. split; [rewrite Rplus_0_r; exact D1e|discriminate].
  Qed.

  Variables (ck : ckind) (cbits : Z).
  Hypothesis n_carrier : (cmin ck cbits <= n <= cmax ck cbits)%Z.

  Theorem enc_dec : is_finite decf = true /\ fenc_core prec emax Hp Hpe (Some r) bias true ck cbits decf = Ok n.
  Proof.
    destruct dec_ok as [Df [x1f [Hx1 [X1f X1e]]]]. split; [exact Df|].
    unfold fenc_core. rewrite Hx1. cbn [bind].
    pose proof Etot_ge as [HE1 HE0]. pose proof NR_pos as HNR.
    assert (HN0 : 0 <= IZR N) by (apply IZR_le; exact N_pos).
    destruct (quot_close Rr (IZR N) Etot (B2R x1f) n r_pos HE0 HN0 absn X1e Hc1) as [Qc Qb].
    assert (HNb : IZR N + 1 <= bpow radix2 (emax - 1)).
    { rewrite <- plus_IZR. apply Rle_trans with (IZR (2 ^ prec)); [apply IZR_le; lia|]. apply pow2_emax_bound. pose proof prec_pos. lia. }
    destruct (fdiv_ok x1f r X1f (Rgt_not_eq _ _ r_pos)) as [Qv Qf]; [lra|].
    set (q := rnd (B2R x1f / Rr)) in *.
    destruct (round_trunc q n Qc ltac:(lia)) as [Tp Tn].
    destruct (fhalf_correct) as [Hv Hf]. destruct (fmhalf_correct) as [Mv Mf].
    assert (Zf : is_finite (fzero prec emax) = true) by reflexivity.
    rewrite (fge_correct _ _ Qf Zf), Qv. change (B2R (fzero prec emax)) with 0.
    pose proof absn as Han. apply Rabs_le_inv in Qc. apply Rabs_le_inv in Han.
    destruct (Rle_bool_spec 0 q) as [Hq|Hq].
    - destruct (fadd_ok _ _ Qf Hf) as [Av Af]; [rewrite Qv, Hv; fold q; apply Rabs_le; lra|].
      rewrite Qv, Hv in Av. fold q in Av.
      rewrite to_int_sat_ok; rewrite ?Av, ?(Tp Hq); [reflexivity|exact Af|exact n_carrier].
    - destruct (fadd_ok _ _ Qf Mf) as [Av Af]; [rewrite Qv, Mv; fold q; apply Rabs_le; lra|].
      rewrite Qv, Mv in Av. fold q in Av. replace (q + - / 2) with (q - /2) in Av by ring.
      rewrite to_int_sat_ok; rewrite ?Av, ?(Tn Hq); [reflexivity|exact Af|exact n_carrier].
  Qed.
End Row.

(** ---------- any in-range input: what the encoder computes, monotonicity, nearest grid point ---------- *)
Definition encR (Rr Bb x : R) : Z := Ztrunc (half_adj (rnd (rnd (x - Bb) / Rr))).
(** rounding slack of the quotient, in resolution steps, for |x - B| <= T R *)
Definition qA (T Rr : R) : R := u * T + eta / Rr.
Definition qD (T Rr : R) : R := qA T Rr + u * (T + qA T Rr) + eta.
Definition qe (T Rr : R) : R := u * (T + qD T Rr + /2) + eta.
Definition slackq (T Rr : R) : R := qD T Rr + qe T Rr.

Lemma encR_mono Rr Bb x y : 0 < Rr -> x <= y -> (encR Rr Bb x <= encR Rr Bb y)%Z.
Proof.
  intros HR H. unfold encR. apply Ztrunc_le. apply half_adj_mono.
  apply round_le; [apply fexp_valid|apply valid_rnd_N|].
  apply Rmult_le_compat_r; [left; apply Rinv_0_lt_compat; exact HR|].
  apply round_le; [apply fexp_valid|apply valid_rnd_N|lra].
Qed.

Lemma u_le_1 : u <= 1.
Proof. change 1 with (bpow radix2 0). apply bpow_le. pose proof prec_pos. lia. Qed.
Lemma eta_le_1 : eta <= 1.
Proof. change 1 with (bpow radix2 0). apply bpow_le. pose proof prec_pos. pose proof prec_emax. lia. Qed.

Lemma encR_near Rr Bb T x : 0 < Rr -> 0 <= T -> Rabs (x - Bb) <= T * Rr ->
  Rabs (IZR (encR Rr Bb x) - (x - Bb) / Rr) <= /2 + slackq T Rr /\
  Rabs (rnd (x - Bb)) <= T * Rr + (u * (T * Rr) + eta) /\
  Rabs (rnd (rnd (x - Bb) / Rr)) <= T + qD T Rr.
Proof.
  intros HR HT Hz. pose proof u_pos as Hu. pose proof eta_pos as Het.
  set (z := x - Bb) in *. set (x1 := rnd z). set (q0 := x1 / Rr). set (q := rnd q0).
  assert (Hi : 0 < / Rr) by (apply Rinv_0_lt_compat; exact HR).
  assert (H1 : Rabs (x1 - z) <= u * (T * Rr) + eta).
  { eapply Rle_trans; [apply rnd_err|]. assert (u * Rabs z <= u * (T * Rr)) by (apply Rmult_le_compat_l; lra). lra. }
  assert (H1a : Rabs x1 <= T * Rr + (u * (T * Rr) + eta)) by (pose proof (rnd_abs_le z _ H1) as Hx; fold x1 in Hx; lra).
  assert (H2 : Rabs (q0 - z / Rr) <= qA T Rr).
  { unfold q0, qA. replace (x1 / Rr - z / Rr) with ((x1 - z) / Rr) by (field; lra).
    unfold Rdiv. rewrite Rabs_mult, (Rabs_pos_eq (/ Rr)) by lra.
    replace (u * T + eta * / Rr) with ((u * (T * Rr) + eta) * / Rr) by (field; lra).
    apply Rmult_le_compat_r; lra. }
  assert (Ht : Rabs (z / Rr) <= T).
  { unfold Rdiv. rewrite Rabs_mult, (Rabs_pos_eq (/ Rr)) by lra. replace T with (T * Rr * / Rr) by (field; lra). apply Rmult_le_compat_r; lra. }
  assert (HA0 : 0 <= qA T Rr) by (eapply Rle_trans; [apply Rabs_pos|exact H2]).
  assert (H2a : Rabs q0 <= T + qA T Rr).
  { replace q0 with (z / Rr + (q0 - z / Rr)) by ring. eapply Rle_trans; [apply Rabs_triang|]. lra. }
  assert (H3 : Rabs (q - q0) <= u * (T + qA T Rr) + eta).
  { eapply Rle_trans; [apply rnd_err|]. assert (u * Rabs q0 <= u * (T + qA T Rr)) by (apply Rmult_le_compat_l; lra). lra. }
  assert (H3a : Rabs (q - z / Rr) <= qD T Rr).
  { unfold qD. replace (q - z / Rr) with ((q - q0) + (q0 - z / Rr)) by ring. eapply Rle_trans; [apply Rabs_triang|]. lra. }
  assert (H3b : Rabs q <= T + qD T Rr).
  { replace q with (z / Rr + (q - z / Rr)) by ring. eapply Rle_trans; [apply Rabs_triang|]. lra. }
  split; [|split; [exact H1a|exact H3b]].
  unfold encR. fold z x1 q0 q.
  pose proof (half_adj_near q) as H4.
  replace (IZR (Ztrunc (half_adj q)) - z / Rr) with ((IZR (Ztrunc (half_adj q)) - q) + (q - z / Rr)) by ring.
  eapply Rle_trans; [apply Rabs_triang|]. unfold slackq, qe.
  assert (u * (Rabs q + /2) <= u * (T + qD T Rr + /2)) by (apply Rmult_le_compat_l; lra). lra.
Qed.

Section Enc.
  Variable r : bf.
  Variable bias : option bf.
  Variable N : Z.
  Notation Rr := (B2R r).
  Notation Bb := (biasR bias).
  Notation T := (IZR N + 1).
  Hypothesis r_fin : is_finite r = true.
  Hypothesis r_pos : 0 < Rr.
  Hypothesis b_fin : match bias with Some b => is_finite b = true | None => True end.
  Hypothesis N_pos : (0 <= N)%Z.
  Hypothesis N_small : (4 * N + 8 <= 2 ^ prec)%Z.
  Hypothesis Heta : eta <= Rr / 4.
  Hypothesis Hov : T * Rr <= bpow radix2 (emax - 1).
  Hypothesis HqD : qD T Rr <= /4.

  (** fenc_core on a finite in-range input is the real-number pipeline, clamped to the carrier *)
  Lemma enc_real (x : bf) ck cbits : is_finite x = true -> (has_bias bias = true -> Bb <= B2R x) ->
    Rabs (B2R x - Bb) <= T * Rr -> (cmin ck cbits <= 0 <= cmax ck cbits)%Z ->
    fenc_core prec emax Hp Hpe (Some r) bias true ck cbits x = Ok (clampZ (cmin ck cbits) (cmax ck cbits) (encR Rr Bb (B2R x))).
  Proof.
    intros Fx Hbx Hz Hc. pose proof u_pos as Hu. pose proof eta_pos as Het. pose proof u_le_1. pose proof eta_le_1.
    assert (HT : 0 <= T) by (assert (0 <= IZR N) by (apply IZR_le; exact N_pos); lra).
    destruct (encR_near Rr Bb T (B2R x) r_pos HT Hz) as [_ [Hx1 Hq]].
    assert (HTR : 0 <= T * Rr) by (apply Rmult_le_pos; lra).
    (* the bias step *)
    assert (S1 : exists x1f, match bias with
                | None => Ok x
                | Some b => if fge prec emax x b then Ok (fsub prec emax Hp Hpe x b) else Err OutOfRange
                end = Ok x1f /\ is_finite x1f = true /\ B2R x1f = rnd (B2R x - Bb)).
    { revert b_fin Hbx Hz. destruct bias as [b|]; cbn [biasR has_bias]; intros b_fin' Hbx' Hz'.
      - rewrite (fge_correct _ b Fx b_fin'). destruct (Rle_bool_spec (B2R b) (B2R x)) as [_|Hlt]; [|specialize (Hbx' eq_refl); lra].
        destruct (fsub_ok x b Fx b_fin') as [Tv Tf]; [lra|]. eexists. split; [reflexivity|]. split; assumption.
      - exists x. split; [reflexivity|]. split; [exact Fx|]. rewrite Rminus_0_r. symmetry. apply round_generic; [apply valid_rnd_N|apply generic_format_B2R]. }
    destruct S1 as [x1f [E1' [X1f X1v]]]. unfold fenc_core. rewrite E1'. cbn [bind].
    assert (HNb : IZR (4 * N + 8) <= bpow radix2 (emax - 1)).
    { apply Rle_trans with (IZR (2 ^ prec)); [apply IZR_le; exact N_small|]. apply pow2_emax_bound. pose proof prec_pos. lia. }
    rewrite plus_IZR, mult_IZR in HNb.
    assert (Hi : 0 < / Rr) by (apply Rinv_0_lt_compat; exact r_pos).
    assert (Hq0 : Rabs (B2R x1f / Rr) <= 2 * T + /4).
    { rewrite X1v. unfold Rdiv. rewrite Rabs_mult, (Rabs_pos_eq (/ Rr)) by lra.
      apply Rle_trans with ((T * Rr + (u * (T * Rr) + eta)) * / Rr); [apply Rmult_le_compat_r; lra|].
      replace ((T * Rr + (u * (T * Rr) + eta)) * / Rr) with (T + u * T + eta * / Rr) by (field; lra).
      assert (u * T <= 1 * T) by (apply Rmult_le_compat_r; lra).
      assert (eta * / Rr <= /4). { apply Rmult_le_reg_r with Rr; [exact r_pos|]. rewrite Rmult_assoc, Rinv_l by lra. lra. }
      lra. }
    destruct (fdiv_ok x1f r X1f (Rgt_not_eq _ _ r_pos)) as [Qv Qf]; [lra|]. rewrite X1v in Qv.
    set (q := rnd (rnd (B2R x - Bb) / Rr)) in *.
    destruct (fhalf_correct) as [Hv Hf]. destruct (fmhalf_correct) as [Mv Mf].
    assert (Zf : is_finite (fzero prec emax) = true) by reflexivity.
    rewrite (fge_correct _ _ Qf Zf), Qv. change (B2R (fzero prec emax)) with 0.
    apply Rabs_le_inv in Hq.
    unfold encR, half_adj. fold q.
    destruct (Rle_bool_spec 0 q) as [Hq'|Hq'].
    - destruct (fadd_ok _ _ Qf Hf) as [Av Af]; [rewrite Qv, Hv; apply Rabs_le; lra|].
      rewrite Qv, Hv in Av. rewrite to_int_sat_clamp by assumption. rewrite Av. reflexivity.
    - destruct (fadd_ok _ _ Qf Mf) as [Av Af]; [rewrite Qv, Mv; apply Rabs_le; lra|].
      rewrite Qv, Mv in Av. replace (q + - / 2) with (q - /2) in Av by ring.
      rewrite to_int_sat_clamp by assumption. rewrite Av. reflexivity.
  Qed.
End Enc.

Section Near.
  Variable r : bf.
  Variable bias : option bf.
  Variable N : Z.
  Notation Rr := (B2R r).
  Notation Bb := (biasR bias).
  Notation T := (IZR N + 1).
  Notation Etot := (eEtot (has_bias bias) N Rr Bb).
  Notation Edec := (eEdec (has_bias bias) N Rr Bb).
  Hypothesis r_fin : is_finite r = true.
  Hypothesis r_pos : 0 < Rr.
  Hypothesis b_fin : match bias with Some b => is_finite b = true | None => True end.
  Hypothesis b_pos : 0 <= Bb.
  Hypothesis N_pos : (0 <= N)%Z.
  Hypothesis N_small : (4 * N + 8 <= 2 ^ prec)%Z.
  Hypothesis Hc1 : Etot * (1 + u) + u * IZR N * Rr + eta * Rr <= Rr / 4.
  Hypothesis Hc2 : IZR N * Rr + Etot + Bb <= bpow radix2 (emax - 1).
  Hypothesis Hov : T * Rr <= bpow radix2 (emax - 1).
  Hypothesis HqD : qD T Rr <= /4.
  Hypothesis Hslack : Rr * slackq T Rr + Edec <= Rr / 4.

  Notation decf := (fdec_core prec emax Hp Hpe (Some r) bias).

  Lemma N_small3 : (4 * N + 3 < 2 ^ prec)%Z. Proof. lia. Qed.

  Lemma Edec_le : 0 <= Edec /\ Edec <= Etot /\ Etot <= Rr / 4 /\ eta <= Rr / 4.
  Proof.
    pose proof (E1_pos r N r_pos N_pos) as H1. pose proof (E2_pos r bias N r_pos b_pos N_pos) as H2. pose proof (E3_pos r bias N r_pos b_pos N_pos) as H3.
    pose proof u_pos. pose proof eta_pos. pose proof (NR_pos r N r_pos N_pos).
    assert (0 <= u * IZR N * Rr) by (rewrite Rmult_assoc; apply Rmult_le_pos; lra).
    assert (0 <= eta * Rr) by (apply Rmult_le_pos; lra).
    assert (HE : 0 <= Etot) by (unfold eEtot; destruct (has_bias bias); lra).
    assert (0 <= Etot * u) by (apply Rmult_le_pos; lra).
    assert (eta <= eE1 N Rr) by (unfold eE1; lra).
    unfold eEdec, eEtot in *. destruct (has_bias bias); repeat split; lra.
  Qed.

  (** in-range facts about a decoded grid point *)
  Lemma grid_point k : (Z.abs k <= N)%Z -> match bias with Some _ => (0 <= k)%Z | None => True end ->
    is_finite (decf k) = true /\ (has_bias bias = true -> Bb <= B2R (decf k)) /\
    Rabs (B2R (decf k) - (IZR k * Rr + Bb)) <= Edec /\ Rabs (B2R (decf k) - Bb) <= T * Rr /\
    encR Rr Bb (B2R (decf k)) = k.
  Proof.
    intros Hk Hs. pose proof Edec_le as [E0 [E1' [E2' _]]].
    destruct (dec_ok r bias N r_fin r_pos b_fin b_pos N_pos N_small3 Hc1 Hc2 k Hk Hs) as [Df _].
    destruct (dec_val r bias N r_fin r_pos b_fin b_pos N_pos N_small3 Hc1 Hc2 k Hk Hs) as [Dv Db].
    assert (HkN : Rabs (IZR k) <= IZR N) by (rewrite <- abs_IZR; apply IZR_le; exact Hk).
    assert (HkR : Rabs (IZR k * Rr) <= IZR N * Rr) by (rewrite Rabs_mult, (Rabs_pos_eq Rr) by lra; apply Rmult_le_compat_r; lra).
    assert (Hin : Rabs (B2R (decf k) - Bb) <= T * Rr).
    { replace (B2R (decf k) - Bb) with ((B2R (decf k) - (IZR k * Rr + Bb)) + IZR k * Rr) by ring.
      eapply Rle_trans; [apply Rabs_triang|]. lra. }
    split; [exact Df|]. split; [exact Db|]. split; [exact Dv|]. split; [exact Hin|].
    assert (HT : 0 <= T) by (assert (0 <= IZR N) by (apply IZR_le; exact N_pos); lra).
    destruct (encR_near Rr Bb T (B2R (decf k)) r_pos HT Hin) as [Hn _].
    (* |encR - k| <= 1/2 + slackq + Edec / R < 1 *)
    assert (Hq : Rabs ((B2R (decf k) - Bb) / Rr - IZR k) <= Edec / Rr).
    { replace ((B2R (decf k) - Bb) / Rr - IZR k) with ((B2R (decf k) - (IZR k * Rr + Bb)) / Rr) by (field; lra).
      unfold Rdiv. assert (0 < / Rr) by (apply Rinv_0_lt_compat; exact r_pos). rewrite Rabs_mult, (Rabs_pos_eq (/ Rr)) by lra.
      apply Rmult_le_compat_r; lra. }
    assert (Hs4 : slackq T Rr + Edec / Rr <= /4).
    { apply Rmult_le_reg_r with Rr; [exact r_pos|]. replace ((slackq T Rr + Edec / Rr) * Rr) with (Rr * slackq T Rr + Edec) by (field; lra). lra. }
    assert (Hd : Rabs (IZR (encR Rr Bb (B2R (decf k))) - IZR k) < 1).
    { replace (IZR (encR Rr Bb (B2R (decf k))) - IZR k) with
        ((IZR (encR Rr Bb (B2R (decf k))) - (B2R (decf k) - Bb) / Rr) + ((B2R (decf k) - Bb) / Rr - IZR k)) by ring.
      eapply Rle_lt_trans; [apply Rabs_triang|]. lra. }
    rewrite <- minus_IZR in Hd. apply Rabs_lt_inv in Hd. destruct Hd as [Hd1 Hd2].
    change (- (1)) with (IZR (-1)) in Hd1. change 1 with (IZR 1) in Hd2. apply lt_IZR in Hd1, Hd2. lia.
  Qed.

  Variables (ck : ckind) (cbits : Z).

  (** any finite input between the lowest and the highest grid point: the result is the real-number
      pipeline, unclamped, and stays between the two ends (no wrap-around, no saturation) *)
  Theorem enc_in_range (x : bf) lo hi : is_finite x = true -> (Z.abs lo <= N)%Z -> (Z.abs hi <= N)%Z ->
    match bias with Some _ => (0 <= lo)%Z /\ (0 <= hi)%Z | None => True end ->
    (cmin ck cbits <= lo)%Z -> (hi <= cmax ck cbits)%Z -> (cmin ck cbits <= 0 <= cmax ck cbits)%Z ->
    B2R (decf lo) <= B2R x <= B2R (decf hi) ->
    fenc_core prec emax Hp Hpe (Some r) bias true ck cbits x = Ok (encR Rr Bb (B2R x)) /\
    (lo <= encR Rr Bb (B2R x) <= hi)%Z.
  Proof.
    intros Fx Hk Hk1 Hs Hlo Hhi Hc0 [Hx1 Hx2]. pose proof Edec_le as [E0 [E1' [E2' Heta]]].
    assert (Hs0 : match bias with Some _ => (0 <= lo)%Z | None => True end) by (destruct bias; [tauto|exact I]).
    assert (Hs1 : match bias with Some _ => (0 <= hi)%Z | None => True end) by (destruct bias; [tauto|exact I]).
    destruct (grid_point lo Hk Hs0) as [Fk [Bk [Vk [Ik Ek]]]].
    destruct (grid_point hi Hk1 Hs1) as [Fk1 [Bk1 [Vk1 [Ik1 Ek1]]]].
    assert (Hin : Rabs (B2R x - Bb) <= T * Rr).
    { apply Rabs_le_inv in Ik. apply Rabs_le_inv in Ik1. apply Rabs_le. lra. }
    assert (Hbx : has_bias bias = true -> Bb <= B2R x) by (intros Hb; specialize (Bk Hb); lra).
    rewrite (enc_real r bias N); try assumption.
    pose proof (encR_mono Rr Bb _ _ r_pos Hx1) as M1. pose proof (encR_mono Rr Bb _ _ r_pos Hx2) as M2.
    rewrite Ek in M1. rewrite Ek1 in M2.
    rewrite clampZ_id by lia. split; [reflexivity|lia].
  Qed.

  (** an input between two adjacent grid points goes to one of them, within half a step plus the slack *)
  Theorem enc_between (x : bf) k : is_finite x = true -> (Z.abs k <= N)%Z -> (Z.abs (k + 1) <= N)%Z ->
    match bias with Some _ => (0 <= k)%Z | None => True end ->
    (cmin ck cbits <= k)%Z -> (k + 1 <= cmax ck cbits)%Z -> (cmin ck cbits <= 0 <= cmax ck cbits)%Z ->
    B2R (decf k) <= B2R x <= B2R (decf (k + 1)) ->
    exists n, fenc_core prec emax Hp Hpe (Some r) bias true ck cbits x = Ok n /\ (n = k \/ n = k + 1)%Z /\
              Rabs (B2R x - B2R (decf n)) <= Rr / 2 + (Rr * slackq T Rr + Edec).
  Proof.
    intros Fx Hk Hk1 Hs Hlo Hhi Hc0 [Hx1 Hx2]. pose proof Edec_le as [E0 [E1' [E2' Heta]]].
    assert (Hs1 : match bias with Some _ => (0 <= k + 1)%Z | None => True end) by (destruct bias; [lia|exact I]).
    destruct (grid_point k Hk Hs) as [Fk [Bk [Vk [Ik Ek]]]].
    destruct (grid_point (k + 1) Hk1 Hs1) as [Fk1 [Bk1 [Vk1 [Ik1 Ek1]]]].
    assert (Hin : Rabs (B2R x - Bb) <= T * Rr).
    { apply Rabs_le_inv in Ik. apply Rabs_le_inv in Ik1. apply Rabs_le. lra. }
    assert (Hbx : has_bias bias = true -> Bb <= B2R x) by (intros Hb; specialize (Bk Hb); lra).
    rewrite (enc_real r bias N); try assumption.
    pose proof (encR_mono Rr Bb _ _ r_pos Hx1) as M1. pose proof (encR_mono Rr Bb _ _ r_pos Hx2) as M2.
    rewrite Ek in M1. rewrite Ek1 in M2.
    set (n := encR Rr Bb (B2R x)) in *.
    rewrite clampZ_id by lia. exists n. split; [reflexivity|]. split; [lia|].
    assert (HT : 0 <= T) by (assert (0 <= IZR N) by (apply IZR_le; exact N_pos); lra).
    destruct (encR_near Rr Bb T (B2R x) r_pos HT Hin) as [Hn _]. fold n in Hn.
    assert (HnN : (Z.abs n <= N)%Z) by lia.
    assert (Hsn : match bias with Some _ => (0 <= n)%Z | None => True end) by (destruct bias; [lia|exact I]).
    destruct (grid_point n HnN Hsn) as [_ [_ [Vn _]]].
    replace (B2R x - B2R (decf n)) with (Rr * ((B2R x - Bb) / Rr - IZR n) + ((IZR n * Rr + Bb) - B2R (decf n))) by (field; lra).
    eapply Rle_trans; [apply Rabs_triang|].
    rewrite Rabs_mult, (Rabs_pos_eq Rr) by lra. rewrite (Rabs_minus_sym (IZR n * Rr + Bb)).
    rewrite Rabs_minus_sym in Hn.
    assert (Rr * Rabs ((B2R x - Bb) / Rr - IZR n) <= Rr * (/2 + slackq T Rr)) by (apply Rmult_le_compat_l; lra).
    lra.
  Qed.
End Near.
End FP.

(** ---------- the side conditions as a boolean on exact rationals ---------- *)
Definition qpow2 (e : Z) : Q := if (0 <=? e)%Z then inject_Z (2 ^ e) else 1 # Z.to_pos (2 ^ (- e)).

Lemma Q2R_inject_Z z : Q2R (inject_Z z) = IZR z.
Proof. unfold Q2R, inject_Z. cbn [Qnum Qden]. rewrite Rinv_1. ring. Qed.

Lemma Q2R_qpow2 e : Q2R (qpow2 e) = bpow radix2 e.
Proof.
  unfold qpow2. destruct (Z.leb_spec 0 e) as [H|H].
  - rewrite Q2R_inject_Z. change 2%Z with (radix_val radix2). apply IZR_Zpower. exact H.
  - unfold Q2R. cbn [Qnum Qden]. rewrite Z2Pos.id by (apply Z.pow_pos_nonneg; lia).
    replace e with (- (- e))%Z at 2 by lia. rewrite bpow_opp. change 2%Z with (radix_val radix2). rewrite IZR_Zpower by lia. ring.
Qed.

Section QB.
Variables prec emax : Z.
Context (Hp : Prec_gt_0 prec) (Hpe : Prec_lt_emax prec emax).
Notation bf := (binary_float prec emax).

Definition B2Q (x : bf) : Q :=
  match x with
  | B754_finite s m e _ => inject_Z (cond_Zopp s (Zpos m)) * qpow2 e
  | _ => 0
  end.
Lemma Q2R_B2Q x : is_finite x = true -> Q2R (B2Q x) = B2R x.
Proof.
  destruct x as [s|s| |s m e Hb]; try discriminate; intros _; cbn [B2Q B2R].
  - unfold Q2R. cbn. lra.
  - rewrite Q2R_mult, Q2R_inject_Z, Q2R_qpow2. reflexivity.
Qed.

Definition qu : Q := qpow2 (- prec).
Definition qeta : Q := qpow2 (3 - emax - prec - 1).
Definition qE1 (N : Z) (r : Q) : Q := qu * inject_Z N * r + qeta.
Definition qE2 (N : Z) (r b : Q) : Q := qu * (inject_Z N * r + qE1 N r + b) + qeta.
Definition qE3 (N : Z) (r b : Q) : Q := qu * (inject_Z N * r + qE1 N r + qE2 N r b) + qeta.
Definition qEtot (hasb : bool) (N : Z) (r b : Q) : Q := if hasb then qE1 N r + qE2 N r b + qE3 N r b else qE1 N r.

Lemma Q2R_qE1 N r : Q2R (qE1 N r) = eE1 prec emax N (Q2R r).
Proof. unfold qE1, eE1, qu, qeta. rewrite Q2R_plus, !Q2R_mult, Q2R_inject_Z, !Q2R_qpow2. reflexivity. Qed.
Lemma Q2R_qE2 N r b : Q2R (qE2 N r b) = eE2 prec emax N (Q2R r) (Q2R b).
Proof. unfold qE2, eE2, qu, qeta. rewrite !Q2R_plus, !Q2R_mult, !Q2R_plus, Q2R_mult, Q2R_inject_Z, !Q2R_qpow2, Q2R_qE1. reflexivity. Qed.
Lemma Q2R_qE3 N r b : Q2R (qE3 N r b) = eE3 prec emax N (Q2R r) (Q2R b).
Proof. unfold qE3, eE3, qu, qeta. rewrite !Q2R_plus, !Q2R_mult, !Q2R_plus, Q2R_mult, Q2R_inject_Z, !Q2R_qpow2, Q2R_qE1, Q2R_qE2. reflexivity. Qed.
Lemma Q2R_qEtot h N r b : Q2R (qEtot h N r b) = eEtot prec emax h N (Q2R r) (Q2R b).
Proof. unfold qEtot, eEtot. destruct h; rewrite ?Q2R_plus, ?Q2R_qE1, ?Q2R_qE2, ?Q2R_qE3; reflexivity. Qed.

Definition biasQ (bias : option bf) : Q := match bias with Some b => B2Q b | None => 0 end.

Definition frow_ok (r : bf) (bias : option bf) (N : Z) : bool :=
  let rq := B2Q r in let bq := biasQ bias in let h := has_bias prec emax bias in
  (4 <=? prec)%Z && is_finite r && negb (Qle_bool rq 0)
  && match bias with Some b => is_finite b | None => true end
  && Qle_bool 0 bq && (0 <=? N)%Z && (4 * N + 3 <? 2 ^ prec)%Z
  && Qle_bool (qEtot h N rq bq * (1 + qu) + qu * inject_Z N * rq + qeta * rq) (rq / 4)
  && Qle_bool (inject_Z N * rq + qEtot h N rq bq + bq) (qpow2 (emax - 1)).

Lemma Qle_bool_R a b : Qle_bool a b = true -> Q2R a <= Q2R b.
Proof. intros H. apply Qle_Rle. apply Qle_bool_iff. exact H. Qed.

Lemma biasQ_R bias : match bias with Some b => is_finite b = true | None => True end -> Q2R (biasQ bias) = biasR prec emax bias.
Proof. destruct bias as [b|]; cbn [biasQ biasR]; intros H; [apply Q2R_B2Q; exact H|unfold Q2R; cbn; lra]. Qed.

(** every carrier value n with |n| <= N survives decode-then-encode, and decodes to a finite value *)
Theorem frow_enc_dec r bias N : frow_ok r bias N = true ->
  forall n ck cbits, (Z.abs n <= N)%Z -> match bias with Some _ => (0 <= n)%Z | None => True end ->
    (cmin ck cbits <= n <= cmax ck cbits)%Z ->
    is_finite (fdec_core prec emax Hp Hpe (Some r) bias n) = true /\
    fenc_core prec emax Hp Hpe (Some r) bias true ck cbits (fdec_core prec emax Hp Hpe (Some r) bias n) = Ok n.
Proof.
  unfold frow_ok. intros H. repeat (apply andb_true_iff in H; destruct H as [H ?]).
  rename H into Hprec. apply Z.leb_le in Hprec.
  match goal with X : is_finite r = true |- _ => rename X into Rf end.
  match goal with X : negb (Qle_bool (B2Q r) 0) = true |- _ => rename X into Rp end.
  match goal with X : match bias with Some b => is_finite b | None => true end = true |- _ => rename X into Bf end.
  match goal with X : Qle_bool 0 (biasQ bias) = true |- _ => rename X into Bp end.
  match goal with X : (0 <=? N)%Z = true |- _ => rename X into N0; apply Z.leb_le in N0 end.
  match goal with X : (4 * N + 3 <? 2 ^ prec)%Z = true |- _ => rename X into N1; apply Z.ltb_lt in N1 end.
  match goal with X : Qle_bool _ (B2Q r / 4) = true |- _ => rename X into C1; apply Qle_bool_R in C1 end.
  match goal with X : Qle_bool _ (qpow2 (emax - 1)) = true |- _ => rename X into C2; apply Qle_bool_R in C2 end.
  assert (Bf' : match bias with Some b => is_finite b = true | None => True end) by (destruct bias; [exact Bf|exact I]).
  assert (Rp' : 0 < B2R r).
  { rewrite <- (Q2R_B2Q r Rf). destruct (Qle_bool (B2Q r) 0) eqn:E; [discriminate|].
    destruct (Qlt_le_dec 0 (B2Q r)) as [Hl|Hl]; [replace 0 with (Q2R 0) by (unfold Q2R; cbn; lra); apply Qlt_Rlt; exact Hl|].
    apply Qle_bool_iff in Hl. rewrite Hl in E. discriminate. }
  assert (Bp' : 0 <= biasR prec emax bias).
  { rewrite <- (biasQ_R bias Bf'). replace 0 with (Q2R 0) by (unfold Q2R; cbn; lra). apply Qle_bool_R. exact Bp. }
  intros n ck cbits Hn Hs Hc.
  apply (enc_dec prec emax Hp Hpe Hprec r bias N Rf Rp' Bf' Bp' N0 N1); try assumption.
  - rewrite !Q2R_plus, !Q2R_mult, Q2R_plus, Q2R_qEtot, Q2R_inject_Z, (biasQ_R bias Bf'), (Q2R_B2Q r Rf) in C1.
    unfold qu, qeta in C1. rewrite !Q2R_qpow2 in C1.
    unfold Qdiv in C1. rewrite Q2R_mult, Q2R_inv, (Q2R_B2Q r Rf) in C1 by (intros X; discriminate X).
    replace (Q2R 1) with 1 in C1 by (unfold Q2R; cbn; lra). replace (Q2R 4) with 4 in C1 by (unfold Q2R; cbn; lra).
    exact C1.
  - rewrite !Q2R_plus, Q2R_mult, Q2R_qEtot, Q2R_inject_Z, (biasQ_R bias Bf'), (Q2R_B2Q r Rf), Q2R_qpow2 in C2. exact C2.
Qed.

(** ---------- nearest grid point (C11): side conditions on rationals ---------- *)
Definition qqA (T r : Q) : Q := qu * T + qeta / r.
Definition qqD (T r : Q) : Q := qqA T r + qu * (T + qqA T r) + qeta.
Definition qqe (T r : Q) : Q := qu * (T + qqD T r + (1 # 2)) + qeta.
Definition qslackq (T r : Q) : Q := qqD T r + qqe T r.
Definition qEdec (hasb : bool) (N : Z) (r b : Q) : Q := if hasb then qE1 N r + qE2 N r b else qE1 N r.

Lemma Q2R_qu : Q2R qu = bpow radix2 (- prec). Proof. apply Q2R_qpow2. Qed.
Lemma Q2R_qeta : Q2R qeta = bpow radix2 (3 - emax - prec - 1). Proof. apply Q2R_qpow2. Qed.
Lemma Q2R_half : Q2R (1 # 2) = / 2. Proof. unfold Q2R. cbn. lra. Qed.

Lemma Q2R_qqA T r : ~ r == 0 -> Q2R (qqA T r) = qA prec emax (Q2R T) (Q2R r).
Proof. intros Hr. unfold qqA, qA, Qdiv. rewrite Q2R_plus, !Q2R_mult, Q2R_inv, Q2R_qu, Q2R_qeta by exact Hr. reflexivity. Qed.
Lemma Q2R_qqD T r : ~ r == 0 -> Q2R (qqD T r) = qD prec emax (Q2R T) (Q2R r).
Proof. intros Hr. unfold qqD, qD. rewrite !Q2R_plus, Q2R_mult, Q2R_plus, Q2R_qqA, Q2R_qu, Q2R_qeta by exact Hr. reflexivity. Qed.
Lemma Q2R_qqe T r : ~ r == 0 -> Q2R (qqe T r) = qe prec emax (Q2R T) (Q2R r).
Proof. intros Hr. unfold qqe, qe. rewrite Q2R_plus, Q2R_mult, !Q2R_plus, Q2R_qqD, Q2R_qu, Q2R_qeta, Q2R_half by exact Hr. reflexivity. Qed.
Lemma Q2R_qslackq T r : ~ r == 0 -> Q2R (qslackq T r) = slackq prec emax (Q2R T) (Q2R r).
Proof. intros Hr. unfold qslackq, slackq. rewrite Q2R_plus, Q2R_qqD, Q2R_qqe by exact Hr. reflexivity. Qed.
Lemma Q2R_qEdec h N r b : Q2R (qEdec h N r b) = eEdec prec emax h N (Q2R r) (Q2R b).
Proof. unfold qEdec, eEdec. destruct h; rewrite ?Q2R_plus, ?Q2R_qE1, ?Q2R_qE2; reflexivity. Qed.

Definition fnear_ok (r : bf) (bias : option bf) (N : Z) : bool :=
  let rq := B2Q r in let bq := biasQ bias in let h := has_bias prec emax bias in
  let T := (inject_Z N + 1)%Q in
  frow_ok r bias N && (4 * N + 8 <=? 2 ^ prec)%Z
  && Qle_bool (T * rq) (qpow2 (emax - 1))
  && Qle_bool (qqD T rq) (1 # 4)
  && Qle_bool (rq * qslackq T rq + qEdec h N rq bq) (rq / 4).

(** the slack of the row: Q2R of this rational is what [fnear] adds to half a resolution step *)
Definition row_slack (r : bf) (bias : option bf) (N : Z) : Q :=
  B2Q r * qslackq (inject_Z N + 1) (B2Q r) + qEdec (has_bias prec emax bias) N (B2Q r) (biasQ bias).

Lemma fnear_hyps r bias N : fnear_ok r bias N = true ->
  (4 <= prec)%Z /\ is_finite r = true /\ 0 < B2R r /\ match bias with Some b => is_finite b = true | None => True end /\
  0 <= biasR prec emax bias /\ (0 <= N)%Z /\ (4 * N + 8 <= 2 ^ prec)%Z /\
  eEtot prec emax (has_bias prec emax bias) N (B2R r) (biasR prec emax bias) * (1 + bpow radix2 (- prec)) + bpow radix2 (- prec) * IZR N * B2R r + bpow radix2 (3 - emax - prec - 1) * B2R r <= B2R r / 4 /\
  IZR N * B2R r + eEtot prec emax (has_bias prec emax bias) N (B2R r) (biasR prec emax bias) + biasR prec emax bias <= bpow radix2 (emax - 1) /\
  (IZR N + 1) * B2R r <= bpow radix2 (emax - 1) /\
  qD prec emax (IZR N + 1) (B2R r) <= / 4 /\
  Q2R (row_slack r bias N) = B2R r * slackq prec emax (IZR N + 1) (B2R r) + eEdec prec emax (has_bias prec emax bias) N (B2R r) (biasR prec emax bias) /\
  B2R r * slackq prec emax (IZR N + 1) (B2R r) + eEdec prec emax (has_bias prec emax bias) N (B2R r) (biasR prec emax bias) <= B2R r / 4.
Proof.
  unfold fnear_ok. intros H. repeat (apply andb_true_iff in H; destruct H as [H ?]).
  rename H into Hrow.
  match goal with X : (4 * N + 8 <=? 2 ^ prec)%Z = true |- _ => rename X into N8; apply Z.leb_le in N8 end.
  match goal with X : Qle_bool _ (qpow2 (emax - 1)) = true |- _ => rename X into Cov; apply Qle_bool_R in Cov end.
  match goal with X : Qle_bool _ (1 # 4) = true |- _ => rename X into CD; apply Qle_bool_R in CD end.
  match goal with X : Qle_bool _ (B2Q r / 4) = true |- _ => rename X into Csl; apply Qle_bool_R in Csl end.
  pose proof Hrow as Hrow'. unfold frow_ok in Hrow'. repeat (apply andb_true_iff in Hrow'; destruct Hrow' as [Hrow' ?]).
  rename Hrow' into Hprec. apply Z.leb_le in Hprec.
  match goal with X : is_finite r = true |- _ => rename X into Rf end.
  match goal with X : negb (Qle_bool (B2Q r) 0) = true |- _ => rename X into Rp end.
  match goal with X : match bias with Some b => is_finite b | None => true end = true |- _ => rename X into Bf end.
  match goal with X : Qle_bool 0 (biasQ bias) = true |- _ => rename X into Bp end.
  match goal with X : (0 <=? N)%Z = true |- _ => rename X into N0; apply Z.leb_le in N0 end.
  match goal with X : Qle_bool _ (B2Q r / 4) = true |- _ => rename X into C1; apply Qle_bool_R in C1 end.
  match goal with X : Qle_bool _ (qpow2 (emax - 1)) = true |- _ => rename X into C2; apply Qle_bool_R in C2 end.
  assert (Bf' : match bias with Some b => is_finite b = true | None => True end) by (destruct bias; [exact Bf|exact I]).
  assert (Rq0 : ~ B2Q r == 0).
  { intros E. destruct (Qle_bool (B2Q r) 0) eqn:E'; [discriminate|]. assert (X : Qle_bool (B2Q r) 0 = true) by (apply Qle_bool_iff; rewrite E; apply Qle_refl). rewrite X in E'. discriminate. }
  assert (Rp' : 0 < B2R r).
  { rewrite <- (Q2R_B2Q r Rf). destruct (Qle_bool (B2Q r) 0) eqn:E; [discriminate|].
    destruct (Qlt_le_dec 0 (B2Q r)) as [Hl|Hl]; [replace 0 with (Q2R 0) by (unfold Q2R; cbn; lra); apply Qlt_Rlt; exact Hl|].
    apply Qle_bool_iff in Hl. rewrite Hl in E. discriminate. }
  assert (Bp' : 0 <= biasR prec emax bias).
  { rewrite <- (biasQ_R bias Bf'). replace 0 with (Q2R 0) by (unfold Q2R; cbn; lra). apply Qle_bool_R. exact Bp. }
  assert (Q1 : Q2R 1 = 1) by (unfold Q2R; cbn; lra). assert (Q4 : Q2R 4 = 4) by (unfold Q2R; cbn; lra).
  assert (QT : Q2R (inject_Z N + 1) = IZR N + 1) by (rewrite Q2R_plus, Q2R_inject_Z, Q1; reflexivity).
  assert (Hc1 : eEtot prec emax (has_bias prec emax bias) N (B2R r) (biasR prec emax bias) * (1 + bpow radix2 (- prec)) + bpow radix2 (- prec) * IZR N * B2R r + bpow radix2 (3 - emax - prec - 1) * B2R r <= B2R r / 4).
  { rewrite !Q2R_plus, !Q2R_mult, Q2R_plus, Q2R_qEtot, Q2R_inject_Z, (biasQ_R bias Bf'), (Q2R_B2Q r Rf) in C1.
    unfold qu, qeta in C1. rewrite !Q2R_qpow2 in C1.
    unfold Qdiv in C1. rewrite Q2R_mult, Q2R_inv, (Q2R_B2Q r Rf) in C1 by (intros X; discriminate X).
    rewrite Q1, Q4 in C1. exact C1. }
  assert (Hc2 : IZR N * B2R r + eEtot prec emax (has_bias prec emax bias) N (B2R r) (biasR prec emax bias) + biasR prec emax bias <= bpow radix2 (emax - 1)).
  { rewrite !Q2R_plus, Q2R_mult, Q2R_qEtot, Q2R_inject_Z, (biasQ_R bias Bf'), (Q2R_B2Q r Rf), Q2R_qpow2 in C2. exact C2. }
  assert (Hov : (IZR N + 1) * B2R r <= bpow radix2 (emax - 1)).
  { rewrite Q2R_mult, QT, (Q2R_B2Q r Rf), Q2R_qpow2 in Cov. exact Cov. }
  assert (HqD : qD prec emax (IZR N + 1) (B2R r) <= / 4).
  { rewrite (Q2R_qqD _ _ Rq0), QT, (Q2R_B2Q r Rf) in CD. replace (Q2R (1 # 4)) with (/4) in CD by (unfold Q2R; cbn; lra). exact CD. }
  assert (Hsl : Q2R (row_slack r bias N) = B2R r * slackq prec emax (IZR N + 1) (B2R r) + eEdec prec emax (has_bias prec emax bias) N (B2R r) (biasR prec emax bias)).
  { unfold row_slack. rewrite Q2R_plus, Q2R_mult, (Q2R_qslackq _ _ Rq0), Q2R_qEdec, QT, (Q2R_B2Q r Rf), (biasQ_R bias Bf'). reflexivity. }
  assert (Hslack : B2R r * slackq prec emax (IZR N + 1) (B2R r) + eEdec prec emax (has_bias prec emax bias) N (B2R r) (biasR prec emax bias) <= B2R r / 4).
  { rewrite <- Hsl. unfold row_slack. unfold Qdiv in Csl. rewrite (Q2R_mult (B2Q r) (/ 4)), Q2R_inv, (Q2R_B2Q r Rf), Q4 in Csl by (intros X; discriminate X). exact Csl. }
  repeat (split; [assumption|]). assumption.
Qed.

Theorem fnear r bias N : fnear_ok r bias N = true ->
  forall (x : bf) k ck cbits, is_finite x = true -> (Z.abs k <= N)%Z -> (Z.abs (k + 1) <= N)%Z ->
    match bias with Some _ => (0 <= k)%Z | None => True end ->
    (cmin ck cbits <= k)%Z -> (k + 1 <= cmax ck cbits)%Z -> (cmin ck cbits <= 0 <= cmax ck cbits)%Z ->
    B2R (fdec_core prec emax Hp Hpe (Some r) bias k) <= B2R x <= B2R (fdec_core prec emax Hp Hpe (Some r) bias (k + 1)) ->
    exists n, fenc_core prec emax Hp Hpe (Some r) bias true ck cbits x = Ok n /\ (n = k \/ n = k + 1)%Z /\
              Rabs (B2R x - B2R (fdec_core prec emax Hp Hpe (Some r) bias n)) <= B2R r / 2 + Q2R (row_slack r bias N) /\
              Q2R (row_slack r bias N) <= B2R r / 4.
Proof.
  intros H. destruct (fnear_hyps r bias N H) as [Hprec [Rf [Rp' [Bf' [Bp' [N0 [N8 [Hc1 [Hc2 [Hov [HqD [Hsl Hslack]]]]]]]]]]]].
  intros x k ck cbits Fx Hk Hk1 Hs Hlo Hhi Hc0 Hx.
  destruct (enc_between prec emax Hp Hpe Hprec r bias N Rf Rp' Bf' Bp' N0 N8 Hc1 Hc2 Hov HqD Hslack ck cbits x k Fx Hk Hk1 Hs Hlo Hhi Hc0 Hx) as [n [E [Hn Hd]]].
  exists n. split; [exact E|]. split; [exact Hn|]. rewrite Hsl. split; [exact Hd|exact Hslack].
Qed.

(** monotone, and never outside the two ends of the range *)
Theorem fnear_mono r bias N : fnear_ok r bias N = true ->
  forall (x y : bf) lo hi ck cbits, is_finite x = true -> is_finite y = true -> (Z.abs lo <= N)%Z -> (Z.abs hi <= N)%Z ->
    match bias with Some _ => (0 <= lo)%Z /\ (0 <= hi)%Z | None => True end ->
    (cmin ck cbits <= lo)%Z -> (hi <= cmax ck cbits)%Z -> (cmin ck cbits <= 0 <= cmax ck cbits)%Z ->
    B2R (fdec_core prec emax Hp Hpe (Some r) bias lo) <= B2R x -> B2R x <= B2R y ->
    B2R y <= B2R (fdec_core prec emax Hp Hpe (Some r) bias hi) ->
    exists nx ny, fenc_core prec emax Hp Hpe (Some r) bias true ck cbits x = Ok nx /\
                  fenc_core prec emax Hp Hpe (Some r) bias true ck cbits y = Ok ny /\ (lo <= nx <= ny)%Z /\ (ny <= hi)%Z.
Proof.
  intros H. destruct (fnear_hyps r bias N H) as [Hprec [Rf [Rp' [Bf' [Bp' [N0 [N8 [Hc1 [Hc2 [Hov [HqD [Hsl Hslack]]]]]]]]]]]].
  intros x y lo hi ck cbits Fx Fy Hlo Hhi Hs Hcl Hch Hc0 H1 H2 H3.
  destruct (enc_in_range prec emax Hp Hpe Hprec r bias N Rf Rp' Bf' Bp' N0 N8 Hc1 Hc2 Hov HqD Hslack ck cbits x lo hi Fx Hlo Hhi Hs Hcl Hch Hc0 ltac:(lra)) as [Ex [Lx Ux]].
  destruct (enc_in_range prec emax Hp Hpe Hprec r bias N Rf Rp' Bf' Bp' N0 N8 Hc1 Hc2 Hov HqD Hslack ck cbits y lo hi Fy Hlo Hhi Hs Hcl Hch Hc0 ltac:(lra)) as [Ey [Ly Uy]].
  eexists. eexists. split; [exact Ex|]. split; [exact Ey|].
  pose proof (encR_mono prec emax Hp (B2R r) (biasR prec emax bias) _ _ Rp' H2). lia.
Qed.
End QB.

(** The encoder touches no earlier bit (every layout of the table), and hence every frame build_message
    returns carries the message's own number in its first 12 payload bits (C09). *)
From Coq Require Import ZArith List Lia Bool Sorting.Permutation.
From Flocq Require Import Core BinarySingleNaN.
From RtcmModel Require Import Types BitIO Floats Field SigId Text Bias Msm Layout Crc Frame Message.
From RtcmProofs Require Import BitLemmas ListZ FragInd EncodeLen BitProofs DecodeBound DecodeTotal FieldProofs TextProofs
  FrameProofs BuilderProofs SizeProofs BuildProofs RoundTrip RoundTripFrame SigProofs DecodeFinite BiasRoundTrip Bias1230 MsmProofs MsmMasks MsmDecode
  EncodeTotal MsmTotal EncodeTotalAll.
Import ListNotations.
Open Scope Z_scope.

(** what an encoder does to the buffer: the cursor moves forward, the buffer keeps its length and stays a
    byte buffer, and no bit before the starting position changes *)
Definition framed (e : astate -> val -> outcome astate) : Prop :=
  forall d o v d' o', bytes_ok d = true -> 0 <= o -> e (d, o) v = Ok (d', o') ->
    o <= o' /\ bytes_ok d' = true /\ zlen d' = zlen d /\ agree d d' 0 o.

Lemma put_bytes_frame : forall l d o d' o', bytes_ok d = true -> 0 <= o -> put_bytes (d, o) l = Ok (d', o') ->
  o <= o' /\ bytes_ok d' = true /\ zlen d' = zlen d /\ agree d d' 0 o.
Proof.
  induction l as [|b l IH]; intros d o d' o' Hb Ho H; cbn [put_bytes fst snd] in H.
  - inversion H; subst. split; [lia|]. split; [exact Hb|]. split; [reflexivity|apply agree_refl].
  - destruct (put KU 8 d o b 8) as [[d1 o1]|e|] eqn:P; cbn [bind] in H; try discriminate.
    destruct (put_frame KU 8 d o b 8 d1 o1 ltac:(lia) ltac:(lia) Ho Hb P) as [-> [_ [L1 [B1 A1]]]].
    destruct (IH d1 (o + 8) d' o' B1 ltac:(lia) H) as [M [B2 [L2 A2]]].
    split; [lia|]. split; [exact B2|]. split; [lia|]. eapply agree_trans; [exact A1|]. apply (agree_sub _ _ 0 (o + 8)); [exact A2|lia|lia].
Qed.

Lemma encode_utf8_frame : framed encode_utf8.
Proof.
  intros d o v d' o' Hb Ho H. unfold encode_utf8 in H. destruct v; try discriminate.
  destruct (from_utf8 _) as [chars|]; [|discriminate]. destruct (_ || _); [discriminate|]. cbn [fst snd] in H.
  destruct (put KU 8 d o _ 7) as [[d1 o1]|e|] eqn:P1; cbn [bind] in H; try discriminate.
  destruct (put_frame KU 8 d o _ 7 d1 o1 ltac:(lia) ltac:(lia) Ho Hb P1) as [-> [_ [L1 [B1 A1]]]]. cbn [fst snd] in H.
  destruct (put KU 8 d1 (o + 7) _ 8) as [[d2 o2]|e|] eqn:P2; cbn [bind] in H; try discriminate.
  destruct (put_frame KU 8 d1 (o + 7) _ 8 d2 o2 ltac:(lia) ltac:(lia) ltac:(lia) B1 P2) as [-> [_ [L2 [B2 A2]]]].
  destruct (put_bytes_frame _ d2 (o + 7 + 8) d' o' B2 ltac:(lia) H) as [M [B3 [L3 A3]]].
  split; [lia|]. split; [exact B3|]. split; [lia|].
  eapply agree_trans; [exact A1|]. eapply agree_trans; [apply (agree_sub _ _ 0 (o + 7)); [exact A2|lia|lia]|]. apply (agree_sub _ _ 0 (o + 7 + 8)); [exact A3|lia|lia].
Qed.

Section CBFrame.
  Variable table : sigtable.
  Variable max_sat sat_bits cap : Z.
  Hypothesis Hsb : 1 <= sat_bits <= 8.

  Lemma cb_put_entries_frame2 s : forall es d o d' o', bytes_ok d = true -> 0 <= o -> cb_put_entries table (d, o) s es = Ok (d', o') ->
    o <= o' /\ bytes_ok d' = true /\ zlen d' = zlen d /\ agree d d' 0 o.
  Proof.
    induction es as [|e r IH]; intros d o d' o' Hb Ho H; cbn [cb_put_entries] in H.
    - inversion H; subst. split; [lia|]. split; [exact Hb|]. split; [reflexivity|apply agree_refl].
    - destruct (be_sat e =? s); [|apply (IH d o); assumption].
      destruct (to_id table (be_sig e)) as [id|]; [|apply (IH d o); assumption]. cbn [fst snd] in H.
      destruct (put KU 8 d o id 5) as [[d1 o1]|x|] eqn:Q1; cbn [bind] in H; try discriminate.
      destruct (put_frame KU 8 d o id 5 d1 o1 ltac:(lia) ltac:(lia) Ho Hb Q1) as [-> [_ [L1 [B1 A1]]]]. cbn [fst snd] in H.
      destruct (put KI 16 d1 (o + 5) (bias_quant f32_0_01 (be_bias e)) 14) as [[d2 o2]|x|] eqn:Q2; cbn [bind] in H; try discriminate.
      destruct (put_frame KI 16 d1 (o + 5) _ 14 d2 o2 ltac:(lia) ltac:(lia) ltac:(lia) B1 Q2) as [-> [_ [L2 [B2 A2]]]].
      destruct (IH d2 (o + 5 + 14) d' o' B2 ltac:(lia) H) as [M [B3 [L3 A3]]].
      split; [lia|]. split; [exact B3|]. split; [lia|].
      eapply agree_trans; [exact A1|]. eapply agree_trans; [apply (agree_sub _ _ 0 (o + 5)); [exact A2|lia|lia]|]. apply (agree_sub _ _ 0 (o + 5 + 14)); [exact A3|lia|lia].
  Qed.

  Lemma cb_sats_frame mask es : forall n s d o d' o', bytes_ok d = true -> 0 <= o -> cb_sats table sat_bits n s mask es (d, o) = Ok (d', o') ->
    o <= o' /\ bytes_ok d' = true /\ zlen d' = zlen d /\ agree d d' 0 o.
  Proof.
    induction n as [|n IH]; intros s d o d' o' Hb Ho H; cbn [cb_sats] in H.
    - inversion H; subst. split; [lia|]. split; [exact Hb|]. split; [reflexivity|apply agree_refl].
    - destruct (Z.testbit mask s); [|apply (IH (s + 1) d o); assumption]. cbn [fst snd] in H.
      destruct (put KU 8 d o s sat_bits) as [[d1 o1]|x|] eqn:Q1; cbn [bind] in H; try discriminate.
      destruct (put_frame KU 8 d o s sat_bits d1 o1 ltac:(lia) ltac:(lia) Ho Hb Q1) as [-> [_ [L1 [B1 A1]]]]. cbn [fst snd] in H.
      destruct (31 <? cb_count table s es); [discriminate|].
      destruct (put KU 8 d1 (o + sat_bits) (cb_count table s es) 5) as [[d2 o2]|x|] eqn:Q2; cbn [bind] in H; try discriminate.
      destruct (put_frame KU 8 d1 (o + sat_bits) _ 5 d2 o2 ltac:(lia) ltac:(lia) ltac:(lia) B1 Q2) as [-> [_ [L2 [B2 A2]]]].
      destruct (cb_put_entries table (d2, o + sat_bits + 5) s es) as [[d3 o3]|x|] eqn:Q3; cbn [bind] in H; try discriminate.
      destruct (cb_put_entries_frame2 s es d2 (o + sat_bits + 5) d3 o3 B2 ltac:(lia) Q3) as [M3 [B3 [L3 A3]]].
      destruct (IH (s + 1) d3 o3 d' o' B3 ltac:(lia) H) as [M4 [B4 [L4 A4]]].
      split; [lia|]. split; [exact B4|]. split; [lia|].
      eapply agree_trans; [exact A1|]. eapply agree_trans; [apply (agree_sub _ _ 0 (o + sat_bits)); [exact A2|lia|lia]|].
      eapply agree_trans; [apply (agree_sub _ _ 0 (o + sat_bits + 5)); [exact A3|lia|lia]|]. apply (agree_sub _ _ 0 o3); [exact A4|lia|lia].
  Qed.

  Lemma cb_encode_frame : framed (cb_encode table max_sat sat_bits cap).
  Proof.
    intros d o v d' o' Hb Ho H. unfold cb_encode in H. destruct v; try discriminate.
    destruct (entries_of_vals l) as [es|]; [|discriminate]. destruct (cap <? zlen es); [discriminate|].
    destruct (cb_mask max_sat es 0 0) as [[mask sn]|x|]; cbn [bind] in H; try discriminate.
    destruct (63 <? sn); [discriminate|]. cbn [fst snd] in H.
    destruct (put KU 8 d o sn 6) as [[d1 o1]|x|] eqn:Q1; cbn [bind] in H; try discriminate.
    destruct (put_frame KU 8 d o sn 6 d1 o1 ltac:(lia) ltac:(lia) Ho Hb Q1) as [-> [_ [L1 [B1 A1]]]].
    destruct (cb_sats_frame mask es _ 0 d1 (o + 6) d' o' B1 ltac:(lia) H) as [M2 [B2 [L2 A2]]].
    split; [lia|]. split; [exact B2|]. split; [lia|]. eapply agree_trans; [exact A1|]. apply (agree_sub _ _ 0 (o + 6)); [exact A2|lia|lia].
  Qed.
End CBFrame.

Lemma b1230_encode_frame glo : framed (b1230_encode glo).
Proof.
  intros d o v d' o' Hb Ho H. unfold b1230_encode in H. destruct v; try discriminate.
  destruct (es1230_of_vals l) as [es|]; [|discriminate]. destruct (4 <? zlen es); [discriminate|]. cbv zeta in H.
  destruct (b1230_mask glo _ 0) as [mask|x|]; cbn [bind] in H; try discriminate. cbn [fst snd] in H.
  destruct (put KU 8 d o mask 4) as [[d1 o1]|x|] eqn:Q1; cbn [bind] in H; try discriminate.
  destruct (put_frame KU 8 d o mask 4 d1 o1 ltac:(lia) ltac:(lia) Ho Hb Q1) as [-> [_ [L1 [B1 A1]]]].
  destruct (b1230_put_reads _ d1 (o + 4) d' o' B1 ltac:(lia) H) as [-> [B2 [L2 [A2 _]]]].
  match goal with |- _ <= _ + 16 * zlen ?l /\ _ => pose proof (zlen_nonneg l) end.
  split; [lia|]. split; [exact B2|]. split; [lia|]. eapply agree_trans; [exact A1|]. apply (agree_sub _ _ 0 (o + 4)); [exact A2|lia|lia].
Qed.

(** a non-empty segment has a cell mask at least one bit wide *)
Lemma msm_ccl_pos tbl sats sigs sm gm cv SI GI nsig ccl cm :
  enc_sat_mask sats 0 = Ok sm -> enc_sig_loop tbl sigs 0 0 [] = Ok (gm, sm, cv) ->
  enc_cell_loop cv SI GI nsig ccl 0 = Ok cm -> ~ (sats = [] /\ sigs = []) -> 1 <= ccl.
Proof.
  intros E1 E2 E3 Hne. destruct sigs as [|g0 gr].
  - cbn [enc_sig_loop] in E2. inversion E2; subst gm sm cv. exfalso.
    destruct sats as [|s0 sr]; [apply Hne; split; reflexivity|].
    destruct (enc_sat_mask_spec _ 0 0 E1) as [Hgood [Hsat _]].
    destruct (Hgood s0 (or_introl eq_refl)) as [s [Es Hr]]. specialize (Hsat s Hr). rewrite !Z.bits_0 in Hsat. cbn [orb] in Hsat.
    unfold sat_ids in Hsat. cbn [flat_map] in Hsat. rewrite Es in Hsat. cbn [app existsb] in Hsat. rewrite Z.eqb_refl in Hsat. discriminate.
  - destruct (enc_sig_loop_masks tbl _ 0 0 [] gm sm cv E2) as [Hcv _]. cbn [app] in Hcv.
    pose proof (enc_sig_loop_spec tbl _ 0 0 [] _ E2 g0 (or_introl eq_refl)) as [s [g [i [Ek [_ Ei]]]]].
    unfold cell_keys in Hcv. cbn [flat_map] in Hcv. rewrite Ek, Ei in Hcv. cbn [app] in Hcv. rewrite Hcv in E3.
    cbn [enc_cell_loop] in E3. unfold aget in E3.
    destruct ((0 <=? s - 1) && (s - 1 <? zlen SI)); cbn [bind] in E3; [|discriminate].
    destruct ((0 <=? i - 1) && (i - 1 <? zlen GI)); cbn [bind] in E3; [|discriminate].
    unfold usub in E3. destruct (Z.leb_spec 1 ccl); [assumption|discriminate].
Qed.

Lemma msm_encode_frame tbl a b : forallb field_dec_ok a = true -> forallb field_dec_ok b = true -> framed (msm_encode tbl a b).
Proof.
  intros Ha Hb' d o v d' o' Hb Ho H. unfold msm_encode in H.
  destruct v as [| | | | | |l| |]; try discriminate. destruct l as [|v1 [|v2 [|? ?]]]; try discriminate; try (destruct v1; discriminate); try (destruct v1; try discriminate; destruct v2; discriminate).
  destruct v1 as [| | | | |sats| | |]; try discriminate. destruct v2 as [| | | | |sigs| | |]; try discriminate.
  destruct ((64 <? zlen sats) || (64 <? zlen sigs)); [discriminate|].
  assert (Hmain : ~ (sats = [] /\ sigs = []) -> forall st',
    (sat_mask <- enc_sat_mask sats 0 ;;
     '(sig_mask, sat_sig_mask, cell_vec) <- enc_sig_loop tbl sigs 0 0 [] ;;
     if negb (sat_mask =? sat_sig_mask) then Err SatelliteMismatch
     else
       let sat_indx := indx_array 64 sat_mask in
       let sig_indx := indx_array 32 sig_mask in
       let sig_mask_len := mask_len 32 sig_mask in
       let cell_cont_len := sig_mask_len * zlen sats in
       if 64 <? cell_cont_len then Err InvalidSatelliteSignalCount
       else
         cell_mask <- enc_cell_loop cell_vec sat_indx sig_indx sig_mask_len cell_cont_len 0 ;;
         st1 <- put KU 64 (fst (d, o)) (snd (d, o)) sat_mask 64 ;;
         st2 <- put KU 32 (fst st1) (snd st1) sig_mask 32 ;;
         st3 <- put KU 64 (fst st2) (snd st2) cell_mask cell_cont_len ;;
         st4 <- enc_sat_rows a sats st3 ;;
         enc_sig_rows tbl b sigs st4) = Ok st' ->
    o <= snd st' /\ bytes_ok (fst st') = true /\ zlen (fst st') = zlen d /\ agree d (fst st') 0 o).
  { intros Hne st' Hm. destruct (msm_main_inv2 tbl a b (d, o) st' sats sigs Hm) as [sm [gm [cv [cm [[d1 o1] [[d2 o2] [[d3 o3] [[d4 o4] [E1 [E2 [Hccl [E3 [P1 [P2 [P3 [R1 R2]]]]]]]]]]]]]]]].
    cbn [fst snd] in P1, P2, P3. clear Hm. destruct st' as [d5 o5]. cbn [fst snd].
    pose proof (msm_ccl_pos tbl sats sigs sm gm cv _ _ _ _ cm E1 E2 E3 Hne) as Hc1.
    destruct (put_frame KU 64 d o sm 64 d1 o1 ltac:(lia) ltac:(lia) Ho Hb P1) as [-> [_ [L1 [B1 A1]]]].
    destruct (put_frame KU 32 d1 (o + 64) gm 32 d2 o2 ltac:(lia) ltac:(lia) ltac:(lia) B1 P2) as [-> [_ [L2 [B2 A2]]]].
    destruct (put_frame KU 64 d2 (o + 64 + 32) cm (mask_len 32 gm * zlen sats) d3 o3 ltac:(lia) ltac:(lia) ltac:(lia) B2 P3) as [-> [_ [L3 [B3 A3]]]].
    unfold enc_sat_rows in R1. unfold enc_sig_rows in R2.
    destruct (enc_columns_frame 1 (sort_by sat_cmp sats) a 0 d3 (o + 64 + 32 + mask_len 32 gm * zlen sats) d4 o4 Ha B3 ltac:(lia) R1) as [-> [B4 [L4 [A4 _]]]].
    pose proof (specs_bits_nonneg a Ha). pose proof (zlen_nonneg (sort_by sat_cmp sats)).
    destruct (enc_columns_frame 2 (sort_by (sig_row_cmp tbl) sigs) b 0 d4 (o + 64 + 32 + mask_len 32 gm * zlen sats + specs_bits a * zlen (sort_by sat_cmp sats)) d5 o5 Hb' B4 ltac:(nia) R2) as [-> [B5 [L5 [A5 _]]]].
    pose proof (specs_bits_nonneg b Hb'). pose proof (zlen_nonneg (sort_by (sig_row_cmp tbl) sigs)).
    split; [nia|]. split; [exact B5|]. split; [lia|].
    eapply agree_trans; [exact A1|]. eapply agree_trans; [apply (agree_sub _ _ 0 (o + 64)); [exact A2|lia|lia]|].
    eapply agree_trans; [apply (agree_sub _ _ 0 (o + 64 + 32)); [exact A3|lia|lia]|].
    eapply agree_trans; [apply (agree_sub _ _ 0 (o + 64 + 32 + mask_len 32 gm * zlen sats)); [exact A4|lia|lia]|].
    apply (agree_sub _ _ 0 (o + 64 + 32 + mask_len 32 gm * zlen sats + specs_bits a * zlen (sort_by sat_cmp sats))); [exact A5|lia|nia]. }
  destruct sats as [|s0 sr]; destruct sigs as [|g0 gr];
    try (assert (Hne : ~ (@nil val = [] /\ g0 :: gr = [])) by (intros [_ X]; discriminate X); specialize (Hmain Hne (d', o') H); cbn [fst snd] in Hmain; exact Hmain);
    try (assert (Hne : ~ (s0 :: sr = [] /\ @nil val = [])) by (intros [X _]; discriminate X); specialize (Hmain Hne (d', o') H); cbn [fst snd] in Hmain; exact Hmain);
    try (assert (Hne : ~ (s0 :: sr = [] /\ g0 :: gr = [])) by (intros [X _]; discriminate X); specialize (Hmain Hne (d', o') H); cbn [fst snd] in Hmain; exact Hmain).
  cbn [fst snd] in H.
  destruct (put KU 64 d o 0 64) as [[d1 o1]|x|] eqn:Q1; cbn [bind] in H; try discriminate.
  destruct (put_frame KU 64 d o 0 64 d1 o1 ltac:(lia) ltac:(lia) Ho Hb Q1) as [-> [_ [L1 [B1 A1]]]]. cbn [fst snd] in H.
  destruct (put_frame KU 32 d1 (o + 64) 0 32 d' o' ltac:(lia) ltac:(lia) ltac:(lia) B1 H) as [-> [_ [L2 [B2 A2]]]].
  split; [lia|]. split; [exact B2|]. split; [lia|]. eapply agree_trans; [exact A1|]. apply (agree_sub _ _ 0 (o + 64)); [exact A2|lia|lia].
Qed.

(** ---------- layouts ---------- *)
Section TailFrame.
  Variable sigt : gnss -> sigtable.
  Variable ssr59 ssr65 : sigtable.
  Variable cap59 cap65 : Z.
  Notation enc := (encode_frag sigt ssr59 ssr65 cap59 cap65).
  Notation go_enc := (fix go (fl : list frag) (vs : list val) (st : astate) {struct fl} : outcome astate :=
         match fl, vs with
         | [], [] => Ok st
         | f' :: fl', v' :: vs' => st' <- enc f' st v' ;; go fl' vs' st'
         | _, _ => Panic
         end).

  Lemma special_frame f : special_ok sigt f = true -> framed (enc f).
  Proof.
    intros Hs. destruct f; try discriminate; cbn [encode_frag].
    - apply encode_utf8_frame.
    - apply cb_encode_frame. lia.
    - apply cb_encode_frame. lia.
    - apply b1230_encode_frame.
    - cbn [special_ok] in Hs. apply andb_true_iff in Hs. destruct Hs as [Hs Hb]. apply andb_true_iff in Hs. destruct Hs as [_ Ha].
      apply msm_encode_frame; apply fok_dec; assumption.
  Qed.

  Lemma go_enc_tail_frame : forall hd sp, forallb plain hd = true -> forallb counts_ok hd = true -> framed (enc sp) ->
    forall vs d o d' o', bytes_ok d = true -> 0 <= o -> go_enc (hd ++ [sp]) vs (d, o) = Ok (d', o') ->
    o <= o' /\ bytes_ok d' = true /\ zlen d' = zlen d /\ agree d d' 0 o.
  Proof.
    induction hd as [|f hd IH]; intros sp Hp Hc Hsp vs d o d' o' Hb Ho H.
    - cbn [app] in H. destruct vs as [|x [|y r]]; try discriminate.
      + destruct (enc sp (d, o) x) as [[d1 o1]|e|] eqn:E; cbn [bind] in H; try discriminate. inversion H; subst.
        exact (Hsp d o x d' o' Hb Ho E).
      + destruct (enc sp (d, o) x) as [[d1 o1]|e|] eqn:E; cbn [bind] in H; discriminate.
    - cbn [forallb] in Hp, Hc. apply andb_true_iff in Hp, Hc. destruct Hp as [Hp1 Hp2]. destruct Hc as [Hc1 Hc2].
      cbn [app] in H. destruct vs as [|x vs]; [discriminate|].
      destruct (enc f (d, o) x) as [[d1 o1]|e|] eqn:E; cbn [bind] in H; try discriminate.
      destruct (accepted_decodes sigt ssr59 ssr65 cap59 cap65 f Hp1 Hc1 d o x d1 o1 Hb Ho E) as [M1 [B1 [L1 [A1 _]]]].
      destruct (IH sp Hp2 Hc2 Hsp vs d1 o1 d' o' B1 ltac:(lia) H) as [M2 [B2 [L2 A2]]].
      split; [lia|]. split; [exact B2|]. split; [lia|]. eapply agree_trans; [exact A1|]. apply (agree_sub _ _ 0 o1); [exact A2|lia|lia].
  Qed.

  Theorem tail_frame lay : tail_ok sigt lay = true -> framed (enc lay).
  Proof.
    intros Hok d o v d' o' Hb Ho H. unfold tail_ok in Hok. destruct (tail_form lay) as [[hd sp]|] eqn:Ht; [|discriminate].
    apply andb_true_iff in Hok. destruct Hok as [Hok Hs]. apply andb_true_iff in Hok. destruct Hok as [Hp Hc].
    rewrite (tail_form_eq lay hd sp Ht) in H. cbn [encode_frag] in H. destruct v; try discriminate.
    exact (go_enc_tail_frame hd sp Hp Hc (special_frame sp Hs) _ d o d' o' Hb Ho H).
  Qed.

  Theorem plain_frame lay : plain lay = true -> counts_ok lay = true -> framed (enc lay).
  Proof.
    intros Hp Hc d o v d' o' Hb Ho H.
    destruct (accepted_decodes sigt ssr59 ssr65 cap59 cap65 lay Hp Hc d o v d' o' Hb Ho H) as [M [B [L [A _]]]]. split; [exact M|]. split; [exact B|]. split; [exact L|exact A].
  Qed.
End TailFrame.

(** ---------- the message number of a built frame ---------- *)
Section BuildNumber.
  Variable sigt : gnss -> sigtable.
  Variable ssr59 ssr65 : sigtable.
  Variable cap59 cap65 : Z.
  Variable table : list (Z * frag).
  Hypothesis Hc59 : 0 <= cap59.
  Hypothesis Hc65 : 0 <= cap65.
  Hypothesis Hfit : forallb (fun m => frag_wfb (snd m) && (12 + max_bits cap59 cap65 (snd m) <=? 8184)) table = true.
  Hypothesis Hnum : forallb (fun m => (0 <=? fst m) && (fst m <? 4096)) table = true.

  Notation build_on := (build_on sigt ssr59 ssr65 cap59 cap65 table).
  Notation enc := (encode_frag sigt ssr59 ssr65 cap59 cap65).

  (** whenever the body encoder touches no earlier bit, the frame build_message returns is accepted by
      MessageFrame::new and carries the message's number *)
  Theorem build_number n v fr d' lay : lookup n table = Some lay -> framed (enc lay) ->
    build_on fresh_data (MTyped n v) = Ok (fr, d') -> exists f, frame_new fr = Ok f /\ fr_number f = Some n.
  Proof.
    intros Hlk Hfr Hbuild.
    destruct (build_well_formed sigt ssr59 ssr65 cap59 cap65 table Hc59 Hc65 Hfit (MTyped n v) fr d' Hbuild)
      as [n0 [v0 [lay0 [Em [Hlk0 [Hlen [Hpre [Hres [Hfl Hacc]]]]]]]]].
    inversion Em; subst n0 v0. rewrite Hlk in Hlk0. inversion Hlk0; subst lay0.
    pose proof (lookup_In table n lay Hlk) as Hin.
    pose proof Hnum as Hn'. rewrite forallb_forall in Hn'. specialize (Hn' _ Hin). cbn [fst] in Hn'. apply andb_true_iff in Hn'. destruct Hn' as [Hn0 Hn1]. apply Z.leb_le in Hn0. apply Z.ltb_lt in Hn1.
    pose proof Hfit as Hf'. rewrite forallb_forall in Hf'. specialize (Hf' _ Hin). cbn [snd] in Hf'. apply andb_true_iff in Hf'. destruct Hf' as [Hwf Hmax]. apply Z.leb_le in Hmax.
    unfold Message.build_on in Hbuild. rewrite Hlk in Hbuild.
    set (window := firstn 1023 (skipn 3 fresh_data)) in *.
    assert (Hwl : zlen window = 1023) by (vm_compute; reflexivity).
    assert (Hwb : bytes_ok window = true) by (vm_compute; reflexivity).
    destruct (put KU 16 window 0 n 12) as [[d0 o0]|e|] eqn:Pu; cbn [bind] in Hbuild; try discriminate.
    destruct (enc lay (d0, o0) v) as [[d1 o1]|e|] eqn:En; cbn [bind] in Hbuild; try discriminate.
    cbn [fst snd] in Hbuild. destruct (usub o1 1) as [om1|e|] eqn:Eu; cbn [bind fst snd] in Hbuild; try discriminate.
    unfold usub in Eu. destruct (Z.leb_spec 1 o1) as [Ho1|]; [|discriminate]. inversion Eu; subst om1. clear Eu.
    assert (Hr : representable KU 12 n) by (cbn [representable]; change (2 ^ 12) with 4096; lia).
    destruct (put_bits KU 16 window 0 n 12 n ltac:(lia) ltac:(lia) ltac:(lia) ltac:(lia) Hwb eq_refl) as [d0' [Pu' [L0 [B0 Bits0]]]].
    rewrite Pu in Pu'. inversion Pu'; subst d0' o0. clear Pu'.
    destruct (Hfr d0 12 v d1 o1 B0 ltac:(lia) En) as [M1 [B1 [L1 A1]]].
    pose proof (encode_frag_grows sigt ssr59 ssr65 cap59 cap65 Hc59 Hc65 lay Hwf (d0, 12) v (d1, o1) En) as Hg. cbn [snd] in Hg.
    set (dl := (o1 - 1) / 8 + 1) in *.
    assert (Hdl : 2 <= dl <= 1023) by (unfold dl; lia).
    cbv zeta in Hbuild. match type of Hbuild with (if ?c then _ else _) = _ => destruct c eqn:Hshort end; [discriminate|]. injection Hbuild as Hfr' Hd'. clear Hd'.
    set (data1 := firstn 3 fresh_data ++ d1 ++ skipn 1026 fresh_data) in *.
    set (data2 := set_nth data1 1 (Z.shiftr dl 8 mod 256)) in *.
    set (data3 := set_nth data2 2 (Z.land dl 255)) in *.
    set (crc := crc24q (zfirstn (dl + 3) data3)) in *.
    set (data4 := set_nth data3 (dl + 3) (Z.land (Z.shiftr crc 16) 255)) in *.
    set (data5 := set_nth data4 (dl + 4) (Z.land (Z.shiftr crc 8) 255)) in *.
    set (data6 := set_nth data5 (dl + 5) (Z.land crc 255)) in *.
    assert (Hl6 : zlen data6 = 1029).
    { unfold data6, data5, data4, data3, data2. rewrite !zlen_set_nth. unfold data1. rewrite !zlen_app.
      replace (zlen (firstn 3 fresh_data)) with 3 by (vm_compute; reflexivity).
      replace (zlen (skipn 1026 fresh_data)) with 3 by (vm_compute; reflexivity). lia. }
    assert (Hfr2 : zfirstn (dl + 6) data6 = fr) by exact Hfr'. clear Hfr'.
    assert (Hzfr : zlen fr = dl + 6) by (rewrite <- Hfr2; apply zlen_zfirstn; lia).
    pose proof (frame_accept_ok fr Hacc) as Hnew.
    assert (Hbfr : bytes_ok fr = true).
    { rewrite <- Hfr2. apply bytes_ok_zfirstn. unfold data6, data5, data4, data3, data2.
      assert (Hb1 : bytes_ok data1 = true).
      { unfold data1. rewrite !bytes_ok_app, B1. replace (bytes_ok (firstn 3 fresh_data)) with true by (vm_compute; reflexivity).
        replace (bytes_ok (skipn 1026 fresh_data)) with true by (vm_compute; reflexivity). reflexivity. }
      repeat apply bytes_ok_set_nth; try exact Hb1.
      - rewrite Z.shiftr_div_pow2 by lia. apply Z.mod_pos_bound. lia.
      - change 255 with (2 ^ 8 - 1). rewrite land_low_mod by lia. apply Z.mod_pos_bound. lia.
      - change 255 with (2 ^ 8 - 1). rewrite land_low_mod by lia. apply Z.mod_pos_bound. lia.
      - change 255 with (2 ^ 8 - 1). rewrite land_low_mod by lia. apply Z.mod_pos_bound. lia.
      - change 255 with (2 ^ 8 - 1). rewrite land_low_mod by lia. apply Z.mod_pos_bound. lia. }
    destruct (frame_attributes fr (frame_of fr) Hbfr Hnew) as [_ [_ [_ [_ [Hdata [_ Hnumb]]]]]].
    rewrite Hfl, Hzfr in Hdata. replace (dl + 6 - 6) with dl in Hdata by lia.
    assert (Hd1l : zlen d1 = 1023) by lia.
    assert (Hbyte : forall j, 0 <= j < dl -> znth (fr_data (frame_of fr)) j = znth d1 j).
    { intros j Hj. rewrite Hdata, znth_zfirstn by lia. rewrite znth_zskipn by lia.
      rewrite <- Hfr2. rewrite znth_zfirstn by lia. unfold data6, data5, data4, data3, data2.
      rewrite !znth_set_nth_other by lia. unfold data1.
      rewrite znth_app_r by (replace (zlen (firstn 3 fresh_data)) with 3 by (vm_compute; reflexivity); lia).
      replace (zlen (firstn 3 fresh_data)) with 3 by (vm_compute; reflexivity).
      rewrite znth_app_l by lia. f_equal. lia. }
    exists (frame_of fr). split; [exact Hnew|].
    rewrite Hnumb. unfold number_of. rewrite Hfl, Hzfr. destruct (Z.leb_spec 2 (dl + 6 - 6)) as [_|]; [|lia]. f_equal.
    assert (E3 : znth fr 3 = znth d1 0).
    { rewrite <- (Hbyte 0 ltac:(lia)), Hdata, znth_zfirstn by lia. rewrite znth_zskipn by lia. reflexivity. }
    assert (E4 : znth fr 4 = znth d1 1).
    { rewrite <- (Hbyte 1 ltac:(lia)), Hdata, znth_zfirstn by lia. rewrite znth_zskipn by lia. reflexivity. }
    rewrite E3, E4. apply number_bits; [exact B1|lia|].
    intros m Hm. destruct A1 as [_ A1]. rewrite <- (A1 (11 - m)) by lia. rewrite Bits0 by lia.
    destruct (Z.leb_spec 0 (11 - m)); [|lia]. destruct (Z.ltb_spec (11 - m) (0 + 12)); [|lia]. cbn [andb]. f_equal. lia.
  Qed.
End BuildNumber.

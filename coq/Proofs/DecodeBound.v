(** A successful decode never reads past the end of the payload: the cursor stays within 8 * |data|.
    Contrapositive: a body shorter than its counts imply makes the decoder fail (C15), hence Corrupt. *)
From Coq Require Import ZArith List Lia Bool.
From Flocq Require Import Core BinarySingleNaN.
From RtcmModel Require Import Types BitIO Floats Field SigId Text Bias Msm Layout.
From RtcmProofs Require Import ListZ FragInd EncodeLen.
Import ListNotations.
Open Scope Z_scope.

Lemma parse_off k bits data off len v off' :
  parse k bits data off len = Ok (v, off') -> off' = off + len /\ off + len <= 8 * zlen data.
Proof.
  unfold parse. destruct (Z.ltb_spec (zlen data * 8) (off + len)) as [Hlt|Hge]; [discriminate|].
  intros H. bind_inv H. inversion H; subst. split; [reflexivity|lia].
Qed.

(** take a successful computation apart: binds, conditionals, matches on variables *)
Ltac crush H :=
  repeat match type of H with
         | bind ?x _ = Ok _ => let E := fresh "E" in destruct x eqn:E; cbn [bind] in H; [|discriminate|discriminate]
         | (let '(_, _) := ?p in _) = Ok _ => destruct p
         | (match ?p with (_, _) => _ end) = Ok _ => destruct p
         | (if ?c then _ else _) = Ok _ => let C := fresh "C" in destruct c eqn:C; try discriminate
         | (match ?x with _ => _ end) = Ok _ => destruct x eqn:?; try discriminate
         end.

Ltac offs :=
  repeat match goal with
         | E : parse _ _ _ _ _ = Ok (_, _) |- _ => apply parse_off in E; destruct E as [? ?]; subst
         end.

Lemma decode_field_within fs data off v off' : decode_field fs data off = Ok (v, off') -> off' <= 8 * zlen data.
Proof.
  unfold decode_field. intros H. crush H; inversion H; subst; offs; assumption.
Qed.

Lemma parse_str_bytes_within data : forall n off acc bs off', parse_str_bytes n data off acc = Ok (bs, off') ->
  off <= 8 * zlen data -> off' <= 8 * zlen data.
Proof.
  induction n as [|n IH]; intros off acc bs off' H Hle; cbn [parse_str_bytes] in H; [inversion H; subst; exact Hle|].
  crush H. offs. eapply IH; eassumption.
Qed.

Lemma decode_str_within cap lb data off v off' : decode_str cap lb data off = Ok (v, off') -> off' <= 8 * zlen data.
Proof.
  unfold decode_str. intros H. crush H. inversion H; subst. offs.
  eapply parse_str_bytes_within; eassumption.
Qed.

Lemma cb_dec_entries_within table cap data : forall n sat off acc es off', cb_dec_entries table cap n sat data off acc = Ok (es, off') ->
  off <= 8 * zlen data -> off' <= 8 * zlen data.
Proof.
  induction n as [|n IH]; intros sat off acc es off' H Hle; cbn [cb_dec_entries] in H; [inversion H; subst; exact Hle|].
  crush H; offs; eapply IH; eassumption.
Qed.

Lemma cb_dec_sats_within table sat_bits cap data : forall n off acc es off', cb_dec_sats table sat_bits cap n data off acc = Ok (es, off') ->
  off <= 8 * zlen data -> off' <= 8 * zlen data.
Proof.
  induction n as [|n IH]; intros off acc es off' H Hle; cbn [cb_dec_sats] in H; [inversion H; subst; exact Hle|].
  crush H. offs.
  match goal with E : cb_dec_entries _ _ _ _ _ _ _ = Ok _ |- _ => apply cb_dec_entries_within in E; [|assumption] end.
  eapply IH; eassumption.
Qed.

Lemma cb_decode_within table sat_bits cap data off v off' : cb_decode table sat_bits cap data off = Ok (v, off') -> off' <= 8 * zlen data.
Proof.
  unfold cb_decode. intros H. crush H. inversion H; subst. offs. eapply cb_dec_sats_within; eassumption.
Qed.

Lemma b1230_dec_within data : forall n i mask off acc l off', b1230_dec n i mask data off acc = Ok (l, off') ->
  off <= 8 * zlen data -> off' <= 8 * zlen data.
Proof.
  induction n as [|n IH]; intros i mask off acc l off' H Hle; cbn [b1230_dec] in H; [inversion H; subst; exact Hle|].
  crush H; offs; eapply IH; eassumption.
Qed.

Lemma b1230_decode_within data off v off' : b1230_decode data off = Ok (v, off') -> off' <= 8 * zlen data.
Proof.
  unfold b1230_decode. intros H. crush H. inversion H; subst. offs. eapply b1230_dec_within; eassumption.
Qed.

Lemma dec_column_within fs data : forall n off col off', dec_column fs n data off = Ok (col, off') ->
  off <= 8 * zlen data -> off' <= 8 * zlen data.
Proof.
  induction n as [|n IH]; intros off col off' H Hle; cbn [dec_column] in H; [inversion H; subst; exact Hle|].
  crush H. inversion H; subst.
  match goal with E : decode_field _ _ _ = Ok _ |- _ => apply decode_field_within in E end.
  eapply IH; eassumption.
Qed.

Lemma dec_columns_within n data : forall specs off rows rows' off', dec_columns specs n data off rows = Ok (rows', off') ->
  off <= 8 * zlen data -> off' <= 8 * zlen data.
Proof.
  induction specs as [|fs r IH]; intros off rows rows' off' H Hle; cbn [dec_columns] in H; [inversion H; subst; exact Hle|].
  crush H.
  match goal with E : dec_column _ _ _ _ = Ok _ |- _ => apply dec_column_within in E; [|assumption] end.
  eapply IH; eassumption.
Qed.

Lemma msm_decode_within tbl a b data off v off' : msm_decode tbl a b data off = Ok (v, off') -> off' <= 8 * zlen data.
Proof.
  unfold msm_decode. intros H. crush H; try (inversion H; subst; offs; assumption).
  inversion H; subst. offs.
  match goal with E : dec_sat_rows _ _ _ _ = Ok _ |- _ => unfold dec_sat_rows in E; crush E; inversion E; subst end.
  match goal with E : dec_sig_rows _ _ _ _ _ = Ok _ |- _ => unfold dec_sig_rows in E; crush E; inversion E; subst end.
  repeat match goal with E : dec_columns _ _ _ _ _ = Ok _ |- _ => apply dec_columns_within in E; [|assumption] end.
  assumption.
Qed.

Section Frag.
  Variable sigt : gnss -> sigtable.
  Variable ssr59 ssr65 : sigtable.
  Variable cap59 cap65 : Z.
  Notation dec := (decode_frag sigt ssr59 ssr65 cap59 cap65).

  Fixpoint no_utf8 (f : frag) : bool :=
    match f with
    | FUtf8 => false
    | FStruct l => (fix all (l : list frag) : bool := match l with [] => true | x :: r => no_utf8 x && all r end) l
    | FLenMid f1 _ f2 elem _ =>
        (fix all (l : list frag) : bool := match l with [] => true | x :: r => no_utf8 x && all r end) f1
        && (fix all (l : list frag) : bool := match l with [] => true | x :: r => no_utf8 x && all r end) f2
        && no_utf8 elem
    | FVecLen elem _ _ => no_utf8 elem
    | FGrid16 elem => no_utf8 elem
    | _ => true
    end.
  Lemma all_no_utf8_eq l : (fix all (l : list frag) : bool := match l with [] => true | x :: r => no_utf8 x && all r end) l = forallb no_utf8 l.
  Proof. induction l as [|x r IH]; [reflexivity|]. cbn [forallb]. f_equal; try exact IH. Qed.

  Definition stays_within (f : frag) : Prop :=
    no_utf8 f = true -> forall data off v off', dec f data off = Ok (v, off') -> off <= 8 * zlen data -> off' <= 8 * zlen data.

  Lemma decode_list_within : forall fl, Forall stays_within fl -> forallb no_utf8 fl = true ->
    forall data off vs off',
      (fix go (fl : list frag) (off : Z) {struct fl} : outcome (list val * Z) :=
         match fl with
         | [] => Ok ([], off)
         | f' :: fl' => '(x, off1) <- dec f' data off ;; '(r, off2) <- go fl' off1 ;; Ok (x :: r, off2)
         end) fl off = Ok (vs, off') -> off <= 8 * zlen data -> off' <= 8 * zlen data.
  Proof.
    induction 1 as [|f fl Hf _ IH]; intros Hn data off vs off' H Hle.
    - inversion H; subst. exact Hle.
    - cbn [forallb] in Hn. apply andb_true_iff in Hn. destruct Hn as [Hn1 Hn2].
      crush H. inversion H; subst.
      match goal with E : dec f _ _ = Ok _ |- _ => apply (Hf Hn1) in E; [|assumption] end.
      eapply (IH Hn2); eassumption.
  Qed.

  Lemma decode_elems_within elem : stays_within elem -> no_utf8 elem = true ->
    forall data n off l off',
      (fix elems (n : nat) (off : Z) {struct n} : outcome (list val * Z) :=
         match n with
         | O => Ok ([], off)
         | S n' => '(x, o1) <- dec elem data off ;; '(r, o2) <- elems n' o1 ;; Ok (x :: r, o2)
         end) n off = Ok (l, off') -> off <= 8 * zlen data -> off' <= 8 * zlen data.
  Proof.
    intros He Hn data. induction n as [|n IH]; intros off l off' H Hle; [inversion H; subst; exact Hle|].
    crush H. inversion H; subst.
    match goal with E : dec elem _ _ = Ok _ |- _ => apply (He Hn) in E; [|assumption] end.
    eapply IH; eassumption.
  Qed.

  Theorem decode_frag_within : forall f, stays_within f.
  Proof.
    apply frag_ind'; unfold stays_within.
    - intros fs _ data off v off' H _. cbn [decode_frag] in H. eapply decode_field_within; eassumption.
    - intros cap lb _ data off v off' H _. cbn [decode_frag] in H. eapply decode_str_within; eassumption.
    - cbn [no_utf8]. discriminate.
    - intros _ data off v off' H _. cbn [decode_frag] in H. eapply cb_decode_within; eassumption.
    - intros _ data off v off' H _. cbn [decode_frag] in H. eapply cb_decode_within; eassumption.
    - intros _ data off v off' H _. cbn [decode_frag] in H. eapply b1230_decode_within; eassumption.
    - intros l Hl Hn data off v off' H Hle. cbn [decode_frag no_utf8] in *. rewrite all_no_utf8_eq in Hn.
      crush H. inversion H; subst. eapply decode_list_within; eassumption.
    - intros f1 lenf f2 elem cap H1 H2 He Hn data off v off' H Hle. cbn [decode_frag no_utf8] in *. rewrite !all_no_utf8_eq in Hn.
      apply andb_true_iff in Hn. destruct Hn as [Hn Hne]. apply andb_true_iff in Hn. destruct Hn as [Hn1 Hn2].
      crush H. inversion H; subst.
      match goal with E : decode_field _ _ _ = Ok _ |- _ => apply decode_field_within in E end.
      match goal with E : _ f2 _ = Ok _ |- _ => apply (decode_list_within f2 H2 Hn2) in E; [|assumption] end.
      eapply (decode_elems_within elem He Hne); eassumption.
    - intros elem cap lb He Hn data off v off' H Hle. cbn [decode_frag no_utf8] in *.
      crush H. inversion H; subst. offs. eapply (decode_elems_within elem He Hn); eassumption.
    - intros elem He Hn data off v off' H Hle. cbn [no_utf8] in Hn.
      change (dec (FGrid16 elem) data off) with
        ('(l, off1) <- (fix elems (n : nat) (off : Z) {struct n} : outcome (list val * Z) :=
                          match n with
                          | O => Ok ([], off)
                          | S n' => '(x, o1) <- dec elem data off ;; '(r, o2) <- elems n' o1 ;; Ok (x :: r, o2)
                          end) 16%nat off ;; Ok (VList l, off1)) in H.
      remember 16%nat as n16 eqn:Hn16. clear Hn16.
      crush H. inversion H; subst. eapply (decode_elems_within elem He Hn); eassumption.
    - intros g a b _ data off v off' H _. cbn [decode_frag] in H. eapply msm_decode_within; eassumption.
  Qed.

  (** a count above the capacity is refused *)
  Lemma veclen_over_capacity elem cap lb data off len off1 :
    parse KU 16 data off lb = Ok (len, off1) -> cap < len -> dec (FVecLen elem cap lb) data off = Err CapacityExceeded.
  Proof. intros P H. cbn [decode_frag]. rewrite P. cbn [bind]. destruct (Z.ltb_spec cap len); [reflexivity|lia]. Qed.

  Lemma str_over_capacity cap lb data off len off1 :
    parse KU 8 data off lb = Ok (len, off1) -> cap < len -> dec (FStr cap lb) data off = Err CapacityExceeded.
  Proof. intros P H. cbn [decode_frag]. unfold decode_str. rewrite P. cbn [bind]. destruct (Z.ltb_spec cap len); [reflexivity|lia]. Qed.
End Frag.

(** From layouts to frames (C01 at the public API): what build_message returns, get_message reads. *)
From Coq Require Import ZArith List Lia Bool.
From Flocq Require Import Core BinarySingleNaN.
From RtcmModel Require Import Types BitIO Floats Field SigId Text Bias Msm Layout Crc Frame Message.
From RtcmProofs Require Import BitLemmas ListZ FragInd EncodeLen BitProofs DecodeBound DecodeTotal FieldProofs TextProofs
  FrameProofs ScanProofs BuilderProofs SizeProofs BuildProofs RoundTrip.
Import ListNotations.
Open Scope Z_scope.

Ltac Zify.zify_post_hook ::= Z.div_mod_to_equations.

(** two buffers, possibly of different lengths, that agree on the bit positions a <= g < b *)
Definition bits_agree (d1 d2 : list Z) (a b : Z) : Prop := forall g, a <= g < b -> bitat d1 g = bitat d2 g.

Lemma bits_agree_sub d1 d2 a b a' b' : bits_agree d1 d2 a b -> a <= a' -> b' <= b -> bits_agree d1 d2 a' b'.
Proof. intros H Ha Hb g Hg. apply H. lia. Qed.

Lemma parse_ext2 k bits d1 d2 o len c o' : 8 <= bits -> 1 <= len <= bits -> 0 <= o ->
  bytes_ok d1 = true -> bytes_ok d2 = true -> parse k bits d1 o len = Ok (c, o') -> o + len <= 8 * zlen d2 ->
  bits_agree d1 d2 o (o + len) -> parse k bits d2 o len = Ok (c, o').
Proof.
  intros Hb Hl Ho B1 B2 P Hfit2 H.
  destruct (Z_lt_ge_dec (8 * zlen d1) (o + len)) as [Hov|Hfit1]; [rewrite parse_overflow in P by lia; discriminate|].
  destruct (parse_bits k bits d1 o len Hb Hl Ho ltac:(lia) B1) as [v1 [C1 [T1 P1]]].
  destruct (parse_bits k bits d2 o len Hb Hl Ho Hfit2 B2) as [v2 [C2 [T2 P2]]].
  rewrite P2, <- P. rewrite P1. replace v2 with v1; [reflexivity|].
  apply (canon_eq_bits k bits); [lia|exact C1|exact C2|]. intros m Hm. rewrite T1, T2 by exact Hm.
  destruct (Z.ltb_spec m len); [|reflexivity]. cbn [andb]. apply H. lia.
Qed.

Lemma decode_field_ext2 fs d1 d2 o v o' : field_dec_ok fs = true -> 0 <= o -> bytes_ok d1 = true -> bytes_ok d2 = true ->
  decode_field fs d1 o = Ok (v, o') -> o' <= 8 * zlen d2 -> bits_agree d1 d2 o o' -> decode_field fs d2 o = Ok (v, o').
Proof.
  intros Hok Ho B1 B2 D Hfit Ha. destruct (field_dec_ok_widths fs Hok) as [W1 W2].
  pose proof (decode_field_off _ _ _ _ _ D) as ->.
  unfold decode_field in *.
  destruct (parse (f_ck fs) (f_cbits fs) d1 o (f_len fs)) as [[c o1]|e|] eqn:P; cbn [bind] in D; try discriminate.
  rewrite (parse_ext2 _ _ d1 d2 o _ c o1 W1 W2 Ho B1 B2 P Hfit Ha). exact D.
Qed.

Lemma parse_str_bytes_ext2 d1 d2 : bytes_ok d1 = true -> bytes_ok d2 = true -> forall n off acc bs off', 0 <= off ->
  parse_str_bytes n d1 off acc = Ok (bs, off') -> off' <= 8 * zlen d2 -> bits_agree d1 d2 off off' ->
  parse_str_bytes n d2 off acc = Ok (bs, off').
Proof.
  intros B1 B2. induction n as [|n IH]; intros off acc bs off' Ho H Hfit Ha; cbn [parse_str_bytes] in *; [exact H|].
  destruct (parse KU 8 d1 off 8) as [[v o1]|e|] eqn:P; cbn [bind] in H; try discriminate.
  pose proof (parse_off _ _ _ _ _ _ _ P) as [-> _].
  pose proof (parse_str_bytes_mono d1 n (off + 8) _ bs off' H) as M.
  rewrite (parse_ext2 KU 8 d1 d2 off 8 v _ ltac:(lia) ltac:(lia) Ho B1 B2 P ltac:(lia) ltac:(apply (bits_agree_sub _ _ _ _ off (off + 8) Ha); lia)). cbn [bind].
  apply (IH (off + 8)); [lia|exact H|exact Hfit|]. apply (bits_agree_sub _ _ _ _ _ _ Ha); lia.
Qed.

Lemma decode_str_ext2 cap lb d1 d2 off v off' : 1 <= lb <= 8 -> bytes_ok d1 = true -> bytes_ok d2 = true -> 0 <= off ->
  decode_str cap lb d1 off = Ok (v, off') -> off' <= 8 * zlen d2 -> bits_agree d1 d2 off off' -> decode_str cap lb d2 off = Ok (v, off').
Proof.
  intros Hl B1 B2 Ho H Hfit Ha. unfold decode_str in *.
  destruct (parse KU 8 d1 off lb) as [[len o1]|e|] eqn:P; cbn [bind] in H; try discriminate.
  destruct (cap <? len) eqn:Ec; [discriminate|].
  destruct (parse_str_bytes (Z.to_nat len) d1 o1 []) as [[bs o2]|e|] eqn:E; cbn [bind] in H; try discriminate. inversion H; subst.
  pose proof (parse_off _ _ _ _ _ _ _ P) as [-> _].
  pose proof (parse_str_bytes_mono d1 _ _ _ _ _ E) as M.
  rewrite (parse_ext2 KU 8 d1 d2 off lb len _ ltac:(lia) ltac:(lia) Ho B1 B2 P ltac:(lia) ltac:(apply (bits_agree_sub _ _ _ _ off (off + lb) Ha); lia)). cbn [bind].
  rewrite Ec. rewrite (parse_str_bytes_ext2 d1 d2 B1 B2 _ (off + lb) [] bs off' ltac:(lia) E Hfit ltac:(apply (bits_agree_sub _ _ _ _ (off + lb) off' Ha); lia)). reflexivity.
Qed.

Section Ext2.
  Variable sigt : gnss -> sigtable.
  Variable ssr59 ssr65 : sigtable.
  Variable cap59 cap65 : Z.
  Notation dec := (decode_frag sigt ssr59 ssr65 cap59 cap65).
  Notation go_dec := (fun data => fix go (fl : list frag) (off : Z) {struct fl} : outcome (list val * Z) :=
         match fl with
         | [] => Ok ([], off)
         | f' :: fl' => '(x, off1) <- dec f' data off ;; '(r, off2) <- go fl' off1 ;; Ok (x :: r, off2)
         end).
  Notation el_dec := (fun elem data => fix elems (n : nat) (off : Z) {struct n} : outcome (list val * Z) :=
         match n with
         | O => Ok ([], off)
         | S n' => '(x, o1) <- dec elem data off ;; '(r, o2) <- elems n' o1 ;; Ok (x :: r, o2)
         end).
  Notation total_of := (total_of sigt ssr59 ssr65 cap59 cap65).
  Notation list_mono := (list_mono sigt ssr59 ssr65 cap59 cap65).
  Notation elems_mono := (elems_mono sigt ssr59 ssr65 cap59 cap65).

  Definition ext2_at (f : frag) : Prop :=
    plain f = true -> forall d1 d2 off v off', bytes_ok d1 = true -> bytes_ok d2 = true -> 0 <= off ->
      dec f d1 off = Ok (v, off') -> off' <= 8 * zlen d2 -> bits_agree d1 d2 off off' -> dec f d2 off = Ok (v, off').

  Lemma list_ext2 : forall fl, Forall ext2_at fl -> forallb plain fl = true ->
    forall d1 d2 off vs off', bytes_ok d1 = true -> bytes_ok d2 = true -> 0 <= off ->
      go_dec d1 fl off = Ok (vs, off') -> off' <= 8 * zlen d2 -> bits_agree d1 d2 off off' -> go_dec d2 fl off = Ok (vs, off').
  Proof.
    induction 1 as [|f fl Hf _ IH]; intros Hp d1 d2 off vs off' B1 B2 Ho H Hfit Ha; [exact H|].
    cbn [forallb] in Hp. apply andb_true_iff in Hp. destruct Hp as [Hp1 Hp2].
    destruct (dec f d1 off) as [[x o1]|e|] eqn:E1; cbn [bind] in H; try discriminate.
    destruct (go_dec d1 fl o1) as [[r o2]|e|] eqn:E2; cbn [bind] in H; try discriminate. inversion H; subst.
    pose proof (total_of f Hp1 d1 off B1 Ho x o1 E1) as M1.
    pose proof (list_mono fl Hp2 d1 o1 B1 ltac:(lia) r off' E2) as M2.
    rewrite (Hf Hp1 d1 d2 off x o1 B1 B2 Ho E1 ltac:(lia) ltac:(apply (bits_agree_sub _ _ _ _ off o1 Ha); lia)). cbn [bind].
    rewrite (IH Hp2 d1 d2 o1 r off' B1 B2 ltac:(lia) E2 Hfit ltac:(apply (bits_agree_sub _ _ _ _ o1 off' Ha); lia)). reflexivity.
  Qed.

  Lemma elems_ext2 elem : ext2_at elem -> plain elem = true ->
    forall d1 d2, bytes_ok d1 = true -> bytes_ok d2 = true -> forall n off l off', 0 <= off ->
      el_dec elem d1 n off = Ok (l, off') -> off' <= 8 * zlen d2 -> bits_agree d1 d2 off off' -> el_dec elem d2 n off = Ok (l, off').
  Proof.
    intros He Hp d1 d2 B1 B2. induction n as [|n IH]; intros off l off' Ho H Hfit Ha; [exact H|].
    destruct (dec elem d1 off) as [[x o1]|e|] eqn:E1; cbn [bind] in H; try discriminate.
    destruct (el_dec elem d1 n o1) as [[r o2]|e|] eqn:E2; cbn [bind] in H; try discriminate. inversion H; subst.
    pose proof (total_of elem Hp d1 off B1 Ho x o1 E1) as M1.
    pose proof (elems_mono elem Hp d1 B1 n o1 ltac:(lia) r off' E2) as M2.
    rewrite (He Hp d1 d2 off x o1 B1 B2 Ho E1 ltac:(lia) ltac:(apply (bits_agree_sub _ _ _ _ off o1 Ha); lia)). cbn [bind].
    rewrite (IH o1 r off' ltac:(lia) E2 Hfit ltac:(apply (bits_agree_sub _ _ _ _ o1 off' Ha); lia)). reflexivity.
  Qed.

  Theorem decode_frag_ext2 : forall f, ext2_at f.
  Proof.
    apply frag_ind'; unfold ext2_at; cbn [plain]; try discriminate.
    - intros fs Hp d1 d2 off v off' B1 B2 Ho H Hfit Ha. apply andb_true_iff in Hp. destruct Hp as [_ Hok].
      cbn [decode_frag] in *. exact (decode_field_ext2 fs d1 d2 off v off' Hok Ho B1 B2 H Hfit Ha).
    - intros cap lb Hp d1 d2 off v off' B1 B2 Ho H Hfit Ha. apply andb_true_iff in Hp. destruct Hp as [Hp _]. apply andb_true_iff in Hp. destruct Hp as [L1 L2]. apply Z.leb_le in L1, L2.
      cbn [decode_frag] in *. exact (decode_str_ext2 cap lb d1 d2 off v off' ltac:(lia) B1 B2 Ho H Hfit Ha).
    - intros l Hl Hp d1 d2 off v off' B1 B2 Ho H Hfit Ha. rewrite all_plain_eq in Hp. cbn [decode_frag] in *.
      destruct (go_dec d1 l off) as [[vs o1]|e|] eqn:E; cbn [bind] in H; try discriminate. inversion H; subst.
      rewrite (list_ext2 l Hl Hp d1 d2 off vs off' B1 B2 Ho E Hfit Ha). reflexivity.
    - intros f1 lenf f2 elem cap H1 H2 He Hp d1 d2 off v off' B1 B2 Ho H Hfit Ha. rewrite (all_plain_eq f1), (all_plain_eq f2) in Hp.
      apply andb_true_iff in Hp. destruct Hp as [Hp Pe]. apply andb_true_iff in Hp. destruct Hp as [Hp P2]. apply andb_true_iff in Hp. destruct Hp as [P1 Pl].
      apply andb_true_iff in Pl. destruct Pl as [Pl Pl3]. apply andb_true_iff in Pl. destruct Pl as [Pl1 Pl2].
      cbn [decode_frag] in *.
      destruct (go_dec d1 f1 off) as [[vs1 o1]|e|] eqn:E1; cbn [bind] in H; try discriminate.
      destruct (decode_field lenf d1 o1) as [[lenv o2]|e|] eqn:El; cbn [bind] in H; try discriminate.
      destruct lenv as [n| | | | | | | |]; try discriminate.
      destruct (go_dec d1 f2 o2) as [[vs2 o3]|e|] eqn:E2; cbn [bind] in H; try discriminate.
      destruct (cap <? n) eqn:Ecap; [discriminate|].
      destruct (el_dec elem d1 (Z.to_nat n) o3) as [[l o4]|e|] eqn:E3; cbn [bind] in H; try discriminate. inversion H; subst.
      pose proof (list_mono f1 P1 d1 off B1 Ho vs1 o1 E1) as M1.
      pose proof (decode_field_off _ _ _ _ _ El) as Eo2. subst o2. destruct (field_dec_ok_widths lenf Pl2) as [_ Wl].
      pose proof (list_mono f2 P2 d1 (o1 + f_len lenf) B1 ltac:(lia) vs2 o3 E2) as M2.
      pose proof (elems_mono elem Pe d1 B1 _ o3 ltac:(lia) l off' E3) as M3.
      rewrite (list_ext2 f1 H1 P1 d1 d2 off vs1 o1 B1 B2 Ho E1 ltac:(lia) ltac:(apply (bits_agree_sub _ _ _ _ off o1 Ha); lia)). cbn [bind].
      rewrite (decode_field_ext2 lenf d1 d2 o1 _ _ Pl2 ltac:(lia) B1 B2 El ltac:(lia) ltac:(apply (bits_agree_sub _ _ _ _ o1 (o1 + f_len lenf) Ha); lia)). cbn [bind].
      rewrite (list_ext2 f2 H2 P2 d1 d2 (o1 + f_len lenf) vs2 o3 B1 B2 ltac:(lia) E2 ltac:(lia) ltac:(apply (bits_agree_sub _ _ _ _ (o1 + f_len lenf) o3 Ha); lia)). cbn [bind].
      rewrite Ecap.
      rewrite (elems_ext2 elem He Pe d1 d2 B1 B2 _ o3 l off' ltac:(lia) E3 Hfit ltac:(apply (bits_agree_sub _ _ _ _ o3 off' Ha); lia)). reflexivity.
    - intros elem cap lb He Hp d1 d2 off v off' B1 B2 Ho H Hfit Ha.
      apply andb_true_iff in Hp. destruct Hp as [Hp Pe]. apply andb_true_iff in Hp. destruct Hp as [L1 L2]. apply Z.leb_le in L1, L2.
      cbn [decode_frag] in *.
      destruct (parse KU 16 d1 off lb) as [[len o1]|e|] eqn:P; cbn [bind] in H; try discriminate.
      destruct (cap <? len) eqn:Ecap; [discriminate|].
      destruct (el_dec elem d1 (Z.to_nat len) o1) as [[l o2]|e|] eqn:E3; cbn [bind] in H; try discriminate. inversion H; subst.
      pose proof (parse_off _ _ _ _ _ _ _ P) as [Eo1 _]. subst o1.
      pose proof (elems_mono elem Pe d1 B1 _ (off + lb) ltac:(lia) l off' E3) as M3.
      rewrite (parse_ext2 KU 16 d1 d2 off lb len _ ltac:(lia) ltac:(lia) Ho B1 B2 P ltac:(lia) ltac:(apply (bits_agree_sub _ _ _ _ off (off + lb) Ha); lia)). cbn [bind]. rewrite Ecap.
      rewrite (elems_ext2 elem He Pe d1 d2 B1 B2 _ (off + lb) l off' ltac:(lia) E3 Hfit ltac:(apply (bits_agree_sub _ _ _ _ (off + lb) off' Ha); lia)). reflexivity.
    - intros elem He Hp d1 d2 off v off' B1 B2 Ho H Hfit Ha.
      change (dec (FGrid16 elem) d1 off) with ('(l, off1) <- el_dec elem d1 16%nat off ;; Ok (VList l, off1)) in H.
      change (dec (FGrid16 elem) d2 off) with ('(l, off1) <- el_dec elem d2 16%nat off ;; Ok (VList l, off1)).
      remember 16%nat as n16 eqn:Hn16. clear Hn16.
      destruct (el_dec elem d1 n16 off) as [[l o2]|e|] eqn:E3; cbn [bind] in H; try discriminate. inversion H; subst.
      rewrite (elems_ext2 elem He Hp d1 d2 B1 B2 _ _ l off' Ho E3 Hfit Ha). reflexivity.
  Qed.
End Ext2.

(** ---------- list index lemmas ---------- *)
Lemma nth_skipn_plus {A} (n k : nat) (l : list A) (x : A) : nth k (skipn n l) x = nth (n + k) l x.
Proof. revert l. induction n as [|n IH]; intros l; [reflexivity|]. destruct l as [|y r]; [destruct k; reflexivity|]. cbn [skipn]. rewrite IH. reflexivity. Qed.
Lemma znth_zskipn k l j : 0 <= k -> 0 <= j -> znth (zskipn k l) j = znth l (j + k).
Proof. unfold znth, zskipn. intros Hk Hj. rewrite nth_skipn_plus. f_equal. lia. Qed.

Lemma bitat_znth d1 d2 g : znth d1 (g / 8) = znth d2 (g / 8) -> bitat d1 g = bitat d2 g.
Proof. unfold bitat. intros ->. reflexivity. Qed.

(** the message number in bytes 0-1 of the payload *)
Lemma number_bits d n : bytes_ok d = true -> 0 <= n < 4096 -> (forall m, 0 <= m < 12 -> Z.testbit n m = bitat d (11 - m)) ->
  Z.lor (Z.shiftl (znth d 0) 4) (Z.shiftr (znth d 1) 4) = n.
Proof.
  intros Hb Hn H. pose proof (bytes_ok_znth d 0 Hb) as H0. pose proof (bytes_ok_znth d 1 Hb) as H1.
  apply Z.bits_inj'. intros m Hm. rewrite Z.lor_spec.
  destruct (Z_lt_ge_dec m 4) as [L4|G4].
  - rewrite Z.shiftl_spec_low by lia. rewrite Z.shiftr_spec by lia. cbn [orb].
    rewrite (H m ltac:(lia)). unfold bitat. replace ((11 - m) / 8) with 1 by lia. replace (7 - (11 - m) mod 8) with (m + 4) by lia. reflexivity.
  - rewrite Z.shiftl_spec by lia. rewrite Z.shiftr_spec by lia.
    rewrite (testbit_small (znth d 1) 8 (m + 4)) by (change (2 ^ 8) with 256; lia). rewrite orb_false_r.
    destruct (Z_lt_ge_dec m 12) as [L12|G12].
    + rewrite (H m ltac:(lia)). unfold bitat. replace ((11 - m) / 8) with 0 by lia. replace (7 - (11 - m) mod 8) with (m - 4) by lia. reflexivity.
    + rewrite (testbit_small (znth d 0) 8 (m - 4)) by (change (2 ^ 8) with 256; lia).
      symmetry. apply (testbit_small n 12 m); [change (2 ^ 12) with 4096; lia|lia].
Qed.

Section BuildDec.
  Variable sigt : gnss -> sigtable.
  Variable ssr59 ssr65 : sigtable.
  Variable cap59 cap65 : Z.
  Variable table : list (Z * frag).
  Hypothesis Hc59 : 0 <= cap59.
  Hypothesis Hc65 : 0 <= cap65.
  Hypothesis Hfit : forallb (fun m => frag_wfb (snd m) && (12 + max_bits cap59 cap65 (snd m) <=? 8184)) table = true.
  Hypothesis Hnum : forallb (fun m => (0 <=? fst m) && (fst m <? 4096)) table = true.

  Notation build_on := (build_on sigt ssr59 ssr65 cap59 cap65 table).
  Notation from_frame := (from_frame sigt ssr59 ssr65 cap59 cap65 table).
  Notation dec := (decode_frag sigt ssr59 ssr65 cap59 cap65).
  Notation enc := (encode_frag sigt ssr59 ssr65 cap59 cap65).

  (** a frame built from a message of a plain layout is accepted by MessageFrame::new and decodes to a typed
      message of the same number (never Corrupt, Empty or MsgNotSupported), whose body is what the decoder
      reads from the encoder's own buffer *)
  Theorem build_decodes n v fr d' lay : lookup n table = Some lay -> plain lay = true -> counts_ok lay = true ->
    build_on fresh_data (MTyped n v) = Ok (fr, d') ->
    exists f v', frame_new fr = Ok f /\ fr_number f = Some n /\ from_frame f = Ok (MTyped n v') /\ shape v v' /\
      exists o', dec lay (fr_data f) 12 = Ok (v', o') /\ 12 <= o' <= 8 * zlen (fr_data f).
  Proof.
    intros Hlk Hp Hcn Hbuild.
    destruct (build_well_formed sigt ssr59 ssr65 cap59 cap65 table Hc59 Hc65 Hfit (MTyped n v) fr d' Hbuild)
      as [n0 [v0 [lay0 [Em [Hlk0 [Hlen [Hpre [Hres [Hfl Hacc]]]]]]]]].
    inversion Em; subst n0 v0. rewrite Hlk in Hlk0. inversion Hlk0; subst lay0.
    pose proof (lookup_In table n lay Hlk) as Hin.
    pose proof Hnum as Hn'. rewrite forallb_forall in Hn'. specialize (Hn' _ Hin). cbn [fst] in Hn'. apply andb_true_iff in Hn'. destruct Hn' as [Hn0 Hn1]. apply Z.leb_le in Hn0. apply Z.ltb_lt in Hn1.
    pose proof Hfit as Hf'. rewrite forallb_forall in Hf'. specialize (Hf' _ Hin). cbn [snd] in Hf'. apply andb_true_iff in Hf'. destruct Hf' as [Hwf Hmax]. apply Z.leb_le in Hmax.
    (* take build_on apart *)
    unfold Message.build_on in Hbuild. rewrite Hlk in Hbuild.
    set (window := firstn 1023 (skipn 3 fresh_data)) in *.
    assert (Hwl : zlen window = 1023) by (vm_compute; reflexivity).
    assert (Hwb : bytes_ok window = true) by (vm_compute; reflexivity).
    destruct (put KU 16 window 0 n 12) as [[d0 o0]|e|] eqn:Pu; cbn [bind] in Hbuild; try discriminate.
    destruct (enc lay (d0, o0) v) as [[d1 o1]|e|] eqn:En; cbn [bind] in Hbuild; try discriminate.
    cbn [fst snd] in Hbuild. destruct (usub o1 1) as [om1|e|] eqn:Eu; cbn [bind fst snd] in Hbuild; try discriminate.
    unfold usub in Eu. destruct (Z.leb_spec 1 o1) as [Ho1|]; [|discriminate]. inversion Eu; subst om1. clear Eu.
    (* the number *)
    assert (Hr : representable KU 12 n) by (cbn [representable]; change (2 ^ 12) with 4096; lia).
    destruct (put_bits KU 16 window 0 n 12 n ltac:(lia) ltac:(lia) ltac:(lia) ltac:(lia) Hwb eq_refl) as [d0' [Pu' [L0 [B0 Bits0]]]].
    rewrite Pu in Pu'. inversion Pu'; subst d0' o0. clear Pu'.
    (* the body *)
    destruct (accepted_decodes sigt ssr59 ssr65 cap59 cap65 lay Hp Hcn d0 12 v d1 o1 B0 ltac:(lia) En) as [M1 [B1 [L1 [A1 [v' [D1 Sh1]]]]]].
    pose proof (encode_frag_grows sigt ssr59 ssr65 cap59 cap65 Hc59 Hc65 lay Hwf (d0, 12) v (d1, o1) En) as Hg. cbn [snd] in Hg.
    set (dl := (o1 - 1) / 8 + 1) in *.
    assert (Hdl : 2 <= dl <= 1023) by (unfold dl; lia).
    assert (Ho1dl : o1 <= 8 * dl) by (unfold dl; lia).
    cbv zeta in Hbuild. match type of Hbuild with (if ?c then _ else _) = _ => destruct c eqn:Hshort end; [discriminate|]. injection Hbuild as Hfr Hd'. clear Hd'.
    set (data1 := firstn 3 fresh_data ++ d1 ++ skipn 1026 fresh_data) in *.
    set (data2 := set_nth data1 1 (Z.shiftr dl 8 mod 256)) in *.
    set (data3 := set_nth data2 2 (Z.land dl 255)) in *.
    set (crc := crc24q (zfirstn (dl + 3) data3)) in *.
    set (data4 := set_nth data3 (dl + 3) (Z.land (Z.shiftr crc 16) 255)) in *.
    set (data5 := set_nth data4 (dl + 4) (Z.land (Z.shiftr crc 8) 255)) in *.
    set (data6 := set_nth data5 (dl + 5) (Z.land crc 255)) in *.
    assert (Hl6 : zlen data6 = 1029).
    { unfold data6, data5, data4, data3, data2. rewrite !zlen_set_nth. unfold data1. rewrite !zlen_app.
      replace (zlen (firstn 3 fresh_data)) with 3 by (vm_compute; reflexivity).
      replace (zlen (skipn 1026 fresh_data)) with 3 by (vm_compute; reflexivity). lia. }
    assert (Hfr' : zfirstn (dl + 6) data6 = fr) by exact Hfr. clear Hfr. rename Hfr' into Hfr.
    assert (Hzfr : zlen fr = dl + 6) by (rewrite <- Hfr; apply zlen_zfirstn; lia).
    (* the frame *)
    pose proof (frame_accept_ok fr Hacc) as Hnew.
    assert (Hbfr : bytes_ok fr = true).
    { rewrite <- Hfr. apply bytes_ok_zfirstn. unfold data6, data5, data4, data3, data2.
      assert (Hb1 : bytes_ok data1 = true).
      { unfold data1. rewrite !bytes_ok_app, B1. replace (bytes_ok (firstn 3 fresh_data)) with true by (vm_compute; reflexivity).
        replace (bytes_ok (skipn 1026 fresh_data)) with true by (vm_compute; reflexivity). reflexivity. }
      repeat apply bytes_ok_set_nth; try exact Hb1.
      - rewrite Z.shiftr_div_pow2 by lia. apply Z.mod_pos_bound. lia.
      - change 255 with (2 ^ 8 - 1). rewrite land_low_mod by lia. apply Z.mod_pos_bound. lia.
      - change 255 with (2 ^ 8 - 1). rewrite land_low_mod by lia. apply Z.mod_pos_bound. lia.
      - change 255 with (2 ^ 8 - 1). rewrite land_low_mod by lia. apply Z.mod_pos_bound. lia.
      - change 255 with (2 ^ 8 - 1). rewrite land_low_mod by lia. apply Z.mod_pos_bound. lia. }
    destruct (frame_attributes fr (frame_of fr) Hbfr Hnew) as [_ [_ [_ [_ [Hdata [_ Hnumb]]]]]].
    rewrite Hfl, Hzfr in Hdata. replace (dl + 6 - 6) with dl in Hdata by lia.
    (* payload bytes of the frame are the first dl bytes of the encoder's buffer *)
    assert (Hd1l : zlen d1 = 1023) by lia.
    assert (Hbyte : forall j, 0 <= j < dl -> znth (fr_data (frame_of fr)) j = znth d1 j).
    { intros j Hj. rewrite Hdata, znth_zfirstn by lia. rewrite znth_zskipn by lia.
      rewrite <- Hfr. rewrite znth_zfirstn by lia. unfold data6, data5, data4, data3, data2.
      rewrite !znth_set_nth_other by lia. unfold data1.
      rewrite znth_app_r by (replace (zlen (firstn 3 fresh_data)) with 3 by (vm_compute; reflexivity); lia).
      replace (zlen (firstn 3 fresh_data)) with 3 by (vm_compute; reflexivity).
      rewrite znth_app_l by lia. f_equal. lia. }
    assert (Hfdl : zlen (fr_data (frame_of fr)) = dl).
    { rewrite Hdata. apply zlen_zfirstn. split; [lia|]. rewrite zlen_zskipn by lia. lia. }
    assert (Hfdb : bytes_ok (fr_data (frame_of fr)) = true).
    { rewrite Hdata. apply bytes_ok_zfirstn. apply bytes_ok_zskipn. exact Hbfr. }
    assert (Hagree : bits_agree d1 (fr_data (frame_of fr)) 0 (8 * dl)).
    { intros g Hgg. apply bitat_znth. symmetry. apply Hbyte. lia. }
    (* the message number *)
    assert (Hnumber : fr_number (frame_of fr) = Some n).
    { rewrite Hnumb. unfold number_of. rewrite Hfl, Hzfr. destruct (Z.leb_spec 2 (dl + 6 - 6)) as [_|]; [|lia]. f_equal.
      assert (E3 : znth fr 3 = znth d1 0).
      { rewrite <- (Hbyte 0 ltac:(lia)), Hdata, znth_zfirstn by lia. rewrite znth_zskipn by lia. reflexivity. }
      assert (E4 : znth fr 4 = znth d1 1).
      { rewrite <- (Hbyte 1 ltac:(lia)), Hdata, znth_zfirstn by lia. rewrite znth_zskipn by lia. reflexivity. }
      rewrite E3, E4. apply number_bits; [exact B1|lia|].
      intros m Hm. destruct A1 as [_ A1]. rewrite <- (A1 (11 - m)) by lia. rewrite Bits0 by lia.
      destruct (Z.leb_spec 0 (11 - m)); [|lia]. destruct (Z.ltb_spec (11 - m) (0 + 12)); [|lia]. cbn [andb]. f_equal. lia. }
    exists (frame_of fr), v'. split; [exact Hnew|]. split; [exact Hnumber|].
    (* decode from the frame's payload *)
    pose proof (decode_frag_ext2 sigt ssr59 ssr65 cap59 cap65 lay Hp d1 (fr_data (frame_of fr)) 12 v' o1 B1 Hfdb ltac:(lia) D1 ltac:(lia)
                  ltac:(apply (bits_agree_sub _ _ 0 (8 * dl)); [exact Hagree|lia|lia])) as D2.
    split; [unfold Message.from_frame; rewrite Hnumber, Hlk, D2; reflexivity|]. split; [exact Sh1|].
    exists o1. split; [exact D2|lia].
  Qed.
End BuildDec.

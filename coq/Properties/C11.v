(** C11 -- quantisation picks the nearest representable value.
    Proofs are in Proofs/FloatProofs.v (Flocq: what the encoder computes on any finite in-range input,
    its monotonicity, the half-step bound with an explicit rational slack per row) and
    Proofs/FieldProofs.v.  The rows are regenerated from the df! invocations of /repo on every run and the
    table obligation re-checked.  Inputs are the finite values of the field's float type (binary32 or
    binary64: "every real input" a caller can pass); "representable values" are the decoded grid points
    dec k, k in the field's carrier range.
    [row_slack r b N] is an explicit rational: res * (rounding of the quotient, in steps) + (rounding of
    decode); [C11_rows_ok] checks it is at most a quarter step for every row.
    The three hand-written bias quantisers (1059 / 1065: 0.01 m, 14 bits; 1230: 0.02 m, 16 bits) compute what a
    df! row with the same parameters computes (Proofs/BiasNearest.v), so the same two theorems hold for them:
    [C11_bias_nearest_0_01/0_02], [C11_bias_monotone_0_01/0_02]. *)
From Coq Require Import Reals ZArith List Lia Bool QArith Qreals.
From Flocq Require Import Core BinarySingleNaN.
From RtcmModel Require Import Types BitIO Floats Field Bias Top.
From RtcmGen Require Import GenFields.
From RtcmProofs Require Import ListZ BitProofs DecodeTotal FloatProofs FloatBits FieldProofs BiasNearest.
Import ListNotations.
Open Scope Z_scope.

Theorem C11_rows_ok : forallb (fun p => field_near_ok (snd p)) all_fields = true.
Proof. vm_cast_no_check (eq_refl true). Qed.

Lemma row_of name fs : In (name, fs) all_fields -> field_near_ok fs = true.
Proof. intros Hin. pose proof C11_rows_ok as H. rewrite forallb_forall in H. exact (H _ Hin). Qed.

Section F32.
  Variables (name : String.string) (fs : field_spec).
  Hypothesis Hin : In (name, fs) all_fields.
  Hypothesis Hdt : f_dt fs = DF32.
  Notation lo := (pat_lo (f_ck fs) (f_len fs)).
  Notation hi := (pat_hi (f_ck fs) (f_len fs)).

  Lemma f32_row : exists r b, num_flt 24 128 Hp32 Hpe32 (f_res fs) = Some (Some r) /\ num_flt 24 128 Hp32 Hpe32 (f_bias fs) = Some b /\
    flt_near_ok 24 128 Hp32 Hpe32 fs = true.
  Proof.
    pose proof (row_of name fs Hin) as H. unfold field_near_ok in H. rewrite Hdt in H. pose proof H as H'. unfold flt_near_ok in H'.
    destruct (num_flt 24 128 Hp32 Hpe32 (f_res fs)) as [[r|]|]; try discriminate.
    destruct (num_flt 24 128 Hp32 Hpe32 (f_bias fs)) as [b|]; try discriminate.
    exists r, b. repeat split; assumption.
  Qed.

  (** x between the adjacent grid points dec k and dec (k+1): the encoder returns k or k+1, and the value
      that result decodes to is within half a resolution step plus the row's slack (<= a quarter step) of x *)
  Theorem C11_nearest_f32 : forall (x : f32) k, is_finite x = true -> lo <= k -> k + 1 <= hi ->
    exists r b, num_flt 24 128 Hp32 Hpe32 (f_res fs) = Some (Some r) /\ num_flt 24 128 Hp32 Hpe32 (f_bias fs) = Some b /\
    let dec := fdec_core 24 128 Hp32 Hpe32 (Some r) b in
    ((B2R (dec k) <= B2R x <= B2R (dec (k + 1)%Z))%R ->
     exists n, encode_core fs (VF32 (f32_to_bits x)) = Ok n /\ (n = k \/ n = k + 1) /\
               decode_core fs n = Ok (VF32 (f32_to_bits (dec n))) /\
               (Rabs (B2R x - B2R (dec n)) <= B2R r / 2 + Q2R (row_slack 24 128 r b (patN (f_ck fs) (f_len fs))))%R /\
               (Q2R (row_slack 24 128 r b (patN (f_ck fs) (f_len fs))) <= B2R r / 4)%R).
  Proof.
    intros x k Fx Hk Hk1. destruct f32_row as [r [b [Er [Eb Hok]]]]. exists r, b. split; [exact Er|]. split; [exact Eb|].
    cbv zeta. intros Hx.
    destruct (flt_nearest 24 128 Hp32 Hpe32 fs r b Er Eb Hok x k Fx Hk Hk1 Hx) as [n [E [Hn [Hd Hs]]]].
    exists n. rewrite (encode_core_f32 fs (Some r) b x Hdt Er Eb Fx). split; [exact E|]. split; [exact Hn|].
    split; [apply decode_core_f32; assumption|]. split; assumption.
  Qed.

  (** monotone on the whole range, and the result stays inside the field's range (no wrap-around) *)
  Theorem C11_monotone_f32 : forall (x y : f32), is_finite x = true -> is_finite y = true ->
    exists r b, num_flt 24 128 Hp32 Hpe32 (f_res fs) = Some (Some r) /\ num_flt 24 128 Hp32 Hpe32 (f_bias fs) = Some b /\
    let dec := fdec_core 24 128 Hp32 Hpe32 (Some r) b in
    ((B2R (dec lo) <= B2R x)%R -> (B2R x <= B2R y)%R -> (B2R y <= B2R (dec hi))%R ->
     exists nx ny, encode_core fs (VF32 (f32_to_bits x)) = Ok nx /\ encode_core fs (VF32 (f32_to_bits y)) = Ok ny /\
                   lo <= nx <= ny /\ ny <= hi).
  Proof.
    intros x y Fx Fy. destruct f32_row as [r [b [Er [Eb Hok]]]]. exists r, b. split; [exact Er|]. split; [exact Eb|].
    cbv zeta. intros H1 H2 H3.
    destruct (flt_monotone 24 128 Hp32 Hpe32 fs r b Er Eb Hok x y Fx Fy H1 H2 H3) as [nx [ny [Ex [Ey Hxy]]]].
    exists nx, ny. rewrite (encode_core_f32 fs (Some r) b x Hdt Er Eb Fx), (encode_core_f32 fs (Some r) b y Hdt Er Eb Fy). repeat split; tauto.
  Qed.
End F32.

Section F64.
  Variables (name : String.string) (fs : field_spec).
  Hypothesis Hin : In (name, fs) all_fields.
  Hypothesis Hdt : f_dt fs = DF64.
  Notation lo := (pat_lo (f_ck fs) (f_len fs)).
  Notation hi := (pat_hi (f_ck fs) (f_len fs)).

  Lemma f64_row : exists r b, num_flt 53 1024 Hp64 Hpe64 (f_res fs) = Some (Some r) /\ num_flt 53 1024 Hp64 Hpe64 (f_bias fs) = Some b /\
    flt_near_ok 53 1024 Hp64 Hpe64 fs = true.
  Proof.
    pose proof (row_of name fs Hin) as H. unfold field_near_ok in H. rewrite Hdt in H. pose proof H as H'. unfold flt_near_ok in H'.
    destruct (num_flt 53 1024 Hp64 Hpe64 (f_res fs)) as [[r|]|]; try discriminate.
    destruct (num_flt 53 1024 Hp64 Hpe64 (f_bias fs)) as [b|]; try discriminate.
    exists r, b. repeat split; assumption.
  Qed.

  Theorem C11_nearest_f64 : forall (x : f64) k, is_finite x = true -> lo <= k -> k + 1 <= hi ->
    exists r b, num_flt 53 1024 Hp64 Hpe64 (f_res fs) = Some (Some r) /\ num_flt 53 1024 Hp64 Hpe64 (f_bias fs) = Some b /\
    let dec := fdec_core 53 1024 Hp64 Hpe64 (Some r) b in
    ((B2R (dec k) <= B2R x <= B2R (dec (k + 1)%Z))%R ->
     exists n, encode_core fs (VF64 (f64_to_bits x)) = Ok n /\ (n = k \/ n = k + 1) /\
               decode_core fs n = Ok (VF64 (f64_to_bits (dec n))) /\
               (Rabs (B2R x - B2R (dec n)) <= B2R r / 2 + Q2R (row_slack 53 1024 r b (patN (f_ck fs) (f_len fs))))%R /\
               (Q2R (row_slack 53 1024 r b (patN (f_ck fs) (f_len fs))) <= B2R r / 4)%R).
  Proof.
    intros x k Fx Hk Hk1. destruct f64_row as [r [b [Er [Eb Hok]]]]. exists r, b. split; [exact Er|]. split; [exact Eb|].
    cbv zeta. intros Hx.
    destruct (flt_nearest 53 1024 Hp64 Hpe64 fs r b Er Eb Hok x k Fx Hk Hk1 Hx) as [n [E [Hn [Hd Hs]]]].
    exists n. rewrite (encode_core_f64 fs (Some r) b x Hdt Er Eb Fx). split; [exact E|]. split; [exact Hn|].
    split; [apply decode_core_f64; assumption|]. split; assumption.
  Qed.

  Theorem C11_monotone_f64 : forall (x y : f64), is_finite x = true -> is_finite y = true ->
    exists r b, num_flt 53 1024 Hp64 Hpe64 (f_res fs) = Some (Some r) /\ num_flt 53 1024 Hp64 Hpe64 (f_bias fs) = Some b /\
    let dec := fdec_core 53 1024 Hp64 Hpe64 (Some r) b in
    ((B2R (dec lo) <= B2R x)%R -> (B2R x <= B2R y)%R -> (B2R y <= B2R (dec hi))%R ->
     exists nx ny, encode_core fs (VF64 (f64_to_bits x)) = Ok nx /\ encode_core fs (VF64 (f64_to_bits y)) = Ok ny /\
                   lo <= nx <= ny /\ ny <= hi).
  Proof.
    intros x y Fx Fy. destruct f64_row as [r [b [Er [Eb Hok]]]]. exists r, b. split; [exact Er|]. split; [exact Eb|].
    cbv zeta. intros H1 H2 H3.
    destruct (flt_monotone 53 1024 Hp64 Hpe64 fs r b Er Eb Hok x y Fx Fy H1 H2 H3) as [nx [ny [Ex [Ey Hxy]]]].
    exists nx, ny. rewrite (encode_core_f64 fs (Some r) b x Hdt Er Eb Fx), (encode_core_f64 fs (Some r) b y Hdt Er Eb Fy). repeat split; tauto.
  Qed.
End F64.

(** ---------- the hand-written bias quantisers ---------- *)
Theorem C11_bias_rows_ok : flt_near_ok 24 128 Hp32 Hpe32 row_0_01 = true /\ flt_near_ok 24 128 Hp32 Hpe32 row_0_02 = true.
Proof. exact rows_near_ok. Qed.

(** 1059 / 1065: x between the grid points k * 0.01 and (k+1) * 0.01 of the 14-bit field: the quantiser returns k
    or k+1, and what it returns decodes to within half a step plus the slack (at most a quarter step) of x *)
Theorem C11_bias_nearest_0_01 : forall (x : f32) k, is_finite x = true -> -8192 <= k -> k + 1 <= 8191 ->
  let dec := fdec_core 24 128 Hp32 Hpe32 (Some f32_0_01) None in
  (B2R (dec k) <= B2R x <= B2R (dec (k + 1)%Z))%R ->
  let n := bias_quant f32_0_01 (f32_to_bits x) in
  (n = k \/ n = k + 1) /\ bias_dequant f32_0_01 n = f32_to_bits (dec n) /\
  (Rabs (B2R x - B2R (dec n)) <= B2R f32_0_01 / 2 + Q2R (row_slack 24 128 f32_0_01 None 8192))%R /\
  (Q2R (row_slack 24 128 f32_0_01 None 8192) <= B2R f32_0_01 / 4)%R.
Proof. intros x k Fx Hk Hk1. exact (bias_nearest 10737418 (-30) 14 (proj1 rows_near_ok) x k Fx Hk Hk1). Qed.

(** 1230: the same on the 16-bit field with 0.02 m steps *)
Theorem C11_bias_nearest_0_02 : forall (x : f32) k, is_finite x = true -> -32768 <= k -> k + 1 <= 32767 ->
  let dec := fdec_core 24 128 Hp32 Hpe32 (Some f32_0_02) None in
  (B2R (dec k) <= B2R x <= B2R (dec (k + 1)%Z))%R ->
  let n := bias_quant f32_0_02 (f32_to_bits x) in
  (n = k \/ n = k + 1) /\ bias_dequant f32_0_02 n = f32_to_bits (dec n) /\
  (Rabs (B2R x - B2R (dec n)) <= B2R f32_0_02 / 2 + Q2R (row_slack 24 128 f32_0_02 None 32768))%R /\
  (Q2R (row_slack 24 128 f32_0_02 None 32768) <= B2R f32_0_02 / 4)%R.
Proof. intros x k Fx Hk Hk1. exact (bias_nearest 10737418 (-29) 16 (proj2 rows_near_ok) x k Fx Hk Hk1). Qed.

(** monotone on the whole range of the field, never leaving it *)
Theorem C11_bias_monotone_0_01 : forall (x y : f32), is_finite x = true -> is_finite y = true ->
  let dec := fdec_core 24 128 Hp32 Hpe32 (Some f32_0_01) None in
  (B2R (dec (-8192)%Z) <= B2R x)%R -> (B2R x <= B2R y)%R -> (B2R y <= B2R (dec 8191%Z))%R ->
  -8192 <= bias_quant f32_0_01 (f32_to_bits x) <= bias_quant f32_0_01 (f32_to_bits y) /\ bias_quant f32_0_01 (f32_to_bits y) <= 8191.
Proof. intros x y Fx Fy. exact (bias_monotone 10737418 (-30) 14 (proj1 rows_near_ok) x y Fx Fy). Qed.
Theorem C11_bias_monotone_0_02 : forall (x y : f32), is_finite x = true -> is_finite y = true ->
  let dec := fdec_core 24 128 Hp32 Hpe32 (Some f32_0_02) None in
  (B2R (dec (-32768)%Z) <= B2R x)%R -> (B2R x <= B2R y)%R -> (B2R y <= B2R (dec 32767%Z))%R ->
  -32768 <= bias_quant f32_0_02 (f32_to_bits x) <= bias_quant f32_0_02 (f32_to_bits y) /\ bias_quant f32_0_02 (f32_to_bits y) <= 32767.
Proof. intros x y Fx Fy. exact (bias_monotone 10737418 (-29) 16 (proj2 rows_near_ok) x y Fx Fy). Qed.

(** non-vacuity: -0.0075 m lies between the grid points -1 and 0 of 1065 and is quantised to the nearer one, -1
    (the input on which the seeded change C11r3-A returns 0) *)
Example C11_bias_example : bias_quant f32_0_01 (f32_to_bits (of_me 24 128 Hp32 Hpe32 (-16106127) (-31))) = -1.
Proof. vm_compute. reflexivity. Qed.

(** non-vacuity: df025 (ECEF coordinate, 38 bits, 0.0001 m, f64): 0.123456 m lies between grid points 1234
    and 1235 and is encoded as the nearer one, 1235 *)
Example C11_example :
  match encode_core df025 (VF64 (f64_to_bits (of_me 53 1024 Hp64 Hpe64 8895942329546431 (-56)))) with
  | Ok n => n = 1235 | _ => False end.
Proof. vm_compute. reflexivity. Qed.

Print Assumptions C11_rows_ok.
Print Assumptions C11_nearest_f32.
Print Assumptions C11_monotone_f32.
Print Assumptions C11_nearest_f64.
Print Assumptions C11_monotone_f64.
Print Assumptions C11_bias_rows_ok.
Print Assumptions C11_bias_nearest_0_01.
Print Assumptions C11_bias_nearest_0_02.
Print Assumptions C11_bias_monotone_0_01.
Print Assumptions C11_bias_monotone_0_02.

(** C06 -- frame delivery does not depend on how the stream is split into chunks.
    Statements only; proofs are in Proofs/ScanProofs.v.  The caller of the property text is the
    state machine [cs_step] of Model/Scan.v: it keeps the unconsumed tail, appends chunks ([Append])
    and calls the scanner ([Call]), in any interleaving. *)
From Coq Require Import ZArith List Lia Bool.
From RtcmModel Require Import Types Crc Frame Scan.
From RtcmProofs Require Import ListZ FrameProofs ScanProofs.
Import ListNotations.
Open Scope Z_scope.

(** For every schedule of appends and calls (any chunk sizes, including empty and one-byte chunks):
    the run does not panic; the frames delivered so far are a prefix of the frames obtained by scanning
    the whole stream [fed ops] at once; and when the caller is quiescent (a further call finds nothing and
    consumes nothing) the delivered frames and the consumed total are exactly those of the whole stream. *)
Theorem C06_chunking : forall ops, ops_bytes_ok ops = true ->
  exists st, cs_run cs_init ops = Ok st /\
    (exists t l, drains (fed ops) 0 t (cs_delivered st ++ l)) /\
    (quiescent st -> drains (fed ops) 0 (cs_consumed st) (cs_delivered st)).
Proof. exact chunking_independent. Qed.

(** a call that delivers nothing leaves the caller quiescent *)
Theorem C06_quiescent_after_empty_call : forall st st', bytes_ok (cs_tail st) = true -> cs_step st Call = Ok st' ->
  cs_delivered st' = cs_delivered st ->
  quiescent st' \/ exists f, scan (cs_tail st) = Ok (cs_consumed st' - cs_consumed st, Some f).
Proof. exact call_none_quiescent. Qed.

Theorem C06_scan_some_extend : forall b e c f, bytes_ok b = true ->
  scan b = Ok (c, Some f) -> scan (b ++ e) = Ok (c, Some f).
Proof. exact scan_some_extend. Qed.

Theorem C06_scan_none_extend : forall b e c, bytes_ok b = true -> scan b = Ok (c, None) ->
  scan (b ++ e) = match scan (zskipn c b ++ e) with Ok (c', mf) => Ok (c + c', mf) | o => o end.
Proof. exact scan_none_extend. Qed.

(** non-vacuity: a frame fed in three pieces with calls in between is delivered once, at offset 1 *)
Example C06_example :
  let fr := mkframe 0 [62; 128] in
  exists st, cs_run cs_init [Append (9 :: firstn 2 fr); Call; Append (firstn 2 (skipn 2 fr)); Call;
                             Append (skipn 4 fr); Call; Call] = Ok st /\
             map fst (cs_delivered st) = [1] /\ cs_consumed st = 9 /\ cs_tail st = [] /\ quiescent st.
Proof. cbv zeta. eexists. split; [vm_compute; reflexivity|]. vm_compute. repeat split. Qed.

Print Assumptions C06_chunking.
Print Assumptions C06_scan_some_extend.
Print Assumptions C06_scan_none_extend.

(** Scaled (float-typed) data fields: decoding a carrier value and encoding the result gives the value
    back, for every value of the field's range (C08), by an error-bound argument on Flocq's
    BinarySingleNaN operations.  Generic in the format; the per-row side conditions are a boolean
    ([frow_ok], on exact rationals) that the property files check for every regenerated row. *)
From Coq Require Import Reals ZArith Lia Lra Psatz Bool QArith Qreals.
From Flocq Require Import Core Relative BinarySingleNaN.
From RtcmModel Require Import Types BitIO Floats Field.
Open Scope R_scope.

Section FP.
Variables prec emax : Z.
Context (Hp : Prec_gt_0 prec) (Hpe : Prec_lt_emax prec emax).
Hypothesis Hprec : (4 <= prec)%Z.
Notation emin := (3 - emax - prec)%Z.
Notation fexp := (FLT_exp emin prec).
Notation rnd := (round radix2 fexp ZnearestE).
Notation bf := (binary_float prec emax).
Notation u := (bpow radix2 (- prec)).
Notation eta := (bpow radix2 (emin - 1)).

Lemma prec_emax : (prec < emax)%Z. Proof. exact Hpe. Qed.
Lemma prec_pos : (0 < prec)%Z. Proof. exact Hp. Qed.

Local Instance fexp_valid : Valid_exp fexp. Proof. apply FLT_exp_valid. exact Hp. Qed.

Lemma u_pos : 0 < u. Proof. apply bpow_gt_0. Qed.
Lemma eta_pos : 0 < eta. Proof. apply bpow_gt_0. Qed.

(** one rounding: absolute error at most u|x| + eta *)
Lemma rnd_err x : Rabs (rnd x - x) <= u * Rabs x + eta.
Proof.
  destruct (error_N_FLT radix2 emin prec prec_pos (fun x => negb (Z.even x)) x) as [eps [et [He [Ht [_ E]]]]].
  rewrite E. replace (x * (1 + eps) + et - x) with (x * eps + et) by ring.
  eapply Rle_trans; [apply Rabs_triang|]. rewrite Rabs_mult.
  replace (/ 2 * bpow radix2 (- prec + 1)) with u in He.
  2:{ replace (- prec + 1)%Z with (- prec + 1)%Z by reflexivity. rewrite bpow_plus. simpl (bpow radix2 1). lra. }
  replace (/ 2 * bpow radix2 emin) with eta in Ht.
  2:{ replace emin with (emin - 1 + 1)%Z at 2 by lia. rewrite bpow_plus. simpl (bpow radix2 1). lra. }
  apply Rplus_le_compat; [|exact Ht]. rewrite Rmult_comm. apply Rmult_le_compat_r; [apply Rabs_pos|exact He].
Qed.

Lemma rnd_abs_le x y : Rabs (rnd x - x) <= y -> Rabs (rnd x) <= Rabs x + y.
Proof. intros H. replace (rnd x) with (x + (rnd x - x)) by ring. eapply Rle_trans; [apply Rabs_triang|]. lra. Qed.

Lemma lt_emax_of_le x : Rabs x <= bpow radix2 (emax - 1) -> Rlt_bool (Rabs (rnd x)) (bpow radix2 emax) = true.
Proof.
  intros H. apply Rlt_bool_true.
  apply Rle_lt_trans with (bpow radix2 (emax - 1)); [|apply bpow_lt; lia].
  apply abs_round_le_generic; [apply fexp_valid|apply valid_rnd_N| |exact H].
  apply generic_format_bpow. unfold FLT_exp. pose proof prec_emax. pose proof prec_pos. lia.
Qed.

(** a dyadic m * 2^e with |m| < 2^prec and emin <= e is representable *)
Lemma format_dyadic m e : (Z.abs m < 2 ^ prec)%Z -> (emin <= e)%Z -> generic_format radix2 fexp (IZR m * bpow radix2 e).
Proof.
  intros Hm He. change (IZR m * bpow radix2 e) with (F2R (Float radix2 m e)).
  apply generic_format_FLT. exists (Float radix2 m e); cbn [Fnum Fexp]; [reflexivity|exact Hm|exact He].
Qed.

Lemma of_me_correct m e : (Z.abs m < 2 ^ prec)%Z -> (emin <= e)%Z -> Rabs (IZR m * bpow radix2 e) <= bpow radix2 (emax - 1) ->
  B2R (of_me prec emax Hp Hpe m e) = IZR m * bpow radix2 e /\ is_finite (of_me prec emax Hp Hpe m e) = true.
Proof.
  intros Hm He Hb. unfold of_me.
  pose proof (binary_normalize_correct prec emax Hp Hpe mode_NE m e false) as H. cbv zeta in H.
  change (F2R (Float radix2 m e)) with (IZR m * bpow radix2 e) in H.
  change (round_mode mode_NE) with ZnearestE in H. change (SpecFloat.fexp prec emax) with fexp in H.
  rewrite (round_generic radix2 fexp ZnearestE _ (format_dyadic m e Hm He)) in H.
  rewrite Rlt_bool_true in H.
  - destruct H as [H1 [H2 _]]. split; assumption.
  - eapply Rle_lt_trans; [exact Hb|]. apply bpow_lt. lia.
Qed.

Lemma pow2_emax_bound (k : Z) : (0 <= k <= prec)%Z -> IZR (2 ^ k) <= bpow radix2 (emax - 1).
Proof.
  intros Hk. change 2%Z with (radix_val radix2). rewrite IZR_Zpower by lia. apply bpow_le. pose proof prec_emax. lia.
Qed.

Lemma ofZ_correct n : (Z.abs n < 2 ^ prec)%Z -> B2R (ofZ prec emax Hp Hpe n) = IZR n /\ is_finite (ofZ prec emax Hp Hpe n) = true.
Proof.
  intros Hn. unfold ofZ. destruct (of_me_correct n 0 Hn) as [A B].
  - pose proof prec_emax. pose proof prec_pos. lia.
  - simpl (bpow radix2 0). rewrite Rmult_1_r, <- abs_IZR.
    apply Rle_trans with (IZR (2 ^ prec)); [apply IZR_le; lia|]. apply pow2_emax_bound. pose proof prec_pos. lia.
  - simpl (bpow radix2 0) in A. rewrite Rmult_1_r in A. split; assumption.
Qed.

Lemma bpow_m1 : bpow radix2 (-1) = /2. Proof. reflexivity. Qed.

Lemma fhalf_correct : B2R (fhalf prec emax Hp Hpe) = /2 /\ is_finite (fhalf prec emax Hp Hpe) = true.
Proof.
  unfold fhalf. destruct (of_me_correct 1 (-1)) as [A B].
  - apply Z.lt_le_trans with (2 ^ 1)%Z; [reflexivity|]. apply Z.pow_le_mono_r; lia.
  - pose proof prec_emax. lia.
  - rewrite bpow_m1, Rabs_pos_eq by lra. apply Rle_trans with (bpow radix2 0); [simpl; lra|]. apply bpow_le. pose proof prec_emax. lia.
  - rewrite bpow_m1 in A. split; [lra|exact B].
Qed.
Lemma fmhalf_correct : B2R (fmhalf prec emax Hp Hpe) = - /2 /\ is_finite (fmhalf prec emax Hp Hpe) = true.
Proof.
  unfold fmhalf. destruct (of_me_correct (-1) (-1)) as [A B].
  - apply Z.lt_le_trans with (2 ^ 1)%Z; [reflexivity|]. apply Z.pow_le_mono_r; lia.
  - pose proof prec_emax. lia.
  - rewrite bpow_m1, Rabs_left by lra. apply Rle_trans with (bpow radix2 0); [simpl; lra|]. apply bpow_le. pose proof prec_emax. lia.
  - rewrite bpow_m1 in A. split; [lra|exact B].
Qed.

(** the four operations, when the exact result is at most 2^(emax-1) in magnitude *)
Lemma fmul_ok x y : is_finite x = true -> is_finite y = true -> Rabs (B2R x * B2R y) <= bpow radix2 (emax - 1) ->
  B2R (fmul prec emax Hp Hpe x y) = rnd (B2R x * B2R y) /\ is_finite (fmul prec emax Hp Hpe x y) = true.
Proof.
  intros Fx Fy Hb. unfold fmul. pose proof (Bmult_correct prec emax Hp Hpe mode_NE x y) as H.
  change (round_mode mode_NE) with ZnearestE in H. change (SpecFloat.fexp prec emax) with fexp in H.
  rewrite (lt_emax_of_le _ Hb) in H. destruct H as [A [B _]]. rewrite Fx, Fy in B. split; assumption.
Qed.
Lemma fadd_ok x y : is_finite x = true -> is_finite y = true -> Rabs (B2R x + B2R y) <= bpow radix2 (emax - 1) ->
  B2R (fadd prec emax Hp Hpe x y) = rnd (B2R x + B2R y) /\ is_finite (fadd prec emax Hp Hpe x y) = true.
Proof.
  intros Fx Fy Hb. unfold fadd. pose proof (Bplus_correct prec emax Hp Hpe mode_NE x y Fx Fy) as H.
  change (round_mode mode_NE) with ZnearestE in H. change (SpecFloat.fexp prec emax) with fexp in H.
  rewrite (lt_emax_of_le _ Hb) in H. destruct H as [A [B _]]. split; assumption.
Qed.
Lemma fsub_ok x y : is_finite x = true -> is_finite y = true -> Rabs (B2R x - B2R y) <= bpow radix2 (emax - 1) ->
  B2R (fsub prec emax Hp Hpe x y) = rnd (B2R x - B2R y) /\ is_finite (fsub prec emax Hp Hpe x y) = true.
Proof.
  intros Fx Fy Hb. unfold fsub. pose proof (Bminus_correct prec emax Hp Hpe mode_NE x y Fx Fy) as H.
  change (round_mode mode_NE) with ZnearestE in H. change (SpecFloat.fexp prec emax) with fexp in H.
  rewrite (lt_emax_of_le _ Hb) in H. destruct H as [A [B _]]. split; assumption.
Qed.
Lemma fdiv_ok x y : is_finite x = true -> B2R y <> 0 -> Rabs (B2R x / B2R y) <= bpow radix2 (emax - 1) ->
  B2R (fdiv prec emax Hp Hpe x y) = rnd (B2R x / B2R y) /\ is_finite (fdiv prec emax Hp Hpe x y) = true.
Proof.
  intros Fx Hy Hb. unfold fdiv. pose proof (Bdiv_correct prec emax Hp Hpe mode_NE x y Hy) as H.
  change (round_mode mode_NE) with ZnearestE in H. change (SpecFloat.fexp prec emax) with fexp in H.
  rewrite (lt_emax_of_le _ Hb) in H. destruct H as [A [B _]]. rewrite Fx in B. split; assumption.
Qed.

Lemma fge_correct x y : is_finite x = true -> is_finite y = true -> fge prec emax x y = Rle_bool (B2R y) (B2R x).
Proof.
  intros Fx Fy. unfold fge. rewrite (Bcompare_correct prec emax x y Fx Fy).
  destruct (Rcompare_spec (B2R x) (B2R y)); destruct (Rle_bool_spec (B2R y) (B2R x)); try reflexivity; lra.
Qed.

Lemma Btrunc_Ztrunc (x : bf) : Btrunc x = Ztrunc (B2R x).
Proof.
  apply eq_IZR. rewrite Btrunc_correct by exact Hpe.
  unfold round, F2R, scaled_mantissa, cexp, FIX_exp; cbn [Fnum Fexp]. simpl bpow. rewrite !Rmult_1_r. reflexivity.
Qed.

Lemma to_int_sat_ok lo hi (x : bf) : is_finite x = true -> (lo <= Ztrunc (B2R x) <= hi)%Z ->
  to_int_sat prec emax lo hi x = Ztrunc (B2R x).
Proof.
  intros Fx Hr. destruct x as [s|s| |s m e Hb]; try discriminate.
  - cbn [to_int_sat B2R]. rewrite Ztrunc_IZR. reflexivity.
  - unfold to_int_sat. rewrite Btrunc_Ztrunc.
    destruct (Z.ltb_spec (Ztrunc (B2R (B754_finite s m e Hb))) lo); [lia|].
    destruct (Z.ltb_spec hi (Ztrunc (B2R (B754_finite s m e Hb)))); [lia|]. reflexivity.
Qed.

(** ---------- the real-number core ---------- *)
Lemma quot_close R N E x1 n : 0 < R -> 0 <= E -> 0 <= N -> Rabs (IZR n) <= N -> Rabs (x1 - IZR n * R) <= E ->
  E * (1 + u) + u * N * R + eta * R <= R / 4 ->
  Rabs (rnd (x1 / R) - IZR n) <= /4 /\ Rabs (x1 / R) <= N + /4.
Proof.
  intros HR HE HN Hn Hx Hc. pose proof u_pos as Hu. pose proof eta_pos as Het.
  assert (Hq0 : Rabs (x1 / R - IZR n) <= E / R).
  { replace (x1 / R - IZR n) with ((x1 - IZR n * R) / R) by (field; lra).
    unfold Rdiv. rewrite Rabs_mult, (Rabs_pos_eq (/ R)) by (left; apply Rinv_0_lt_compat; exact HR).
    apply Rmult_le_compat_r; [left; apply Rinv_0_lt_compat; exact HR|exact Hx]. }
  assert (HER : E / R * (1 + u) + u * N + eta <= /4).
  { apply Rmult_le_reg_r with R; [exact HR|].
    replace ((E / R * (1 + u) + u * N + eta) * R) with (E * (1 + u) + u * N * R + eta * R) by (field; lra). lra. }
  assert (HER0 : 0 <= E / R) by (apply Rmult_le_pos; [exact HE|left; apply Rinv_0_lt_compat; exact HR]).
  assert (HuN : 0 <= u * N) by (apply Rmult_le_pos; lra).
  assert (HuE : 0 <= E / R * u) by (apply Rmult_le_pos; lra).
  assert (Hq0a : Rabs (x1 / R) <= N + E / R).
  { replace (x1 / R) with (IZR n + (x1 / R - IZR n)) by ring. eapply Rle_trans; [apply Rabs_triang|]. lra. }
  split; [|lra].
  replace (rnd (x1 / R) - IZR n) with ((rnd (x1 / R) - x1 / R) + (x1 / R - IZR n)) by ring.
  eapply Rle_trans; [apply Rabs_triang|].
  pose proof (rnd_err (x1 / R)) as He.
  assert (u * Rabs (x1 / R) <= u * (N + E / R)) by (apply Rmult_le_compat_l; lra).
  lra.
Qed.

Lemma quarter_format n k : (Z.abs (4 * n + k) < 2 ^ prec)%Z -> generic_format radix2 fexp (IZR n + IZR k / 4).
Proof.
  intros H. replace (IZR n + IZR k / 4) with (IZR (4 * n + k) * bpow radix2 (-2)).
  - apply format_dyadic; [exact H|]. pose proof prec_emax. lia.
  - rewrite plus_IZR, mult_IZR. change (bpow radix2 (-2)) with (/ 4). field.
Qed.

Lemma round_trunc q n : Rabs (q - IZR n) <= /4 -> (4 * Z.abs n + 3 < 2 ^ prec)%Z ->
  (0 <= q -> Ztrunc (rnd (q + /2)) = n) /\ (q < 0 -> Ztrunc (rnd (q - /2)) = n).
Proof.
  intros Hq Hn. apply Rabs_le_inv in Hq. split; intros H0.
  - assert (Hn0 : (0 <= n)%Z). { assert (IZR (-1) < IZR n) by (simpl; lra). apply lt_IZR in H. lia. }
    assert (L : IZR n + IZR 1 / 4 <= rnd (q + /2)).
    { rewrite <- (round_generic radix2 fexp ZnearestE (IZR n + IZR 1 / 4)) by (apply quarter_format; lia).
      apply round_le; [apply fexp_valid|apply valid_rnd_N|simpl; lra]. }
    assert (U : rnd (q + /2) <= IZR n + IZR 3 / 4).
    { rewrite <- (round_generic radix2 fexp ZnearestE (IZR n + IZR 3 / 4)) by (apply quarter_format; lia).
      apply round_le; [apply fexp_valid|apply valid_rnd_N|simpl; lra]. }
    assert (0 <= IZR n) by (apply IZR_le; exact Hn0).
    rewrite Ztrunc_floor by lra. apply Zfloor_imp. rewrite plus_IZR. lra.
  - assert (Hn0 : (n <= 0)%Z). { assert (IZR n < IZR 1) by (simpl; lra). apply lt_IZR in H. lia. }
    assert (L : IZR n + IZR (-3) / 4 <= rnd (q - /2)).
    { rewrite <- (round_generic radix2 fexp ZnearestE (IZR n + IZR (-3) / 4)) by (apply quarter_format; lia).
      apply round_le; [apply fexp_valid|apply valid_rnd_N|]. replace (IZR (-3)) with (-3) by (simpl; lra). lra. }
    assert (U : rnd (q - /2) <= IZR n + IZR (-1) / 4).
    { rewrite <- (round_generic radix2 fexp ZnearestE (IZR n + IZR (-1) / 4)) by (apply quarter_format; lia).
      apply round_le; [apply fexp_valid|apply valid_rnd_N|]. replace (IZR (-1)) with (-1) by (simpl; lra). lra. }
    assert (IZR n <= 0) by (apply IZR_le; exact Hn0).
    replace (IZR (-3)) with (-3) in L by (simpl; lra). replace (IZR (-1)) with (-1) in U by (simpl; lra).
    rewrite Ztrunc_ceil by lra. apply Zceil_imp. rewrite minus_IZR. lra.
Qed.

(** ---------- decode then encode ---------- *)
Definition biasR (bias : option bf) : R := match bias with Some b => B2R b | None => 0 end.
Definition eE1 (N : Z) (Rr : R) : R := u * IZR N * Rr + eta.
Definition eE2 (N : Z) (Rr Bb : R) : R := u * (IZR N * Rr + eE1 N Rr + Bb) + eta.
Definition eE3 (N : Z) (Rr Bb : R) : R := u * (IZR N * Rr + eE1 N Rr + eE2 N Rr Bb) + eta.
Definition eEtot (hasb : bool) (N : Z) (Rr Bb : R) : R :=
  if hasb then eE1 N Rr + eE2 N Rr Bb + eE3 N Rr Bb else eE1 N Rr.
Definition has_bias (bias : option bf) : bool := match bias with Some _ => true | None => false end.

Section Row.
  Variable r : bf.
  Variable bias : option bf.
  Variable N : Z.
  Notation Rr := (B2R r).
  Notation Bb := (biasR bias).
  Notation E1 := (eE1 N Rr).
  Notation E2 := (eE2 N Rr Bb).
  Notation E3 := (eE3 N Rr Bb).
  Notation Etot := (eEtot (has_bias bias) N Rr Bb).

  Hypothesis r_fin : is_finite r = true.
  Hypothesis r_pos : 0 < Rr.
  Hypothesis b_fin : match bias with Some b => is_finite b = true | None => True end.
  Hypothesis b_pos : 0 <= Bb.
  Hypothesis N_pos : (0 <= N)%Z.
  Hypothesis N_small : (4 * N + 3 < 2 ^ prec)%Z.
  Hypothesis Hc1 : Etot * (1 + u) + u * IZR N * Rr + eta * Rr <= Rr / 4.
  Hypothesis Hc2 : IZR N * Rr + Etot + Bb <= bpow radix2 (emax - 1).

  Variable n : Z.
  Hypothesis n_le : (Z.abs n <= N)%Z.
  Hypothesis n_sign : match bias with Some _ => (0 <= n)%Z | None => True end.

  Lemma E1_pos : 0 <= E1.
  Proof. unfold eE1. pose proof u_pos. pose proof eta_pos. assert (0 <= IZR N) by (apply IZR_le; exact N_pos). assert (0 <= u * IZR N * Rr) by (repeat apply Rmult_le_pos; lra). lra. Qed.
  Lemma E2_pos : 0 <= E2.
  Proof. unfold eE2. pose proof u_pos. pose proof eta_pos. pose proof E1_pos. assert (0 <= IZR N) by (apply IZR_le; exact N_pos). assert (0 <= IZR N * Rr) by (apply Rmult_le_pos; lra). assert (0 <= u * (IZR N * Rr + E1 + Bb)) by (apply Rmult_le_pos; lra). lra. Qed.
  Lemma E3_pos : 0 <= E3.
  Proof. unfold eE3. pose proof u_pos. pose proof eta_pos. pose proof E1_pos. pose proof E2_pos. assert (0 <= IZR N) by (apply IZR_le; exact N_pos). assert (0 <= IZR N * Rr) by (apply Rmult_le_pos; lra). assert (0 <= u * (IZR N * Rr + E1 + E2)) by (apply Rmult_le_pos; lra). lra. Qed.
  Lemma Etot_ge : E1 <= Etot /\ 0 <= Etot.
  Proof. pose proof E1_pos. pose proof E2_pos. pose proof E3_pos. unfold eEtot. destruct (has_bias bias); lra. Qed.

  Lemma absn : Rabs (IZR n) <= IZR N.
  Proof. rewrite <- abs_IZR. apply IZR_le. exact n_le. Qed.
  Lemma NR_pos : 0 <= IZR N * Rr.
  Proof. apply Rmult_le_pos; [apply IZR_le; exact N_pos|lra]. Qed.
  Lemma absnR : Rabs (IZR n * Rr) <= IZR N * Rr.
  Proof. rewrite Rabs_mult, (Rabs_pos_eq Rr) by lra. apply Rmult_le_compat_r; [lra|exact absn]. Qed.

  Lemma n_repr : (Z.abs n < 2 ^ prec)%Z.
  Proof. lia. Qed.

  (** the product: d1 = rnd (n Rr) *)
  Notation zf := (ofZ prec emax Hp Hpe n).
  Notation d1f := (fmul prec emax Hp Hpe zf r).
  Lemma d1_ok : B2R d1f = rnd (IZR n * Rr) /\ is_finite d1f = true /\ Rabs (rnd (IZR n * Rr) - IZR n * Rr) <= E1.
  Proof.
    destruct (ofZ_correct n n_repr) as [Zv Zf]. pose proof Etot_ge as [HE1 HE0]. pose proof NR_pos. pose proof absnR.
    destruct (fmul_ok zf r Zf r_fin) as [A Bf]; [rewrite Zv; lra|]. rewrite Zv in A.
    split; [exact A|]. split; [exact Bf|].
    eapply Rle_trans; [apply rnd_err|]. unfold eE1. pose proof u_pos.
    assert (u * Rabs (IZR n * Rr) <= u * (IZR N * Rr)) by (apply Rmult_le_compat_l; lra). lra.
  Qed.

  Lemma rnd_nonneg x : 0 <= x -> 0 <= rnd x.
  Proof. intros H. rewrite <- (round_0 radix2 fexp ZnearestE). apply round_le; [apply fexp_valid|apply valid_rnd_N|exact H]. Qed.

  Lemma B2R_format (x : bf) : generic_format radix2 fexp (B2R x).
  Proof. apply generic_format_B2R. Qed.

  Notation decf := (fdec_core prec emax Hp Hpe (Some r) bias n).

  (** the decoded value is finite, passes the bias test, and after removing the bias is within Etot of n Rr *)
  Lemma dec_ok : is_finite decf = true /\
    exists x1f, match bias with
                | None => Ok decf
                | Some b => if fge prec emax decf b then Ok (fsub prec emax Hp Hpe decf b) else Err OutOfRange
                end = Ok x1f /\ is_finite x1f = true /\ Rabs (B2R x1f - IZR n * Rr) <= Etot.
  Proof.
    destruct d1_ok as [D1v [D1f D1e]]. pose proof Etot_ge as [HE1 HE0]. pose proof NR_pos as HNR. pose proof absnR as HnR.
    pose proof E1_pos. pose proof E2_pos. pose proof E3_pos. pose proof u_pos as Hu. pose proof eta_pos.
    unfold fdec_core. revert b_fin n_sign b_pos Hc1 Hc2 HE1 HE0 H H0 H1. destruct bias as [b|]; cbn [has_bias biasR eEtot]; intros b_fin' n_sign' b_pos' Hc1' Hc2' HE1 HE0 H H0 H1.
    - (* biased: n >= 0 *)
      set (d1 := rnd (IZR n * Rr)) in *.
      assert (Hn0 : 0 <= IZR n) by (apply IZR_le; exact n_sign').
      assert (Hd1p : 0 <= d1) by (apply rnd_nonneg; apply Rmult_le_pos; lra).
      assert (Hd1a : Rabs d1 <= IZR N * Rr + eE1 N Rr).
      { replace d1 with (IZR n * Rr + (d1 - IZR n * Rr)) by ring. eapply Rle_trans; [apply Rabs_triang|]. lra. }
      rewrite Rabs_pos_eq in Hd1a by exact Hd1p.
      destruct (fadd_ok d1f b D1f b_fin') as [Sv Sf]; [rewrite D1v; fold d1; rewrite Rabs_pos_eq by lra; lra|].
      rewrite D1v in Sv. fold d1 in Sv.
      set (d := rnd (d1 + B2R b)) in *.
      assert (Hde : Rabs (d - (d1 + B2R b)) <= eE2 N Rr (B2R b)).
      { eapply Rle_trans; [apply rnd_err|]. unfold eE2. rewrite Rabs_pos_eq by lra.
        assert (u * (d1 + B2R b) <= u * (IZR N * Rr + eE1 N Rr + B2R b)) by (apply Rmult_le_compat_l; lra). lra. }
      assert (Hdb : B2R b <= d).
      { unfold d. rewrite <- (round_generic radix2 fexp ZnearestE (B2R b)) at 1 by apply B2R_format.
        apply round_le; [apply fexp_valid|apply valid_rnd_N|lra]. }
      split; [exact Sf|].
      rewrite (fge_correct _ b Sf b_fin'), Sv. destruct (Rle_bool_spec (B2R b) d) as [_|Hlt]; [|lra].
      apply Rabs_le_inv in Hde.
      assert (Ht : Rabs (d - B2R b) <= IZR N * Rr + eE1 N Rr + eE2 N Rr (B2R b)) by (apply Rabs_le; lra).
      destruct (fsub_ok _ b Sf b_fin') as [Tv Tf]; [rewrite Sv; lra|]. rewrite Sv in Tv.
      eexists. split; [reflexivity|]. split; [exact Tf|]. rewrite Tv.
      replace (rnd (d - B2R b) - IZR n * Rr) with ((rnd (d - B2R b) - (d - B2R b)) + (d - (d1 + B2R b)) + (d1 - IZR n * Rr)) by ring.
      eapply Rle_trans; [apply Rabs_triang|]. eapply Rle_trans; [apply Rplus_le_compat_r; apply Rabs_triang|].
      assert (Rabs (rnd (d - B2R b) - (d - B2R b)) <= eE3 N Rr (B2R b)).
      { eapply Rle_trans; [apply rnd_err|]. unfold eE3.
        assert (u * Rabs (d - B2R b) <= u * (IZR N * Rr + eE1 N Rr + eE2 N Rr (B2R b))) by (apply Rmult_le_compat_l; lra). lra. }
      assert (Rabs (d - (d1 + B2R b)) <= eE2 N Rr (B2R b)) by (apply Rabs_le; lra).
      lra.
    - split; [exact D1f|]. eexists. split; [reflexivity|]. split; [exact D1f|]. rewrite D1v. exact D1e.
  Qed.

  Variables (ck : ckind) (cbits : Z).
  Hypothesis n_carrier : (cmin ck cbits <= n <= cmax ck cbits)%Z.

  Theorem enc_dec : is_finite decf = true /\ fenc_core prec emax Hp Hpe (Some r) bias true ck cbits decf = Ok n.
  Proof.
    destruct dec_ok as [Df [x1f [Hx1 [X1f X1e]]]]. split; [exact Df|].
    unfold fenc_core. rewrite Hx1. cbn [bind].
    pose proof Etot_ge as [HE1 HE0]. pose proof NR_pos as HNR.
    assert (HN0 : 0 <= IZR N) by (apply IZR_le; exact N_pos).
    destruct (quot_close Rr (IZR N) Etot (B2R x1f) n r_pos HE0 HN0 absn X1e Hc1) as [Qc Qb].
    assert (HNb : IZR N + 1 <= bpow radix2 (emax - 1)).
    { rewrite <- plus_IZR. apply Rle_trans with (IZR (2 ^ prec)); [apply IZR_le; lia|]. apply pow2_emax_bound. pose proof prec_pos. lia. }
    destruct (fdiv_ok x1f r X1f (Rgt_not_eq _ _ r_pos)) as [Qv Qf]; [lra|].
    set (q := rnd (B2R x1f / Rr)) in *.
    destruct (round_trunc q n Qc ltac:(lia)) as [Tp Tn].
    destruct (fhalf_correct) as [Hv Hf]. destruct (fmhalf_correct) as [Mv Mf].
    assert (Zf : is_finite (fzero prec emax) = true) by reflexivity.
    rewrite (fge_correct _ _ Qf Zf), Qv. change (B2R (fzero prec emax)) with 0.
    pose proof absn as Han. apply Rabs_le_inv in Qc. apply Rabs_le_inv in Han.
    destruct (Rle_bool_spec 0 q) as [Hq|Hq].
    - destruct (fadd_ok _ _ Qf Hf) as [Av Af]; [rewrite Qv, Hv; fold q; apply Rabs_le; lra|].
      rewrite Qv, Hv in Av. fold q in Av.
      rewrite to_int_sat_ok; rewrite ?Av, ?(Tp Hq); [reflexivity|exact Af|exact n_carrier].
    - destruct (fadd_ok _ _ Qf Mf) as [Av Af]; [rewrite Qv, Mv; fold q; apply Rabs_le; lra|].
      rewrite Qv, Mv in Av. fold q in Av. replace (q + - / 2) with (q - /2) in Av by ring.
      rewrite to_int_sat_ok; rewrite ?Av, ?(Tn Hq); [reflexivity|exact Af|exact n_carrier].
  Qed.
End Row.
End FP.

(** ---------- the side conditions as a boolean on exact rationals ---------- *)
Definition qpow2 (e : Z) : Q := if (0 <=? e)%Z then inject_Z (2 ^ e) else 1 # Z.to_pos (2 ^ (- e)).

Lemma Q2R_inject_Z z : Q2R (inject_Z z) = IZR z.
Proof. unfold Q2R, inject_Z. cbn [Qnum Qden]. rewrite Rinv_1. ring. Qed.

Lemma Q2R_qpow2 e : Q2R (qpow2 e) = bpow radix2 e.
Proof.
  unfold qpow2. destruct (Z.leb_spec 0 e) as [H|H].
  - rewrite Q2R_inject_Z. change 2%Z with (radix_val radix2). apply IZR_Zpower. exact H.
  - unfold Q2R. cbn [Qnum Qden]. rewrite Z2Pos.id by (apply Z.pow_pos_nonneg; lia).
    replace e with (- (- e))%Z at 2 by lia. rewrite bpow_opp. change 2%Z with (radix_val radix2). rewrite IZR_Zpower by lia. ring.
Qed.

Section QB.
Variables prec emax : Z.
Context (Hp : Prec_gt_0 prec) (Hpe : Prec_lt_emax prec emax).
Notation bf := (binary_float prec emax).

Definition B2Q (x : bf) : Q :=
  match x with
  | B754_finite s m e _ => inject_Z (cond_Zopp s (Zpos m)) * qpow2 e
  | _ => 0
  end.
Lemma Q2R_B2Q x : is_finite x = true -> Q2R (B2Q x) = B2R x.
Proof.
  destruct x as [s|s| |s m e Hb]; try discriminate; intros _; cbn [B2Q B2R].
  - unfold Q2R. cbn. lra.
  - rewrite Q2R_mult, Q2R_inject_Z, Q2R_qpow2. reflexivity.
Qed.

Definition qu : Q := qpow2 (- prec).
Definition qeta : Q := qpow2 (3 - emax - prec - 1).
Definition qE1 (N : Z) (r : Q) : Q := qu * inject_Z N * r + qeta.
Definition qE2 (N : Z) (r b : Q) : Q := qu * (inject_Z N * r + qE1 N r + b) + qeta.
Definition qE3 (N : Z) (r b : Q) : Q := qu * (inject_Z N * r + qE1 N r + qE2 N r b) + qeta.
Definition qEtot (hasb : bool) (N : Z) (r b : Q) : Q := if hasb then qE1 N r + qE2 N r b + qE3 N r b else qE1 N r.

Lemma Q2R_qE1 N r : Q2R (qE1 N r) = eE1 prec emax N (Q2R r).
Proof. unfold qE1, eE1, qu, qeta. rewrite Q2R_plus, !Q2R_mult, Q2R_inject_Z, !Q2R_qpow2. reflexivity. Qed.
Lemma Q2R_qE2 N r b : Q2R (qE2 N r b) = eE2 prec emax N (Q2R r) (Q2R b).
Proof. unfold qE2, eE2, qu, qeta. rewrite !Q2R_plus, !Q2R_mult, !Q2R_plus, Q2R_mult, Q2R_inject_Z, !Q2R_qpow2, Q2R_qE1. reflexivity. Qed.
Lemma Q2R_qE3 N r b : Q2R (qE3 N r b) = eE3 prec emax N (Q2R r) (Q2R b).
Proof. unfold qE3, eE3, qu, qeta. rewrite !Q2R_plus, !Q2R_mult, !Q2R_plus, Q2R_mult, Q2R_inject_Z, !Q2R_qpow2, Q2R_qE1, Q2R_qE2. reflexivity. Qed.
Lemma Q2R_qEtot h N r b : Q2R (qEtot h N r b) = eEtot prec emax h N (Q2R r) (Q2R b).
Proof. unfold qEtot, eEtot. destruct h; rewrite ?Q2R_plus, ?Q2R_qE1, ?Q2R_qE2, ?Q2R_qE3; reflexivity. Qed.

Definition biasQ (bias : option bf) : Q := match bias with Some b => B2Q b | None => 0 end.

Definition frow_ok (r : bf) (bias : option bf) (N : Z) : bool :=
  let rq := B2Q r in let bq := biasQ bias in let h := has_bias prec emax bias in
  (4 <=? prec)%Z && is_finite r && negb (Qle_bool rq 0)
  && match bias with Some b => is_finite b | None => true end
  && Qle_bool 0 bq && (0 <=? N)%Z && (4 * N + 3 <? 2 ^ prec)%Z
  && Qle_bool (qEtot h N rq bq * (1 + qu) + qu * inject_Z N * rq + qeta * rq) (rq / 4)
  && Qle_bool (inject_Z N * rq + qEtot h N rq bq + bq) (qpow2 (emax - 1)).

Lemma Qle_bool_R a b : Qle_bool a b = true -> Q2R a <= Q2R b.
Proof. intros H. apply Qle_Rle. apply Qle_bool_iff. exact H. Qed.

Lemma biasQ_R bias : match bias with Some b => is_finite b = true | None => True end -> Q2R (biasQ bias) = biasR prec emax bias.
Proof. destruct bias as [b|]; cbn [biasQ biasR]; intros H; [apply Q2R_B2Q; exact H|unfold Q2R; cbn; lra]. Qed.

(** every carrier value n with |n| <= N survives decode-then-encode, and decodes to a finite value *)
Theorem frow_enc_dec r bias N : frow_ok r bias N = true ->
  forall n ck cbits, (Z.abs n <= N)%Z -> match bias with Some _ => (0 <= n)%Z | None => True end ->
    (cmin ck cbits <= n <= cmax ck cbits)%Z ->
    is_finite (fdec_core prec emax Hp Hpe (Some r) bias n) = true /\
    fenc_core prec emax Hp Hpe (Some r) bias true ck cbits (fdec_core prec emax Hp Hpe (Some r) bias n) = Ok n.
Proof.
  unfold frow_ok. intros H. repeat (apply andb_true_iff in H; destruct H as [H ?]).
  rename H into Hprec. apply Z.leb_le in Hprec.
  match goal with X : is_finite r = true |- _ => rename X into Rf end.
  match goal with X : negb (Qle_bool (B2Q r) 0) = true |- _ => rename X into Rp end.
  match goal with X : match bias with Some b => is_finite b | None => true end = true |- _ => rename X into Bf end.
  match goal with X : Qle_bool 0 (biasQ bias) = true |- _ => rename X into Bp end.
  match goal with X : (0 <=? N)%Z = true |- _ => rename X into N0; apply Z.leb_le in N0 end.
  match goal with X : (4 * N + 3 <? 2 ^ prec)%Z = true |- _ => rename X into N1; apply Z.ltb_lt in N1 end.
  match goal with X : Qle_bool _ (B2Q r / 4) = true |- _ => rename X into C1; apply Qle_bool_R in C1 end.
  match goal with X : Qle_bool _ (qpow2 (emax - 1)) = true |- _ => rename X into C2; apply Qle_bool_R in C2 end.
  assert (Bf' : match bias with Some b => is_finite b = true | None => True end) by (destruct bias; [exact Bf|exact I]).
  assert (Rp' : 0 < B2R r).
  { rewrite <- (Q2R_B2Q r Rf). destruct (Qle_bool (B2Q r) 0) eqn:E; [discriminate|].
    destruct (Qlt_le_dec 0 (B2Q r)) as [Hl|Hl]; [replace 0 with (Q2R 0) by (unfold Q2R; cbn; lra); apply Qlt_Rlt; exact Hl|].
    apply Qle_bool_iff in Hl. rewrite Hl in E. discriminate. }
  assert (Bp' : 0 <= biasR prec emax bias).
  { rewrite <- (biasQ_R bias Bf'). replace 0 with (Q2R 0) by (unfold Q2R; cbn; lra). apply Qle_bool_R. exact Bp. }
  intros n ck cbits Hn Hs Hc.
  apply (enc_dec prec emax Hp Hpe Hprec r bias N Rf Rp' Bf' Bp' N0 N1); try assumption.
  - rewrite !Q2R_plus, !Q2R_mult, Q2R_plus, Q2R_qEtot, Q2R_inject_Z, (biasQ_R bias Bf'), (Q2R_B2Q r Rf) in C1.
    unfold qu, qeta in C1. rewrite !Q2R_qpow2 in C1.
    unfold Qdiv in C1. rewrite Q2R_mult, Q2R_inv, (Q2R_B2Q r Rf) in C1 by (intros X; discriminate X).
    replace (Q2R 1) with 1 in C1 by (unfold Q2R; cbn; lra). replace (Q2R 4) with 4 in C1 by (unfold Q2R; cbn; lra).
    exact C1.
  - rewrite !Q2R_plus, Q2R_mult, Q2R_qEtot, Q2R_inject_Z, (biasQ_R bias Bf'), (Q2R_B2Q r Rf), Q2R_qpow2 in C2. exact C2.
Qed.
End QB.

(** The three hand-written bias quantisers (1059 / 1065: 0.01 m in 14 bits; 1230: 0.02 m in 16 bits) pick the
    nearest grid point (C11): they compute exactly what a df! row with the same parameters computes, so the
    generic theorems of FloatProofs.v / FieldProofs.v apply to them. *)
From Coq Require Import Reals ZArith List Lia Bool QArith Qreals.
From Flocq Require Import Core BinarySingleNaN.
From RtcmModel Require Import Types BitIO Floats Field Bias.
From RtcmProofs Require Import ListZ BitProofs DecodeTotal FloatProofs FloatBits FieldProofs.
Import ListNotations.
Open Scope Z_scope.

(** the df! row with the parameters of a bias field *)
Definition bias_row (m e len : Z) : field_spec :=
  {| f_dt := DF32; f_ck := KI; f_cbits := 16; f_len := len; f_res := Some (NFlt m e); f_bias := None; f_round := true; f_inv := None; f_cap := None |}.
Definition row_0_01 : field_spec := bias_row 10737418 (-30) 14.
Definition row_0_02 : field_spec := bias_row 10737418 (-29) 16.

(** bias_quant on a float *)
Definition bias_quant_f (r x : f32) : Z :=
  let q := fdiv 24 128 Hp32 Hpe32 x r in
  let y := if fgt 24 128 q (fzero 24 128)
           then fadd 24 128 Hp32 Hpe32 q (fhalf 24 128 Hp32 Hpe32)
           else fsub 24 128 Hp32 Hpe32 q (fhalf 24 128 Hp32 Hpe32) in
  to_int_sat 24 128 (-32768) 32767 y.
Lemma bias_quant_bits r bits : bias_quant r bits = bias_quant_f r (f32_of_bits bits).
Proof. reflexivity. Qed.

Lemma Bminus_Bplus_opp (x y : f32) : fsub 24 128 Hp32 Hpe32 x y = fadd 24 128 Hp32 Hpe32 x (Bopp y).
Proof. unfold fsub, fadd, Bminus, Bplus. destruct x as [sx|sx| |sx mx ex Hx], y as [sy|sy| |sy my ey Hy]; try reflexivity; try (destruct sx, sy; reflexivity). Qed.

Lemma mhalf_opp : fmhalf 24 128 Hp32 Hpe32 = Bopp (fhalf 24 128 Hp32 Hpe32).
Proof. apply B2SF_inj. vm_compute. reflexivity. Qed.

(** "if q > 0 { q + 0.5 } else { q - 0.5 }" and the df! macro's "q + (if q >= 0 { 0.5 } else { -0.5 })" truncate to the same integer *)
Lemma round_forms (q : f32) :
  to_int_sat 24 128 (-32768) 32767 (if fgt 24 128 q (fzero 24 128) then fadd 24 128 Hp32 Hpe32 q (fhalf 24 128 Hp32 Hpe32) else fsub 24 128 Hp32 Hpe32 q (fhalf 24 128 Hp32 Hpe32)) =
  to_int_sat 24 128 (-32768) 32767 (fadd 24 128 Hp32 Hpe32 q (if fge 24 128 q (fzero 24 128) then fhalf 24 128 Hp32 Hpe32 else fmhalf 24 128 Hp32 Hpe32)).
Proof.
  destruct q as [s|s| |s m e Hb].
  - destruct s; vm_compute; reflexivity.
  - destruct s; vm_compute; reflexivity.
  - vm_compute. reflexivity.
  - unfold fgt, fge, fzero. cbn [Bcompare]. destruct s; [|reflexivity].
    rewrite Bminus_Bplus_opp, mhalf_opp. reflexivity.
Qed.

Lemma rows_near_ok : flt_near_ok 24 128 Hp32 Hpe32 row_0_01 = true /\ flt_near_ok 24 128 Hp32 Hpe32 row_0_02 = true.
Proof. split; vm_compute; reflexivity. Qed.

Section BiasNear.
  Variables (m e len : Z).
  Notation fs := (bias_row m e len).
  Notation r := (of_me 24 128 Hp32 Hpe32 m e).
  Hypothesis Hok : flt_near_ok 24 128 Hp32 Hpe32 fs = true.
  Notation lo := (pat_lo KI len).
  Notation hi := (pat_hi KI len).
  Notation dec := (fdec_core 24 128 Hp32 Hpe32 (Some r) None).

  Lemma quant_eq x : fenc_core 24 128 Hp32 Hpe32 (Some r) None true KI 16 x = Ok (bias_quant_f r x).
  Proof. unfold bias_quant_f, fenc_core. cbn [bind]. rewrite round_forms. reflexivity. Qed.

  Lemma dequant_eq n : bias_dequant r n = f32_to_bits (dec n).
  Proof. reflexivity. Qed.

  (** x between two adjacent grid points: the quantiser returns one of the two, the one it returns decodes to
      within half a step plus an explicit slack (at most a quarter step) of x *)
  Theorem bias_nearest (x : f32) k : is_finite x = true -> lo <= k -> k + 1 <= hi ->
    (B2R (dec k) <= B2R x <= B2R (dec (k + 1)))%R ->
    let n := bias_quant r (f32_to_bits x) in
    (n = k \/ n = k + 1) /\ bias_dequant r n = f32_to_bits (dec n) /\
    (Rabs (B2R x - B2R (dec n)) <= B2R r / 2 + Q2R (row_slack 24 128 r None (patN KI len)))%R /\
    (Q2R (row_slack 24 128 r None (patN KI len)) <= B2R r / 4)%R.
  Proof.
    intros Fx Hk Hk1 Hx. cbv zeta. rewrite bias_quant_bits, (f32_of_to_bits x Fx).
    destruct (flt_nearest 24 128 Hp32 Hpe32 fs r None eq_refl eq_refl Hok x k Fx Hk Hk1 Hx) as [n [E [Hn [Hd Hs]]]].
    cbn [f_round f_ck f_cbits bias_row] in E. rewrite quant_eq in E. inversion E as [En]. rewrite En.
    split; [exact Hn|]. split; [reflexivity|]. split; assumption.
  Qed.

  (** monotone on the whole range of the field; the result never leaves it (so the field never wraps there) *)
  Theorem bias_monotone (x y : f32) : is_finite x = true -> is_finite y = true ->
    (B2R (dec lo) <= B2R x)%R -> (B2R x <= B2R y)%R -> (B2R y <= B2R (dec hi))%R ->
    lo <= bias_quant r (f32_to_bits x) <= bias_quant r (f32_to_bits y) /\ bias_quant r (f32_to_bits y) <= hi.
  Proof.
    intros Fx Fy H1 H2 H3. rewrite !bias_quant_bits, (f32_of_to_bits x Fx), (f32_of_to_bits y Fy).
    destruct (flt_monotone 24 128 Hp32 Hpe32 fs r None eq_refl eq_refl Hok x y Fx Fy H1 H2 H3) as [nx [ny [Ex [Ey Hxy]]]].
    cbn [f_round f_ck f_cbits bias_row] in Ex, Ey. rewrite quant_eq in Ex, Ey. inversion Ex as [Enx]. inversion Ey as [Eny]. rewrite Enx, Eny. exact Hxy.
  Qed.
End BiasNear.

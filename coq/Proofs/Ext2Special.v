(** Decoding depends only on the bits consumed, for the hand-written decoders (1230, 1059/1065 bias lists):
    a successful decode of one buffer is reproduced on any other buffer that holds the same bits over the
    range consumed and is long enough -- in particular on the payload of the frame cut out of the builder's
    buffer. *)
From Coq Require Import ZArith List Lia Bool.
From RtcmModel Require Import Types BitIO Floats Field SigId Text Bias Msm Layout.
From RtcmProofs Require Import BitLemmas ListZ EncodeLen BitProofs DecodeBound DecodeTotal FieldProofs RoundTrip RoundTripFrame TextRoundTrip MsmMasks MsmDecode.
Import ListNotations.
Open Scope Z_scope.

Ltac Zify.zify_post_hook ::= Z.div_mod_to_equations.

Definition ext2 (dec : list Z -> Z -> outcome (val * Z)) : Prop :=
  forall d1 d2 off v off', bytes_ok d1 = true -> bytes_ok d2 = true -> 0 <= off ->
    dec d1 off = Ok (v, off') -> off' <= 8 * zlen d2 -> bits_agree d1 d2 off off' -> dec d2 off = Ok (v, off').

(** ---------- 1230 ---------- *)
Lemma b1230_dec_ext2 d1 d2 mask : bytes_ok d1 = true -> bytes_ok d2 = true ->
  forall n i off acc l off', 0 <= off -> b1230_dec n i mask d1 off acc = Ok (l, off') -> off' <= 8 * zlen d2 ->
    bits_agree d1 d2 off off' -> b1230_dec n i mask d2 off acc = Ok (l, off').
Proof.
  intros B1 B2. induction n as [|n IH]; intros i off acc l off' Ho H Hfit Ha; cbn [b1230_dec] in *; [exact H|].
  destruct (Z.testbit mask (3 - i)); [|apply IH; assumption].
  destruct (parse KI 16 d1 off 16) as [[b o1]|e|] eqn:P; cbn [bind] in H; try discriminate.
  destruct (parse_off _ _ _ _ _ _ _ P) as [-> _].
  pose proof (b1230_dec_mono d1 n (i + 1) mask (off + 16) _ l off' H) as M.
  rewrite (parse_ext2 KI 16 d1 d2 off 16 b (off + 16) ltac:(lia) ltac:(lia) Ho B1 B2 P ltac:(lia) ltac:(apply (bits_agree_sub _ _ _ _ off (off + 16) Ha); lia)). cbn [bind].
  apply IH; [lia|exact H|exact Hfit|apply (bits_agree_sub _ _ _ _ (off + 16) off' Ha); lia].
Qed.

Theorem b1230_decode_ext2 : ext2 b1230_decode.
Proof.
  intros d1 d2 off v off' B1 B2 Ho H Hfit Ha. unfold b1230_decode in *.
  destruct (parse KU 8 d1 off 4) as [[mask o1]|e|] eqn:P; cbn [bind] in H; try discriminate.
  destruct (parse_off _ _ _ _ _ _ _ P) as [-> _].
  destruct (b1230_dec 4 0 mask d1 (off + 4) []) as [[l o2]|e|] eqn:E; cbn [bind] in H; try discriminate. inversion H; subst.
  pose proof (b1230_dec_mono d1 4 0 mask (off + 4) [] l off' E) as M.
  rewrite (parse_ext2 KU 8 d1 d2 off 4 mask (off + 4) ltac:(lia) ltac:(lia) Ho B1 B2 P ltac:(lia) ltac:(apply (bits_agree_sub _ _ _ _ off (off + 4) Ha); lia)). cbn [bind].
  rewrite (b1230_dec_ext2 d1 d2 mask B1 B2 4 0 (off + 4) [] l off' ltac:(lia) E Hfit ltac:(apply (bits_agree_sub _ _ _ _ (off + 4) off' Ha); lia)). reflexivity.
Qed.

(** ---------- 1059 / 1065 ---------- *)
Section CB.
  Variable table : sigtable.
  Variable sat_bits cap : Z.
  Hypothesis Hsb : 1 <= sat_bits <= 8.

  Lemma cb_dec_entries_ext2 d1 d2 : bytes_ok d1 = true -> bytes_ok d2 = true ->
    forall n sat off acc es off', 0 <= off -> cb_dec_entries table cap n sat d1 off acc = Ok (es, off') -> off' <= 8 * zlen d2 ->
      bits_agree d1 d2 off off' -> cb_dec_entries table cap n sat d2 off acc = Ok (es, off').
  Proof.
    intros B1 B2. induction n as [|n IH]; intros sat off acc es off' Ho H Hfit Ha; cbn [cb_dec_entries] in *; [exact H|].
    destruct (parse KU 8 d1 off 5) as [[id o1]|e|] eqn:P1; cbn [bind] in H; try discriminate.
    destruct (parse_off _ _ _ _ _ _ _ P1) as [-> _].
    destruct (to_sig table id) as [sg|] eqn:Es.
    - destruct (parse KI 16 d1 (off + 5) 14) as [[b o2]|e|] eqn:P2; cbn [bind] in H; try discriminate.
      destruct (parse_off _ _ _ _ _ _ _ P2) as [-> _].
      destruct (cap <=? zlen acc) eqn:Ec; [discriminate|].
      pose proof (cb_dec_entries_mono table cap d1 n sat (off + 5 + 14) _ es off' H) as M.
      rewrite (parse_ext2 KU 8 d1 d2 off 5 id (off + 5) ltac:(lia) ltac:(lia) Ho B1 B2 P1 ltac:(lia) ltac:(apply (bits_agree_sub _ _ _ _ off (off + 5) Ha); lia)). cbn [bind]. rewrite Es.
      rewrite (parse_ext2 KI 16 d1 d2 (off + 5) 14 b (off + 5 + 14) ltac:(lia) ltac:(lia) ltac:(lia) B1 B2 P2 ltac:(lia) ltac:(apply (bits_agree_sub _ _ _ _ (off + 5) (off + 5 + 14) Ha); lia)). cbn [bind].
      apply IH; [lia|exact H|exact Hfit|apply (bits_agree_sub _ _ _ _ (off + 5 + 14) off' Ha); lia].
    - pose proof (cb_dec_entries_mono table cap d1 n sat (off + 5) _ es off' H) as M.
      rewrite (parse_ext2 KU 8 d1 d2 off 5 id (off + 5) ltac:(lia) ltac:(lia) Ho B1 B2 P1 ltac:(lia) ltac:(apply (bits_agree_sub _ _ _ _ off (off + 5) Ha); lia)). cbn [bind]. rewrite Es.
      apply IH; [lia|exact H|exact Hfit|apply (bits_agree_sub _ _ _ _ (off + 5) off' Ha); lia].
  Qed.

  Lemma cb_dec_sats_ext2 d1 d2 : bytes_ok d1 = true -> bytes_ok d2 = true ->
    forall n off acc es off', 0 <= off -> cb_dec_sats table sat_bits cap n d1 off acc = Ok (es, off') -> off' <= 8 * zlen d2 ->
      bits_agree d1 d2 off off' -> cb_dec_sats table sat_bits cap n d2 off acc = Ok (es, off').
  Proof.
    intros B1 B2. induction n as [|n IH]; intros off acc es off' Ho H Hfit Ha; cbn [cb_dec_sats] in *; [exact H|].
    destruct (parse KU 8 d1 off sat_bits) as [[sat o1]|e|] eqn:P1; cbn [bind] in H; try discriminate.
    destruct (parse_off _ _ _ _ _ _ _ P1) as [-> _].
    destruct (parse KU 8 d1 (off + sat_bits) 5) as [[bn o2]|e|] eqn:P2; cbn [bind] in H; try discriminate.
    destruct (parse_off _ _ _ _ _ _ _ P2) as [-> _].
    destruct (cb_dec_entries table cap (Z.to_nat bn) sat d1 (off + sat_bits + 5) acc) as [[acc' o3]|e|] eqn:E; cbn [bind] in H; try discriminate.
    pose proof (cb_dec_entries_mono table cap d1 _ sat _ acc acc' o3 E) as M1.
    pose proof (cb_dec_sats_mono table sat_bits cap d1 ltac:(lia) n o3 acc' es off' H) as M2.
    rewrite (parse_ext2 KU 8 d1 d2 off sat_bits sat (off + sat_bits) ltac:(lia) ltac:(lia) Ho B1 B2 P1 ltac:(lia) ltac:(apply (bits_agree_sub _ _ _ _ off (off + sat_bits) Ha); lia)). cbn [bind].
    rewrite (parse_ext2 KU 8 d1 d2 (off + sat_bits) 5 bn (off + sat_bits + 5) ltac:(lia) ltac:(lia) ltac:(lia) B1 B2 P2 ltac:(lia) ltac:(apply (bits_agree_sub _ _ _ _ (off + sat_bits) (off + sat_bits + 5) Ha); lia)). cbn [bind].
    rewrite (cb_dec_entries_ext2 d1 d2 B1 B2 _ sat (off + sat_bits + 5) acc acc' o3 ltac:(lia) E ltac:(lia) ltac:(apply (bits_agree_sub _ _ _ _ (off + sat_bits + 5) o3 Ha); lia)). cbn [bind].
    apply IH; [lia|exact H|exact Hfit|apply (bits_agree_sub _ _ _ _ o3 off' Ha); lia].
  Qed.

  Theorem cb_decode_ext2 : ext2 (cb_decode table sat_bits cap).
  Proof.
    intros d1 d2 off v off' B1 B2 Ho H Hfit Ha. unfold cb_decode in *.
    destruct (parse KU 8 d1 off 6) as [[sn o1]|e|] eqn:P; cbn [bind] in H; try discriminate.
    destruct (parse_off _ _ _ _ _ _ _ P) as [-> _].
    destruct (cb_dec_sats table sat_bits cap (Z.to_nat sn) d1 (off + 6) []) as [[es o2]|e|] eqn:E; cbn [bind] in H; try discriminate. inversion H; subst.
    pose proof (cb_dec_sats_mono table sat_bits cap d1 ltac:(lia) _ (off + 6) [] es off' E) as M.
    rewrite (parse_ext2 KU 8 d1 d2 off 6 sn (off + 6) ltac:(lia) ltac:(lia) Ho B1 B2 P ltac:(lia) ltac:(apply (bits_agree_sub _ _ _ _ off (off + 6) Ha); lia)). cbn [bind].
    rewrite (cb_dec_sats_ext2 d1 d2 B1 B2 _ (off + 6) [] es off' ltac:(lia) E Hfit ltac:(apply (bits_agree_sub _ _ _ _ (off + 6) off' Ha); lia)). reflexivity.
  Qed.
End CB.

(** ---------- the text of 1029 ---------- *)
(** bytes whose eight bits agree are equal *)
Lemma byte_agree d1 d2 k : bytes_ok d1 = true -> bytes_ok d2 = true -> 0 <= k -> bits_agree d1 d2 (8 * k) (8 * k + 8) -> znth d1 k = znth d2 k.
Proof.
  intros B1 B2 Hk Ha. apply (byte_of_bits d1 k (znth d2 k) B1 Hk (bytes_ok_znth d2 k B2)).
  intros j Hj. rewrite (Ha (8 * k + j) ltac:(lia)). unfold bitat.
  replace ((8 * k + j) / 8) with k by lia. replace (7 - (8 * k + j) mod 8) with (7 - j) by lia. reflexivity.
Qed.

Theorem decode_utf8_ext2 : ext2 decode_utf8.
Proof.
  intros d1 d2 off v off' B1 B2 Ho H Hfit Ha. unfold decode_utf8 in *.
  destruct (parse KU 8 d1 off 7) as [[c o1]|e|] eqn:P1; cbn [bind] in H; try discriminate.
  destruct (parse_off _ _ _ _ _ _ _ P1) as [-> _].
  destruct (parse KU 8 d1 (off + 7) 8) as [[len o2]|e|] eqn:P2; cbn [bind] in H; try discriminate.
  destruct (parse_off _ _ _ _ _ _ _ P2) as [-> F2].
  destruct (parse_range KU 8 d1 (off + 7) 8 len (off + 7 + 8) ltac:(lia) ltac:(lia) ltac:(lia) B1 P2) as [Hl0 _]. cbn [representable] in Hl0.
  destruct (Z.ltb_spec (zlen d1) ((off + 7 + 8) / 8)) as [|Hk1]; [discriminate|].
  destruct (Z.ltb_spec (zlen (zskipn ((off + 7 + 8) / 8) d1)) len) as [|Hlen1]; [discriminate|].
  destruct (from_utf8 (zfirstn len (zskipn ((off + 7 + 8) / 8) d1))) as [chars|] eqn:Fu; [|discriminate].
  destruct (from_utf8 (array_string_from 255 chars)) as [chars'|] eqn:Fu2; [|discriminate].
  inversion H; subst v off'. clear H.
  set (k := (off + 7 + 8) / 8) in *.
  assert (Hk0 : 0 <= k) by (unfold k; apply Z.div_pos; lia).
  assert (Hkb : 8 * k <= off + 7 + 8 < 8 * k + 8) by (unfold k; lia).
  rewrite zlen_zskipn in Hlen1 by lia.
  rewrite (parse_ext2 KU 8 d1 d2 off 7 c (off + 7) ltac:(lia) ltac:(lia) Ho B1 B2 P1 ltac:(lia) ltac:(apply (bits_agree_sub _ _ _ _ off (off + 7) Ha); lia)). cbn [bind].
  rewrite (parse_ext2 KU 8 d1 d2 (off + 7) 8 len (off + 7 + 8) ltac:(lia) ltac:(lia) ltac:(lia) B1 B2 P2 ltac:(lia) ltac:(apply (bits_agree_sub _ _ _ _ (off + 7) (off + 7 + 8) Ha); lia)). cbn [bind].
  fold k. destruct (Z.ltb_spec (zlen d2) k); [lia|].
  rewrite zlen_zskipn by lia. destruct (Z.ltb_spec (zlen d2 - k) len); [lia|].
  replace (zfirstn len (zskipn k d2)) with (zfirstn len (zskipn k d1)); [rewrite Fu, Fu2; reflexivity|].
  apply list_eq_znth.
  - rewrite !zlen_zfirstn by (rewrite zlen_zskipn by lia; lia). reflexivity.
  - rewrite zlen_zfirstn by (rewrite zlen_zskipn by lia; lia). intros j Hj.
    rewrite !znth_zfirstn by lia. rewrite !znth_zskipn' by lia.
    apply byte_agree; [exact B1|exact B2|lia|]. apply (bits_agree_sub _ _ _ _ (8 * (k + j)) (8 * (k + j) + 8) Ha); lia.
Qed.

(** ---------- the MSM data segment ---------- *)
Lemma dec_column_ext2 fs d1 d2 : field_dec_ok fs = true -> bytes_ok d1 = true -> bytes_ok d2 = true ->
  forall n off col off', 0 <= off -> dec_column fs n d1 off = Ok (col, off') -> off' <= 8 * zlen d2 -> bits_agree d1 d2 off off' ->
    dec_column fs n d2 off = Ok (col, off').
Proof.
  intros Hok B1 B2. destruct (field_dec_ok_widths fs Hok) as [_ W].
  induction n as [|n IH]; intros off col off' Ho H Hfit Ha; cbn [dec_column] in *; [exact H|].
  destruct (decode_field fs d1 off) as [[x o1]|e|] eqn:E1; cbn [bind] in H; try discriminate.
  destruct (dec_column fs n d1 o1) as [[r o2]|e|] eqn:E2; cbn [bind] in H; try discriminate. inversion H; subst.
  pose proof (decode_field_off _ _ _ _ _ E1) as ->.
  pose proof (dec_column_off fs d1 ltac:(lia) n _ r off' E2) as M.
  rewrite (decode_field_ext2 fs d1 d2 off x (off + f_len fs) Hok Ho B1 B2 E1 ltac:(lia) ltac:(apply (bits_agree_sub _ _ _ _ off (off + f_len fs) Ha); lia)). cbn [bind].
  rewrite (IH (off + f_len fs) r off' ltac:(lia) E2 Hfit ltac:(apply (bits_agree_sub _ _ _ _ (off + f_len fs) off' Ha); lia)). reflexivity.
Qed.

Lemma dec_columns_ext2 d1 d2 n : bytes_ok d1 = true -> bytes_ok d2 = true -> forall specs, forallb field_dec_ok specs = true ->
  forall off rows rows' off', 0 <= off -> dec_columns specs n d1 off rows = Ok (rows', off') -> off' <= 8 * zlen d2 -> bits_agree d1 d2 off off' ->
    dec_columns specs n d2 off rows = Ok (rows', off').
Proof.
  intros B1 B2. induction specs as [|fs r IH]; intros Hok off rows rows' off' Ho H Hfit Ha; cbn [dec_columns] in *; [exact H|].
  cbn [forallb] in Hok. apply andb_true_iff in Hok. destruct Hok as [Hf Hr]. destruct (field_dec_ok_widths fs Hf) as [_ W].
  destruct (dec_column fs n d1 off) as [[col o1]|e|] eqn:E1; cbn [bind] in H; try discriminate.
  pose proof (dec_column_off fs d1 ltac:(lia) n off col o1 E1) as M1.
  pose proof (dec_columns_off d1 n r Hr o1 _ rows' off' H) as M2.
  rewrite (dec_column_ext2 fs d1 d2 Hf B1 B2 n off col o1 Ho E1 ltac:(lia) ltac:(apply (bits_agree_sub _ _ _ _ off o1 Ha); lia)). cbn [bind].
  apply IH; [exact Hr|lia|exact H|exact Hfit|apply (bits_agree_sub _ _ _ _ o1 off' Ha); lia].
Qed.

Lemma cell_mask_id_vec_zero sm gm cm : mask_len 64 sm * mask_len 32 gm = 0 -> cell_mask_id_vec sm gm cm = Ok None.
Proof.
  intros Hz. unfold cell_mask_id_vec. rewrite <- (mask_len_ids 64 sm), <- (mask_len_ids 32 gm) by lia. rewrite Hz. reflexivity.
Qed.

(** the two row blocks, with the identifier lists as plain variables *)
Lemma msm_rows_ext2 tbl a b d1 d2 sv cv off sats o4 sigs o5 : forallb field_dec_ok a = true -> forallb field_dec_ok b = true ->
  bytes_ok d1 = true -> bytes_ok d2 = true -> 0 <= off ->
  dec_sat_rows a sv d1 off = Ok (sats, o4) -> dec_sig_rows tbl b cv d1 o4 = Ok (sigs, o5) -> o5 <= 8 * zlen d2 -> bits_agree d1 d2 off o5 ->
  off <= o4 <= o5 /\ dec_sat_rows a sv d2 off = Ok (sats, o4) /\ dec_sig_rows tbl b cv d2 o4 = Ok (sigs, o5).
Proof.
  intros Hfa Hfb B1 B2 Ho R1 R2 Hfit Ha.
  unfold dec_sat_rows in *. destruct (64 <? zlen sv) eqn:Lsv; [discriminate|].
  destruct (dec_columns a (length sv) d1 off (map (fun s => [VInt s]) sv)) as [[rs q1]|e|] eqn:C1; cbn [bind] in R1; try discriminate.
  inversion R1; subst sats o4. clear R1.
  unfold dec_sig_rows in *. destruct (64 <? zlen cv) eqn:Lcv; [discriminate|].
  destruct (cells_to_rows tbl cv) as [r0|e|] eqn:CR; cbn [bind] in R2; try discriminate.
  destruct (dec_columns b (length cv) d1 q1 r0) as [[rs2 q2]|e|] eqn:C2; cbn [bind] in R2; try discriminate.
  inversion R2; subst sigs o5. clear R2.
  pose proof (dec_columns_off d1 _ a Hfa _ _ _ _ C1) as Mq1. pose proof (dec_columns_off d1 _ b Hfb _ _ _ _ C2) as Mq2.
  split; [lia|].
  rewrite (dec_columns_ext2 d1 d2 (length sv) B1 B2 a Hfa off (map (fun s => [VInt s]) sv) rs q1 Ho C1 ltac:(lia) ltac:(apply (bits_agree_sub _ _ _ _ off q1 Ha); lia)). cbn [bind].
  split; [reflexivity|].
  rewrite (dec_columns_ext2 d1 d2 (length cv) B1 B2 b Hfb q1 r0 rs2 q2 ltac:(lia) C2 ltac:(lia) ltac:(apply (bits_agree_sub _ _ _ _ q1 q2 Ha); lia)). reflexivity.
Qed.

(** msm_decode with the cell-list function as a parameter: the kernel must never unfold cell_mask_id_vec on a
    symbolic mask (it is exponential), so the proof is done for an arbitrary function with the one property used *)
Section MsmGen.
  Variable F : Z -> Z -> Z -> outcome (option (list Z * list (Z * Z))).
  Hypothesis HF : forall sm gm cm, mask_len 64 sm * mask_len 32 gm = 0 -> F sm gm cm = Ok None.
  Variable tbl : sigtable.

  Definition msm_decode_gen (sat_specs sig_specs : list field_spec) (data : list Z) (off : Z) : outcome (val * Z) :=
    '(sat_mask, off1) <- parse KU 64 data off 64 ;;
    '(sig_mask, off2) <- parse KU 32 data off1 32 ;;
    if (sat_mask =? 0) && (sig_mask =? 0) then Ok (VStruct [VList []; VList []], off2)
    else
      let sat_len := mask_len 64 sat_mask in
      let sig_len := mask_len 32 sig_mask in
      if 64 <? sat_len * sig_len then Err InvalidSatelliteSignalCount
      else
        '(cell_mask, off3) <- parse KU 64 data off2 (sat_len * sig_len) ;;
        r <- F sat_mask sig_mask cell_mask ;;
        match r with
        | Some (sat_vec, cell_vec) =>
            '(sats, off4) <- dec_sat_rows sat_specs sat_vec data off3 ;;
            '(sigs, off5) <- dec_sig_rows tbl sig_specs cell_vec data off4 ;;
            Ok (VStruct [VList sats; VList sigs], off5)
        | None => Err InvalidSatelliteSignalCount
        end.

  Theorem msm_decode_gen_ext2 a b : forallb field_dec_ok a = true -> forallb field_dec_ok b = true -> ext2 (msm_decode_gen a b).
Proof.
  intros Hfa Hfb d1 d2 off v off' B1 B2 Ho H Hfit Ha.
  unfold msm_decode_gen in H.
  destruct (parse KU 64 d1 off 64) as [[sm o1]|e|] eqn:P1; cbn [bind] in H; try discriminate.
  destruct (parse_off _ _ _ _ _ _ _ P1) as [-> _].
  destruct (parse KU 32 d1 (off + 64) 32) as [[gm o2]|e|] eqn:P2; cbn [bind] in H; try discriminate.
  destruct (parse_off _ _ _ _ _ _ _ P2) as [-> _].
  destruct ((sm =? 0) && (gm =? 0)) eqn:Ez.
  - inversion H; subst v off'. clear H. unfold msm_decode_gen.
    rewrite (parse_ext2 KU 64 d1 d2 off 64 sm (off + 64) ltac:(lia) ltac:(lia) Ho B1 B2 P1 ltac:(lia) ltac:(apply (bits_agree_sub _ _ _ _ off (off + 64) Ha); lia)). cbn [bind].
    rewrite (parse_ext2 KU 32 d1 d2 (off + 64) 32 gm (off + 64 + 32) ltac:(lia) ltac:(lia) ltac:(lia) B1 B2 P2 ltac:(lia) ltac:(apply (bits_agree_sub _ _ _ _ (off + 64) (off + 64 + 32) Ha); lia)). cbn [bind].
    rewrite Ez. reflexivity.
  - destruct (Z.ltb_spec 64 (mask_len 64 sm * mask_len 32 gm)) as [|Hw64]; [discriminate|].
    destruct (parse KU 64 d1 (off + 64 + 32) (mask_len 64 sm * mask_len 32 gm)) as [[cm o3]|e|] eqn:P3; cbn [bind] in H; try discriminate.
    destruct (parse_off _ _ _ _ _ _ _ P3) as [-> _].
    pose proof (mask_len_nonneg_dec 64 sm) as N1. pose proof (mask_len_nonneg_dec 32 gm) as N2.
    destruct (Z.eq_dec (mask_len 64 sm * mask_len 32 gm) 0) as [Hz|Hnz].
    { rewrite (HF sm gm cm Hz) in H. cbn [bind] in H. discriminate. }
    remember (mask_len 64 sm * mask_len 32 gm) as w eqn:Ew. assert (Hw : 1 <= w <= 64) by nia.
    destruct (F sm gm cm) as [[[sv cv]|]|e|] eqn:CM; cbn [bind] in H; try discriminate.
    destruct (dec_sat_rows a sv d1 (off + 64 + 32 + w)) as [[sats o4]|e|] eqn:R1; cbn [bind] in H; try discriminate.
    destruct (dec_sig_rows tbl b cv d1 o4) as [[sigs o5]|e|] eqn:R2; cbn [bind] in H; try discriminate. inversion H; subst v off'. clear H.
    assert (M : off + 64 + 32 + w <= o4 <= o5).
    { unfold dec_sat_rows in R1. destruct (64 <? zlen sv); [discriminate|].
      destruct (dec_columns a (length sv) d1 (off + 64 + 32 + w) (map (fun s => [VInt s]) sv)) as [[rs q1]|e|] eqn:C1; cbn [bind] in R1; try discriminate.
      inversion R1; subst. apply dec_columns_off in C1; [|exact Hfa].
      unfold dec_sig_rows in R2. destruct (64 <? zlen cv); [discriminate|]. destruct (cells_to_rows tbl cv) as [r0|e|]; cbn [bind] in R2; try discriminate.
      destruct (dec_columns b (length cv) d1 o4 r0) as [[rs2 q2]|e|] eqn:C2; cbn [bind] in R2; try discriminate. inversion R2; subst.
      apply dec_columns_off in C2; [|exact Hfb]. lia. }
    destruct (msm_rows_ext2 tbl a b d1 d2 sv cv (off + 64 + 32 + w) sats o4 sigs o5 Hfa Hfb B1 B2 ltac:(lia) R1 R2 Hfit ltac:(apply (bits_agree_sub _ _ _ _ (off + 64 + 32 + w) o5 Ha); lia)) as [_ [R1' R2']].
    unfold msm_decode_gen.
    rewrite (parse_ext2 KU 64 d1 d2 off 64 sm (off + 64) ltac:(lia) ltac:(lia) Ho B1 B2 P1 ltac:(lia) ltac:(apply (bits_agree_sub _ _ _ _ off (off + 64) Ha); lia)). cbn [bind].
    rewrite (parse_ext2 KU 32 d1 d2 (off + 64) 32 gm (off + 64 + 32) ltac:(lia) ltac:(lia) ltac:(lia) B1 B2 P2 ltac:(lia) ltac:(apply (bits_agree_sub _ _ _ _ (off + 64) (off + 64 + 32) Ha); lia)). cbn [bind].
    rewrite Ez. rewrite <- Ew. destruct (Z.ltb_spec 64 w); [lia|].
    rewrite (parse_ext2 KU 64 d1 d2 (off + 64 + 32) w cm (off + 64 + 32 + w) ltac:(lia) ltac:(lia) ltac:(lia) B1 B2 P3 ltac:(lia) ltac:(apply (bits_agree_sub _ _ _ _ (off + 64 + 32) (off + 64 + 32 + w) Ha); lia)). cbn [bind].
    rewrite CM. cbn [bind]. rewrite R1'. cbn [bind]. rewrite R2'. reflexivity.
Qed.
End MsmGen.

Theorem msm_decode_ext2 tbl a b : forallb field_dec_ok a = true -> forallb field_dec_ok b = true -> ext2 (msm_decode tbl a b).
Proof.
  intros Hfa Hfb. change (ext2 (msm_decode_gen cell_mask_id_vec tbl a b)).
  apply msm_decode_gen_ext2; [exact cell_mask_id_vec_zero|exact Hfa|exact Hfb].
Qed.

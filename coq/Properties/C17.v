(** C17 -- text fields are preserved exactly or cut on a character boundary.
    Statements only; proofs are in Proofs/TextProofs.v.  A Rust &str is a list of Unicode scalar values;
    core::str::from_utf8 / char::encode_utf8 are specified by RFC 3629 (Model/Text.v).
    The conversions, the UTF-8 validity, the refusal of long text and the decoder's rejection of invalid UTF-8
    are proved; through a message body these fields come back unchanged: descriptor strings in every layout
    that has them ([C17_descriptor_roundtrip], from C01's induction, Proofs/RoundTrip.v) and the text of
    message 1029 ([C17_text_roundtrip_1029], Proofs/TextRoundTrip.v).
    [C17_frame_1029] lifts it to the public API: the frame build_message returns for a 1029 message, from any
    builder history, is accepted, carries the number 1029 and get_message returns the 1029 message with that
    text (never Corrupt); for the descriptor layouts the same is C01_build_decodes. *)
From Coq Require Import ZArith List Lia Bool.
From RtcmModel Require Import Types BitIO Field Text Layout Message Top.
From RtcmGen Require Import GenFields GenSignals GenLayouts GenMessages.
From RtcmModel Require Import Frame.
From RtcmProofs Require Import ListZ TextProofs SizeProofs DecodeTotal FieldProofs RoundTrip TextRoundTrip BuilderProofs BuildProofs RoundTripFrame EncodeTotalAll EncodeFrameAll Ext2Special RoundTripAll.
Import ListNotations.
Open Scope Z_scope.

(** descriptor field: the first N characters, code 1..255 as that byte, every other character as 0xA4 *)
Theorem C17_df88591_from_str : forall N s, 0 <= N ->
  df88591_from_str N s = map from_char (firstn (Z.to_nat N) s) /\
  df88591_chars (df88591_from_str N s) = map from_char (firstn (Z.to_nat N) s).
Proof. intros N s HN. split; [apply df88591_from_str_spec|apply df88591_chars_spec]; exact HN. Qed.

Theorem C17_from_char : forall c, (1 <= c <= 255 -> from_char c = c) /\ (~ (1 <= c <= 255) -> from_char c = 164).
Proof. intros c. split; [apply from_char_id|apply from_char_other]. Qed.

(** UTF-8 text field: the longest prefix of whole characters that fits the byte capacity *)
Theorem C17_array_string_prefix : forall N s, 0 <= N ->
  let k := fit_count N 0 s in
  array_string_from N s = utf8_encode (firstn k s) /\
  utf8_total (firstn k s) <= N /\
  ((k < length s)%nat -> N < utf8_total (firstn (S k) s)).
Proof. exact array_string_from_spec. Qed.

(** ... and always valid UTF-8, reading back as exactly the characters kept *)
Theorem C17_utf8_valid : forall N s, 0 <= N -> forallb scalar_ok s = true ->
  from_utf8 (array_string_from N s) = Some (firstn (fit_count N 0 s) s).
Proof. exact array_string_valid. Qed.

Theorem C17_utf8_roundtrip : forall cs, forallb scalar_ok cs = true -> from_utf8 (utf8_encode cs) = Some cs.
Proof. exact utf8_roundtrip. Qed.

(** text of more than 127 characters (or 255 bytes) is refused by the 1029 encoder *)
Theorem C17_text_too_long : forall st cs chars,
  from_utf8 (array_string_from 255 cs) = Some chars -> 127 < zlen chars ->
  encode_utf8 st (VStr cs) = Err BufferOverflow.
Proof.
  intros st cs chars H Hl. unfold encode_utf8. rewrite H.
  destruct (Z.ltb_spec 255 (zlen (array_string_from 255 cs))); cbn [orb]; [reflexivity|].
  destruct (Z.ltb_spec 127 (zlen chars)); [reflexivity|lia].
Qed.

(** a text whose bytes are not valid UTF-8 makes the 1029 decoder fail (hence Corrupt) *)
Theorem C17_invalid_utf8_rejected : forall data off n off1 len off2,
  parse KU 8 data off 7 = Ok (n, off1) -> parse KU 8 data off1 8 = Ok (len, off2) ->
  off2 / 8 <= zlen data -> len <= zlen (zskipn (off2 / 8) data) ->
  from_utf8 (zfirstn len (zskipn (off2 / 8) data)) = None ->
  decode_utf8 data off = Err InvalidUtf8String.
Proof.
  intros data off n off1 len off2 P1 P2 H1 H2 Hbad. unfold decode_utf8. rewrite P1. cbn [bind]. rewrite P2. cbn [bind].
  destruct (Z.ltb_spec (zlen data) (off2 / 8)); [lia|].
  destruct (Z.ltb_spec (zlen (zskipn (off2 / 8) data)) len); [lia|]. rewrite Hbad. reflexivity.
Qed.

(** non-vacuity: 'A', U+00E9, NUL, U+20AC into a 3-character descriptor; and the euro sign does not fit 4 bytes after "ab" *)
Example C17_example_desc : df88591_from_str 3 [65; 233; 0; 8364] = [65; 233; 164].
Proof. reflexivity. Qed.
Example C17_example_utf8 : array_string_from 4 [97; 98; 8364; 99] = [97; 98] /\ array_string_from 5 [97; 98; 8364; 99] = [97; 98; 226; 130; 172].
Proof. split; reflexivity. Qed.
Example C17_example_invalid : from_utf8 [237; 160; 128] = None /\ from_utf8 [192; 175] = None.
Proof. split; reflexivity. Qed.

(** through a message body: a descriptor string (any layout position, any buffer) that the encoder wrote is
    read back as what the conversion kept -- the fixed-point theorem of C01 specialised to the string fragment *)
Theorem C17_descriptor_roundtrip : forall cap lb data off v off', 1 <= lb <= 8 -> 0 <= cap ->
  bytes_ok data = true -> 0 <= off -> t_decode_frag (FStr cap lb) data off = Ok (v, off') ->
  forall d o, bytes_ok d = true -> 0 <= o -> o + (off' - off) <= 8 * zlen d ->
  exists d', t_encode_frag (FStr cap lb) (d, o) v = Ok (d', o + (off' - off)) /\ t_decode_frag (FStr cap lb) d' o = Ok (v, o + (off' - off)).
Proof.
  intros cap lb data off v off' Hl Hc Hb Ho H d o Hbd Hoo Hfit. cbn [t_decode_frag t_encode_frag decode_frag encode_frag] in *.
  destruct (decode_str_fix cap lb data off v off' Hl Hc Hb Ho H d o Hbd Hoo Hfit) as [d' [E [_ [_ [_ D]]]]]. exists d'. split; assumption.
Qed.

(** message 1029: whatever body the encoder accepts (the text being a Rust str: Unicode scalar values), the
    decoder returns, with the text equal to the longest prefix of whole characters that fits 255 bytes --
    i.e. unchanged whenever it fits *)
Theorem C17_text_roundtrip_1029 : forall d v1 v2 v3 cs d' o', bytes_ok d = true -> forallb scalar_ok cs = true ->
  t_encode_frag layout_1029 (d, 12) (VStruct [v1; v2; v3; VStr cs]) = Ok (d', o') ->
  exists v1' v2' v3', t_decode_frag layout_1029 d' 12 = Ok (VStruct [v1'; v2'; v3'; VStr (firstn (fit_count 255 0 cs) cs)], o').
Proof.
  intros d v1 v2 v3 cs d' o' Hb Hs H.
  destruct (text_message_decodes sig_table ssr_table_1059 ssr_table_1065 SAT_CAP_1059 SAT_CAP_1065
              [FField df003; FField df051; FField df052] [v1; v2; v3] cs d 12 d' o'
              ltac:(vm_compute; reflexivity) ltac:(vm_compute; reflexivity) eq_refl Hb ltac:(lia) Hs) as [vs' [D S]].
  - intros d1 o1 E. cbn [bind] in E.
    destruct (t_encode_frag (FField df003) (d, 12) v1) as [st1|e|] eqn:E1; unfold t_encode_frag in E1; rewrite E1 in E; cbn [bind] in E; try discriminate.
    destruct (encode_frag sig_table ssr_table_1059 ssr_table_1065 SAT_CAP_1059 SAT_CAP_1065 (FField df051) st1 v2) as [st2|e|] eqn:E2; cbn [bind] in E; try discriminate.
    destruct (encode_frag sig_table ssr_table_1059 ssr_table_1065 SAT_CAP_1059 SAT_CAP_1065 (FField df052) st2 v3) as [st3|e|] eqn:E3; cbn [bind] in E; try discriminate.
    cbn [encode_frag] in E1, E2, E3. apply encode_field_off in E1, E2, E3. cbn [snd] in E1. inversion E; subst st3. cbn [snd] in E3.
    rewrite E3, E2, E1. reflexivity.
  - exact H.
  - inversion S as [|? x1 ? r1 _ S1]; subst. inversion S1 as [|? x2 ? r2 _ S2]; subst. inversion S2 as [|? x3 ? r3 _ S3]; subst. inversion S3; subst.
    exists x1, x2, x3. exact D.
Qed.

(** non-vacuity: "Grüße" (two 2-byte characters) in a 1029 body *)
Example C17_example_1029 :
  match t_encode_frag layout_1029 (repeat 0 30, 12) (VStruct [VInt 7; VInt 100; VInt 5; VStr [71; 114; 252; 223; 101]]) with
  | Ok (d', o') => t_decode_frag layout_1029 d' 12 = Ok (VStruct [VInt 7; VInt 100; VInt 5; VStr [71; 114; 252; 223; 101]], o') /\ o' = 72 + 8 * 7
  | _ => False
  end.
Proof. vm_compute. split; reflexivity. Qed.

(** ---------- message 1029 at the public API ---------- *)
Lemma caps_nonneg17 : 0 <= SAT_CAP_1059 /\ 0 <= SAT_CAP_1065.
Proof. split; vm_compute; discriminate. Qed.
Lemma layouts_fit17 : forallb (fun m => frag_wfb (snd m) && (12 + max_bits SAT_CAP_1059 SAT_CAP_1065 (snd m) <=? 8184)) messages = true.
Proof. vm_compute. reflexivity. Qed.
Lemma numbers_fit17 : forallb (fun m => (0 <=? fst m) && (fst m <? 4096)) messages = true.
Proof. vm_compute. reflexivity. Qed.

Theorem C17_frame_1029 : forall b v1 v2 v3 cs fr,
  reach sig_table ssr_table_1059 ssr_table_1065 SAT_CAP_1059 SAT_CAP_1065 messages b -> forallb scalar_ok cs = true ->
  snd (t_build b (MTyped 1029 (VStruct [v1; v2; v3; VStr cs]))) = Ok fr ->
  exists f v1' v2' v3', frame_new fr = Ok f /\ fr_number f = Some 1029 /\
    t_from_frame f = Ok (MTyped 1029 (VStruct [v1'; v2'; v3'; VStr (firstn (fit_count 255 0 cs) cs)])).
Proof.
  intros b v1 v2 v3 cs fr Hreach Hs H. unfold t_build in H.
  rewrite (history_independent sig_table ssr_table_1059 ssr_table_1065 SAT_CAP_1059 SAT_CAP_1065 messages b _ Hreach) in H.
  unfold build_fresh, build in H. cbn [builder_new b_has_run b_data] in H. change (211 :: repeat 0 1028) with fresh_data in H.
  destruct (build_on sig_table ssr_table_1059 ssr_table_1065 SAT_CAP_1059 SAT_CAP_1065 messages fresh_data _) as [[fr0 d']|e|] eqn:Hb; cbn [snd] in H; try discriminate.
  inversion H; subst fr0. clear H.
  set (QB := fun v : val => exists a1 a2 a3 c, v = VStruct [a1; a2; a3; VStr c] /\ forallb scalar_ok c = true).
  set (RB := fun v v' : val => exists a1 a2 a3 c a1' a2' a3', v = VStruct [a1; a2; a3; VStr c] /\ v' = VStruct [a1'; a2'; a3'; VStr (firstn (fit_count 255 0 c) c)]).
  assert (Hfr : framed (t_encode_frag layout_1029)).
  { apply (tail_frame sig_table ssr_table_1059 ssr_table_1065 SAT_CAP_1059 SAT_CAP_1065 layout_1029). vm_compute. reflexivity. }
  assert (HaccB : forall d v d1 o1, bytes_ok d = true -> t_encode_frag layout_1029 (d, 12) v = Ok (d1, o1) ->
            12 <= o1 /\ bytes_ok d1 = true /\ zlen d1 = zlen d /\ agree d d1 0 12 /\ (QB v -> exists v', t_decode_frag layout_1029 d1 12 = Ok (v', o1) /\ RB v v')).
  { intros d v d1 o1 Hbd E. destruct (Hfr d 12 v d1 o1 Hbd ltac:(lia) E) as [M [B [L A]]].
    split; [exact M|]. split; [exact B|]. split; [exact L|]. split; [exact A|].
    intros [a1 [a2 [a3 [c [-> Hc]]]]]. destruct (C17_text_roundtrip_1029 d a1 a2 a3 c d1 o1 Hbd Hc E) as [a1' [a2' [a3' D]]].
    eexists. split; [exact D|]. exists a1, a2, a3, c, a1', a2', a3'. split; reflexivity. }
  assert (Hext2B : ext2 (t_decode_frag layout_1029)).
  { change layout_1029 with (FStruct ([FField df003; FField df051; FField df052] ++ [FUtf8])). unfold t_decode_frag.
    apply (tail_ext2 sig_table ssr_table_1059 ssr_table_1065 SAT_CAP_1059 SAT_CAP_1065 FUtf8 (fun _ => False) (fun _ _ => True)).
    - intros; contradiction.
    - cbn [decode_frag]. exact decode_utf8_ext2.
    - intros d off v off' Hbd Ho E. cbn [decode_frag] in E. eapply decode_utf8_mono; eassumption.
    - vm_compute. reflexivity. }
  destruct (build_decodes_gen sig_table ssr_table_1059 ssr_table_1065 SAT_CAP_1059 SAT_CAP_1065 messages (proj1 caps_nonneg17) (proj2 caps_nonneg17) layouts_fit17 numbers_fit17
              layout_1029 QB RB HaccB Hext2B 1029 _ fr d' eq_refl Hb ltac:(exists v1, v2, v3, cs; split; [reflexivity|exact Hs]))
    as [f [v' [Hn [Hnum [Hfrom [[a1 [a2 [a3 [c [a1' [a2' [a3' [E1 E2]]]]]]]] _]]]]]].
  inversion E1; subst a1 a2 a3 c. subst v'. exists f, a1', a2', a3'. repeat split; assumption.
Qed.

Print Assumptions C17_df88591_from_str.
Print Assumptions C17_array_string_prefix.
Print Assumptions C17_utf8_valid.
Print Assumptions C17_invalid_utf8_rejected.
Print Assumptions C17_descriptor_roundtrip.
Print Assumptions C17_text_roundtrip_1029.
Print Assumptions C17_frame_1029.

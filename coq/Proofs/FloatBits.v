(** The IEEE interchange encoding used by the model to carry f32/f64 values: reading back the bits of a
    finite value gives that value. *)
From Coq Require Import Reals ZArith Lia Lra Bool.
From Flocq Require Import Core Digits BinarySingleNaN.
From RtcmModel Require Import Types Floats.
Open Scope Z_scope.

Section Bits.
Variables prec emax ebits : Z.
Context (Hp : Prec_gt_0 prec) (Hpe : Prec_lt_emax prec emax).
Hypothesis Hprec2 : 2 <= prec.
Hypothesis Hebits : 2 ^ ebits = 2 * emax.
Hypothesis Hebits0 : 0 < ebits.
Notation bf := (binary_float prec emax).
Notation emin := (3 - emax - prec).
Notation mw := (prec - 1).

Lemma split_lo hi lo a : 0 <= a -> 0 <= lo < 2 ^ a -> (hi * 2 ^ a + lo) mod 2 ^ a = lo /\ (hi * 2 ^ a + lo) / 2 ^ a = hi.
Proof.
  intros Ha Hlo. assert (0 < 2 ^ a) by (apply Z.pow_pos_nonneg; lia). split.
  - rewrite Z.add_comm, Z.mod_add by lia. apply Z.mod_small. exact Hlo.
  - rewrite Z.add_comm, Z.div_add by lia. rewrite Z.div_small by exact Hlo. lia.
Qed.

(** binary_normalize of a canonical bounded pair gives the same float *)
Lemma of_me_bounded s m e (Hb : SpecFloat.bounded prec emax m e = true) :
  of_me prec emax Hp Hpe (cond_Zopp s (Zpos m)) e = B754_finite s m e Hb.
Proof.
  unfold of_me. pose proof (binary_normalize_correct prec emax Hp Hpe mode_NE (cond_Zopp s (Zpos m)) e false) as H. cbv zeta in H.
  set (x := B754_finite s m e Hb).
  assert (Hx : F2R (Float radix2 (cond_Zopp s (Zpos m)) e) = B2R x) by reflexivity.
  rewrite Hx in H. change (round_mode mode_NE) with ZnearestE in H.
  rewrite (round_generic radix2 _ ZnearestE _ (generic_format_B2R prec emax x)) in H.
  rewrite Rlt_bool_true in H.
  2:{ unfold x. cbn [B2R]. rewrite <- F2R_Zabs, abs_cond_Zopp. apply (bounded_lt_emax prec emax); assumption. }
  destruct H as [Hv [Hf Hs]].
  apply (B2R_Bsign_inj prec emax); [exact Hf|reflexivity|exact Hv|].
  rewrite Hs. unfold x. cbn [B2R Bsign].
  destruct s; cbn [cond_Zopp].
  - rewrite Rcompare_Lt; [reflexivity|]. apply F2R_lt_0. reflexivity.
  - rewrite Rcompare_Gt; [reflexivity|]. apply F2R_gt_0. reflexivity.
Qed.

Lemma bounded_cases m e : SpecFloat.bounded prec emax m e = true ->
  e <= emax - prec /\ ((Zpos m < 2 ^ mw /\ e = emin) \/ (2 ^ mw <= Zpos m < 2 ^ prec /\ emin <= e)).
Proof.
  unfold SpecFloat.bounded, SpecFloat.canonical_mantissa, SpecFloat.fexp, SpecFloat.emin. intros H.
  apply andb_true_iff in H. destruct H as [H1 H2]. apply Zeq_bool_eq in H1. apply Zle_bool_imp_le in H2.
  split; [exact H2|].
  rewrite Zpos_digits2_pos in H1.
  pose proof (Zdigits_correct radix2 (Zpos m)) as [D1 D2]. rewrite Z.abs_eq in D1, D2 by lia.
  change (Zpower radix2) with (Z.pow 2) in D1, D2.
  set (d := Zdigits radix2 (Zpos m)) in *.
  assert (Hd0 : 0 < d) by (apply Zdigits_gt_0; discriminate).
  destruct (Z_lt_ge_dec (Zpos m) (2 ^ mw)) as [Hlt|Hge].
  - left. split; [exact Hlt|].
    assert (d <= mw). { destruct (Z_lt_ge_dec mw d) as [X|X]; [|lia]. assert (2 ^ mw <= 2 ^ (d - 1)) by (apply Z.pow_le_mono_r; lia). lia. }
    lia.
  - right. assert (prec <= d). { destruct (Z_lt_ge_dec d prec) as [X|X]; [|lia]. assert (2 ^ d <= 2 ^ mw) by (apply Z.pow_le_mono_r; lia). lia. }
    assert (d = prec) by lia. split; [|lia]. split; [lia|]. replace prec with d by assumption. exact D2.
Qed.

Theorem of_to_bits (x : bf) : is_finite x = true -> of_bits prec emax Hp Hpe ebits (to_bits prec emax ebits x) = x.
Proof.
  assert (Hmw : 0 <= mw) by lia.
  assert (P1 : 0 < 2 ^ mw) by (apply Z.pow_pos_nonneg; lia).
  assert (P2 : 0 < 2 ^ ebits) by (apply Z.pow_pos_nonneg; lia).
  assert (Hsplit : 2 ^ (mw + ebits) = 2 ^ ebits * 2 ^ mw) by (rewrite Z.pow_add_r by lia; ring).
  destruct x as [s|s| |s m e Hb]; try discriminate; intros _.
  - (* zero *)
    unfold to_bits, of_bits, mantw. destruct s.
    + rewrite Hsplit. destruct (split_lo (2 ^ ebits) 0 mw Hmw ltac:(lia)) as [A B]. rewrite Z.add_0_r in A, B. rewrite A, B.
      rewrite Z.mod_same by lia. cbn [Z.eqb].
      rewrite <- Hsplit. rewrite Z.div_same by (rewrite Hsplit; lia). reflexivity.
    + assert (P3 : 0 < 2 ^ (mw + ebits)) by (apply Z.pow_pos_nonneg; lia).
      repeat (rewrite Z.div_0_l by lia || rewrite Z.mod_0_l by lia). reflexivity.
  - destruct (bounded_cases m e Hb) as [He [[Hm Hee]|[Hm Hee]]].
    + (* subnormal *)
      unfold to_bits, of_bits, mantw, femin. destruct (Z.ltb_spec (Zpos m) (2 ^ mw)) as [_|]; [|lia].
      set (sb := if s then 2 ^ (mw + ebits) else 0).
      assert (Hsb : sb = (if s then 2 ^ ebits else 0) * 2 ^ mw) by (unfold sb; destruct s; [exact Hsplit|reflexivity]).
      rewrite Hsb. destruct (split_lo (if s then 2 ^ ebits else 0) (Zpos m) mw Hmw ltac:(lia)) as [A B]. rewrite A, B.
      assert (E0 : (if s then 2 ^ ebits else 0) mod 2 ^ ebits = 0) by (destruct s; [apply Z.mod_same; lia|apply Z.mod_0_l; lia]).
      rewrite E0. cbn [Z.eqb].
      assert (So : Z.odd (((if s then 2 ^ ebits else 0) * 2 ^ mw + Zpos m) / 2 ^ (mw + ebits)) = s).
      { rewrite Hsplit, (Z.mul_comm (2 ^ ebits)). rewrite <- Z.div_div by lia. rewrite B. destruct s; [rewrite Z.div_same by lia; reflexivity|rewrite Z.div_0_l by lia; reflexivity]. }
      rewrite So. subst e.
      replace (if s then - Zpos m else Zpos m) with (cond_Zopp s (Zpos m)) by (destruct s; reflexivity).
      apply of_me_bounded.
    + (* normal *)
      unfold to_bits, of_bits, mantw, femin. destruct (Z.ltb_spec (Zpos m) (2 ^ mw)) as [|_]; [lia|].
      set (sbv := if s then 2 ^ ebits else 0).
      replace ((if s then 2 ^ (mw + ebits) else 0) + (e - emin + 1) * 2 ^ mw + (Zpos m - 2 ^ mw))
        with ((sbv + (e - emin + 1)) * 2 ^ mw + (Zpos m - 2 ^ mw)) by (unfold sbv; destruct s; rewrite ?Hsplit; ring).
      assert (Hpw : 2 ^ prec = 2 * 2 ^ mw) by (replace prec with (mw + 1) at 1 by lia; rewrite Z.pow_add_r by lia; ring).
      destruct (split_lo (sbv + (e - emin + 1)) (Zpos m - 2 ^ mw) mw Hmw ltac:(lia)) as [A B]. rewrite A, B.
      assert (Ee : (sbv + (e - emin + 1)) mod 2 ^ ebits = e - emin + 1).
      { unfold sbv. destruct s.
        - replace (2 ^ ebits + (e - emin + 1)) with ((e - emin + 1) + 1 * 2 ^ ebits) by ring. rewrite Z.mod_add by lia. apply Z.mod_small. lia.
        - apply Z.mod_small. lia. }
      rewrite Ee. destruct (Z.eqb_spec (e - emin + 1) 0) as [|_]; [lia|]. destruct (Z.eqb_spec (e - emin + 1) (2 ^ ebits - 1)) as [|_]; [lia|].
      assert (So : Z.odd (((sbv + (e - emin + 1)) * 2 ^ mw + (Zpos m - 2 ^ mw)) / 2 ^ (mw + ebits)) = s).
      { rewrite Hsplit, (Z.mul_comm (2 ^ ebits)). rewrite <- Z.div_div by lia. rewrite B. unfold sbv. destruct s.
        - replace (2 ^ ebits + (e - emin + 1)) with ((e - emin + 1) + 1 * 2 ^ ebits) by ring. rewrite Z.div_add by lia. rewrite Z.div_small by lia. reflexivity.
        - rewrite Z.div_small by lia. reflexivity. }
      rewrite So.
      replace (if s then - (Zpos m - 2 ^ mw + 2 ^ mw) else Zpos m - 2 ^ mw + 2 ^ mw) with (cond_Zopp s (Zpos m)) by (destruct s; cbn [cond_Zopp]; lia).
      replace (e - emin + 1 - 1 + emin) with e by lia.
      apply of_me_bounded.
Qed.
End Bits.

Theorem f32_of_to_bits x : is_finite x = true -> f32_of_bits (f32_to_bits x) = x.
Proof. apply (of_to_bits 24 128 8 Hp32 Hpe32); [lia|reflexivity|lia]. Qed.
Theorem f64_of_to_bits x : is_finite x = true -> f64_of_bits (f64_to_bits x) = x.
Proof. apply (of_to_bits 53 1024 11 Hp64 Hpe64); [lia|reflexivity|lia]. Qed.

(** C01 -- encode/decode normal form.
    PARTIAL.  Proved here, for the plain layouts (fields, structs, the three list forms, descriptor strings:
    55 of the 108 message types; not the MSM, SSR code-bias, GLONASS bias and free-text layouts):
    a message body obtained by decoding ANY buffer is a fixed point -- the encoder accepts it wherever
    there is room, writes exactly as many bits as were read, leaves every earlier bit alone, and decoding
    what it wrote returns the same value; and whatever value the encoder accepts decodes (never an error)
    to such a fixed point ([C01_accepted_decodes]), so decoding twice gives equal messages.  Together with C08 (each field: decode then encode gives the
    carrier value back, so re-encoding writes the same bits) and C07 this is the second sentence of the
    property for those layouts.  Byte-for-byte equality of the re-encoded frame for values the encoder wraps or
    saturates, the frame wrapper (number, length, CRC) and the remaining layouts are covered by the correspondence and the
    ROUNDTRIP / ROUNDTRIPH / REDECODE probes of the check driver only.
    Proofs: Proofs/RoundTrip.v, by induction over the layout from C07's bit-level frame properties. *)
From Coq Require Import ZArith List Lia Bool.
From RtcmModel Require Import Types BitIO Field Layout Message Top.
From RtcmGen Require Import GenSignals GenLayouts GenMessages.
From RtcmModel Require Import Frame.
From RtcmProofs Require Import ListZ BitProofs FrameProofs BuilderProofs SizeProofs BuildProofs DecodeTotal FieldProofs RoundTrip RoundTripFrame.
Import ListNotations.
Open Scope Z_scope.

Definition plain_messages : list Z := map fst (filter (fun m => plain (snd m)) messages).

(** which message numbers the theorem covers (recomputed from the regenerated table) *)
Theorem C01_plain_count : length plain_messages = 55%nat /\ In 1001 plain_messages /\ In 1019 plain_messages /\ In 1057 plain_messages /\ In 1033 plain_messages.
Proof. vm_compute. repeat split; tauto. Qed.

(** decoding depends only on the bits it consumes *)
Theorem C01_decode_local : forall n lay d1 d2 off v off', In (n, lay) messages -> plain lay = true ->
  bytes_ok d1 = true -> bytes_ok d2 = true -> 0 <= off ->
  t_decode_frag lay d1 off = Ok (v, off') -> agree d1 d2 off off' -> t_decode_frag lay d2 off = Ok (v, off').
Proof. intros n lay d1 d2 off v off' _ Hp. apply (decode_frag_ext sig_table ssr_table_1059 ssr_table_1065 SAT_CAP_1059 SAT_CAP_1065 lay Hp). Qed.

(** a decoded body is a fixed point of encode-then-decode, at any position of any buffer with room *)
Theorem C01_decoded_fixed_point : forall n lay data off v off', In (n, lay) messages -> plain lay = true ->
  bytes_ok data = true -> 0 <= off -> t_decode_frag lay data off = Ok (v, off') ->
  forall d o, bytes_ok d = true -> 0 <= o -> o + (off' - off) <= 8 * zlen d ->
  exists d', t_encode_frag lay (d, o) v = Ok (d', o + (off' - off)) /\ bytes_ok d' = true /\ zlen d' = zlen d /\
             agree d d' 0 o /\ t_decode_frag lay d' o = Ok (v, o + (off' - off)).
Proof. intros n lay data off v off' _ Hp. apply (decoded_fixed_point sig_table ssr_table_1059 ssr_table_1065 SAT_CAP_1059 SAT_CAP_1065 lay Hp). Qed.
Check C01_decoded_fixed_point : forall n lay data off v off', In (n, lay) messages -> plain lay = true ->
  bytes_ok data = true -> 0 <= off -> t_decode_frag lay data off = Ok (v, off') ->
  forall d o, bytes_ok d = true -> 0 <= o -> o + (off' - off) <= 8 * zlen d ->
  exists d', t_encode_frag lay (d, o) v = Ok (d', o + (off' - off)) /\ bytes_ok d' = true /\ zlen d' = zlen d /\
             (zlen d = zlen d' /\ forall g, 0 <= g < o -> bitat d g = bitat d' g) /\
             t_decode_frag lay d' o = Ok (v, o + (off' - off)).

(** table obligation: in every plain layout each capacity is below 2^(width of its count field) *)
Theorem C01_counts_ok : forallb (fun m => negb (plain (snd m)) || counts_ok (snd m)) messages = true.
Proof. vm_compute. reflexivity. Qed.

(** whatever the encoder accepts, the decoder reads: the body decodes (to a value of the same layout, never an
    error) with the same shape -- every list keeps its length and order of elements --, the encoder touched no
    earlier bit, and the decoded value is a fixed point of encode-then-decode (so decoding twice gives equal messages) *)
Theorem C01_accepted_decodes : forall n lay d o v d' o', In (n, lay) messages -> plain lay = true ->
  bytes_ok d = true -> 0 <= o -> t_encode_frag lay (d, o) v = Ok (d', o') ->
  o <= o' /\ bytes_ok d' = true /\ zlen d' = zlen d /\ agree d d' 0 o /\
  exists v', t_decode_frag lay d' o = Ok (v', o') /\ shape v v' /\
    forall d2 o2, bytes_ok d2 = true -> 0 <= o2 -> o2 + (o' - o) <= 8 * zlen d2 ->
    exists d3, t_encode_frag lay (d2, o2) v' = Ok (d3, o2 + (o' - o)) /\ t_decode_frag lay d3 o2 = Ok (v', o2 + (o' - o)).
Proof.
  intros n lay d o v d' o' Hin Hp Hb Ho E.
  pose proof C01_counts_ok as Hc. rewrite forallb_forall in Hc. specialize (Hc _ Hin). cbn [snd] in Hc. rewrite Hp in Hc. cbn [negb orb] in Hc.
  destruct (accepted_decodes sig_table ssr_table_1059 ssr_table_1065 SAT_CAP_1059 SAT_CAP_1065 lay Hp Hc d o v d' o' Hb Ho E) as [M [B [L [A [v' [D Sh]]]]]].
  split; [exact M|]. split; [exact B|]. split; [exact L|]. split; [exact A|]. exists v'. split; [exact D|]. split; [exact Sh|].
  intros d2 o2 Hb2 Ho2 Hfit.
  destruct (decoded_fixed_point sig_table ssr_table_1059 ssr_table_1065 SAT_CAP_1059 SAT_CAP_1065 lay Hp d' o v' o' B Ho D d2 o2 Hb2 Ho2 Hfit) as [d3 [E3 [_ [_ [_ D3]]]]].
  exists d3. split; assumption.
Qed.

(** table obligations for the frame-level statement: layouts fit the payload window, numbers fit 12 bits *)
Theorem C01_layouts_fit : forallb (fun m => frag_wfb (snd m) && (12 + max_bits SAT_CAP_1059 SAT_CAP_1065 (snd m) <=? 8184)) messages = true.
Proof. vm_compute. reflexivity. Qed.
Theorem C01_numbers_fit : forallb (fun m => (0 <=? fst m) && (fst m <? 4096)) messages = true.
Proof. vm_compute. reflexivity. Qed.

(** at the public API: whatever frame build_message returns for a message of a plain layout -- from any reachable
    builder, whatever its history -- is accepted by MessageFrame::new, carries the message's number, and
    get_message returns a typed message of that number (never Corrupt, Empty or MsgNotSupported) *)
Theorem C01_build_decodes : forall b n v lay fr, lookup n messages = Some lay -> plain lay = true ->
  reach sig_table ssr_table_1059 ssr_table_1065 SAT_CAP_1059 SAT_CAP_1065 messages b ->
  snd (t_build b (MTyped n v)) = Ok fr ->
  exists f v', frame_new fr = Ok f /\ fr_number f = Some n /\ t_from_frame f = Ok (MTyped n v') /\ shape v v' /\ t_decode_bytes fr = Ok (MTyped n v').
Proof.
  intros b n v lay fr Hlk Hp Hr H. unfold t_build in H.
  rewrite (history_independent sig_table ssr_table_1059 ssr_table_1065 SAT_CAP_1059 SAT_CAP_1065 messages b (MTyped n v) Hr) in H.
  unfold build_fresh, build in H. cbn [builder_new b_has_run b_data] in H.
  change (211 :: repeat 0 1028) with fresh_data in H.
  destruct (build_on sig_table ssr_table_1059 ssr_table_1065 SAT_CAP_1059 SAT_CAP_1065 messages fresh_data (MTyped n v)) as [[fr0 d']|e|] eqn:E; cbn [snd] in H; try discriminate.
  inversion H; subst fr0.
  pose proof (lookup_In messages n lay Hlk) as Hin.
  pose proof C01_counts_ok as Hc. rewrite forallb_forall in Hc. specialize (Hc _ Hin). cbn [snd] in Hc. rewrite Hp in Hc. cbn [negb orb] in Hc.
  destruct (build_decodes sig_table ssr_table_1059 ssr_table_1065 SAT_CAP_1059 SAT_CAP_1065 messages
              ltac:(vm_compute; discriminate) ltac:(vm_compute; discriminate) C01_layouts_fit C01_numbers_fit n v fr d' lay Hlk Hp Hc E)
    as [f [v' [Hn [Hnum [Hff [Sh _]]]]]].
  exists f, v'. split; [exact Hn|]. split; [exact Hnum|]. split; [exact Hff|]. split; [exact Sh|].
  unfold t_decode_bytes, decode_bytes. rewrite Hn. cbn [bind]. exact Hff.
Qed.
Check C01_build_decodes : forall b n v lay fr, lookup n messages = Some lay -> plain lay = true ->
  reach sig_table ssr_table_1059 ssr_table_1065 SAT_CAP_1059 SAT_CAP_1065 messages b ->
  snd (t_build b (MTyped n v)) = Ok fr ->
  exists f v', frame_new fr = Ok f /\ fr_number f = Some n /\ t_from_frame f = Ok (MTyped n v') /\ shape v v' /\ t_decode_bytes fr = Ok (MTyped n v').

(** non-vacuity: a 1005 body decoded from a buffer, re-encoded into a zeroed one, decodes to itself *)
Example C01_example :
  match t_decode_frag layout_1005 (repeat 165 19) 12 with
  | Ok (v, off') =>
      off' = 152 /\
      match t_encode_frag layout_1005 (repeat 0 19, 12) v with
      | Ok (d', o') => o' = 152 /\ t_decode_frag layout_1005 d' 12 = Ok (v, 152)
      | _ => False
      end
  | _ => False
  end.
Proof. vm_compute. repeat split; reflexivity. Qed.

Print Assumptions C01_plain_count.
Print Assumptions C01_decode_local.
Print Assumptions C01_decoded_fixed_point.
Print Assumptions C01_counts_ok.
Print Assumptions C01_accepted_decodes.
Print Assumptions C01_build_decodes.

(** MessageFrame::new and its accessors (src/message_frame.rs, after the message-number fix). *)
From Coq Require Import ZArith List Bool.
From RtcmModel Require Import Types Crc.
Import ListNotations.
Open Scope Z_scope.

Record frame := {
  fr_frame_data : list Z;     (* &frame_data[..length + 6] *)
  fr_data : list Z;           (* &frame_data[3..length + 3] *)
  fr_crc : Z;
  fr_number : option Z
}.

(** the 10-bit length of bytes 1-2 *)
Definition frame_length (d : list Z) : Z :=
  Z.lor (Z.shiftl (Z.land (znth d 1) 3) 8) (znth d 2).

Definition be24 (a b c : Z) : Z := Z.lor (Z.lor (Z.shiftl a 16) (Z.shiftl b 8)) c.

Definition frame_new (d : list Z) : outcome frame :=
  if zlen d <? 6 then Err Incomplete
  else if negb (znth d 0 =? 211) then Err NotValid
  else
    let length := frame_length d in
    if zlen d <? length + 6 then Err Incomplete
    else
      let crc := crc24q (zfirstn (length + 3) d) in
      let msg_crc := be24 (znth d (length + 3)) (znth d (length + 4)) (znth d (length + 5)) in
      if negb (msg_crc =? crc) then Err NotValid
      else
        let number :=
          if 2 <=? length
          then Some (Z.lor (Z.shiftl (znth d 3) 4) (Z.shiftr (znth d 4) 4))
          else None in
        Ok {| fr_frame_data := zfirstn (length + 6) d;
              fr_data := zfirstn length (zskipn 3 d);
              fr_crc := msg_crc;
              fr_number := number |}.

Definition frame_len (f : frame) : Z := zlen (fr_frame_data f).
Definition data_len (f : frame) : Z := zlen (fr_data f).

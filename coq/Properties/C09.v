(** C09 -- encoding is total and every emitted frame is well formed.
    Proofs are in Proofs/BuildProofs.v (frame shape), Proofs/SizeProofs.v (size bound), Proofs/BitProofs.v
    (the writer never panics) and Proofs/FrameProofs.v.
    PARTIAL: proved -- every frame returned by build_message is 8..1029 bytes, starts with 0xD3 and six zero
    bits, carries its payload size in the length field and a checksum for which MessageFrame::new accepts it
    (the model's CRC-24Q specification), whatever builder history came before (C12); messages without a wire
    form are refused; the bit writer never panics for any width 1..carrier; and for the 55 plain layouts
    (fields, structs, the three list forms, descriptor strings; Proofs/EncodeTotal.v): encoding a well-typed
    value -- any f32/f64 including NaN and infinities, any integer of the field's Rust type, lists up to
    their capacity, any text -- never panics, neither does build_message, and the frame carries the message's
    own number.  For the other 53 layouts (plain header fields followed by an MSM data segment, an SSR
    code-bias list, the 1230 list or the 1029 text; Proofs/MsmTotal.v, Proofs/EncodeTotalAll.v) the same
    no-panic theorem holds: [C09_encode_no_panic] and [C09_build_total] cover every message of the table --
    any satellite and signal identifiers, duplicates, inconsistent sets, any order, up to the containers'
    capacities.  The model marks every arithmetic overflow, out-of-range index, over-wide shift and push beyond
    capacity as Panic, i.e. it is the overflow-checks profile; that the optimised profile agrees is the
    ENCODE correspondence in the two build profiles.  [C09_number]: every frame build_message returns, for
    every message of the table and every builder history, is accepted by MessageFrame::new and carries the
    message's own number (the body encoder touches no bit before its starting position: Proofs/EncodeFrameAll.v). *)
From Coq Require Import ZArith List Lia Bool.
From RtcmModel Require Import Types BitIO Layout Crc Frame Message Top.
From RtcmGen Require Import GenSignals GenLayouts.
From RtcmProofs Require Import ListZ FrameProofs BuilderProofs SizeProofs BuildProofs BitProofs FieldProofs RoundTrip RoundTripFrame EncodeTotal MsmTotal EncodeTotalAll EncodeFrameAll.
From RtcmGen Require Import GenMessages.
Import ListNotations.
Open Scope Z_scope.

Lemma caps_nonneg : 0 <= SAT_CAP_1059 /\ 0 <= SAT_CAP_1065.
Proof. split; vm_compute; discriminate. Qed.

Lemma layouts_fit : forallb (fun m => frag_wfb (snd m) && (12 + max_bits SAT_CAP_1059 SAT_CAP_1065 (snd m) <=? 8184)) messages = true.
Proof. vm_compute. reflexivity. Qed.

(** every frame a fresh builder returns is well formed, and MessageFrame::new accepts it *)
Theorem C09_well_formed_fresh : forall m fr, t_build_fresh m = Ok fr ->
  8 <= zlen fr <= 1029 /\ znth fr 0 = 211 /\ 0 <= znth fr 1 < 4 /\ frame_length fr = zlen fr - 6 /\
  frame_accept fr /\ exists f, frame_new fr = Ok f.
Proof.
  intros m fr H. unfold t_build_fresh, build_fresh, build in H. cbn [builder_new b_has_run b_data] in H.
  change (211 :: repeat 0 1028) with fresh_data in H.
  destruct (build_on sig_table ssr_table_1059 ssr_table_1065 SAT_CAP_1059 SAT_CAP_1065 messages fresh_data m) as [[fr0 d']|e|] eqn:E; cbn [snd] in H; try discriminate.
  inversion H; subst fr0.
  destruct (build_well_formed sig_table ssr_table_1059 ssr_table_1065 SAT_CAP_1059 SAT_CAP_1065 messages
              (proj1 caps_nonneg) (proj2 caps_nonneg) layouts_fit m fr d' E) as [n [v [lay [_ [_ [H1 [H2 [H3 [H4 H5]]]]]]]]].
  split; [exact H1|]. split; [exact H2|]. split; [exact H3|]. split; [exact H4|]. split; [exact H5|].
  exists (frame_of fr). apply frame_accept_ok. exact H5.
Qed.

(** ... and so is every frame of every reachable builder (any history: C12) *)
Theorem C09_well_formed : forall b m fr,
  reach sig_table ssr_table_1059 ssr_table_1065 SAT_CAP_1059 SAT_CAP_1065 messages b ->
  snd (t_build b m) = Ok fr ->
  8 <= zlen fr <= 1029 /\ znth fr 0 = 211 /\ 0 <= znth fr 1 < 4 /\ frame_length fr = zlen fr - 6 /\
  frame_accept fr /\ exists f, frame_new fr = Ok f.
Proof.
  intros b m fr Hr H. apply (C09_well_formed_fresh m). unfold t_build_fresh, build_fresh.
  rewrite <- (history_independent sig_table ssr_table_1059 ssr_table_1065 SAT_CAP_1059 SAT_CAP_1065 messages b m Hr). exact H.
Qed.

(** Empty, Corrupt and MsgNotSupported have no wire form: they are refused with an error *)
Theorem C09_no_wire_form : forall b m, (forall n v, m <> MTyped n v) -> snd (t_build b m) = Err EncodingNotSupported.
Proof.
  intros b m H. unfold t_build, build.
  rewrite (build_no_wire_form sig_table ssr_table_1059 ssr_table_1065 SAT_CAP_1059 SAT_CAP_1065 messages m H). reflexivity.
Qed.

(** every message the encoder accepts ends within the 8184-bit window: BufferOverflow is unreachable from build_message *)
Theorem C09_fits : forall n lay st v st', In (n, lay) messages -> snd st = 12 ->
  t_encode_frag lay st v = Ok st' -> 12 <= snd st' <= 8184.
Proof.
  intros n lay st v st' Hin H12 H.
  pose proof layouts_fit as Hfit. rewrite forallb_forall in Hfit. specialize (Hfit _ Hin). cbn [snd] in Hfit.
  apply andb_true_iff in Hfit. destruct Hfit as [Hwf Hle]. apply Z.leb_le in Hle.
  apply (encode_frag_grows sig_table ssr_table_1059 ssr_table_1065 SAT_CAP_1059 SAT_CAP_1065 (proj1 caps_nonneg) (proj2 caps_nonneg) lay Hwf) in H. lia.
Qed.

(** the bit writer itself never panics *)
Theorem C09_put_no_panic : forall k bits data offset value len,
  8 <= bits -> 1 <= len <= bits -> 0 <= offset -> bytes_ok data = true -> put k bits data offset value len <> Panic.
Proof. exact put_no_panic. Qed.

(** table obligation: in every plain layout each capacity is below 2^(width of its count field) *)
Lemma plain_counts_ok : forallb (fun m => negb (plain (snd m)) || counts_ok (snd m)) messages = true.
Proof. vm_compute. reflexivity. Qed.
Lemma numbers_fit : forallb (fun m => (0 <=? fst m) && (fst m <? 4096)) messages = true.
Proof. vm_compute. reflexivity. Qed.

(** plain layouts: encoding a well-typed value never panics, at any position of any buffer *)
Theorem C09_encode_no_panic_plain : forall n lay v d o, In (n, lay) messages -> plain lay = true -> wt lay v ->
  bytes_ok d = true -> 0 <= o -> t_encode_frag lay (d, o) v <> Panic.
Proof.
  intros n lay v d o Hin Hp Hw Hb Ho.
  pose proof plain_counts_ok as Hc. rewrite forallb_forall in Hc. specialize (Hc _ Hin). cbn [snd] in Hc. rewrite Hp in Hc. cbn [negb orb] in Hc.
  exact (encode_no_panic sig_table ssr_table_1059 ssr_table_1065 SAT_CAP_1059 SAT_CAP_1065 lay Hp Hc v d o Hw Hb Ho).
Qed.

(** ... and neither does build_message, from any reachable builder *)
Theorem C09_build_no_panic_plain : forall b n v lay, lookup n messages = Some lay -> plain lay = true -> wt lay v ->
  reach sig_table ssr_table_1059 ssr_table_1065 SAT_CAP_1059 SAT_CAP_1065 messages b ->
  snd (t_build b (MTyped n v)) <> Panic.
Proof.
  intros b n v lay Hlk Hp Hw Hr. unfold t_build.
  rewrite (history_independent sig_table ssr_table_1059 ssr_table_1065 SAT_CAP_1059 SAT_CAP_1065 messages b (MTyped n v) Hr).
  unfold build_fresh, build. cbn [builder_new b_has_run b_data]. change (211 :: repeat 0 1028) with fresh_data.
  pose proof (lookup_In messages n lay Hlk) as Hin.
  pose proof plain_counts_ok as Hc. rewrite forallb_forall in Hc. specialize (Hc _ Hin). cbn [snd] in Hc. rewrite Hp in Hc. cbn [negb orb] in Hc.
  pose proof (build_no_panic sig_table ssr_table_1059 ssr_table_1065 SAT_CAP_1059 SAT_CAP_1065 messages
                (proj1 caps_nonneg) (proj2 caps_nonneg) layouts_fit n v lay Hlk Hp Hc Hw) as Hn.
  destruct (build_on sig_table ssr_table_1059 ssr_table_1065 SAT_CAP_1059 SAT_CAP_1065 messages fresh_data (MTyped n v)) as [[fr d']|e|]; cbn [snd]; [discriminate|discriminate|contradiction].
Qed.

(** ... and the frame carries the message's own number in its first 12 payload bits *)
Theorem C09_number_plain : forall b n v lay fr, lookup n messages = Some lay -> plain lay = true ->
  reach sig_table ssr_table_1059 ssr_table_1065 SAT_CAP_1059 SAT_CAP_1065 messages b ->
  snd (t_build b (MTyped n v)) = Ok fr -> exists f, frame_new fr = Ok f /\ fr_number f = Some n.
Proof.
  intros b n v lay fr Hlk Hp Hr H. unfold t_build in H.
  rewrite (history_independent sig_table ssr_table_1059 ssr_table_1065 SAT_CAP_1059 SAT_CAP_1065 messages b (MTyped n v) Hr) in H.
  unfold build_fresh, build in H. cbn [builder_new b_has_run b_data] in H. change (211 :: repeat 0 1028) with fresh_data in H.
  destruct (build_on sig_table ssr_table_1059 ssr_table_1065 SAT_CAP_1059 SAT_CAP_1065 messages fresh_data (MTyped n v)) as [[fr0 d']|e|] eqn:E; cbn [snd] in H; try discriminate.
  inversion H; subst fr0.
  pose proof (lookup_In messages n lay Hlk) as Hin.
  pose proof plain_counts_ok as Hc. rewrite forallb_forall in Hc. specialize (Hc _ Hin). cbn [snd] in Hc. rewrite Hp in Hc. cbn [negb orb] in Hc.
  destruct (build_decodes sig_table ssr_table_1059 ssr_table_1065 SAT_CAP_1059 SAT_CAP_1065 messages
              (proj1 caps_nonneg) (proj2 caps_nonneg) layouts_fit numbers_fit n v fr d' lay Hlk Hp Hc E) as [f [v' [Hn [Hnum _]]]].
  exists f. split; assumption.
Qed.


(** table obligation: every layout of the table is either plain or plain header fields followed by one special
    fragment whose parameters are in order (MSM: signal table one-to-one with ids 1..32, every row field
    meets the side conditions of C08) *)
Theorem C09_layouts_classified : forallb (fun m => plain (snd m) || tail_ok sig_table (snd m)) messages = true.
Proof. vm_cast_no_check (eq_refl true). Qed.

(** a value the Rust types admit for a layout of the table *)
Definition wt_msg (lay : frag) (v : val) : Prop :=
  (plain lay = true /\ wt lay v) \/ (plain lay = false /\ wt_tail SAT_CAP_1059 SAT_CAP_1065 lay v).

(** every layout: encoding a well-typed value never panics, at any position of any buffer *)
Theorem C09_encode_no_panic : forall n lay v d o, In (n, lay) messages -> wt_msg lay v ->
  bytes_ok d = true -> 0 <= o -> t_encode_frag lay (d, o) v <> Panic.
Proof.
  intros n lay v d o Hin Hw Hb Ho. destruct Hw as [[Hp Hw]|[Hp Hw]]; [exact (C09_encode_no_panic_plain n lay v d o Hin Hp Hw Hb Ho)|].
  pose proof C09_layouts_classified as Hc. rewrite forallb_forall in Hc. specialize (Hc _ Hin). cbn [snd] in Hc. rewrite Hp in Hc. cbn [orb] in Hc.
  exact (encode_no_panic_tail sig_table ssr_table_1059 ssr_table_1065 SAT_CAP_1059 SAT_CAP_1065 lay v d o Hc Hw Hb Ho).
Qed.

(** build_message never panics: for every message value (typed messages of the table with a well-typed body,
    and the three kinds without a wire form), from any reachable builder *)
Theorem C09_build_total : forall b m,
  reach sig_table ssr_table_1059 ssr_table_1065 SAT_CAP_1059 SAT_CAP_1065 messages b ->
  (forall n v, m = MTyped n v -> exists lay, lookup n messages = Some lay /\ wt_msg lay v) ->
  snd (t_build b m) <> Panic.
Proof.
  intros b m Hr Hm.
  assert (Hcase : (exists n v, m = MTyped n v) \/ (forall n v, m <> MTyped n v)).
  { destruct m; try (right; intros n0 v0 X; discriminate X). left. eexists. eexists. reflexivity. }
  destruct Hcase as [[n [v ->]]|Hnw]; [|rewrite (C09_no_wire_form b m Hnw); discriminate].
  destruct (Hm n v eq_refl) as [lay [Hlk Hw]]. unfold t_build.
  rewrite (history_independent sig_table ssr_table_1059 ssr_table_1065 SAT_CAP_1059 SAT_CAP_1065 messages b (MTyped n v) Hr).
  unfold build_fresh, build. cbn [builder_new b_has_run b_data]. change (211 :: repeat 0 1028) with fresh_data.
  pose proof (lookup_In messages n lay Hlk) as Hin.
  pose proof (build_no_panic_gen sig_table ssr_table_1059 ssr_table_1065 SAT_CAP_1059 SAT_CAP_1065 messages
                (proj1 caps_nonneg) (proj2 caps_nonneg) layouts_fit n v lay Hlk
                (fun d o Hb Ho => C09_encode_no_panic n lay v d o Hin Hw Hb Ho)) as Hn.
  destruct (build_on sig_table ssr_table_1059 ssr_table_1065 SAT_CAP_1059 SAT_CAP_1065 messages fresh_data (MTyped n v)) as [[fr d']|e|]; cbn [snd]; [discriminate|discriminate|contradiction].
Qed.
Check C09_build_total : forall b m,
  reach sig_table ssr_table_1059 ssr_table_1065 SAT_CAP_1059 SAT_CAP_1065 messages b ->
  (forall n v, m = MTyped n v -> exists lay, lookup n messages = Some lay /\ wt_msg lay v) ->
  snd (t_build b m) <> Panic.

(** every layout: the encoder moves the cursor forward, keeps the buffer a byte buffer of the same length and
    touches no bit before its starting position *)
Theorem C09_encoder_framed : forall n lay, In (n, lay) messages -> framed (t_encode_frag lay).
Proof.
  intros n lay Hin.
  pose proof C09_layouts_classified as Hc. rewrite forallb_forall in Hc. specialize (Hc _ Hin). cbn [snd] in Hc.
  destruct (plain lay) eqn:Hp.
  - pose proof plain_counts_ok as Hk. rewrite forallb_forall in Hk. specialize (Hk _ Hin). cbn [snd] in Hk. rewrite Hp in Hk. cbn [negb orb] in Hk.
    exact (plain_frame sig_table ssr_table_1059 ssr_table_1065 SAT_CAP_1059 SAT_CAP_1065 lay Hp Hk).
  - cbn [orb] in Hc. exact (tail_frame sig_table ssr_table_1059 ssr_table_1065 SAT_CAP_1059 SAT_CAP_1065 lay Hc).
Qed.

(** ... hence every frame build_message returns carries the message's own number in its first 12 payload bits *)
Theorem C09_number : forall b n v fr,
  reach sig_table ssr_table_1059 ssr_table_1065 SAT_CAP_1059 SAT_CAP_1065 messages b ->
  snd (t_build b (MTyped n v)) = Ok fr -> exists f, frame_new fr = Ok f /\ fr_number f = Some n.
Proof.
  intros b n v fr Hr H. unfold t_build in H.
  rewrite (history_independent sig_table ssr_table_1059 ssr_table_1065 SAT_CAP_1059 SAT_CAP_1065 messages b (MTyped n v) Hr) in H.
  unfold build_fresh, build in H. cbn [builder_new b_has_run b_data] in H. change (211 :: repeat 0 1028) with fresh_data in H.
  destruct (build_on sig_table ssr_table_1059 ssr_table_1065 SAT_CAP_1059 SAT_CAP_1065 messages fresh_data (MTyped n v)) as [[fr0 d']|e|] eqn:E; cbn [snd] in H; try discriminate.
  inversion H; subst fr0.
  destruct (build_well_formed sig_table ssr_table_1059 ssr_table_1065 SAT_CAP_1059 SAT_CAP_1065 messages
              (proj1 caps_nonneg) (proj2 caps_nonneg) layouts_fit (MTyped n v) fr d' E) as [n0 [v0 [lay [Em [Hlk _]]]]].
  inversion Em; subst n0 v0.
  exact (build_number sig_table ssr_table_1059 ssr_table_1065 SAT_CAP_1059 SAT_CAP_1065 messages
           (proj1 caps_nonneg) (proj2 caps_nonneg) layouts_fit numbers_fit n v fr d' lay Hlk (C09_encoder_framed n lay (lookup_In messages n lay Hlk)) E).
Qed.
Check C09_number : forall b n v fr,
  reach sig_table ssr_table_1059 ssr_table_1065 SAT_CAP_1059 SAT_CAP_1065 messages b ->
  snd (t_build b (MTyped n v)) = Ok fr -> exists f, frame_new fr = Ok f /\ fr_number f = Some n.

(** non-vacuity of [wt_tail]: an MSM4 message whose signal rows name a satellite that is not listed, one
    of them twice (refused with an error, not a panic), and the same with consistent rows (accepted) *)
Definition msm4_hdr : list val := [VInt 1; VInt 2; VInt 0; VNone; VInt 0; VInt 0; VInt 0; VInt 0; VInt 0].
Definition msm4_sat (s : Z) : val := VStruct [VInt s; VSome (VInt 70); VF64 0].
Definition msm4_sig (s : Z) : val := VStruct [VInt s; VSig 1 67; VSome (VF64 0); VSome (VF64 0); VInt 3; VInt 0; VSome (VInt 40)].
Example C09_wt_tail_example :
  plain layout_1074 = false /\ tail_ok sig_table layout_1074 = true /\
  is_ok (t_build_fresh (MTyped 1074 (VStruct (msm4_hdr ++ [VStruct [VList [msm4_sat 5]; VList [msm4_sig 5]]])))) = true /\
  t_build_fresh (MTyped 1074 (VStruct (msm4_hdr ++ [VStruct [VList [msm4_sat 5]; VList [msm4_sig 6; msm4_sig 6]]]))) = Err SatelliteMismatch.
Proof. repeat split; vm_compute; reflexivity. Qed.

Ltac wtf := first [ solve [vm_compute; tauto] | solve [left; reflexivity] | solve [right; eexists; split; [reflexivity|vm_compute; tauto]] ].
Example C09_wt_msg_example : wt_msg layout_1074 (VStruct (msm4_hdr ++ [VStruct [VList [msm4_sat 5]; VList [msm4_sig 6; msm4_sig 6]]])).
Proof.
  right. split; [vm_compute; reflexivity|].
  eapply (wt_tail_intro _ _ layout_1074); [vm_compute; reflexivity| |].
  - unfold msm4_hdr. repeat (constructor; [apply wt_fld; wtf|]). constructor.
  - cbn [wt_special]. exists [msm4_sat 5], [msm4_sig 6; msm4_sig 6]. split; [reflexivity|]. split; [vm_compute; discriminate|]. split; [vm_compute; discriminate|]. split.
    + intros r [<-|[]]. split; [|discriminate]. exists [VInt 5], [VSome (VInt 70); VF64 0]. split; [reflexivity|]. split; [reflexivity|].
      repeat (constructor; [wtf|]). constructor.
    + intros r Hr. assert (r = msm4_sig 6) as -> by (destruct Hr as [<-|[<-|[]]]; reflexivity). split; [|discriminate].
      exists [VInt 6; VSig 1 67], [VSome (VF64 0); VSome (VF64 0); VInt 3; VInt 0; VSome (VInt 40)]. split; [reflexivity|]. split; [reflexivity|].
      repeat (constructor; [wtf|]). constructor.
Qed.

(** non-vacuity of [wt]: a 1005 message (u16/u8/f64 fields) is well typed *)
Example C09_wt_example : wt layout_1005 (VStruct [VInt 1; VInt 2; VInt 0; VInt 1; VInt 0; VInt 1; VF64 0; VInt 0; VInt 0; VF64 0; VInt 0; VF64 0]) /\ plain layout_1005 = true.
Proof.
  split; [|vm_compute; reflexivity].
  unfold layout_1005. apply wt_struct. repeat (constructor; [apply wt_fld; vm_compute; tauto|]). constructor.
Qed.

Example C09_example :
  exists fr, t_build_fresh (MTyped 1005 (VStruct [VInt 1; VInt 2; VInt 0; VInt 1; VInt 0; VInt 1; VF64 0; VInt 0; VInt 0; VF64 0; VInt 0; VF64 0])) = Ok fr /\ zlen fr = 25.
Proof. eexists. split; vm_compute; reflexivity. Qed.

Print Assumptions C09_well_formed.
Print Assumptions C09_no_wire_form.
Print Assumptions C09_fits.
Print Assumptions C09_encode_no_panic_plain.
Print Assumptions C09_build_no_panic_plain.
Print Assumptions C09_number_plain.
Print Assumptions C09_layouts_classified.
Print Assumptions C09_encode_no_panic.
Print Assumptions C09_build_total.
Print Assumptions C09_encoder_framed.
Print Assumptions C09_number.

(** C19 -- every message feature can be selected on its own.  What a theorem can carry here is the
    hand-maintained cfg gating, over tables regenerated from Cargo.toml, src/msg/mod.rs, src/msg/message.rs
    and src/df/dfs.rs on every run; that rustc accepts each selection is enumerated by the check driver
    (cargo check), not proved.  PARTIAL in that sense. *)
From Coq Require Import ZArith List Lia Bool String.
From RtcmModel Require Import Types Frame Layout Message Features Top.
From RtcmGen Require Import GenSignals GenLayouts GenMessages.
Import ListNotations.
Open Scope Z_scope.

Lemma feature_on_mono F G f : (forall x, feature_on F x = true -> feature_on G x = true) -> feature_on F f = true -> feature_on G f = true.
Proof. intros H. apply H. Qed.

(** table obligation [features_closed]: for every `use super::X::*` edge (message module m, shared
    module X), the feature that compiles m is one of the features in X's cfg(any(..)) list; and m's
    feature is the one its include_msg! row names *)
Definition edge_ok (e : string * string) : bool :=
  let '(m, sm) := e in
  existsb (fun inc => String.eqb (fst inc) m &&
                      existsb (fun sh => String.eqb (fst sh) sm && existsb (String.eqb (snd inc)) (snd sh)) shared_modules)
          include_rows.
Definition features_closed : bool := forallb edge_ok uses_edges.

Theorem C19_features_closed : features_closed = true.
Proof. vm_compute. reflexivity. Qed.

(** for EVERY feature selection F (all 2^108 subsets and anything else): whenever a message module is
    compiled, every shared fragment module it uses is compiled too *)
Theorem C19_closed : forall (F : selection) m sm, In (m, sm) uses_edges ->
  msg_module_on include_rows F m = true -> shared_module_on shared_modules F sm = true.
Proof.
  intros F m sm Hin Hm.
  assert (Hedge : edge_ok (m, sm) = true).
  { pose proof C19_features_closed as Hc. unfold features_closed in Hc. rewrite forallb_forall in Hc. apply Hc. exact Hin. }
  (* every include row for m carries the same feature: include rows have pairwise distinct module names *)
  unfold msg_module_on in Hm. apply existsb_exists in Hm. destruct Hm as [[m1 f1] [Hin1 Hm1]].
  cbn [fst snd] in Hm1. apply andb_true_iff in Hm1. destruct Hm1 as [Hm1 Hf1]. apply String.eqb_eq in Hm1. subst m1.
  unfold edge_ok in Hedge. apply existsb_exists in Hedge. destruct Hedge as [[m2 f2] [Hin2 He2]].
  cbn [fst snd] in He2. apply andb_true_iff in He2. destruct He2 as [Hm2 Hs2]. apply String.eqb_eq in Hm2. subst m2.
  assert (Hsame : f1 = f2).
  { (* include_rows is functional on module names: checked by computation *)
    assert (Hfun : forallb (fun a => forallb (fun b => negb (String.eqb (fst a) (fst b)) || String.eqb (snd a) (snd b)) include_rows) include_rows = true)
      by (vm_compute; reflexivity).
    rewrite forallb_forall in Hfun. specialize (Hfun _ Hin1). rewrite forallb_forall in Hfun. specialize (Hfun _ Hin2).
    cbn [fst snd] in Hfun. rewrite String.eqb_refl in Hfun. cbn in Hfun. apply String.eqb_eq. exact Hfun. }
  subst f2.
  apply existsb_exists in Hs2. destruct Hs2 as [[sm' fl] [Hin3 Hs3]]. cbn [fst snd] in Hs3.
  apply andb_true_iff in Hs3. destruct Hs3 as [Hs3 Hf3]. apply String.eqb_eq in Hs3. subst sm'.
  unfold shared_module_on. apply existsb_exists. exists (sm, fl). split; [exact Hin3|]. cbn [fst snd].
  rewrite String.eqb_refl. cbn [andb].
  apply existsb_exists in Hf3. destruct Hf3 as [f' [Hin4 Heq]]. apply String.eqb_eq in Heq. subst f'.
  apply existsb_exists. exists f1. split; [exact Hin4|exact Hf1].
Qed.

(** the four hand-written field codecs are gated by exactly the feature of the message that uses them *)
Theorem C19_hand_fields_gated : forall (F : selection) feat m, In (feat, m) hand_field_users ->
  feature_on F feat = true -> hand_module_on hand_field_gates F m = true.
Proof.
  intros F feat m Hin Hf.
  assert (Hsub : forallb (fun u => existsb (fun g => String.eqb (fst g) (fst u) && String.eqb (snd g) (snd u)) hand_field_gates) hand_field_users = true)
    by (vm_compute; reflexivity).
  rewrite forallb_forall in Hsub. specialize (Hsub _ Hin). apply existsb_exists in Hsub. destruct Hsub as [[g1 g2] [Hg He]].
  cbn [fst snd] in He. apply andb_true_iff in He. destruct He as [E1 E2]. apply String.eqb_eq in E1, E2. subst g1 g2.
  unfold hand_module_on. apply existsb_exists. exists (feat, m). split; [exact Hg|]. cbn [fst snd].
  rewrite String.eqb_refl, Hf. reflexivity.
Qed.

(** ---------- dispatch under a selection ---------- *)
Definition rows : list (string * Z) := map (fun r => (fst (fst (fst r)), snd r)) message_rows.
Definition arms (F : selection) : list (Z * frag) := arms_on rows messages F.
Definition from_frame_sel (F : selection) := from_frame sig_table ssr_table_1059 ssr_table_1065 SAT_CAP_1059 SAT_CAP_1065 (arms F).

(** the empty selection reports every number as unsupported (and Empty for frames without a number) *)
Lemma no_feature_no_arm (rws : list (string * Z)) (x : Z * frag) :
  existsb (fun row : string * Z => (snd row =? fst x) && feature_on [] (fst row)) rws = false.
Proof.
  induction rws as [|y s IHs]; [reflexivity|]. cbn [existsb]. rewrite IHs.
  unfold feature_on. cbn [existsb]. rewrite andb_false_r. reflexivity.
Qed.
Lemma arms_empty : arms [] = [].
Proof.
  unfold arms, arms_on. induction messages as [|x r IH]; [reflexivity|]. cbn [filter].
  rewrite no_feature_no_arm. exact IH.
Qed.
Theorem C19_dispatch_empty : forall f, from_frame_sel [] f = match fr_number f with Some n => Ok (MUnsupp n) | None => Ok MEmpty end.
Proof.
  intros f. unfold from_frame_sel, from_frame. rewrite arms_empty. destruct (fr_number f); reflexivity.
Qed.

(** a selection of one message feature keeps exactly that message's arm: table obligation checked for
    every one of the message features by computation *)
Definition single_ok (feat : string) (n : Z) : bool :=
  match arms [feat] with
  | [(k, lay)] => (k =? n) && match lookup k messages with Some _ => true | None => false end
  | _ => false
  end.
Theorem C19_single_arms : forallb (fun row => single_ok (fst row) (snd row)) rows = true.
Proof. vm_compute. reflexivity. Qed.

Lemma from_frame_single sigt s59 s65 c59 c65 n lay f :
  from_frame sigt s59 s65 c59 c65 [(n, lay)] f =
    match fr_number f with
    | None => Ok MEmpty
    | Some k => if k =? n then from_frame sigt s59 s65 c59 c65 [(n, lay)] f else Ok (MUnsupp k)
    end.
Proof.
  unfold from_frame. destruct (fr_number f) as [k|]; [|reflexivity]. cbn [lookup]. destruct (k =? n); reflexivity.
Qed.

Lemma single_shape (a : list (Z * frag)) (n : Z) :
  match a with
  | [(k, lay)] => (k =? n) && match lookup k messages with Some _ => true | None => false end
  | _ => false
  end = true -> exists lay, a = [(n, lay)].
Proof.
  destruct a as [|[k lay] [|y r]]; try discriminate. intros H. apply andb_true_iff in H. destruct H as [Hk _].
  apply Z.eqb_eq in Hk. subst k. exists lay. reflexivity.
Qed.

Lemma single_in feat n : In (feat, n) rows -> single_ok feat n = true.
Proof. intros Hin. pose proof C19_single_arms as H. rewrite forallb_forall in H. exact (H _ Hin). Qed.

Lemma single_arms feat n : single_ok feat n = true -> exists lay, arms [feat] = [(n, lay)].
Proof. unfold single_ok. apply single_shape. Qed.

Theorem C19_dispatch_single : forall feat n f, In (feat, n) rows ->
  exists lay, arms [feat] = [(n, lay)] /\
    from_frame_sel [feat] f =
      match fr_number f with
      | None => Ok MEmpty
      | Some k => if k =? n then from_frame sig_table ssr_table_1059 ssr_table_1065 SAT_CAP_1059 SAT_CAP_1065 [(n, lay)] f
                  else Ok (MUnsupp k)
      end.
Proof.
  intros feat n f Hin. destruct (single_arms feat n (single_in feat n Hin)) as [lay Ea].
  exists lay. split; [exact Ea|]. unfold from_frame_sel. rewrite Ea. apply from_frame_single.
Qed.

Example C19_example : msg_module_on include_rows ["msg1077"%string] "msg1077" = true /\
                      shared_module_on shared_modules ["msg1077"%string] "msm57_sat" = true /\
                      shared_module_on shared_modules ["msg1077"%string] "msm46_sat" = false.
Proof. repeat split; vm_compute; reflexivity. Qed.

Print Assumptions C19_closed.
Print Assumptions C19_hand_fields_gated.
Print Assumptions C19_dispatch_single.
Print Assumptions C19_dispatch_empty.

//! Implementation-side runner of the correspondence check: reads one operation per line,
//! executes it against the real rtcm-rs (path dependency on /repo, built with --cfg rtcm_rs_verif)
//! and prints one canonical result line per operation.  See DESIGN.md Appendix B.
mod val;
#[allow(unused_imports, dead_code, unused_variables)]
mod glue_gen;

use rtcm_rs::prelude::*;
use rtcm_rs::rtcm_error::RtcmError;
use rtcm_rs::verif_hooks::{bit_value::*, Assembler, Parser};
use std::io::{BufRead, Write};
use std::panic::{catch_unwind, AssertUnwindSafe};
use val::*;

pub fn hex(b: &[u8]) -> String {
    let mut s = String::with_capacity(b.len() * 2);
    for x in b {
        s.push_str(&format!("{:02x}", x));
    }
    s
}
pub fn unhex(s: &str) -> Vec<u8> {
    if s == "-" {
        return vec![];
    }
    (0..s.len() / 2).map(|i| u8::from_str_radix(&s[2 * i..2 * i + 2], 16).unwrap()).collect()
}
pub fn err_name(e: &RtcmError) -> String {
    format!("{:?}", e)
}

fn op_frame(args: &[&str]) -> String {
    let d = unhex(args[0]);
    match MessageFrame::new(&d) {
        Ok(f) => format!(
            "OK {} {} {:06x} {} {} {}",
            f.frame_len(),
            f.data_len(),
            f.crc(),
            match f.message_number() {
                Some(n) => n.to_string(),
                None => "-".into(),
            },
            if f.data().is_empty() { "-".to_string() } else { hex(f.data()) },
            hex(f.frame_data())
        ),
        Err(e) => format!("ERR {}", err_name(&e)),
    }
}

fn op_scan(args: &[&str]) -> String {
    let d = unhex(args[0]);
    let (c, f) = next_msg_frame(&d);
    match f {
        Some(f) => {
            // the delivered frame must be a slice of the buffer: report its offset by pointer arithmetic
            let off = f.frame_data().as_ptr() as usize - d.as_ptr() as usize;
            format!("{} {}:{}", c, off, f.frame_len())
        }
        None => format!("{} -", c),
    }
}

fn op_iter(args: &[&str]) -> String {
    let d = unhex(args[0]);
    let mut it = MsgFrameIter::new(&d);
    let mut out = vec![];
    let mut guard = 0usize;
    for f in &mut it {
        let off = f.frame_data().as_ptr() as usize - d.as_ptr() as usize;
        out.push(format!("{}:{}", off, f.frame_len()));
        guard += 1;
        if guard > d.len() + 2 {
            return "HANG".into();
        }
    }
    format!("{} {}", it.consumed(), if out.is_empty() { "-".to_string() } else { out.join(",") })
}

/// STREAM <hex> <sched>: sched = comma separated a<k> (append next k bytes) / c (one scanner call).
/// The caller keeps the unconsumed tail.  Reports total consumed and every delivered frame as
/// absolute_start:len:crc.
fn op_stream(args: &[&str]) -> String {
    let d = unhex(args[0]);
    let mut fed = 0usize;
    let mut tail: Vec<u8> = vec![];
    let mut consumed_total = 0usize;
    let mut out = vec![];
    for op in args[1].split(',') {
        if let Some(k) = op.strip_prefix('a') {
            let k: usize = k.parse().unwrap();
            let k = k.min(d.len() - fed);
            tail.extend_from_slice(&d[fed..fed + k]);
            fed += k;
        } else if op == "c" {
            let (c, f) = next_msg_frame(&tail);
            if let Some(f) = f {
                let off = f.frame_data().as_ptr() as usize - tail.as_ptr() as usize;
                out.push(format!("{}:{}:{}", consumed_total + off, f.frame_len(), hex(f.frame_data())));
            }
            consumed_total += c;
            tail.drain(..c);
        }
    }
    format!("{} {}", consumed_total, if out.is_empty() { "-".to_string() } else { out.join(",") })
}

fn msg_text(m: &Message) -> String {
    match to_val(m) {
        Ok(v) => v.to_string(),
        Err(e) => format!("SERERR {}", e),
    }
}

fn op_decode(args: &[&str]) -> String {
    let d = unhex(args[0]);
    match MessageFrame::new(&d) {
        Ok(f) => {
            let m = f.get_message();
            #[allow(clippy::eq_op)]
            let refl = m == m;
            format!("{} refl={}", msg_text(&m), refl)
        }
        Err(e) => format!("ERR {}", err_name(&e)),
    }
}

fn parse_msg(s: &str) -> Result<Message, String> {
    let v = parse_val(s)?;
    #[allow(unused_mut)]
    let mut m = from_val::<Message>(&v).map_err(|e| e.0)?;
    // the free-text field is built the way a user of the public API builds it, with
    // ArrayString::from(&str) or collect(), not through the serde visitor that from_val goes through
    if let Message::Msg1029(ref mut t) = m {
        if let Val::Variant(_, Some(body)) = &v {
            if let Val::Struct(fields) = body.as_ref() {
                if let Some(last) = fields.last() {
                    if let Some(text) = cps_to_string(last) {
                        // both public constructors, chosen by the parity of the character count so that a run is
                        // reproducible: From<&str> (which the decoder uses too) and FromIterator<char> (try_push)
                        t.text_str = if text.chars().count() % 2 == 0 {
                            rtcm_rs::util::ArrayString::from(text.as_str())
                        } else {
                            text.chars().collect()
                        };
                    }
                }
            }
        }
    }
    Ok(m)
}

fn op_encode(args: &[&str]) -> String {
    let m = match parse_msg(args[0]) {
        Ok(m) => m,
        Err(e) => return format!("BADVAL {}", e),
    };
    let mut b = MessageBuilder::new();
    match b.build_message(&m) {
        Ok(bytes) => format!("OK {}", hex(bytes)),
        Err(e) => format!("ERR {}", err_name(&e)),
    }
}

/// BUILDSEQ m1 m2 ... : all with one builder; one result per message, separated by ';'.
/// A panicking build poisons nothing here (the builder is plain data) but we stop the sequence.
fn op_buildseq(args: &[&str]) -> String {
    let mut b = MessageBuilder::new();
    let mut out = vec![];
    for a in args {
        let m = match parse_msg(a) {
            Ok(m) => m,
            Err(e) => return format!("BADVAL {}", e),
        };
        let r = catch_unwind(AssertUnwindSafe(|| match b.build_message(&m) {
            Ok(bytes) => format!("OK {}", hex(bytes)),
            Err(e) => format!("ERR {}", err_name(&e)),
        }));
        match r {
            Ok(s) => out.push(s),
            Err(_) => {
                out.push("PANIC".into());
                break;
            }
        }
    }
    out.join(" ; ")
}

/// BUILDREP <n> <msgA> <msgB> <msgC>: one builder; msgA built n times (results dropped), then msgB, then msgC.
/// Reports the results of the last two builds (implementation only: the model's builder has no counter to wrap).
fn op_buildrep(args: &[&str]) -> String {
    let n: usize = match args[0].parse() {
        Ok(n) => n,
        Err(_) => return "BADVAL count".into(),
    };
    let mut ms = vec![];
    for a in &args[1..4] {
        match parse_msg(a) {
            Ok(m) => ms.push(m),
            Err(e) => return format!("BADVAL {}", e),
        }
    }
    let r = catch_unwind(AssertUnwindSafe(|| {
        let mut b = MessageBuilder::new();
        for _ in 0..n {
            let _ = b.build_message(&ms[0]);
        }
        let mut out = vec![];
        for m in &ms[1..3] {
            out.push(match b.build_message(m) {
                Ok(bytes) => format!("OK {}", hex(bytes)),
                Err(e) => format!("ERR {}", err_name(&e)),
            });
        }
        out.join(" ; ")
    }));
    r.unwrap_or_else(|_| "PANIC".into())
}

/// ROUNDTRIP <msg>: E(m); D(E m); E(D(E m)); D(E(D(E m))) -- the C01 chain, computed by the implementation alone.
fn op_roundtrip(args: &[&str], history: bool) -> String {
    let m = match parse_msg(args[0]) {
        Ok(m) => m,
        Err(e) => return format!("BADVAL {}", e),
    };
    let mut b = MessageBuilder::new();
    if history {
        // ROUNDTRIPH <msg> <earlier msg>: the first build uses a builder that already built <earlier msg>
        match parse_msg(args[1]) {
            Ok(pre) => {
                let _ = b.build_message(&pre);
            }
            Err(e) => return format!("BADVAL {}", e),
        }
    }
    let e1 = match b.build_message(&m) {
        Ok(bytes) => bytes.to_vec(),
        Err(e) => return format!("ERR {}", err_name(&e)),
    };
    let f1 = match MessageFrame::new(&e1) {
        Ok(f) => f,
        Err(e) => return format!("OK {} FRAMEERR {}", hex(&e1), err_name(&e)),
    };
    let d1 = f1.get_message();
    let mut b2 = MessageBuilder::new();
    let e2 = match b2.build_message(&d1) {
        Ok(bytes) => bytes.to_vec(),
        Err(e) => return format!("OK {} D1 {} E2ERR {}", hex(&e1), msg_text(&d1), err_name(&e)),
    };
    let d2 = match MessageFrame::new(&e2) {
        Ok(f) => f.get_message(),
        Err(e) => return format!("OK {} D1 {} E2 {} FRAMEERR {}", hex(&e1), msg_text(&d1), hex(&e2), err_name(&e)),
    };
    format!(
        "OK {} D1 {} E2 {} D2EQ {} D2 {}",
        hex(&e1),
        msg_text(&d1),
        if e2 == e1 { "same".to_string() } else { hex(&e2) },
        d1 == d2,
        if d1 == d2 { "same".to_string() } else { msg_text(&d2) }
    )
}

/// REDECODE <frame hex>: D(f); E(D f); D(E(D f)) -- decoded-message fixed point clause of C01.
fn op_redecode(args: &[&str]) -> String {
    let d = unhex(args[0]);
    let f = match MessageFrame::new(&d) {
        Ok(f) => f,
        Err(e) => return format!("ERR {}", err_name(&e)),
    };
    let d1 = f.get_message();
    let mut b = MessageBuilder::new();
    let e1 = match b.build_message(&d1) {
        Ok(bytes) => bytes.to_vec(),
        Err(e) => return format!("D1 {} E1ERR {}", msg_text(&d1), err_name(&e)),
    };
    let d2 = match MessageFrame::new(&e1) {
        Ok(f) => f.get_message(),
        Err(e) => return format!("D1 {} E1 {} FRAMEERR {}", msg_text(&d1), hex(&e1), err_name(&e)),
    };
    format!(
        "D1 {} E1 {} D2EQ {} D2 {}",
        msg_text(&d1),
        hex(&e1),
        d1 == d2,
        if d1 == d2 { "same".to_string() } else { msg_text(&d2) }
    )
}

/// SERDE <msg>: Val -> Message -> Val (serialize) -> Message (deserialize); compare with ==.
fn op_serde(args: &[&str]) -> String {
    let m = match parse_msg(args[0]) {
        Ok(m) => m,
        Err(e) => return format!("BADVAL {}", e),
    };
    let v = match to_val(&m) {
        Ok(v) => v,
        Err(e) => return format!("SERERR {}", e),
    };
    let m2: Message = match from_val(&v) {
        Ok(m) => m,
        Err(e) => return format!("DEERR {}", e.0),
    };
    #[allow(clippy::eq_op)]
    let refl = m == m;
    format!("EQ {} REFL {} {}", m == m2, refl, v)
}

/// SERDEFRAME <frame hex>: decode, then the serde round trip of the decoded message.
fn op_serdeframe(args: &[&str]) -> String {
    let d = unhex(args[0]);
    let f = match MessageFrame::new(&d) {
        Ok(f) => f,
        Err(e) => return format!("ERR {}", err_name(&e)),
    };
    let m = f.get_message();
    let v = match to_val(&m) {
        Ok(v) => v,
        Err(e) => return format!("SERERR {}", e),
    };
    let m2: Message = match from_val(&v) {
        Ok(m) => m,
        Err(e) => return format!("DEERR {}", e.0),
    };
    #[allow(clippy::eq_op)]
    let refl = m == m;
    format!("EQ {} REFL {} {}", m == m2, refl, v)
}

macro_rules! put_kind {
    ($it:ty, $pt:ty, $args:expr) => {{
        let w: usize = $args[1].parse().unwrap();
        let off: usize = $args[2].parse().unwrap();
        let v: i128 = $args[3].parse().unwrap();
        let mut data = unhex($args[4]);
        let mut asm = Assembler::new(&mut data, off);
        let r = asm.put::<$it>(v as $pt, w);
        let o = asm.offset();
        match r {
            Ok(()) => format!("OK {} {}", if data.is_empty() { "-".to_string() } else { hex(&data) }, o),
            Err(e) => format!("ERR {} {} {}", err_name(&e), if data.is_empty() { "-".to_string() } else { hex(&data) }, o),
        }
    }};
}
macro_rules! parse_kind {
    ($it:ty, $args:expr) => {{
        let w: usize = $args[1].parse().unwrap();
        let off: usize = $args[2].parse().unwrap();
        let data = unhex($args[3]);
        let mut par = Parser::new(&data, off);
        let r = par.parse::<$it>(w);
        let o = par.offset();
        match r {
            Ok(v) => format!("OK {} {}", v as i128, o),
            Err(e) => format!("ERR {} {}", err_name(&e), o),
        }
    }};
}

fn op_put(args: &[&str]) -> String {
    match args[0] {
        "U8" => put_kind!(U8, u8, args),
        "U16" => put_kind!(U16, u16, args),
        "U32" => put_kind!(U32, u32, args),
        "U64" => put_kind!(U64, u64, args),
        "I8" => put_kind!(I8, i8, args),
        "I16" => put_kind!(I16, i16, args),
        "I32" => put_kind!(I32, i32, args),
        "I64" => put_kind!(I64, i64, args),
        "SM8" => put_kind!(SM8, i8, args),
        "SM16" => put_kind!(SM16, i16, args),
        "SM32" => put_kind!(SM32, i32, args),
        "SM64" => put_kind!(SM64, i64, args),
        k => format!("BADOP kind {}", k),
    }
}
fn op_parse(args: &[&str]) -> String {
    match args[0] {
        "U8" => parse_kind!(U8, args),
        "U16" => parse_kind!(U16, args),
        "U32" => parse_kind!(U32, args),
        "U64" => parse_kind!(U64, args),
        "I8" => parse_kind!(I8, args),
        "I16" => parse_kind!(I16, args),
        "I32" => parse_kind!(I32, args),
        "I64" => parse_kind!(I64, args),
        "SM8" => parse_kind!(SM8, args),
        "SM16" => parse_kind!(SM16, args),
        "SM32" => parse_kind!(SM32, args),
        "SM64" => parse_kind!(SM64, args),
        k => format!("BADOP kind {}", k),
    }
}

/// FENC <field> <val>: encode into a zeroed 16-byte buffer at offset 0.
fn op_fenc(args: &[&str]) -> String {
    let v = match parse_val(args[1]) {
        Ok(v) => v,
        Err(e) => return format!("BADVAL {}", e),
    };
    // the field is written into a buffer that is all ones or all zeros (chosen by the length of the value text, so that a
    // run is reproducible): the write must set exactly its own bits whatever was there before
    let bg: u8 = if args[1].len() % 2 == 0 { 0xFF } else { 0x00 };
    let mut data = [bg; 16];
    let mut asm = Assembler::new(&mut data, 0);
    match glue_gen::fenc(args[0], &v, &mut asm) {
        None => "BADOP field".into(),
        Some(Err(s)) => format!("BADVAL {}", s),
        Some(Ok(Ok(()))) => {
            let w = asm.offset();
            let mut p: u128 = 0;
            for b in data.iter() {
                p = (p << 8) | (*b as u128);
            }
            let p = if w == 0 { 0 } else { p >> (128 - w) };
            format!("OK {:x} {}", p, w)
        }
        Some(Ok(Err(e))) => format!("ERR {}", err_name(&e)),
    }
}
/// FDEC <field> <pattern hex> <w>: pattern placed MSB-first at bit 0 of a 16-byte buffer (rest zero).
fn op_fdec(args: &[&str]) -> String {
    let p = u128::from_str_radix(args[1], 16).unwrap();
    let w: usize = args[2].parse().unwrap();
    let p = if w == 0 { 0 } else { p << (128 - w) };
    let data = p.to_be_bytes();
    let mut par = Parser::new(&data, 0);
    match glue_gen::fdec(args[0], &mut par) {
        None => "BADOP field".into(),
        Some(Ok(v)) => format!("OK {} {}", v, par.offset()),
        Some(Err(e)) => format!("ERR {}", err_name(&e)),
    }
}

macro_rules! sig_ops {
    ($gnss:ident, $op:expr, $args:expr) => {{
        use rtcm_rs::msg::verif_sig::$gnss::*;
        match $op {
            "SIGID" => {
                let band: u8 = $args[1].parse().unwrap();
                let cp: u32 = $args[2].parse().unwrap();
                match char::from_u32(cp) {
                    None => "BADVAL char".to_string(),
                    Some(c) => {
                        let s = SigId::new(band, c);
                        format!(
                            "{} valid={}",
                            match to_id(s) {
                                Some(i) => i.to_string(),
                                None => "-".into(),
                            },
                            s.is_valid()
                        )
                    }
                }
            }
            "SIGSIG" => {
                let id: u8 = $args[1].parse().unwrap();
                match to_sig(id) {
                    Some(s) => format!("G{}:{}", s.band(), s.attribute() as u32),
                    None => "-".into(),
                }
            }
            "SIGCMP" => {
                let a = SigId::new($args[1].parse().unwrap(), char::from_u32($args[2].parse().unwrap()).unwrap());
                let b = SigId::new($args[3].parse().unwrap(), char::from_u32($args[4].parse().unwrap()).unwrap());
                let c = match a.cmp(&b) {
                    core::cmp::Ordering::Less => "L",
                    core::cmp::Ordering::Equal => "E",
                    core::cmp::Ordering::Greater => "G",
                };
                let pc = match a.partial_cmp(&b) {
                    Some(core::cmp::Ordering::Less) => "L",
                    Some(core::cmp::Ordering::Equal) => "E",
                    Some(core::cmp::Ordering::Greater) => "G",
                    None => "-",
                };
                format!("{} {} eq={}", c, pc, a == b)
            }
            _ => "BADOP".to_string(),
        }
    }};
}
fn op_sig(op: &str, args: &[&str]) -> String {
    match args[0] {
        "gps" => sig_ops!(gps, op, args),
        "glo" => sig_ops!(glo, op, args),
        "gal" => sig_ops!(gal, op, args),
        "sbas" => sig_ops!(sbas, op, args),
        "qzss" => sig_ops!(qzss, op, args),
        "bds" => sig_ops!(bds, op, args),
        "navic" => sig_ops!(navic, op, args),
        g => format!("BADOP gnss {}", g),
    }
}

fn cps_to_string(v: &Val) -> Option<String> {
    if let Val::Str(cps) = v {
        let mut s = String::new();
        for c in cps {
            s.push(char::from_u32(*c)?);
        }
        Some(s)
    } else {
        None
    }
}

macro_rules! str88591_n {
    ($n:literal, $s:expr) => {{
        let x = rtcm_rs::util::Df88591String::<$n>::from($s.as_str());
        let bytes: Vec<u8> = x.iter().copied().collect();
        let chars: Vec<u32> = x.chars().map(|c| c as u32).collect();
        format!("{} {} {}", x.len(), if bytes.is_empty() { "-".to_string() } else { hex(&bytes) }, Val::Str(chars))
    }};
}
fn op_str88591(args: &[&str]) -> String {
    let s = match parse_val(args[1]).ok().and_then(|v| cps_to_string(&v)) {
        Some(s) => s,
        None => return "BADVAL".into(),
    };
    match args[0] {
        "7" => str88591_n!(7, s),
        "31" => str88591_n!(31, s),
        "255" => str88591_n!(255, s),
        "3" => str88591_n!(3, s),
        _ => "BADOP N".into(),
    }
}
macro_rules! utf8str_n {
    ($n:literal, $s:expr) => {{
        let x = rtcm_rs::util::ArrayString::<$n>::from($s.as_str());
        let st: &str = &x;
        let bytes = st.as_bytes();
        let chars: Vec<u32> = st.chars().map(|c| c as u32).collect();
        format!("{} {}", if bytes.is_empty() { "-".to_string() } else { hex(bytes) }, Val::Str(chars))
    }};
}
fn op_utf8str(args: &[&str]) -> String {
    let s = match parse_val(args[1]).ok().and_then(|v| cps_to_string(&v)) {
        Some(s) => s,
        None => return "BADVAL".into(),
    };
    match args[0] {
        "7" => utf8str_n!(7, s),
        "31" => utf8str_n!(31, s),
        "255" => utf8str_n!(255, s),
        "3" => utf8str_n!(3, s),
        "4" => utf8str_n!(4, s),
        _ => "BADOP N".into(),
    }
}

fn run_line(line: &str) -> String {
    let toks: Vec<&str> = line.split(' ').filter(|t| !t.is_empty()).collect();
    if toks.is_empty() {
        return "".into();
    }
    let args = &toks[1..];
    match toks[0] {
        "FRAME" => op_frame(args),
        "SCAN" => op_scan(args),
        "ITER" => op_iter(args),
        "STREAM" => op_stream(args),
        "DECODE" => op_decode(args),
        "ENCODE" => op_encode(args),
        "BUILDSEQ" => op_buildseq(args),
        "BUILDREP" => op_buildrep(args),
        "ROUNDTRIP" => op_roundtrip(args, false),
        "ROUNDTRIPH" => op_roundtrip(args, true),
        "REDECODE" => op_redecode(args),
        "SERDE" => op_serde(args),
        "SERDEFRAME" => op_serdeframe(args),
        "PUT" => op_put(args),
        "PARSE" => op_parse(args),
        "FENC" => op_fenc(args),
        "FDEC" => op_fdec(args),
        "SIGID" | "SIGSIG" | "SIGCMP" => op_sig(toks[0], args),
        "STR88591" => op_str88591(args),
        "UTF8STR" => op_utf8str(args),
        _ => "BADOP".into(),
    }
}

fn main() {
    std::panic::set_hook(Box::new(|_| {}));
    let args: Vec<String> = std::env::args().collect();
    let input: Box<dyn BufRead> = if args.len() > 1 {
        Box::new(std::io::BufReader::new(std::fs::File::open(&args[1]).expect("open ops file")))
    } else {
        Box::new(std::io::BufReader::new(std::io::stdin()))
    };
    let stdout = std::io::stdout();
    let mut out = std::io::BufWriter::new(stdout.lock());
    for line in input.lines() {
        let line = line.unwrap();
        let r = catch_unwind(AssertUnwindSafe(|| run_line(&line)));
        match r {
            Ok(s) => writeln!(out, "{}", s).unwrap(),
            Err(_) => writeln!(out, "PANIC").unwrap(),
        }
        // flush per line: a later operation that hangs or aborts must not lose earlier results
        out.flush().unwrap();
    }
    out.flush().unwrap();
}

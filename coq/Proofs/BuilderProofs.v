(** MessageBuilder: the output depends only on the message (C12). *)
From Coq Require Import ZArith List Lia Bool.
From RtcmModel Require Import Types BitIO Floats Field SigId Text Bias Msm Layout Crc Frame Message.
From RtcmProofs Require Import ListZ FragInd EncodeLen.
Import ListNotations.
Open Scope Z_scope.

Section Builder.
  Variable sigt : gnss -> sigtable.
  Variable ssr59 ssr65 : sigtable.
  Variable cap59 cap65 : Z.
  Variable table : list (Z * frag).

  Notation build := (build sigt ssr59 ssr65 cap59 cap65 table).
  Notation build_on := (build_on sigt ssr59 ssr65 cap59 cap65 table).

  Definition fresh_data : list Z := 211 :: repeat 0 1028.

  (** shape of the buffer: 1029 bytes, the first one 0xD3 *)
  Definition shape (b : builder) : Prop := exists rest, b_data b = 211 :: rest /\ length rest = 1028%nat.
  (** a builder that has not run yet still holds the all-zero buffer *)
  Definition binv (b : builder) : Prop :=
    shape b /\ (b_has_run b = false -> b_data b = fresh_data).

  Lemma map_const_repeat {A} (l : list A) : map (fun _ => 0) l = repeat 0 (length l).
  Proof. induction l as [|x r IH]; cbn; [reflexivity|f_equal; exact IH]. Qed.

  (** the buffer the encoder starts from is always the fresh one *)
  Lemma start_data b : binv b -> (if b_has_run b then clear_data (b_data b) else b_data b) = fresh_data.
  Proof.
    intros [[rest [Hd Hl]] Hf]. destruct (b_has_run b).
    - rewrite Hd. cbn [clear_data]. rewrite map_const_repeat, Hl. reflexivity.
    - apply Hf. reflexivity.
  Qed.

  Theorem build_from_inv b m : binv b -> snd (build b m) = snd (build builder_new m).
  Proof.
    intros Hb. unfold Message.build. rewrite (start_data b Hb). cbn [builder_new b_has_run b_data].
    change (211 :: repeat 0 1028) with fresh_data.
    destruct (build_on fresh_data m) as [[fr d']|e|]; reflexivity.
  Qed.

  Lemma set_nth_length l i x : length (set_nth l i x) = length l.
  Proof. apply upd_length. Qed.
  Lemma set_nth_hd l i x : 0 < i -> hd 0 (set_nth l i x) = hd 0 l.
  Proof.
    intros Hi. unfold set_nth. destruct l as [|y r]; [reflexivity|].
    destruct (Z.to_nat i) eqn:E; [lia|]. reflexivity.
  Qed.

  Lemma shape_of_hd_len d : hd 0 d = 211 -> length d = 1029%nat -> exists rest, d = 211 :: rest /\ length rest = 1028%nat.
  Proof.
    destruct d as [|x r]; cbn; [lia|]. intros -> Hl. exists r. split; [reflexivity|lia].
  Qed.

  Lemma build_on_shape m fr d' : build_on fresh_data m = Ok (fr, d') -> hd 0 d' = 211 /\ length d' = 1029%nat.
  Proof.
    unfold Message.build_on. destruct m as [| |k|n v]; try discriminate.
    destruct (lookup n table) as [lay|]; [|discriminate].
    intros H. bind_inv H. destruct (_ <? _); [discriminate|]. inversion H; subst. clear H.
    match goal with E1 : put _ _ _ _ _ _ = Ok ?a |- _ => destruct a as [d0 o0]; apply put_len in E1; destruct E1 as [L0 _] end.
    match goal with E1 : encode_frag _ _ _ _ _ _ _ _ = Ok _ |- _ => apply encode_frag_len in E1; cbn [fst] in E1 end.
    match goal with E1 : usub _ _ = Ok ?z |- _ => unfold usub in E1; destruct (_ <=? _) eqn:Hle in E1; [|discriminate]; inversion E1; subst z end.
    apply Z.leb_le in Hle.
    set (st := a0) in *.
    assert (Hlen : length (firstn 3 fresh_data ++ fst st ++ skipn 1026 fresh_data) = 1029%nat).
    { rewrite !app_length. unfold zlen in *. 
      assert (length (fst st) = 1023%nat).
      { apply Nat2Z.inj. rewrite E0, L0. unfold fresh_data. vm_compute. reflexivity. }
      rewrite H. vm_compute. reflexivity. }
    split.
    - rewrite !set_nth_hd.
      + reflexivity.
      + lia.
      + lia.
      + assert (0 <= (snd st - 1) / 8) by (apply Z.div_pos; lia). lia.
      + assert (0 <= (snd st - 1) / 8) by (apply Z.div_pos; lia). lia.
      + assert (0 <= (snd st - 1) / 8) by (apply Z.div_pos; lia). lia.
    - rewrite !set_nth_length. exact Hlen.
  Qed.

  Lemma fresh_shape : exists rest, fresh_data = 211 :: rest /\ length rest = 1028%nat.
  Proof. exists (repeat 0 1028). split; [reflexivity|apply repeat_length]. Qed.

  Theorem binv_new : binv builder_new.
  Proof. split; [exact fresh_shape|intros _; reflexivity]. Qed.

  Theorem binv_build b m : binv b -> binv (fst (build b m)).
  Proof.
    intros Hb. unfold Message.build. rewrite (start_data b Hb).
    destruct (build_on fresh_data m) as [[fr d']|e|] eqn:E; cbn [fst]; (split; [|cbn; discriminate]); unfold shape; cbn [b_data].
    - destruct (build_on_shape m fr d' E) as [Hh Hl]. apply shape_of_hd_len; assumption.
    - exact fresh_shape.
    - exact fresh_shape.
  Qed.

  (** Histories.  After a failed build the real buffer holds whatever was written before the error;
      [reach_garbage] therefore lets the buffer be *any* 1029 bytes starting with 0xD3. *)
  Inductive reach : builder -> Prop :=
  | reach_new : reach builder_new
  | reach_build b m : reach b -> reach (fst (build b m))
  | reach_garbage b m rest : reach b -> is_ok (snd (build b m)) = false -> length rest = 1028%nat ->
      reach {| b_data := 211 :: rest; b_has_run := true |}.

  Lemma reach_inv b : reach b -> binv b.
  Proof.
    induction 1 as [|b m _ IH|b m rest _ IH Herr Hl].
    - exact binv_new.
    - apply binv_build. exact IH.
    - split; [exists rest; split; [reflexivity|exact Hl]|cbn; discriminate].
  Qed.

  Theorem history_independent b m : reach b -> snd (build b m) = snd (build builder_new m).
  Proof. intros H. apply build_from_inv. apply reach_inv. exact H. Qed.

  Theorem history_fold ms m :
    snd (build (fold_left (fun b x => fst (build b x)) ms builder_new) m) = snd (build builder_new m).
  Proof.
    apply history_independent. generalize builder_new reach_new. induction ms as [|x r IH]; intros b Hb; cbn [fold_left]; [exact Hb|].
    apply IH. apply reach_build. exact Hb.
  Qed.
End Builder.

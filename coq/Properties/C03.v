(** C03 -- a frame is accepted iff preamble, length and CRC-24Q all check out.
    Statements only; proofs are in Proofs/FrameProofs.v. *)
From Coq Require Import ZArith List Lia Bool.
From RtcmModel Require Import Types Crc Frame.
From RtcmProofs Require Import ListZ FrameProofs.
Import ListNotations.
Open Scope Z_scope.

(** [frame_accept d]: at least 6 bytes, first byte 0xD3, at least L+6 bytes, and bytes L+3..L+5 (big
    endian) equal crc24q of the first L+3 bytes, with L the 10-bit length of bytes 1-2. *)
Theorem C03_accept_iff : forall d, (exists f, frame_new d = Ok f) <-> frame_accept d.
Proof. exact frame_new_accept_iff. Qed.
Check C03_accept_iff : forall d, (exists f, frame_new d = Ok f) <->
  (6 <= zlen d /\ znth d 0 = 211 /\ frame_length d + 6 <= zlen d /\
   be24 (znth d (frame_length d + 3)) (znth d (frame_length d + 4)) (znth d (frame_length d + 5))
   = crc24q (zfirstn (frame_length d + 3) d)).

(** the length is the low 10 bits of bytes 1-2: the six reserved bits take no part in it *)
Theorem C03_length_field : forall d, bytes_ok d = true ->
  frame_length d = (znth d 1 mod 4) * 256 + znth d 2 /\ 0 <= frame_length d <= 1023.
Proof. exact frame_length_bytes. Qed.

Theorem C03_attributes : forall d f, bytes_ok d = true -> frame_new d = Ok f ->
  let L := frame_length d in
  0 <= L <= 1023 /\ frame_len f = L + 6 /\ data_len f = L /\
  fr_frame_data f = zfirstn (L + 6) d /\ fr_data f = zfirstn L (zskipn 3 d) /\
  fr_crc f = crc24q (zfirstn (L + 3) d) /\ fr_number f = number_of d.
Proof. exact frame_attributes. Qed.

(** every payload of 0..1023 bytes, with any value of the reserved bits, framed with the CRC-24Q of
    its first L+3 bytes, is accepted and reports that payload *)
Theorem C03_every_length : forall r payload, zlen payload <= 1023 -> 0 <= r < 64 ->
  exists f, frame_new (mkframe r payload) = Ok f /\ fr_data f = payload /\ frame_len f = zlen payload + 6.
Proof. exact mkframe_data. Qed.

Theorem C03_reserved_bits_ignored : forall r payload, zlen payload <= 1023 -> 0 <= r < 64 ->
  frame_accept (mkframe r payload) /\ frame_length (mkframe r payload) = zlen payload.
Proof. exact mkframe_accept. Qed.

Theorem C03_incomplete : forall d,
  (zlen d < 6 -> frame_new d = Err Incomplete) /\
  (6 <= zlen d -> znth d 0 = 211 -> zlen d < frame_length d + 6 -> frame_new d = Err Incomplete).
Proof.
  intros d. destruct (frame_new_cases d) as [[H E]|[[H [H1 E]]|[[H [H1 [H2 E]]]|[[H [H1 [H2 [H3 E]]]]|[[A [B [C D]]] E]]]]];
    split; intros; try exact E; try lia; contradiction.
Qed.

Theorem C03_notvalid : forall d, 6 <= zlen d ->
  (znth d 0 <> 211 \/ (frame_length d + 6 <= zlen d /\ ~ crc_matches d)) -> frame_new d = Err NotValid.
Proof.
  intros d H6 Hc. destruct (frame_new_cases d) as [[H E]|[[H [H1 E]]|[[H [H1 [H2 E]]]|[[H [H1 [H2 [H3 E]]]]|[[A [B [C D]]] E]]]]];
    try exact E; try lia; destruct Hc as [Hc|[Hc1 Hc2]]; try contradiction; try lia.
Qed.

(** the outcomes are exhaustive: nothing else can be returned (in particular no panic) *)
Theorem C03_exhaustive : forall d,
  frame_new d = Err Incomplete \/ frame_new d = Err NotValid \/ (frame_accept d /\ frame_new d = Ok (frame_of d)).
Proof.
  intros d. destruct (frame_new_cases d) as [[H E]|[[H [H1 E]]|[[H [H1 [H2 E]]]|[[H [H1 [H2 [H3 E]]]]|[Ha E]]]]]; auto.
Qed.

(** non-vacuity: a concrete 8-byte frame (payload 3E 80 = message number 1000) is accepted *)
Example C03_example : exists f, frame_new (mkframe 0 [62; 128]) = Ok f /\ fr_number f = Some 1000.
Proof. eexists. split; vm_compute; reflexivity. Qed.

Print Assumptions C03_accept_iff.
Print Assumptions C03_attributes.
Print Assumptions C03_every_length.
Print Assumptions C03_incomplete.
Print Assumptions C03_notvalid.

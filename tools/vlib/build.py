"""Shared build steps of every check: translate -> coq make -> audit -> extraction/ocaml -> cargo (2 profiles).
All steps rebuild from /repo's current working tree and are incremental; a file lock serialises them."""
import os, re, glob, fcntl, time, json
from .common import *

COQ_WARN = "-arg -w -arg -notation-overridden,-deprecated-hint-without-locality,-deprecated-instance-without-locality,-deprecated-hint-rewrite-without-locality"
COQ_DIRS = ["Model", "Generated", "Proofs", "Properties", "Extract"]
FORBIDDEN = re.compile(r"\b(Admitted|admit|Axiom|Axioms|Parameter|Parameters|Conjecture|Conjectures|Admit Obligations|bypass_check|Unset Guard Checking|Unset Positivity Checking|Unset Universe Checking|type-in-type|impredicative-set)\b")
# Variable/Hypothesis/Context are allowed only inside sections (checked structurally below)
AXIOM_ALLOW = {
    "ClassicalDedekindReals.sig_forall_dec", "ClassicalDedekindReals.sig_not_dec",
    "FunctionalExtensionality.functional_extensionality_dep", "Classical_Prop.classic",
}


class Lock:
    def __init__(self, name="build"):
        os.makedirs(CACHE, exist_ok=True)
        self.path = os.path.join(CACHE, name + ".lock")

    def __enter__(self):
        self.f = open(self.path, "w")
        fcntl.flock(self.f, fcntl.LOCK_EX)
        return self

    def __exit__(self, *a):
        fcntl.flock(self.f, fcntl.LOCK_UN)
        self.f.close()


def translate():
    """regenerate coq/Generated/*.v, harness glue and build/tables.json from /repo.  -> (ok, message)"""
    rc, out, err = sh(["python3", os.path.join(ROOT, "tools", "translate.py")], timeout=120)
    if rc != 0:
        return False, (out + err).strip()[-2000:]
    return True, out.strip()


def coq_files():
    fs = []
    for d in COQ_DIRS:
        fs += sorted(glob.glob(os.path.join(COQ, d, "*.v")))
    return [os.path.relpath(f, COQ) for f in fs]


def coq_project():
    lines = ["-Q Model RtcmModel", "-Q Generated RtcmGen", "-Q Proofs RtcmProofs", "-Q Properties RtcmProps",
             "-Q Extract RtcmExtract", COQ_WARN] + coq_files()
    content = "\n".join(lines) + "\n"
    p = os.path.join(COQ, "_CoqProject")
    old = open(p).read() if os.path.exists(p) else None
    if old != content or not os.path.exists(os.path.join(COQ, "Makefile")):
        open(p, "w").write(content)
        rc, out, err = sh("coq_makefile -f _CoqProject -o Makefile", cwd=COQ, timeout=60)
        if rc != 0:
            return False, err
    return True, ""


def coq_make(targets, timeout=3000):
    """full .vo build of the given targets (paths relative to coq/, .vo).  -> (ok, log)"""
    ok, msg = coq_project()
    if not ok:
        return False, msg
    cmd = "make -j16 " + " ".join(targets)
    rc, out, err = sh(cmd, cwd=COQ, timeout=timeout)
    return rc == 0, (out + "\n" + err)[-6000:]


def strip_coq_comments(src):
    out = []
    depth = 0
    i = 0
    while i < len(src):
        if src.startswith("(*", i):
            depth += 1
            i += 2
        elif src.startswith("*)", i) and depth > 0:
            depth -= 1
            i += 2
        else:
            if depth == 0:
                out.append(src[i])
            i += 1
    return "".join(out)


def audit():
    """no Admitted/Axiom/... anywhere; Variable/Hypothesis/Context only inside sections.  -> list of problems"""
    problems = []
    for f in coq_files() + sorted(os.path.relpath(x, COQ) for x in glob.glob(os.path.join(ROOT, "design-prototypes", "*.v"))):
        path = os.path.join(COQ, f)
        src = strip_coq_comments(open(path).read())
        for m in FORBIDDEN.finditer(src):
            problems.append("%s: forbidden token %r" % (f, m.group(0)))
        depth = 0
        for sentence in re.split(r"\.\s", src):
            s = sentence.strip()
            if re.match(r"Section\s+\w+", s):
                depth += 1
            elif re.match(r"End\s+\w+", s) and depth > 0:
                depth -= 1
            elif depth == 0 and re.match(r"(Variable|Variables|Hypothesis|Hypotheses|Context)\b", s):
                problems.append("%s: %s outside a section" % (f, s.split()[0]))
    return problems


def print_assumptions(module, theorems):
    """-> {theorem: [axioms]} by running coqc on a scratch file that prints the assumptions"""
    d = os.path.join(CACHE, "assume")
    os.makedirs(d, exist_ok=True)
    fn = os.path.join(d, "Assume_%s.v" % module)
    with open(fn, "w") as f:
        f.write("From RtcmProps Require Import %s.\n" % module)
        for t in theorems:
            f.write('Goal True. idtac "@@BEGIN %s". Abort.\nPrint Assumptions %s.\n' % (t, t))
        f.write('Goal True. idtac "@@END". Abort.\n')
    args = []
    for d_, n in (("Model", "RtcmModel"), ("Generated", "RtcmGen"), ("Proofs", "RtcmProofs"), ("Properties", "RtcmProps")):
        args += ["-Q", os.path.join(COQ, d_), n]
    rc, out, err = sh(["coqc", "-noglob"] + args + [fn], timeout=600, cwd=d)
    res = {}
    if rc != 0:
        return None, (out + err)[-3000:]
    cur = None
    for line in out.splitlines():
        if line.startswith("@@BEGIN "):
            cur = line[8:].strip()
            res[cur] = []
        elif line.startswith("@@END"):
            cur = None
        elif cur is not None:
            # an axiom's name starts a line in column 0; its type follows on the same line or, when
            # long, on indented continuation lines
            m = re.match(r"^([A-Za-z_][\w.']*)\s*(:|$)", line)
            if m and m.group(1) not in ("Axioms", "Closed"):
                res[cur].append(m.group(1))
    return res, out


def build_model():
    """extraction (by make Extract/Extract.vo, which writes coq/model.ml) + ocamlopt.  -> (ok, log)"""
    ok, lg = coq_make(["Extract/Extract.vo"])
    if not ok:
        return False, lg
    src_ml = os.path.join(COQ, "model.ml")
    if not os.path.exists(src_ml):
        # Extract.vo up to date but model.ml removed: force re-extraction
        try:
            os.remove(os.path.join(COQ, "Extract", "Extract.vo"))
        except OSError:
            pass
        ok, lg = coq_make(["Extract/Extract.vo"])
        if not ok or not os.path.exists(src_ml):
            return False, "extraction produced no model.ml\n" + lg
    d = os.path.join(CACHE, "ocaml")
    os.makedirs(d, exist_ok=True)
    key = sha(open(src_ml).read() + open(os.path.join(COQ, "model.mli")).read() + open(os.path.join(ROOT, "ocaml", "driver.ml")).read())
    stamp = os.path.join(d, "stamp")
    if os.path.exists(stamp) and open(stamp).read() == key and os.path.exists(os.path.join(d, "modelrun")):
        return True, "cached"
    for f in ("model.ml", "model.mli"):
        open(os.path.join(d, f), "w").write(open(os.path.join(COQ, f)).read())
    open(os.path.join(d, "driver.ml"), "w").write(open(os.path.join(ROOT, "ocaml", "driver.ml")).read())
    rc, out, err = sh("ocamlfind ocamlopt -w -a -O3 -o modelrun model.mli model.ml driver.ml", cwd=d, timeout=600)
    if rc != 0:
        return False, (out + err)[-3000:]
    open(stamp, "w").write(key)
    return True, "built"


def cargo_build(profile):
    """profile in {rel, chk, nostd}: release, release + overflow checks, release with the library's `std` feature off
    (the harness binary itself still links std); hooks on.  -> (ok, path or log)"""
    hd = os.path.join(ROOT, "harness")
    lock_src = os.path.join(REPO, "Cargo.lock")
    lock_dst = os.path.join(hd, "Cargo.lock")
    if not os.path.exists(lock_dst) and os.path.exists(lock_src):
        open(lock_dst, "w").write(open(lock_src).read())
    flags = HOOK_CFG + (" -C overflow-checks=on" if profile == "chk" else "")
    tdir = os.path.join(CACHE, "target-" + profile)
    rc, out, err = sh("cargo build --release --offline" + (" --no-default-features" if profile == "nostd" else ""), cwd=hd, timeout=1800,
                      env={"RUSTFLAGS": flags, "CARGO_TARGET_DIR": tdir, "CARGO_NET_OFFLINE": "true"})
    if rc != 0:
        return False, (out + err)[-4000:]
    return True, os.path.join(tdir, "release", "implrun")


def modelrun_path():
    return os.path.join(CACHE, "ocaml", "modelrun")

//! Self-describing value tree used as (a) the text protocol between the generators, the
//! implementation harness and the Coq model, and (b) the serde data model for C20.
use serde::de::{self, DeserializeSeed, EnumAccess, IntoDeserializer, MapAccess, SeqAccess, VariantAccess, Visitor};
use serde::ser::{self, Serialize};
use std::fmt;

#[derive(Clone, Debug, PartialEq)]
pub enum Val {
    Int(i128),
    F32(u32),
    F64(u64),
    None,
    Some(Box<Val>),
    List(Vec<Val>),
    Struct(Vec<Val>),
    Str(Vec<u32>),
    Sig(u8, u32),
    /// enum variant: name, optional payload
    Variant(String, Option<Box<Val>>),
}

impl fmt::Display for Val {
    fn fmt(&self, f: &mut fmt::Formatter<'_>) -> fmt::Result {
        match self {
            Val::Int(i) => write!(f, "i{}", i),
            Val::F32(b) => write!(f, "f{:08x}", b),
            Val::F64(b) => write!(f, "d{:016x}", b),
            Val::None => write!(f, "N"),
            Val::Some(v) => write!(f, "S({})", v),
            Val::List(l) => {
                write!(f, "L[")?;
                for (i, v) in l.iter().enumerate() {
                    if i > 0 {
                        write!(f, ",")?;
                    }
                    write!(f, "{}", v)?;
                }
                write!(f, "]")
            }
            Val::Struct(l) => {
                write!(f, "T{{")?;
                for (i, v) in l.iter().enumerate() {
                    if i > 0 {
                        write!(f, ",")?;
                    }
                    write!(f, "{}", v)?;
                }
                write!(f, "}}")
            }
            Val::Str(cps) => {
                write!(f, "C")?;
                for (i, c) in cps.iter().enumerate() {
                    if i > 0 {
                        write!(f, ".")?;
                    }
                    write!(f, "{}", c)?;
                }
                Ok(())
            }
            Val::Sig(b, c) => write!(f, "G{}:{}", b, c),
            Val::Variant(n, None) => write!(f, "V{}", n),
            Val::Variant(n, Some(v)) => write!(f, "V{}({})", n, v),
        }
    }
}

pub fn parse_val(s: &str) -> Result<Val, String> {
    let b = s.as_bytes();
    let (v, p) = parse_at(b, 0)?;
    if p != b.len() {
        return Err(format!("trailing input at {}", p));
    }
    Ok(v)
}

fn parse_list(b: &[u8], mut p: usize, close: u8) -> Result<(Vec<Val>, usize), String> {
    let mut out = Vec::new();
    if p < b.len() && b[p] == close {
        return Ok((out, p + 1));
    }
    loop {
        let (v, np) = parse_at(b, p)?;
        out.push(v);
        p = np;
        if p >= b.len() {
            return Err("unterminated list".into());
        }
        if b[p] == b',' {
            p += 1;
        } else if b[p] == close {
            return Ok((out, p + 1));
        } else {
            return Err(format!("unexpected byte at {}", p));
        }
    }
}

fn parse_at(b: &[u8], p: usize) -> Result<(Val, usize), String> {
    if p >= b.len() {
        return Err("eof".into());
    }
    match b[p] {
        b'i' => {
            let mut q = p + 1;
            if q < b.len() && b[q] == b'-' {
                q += 1;
            }
            while q < b.len() && b[q].is_ascii_digit() {
                q += 1;
            }
            let t = std::str::from_utf8(&b[p + 1..q]).unwrap();
            Ok((Val::Int(t.parse::<i128>().map_err(|e| e.to_string())?), q))
        }
        b'f' => {
            let t = std::str::from_utf8(&b[p + 1..p + 9]).map_err(|e| e.to_string())?;
            Ok((Val::F32(u32::from_str_radix(t, 16).map_err(|e| e.to_string())?), p + 9))
        }
        b'd' => {
            let t = std::str::from_utf8(&b[p + 1..p + 17]).map_err(|e| e.to_string())?;
            Ok((Val::F64(u64::from_str_radix(t, 16).map_err(|e| e.to_string())?), p + 17))
        }
        b'N' => Ok((Val::None, p + 1)),
        b'S' => {
            if b.get(p + 1) != Some(&b'(') {
                return Err("S(".into());
            }
            let (v, q) = parse_at(b, p + 2)?;
            if b.get(q) != Some(&b')') {
                return Err("S)".into());
            }
            Ok((Val::Some(Box::new(v)), q + 1))
        }
        b'L' => {
            if b.get(p + 1) != Some(&b'[') {
                return Err("L[".into());
            }
            let (l, q) = parse_list(b, p + 2, b']')?;
            Ok((Val::List(l), q))
        }
        b'T' => {
            if b.get(p + 1) != Some(&b'{') {
                return Err("T{".into());
            }
            let (l, q) = parse_list(b, p + 2, b'}')?;
            Ok((Val::Struct(l), q))
        }
        b'C' => {
            let mut q = p + 1;
            let mut cps = Vec::new();
            loop {
                let st = q;
                while q < b.len() && b[q].is_ascii_digit() {
                    q += 1;
                }
                if q == st {
                    break;
                }
                cps.push(std::str::from_utf8(&b[st..q]).unwrap().parse::<u32>().map_err(|e| e.to_string())?);
                if q < b.len() && b[q] == b'.' {
                    q += 1;
                } else {
                    break;
                }
            }
            Ok((Val::Str(cps), q))
        }
        b'G' => {
            let mut q = p + 1;
            while q < b.len() && b[q].is_ascii_digit() {
                q += 1;
            }
            let band = std::str::from_utf8(&b[p + 1..q]).unwrap().parse::<u8>().map_err(|e| e.to_string())?;
            if b.get(q) != Some(&b':') {
                return Err("G:".into());
            }
            let st = q + 1;
            q = st;
            while q < b.len() && b[q].is_ascii_digit() {
                q += 1;
            }
            let cp = std::str::from_utf8(&b[st..q]).unwrap().parse::<u32>().map_err(|e| e.to_string())?;
            Ok((Val::Sig(band, cp), q))
        }
        b'V' => {
            let mut q = p + 1;
            while q < b.len() && (b[q].is_ascii_alphanumeric() || b[q] == b'_') {
                q += 1;
            }
            let name = std::str::from_utf8(&b[p + 1..q]).unwrap().to_string();
            if b.get(q) == Some(&b'(') {
                let (v, r) = parse_at(b, q + 1)?;
                if b.get(r) != Some(&b')') {
                    return Err("V)".into());
                }
                Ok((Val::Variant(name, Some(Box::new(v))), r + 1))
            } else {
                Ok((Val::Variant(name, None), q))
            }
        }
        c => Err(format!("unexpected '{}' at {}", c as char, p)),
    }
}

// ---------------------------------------------------------------------------------------------
// Serializer: T -> Val
// ---------------------------------------------------------------------------------------------
#[derive(Debug)]
pub struct VErr(pub String);
impl fmt::Display for VErr {
    fn fmt(&self, f: &mut fmt::Formatter<'_>) -> fmt::Result {
        write!(f, "{}", self.0)
    }
}
impl std::error::Error for VErr {}
impl ser::Error for VErr {
    fn custom<T: fmt::Display>(msg: T) -> Self {
        VErr(msg.to_string())
    }
}
impl de::Error for VErr {
    fn custom<T: fmt::Display>(msg: T) -> Self {
        VErr(msg.to_string())
    }
}

pub struct VSer;
pub struct SeqSer {
    items: Vec<Val>,
    kind: SeqKind,
}
enum SeqKind {
    List,
    Struct,
    TupleStruct(&'static str),
    VariantStruct(&'static str),
}

pub fn to_val<T: Serialize>(t: &T) -> Result<Val, VErr> {
    t.serialize(VSer)
}

impl ser::Serializer for VSer {
    type Ok = Val;
    type Error = VErr;
    type SerializeSeq = SeqSer;
    type SerializeTuple = SeqSer;
    type SerializeTupleStruct = SeqSer;
    type SerializeTupleVariant = SeqSer;
    type SerializeMap = ser::Impossible<Val, VErr>;
    type SerializeStruct = SeqSer;
    type SerializeStructVariant = SeqSer;

    fn serialize_bool(self, v: bool) -> Result<Val, VErr> {
        Ok(Val::Int(v as i128))
    }
    fn serialize_i8(self, v: i8) -> Result<Val, VErr> {
        Ok(Val::Int(v as i128))
    }
    fn serialize_i16(self, v: i16) -> Result<Val, VErr> {
        Ok(Val::Int(v as i128))
    }
    fn serialize_i32(self, v: i32) -> Result<Val, VErr> {
        Ok(Val::Int(v as i128))
    }
    fn serialize_i64(self, v: i64) -> Result<Val, VErr> {
        Ok(Val::Int(v as i128))
    }
    fn serialize_u8(self, v: u8) -> Result<Val, VErr> {
        Ok(Val::Int(v as i128))
    }
    fn serialize_u16(self, v: u16) -> Result<Val, VErr> {
        Ok(Val::Int(v as i128))
    }
    fn serialize_u32(self, v: u32) -> Result<Val, VErr> {
        Ok(Val::Int(v as i128))
    }
    fn serialize_u64(self, v: u64) -> Result<Val, VErr> {
        Ok(Val::Int(v as i128))
    }
    fn serialize_f32(self, v: f32) -> Result<Val, VErr> {
        Ok(Val::F32(v.to_bits()))
    }
    fn serialize_f64(self, v: f64) -> Result<Val, VErr> {
        Ok(Val::F64(v.to_bits()))
    }
    fn serialize_char(self, v: char) -> Result<Val, VErr> {
        Ok(Val::Int(v as u32 as i128))
    }
    fn serialize_str(self, v: &str) -> Result<Val, VErr> {
        Ok(Val::Str(v.chars().map(|c| c as u32).collect()))
    }
    fn serialize_bytes(self, v: &[u8]) -> Result<Val, VErr> {
        Ok(Val::List(v.iter().map(|b| Val::Int(*b as i128)).collect()))
    }
    fn serialize_none(self) -> Result<Val, VErr> {
        Ok(Val::None)
    }
    fn serialize_some<T: ?Sized + Serialize>(self, value: &T) -> Result<Val, VErr> {
        Ok(Val::Some(Box::new(value.serialize(VSer)?)))
    }
    fn serialize_unit(self) -> Result<Val, VErr> {
        Ok(Val::Struct(vec![]))
    }
    fn serialize_unit_struct(self, _name: &'static str) -> Result<Val, VErr> {
        Ok(Val::Struct(vec![]))
    }
    fn serialize_unit_variant(self, _name: &'static str, _i: u32, variant: &'static str) -> Result<Val, VErr> {
        Ok(Val::Variant(variant.to_string(), None))
    }
    fn serialize_newtype_struct<T: ?Sized + Serialize>(self, _name: &'static str, value: &T) -> Result<Val, VErr> {
        value.serialize(VSer)
    }
    fn serialize_newtype_variant<T: ?Sized + Serialize>(
        self,
        _name: &'static str,
        _i: u32,
        variant: &'static str,
        value: &T,
    ) -> Result<Val, VErr> {
        Ok(Val::Variant(variant.to_string(), Some(Box::new(value.serialize(VSer)?))))
    }
    fn serialize_seq(self, _len: Option<usize>) -> Result<SeqSer, VErr> {
        Ok(SeqSer { items: vec![], kind: SeqKind::List })
    }
    fn serialize_tuple(self, _len: usize) -> Result<SeqSer, VErr> {
        Ok(SeqSer { items: vec![], kind: SeqKind::List })
    }
    fn serialize_tuple_struct(self, name: &'static str, _len: usize) -> Result<SeqSer, VErr> {
        Ok(SeqSer { items: vec![], kind: SeqKind::TupleStruct(name) })
    }
    fn serialize_tuple_variant(self, _n: &'static str, _i: u32, variant: &'static str, _len: usize) -> Result<SeqSer, VErr> {
        Ok(SeqSer { items: vec![], kind: SeqKind::VariantStruct(variant) })
    }
    fn serialize_map(self, _len: Option<usize>) -> Result<Self::SerializeMap, VErr> {
        Err(VErr("map not supported".into()))
    }
    fn serialize_struct(self, _name: &'static str, _len: usize) -> Result<SeqSer, VErr> {
        Ok(SeqSer { items: vec![], kind: SeqKind::Struct })
    }
    fn serialize_struct_variant(self, _n: &'static str, _i: u32, variant: &'static str, _len: usize) -> Result<SeqSer, VErr> {
        Ok(SeqSer { items: vec![], kind: SeqKind::VariantStruct(variant) })
    }
    fn collect_str<T: ?Sized + fmt::Display>(self, value: &T) -> Result<Val, VErr> {
        let s = value.to_string();
        Ok(Val::Str(s.chars().map(|c| c as u32).collect()))
    }
}

impl SeqSer {
    fn finish(self) -> Result<Val, VErr> {
        match self.kind {
            SeqKind::List => Ok(Val::List(self.items)),
            SeqKind::Struct => Ok(Val::Struct(self.items)),
            SeqKind::TupleStruct("SigId") => {
                if let [Val::Int(b), Val::Int(c)] = self.items[..] {
                    Ok(Val::Sig(b as u8, c as u32))
                } else {
                    Err(VErr("bad SigId".into()))
                }
            }
            SeqKind::TupleStruct(_) => Ok(Val::Struct(self.items)),
            SeqKind::VariantStruct(v) => Ok(Val::Variant(v.to_string(), Some(Box::new(Val::Struct(self.items))))),
        }
    }
}
impl ser::SerializeSeq for SeqSer {
    type Ok = Val;
    type Error = VErr;
    fn serialize_element<T: ?Sized + Serialize>(&mut self, value: &T) -> Result<(), VErr> {
        self.items.push(value.serialize(VSer)?);
        Ok(())
    }
    fn end(self) -> Result<Val, VErr> {
        self.finish()
    }
}
impl ser::SerializeTuple for SeqSer {
    type Ok = Val;
    type Error = VErr;
    fn serialize_element<T: ?Sized + Serialize>(&mut self, value: &T) -> Result<(), VErr> {
        self.items.push(value.serialize(VSer)?);
        Ok(())
    }
    fn end(self) -> Result<Val, VErr> {
        self.finish()
    }
}
impl ser::SerializeTupleStruct for SeqSer {
    type Ok = Val;
    type Error = VErr;
    fn serialize_field<T: ?Sized + Serialize>(&mut self, value: &T) -> Result<(), VErr> {
        self.items.push(value.serialize(VSer)?);
        Ok(())
    }
    fn end(self) -> Result<Val, VErr> {
        self.finish()
    }
}
impl ser::SerializeTupleVariant for SeqSer {
    type Ok = Val;
    type Error = VErr;
    fn serialize_field<T: ?Sized + Serialize>(&mut self, value: &T) -> Result<(), VErr> {
        self.items.push(value.serialize(VSer)?);
        Ok(())
    }
    fn end(self) -> Result<Val, VErr> {
        self.finish()
    }
}
impl ser::SerializeStruct for SeqSer {
    type Ok = Val;
    type Error = VErr;
    fn serialize_field<T: ?Sized + Serialize>(&mut self, _key: &'static str, value: &T) -> Result<(), VErr> {
        self.items.push(value.serialize(VSer)?);
        Ok(())
    }
    fn end(self) -> Result<Val, VErr> {
        self.finish()
    }
}
impl ser::SerializeStructVariant for SeqSer {
    type Ok = Val;
    type Error = VErr;
    fn serialize_field<T: ?Sized + Serialize>(&mut self, _key: &'static str, value: &T) -> Result<(), VErr> {
        self.items.push(value.serialize(VSer)?);
        Ok(())
    }
    fn end(self) -> Result<Val, VErr> {
        self.finish()
    }
}

// ---------------------------------------------------------------------------------------------
// Deserializer: Val -> T
// ---------------------------------------------------------------------------------------------
pub struct VDe<'a>(pub &'a Val);

pub fn from_val<'a, T: de::Deserialize<'a>>(v: &'a Val) -> Result<T, VErr> {
    T::deserialize(VDe(v))
}

struct SeqDe<'a> {
    it: std::slice::Iter<'a, Val>,
}
impl<'de, 'a: 'de> SeqAccess<'de> for SeqDe<'a> {
    type Error = VErr;
    fn next_element_seed<T: DeserializeSeed<'de>>(&mut self, seed: T) -> Result<Option<T::Value>, VErr> {
        match self.it.next() {
            Some(v) => seed.deserialize(VDe(v)).map(Some),
            None => Ok(None),
        }
    }
    fn size_hint(&self) -> Option<usize> {
        Some(self.it.len())
    }
}
struct NoMap;
impl<'de> MapAccess<'de> for NoMap {
    type Error = VErr;
    fn next_key_seed<K: DeserializeSeed<'de>>(&mut self, _seed: K) -> Result<Option<K::Value>, VErr> {
        Ok(None)
    }
    fn next_value_seed<V: DeserializeSeed<'de>>(&mut self, _seed: V) -> Result<V::Value, VErr> {
        Err(VErr("no map".into()))
    }
}

struct EnumDe<'a> {
    name: &'a str,
    payload: Option<&'a Val>,
}
impl<'de, 'a: 'de> EnumAccess<'de> for EnumDe<'a> {
    type Error = VErr;
    type Variant = VariantDe<'a>;
    fn variant_seed<V: DeserializeSeed<'de>>(self, seed: V) -> Result<(V::Value, VariantDe<'a>), VErr> {
        let de: de::value::StrDeserializer<'a, VErr> = self.name.into_deserializer();
        let v = seed.deserialize(de)?;
        Ok((v, VariantDe { payload: self.payload }))
    }
}
struct VariantDe<'a> {
    payload: Option<&'a Val>,
}
impl<'de, 'a: 'de> VariantAccess<'de> for VariantDe<'a> {
    type Error = VErr;
    fn unit_variant(self) -> Result<(), VErr> {
        Ok(())
    }
    fn newtype_variant_seed<T: DeserializeSeed<'de>>(self, seed: T) -> Result<T::Value, VErr> {
        match self.payload {
            Some(v) => seed.deserialize(VDe(v)),
            None => Err(VErr("variant payload missing".into())),
        }
    }
    fn tuple_variant<V: Visitor<'de>>(self, _len: usize, visitor: V) -> Result<V::Value, VErr> {
        match self.payload {
            Some(v) => de::Deserializer::deserialize_any(VDe(v), visitor),
            None => Err(VErr("variant payload missing".into())),
        }
    }
    fn struct_variant<V: Visitor<'de>>(self, _fields: &'static [&'static str], visitor: V) -> Result<V::Value, VErr> {
        match self.payload {
            Some(v) => de::Deserializer::deserialize_any(VDe(v), visitor),
            None => Err(VErr("variant payload missing".into())),
        }
    }
}

impl<'de, 'a: 'de> de::Deserializer<'de> for VDe<'a> {
    type Error = VErr;

    fn deserialize_any<V: Visitor<'de>>(self, visitor: V) -> Result<V::Value, VErr> {
        match self.0 {
            Val::Int(i) => {
                if *i < 0 {
                    visitor.visit_i64(*i as i64)
                } else {
                    visitor.visit_u64(*i as u64)
                }
            }
            Val::F32(b) => visitor.visit_f32(f32::from_bits(*b)),
            Val::F64(b) => visitor.visit_f64(f64::from_bits(*b)),
            Val::None => visitor.visit_none(),
            Val::Some(v) => visitor.visit_some(VDe(v)),
            Val::List(l) => visitor.visit_seq(SeqDe { it: l.iter() }),
            Val::Struct(l) => visitor.visit_seq(SeqDe { it: l.iter() }),
            Val::Str(cps) => {
                let s: String = cps.iter().map(|c| char::from_u32(*c).unwrap_or('\u{fffd}')).collect();
                visitor.visit_string(s)
            }
            Val::Sig(b, c) => {
                // a two-element sequence (u8, char)
                struct SigSeq(u8, u32, u8);
                impl<'de> SeqAccess<'de> for SigSeq {
                    type Error = VErr;
                    fn next_element_seed<T: DeserializeSeed<'de>>(&mut self, seed: T) -> Result<Option<T::Value>, VErr> {
                        self.2 += 1;
                        match self.2 {
                            1 => {
                                let d: de::value::U8Deserializer<VErr> = self.0.into_deserializer();
                                seed.deserialize(d).map(Some)
                            }
                            2 => {
                                let ch = char::from_u32(self.1).ok_or_else(|| VErr("bad char".into()))?;
                                let d: de::value::CharDeserializer<VErr> = ch.into_deserializer();
                                seed.deserialize(d).map(Some)
                            }
                            _ => Ok(None),
                        }
                    }
                }
                visitor.visit_seq(SigSeq(*b, *c, 0))
            }
            Val::Variant(name, payload) => visitor.visit_enum(EnumDe { name, payload: payload.as_deref() }),
        }
    }
    fn deserialize_option<V: Visitor<'de>>(self, visitor: V) -> Result<V::Value, VErr> {
        match self.0 {
            Val::None => visitor.visit_none(),
            Val::Some(v) => visitor.visit_some(VDe(v)),
            _ => visitor.visit_some(self),
        }
    }
    fn deserialize_newtype_struct<V: Visitor<'de>>(self, _name: &'static str, visitor: V) -> Result<V::Value, VErr> {
        visitor.visit_newtype_struct(self)
    }
    fn deserialize_char<V: Visitor<'de>>(self, visitor: V) -> Result<V::Value, VErr> {
        match self.0 {
            Val::Int(i) => match char::from_u32(*i as u32) {
                Some(c) => visitor.visit_char(c),
                None => Err(VErr("bad char".into())),
            },
            _ => self.deserialize_any(visitor),
        }
    }
    fn deserialize_enum<V: Visitor<'de>>(
        self,
        _name: &'static str,
        _variants: &'static [&'static str],
        visitor: V,
    ) -> Result<V::Value, VErr> {
        match self.0 {
            Val::Variant(name, payload) => visitor.visit_enum(EnumDe { name, payload: payload.as_deref() }),
            _ => Err(VErr("expected variant".into())),
        }
    }
    fn deserialize_struct<V: Visitor<'de>>(
        self,
        _name: &'static str,
        _fields: &'static [&'static str],
        visitor: V,
    ) -> Result<V::Value, VErr> {
        match self.0 {
            Val::Struct(l) => visitor.visit_seq(SeqDe { it: l.iter() }),
            Val::List(l) => visitor.visit_seq(SeqDe { it: l.iter() }),
            _ => {
                let _ = NoMap;
                Err(VErr("expected struct".into()))
            }
        }
    }
    serde::forward_to_deserialize_any! {
        bool i8 i16 i32 i64 i128 u8 u16 u32 u64 u128 f32 f64 str string
        bytes byte_buf unit unit_struct seq tuple
        tuple_struct map identifier ignored_any
    }
}

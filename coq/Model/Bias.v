(** SSR code bias lists of 1059 / 1065 and the GLONASS code-phase biases of 1230
    (src/df/dfs/df_msg1059_biases.rs, df_msg1065_biases.rs, df_msg1230_biases.rs, after the
    capacity and count fixes).  An entry is VStruct [VInt sat; VSig band cp; VF32 bias]
    (1230: VStruct [VSig band cp; VF32 bias]). *)
From Coq Require Import ZArith List Bool.
From Flocq Require Import Core BinarySingleNaN.
From RtcmModel Require Import Types BitIO Floats Field SigId.
Import ListNotations.
Open Scope Z_scope.

(** 0.01f32 and 0.02f32, exactly as rustc rounds the literals *)
Definition f32_0_01 : f32 := of_me 24 128 Hp32 Hpe32 10737418 (-30).
Definition f32_0_02 : f32 := of_me 24 128 Hp32 Hpe32 10737418 (-29).

(** [bias /= r; if bias > 0.0 { bias + 0.5 } else { bias - 0.5 } as i16] *)
Definition bias_quant (r : f32) (bits : Z) : Z :=
  let x := f32_of_bits bits in
  let q := fdiv 24 128 Hp32 Hpe32 x r in
  let y := if fgt 24 128 q (fzero 24 128)
           then fadd 24 128 Hp32 Hpe32 q (fhalf 24 128 Hp32 Hpe32)
           else fsub 24 128 Hp32 Hpe32 q (fhalf 24 128 Hp32 Hpe32) in
  to_int_sat 24 128 (-32768) 32767 y.

(** [(v as f32) * r] *)
Definition bias_dequant (r : f32) (v : Z) : Z :=
  f32_to_bits (fmul 24 128 Hp32 Hpe32 (ofZ 24 128 Hp32 Hpe32 v) r).

Record bias_entry := { be_sat : Z; be_sig : Z * Z; be_bias : Z }.

Definition entry_of_val (v : val) : option bias_entry :=
  match v with
  | VStruct [VInt s; VSig b c; VF32 x] => Some {| be_sat := s; be_sig := (b, c); be_bias := x |}
  | _ => None
  end.
Fixpoint entries_of_vals (l : list val) : option (list bias_entry) :=
  match l with
  | [] => Some []
  | v :: r => match entry_of_val v, entries_of_vals r with
              | Some e, Some es => Some (e :: es)
              | _, _ => None
              end
  end.
Definition val_of_entry (e : bias_entry) : val :=
  VStruct [VInt (be_sat e); VSig (fst (be_sig e)) (snd (be_sig e)); VF32 (be_bias e)].

Section CodeBias.
  (** parameters that differ between 1059 and 1065 *)
  Variable table : sigtable.
  Variable max_sat : Z.        (* 63 / 31 *)
  Variable sat_bits : Z.       (* 6 / 5 *)
  Variable cap : Z.            (* SAT_CAP_1059 / SAT_CAP_1065 *)

  (** first loop of encode: satellite mask and count *)
  Fixpoint cb_mask (es : list bias_entry) (sat_mask sat_num : Z) : outcome (Z * Z) :=
    match es with
    | [] => Ok (sat_mask, sat_num)
    | e :: r =>
        if be_sat e <=? max_sat then
          if Z.testbit sat_mask (be_sat e) then cb_mask r sat_mask sat_num
          else (if 255 <? sat_num + 1 then Panic     (* u8 += 1 *)
                else cb_mask r (Z.setbit sat_mask (be_sat e)) (sat_num + 1))
        else Err OutOfRange
    end.

  (** the entries of satellite s, in list order *)
  Fixpoint cb_put_entries (st : astate) (s : Z) (es : list bias_entry) : outcome astate :=
    match es with
    | [] => Ok st
    | e :: r =>
        if be_sat e =? s then
          match to_id table (be_sig e) with
          | Some sig_id =>
              st1 <- put KU 8 (fst st) (snd st) sig_id 5 ;;
              st2 <- put KI 16 (fst st1) (snd st1) (bias_quant f32_0_01 (be_bias e)) 14 ;;
              cb_put_entries st2 s r
          | None => cb_put_entries st s r
          end
        else cb_put_entries st s r
    end.

  Definition cb_count (s : Z) (es : list bias_entry) : Z :=
    zlen (filter (fun b => (be_sat b =? s) && (match to_id table (be_sig b) with Some _ => true | None => false end)) es).

  (** [for s in 0..=max_sat]; n = remaining iterations *)
  Fixpoint cb_sats (n : nat) (s : Z) (sat_mask : Z) (es : list bias_entry) (st : astate) : outcome astate :=
    match n with
    | O => Ok st
    | S n' =>
        if Z.testbit sat_mask s then
          st1 <- put KU 8 (fst st) (snd st) s sat_bits ;;
          let num_biases := cb_count s es in
          if 31 <? num_biases then Err CapacityExceeded
          else
            st2 <- put KU 8 (fst st1) (snd st1) num_biases 5 ;;
            st3 <- cb_put_entries st2 s es ;;
            cb_sats n' (s + 1) sat_mask es st3
        else cb_sats n' (s + 1) sat_mask es st
    end.

  Definition cb_encode (st : astate) (v : val) : outcome astate :=
    match v with
    | VList l =>
        match entries_of_vals l with
        | None => Panic
        | Some es =>
            if cap <? zlen es then Panic else        (* DataVec<_, cap> cannot hold more: not constructible *)
            '(sat_mask, sat_num) <- cb_mask es 0 0 ;;
            if 63 <? sat_num then Err CapacityExceeded
            else
              st1 <- put KU 8 (fst st) (snd st) sat_num 6 ;;
              cb_sats (Z.to_nat (max_sat + 1)) 0 sat_mask es st1
        end
    | _ => Panic
    end.

  (** inner loop of decode: bias_num entries of one satellite *)
  Fixpoint cb_dec_entries (n : nat) (sat : Z) (data : list Z) (off : Z) (acc : list bias_entry)
    : outcome (list bias_entry * Z) :=
    match n with
    | O => Ok (acc, off)
    | S n' =>
        '(id, off1) <- parse KU 8 data off 5 ;;
        match to_sig table id with
        | Some sg =>
            '(b, off2) <- parse KI 16 data off1 14 ;;
            if cap <=? zlen acc then Err CapacityExceeded
            else cb_dec_entries n' sat data off2
                   (acc ++ [{| be_sat := sat; be_sig := sg; be_bias := bias_dequant f32_0_01 b |}])
        | None => cb_dec_entries n' sat data off1 acc
        end
    end.

  Fixpoint cb_dec_sats (n : nat) (data : list Z) (off : Z) (acc : list bias_entry)
    : outcome (list bias_entry * Z) :=
    match n with
    | O => Ok (acc, off)
    | S n' =>
        '(sat, off1) <- parse KU 8 data off sat_bits ;;
        '(bias_num, off2) <- parse KU 8 data off1 5 ;;
        '(acc', off3) <- cb_dec_entries (Z.to_nat bias_num) sat data off2 acc ;;
        cb_dec_sats n' data off3 acc'
    end.

  Definition cb_decode (data : list Z) (off : Z) : outcome (val * Z) :=
    '(sat_num, off1) <- parse KU 8 data off 6 ;;
    '(es, off2) <- cb_dec_sats (Z.to_nat sat_num) data off1 [] ;;
    Ok (VList (map val_of_entry es), off2).
End CodeBias.

(** ---------- 1230 ---------- *)
Definition glo1230_bit (s : Z * Z) : option Z :=
  let '(b, a) := s in
  if (b =? 1) && (a =? 67) then Some 3          (* (1,'C') *)
  else if (b =? 1) && (a =? 80) then Some 2     (* (1,'P') *)
  else if (b =? 2) && (a =? 67) then Some 1     (* (2,'C') *)
  else if (b =? 2) && (a =? 80) then Some 0     (* (2,'P') *)
  else None.

Definition e1230_of_val (v : val) : option ((Z * Z) * Z) :=
  match v with
  | VStruct [VSig b c; VF32 x] => Some ((b, c), x)
  | _ => None
  end.
Fixpoint es1230_of_vals (l : list val) : option (list ((Z * Z) * Z)) :=
  match l with
  | [] => Some []
  | v :: r => match e1230_of_val v, es1230_of_vals r with
              | Some e, Some es => Some (e :: es)
              | _, _ => None
              end
  end.

(** stable insertion sort by a comparison (model of sort_unstable_by on distinct keys) *)
Section Sort.
  Context {A : Type} (cmp : A -> A -> comparison).
  Fixpoint insert_sorted (x : A) (l : list A) : list A :=
    match l with
    | [] => [x]
    | y :: r => match cmp x y with Lt => x :: l | _ => y :: insert_sorted x r end
    end.
  Definition sort_by (l : list A) : list A := fold_left (fun acc x => insert_sorted x acc) l [].
End Sort.

Fixpoint b1230_mask (glo : sigtable) (es : list ((Z * Z) * Z)) (mask : Z) : outcome Z :=
  match es with
  | [] => Ok mask
  | (s, _) :: r =>
      match glo1230_bit s with
      | Some k => b1230_mask glo r (Z.setbit mask k)
      | None => Err InvalidSignalId
      end
  end.

Fixpoint b1230_put (st : astate) (es : list ((Z * Z) * Z)) : outcome astate :=
  match es with
  | [] => Ok st
  | (_, x) :: r =>
      st1 <- put KI 16 (fst st) (snd st) (bias_quant f32_0_02 x) 16 ;;
      b1230_put st1 r
  end.

Definition b1230_encode (glo : sigtable) (st : astate) (v : val) : outcome astate :=
  match v with
  | VList l =>
      match es1230_of_vals l with
      | None => Panic
      | Some es =>
          if 4 <? zlen es then Panic else
          let sorted := sort_by (fun a b => sig_cmp glo (fst a) (fst b)) es in
          mask <- b1230_mask glo sorted 0 ;;
          st1 <- put KU 8 (fst st) (snd st) mask 4 ;;
          b1230_put st1 sorted
      end
  | _ => Panic
  end.

Definition sig1230 (i : Z) : Z * Z :=
  if i =? 0 then (1, 67) else if i =? 1 then (1, 80) else if i =? 2 then (2, 67) else (2, 80).

Fixpoint b1230_dec (n : nat) (i : Z) (mask : Z) (data : list Z) (off : Z) (acc : list val)
  : outcome (list val * Z) :=
  match n with
  | O => Ok (rev acc, off)
  | S n' =>
      if Z.testbit mask (3 - i) then
        '(b, off1) <- parse KI 16 data off 16 ;;
        let s := sig1230 i in
        b1230_dec n' (i + 1) mask data off1
                  (VStruct [VSig (fst s) (snd s); VF32 (bias_dequant f32_0_02 b)] :: acc)
      else b1230_dec n' (i + 1) mask data off acc
  end.

Definition b1230_decode (data : list Z) (off : Z) : outcome (val * Z) :=
  '(mask, off1) <- parse KU 8 data off 4 ;;
  '(l, off2) <- b1230_dec 4 0 mask data off1 [] ;;
  Ok (VList l, off2).

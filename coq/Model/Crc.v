(** CRC-24Q: the *specification* of crc-any's [CRC::crc24lte_a] as used by rtcm-rs:
    generator 0x1864CFB, zero initial value, no reflection, no final xor, bit-serial, MSB first. *)
From Coq Require Import ZArith List Bool.
From RtcmModel Require Import Types.
Import ListNotations.
Open Scope Z_scope.

Definition crc_poly : Z := 8801531.   (* 0x864CFB : generator without its x^24 term *)
Definition two24 : Z := 16777216.

(** multiplication by x modulo g on 24-bit states *)
Definition mulx (s : Z) : Z :=
  let t := (2 * s) mod two24 in
  if Z.testbit s 23 then Z.lxor t crc_poly else t.

(** shift one message bit in *)
Definition crc_bit (s : Z) (b : bool) : Z :=
  let t := (2 * s) mod two24 in
  if xorb (Z.testbit s 23) b then Z.lxor t crc_poly else t.

Definition byte_bits (x : Z) : list bool :=
  [Z.testbit x 7; Z.testbit x 6; Z.testbit x 5; Z.testbit x 4;
   Z.testbit x 3; Z.testbit x 2; Z.testbit x 1; Z.testbit x 0].

Definition crc_byte (s : Z) (x : Z) : Z := fold_left crc_bit (byte_bits x) s.

Definition crc24q (d : list Z) : Z := fold_left crc_byte d 0.

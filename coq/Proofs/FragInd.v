(** Structural induction over layouts (the generated [frag_ind] is too weak for the nested lists). *)
From Coq Require Import ZArith List.
From RtcmModel Require Import Types.
Import ListNotations.

Section FragInd.
  Variable P : frag -> Prop.
  Hypothesis H_field : forall fs, P (FField fs).
  Hypothesis H_str : forall cap lb, P (FStr cap lb).
  Hypothesis H_utf8 : P FUtf8.
  Hypothesis H_b59 : P FBias1059.
  Hypothesis H_b65 : P FBias1065.
  Hypothesis H_b1230 : P FBias1230.
  Hypothesis H_struct : forall l, Forall P l -> P (FStruct l).
  Hypothesis H_lenmid : forall f1 lenf f2 elem cap, Forall P f1 -> Forall P f2 -> P elem -> P (FLenMid f1 lenf f2 elem cap).
  Hypothesis H_veclen : forall elem cap lb, P elem -> P (FVecLen elem cap lb).
  Hypothesis H_grid : forall elem, P elem -> P (FGrid16 elem).
  Hypothesis H_msm : forall g a b, P (FMsm g a b).

  Fixpoint frag_ind' (f : frag) : P f :=
    match f with
    | FField fs => H_field fs
    | FStr cap lb => H_str cap lb
    | FUtf8 => H_utf8
    | FBias1059 => H_b59
    | FBias1065 => H_b65
    | FBias1230 => H_b1230
    | FStruct l =>
        H_struct l ((fix go (l : list frag) : Forall P l :=
                       match l with [] => Forall_nil P | x :: r => Forall_cons x (frag_ind' x) (go r) end) l)
    | FLenMid f1 lenf f2 elem cap =>
        H_lenmid f1 lenf f2 elem cap
          ((fix go (l : list frag) : Forall P l :=
              match l with [] => Forall_nil P | x :: r => Forall_cons x (frag_ind' x) (go r) end) f1)
          ((fix go (l : list frag) : Forall P l :=
              match l with [] => Forall_nil P | x :: r => Forall_cons x (frag_ind' x) (go r) end) f2)
          (frag_ind' elem)
    | FVecLen elem cap lb => H_veclen elem cap lb (frag_ind' elem)
    | FGrid16 elem => H_grid elem (frag_ind' elem)
    | FMsm g a b => H_msm g a b
    end.
End FragInd.

"""Codec-level properties: C01 C02 C07 C08 C09 C10 C11 C12 C14 C15 C16 C17 C18 C20 (generators and probes)."""
import os, re, json, math
from .common import *
from . import genframe as gf
from . import valtext as vt
from .genmsg import Gen, INT_RANGE, num_value
from .props import Prop, register, tagged, TB_COMMON


# ---------- bit helpers ----------
def get_bits(data, off, w):
    v = 0
    for k in range(off, off + w):
        v = (v << 1) | ((data[k // 8] >> (7 - k % 8)) & 1)
    return v


def set_bits(data, off, w, v):
    b = bytearray(data)
    for j in range(w):
        k = off + j
        bit = (v >> (w - 1 - j)) & 1
        if bit:
            b[k // 8] |= 0x80 >> (k % 8)
        else:
            b[k // 8] &= ~(0x80 >> (k % 8)) & 0xFF
    return bytes(b)


def frame_of_payload(n, rng, length, fill="rand"):
    """payload with message number n in the first 12 bits, the rest per fill"""
    if length < 2:
        return mkframe(bytes(length))
    if fill == "zero":
        body = bytearray(length)
    elif fill == "ones":
        body = bytearray([0xFF] * length)
    else:
        body = bytearray(rng.getrandbits(8) for _ in range(length))
    body[0] = (n >> 4) & 0xFF
    body[1] = ((n & 15) << 4) | (body[1] & 0x0F)
    return mkframe(bytes(body))


def get_gen(ctx):
    if not hasattr(ctx, "_gen"):
        ctx._gen = Gen(ctx.tables, ctx.rng)
    return ctx._gen


def supported_numbers(ctx):
    """the set of message features msgNNNN declared in Cargo.toml (independent of the message! table)"""
    out = set()
    for k in ctx.tables["cargo_features"]:
        if k.startswith("msg") and k[3:].isdigit():
            out.add(int(k[3:]))
    return out


def outcome_class(res):
    """classify a DECODE result line"""
    t = res.split(" ")[0]
    if t.startswith("VMsgNotSupported("):
        return "unsupp"
    if t.startswith("VMsg"):
        return "typed"
    if t == "VCorrupt":
        return "corrupt"
    if t == "VEmpty":
        return "empty"
    return "other"


# =====================================================================================
@register
class C14(Prop):
    id = "C14"
    module = "C14"
    theorems = ["C14_table_ok", "C14_empty", "C14_empty_bytes", "C14_classify", "C14_number", "C14_build_needs_number", "C14_supported_are_features"]
    table_obligations = ["messages_ok"]
    rule = ("DECODE for every message number 0..4095 with payload shapes {2 bytes, 8 bytes, 200 zero bytes, 200 0xFF bytes, random} plus payloads of 0 and 1 bytes; "
            "ENCODE of a generated message of every typed variant (number on the wire); non-trivial = distinct frames with a payload of >= 2 bytes")

    def gen(self, ctx):
        rng = ctx.rng
        ops = []
        shapes = [(2, "zero"), (8, "rand")] if ctx.tier == "quick" else [(2, "zero"), (8, "rand"), (200, "zero"), (200, "ones"), (1023, "rand"), (40, "rand")]
        for n in range(4096):
            for ln, fill in shapes:
                ops.append("DECODE %s #n%d" % (hx(frame_of_payload(n, rng, ln, fill)), n))
        sup = sorted(supported_numbers(ctx))
        for n in sup:
            for ln, fill in [(200, "zero"), (200, "ones"), (rng.randint(2, 300), "rand")]:
                ops.append("DECODE %s #n%d" % (hx(frame_of_payload(n, rng, ln, fill)), n))
        for L in (0, 1):
            for _ in range(5):
                f = mkframe(bytes(rng.getrandbits(8) for _ in range(L)))
                ops.append("DECODE %s #short" % hx(f))
                ops.append("DECODE %s #short" % hx(f + bytes(rng.getrandbits(8) for _ in range(rng.choice([1, 2, 9])))))
        g = get_gen(ctx)
        for n in g.numbers:
            ops.append("ENCODE %s" % g.gen_msg(n, "valid", n=1))
        # the reverse direction on a builder that is reused (every fourth type after three others, and after a refused message)
        ms = [g.gen_msg(n, "valid", n=1) for n in g.numbers]
        for k in range(0, len(ms), 4):
            ops.append("BUILDSEQ " + " ".join(["VEmpty"] + ms[k:k + 4]))
        return ops

    def probe(self, op, res, ctx):
        toks, tag = tagged(op)
        if toks[0] == "BUILDSEQ":
            for m, r in zip(toks[1:], res.split(" ; ")):
                if m.startswith("VMsg") and not m.startswith("VMsgNot") and r.startswith("OK "):
                    n = int(m[4:m.index("(")])
                    f = unhex(r[3:])
                    got = (f[3] << 4) | (f[4] >> 4)
                    if got != n:
                        return "on a reused builder, variant Msg%d is encoded under number %d" % (n, got)
            return None
        if toks[0] == "DECODE":
            d = unhex(toks[1])
            L = ((d[1] & 3) << 8) | d[2]
            cls = outcome_class(res)
            if res.startswith("PANIC"):
                return None   # C02's business
            if L < 2:
                return None if cls == "empty" else "payload shorter than two bytes did not decode to Empty: %s" % res[:50]
            if cls == "empty":
                return "payload of %d bytes decoded to Empty" % L
            n = (d[3] << 4) | (d[4] >> 4)
            sup = supported_numbers(ctx)
            if n not in sup:
                want = "VMsgNotSupported(T{i%d})" % n
                if res.split(" ")[0] != want:
                    return "number %d is not a message feature but decoded to %s" % (n, res[:50])
            else:
                if cls == "corrupt":
                    return None
                if cls != "typed" or not res.startswith("VMsg%d(" % n):
                    return "number %d decoded to a variant of another number / outcome: %s" % (n, res[:50])
        elif toks[0] == "ENCODE":
            m = toks[1]
            n = int(m[4:m.index("(")])
            if res.startswith("OK "):
                f = unhex(res[3:])
                got = (f[3] << 4) | (f[4] >> 4)
                if got != n:
                    return "variant Msg%d is encoded under number %d" % (n, got)
            elif res.startswith("BADVAL"):
                return "typed variant Msg%d is not known to the message enum: %s" % (n, res[:60])
        return None

    def nontrivial(self, op, res):
        return not op.endswith("#short")


# =====================================================================================
def long_messages(ctx):
    """messages whose frames are close to the 1029-byte limit"""
    g = get_gen(ctx)
    out = []
    t59 = g.ssr["1059"]
    t65 = g.ssr["1065"]

    def bias_msg(num, table, counts):
        ents = []
        for s, k in enumerate(counts):
            for i in range(k):
                b, c, _ = table[i % len(table)]
                ents.append("T{i%d,G%d:%d,f%08x}" % (s, b, c, f32_bits(((i * 7 + s) % 90 - 40) * 0.01)))
        return "VMsg%d(T{i1,i2,i1,i3,i4,i5,L[%s]})" % (num, ",".join(ents[:390]))
    # 1059 at capacity with the most satellites: 63 satellites, 390 entries (the longest frame the crate can emit)
    out.append(bias_msg(1059, t59, [7] * 12 + [6] * 51))
    out.append(bias_msg(1059, t59, [7] * 11 + [6] * 52))
    out.append(bias_msg(1059, t59, [12] * 32 + [6]))
    out.append(bias_msg(1059, t59, [6] * 63))
    if 1065 in g.layouts:
        out.append(bias_msg(1065, t65, [12] * 32 + [0]))
        out.append(bias_msg(1065, t65, [13] * 6 + [12] * 26))
    for num in (1057, 1063, 1060, 1066, 1058, 1064):
        if num in g.layouts:
            lists = g.find_lists(g.layouts[num])
            cap = max([c for _, k, c, _ in lists if k in ("veclen", "lenmid")] or [1])
            out.append(g.gen_msg(num, "valid", n=cap))
            out.append(g.gen_msg(num, "valid", n=cap - 1))
    return out


def failing_messages(ctx):
    """messages that fail at different depths of encoding"""
    g = get_gen(ctx)
    rng = ctx.rng
    out = ["VEmpty", "VCorrupt", "VMsgNotSupported(T{i77})"]
    # fail at the last element of a long list: a biased integer below its bias
    for num in (1009, 1010, 1011, 1012):
        if num not in g.layouts:
            continue
        m = vt.parse_msg(g.gen_msg(num, "valid", n=rng.choice([2, 10, 20])))
        lst = m[2][1][-1][1]
        if lst:
            el = lst[-1][1]
            # element field index 2 is the frequency channel (df040: i8, bias -7)
            el[2] = ("i", -8)
        out.append(vt.show_msg(m))
    if 1020 in g.layouts:
        m = vt.parse_msg(g.gen_msg(1020, "valid"))
        m[2][1][1] = ("i", -8)
        out.append(vt.show_msg(m))
    if 1029 in g.layouts:
        out.append("VMsg1029(T{i1,i2,i3,C%s})" % ".".join(["233"] * 127 + ["97"]))
    for n in rng.sample(g.msm_numbers(), 3):
        out.append(g.gen_msg(n, "valid", msm_force="dupcell"))
        out.append(g.gen_msg(n, "valid", msm_force="toomany"))
    for n in rng.sample(g.numbers, 8):
        out.append(g.gen_msg(n, "hostile"))
    return out


@register
class C12(Prop):
    id = "C12"
    module = "C12"
    theorems = ["C12_history", "C12_history_fold", "C12_inv_reachable"]
    rule = ("BUILDSEQ: histories of 0..6 builds with one builder drawn from a pool (every message type, frames near the 1029-byte limit, messages failing at the first "
            "field / part-way / late), every result compared with a fresh builder's; non-trivial = distinct histories of length >= 2")

    def gen(self, ctx):
        rng = ctx.rng
        g = get_gen(ctx)
        pool_ok = [g.gen_msg(n, "valid", n=rng.choice([0, 1, 2, 3])) for n in g.numbers]
        longs = long_messages(ctx)
        fails = failing_messages(ctx)
        pool = pool_ok + longs + fails
        ops = []
        for m in pool:
            ops.append("ENCODE " + m)
        nh = 600 if ctx.tier == "quick" else 5000
        for _ in range(nh):
            k = rng.choice([1, 2, 2, 3, 3, 4, 6])
            hist = []
            for _ in range(k):
                r = rng.random()
                hist.append(rng.choice(fails) if r < 0.3 else rng.choice(longs) if r < 0.45 else rng.choice(pool_ok))
            hist.append(rng.choice(pool_ok) if rng.random() < 0.8 else rng.choice(longs))
            ops.append("BUILDSEQ " + " ".join(hist))
        # long-then-long pairs, and failing-then-short
        for a in longs:
            for b in longs:
                ops.append("BUILDSEQ %s %s" % (a, b))
        for a in fails:
            for b in rng.sample(pool_ok, 3):
                ops.append("BUILDSEQ %s %s" % (a, b))
        # very long histories: the same refused message 255 .. 65537 times, then a long frame, then a short target whose last
        # payload byte has padding bits (a counter that wraps shows only here); implementation only
        targets = [m for m in pool_ok if m.startswith("VMsg1042(") or m.startswith("VMsg1001(") or m.startswith("VMsg1074(")][:3]
        for n_ in (255, 256, 257, 65535, 65536, 65537):
            for tg in targets:
                ops.append("BUILDREP %d VEmpty %s %s" % (n_, longs[0], tg))
        return ops

    def proj(self, op, res):
        return None if op.startswith("BUILDREP ") else res      # the model does not run BUILDREP

    def probes(self, ops, rel, chk, ctx):
        out = []
        for res in (rel, chk):
            fresh = {}
            for i, o in enumerate(ops):
                if o.startswith("ENCODE "):
                    fresh[o[7:]] = res[i]
            for i, o in enumerate(ops):
                if o.startswith("BUILDREP "):
                    t = o.split(" ")
                    rs = res[i].split(" ; ")
                    for j, m_ in enumerate(t[3:5]):
                        if m_ in fresh and (j >= len(rs) or fresh[m_] != rs[j]):
                            out.append((i, "after %s refused builds on one builder, build %d gave '%s...' but a fresh builder gives '%s...' (message %s...)" % (
                                t[1], j + 1, _diffpos(rs[j] if j < len(rs) else "", fresh[m_]), fresh[m_][:24], m_[:30])))
                            break
            for i, o in enumerate(ops):
                if not o.startswith("BUILDSEQ "):
                    continue
                msgs = o.split(" ")[1:]
                rs = res[i].split(" ; ")
                for j, r in enumerate(rs):
                    if j < len(msgs) and msgs[j] in fresh and fresh[msgs[j]] != r:
                        out.append((i, "build %d of a history on a reused builder gave '%s...' but a fresh builder gives '%s...' (message %s...)" % (
                            j, _diffpos(r, fresh[msgs[j]]), fresh[msgs[j]][:24], msgs[j][:30])))
                        break
            if out:
                break
        return out

    def nontrivial(self, op, res):
        return op.startswith("BUILDSEQ") and op.count(" VM") + op.count(" VE") + op.count(" VC") >= 2


def _diffpos(a, b):
    k = 0
    while k < min(len(a), len(b)) and a[k] == b[k]:
        k += 1
    return "%s[differs at char %d: %s vs %s]" % (a[:24], k, a[k:k + 8], b[k:k + 8])


# =====================================================================================
KINDS = [("U", 8), ("U", 16), ("U", 32), ("U", 64), ("I", 8), ("I", 16), ("I", 32), ("I", 64), ("SM", 8), ("SM", 16), ("SM", 32), ("SM", 64)]


def enc_pattern(kind, w, v):
    if kind == "U":
        return v & ((1 << w) - 1)
    if kind == "I":
        return v & ((1 << w) - 1)
    if v >= 0:
        return v
    return (1 << (w - 1)) | (-v)


def dec_pattern(kind, w, p):
    if kind == "U":
        return p
    if kind == "I":
        return p - (1 << w) if p >> (w - 1) else p
    mag = p & ((1 << (w - 1)) - 1)
    return -mag if p >> (w - 1) else mag


def value_range(kind, w):
    if kind == "U":
        return 0, (1 << w) - 1
    if kind == "I":
        return -(1 << (w - 1)), (1 << (w - 1)) - 1
    return -((1 << (w - 1)) - 1), (1 << (w - 1)) - 1


@register
class C07(Prop):
    id = "C07"
    module = "C07"
    theorems = ["C07_put_bits", "C07_put_overflow", "C07_parse_bits", "C07_roundtrip", "C07_parse_overflow", "C07_no_panic"]
    rule = ("PUT/PARSE through the hook: 12 carrier kinds x widths 1..carrier x offsets 0..79 x values {boundary, one-hot, random; all values for widths <= 6 (thorough: <= 12)} "
            "x backgrounds {zeros, ones, random}, and reads/writes ending 1..16 bits past the end of the buffer; non-trivial = distinct operations")

    def gen(self, ctx):
        rng = ctx.rng
        ops = []
        full = ctx.tier == "thorough"
        for kind, bits in KINDS:
            name = kind + str(bits)
            for w in range(1, bits + 1):
                lo, hi = value_range(kind, w)
                offs = list(range(0, 17)) + rng.sample(range(17, 80), 3) if not full else range(0, 80)
                if not full and w > 16:
                    offs = rng.sample(list(offs), 8)
                for off in offs:
                    vals = {lo, hi, 0, 1 if hi >= 1 else 0, -1 if lo < 0 else 0, rng.randint(lo, hi), rng.randint(lo, hi)}
                    oh = 1 << rng.randrange(w)
                    vals.add(oh if oh <= hi else hi)
                    if w <= (12 if full else 5) and off < 9:
                        vals |= set(range(lo, hi + 1))
                    nbytes = (off + w + 7) // 8 + rng.choice([0, 0, 1, 3])
                    for v in vals:
                        bg = rng.choice(["00", "ff", "r"])
                        data = bytes(nbytes) if bg == "00" else bytes([0xFF] * nbytes) if bg == "ff" else bytes(rng.getrandbits(8) for _ in range(nbytes))
                        ops.append("PUT %s %d %d %d %s" % (name, w, off, v, hx(data)))
                        p = enc_pattern(kind, w, v)
                        d2 = set_bits(data, off, w, p)
                        ops.append("PARSE %s %d %d %s" % (name, w, off, hx(d2)))
                # overflow: the field ends 1..16 bits past the end of the buffer
                for over in ([1, 2, 7, 8, 9, 16] if not full else range(1, 17)):
                    nbytes = rng.choice([1, 2, 3, 9])
                    off = nbytes * 8 + over - w
                    if off < 0:
                        continue
                    data = bytes(rng.getrandbits(8) for _ in range(nbytes))
                    ops.append("PARSE %s %d %d %s" % (name, w, off, hx(data)))
                    ops.append("PUT %s %d %d %d %s" % (name, w, off, rng.randint(lo, hi), hx(data)))
            # aligned octet exactly at / beyond the end
            for nbytes in (0, 1, 2, 5):
                data = bytes(rng.getrandbits(8) for _ in range(nbytes))
                for w in (8, min(16, bits), 1):
                    ops.append("PARSE %s %d %d %s" % (name, w, nbytes * 8, hx(data)))
                    ops.append("PUT %s %d %d %d %s" % (name, w, nbytes * 8, 1, hx(data)))
        return ops

    def probe(self, op, res, ctx):
        toks = op.split(" ")
        kind = toks[1].rstrip("0123456789")
        w, off = int(toks[2]), int(toks[3])
        if toks[0] == "PUT":
            v = int(toks[4])
            data = unhex(toks[5])
            if 8 * len(data) < off + w:
                want = "ERR BufferOverflow %s %d" % (hx(data), off)
                return None if res == want else "write past the end of the buffer: expected '%s', got '%s'" % (want[:60], res[:60])
            want = "OK %s %d" % (hx(set_bits(data, off, w, enc_pattern(kind, w, v))), off + w)
            return None if res == want else "PUT %s w=%d off=%d v=%d wrote %s, expected %s" % (toks[1], w, off, v, res[:70], want[:70])
        if toks[0] == "PARSE":
            data = unhex(toks[4])
            if 8 * len(data) < off + w:
                want = "ERR BufferOverflow %d" % off
                return None if res == want else "read past the end of the buffer: expected '%s', got '%s'" % (want, res[:60])
            want = "OK %d %d" % (dec_pattern(kind, w, get_bits(data, off, w)), off + w)
            return None if res == want else "PARSE %s w=%d off=%d returned %s, expected %s" % (toks[1], w, off, res[:50], want)
        return None

    def nontrivial(self, op, res):
        return True


# =====================================================================================

# ---------- the three hand-written bias codecs, pattern by pattern ----------
def _bias_patterns(w, rng, full, n_random):
    if full:
        return list(range(1 << w))
    top = 1 << (w - 1)
    ps = {0, 1, 2, 3, top - 1, top - 2, top, top + 1, top + 2, (1 << w) - 1, (1 << w) - 2, (1 << w) - 3}
    ps |= {1 << i for i in range(w)} | {((1 << w) - 1) ^ (1 << i) for i in range(w)}
    ps |= {rng.randrange(1 << w) for _ in range(n_random)}
    return sorted(ps)


def bias_expected_bits(p, w, res):
    """(pattern as iN as f32) * res, computed exactly: the product of two f32 is exact in f64, then one rounding"""
    v = p - (1 << w) if p >= 1 << (w - 1) else p
    return f32_bits(float(v) * bits_f32(f32_bits(res)))


def bias_pattern_ops(ctx, full=False, n_random=300):
    """REDECODE of hand-built CRC-valid 1059 / 1065 / 1230 frames whose bias fields run through bit patterns
    (boundary patterns and a random sample; every pattern when [full]).  The frames are canonical (satellites
    ascending, exact counts, zero padding), so the re-encoded frame must be the frame itself."""
    g = get_gen(ctx)
    rng = ctx.rng
    ops = []
    for num, sat_bits in ((1059, 6), (1065, 5)):
        if num not in g.layouts:
            continue
        hb = 12 + sum(g.fields[f["id"]]["len"] for _, f in g.layouts[num]["fields"] if f["k"] == "field")
        table = g.ssr[str(num)]
        per_sat = min(31, len(table))
        pats = _bias_patterns(14, rng, full, n_random)
        chunk = 12 * per_sat
        for c0 in range(0, len(pats), chunk):
            ps = pats[c0:c0 + chunk]
            nsat = (len(ps) + per_sat - 1) // per_sat
            bits = [(6, nsat)]
            for s in range(nsat):
                mine = ps[s * per_sat:(s + 1) * per_sat]
                bits.append((sat_bits, s))
                bits.append((5, len(mine)))
                for i, pt in enumerate(mine):
                    bits.append((5, table[i][2]))
                    bits.append((14, pt))
            total = hb + sum(wd for wd, _ in bits)
            b = bytes(set_bits(bytes((total + 7) // 8), 0, 12, num))
            off = hb
            for wd, v in bits:
                b = set_bits(b, off, wd, v)
                off += wd
            ops.append("REDECODE %s #biaspat:%d:%s" % (hx(mkframe(bytes(b))), num, ",".join("%x" % x for x in ps)))
    if 1230 in g.layouts:
        hb = 12 + sum(g.fields[f["id"]]["len"] for _, f in g.layouts[1230]["fields"] if f["k"] == "field")
        pats = _bias_patterns(16, rng, full, n_random)
        for c0 in range(0, len(pats), 4):
            ps = pats[c0:c0 + 4]
            mask = [0b1000, 0b1100, 0b1110, 0b1111][len(ps) - 1]
            total = hb + 4 + 16 * len(ps)
            b = bytes(set_bits(bytes((total + 7) // 8), 0, 12, 1230))
            b = set_bits(b, hb, 4, mask)
            for i, pt in enumerate(ps):
                b = set_bits(b, hb + 4 + 16 * i, 16, pt)
            ops.append("REDECODE %s #biaspat:1230:%s" % (hx(mkframe(bytes(b))), ",".join("%x" % x for x in ps)))
    return ops


def bias_pattern_probe(op, res):
    """-> message | None for a '#biaspat' operation"""
    toks, tag = tagged(op)
    _, num, plist = tag.split(":")
    num = int(num)
    ps = [int(x, 16) for x in plist.split(",")]
    w, step = (16, 0.02) if num == 1230 else (14, 0.01)
    if res.startswith("PANIC") or res.startswith("HANG") or res.startswith("CRASH"):
        return "decoding or re-encoding a %d frame panicked" % num
    if not res.startswith("D1 VMsg%d(" % num):
        return "a canonical %d frame (bias patterns %s..) decodes to %s" % (num, plist[:20], res[:30])
    d1 = vt.parse_msg(res.split(" ")[1])
    ents = d1[2][1][-1][1]
    if len(ents) != len(ps):
        return "%d: %d entries on the wire, %d decoded" % (num, len(ps), len(ents))
    for e, pt in zip(ents, ps):
        got = e[1][-1][1]
        want = bias_expected_bits(pt, w, step)
        if got != want:
            return "%d: bias pattern %x decodes to %r, expected %r" % (num, pt, bits_f32(got), bits_f32(want))
    if " E1ERR " in res:
        return "%d: the decoded message (bias patterns %s..) is refused by the encoder: %s" % (num, plist[:20], res.split(" E1ERR ")[1][:30])
    if "FRAMEERR" in res:
        return "%d: re-encoding the decoded message gave an invalid frame" % num
    e1 = res.split(" E1 ")[1].split(" ")[0]
    if e1 != toks[1]:
        # name the first pattern that does not come back
        if " D2EQ true" not in res and " D2 " in res:
            d2 = vt.parse_msg(res.split(" D2 ")[1].split(" ")[0])
            if d2[0] == "Msg":
                for e, e2, pt in zip(ents, d2[2][1][-1][1], ps):
                    if e[1][-1][1] != e2[1][-1][1]:
                        return "%d: bias pattern %x decodes to %r, which encodes to a pattern that decodes to %r" % (
                            num, pt, bits_f32(e[1][-1][1]), bits_f32(e2[1][-1][1]))
        return "%d: re-encoding the message decoded from a canonical frame does not reproduce the frame (bias patterns %s..)" % (num, plist[:20])
    if " D2EQ true" not in res:
        return "%d: a decoded message is not a fixed point of encode/decode" % num
    return None


def field_pattern_of_carrier(fd, c):
    """bit pattern (w bits) of a carrier value"""
    return enc_pattern(fd["ck"], fd["len"], c)


def field_patterns(fd, rng, n_random):
    w = fd["len"]
    full = (1 << w) - 1
    ps = {0, 1, 2, 3, full, full - 1, 1 << (w - 1), (1 << (w - 1)) - 1, (1 << (w - 1)) + 1 if w > 1 else 0}
    if fd["inv"] is not None:
        ip = field_pattern_of_carrier(fd, fd["inv"])
        ps |= {ip, (ip + 1) & full, (ip - 1) & full}
    for k in range(w):
        ps.add(1 << k)
    for _ in range(n_random):
        ps.add(rng.getrandbits(w))
    return sorted(p & full for p in ps)


@register
class C08(Prop):
    id = "C08"
    nostd = True          # also run on the library built without its `std` feature
    module = "C08"
    theorems = ["C08_rows_ok", "C08_layout_fields_ok", "C08_carrier_roundtrip", "C08_field", "C08_absent", "C08_value_roundtrip", "C08_bias_0_01", "C08_bias_0_02"]
    table_obligations = []
    rule = ("per df! row of the regenerated table: FDEC of patterns {0,1,2,3, all-ones, sign bit and neighbours, every one-hot, the invalid marker and its neighbours, random} "
            "(thorough: every pattern of rows up to 16 bits), then FENC of each decoded value; REDECODE of canonical 1059/1065/1230 frames with every boundary bias pattern (thorough: every pattern); non-trivial = distinct (row, pattern) pairs")

    def gen(self, ctx):
        rng = ctx.rng
        g = get_gen(ctx)
        first = []
        meta = []
        for fd in ctx.tables["fields"]:
            if fd["dt"] == "usize":
                continue
            w = fd["len"]
            if ctx.tier == "thorough" and w <= 16:
                ps = range(1 << w)
            else:
                ps = field_patterns(fd, rng, 24 if ctx.tier == "quick" else 4000)
            for p in ps:
                first.append("FDEC %s %x %d" % (fd["id"], p, w))
                meta.append((fd, p))
        r1 = ctx.run_impl(first, "chk", "c08a")
        ops = []
        for o, r, (fd, p) in zip(first, r1, meta):
            ops.append(o)
            if r.startswith("OK "):
                val = r.split(" ")[1]
                ops.append("FENC %s %s #p=%x" % (fd["id"], val, p))
        for fd in ctx.tables["fields"]:
            if fd["inv"] is not None:
                ops.append("FENC %s N #absent" % fd["id"])
        # the three hand-written bias fields (1059 / 1065: 14 bits, 0.01 m; 1230: 16 bits, 0.02 m), through whole frames
        ops += bias_pattern_ops(ctx, full=(ctx.tier == "thorough"), n_random=300)
        return ops

    def probe(self, op, res, ctx):
        toks, tag = tagged(op)
        if tag and tag.startswith("biaspat"):
            return bias_pattern_probe(op, res)
        g = get_gen(ctx)
        fd = g.fields[toks[1]]
        w = fd["len"]
        if toks[0] == "FDEC":
            p = int(toks[2], 16)
            if not res.startswith("OK "):
                return "decoding pattern %x of %s failed: %s" % (p, fd["id"], res[:40])
            val = res.split(" ")[1]
            if fd["inv"] is not None:
                ip = field_pattern_of_carrier(fd, fd["inv"])
                if (p == ip) != (val == "N"):
                    return "%s: pattern %x decodes to %s but the absent pattern is %x" % (fd["id"], p, val, ip)
            v = vt.parse(val)
            for k, b in vt.floats_of(v):
                if not vt.is_finite_bits(k, b):
                    return "%s: pattern %x decodes to a non-finite value" % (fd["id"], p)
        elif toks[0] == "FENC":
            if tag == "absent":
                ip = field_pattern_of_carrier(fd, fd["inv"])
                want = "OK %x %d" % (ip, w)
                return None if res == want else "%s: absent encodes to '%s', expected '%s'" % (fd["id"], res, want)
            p = int(tag[2:], 16)
            want = "OK %x %d" % (p, w)
            if res == want:
                return None
            if fd["ck"] == "SM" and p == 1 << (w - 1) and res == "OK 0 %d" % w:
                return None
            return "%s: pattern %x decodes to %s which encodes back to '%s'" % (fd["id"], p, toks[2], res)
        return None

    def nontrivial(self, op, res):
        return op.startswith("FDEC") or op.startswith("REDECODE")


@register
class C11(Prop):
    id = "C11"
    nostd = True          # also run on the library built without its `std` feature
    module = "C11"
    theorems = ["C11_rows_ok", "C11_nearest_f32", "C11_monotone_f32", "C11_nearest_f64", "C11_monotone_f64",
                "C11_bias_rows_ok", "C11_bias_nearest_0_01", "C11_bias_nearest_0_02", "C11_bias_monotone_0_01", "C11_bias_monotone_0_02"]
    partial_note = None
    rule = ("per scaled (float-typed) df! row: adjacent patterns n, n+1 over the whole range (range ends, around zero, random), their decoded values by FDEC, then FENC of reals between them: "
            "the floats either side of the half step, the end points, random interior points; non-trivial = distinct (row, real) pairs strictly between two grid points")

    def gen(self, ctx):
        rng = ctx.rng
        g = get_gen(ctx)
        first = []
        meta = []
        for fd in ctx.tables["fields"]:
            if fd["dt"] not in ("f32", "f64") or fd["res"] is None:
                continue
            w = fd["len"]
            lo, hi = g.pattern_range(fd)
            ns = {lo, hi - 1, -1 if lo < 0 else 0, 0, 1, -2 if lo < -1 else 0, (lo + hi) // 2}
            for _ in range(6 if ctx.tier == "quick" else 300):
                ns.add(rng.randint(lo, hi - 1))
            for n in sorted(ns):
                if n < lo or n + 1 > hi:
                    continue
                if fd["inv"] is not None and (n == fd["inv"] or n + 1 == fd["inv"]):
                    continue
                for c in (n, n + 1):
                    first.append("FDEC %s %x %d" % (fd["id"], field_pattern_of_carrier(fd, c), w))
                meta.append((fd, n))
        r1 = ctx.run_impl(first, "chk", "c11a")
        ops = []
        for j, (fd, n) in enumerate(meta):
            a, b = r1[2 * j], r1[2 * j + 1]
            if not (a.startswith("OK ") and b.startswith("OK ")):
                continue
            va, vb = vt.parse(a.split(" ")[1]), vt.parse(b.split(" ")[1])
            if va[0] == "S":
                va, vb = va[1], vb[1]
            k = va[0]
            xa = bits_f32(va[1]) if k == "f" else bits_f64(va[1])
            xb = bits_f32(vb[1]) if k == "f" else bits_f64(vb[1])
            if not (xa < xb):
                ops.append("FDEC %s %x %d #order:%d" % (fd["id"], field_pattern_of_carrier(fd, n), fd["len"], n))
                continue
            mid = (xa + xb) / 2
            pts = [xa, xb, mid, mid - (xb - xa) * 1e-4, mid + (xb - xa) * 1e-4, xa + (xb - xa) * 0.25, xa + (xb - xa) * 0.75,
                   xa + (xb - xa) * rng.random(), xa + (xb - xa) * 0.4999, xa + (xb - xa) * 0.5001,
                   mid - (xb - xa) * 3e-7, mid + (xb - xa) * 3e-7, mid - (xb - xa) * 2e-9, mid + (xb - xa) * 2e-9]
            for x in pts:
                bitsx = f32_bits(x) if k == "f" else f64_bits(x)
                xr = bits_f32(bitsx) if k == "f" else bits_f64(bitsx)
                if not (xa <= xr <= xb):
                    continue
                val = ("%s%0*x" % (k, 8 if k == "f" else 16, bitsx))
                if fd["inv"] is not None:
                    val = "S(%s)" % val
                ops.append("FENC %s %s #n=%d:%r:%r" % (fd["id"], val, n, xa, xb))
        # the three hand-written bias quantisers (1059/1065: 0.01 m in 14 bits, 1230: 0.02 m in 16 bits), through the public API
        for num, res, lo, hi in ((1059, 0.01, -8192, 8191), (1065, 0.01, -8192, 8191), (1230, 0.02, -32768, 32767)):
            if num not in g.layouts:
                continue
            rf = bits_f32(f32_bits(res))
            ns = {lo, hi - 1, -1, 0, 1, -2} | {rng.randint(lo, hi - 1) for _ in range(40 if ctx.tier == "quick" else 2000)}
            for n in sorted(ns):
                xa, xb = bits_f32(f32_bits(n * rf)), bits_f32(f32_bits((n + 1) * rf))
                for fr in (0.25, 0.4, 0.49, 0.51, 0.6, 0.75, rng.random()):
                    x = bits_f32(f32_bits(xa + (xb - xa) * fr))
                    if not (xa <= x <= xb):
                        continue
                    if num == 1230:
                        m = "VMsg1230(T{i1,i0,L[T{G1:67,f%08x}]})" % f32_bits(x)
                    else:
                        m = "VMsg%d(T{i1,i2,i0,i3,i4,i5,L[T{i3,G1:67,f%08x}]})" % (num, f32_bits(x))
                    ops.append("ROUNDTRIP %s #b=%d:%r:%r:%r" % (m, n, xa, xb, res))
        return ops

    def probe(self, op, res, ctx):
        toks, tag = tagged(op)
        g = get_gen(ctx)
        if toks[0] == "ROUNDTRIP":
            n_s, xa_s, xb_s, res_s = tag[2:].split(":")
            xa, xb, rs = float(xa_s), float(xb_s), float(res_s)
            msg = vt.parse_msg(toks[1])
            x = bits_f32(msg[2][1][-1][1][0][1][-1][1])
            if not res.startswith("OK ") or " D1 VMsg" not in res:
                return "an in-range bias %r was refused or lost: %s" % (x, res[:40])
            d1 = vt.parse_msg(res.split(" D1 ")[1].split(" ")[0])
            y = bits_f32(d1[2][1][-1][1][0][1][-1][1])
            if y != xa and y != xb:
                return "bias %r lies between grid points %r and %r but comes back as %r" % (x, xa, xb, y)
            other = xb if y == xa else xa
            slack = rs * 2.0 ** (16 + 3 - 24) + abs(x) * 2.0 ** (3 - 24)
            if abs(x - y) > abs(x - other) + slack:
                return "message %d: bias %r is quantised to the farther neighbour %r (nearer: %r)" % (msg[1], x, y, other)
            return None
        fd = g.fields[toks[1]]
        w = fd["len"]
        if toks[0] == "FDEC" and tag.startswith("order"):
            return "%s: decoded values of adjacent patterns %s and the next are not increasing" % (fd["id"], tag[6:])
        if toks[0] != "FENC":
            return None
        n_s, xa_s, xb_s = tag[2:].split(":")
        n, xa, xb = int(n_s), float(xa_s), float(xb_s)
        v = vt.parse(toks[2])
        if v[0] == "S":
            v = v[1]
        x = bits_f32(v[1]) if v[0] == "f" else bits_f64(v[1])
        pn, pn1 = field_pattern_of_carrier(fd, n), field_pattern_of_carrier(fd, n + 1)
        if not res.startswith("OK "):
            return "%s: in-range real %r was refused: %s" % (fd["id"], x, res[:40])
        p = int(res.split(" ")[1], 16)
        if p not in (pn, pn1):
            # sign-magnitude: -1 -> 0 crossing uses patterns sign|1 and 0
            return "%s: %r lies between grid points %d and %d but encodes to pattern %x (neither neighbour)" % (fd["id"], x, n, n + 1, p)
        chosen, other = (xa, xb) if p == pn else (xb, xa)
        prec = 24 if fd["dt"] == "f32" else 53
        res_v = abs(num_value(fd["res"]))
        bias_v = abs(num_value(fd["bias"]) or 0.0)
        slack = res_v * 2.0 ** (w + 3 - prec) + (abs(x) + bias_v) * 2.0 ** (3 - prec)
        if abs(x - chosen) > abs(x - other) + slack:
            return "%s: %r encodes to the farther neighbour (distance %r vs %r, slack %r)" % (fd["id"], x, abs(x - chosen), abs(x - other), slack)
        return None

    def nontrivial(self, op, res):
        return op.startswith("FENC") or op.startswith("ROUNDTRIP")


# =====================================================================================
def msm_expect(g, number, msg):
    """-> ('ok', satmask, sigmask, cellmask, ncells_len, S, G, cells) or ('err', set_of_breached_classes)"""
    lay = [f for _, f in g.layouts[number]["fields"] if f["k"] == "msm"][0]
    table = {(b, c): i for b, c, i in g.sig[lay["gnss"]]}
    # where the independent table of standard positions (RTCM 10403 signal masks, used by C18) knows a descriptor, its
    # position is taken from there, not from the regenerated table
    for (b0, ch), pos in STANDARD.get(lay["gnss"], {}).items():
        if (b0, ord(ch)) in table:
            table[(b0, ord(ch))] = pos
    seg = msg[2][1][-1]
    sats = [r[1][0][1] for r in seg[1][0][1]]
    cells = [(r[1][0][1], (r[1][1][1], r[1][1][2])) for r in seg[1][1][1]]
    if not sats and not cells:
        return ("empty",)
    breached = set()
    if any(s < 1 or s > 64 for s in sats) or any(s < 1 or s > 64 for s, _ in cells):
        breached.add("InvalidSatelliteId")
    if any(sg not in table for _, sg in cells):
        breached.add("InvalidSignalId")
    if len(set(sats)) != len(sats):
        breached.add("DuplicateSatellite")
    if breached:
        return ("err", breached)
    if set(sats) != set(s for s, _ in cells):
        breached.add("SatelliteMismatch")
        return ("err", breached)
    G = sorted({table[sg] for _, sg in cells})
    if len(sats) * len(G) > 64:
        breached.add("InvalidSatelliteSignalCount")
    keys = [(s, table[sg]) for s, sg in cells]
    if len(set(keys)) != len(keys):
        breached.add("DuplicateSatelliteSignal")
    if breached:
        return ("err", breached)
    S = sorted(sats)
    satmask = sum(1 << (64 - s) for s in S)
    sigmask = sum(1 << (32 - i) for i in G)
    n = len(S) * len(G)
    cellmask = 0
    for s, i in keys:
        idx = S.index(s) * len(G) + G.index(i)
        cellmask |= 1 << (n - 1 - idx)
    return ("ok", satmask, sigmask, cellmask, n, S, G, sorted(keys))


def msm_header_bits(g, number):
    total = 12
    for _, f in g.layouts[number]["fields"]:
        if f["k"] == "msm":
            return total
        total += g.fields[f["id"]]["len"]
    return None


@register
class C10(Prop):
    id = "C10"
    nostd = True          # also run on the library built without its `std` feature
    module = "C10"
    theorems = ["C10_rejects", "C10_sat_mask_bits", "C10_mask_offsets", "C10_masks", "C10_rows", "C10_decode_ids", "C10_decode_cells", "C10_msm_specs_ok", "C10_segment_decodes",
                "C10_msm_layouts_tail", "C10_frame_decodes", "C10_decoded_order"]
    partial_note = ("partial: everything the MSM encoder accepts satisfies the property's preconditions; for every accepted input in any caller order the three masks are written first "
                    "(64 + 32 + |G|x|S| bits), the satellite mask has exactly the listed satellites' bits (= the satellites of the cells), the signal mask exactly the cells' signal "
                    "identifiers, and the cell mask exactly the bits at each cell's row-major index (rank of satellite x number of signals + rank of signal), no two cells on one index; "
                    "mask offsets 73/137/169 for all 49 layouts (table obligation); the rows the encoder writes are a permutation of the caller's rows sorted by ascending satellite / "
                    "(satellite, signal identifier), the same list for every arrangement of the input (order independence); the decoder reads identifiers of set mask bits in strictly ascending order and the cells in row-major "
                    "order; every non-empty segment the encoder accepts decodes without error, with the same masks, the listed satellites ascending, exactly the encoder's cells and as many rows as "
                    "given, consuming exactly the bits written; C10_frame_decodes: at the public API, for every builder history, the frame of an accepted MSM message with a non-empty segment is "
                    "accepted by MessageFrame::new, carries the number and get_message returns the typed message (never Corrupt) with as many rows as given; C10_decoded_order: every segment the decoder "
                    "accepts, whatever the frame, has its satellite rows in strictly ascending identifier order and its signal rows in strictly ascending (satellite, signal identifier) order, each "
                    "on a listed satellite and a recognised signal. That the decoded row contents are the encoded ones in normal form (column-wise field round trip) is covered by the "
                    "ROUNDTRIP correspondence and the probe that recomputes masks and rows independently")
    table_obligations = ["msm_mask_offsets", "sig_tables_ok"]
    rule = ("ROUNDTRIP of MSM messages of all 49 types: admissible (S, G, C) with random permutations of the satellite and cell lists, up to 64 cells, and one generator per "
            "invalid class (satellite 0 / above 64, unrecognised signal, duplicate satellite, duplicate cell, satellite rows disagreeing with cell rows, more than 64 mask cells, "
            "one list empty); masks recomputed independently from (S, G, C); boundary shapes (64x1, 63x1, 32x2, 1 x every signal, as many satellites as fit with every signal); signal positions taken from the independent standard table; non-trivial = distinct messages")

    def gen(self, ctx):
        rng = ctx.rng
        g = get_gen(ctx)
        ops = []
        nums = g.msm_numbers()
        per = 40 if ctx.tier == "quick" else 400
        classes = [None, "sat0", "sat65", "badsig", "dupsat", "dupcell", "mismatch_extra_sat", "mismatch_extra_cell", "toomany", "empty_sats", "empty_cells"]
        for n in nums:
            for _ in range(per):
                ops.append("ROUNDTRIP " + g.gen_msg(n, "valid"))
            for c in classes[1:]:
                for _ in range(1 if ctx.tier == "quick" else 20):
                    ops.append("ROUNDTRIP " + g.gen_msg(n, "valid", msm_force=c))
            # the boundary shapes: 64 satellites x 1 signal, 63 x 1, 32 x 2, 1 satellite x every signal of the constellation,
            # as many satellites as fit with every signal (all cells present)
            nt = len(g.sig[g.layouts[n]["fields"][-1][1]["gnss"]]) if g.layouts[n]["k"] == "struct" else 4
            for ns_, ng_ in ((64, 1), (63, 1), (32, 2), (1, nt), (64 // nt, nt), (21, 3)):
                ops.append("ROUNDTRIP " + g.gen_msg(n, "valid", msm_force=("shape", ns_, ng_)))
        return ops

    def proj(self, op, res):
        return res       # C10 names the error variants: compare them exactly

    def probe(self, op, res, ctx):
        toks = op.split(" ")
        g = get_gen(ctx)
        msg = vt.parse_msg(toks[1])
        number = msg[1]
        exp = msm_expect(g, number, msg)
        if res.startswith("PANIC"):
            return "the MSM round trip (encode, then decode of the emitted frame) panicked"
        if exp[0] == "err":
            if not res.startswith("ERR "):
                return "an MSM message breaking %s was encoded instead of rejected" % "/".join(sorted(exp[1]))
            if len(exp[1]) == 1 and res != "ERR " + list(exp[1])[0]:
                return "an MSM message breaking only %s was rejected with %s" % (list(exp[1])[0], res)
            return None
        if not res.startswith("OK "):
            return "an admissible MSM message was rejected: %s" % res[:60]
        parts = res.split(" ")
        frame = unhex(parts[1])
        payload = frame[3:-3]
        hb = msm_header_bits(g, number)
        if exp[0] == "empty":
            if get_bits(payload, hb, 64) != 0 or get_bits(payload, hb + 64, 32) != 0:
                return "empty MSM message has non-zero masks"
            return None
        _, satmask, sigmask, cellmask, n, S, G, keys = exp
        if get_bits(payload, hb, 64) != satmask:
            return "satellite mask %016x, expected %016x" % (get_bits(payload, hb, 64), satmask)
        if get_bits(payload, hb + 64, 32) != sigmask:
            return "signal mask %08x, expected %08x" % (get_bits(payload, hb + 64, 32), sigmask)
        if get_bits(payload, hb + 96, n) != cellmask:
            return "cell mask %x, expected %x (row-major %d x %d)" % (get_bits(payload, hb + 96, n), cellmask, len(S), len(G))
        # decoded order and sets
        if " D1 " in res:
            d1 = vt.parse_msg(res.split(" D1 ")[1].split(" ")[0])
            if d1[0] != "Msg":
                return "encoded MSM frame decodes to %s" % d1[0]
            seg = d1[2][1][-1]
            lay = [f for _, f in g.layouts[number]["fields"] if f["k"] == "msm"][0]
            table = {(b, c): i for b, c, i in g.sig[lay["gnss"]]}
            dsats = [r[1][0][1] for r in seg[1][0][1]]
            dkeys = [(r[1][0][1], table.get((r[1][1][1], r[1][1][2]))) for r in seg[1][1][1]]
            if dsats != S:
                return "decoded satellites %r, expected ascending %r" % (dsats, S)
            if dkeys != keys:
                return "decoded cells %r, expected %r" % (dkeys[:6], keys[:6])
            # every row must carry the data the caller gave for that satellite / cell: compare the plain integer fields
            def int_fields(rows_spec):
                out = []
                for j, (_, fid) in enumerate(rows_spec):
                    fd = g.fields[fid]
                    if fd["dt"] in INT_RANGE and fd["res"] is None and fd["bias"] is None and fd["inv"] is None and fd["ck"] == "U":
                        out.append((j, fd["len"]))
                return out
            in_seg = msg[2][1][-1]
            in_sats = {r[1][0][1]: r[1][1:] for r in in_seg[1][0][1]}
            for r in seg[1][0][1]:
                src = in_sats.get(r[1][0][1])
                for j, w in int_fields(lay["sat_rows"]):
                    if src is not None and src[j][0] == "i" and 0 <= src[j][1] < (1 << w) and r[1][1 + j] != src[j]:
                        return "satellite %d came back with field %d = %s, the caller gave %s" % (r[1][0][1], j, vt.show(r[1][1 + j]), vt.show(src[j]))
            in_cells = {(r[1][0][1], table.get((r[1][1][1], r[1][1][2]))): r[1][2:] for r in in_seg[1][1][1]}
            for r in seg[1][1][1]:
                key = (r[1][0][1], table.get((r[1][1][1], r[1][1][2])))
                src = in_cells.get(key)
                for j, w in int_fields(lay["sig_rows"]):
                    if src is not None and src[j][0] == "i" and 0 <= src[j][1] < (1 << w) and r[1][2 + j] != src[j]:
                        return "cell %r came back with field %d = %s, the caller gave %s: rows are not written in mask order" % (key, j, vt.show(r[1][2 + j]), vt.show(src[j]))
            if "E2 same" not in res:
                return "re-encoding the decoded MSM message gives different bytes"
        return None

    def nontrivial(self, op, res):
        return True


# =====================================================================================
def bias_expect(g, which, entries):
    """entries [(sat, (b,c), bits)] -> (recognised_distinct, grouped list)"""
    table = {(b, c): i for b, c, i in g.ssr[which]}
    max_sat = 63 if which == "1059" else 31
    ok = all(sg in table for _, sg, _ in entries) and len({(s, sg) for s, sg, _ in entries}) == len(entries)
    grouped = []
    for s in sorted({s for s, _, _ in entries}):
        grouped += [(s2, sg) for s2, sg, _ in entries if s2 == s]
    return ok, grouped, max_sat


def bias_hostile_frames(ctx):
    """CRC-valid 1059/1065 frames announcing many satellites with 31 entries each (list capacity 390)"""
    g = get_gen(ctx)
    ops = []
    for num, sat_bits in ((1059, 6), (1065, 5)):
        if num not in g.layouts:
            continue
        hb = 12 + sum(g.fields[f["id"]]["len"] for _, f in g.layouts[num]["fields"] if f["k"] == "field")
        table = g.ssr[str(num)]
        for nsat in (13, 14, 20, 63, 12):
            for total_len in (1023, 984, 960, 700):
                b = bytes(set_bits(bytes(total_len), 0, 12, num))
                off = hb
                bits = [(6, nsat)]
                for s in range(nsat):
                    bits.append((sat_bits, s % 32))
                    bits.append((5, 31))
                    for i in range(31):
                        bits.append((5, table[i % len(table)][2]))
                        bits.append((14, (i * 37 + s) % 8000))
                for wdt, v in bits:
                    if off + wdt > 8 * total_len:
                        break
                    b = set_bits(b, off, wdt, v)
                    off += wdt
                ops.append("DECODE %s #hostile%d" % (hx(mkframe(b)), nsat))
        # exactly at and just above the capacity: 12 satellites x 31 + k
        for last in (18, 19, 20, 31):
            b = bytes(set_bits(bytes(1000), 0, 12, num))
            off = hb
            bits = [(6, 13)]
            for s in range(13):
                cnt = 31 if s < 12 else last
                bits.append((sat_bits, s))
                bits.append((5, cnt))
                for i in range(cnt):
                    bits.append((5, table[i % len(table)][2]))
                    bits.append((14, (i * 37 + s) % 8000))
            for wdt, v in bits:
                b = set_bits(b, off, wdt, v)
                off += wdt
            ops.append("DECODE %s #hostilecap%d" % (hx(mkframe(b[: (off + 7) // 8])), 372 + last))
    return ops


@register
class C16(Prop):
    id = "C16"
    nostd = True          # also run on the library built without its `std` feature
    module = "C16"
    theorems = ["C16_ssr_tables_ok", "C16_decode_bounded", "C16_decode_no_panic", "C16_counts_fit_1059", "C16_counts_fit_1065",
                "C16_roundtrip_1059", "C16_roundtrip_1065", "C16_glo_order", "C16_roundtrip_1230",
                "C16_frame_1059", "C16_frame_1065", "C16_frame_1230"]
    partial_note = ("partial: decode never panics and never exceeds the list capacity; accepted lists have <= 63 satellites, <= 31 recognised entries per satellite and fit the "
                    "capacity; SSR tables one-to-one with 5-bit ids; for 1059 and 1065 every accepted list whose quantised biases fit their 14-bit field decodes to exactly its "
                    "recognised entries, each once, grouped by ascending satellite, in list order within a satellite, bias on the 0.01 grid; for 1230 every accepted list with pairwise distinct signals decodes to the same entries, "
                    "each once, in mask order, bias on the 0.02 grid (saturating); C16_frame_1059/1065/1230 lift these to build_message / get_message for every builder history "
                    "(frame accepted, number carried, typed message with that list, never Corrupt). Biases beyond the 14-bit field of 1059/1065 (they wrap: outside the theorems' "
                    "hypotheses) are covered by the ROUNDTRIP correspondence and the probes")
    table_obligations = ["ssr_tables_ok", "glo_order"]
    rule = ("ROUNDTRIP of 1059/1065/1230 messages: 0..64 satellites, 0..40 entries per satellite, entries of one satellite scattered, all recognised signals, totals around 390, "
            "1230 lists in every order; DECODE of hostile frames with maximal per-satellite counts; one satellite with 32..390 entries, exactly full lists (389/390 entries in four shapes), frames at and above the container capacity, every boundary bit pattern of the bias fields through canonical frames; non-trivial = distinct messages with at least two entries")

    def gen(self, ctx):
        rng = ctx.rng
        g = get_gen(ctx)
        ops = []
        n = 500 if ctx.tier == "quick" else 5000
        for num in (1059, 1065):
            if num not in g.layouts:
                continue
            for _ in range(n):
                ops.append("ROUNDTRIP " + g.gen_msg(num, rng.choice(["valid", "valid", "hostile"])))
        if 1230 in g.layouts:
            import itertools
            sigs = [(1, 67), (1, 80), (2, 67), (2, 80)]
            for k in range(0, 5):
                for comb in itertools.permutations(sigs, k):
                    if ctx.tier == "quick" and k >= 3 and rng.random() < 0.5:
                        continue
                    ents = ",".join("T{G%d:%d,f%08x}" % (b, c, f32_bits((i * 7 - 9) * 0.02)) for i, (b, c) in enumerate(comb))
                    ops.append("ROUNDTRIP VMsg1230(T{i5,i1,L[%s]})" % ents)
            for _ in range(n // 3):
                ops.append("ROUNDTRIP " + g.gen_msg(1230, rng.choice(["valid", "hostile"])))
        # one satellite with far more entries than its 5-bit count holds (255, 256, .. wrap an 8-bit counter too), and lists that
        # fill the container exactly (390 = 13 satellites x 30) or miss it by one
        for num in (1059, 1065):
            if num not in g.layouts:
                continue
            table = g.ssr[str(num)]
            hdr = vt.parse_msg(g.gen_msg(num, "valid"))[2][1][:-1]
            def mk(ents):
                body = hdr + [("L", [("T", [("i", s), ("G", b, c), ("f", f32_bits(0.01 * (i % 200 - 100)))]) for i, (s, (b, c)) in enumerate(ents)])]
                return "ROUNDTRIP " + vt.show_msg(("Msg", num, ("T", body)))
            for k in (32, 33, 63, 64, 65, 255, 256, 257, 260, 287, 288, 300, 390):
                ops.append(mk([(7, (table[i % len(table)][0], table[i % len(table)][1])) for i in range(k)]) + " #many%d" % k)
                if k < 390:       # a list of more than 390 entries is not constructible (DataVec capacity)
                    ops.append(mk([(7, (table[i % len(table)][0], table[i % len(table)][1])) for i in range(k)] + [(9, (table[0][0], table[0][1]))]) + " #many%d+1" % k)
            # satellite identifiers just outside the mask (64 for 1059, 32 for 1065) and far outside: refused, never encoded
            ms_ = 63 if num == 1059 else 31
            for bad in (ms_ + 1, ms_ + 2, 64, 128, 255):
                if bad > ms_:
                    ops.append(mk([(1, (table[0][0], table[0][1])), (bad, (table[0][0], table[0][1])), (bad, (table[1][0], table[1][1]))]) + " #badsat%d" % bad)
            ops.append(mk([(ms_, (table[0][0], table[0][1])), (0, (table[0][0], table[0][1]))]) + " #edgesat")
            for per, nsat in ((30, 13), (31, 12), (26, 15), (13, 30)):
                for total in (389, 390):
                    ents = [(s, (table[i % len(table)][0], table[i % len(table)][1])) for s in range(nsat) for i in range(per)][:total]
                    ops.append(mk(ents) + " #full%d" % total)
        ops += bias_hostile_frames(ctx)
        ops += bias_pattern_ops(ctx, full=False, n_random=200 if ctx.tier == "quick" else 4000)
        return ops

    def probe(self, op, res, ctx):
        toks, tag = tagged(op)
        g = get_gen(ctx)
        if tag and tag.startswith("biaspat"):
            return bias_pattern_probe(op, res)
        if toks[0] == "DECODE":
            if res.startswith("PANIC") or res.startswith("HANG") or res.startswith("CRASH"):
                return "decoding a code-bias frame with maximal counts panicked"
            if res.startswith("VMsg10"):
                m = vt.parse_msg(res.split(" ")[0])
                if len(m[2][1][-1][1]) > 390:
                    return "decoded more entries than the list capacity"
            if tag.startswith("hostilecap"):
                # 12 satellites x 31 + k recognised entries, all inside the frame: a list of 372 + k entries when it fits the container
                total = int(tag[len("hostilecap"):])
                if total <= 390:
                    if not res.startswith("VMsg10"):
                        return "a complete frame with %d entries (capacity 390) decoded to %s" % (total, res[:30])
                    m = vt.parse_msg(res.split(" ")[0])
                    if len(m[2][1][-1][1]) != total:
                        return "a complete frame with %d entries decoded to %d entries" % (total, len(m[2][1][-1][1]))
                elif not res.startswith("VCorrupt"):
                    return "a frame with %d entries (capacity 390) decoded to %s" % (total, res[:30])
            return None
        msg = vt.parse_msg(toks[1])
        num = msg[1]
        if res.startswith("PANIC"):
            return "encoding a bias list panicked"
        if tag.startswith("badsat") and not res.startswith("ERR"):
            return "a list with satellite %s (outside the satellite mask of %d) was not refused: %s" % (tag[6:], num, res[:30])
        if not res.startswith("OK "):
            return None
        if " D1 " not in res:
            return "the emitted frame does not parse: %s" % res[-40:]
        d1 = vt.parse_msg(res.split(" D1 ")[1].split(" ")[0])
        if d1[0] != "Msg":
            return "the emitted bias frame decodes to %s" % d1[0]
        lst = msg[2][1][-1][1]
        dl = d1[2][1][-1][1]
        if num in (1059, 1065):
            ents = [(e[1][0][1], (e[1][1][1], e[1][1][2]), e[1][2][1]) for e in lst]
            ok, grouped, max_sat = bias_expect(g, str(num), ents)
            tbl = {(b, c) for b, c, _ in g.ssr[str(num)]}
            if all(sg in tbl for _, sg, _ in ents) and len(dl) != len(ents):
                # even with repeated (satellite, signal) pairs every recognised entry is written once: the counts must agree
                return "accepted %d recognised entries, the frame decodes to %d: entries lost to a count that wrapped, or dropped" % (len(ents), len(dl))
            if not ok:
                return None
            got = [(e[1][0][1], (e[1][1][1], e[1][1][2])) for e in dl]
            if got != grouped:
                return "accepted %d entries, decoded %d: entries dropped, duplicated or regrouped wrongly (first difference at %d)" % (
                    len(grouped), len(got), next((i for i, (a, b) in enumerate(zip(got, grouped)) if a != b), min(len(got), len(grouped))))
            # biases on the grid: each decoded bias within half a step of the input when in range
            bymap = {}
            for s, sg, b in ents:
                bymap[(s, sg)] = b
            for e in dl:
                x = bits_f32(bymap[(e[1][0][1], (e[1][1][1], e[1][1][2]))])
                y = bits_f32(e[1][2][1])
                if x == x and abs(x) < 81.0 and abs(y - x) > 0.00501 + abs(x) * 1e-6:
                    return "bias %r of satellite %d came back as %r" % (x, e[1][0][1], y)
        else:
            order = {(1, 67): 0, (1, 80): 1, (2, 67): 2, (2, 80): 3}
            ents = [((e[1][0][1], e[1][0][2]), e[1][1][1]) for e in lst]
            if any(sg not in order for sg, _ in ents) or len({sg for sg, _ in ents}) != len(ents):
                return None
            want = sorted(ents, key=lambda e: order[e[0]])
            got = [((e[1][0][1], e[1][0][2]), e[1][1][1]) for e in dl]
            if [sg for sg, _ in got] != [sg for sg, _ in want]:
                return "1230: decoded signals %r, expected %r" % ([sg for sg, _ in got], [sg for sg, _ in want])
            for (sg, b), (_, b2) in zip(want, got):
                x, y = bits_f32(b), bits_f32(b2)
                if x == x and abs(x) < 655.0 and abs(y - x) > 0.01001 + abs(x) * 1e-6:
                    return "1230: bias %r of signal %r came back as %r" % (x, sg, y)
        return None

    def nontrivial(self, op, res):
        return op.count("T{") >= 3 or op.startswith("DECODE") or op.startswith("REDECODE")


# =====================================================================================
def utf8_len(c):
    return 1 if c < 128 else 2 if c < 2048 else 3 if c < 65536 else 4


def utf8_prefix(cps, cap):
    out = []
    used = 0
    for c in cps:
        if used + utf8_len(c) > cap:
            break
        out.append(c)
        used += utf8_len(c)
    return out


def from_char(c):
    return c if 0 < c < 256 else 164


def str_positions(g, lay, path=()):
    """paths (index lists) of FStr / FUtf8 leaves inside a struct layout"""
    out = []
    if lay["k"] == "struct":
        for i, (_, f) in enumerate(lay["fields"]):
            if f["k"] == "str":
                out.append((path + (i,), "str", f["cap"]))
            elif f["k"] == "utf8":
                out.append((path + (i,), "utf8", 255))
    return out


@register
class C17(Prop):
    id = "C17"
    nostd = True          # also run on the library built without its `std` feature
    module = "C17"
    theorems = ["C17_df88591_from_str", "C17_from_char", "C17_array_string_prefix", "C17_utf8_valid", "C17_utf8_roundtrip", "C17_text_too_long", "C17_invalid_utf8_rejected",
                "C17_descriptor_roundtrip", "C17_text_roundtrip_1029", "C17_frame_1029"]
    partial_note = None
    rule = ("STR88591 / UTF8STR with capacities 3,4,7,31,255 on strings around every capacity (ASCII, Latin-1 high half, NUL, 2-/3-/4-byte characters straddling the capacity, astral); "
            "ROUNDTRIP of 1007/1008/1021/1022/1029/1033/1300-1302 with such strings; DECODE of 1029 frames whose text was replaced by each class of invalid UTF-8; "
            "non-trivial = distinct strings of at least 2 characters")

    def gen(self, ctx):
        rng = ctx.rng
        g = get_gen(ctx)
        ops = []
        n = 1000 if ctx.tier == "quick" else 20000
        for _ in range(n):
            N = rng.choice([3, 7, 31, 255])
            ln = rng.choice([0, 1, N - 1, N, N + 1, N + 3, rng.randint(0, N + 5)])
            cps = g.gen_cps(ln, rng.choice(["ascii", "latin", "nul", "mixed"]))
            ops.append("STR88591 %d C%s" % (N, ".".join(map(str, cps))))
            N = rng.choice([3, 4, 7, 31, 255])
            ln = rng.choice([0, 1, N // 4, N // 3, N // 2, N - 1, N, N + 1, rng.randint(0, N + 5)])
            cps = g.gen_cps(ln, rng.choice(["ascii", "two", "bmp", "astral", "mixed"]))
            ops.append("UTF8STR %d C%s" % (N, ".".join(map(str, cps))))
        nums = [x for x in (1007, 1008, 1021, 1022, 1029, 1033, 1300, 1301, 1302, 1303, 1304) if x in g.layouts]
        for num in nums:
            for _ in range(12 if ctx.tier == "quick" else 300):
                ops.append("ROUNDTRIP " + g.gen_msg(num, rng.choice(["valid", "hostile"])))
        if 1029 in g.layouts:
            for chars, byts in [(127, "ascii"), (128, "ascii"), (126, "two"), (127, "two"), (128, "two"), (85, "bmp"), (86, "bmp"), (63, "astral"), (64, "astral"), (100, "bmp")]:
                ops.append("ROUNDTRIP VMsg1029(T{i1,i2,i3,C%s})" % ".".join(map(str, g.gen_cps(chars, byts))))
            # invalid UTF-8 inside a CRC-valid 1029 frame
            bad = [b"\xc0\xaf", b"\xe0\x80\xaf", b"\xed\xa0\x80", b"\xf4\x90\x80\x80", b"\x80", b"\xc3", b"\xe2\x82", b"\xf0\x9f\x98", b"\xff", b"\xf8\x88\x80\x80\x80", b"a\xc3(b"]
            for bseq in bad:
                for pad in (b"", b"abc", "éx".encode()):
                    text = pad + bseq + pad
                    nch = rng.randint(1, 20)
                    body = bytearray(9 + len(text))
                    b = set_bits(bytes(body), 0, 12, 1029)
                    b = set_bits(b, 12, 12, 5)
                    b = set_bits(b, 57, 7, nch)
                    b = set_bits(b, 64, 8, len(text))
                    b = b[:9] + text
                    ops.append("DECODE %s #badutf8" % hx(mkframe(b)))
        return ops

    def probe(self, op, res, ctx):
        toks, tag = tagged(op)
        g = get_gen(ctx)
        if toks[0] == "STR88591":
            N = int(toks[1])
            cps = vt.parse(toks[2])[1]
            kept = [from_char(c) for c in cps[:N]]
            want = "%d %s C%s" % (len(kept), hx(bytes(kept)), ".".join(map(str, kept)))
            return None if res == want else "descriptor conversion gave '%s', expected '%s'" % (res[:60], want[:60])
        if toks[0] == "UTF8STR":
            N = int(toks[1])
            cps = vt.parse(toks[2])[1]
            kept = utf8_prefix(cps, N)
            enc = "".join(chr(c) for c in kept).encode("utf-8")
            want = "%s C%s" % (hx(enc), ".".join(map(str, kept)))
            return None if res == want else "text conversion gave '%s', expected '%s'" % (res[:60], want[:60])
        if toks[0] == "DECODE":
            return None if res.startswith("VCorrupt") else "a frame with invalid UTF-8 text decoded to %s" % res[:40]
        if toks[0] == "ROUNDTRIP":
            msg = vt.parse_msg(toks[1])
            if msg[0] != "Msg":
                return None
            num = msg[1]
            pos = str_positions(g, g.layouts[num])
            expect = {}
            for path, kind, cap in pos:
                cps = msg[2][1][path[0]][1]
                if kind == "str":
                    expect[path[0]] = [from_char(c) for c in cps[:cap]]
                else:
                    kept = utf8_prefix(cps, 255)
                    expect[path[0]] = kept
                    if len(kept) > 127:
                        if not res.startswith("ERR"):
                            return "text of %d characters was not refused" % len(kept)
                        return None
            if res.startswith("ERR BufferOverflow") and num == 1029:
                kept = [v for v in expect.values()][-1]
                return "a text that fits the field (%d characters, %d bytes) was refused: %s" % (len(kept), sum(utf8_len(c) for c in kept), res[:40])
            if not res.startswith("OK ") or " D1 " not in res:
                return None
            d1 = vt.parse_msg(res.split(" D1 ")[1].split(" ")[0])
            if d1[0] != "Msg":
                return None
            for i, want in expect.items():
                got = d1[2][1][i][1]
                if got != want:
                    return "string field %d of message %d came back as %r.., expected %r.." % (i, num, got[:8], want[:8])
        return None

    def nontrivial(self, op, res):
        return op.count(".") >= 1


# =====================================================================================
STANDARD = {
    "gps": {(1, "C"): 2, (1, "P"): 3, (1, "W"): 4, (2, "C"): 8, (2, "P"): 9, (2, "W"): 10, (2, "S"): 15, (2, "L"): 16, (2, "X"): 17,
            (5, "I"): 22, (5, "Q"): 23, (5, "X"): 24, (1, "S"): 30, (1, "L"): 31, (1, "X"): 32},
    "glo": {(1, "C"): 2, (1, "P"): 3, (2, "C"): 8, (2, "P"): 9},
    "gal": {(1, "C"): 2, (1, "A"): 3, (1, "B"): 4, (1, "X"): 5, (1, "Z"): 6, (6, "C"): 8, (6, "A"): 9, (6, "B"): 10, (6, "X"): 11, (6, "Z"): 12,
            (7, "I"): 14, (7, "Q"): 15, (7, "X"): 16, (8, "I"): 18, (8, "Q"): 19, (8, "X"): 20, (5, "I"): 22, (5, "Q"): 23, (5, "X"): 24},
    "sbas": {(1, "C"): 2, (5, "I"): 22, (5, "Q"): 23, (5, "X"): 24},
    "qzss": {(1, "C"): 2, (6, "S"): 9, (6, "L"): 10, (6, "X"): 11, (2, "S"): 15, (2, "L"): 16, (2, "X"): 17, (5, "I"): 22, (5, "Q"): 23, (5, "X"): 24,
             (1, "S"): 30, (1, "L"): 31, (1, "X"): 32},
    "bds": {(2, "I"): 2, (2, "Q"): 3, (2, "X"): 4, (6, "I"): 8, (6, "Q"): 9, (6, "X"): 10, (7, "I"): 14, (7, "Q"): 15, (7, "X"): 16},
    "navic": {(5, "A"): 22},
}


@register
class C18(Prop):
    id = "C18"
    module = "C18"
    theorems = ["C18_tables_ok", "C18_bijection", "C18_is_valid_iff", "C18_cmp_total_order", "C18_cmp_recognised", "C18_cmp_unrecognised_last", "C18_standard_positions"]
    table_obligations = ["sig_tables_ok"]
    rule = ("SIGID for 7 constellations x bands 0..255 x attributes U+0000..U+00FF (exhaustive) plus sampled astral attributes; SIGSIG for every id 0..255; SIGCMP over all pairs of "
            "recognised descriptors and sampled pairs/triples with unrecognised ones; non-trivial = distinct queries on recognised descriptors or ids")

    def gen(self, ctx):
        rng = ctx.rng
        ops = []
        gn = list(ctx.tables["sig_tables"].keys())
        for gnss in gn:
            rows = ctx.tables["sig_tables"][gnss]
            bands = sorted({r[1] for r in rows} | {0, 3, 4, 10, 255})
            full = ctx.tier == "thorough"
            for band in (range(256) if full else bands):
                for cp in range(256):
                    ops.append("SIGID %s %d %d" % (gnss, band, cp))
            if not full:
                for _ in range(600):
                    ops.append("SIGID %s %d %d" % (gnss, rng.randint(0, 255), rng.randint(0, 255)))
            for cp in (0x100, 0x3A9, 0xFFFD, 0x1F600, 0x10FFFF, 0xD7FF, 0xE000):
                for band in bands[:4]:
                    ops.append("SIGID %s %d %d" % (gnss, band, cp))
            for i in range(256):
                ops.append("SIGSIG %s %d" % (gnss, i))
            rec = [(r[1], r[2]) for r in rows]
            unrec = [(rng.randint(0, 9), rng.choice([63, 65, 67, 88, 90, 97, 233, 0x1F600])) for _ in range(12)]
            # attributes that agree modulo 2^8 / 2^16 with each other or with a recognised one, and the lower-case twins of
            # recognised attributes: a comparison or lookup done on a truncated or case-folded attribute confuses them
            unrec += [(7, 65), (7, 65 + 256), (7, 65 + 65536), (3, 90), (3, 0x141), (3, 0x15A)]
            unrec += [(b0, c0 + 256) for b0, c0 in rec[:3]] + [(b0, c0 + 32) for b0, c0 in rec[:3] if 65 <= c0 <= 90]
            unrec = [u for u in unrec if u not in rec]
            for a in rec:
                for b in rec:
                    ops.append("SIGCMP %s %d %d %d %d" % (gnss, a[0], a[1], b[0], b[1]))
            pool = rec + unrec
            for _ in range(300 if not full else 20000):
                a, b = rng.choice(pool), rng.choice(pool)
                ops.append("SIGCMP %s %d %d %d %d" % (gnss, a[0], a[1], b[0], b[1]))
            for a in unrec:
                for b in unrec:
                    ops.append("SIGCMP %s %d %d %d %d" % (gnss, a[0], a[1], b[0], b[1]))
        return ops

    def probes(self, ops, rel, chk, ctx):
        out = []
        for res in (rel, chk):
            ids = {}
            sigs = {}
            cmpd = {}
            for i, o in enumerate(ops):
                t = o.split(" ")
                if t[0] == "SIGID":
                    key = (t[1], int(t[2]), int(t[3]))
                    r = res[i].split(" ")
                    idv = None if r[0] == "-" else int(r[0])
                    ids[key] = (idv, i)
                    if (idv is not None) != (r[1] == "valid=true"):
                        out.append((i, "is_valid disagrees with the table lookup for %r" % (key,)))
                elif t[0] == "SIGSIG":
                    sigs[(t[1], int(t[2]))] = (res[i], i)
                elif t[0] == "SIGCMP":
                    if res[i].split(" ")[0] not in ("L", "G", "E"):
                        out.append((i, "%s: comparing descriptors (%s,%s) and (%s,%s) gave %s" % (t[1], t[2], t[3], t[4], t[5], res[i][:30])))
                        continue
                    rr = res[i].split(" ")
                    if len(rr) >= 2 and rr[1] != "-" and rr[1] != rr[0]:
                        out.append((i, "%s: descriptors (%s,%s) and (%s,%s): cmp says %s, partial_cmp / the operators say %s" % (t[1], t[2], t[3], t[4], t[5], rr[0], rr[1])))
                        continue
                    cmpd[(t[1], (int(t[2]), int(t[3])), (int(t[4]), int(t[5])))] = (res[i], i)
            # bijection and range
            by_g = {}
            for (gnss, b, c), (idv, i) in ids.items():
                if idv is not None:
                    by_g.setdefault(gnss, []).append(((b, c), idv, i))
            for gnss, lst in by_g.items():
                seen = {}
                for sg, idv, i in lst:
                    if not (2 <= idv <= 32):
                        out.append((i, "%s: descriptor %r maps to position %d outside 2..32" % (gnss, sg, idv)))
                    if idv in seen and seen[idv] != sg:
                        out.append((i, "%s: descriptors %r and %r share position %d" % (gnss, seen[idv], sg, idv)))
                    seen[idv] = sg
                    back = sigs.get((gnss, idv))
                    if back and back[0] != "G%d:%d" % sg:
                        out.append((i, "%s: position %d maps back to %s, not to %r" % (gnss, idv, back[0], sg)))
                for (g2, idv), (r, i) in sigs.items():
                    if g2 != gnss or r == "-":
                        continue
                    b, c = r[1:].split(":")
                    fw = ids.get((gnss, int(b), int(c)))
                    if fw is not None and fw[0] != idv:
                        out.append((i, "%s: position %d gives %s whose position is %r" % (gnss, idv, r, fw[0])))
                    if fw is None and int(c) < 256:
                        pass
                # standard positions
                have = {sg: idv for sg, idv, _ in lst}
                for (band, ch), pos in STANDARD.get(gnss, {}).items():
                    if have.get((band, ord(ch))) != pos and (gnss, band, ord(ch)) in ids:
                        out.append((ids[(gnss, band, ord(ch))][1], "%s: %d%s has position %r, the standard says %d" % (gnss, band, ch, have.get((band, ord(ch))), pos)))
            # order
            def idof(gnss, sg):
                v = ids.get((gnss, sg[0], sg[1]))
                return v[0] if v else None
            for (gnss, a, b), (r, i) in cmpd.items():
                c = r.split(" ")[0]
                ia, ib = idof(gnss, a), idof(gnss, b)
                known_a, known_b = (gnss, a[0], a[1]) in ids, (gnss, b[0], b[1]) in ids
                if a == b and c != "E":
                    out.append((i, "%s: cmp(x, x) = %s" % (gnss, c)))
                if known_a and known_b:
                    if ia is not None and ib is not None:
                        want = "L" if ia < ib else "G" if ia > ib else "E"
                        if c != want:
                            out.append((i, "%s: recognised %r (pos %d) vs %r (pos %d) compare %s" % (gnss, a, ia, b, ib, c)))
                    elif ia is not None and ib is None and c != "L":
                        out.append((i, "%s: recognised %r does not sort before unrecognised %r" % (gnss, a, b)))
                    elif ia is None and ib is not None and c != "G":
                        out.append((i, "%s: unrecognised %r does not sort after recognised %r" % (gnss, a, b)))
                rev = cmpd.get((gnss, b, a))
                if rev:
                    c2 = rev[0].split(" ")[0]
                    if {"L": "G", "G": "L", "E": "E"}[c] != c2:
                        out.append((i, "%s: cmp(%r,%r)=%s but cmp(%r,%r)=%s" % (gnss, a, b, c, b, a, c2)))
                if c == "E" and a != b:
                    out.append((i, "%s: distinct descriptors %r and %r compare equal" % (gnss, a, b)))
            # transitivity on the sampled pool
            keys = list(cmpd.keys())
            idx = {}
            for (gnss, a, b) in keys:
                idx.setdefault((gnss, a), []).append(b)
            cnt = 0
            for (gnss, a, b), (r, i) in cmpd.items():
                if r[0] != "L":
                    continue
                for c3 in idx.get((gnss, b), [])[:12]:
                    r2 = cmpd[(gnss, b, c3)][0]
                    r3 = cmpd.get((gnss, a, c3))
                    if r2[0] == "L" and r3 and r3[0][0] != "L":
                        out.append((i, "%s: order not transitive on %r < %r < %r" % (gnss, a, b, c3)))
                    cnt += 1
            if out:
                break
        return out[:50]

    def nontrivial(self, op, res):
        return not res.startswith("- ") and res != "-"


# =====================================================================================
def decode_ops_hostile(ctx, per_number):
    """CRC-valid frames with hostile payloads for every supported number"""
    rng = ctx.rng
    g = get_gen(ctx)
    ops = []
    for n in g.numbers:
        for _ in range(per_number):
            L = rng.choice([2, 3, 4, 8, 16, 40, 100, 300, 700, 1023, rng.randint(2, 1023)])
            fill = rng.choice(["rand", "rand", "ones", "zero"])
            ops.append("DECODE %s #h%d" % (hx(frame_of_payload(n, rng, L, fill)), n))
    return ops


def msm_hostile_frames(ctx):
    rng = ctx.rng
    g = get_gen(ctx)
    out = []
    for n in g.msm_numbers():
        hb = msm_header_bits(g, n)
        shapes = [(0, 0), (2**64 - 1, 2**32 - 1), (2**64 - 1, 3), (0xFF, 0x1FF), (0x1FF, 0xFF), (1, 0), (0, 1), (0xFFFF, 0xF), (0x1FFFF, 0xF), ((1 << 33) - 1, 3),
                  (1, 2**32 - 1), (3, 2**32 - 1), (1 << 63, (1 << 17) - 1), (7 << 40, (1 << 21) - 1), (1 << 20, 0xFFFF8000), (5, 0x0007FFFF),
                  (rng.getrandbits(64), rng.getrandbits(32))]
        # grids with an explicit cell mask: only the last cell, only the first, all, alternating (64-cell grids and smaller)
        for sm, gm in (((1 << 32) - 1, 3), ((1 << 64) - 1, 1), (0xFFFF, 0xF), (0xFF, 0xFF), (0x7, 0x1F), (1, 1)):
            ncell = bin(sm).count("1") * bin(gm).count("1")
            for cm in (1, 1 << (ncell - 1), (1 << ncell) - 1, int("10" * 32, 2) & ((1 << ncell) - 1), 3):
                body = bytes(rng.getrandbits(8) for _ in range(700))
                body = set_bits(body, 0, 12, n)
                body = set_bits(body, hb, 64, sm)
                body = set_bits(body, hb + 64, 32, gm)
                body = set_bits(body, hb + 96, ncell, cm & ((1 << ncell) - 1))
                out.append("DECODE %s #msmcells" % hx(mkframe(body)))
        for sm, gm in shapes:
            for L in (rng.choice([22, 23, 30]), 200, 1023):
                body = bytes(rng.getrandbits(8) for _ in range(L))
                body = set_bits(body, 0, 12, n)
                if 8 * L >= hb + 96:
                    body = set_bits(body, hb, 64, sm)
                    body = set_bits(body, hb + 64, 32, gm)
                out.append("DECODE %s #msm" % hx(mkframe(body)))
    return out


@register
class C02(Prop):
    id = "C02"
    nostd = True          # also run on the library built without its `std` feature
    module = "C02"
    theorems = ["C02_layouts_decode_safe", "C02_layout_total", "C02_outcomes", "C02_decode_bytes_total", "C02_stream_total",
                "C02_layouts_finite_ok", "C02_finite", "C02_message_finite"]
    rule = ("DECODE in both profiles on CRC-valid frames with hostile payloads for every supported number (random bytes of every length class, all-ones, zeros, MSM masks announcing "
            "0/65/2048 cells at payload lengths that do and do not cover the read, SSR lists with maximal counts, invalid UTF-8, truncated valid bodies, bit-flipped valid bodies) "
            "and ITER on garbage; MSM grids with explicit cell masks (first / last cell only, all, alternating), canonical bias frames with boundary patterns, 1029 frames with valid text of every UTF-8 kind and plane; non-trivial = distinct frames that reach a typed decoder")

    def gen(self, ctx):
        rng = ctx.rng
        g = get_gen(ctx)
        ops = decode_ops_hostile(ctx, 30 if ctx.tier == "quick" else 1500)
        ops += msm_hostile_frames(ctx)
        ops += bias_hostile_frames(ctx)
        # valid bodies, truncated and bit-flipped, re-framed
        enc = ["ENCODE " + g.gen_msg(n, "valid") for n in g.numbers for _ in range(2 if ctx.tier == "quick" else 30)]
        r = ctx.run_impl(enc, "rel", "c02a")
        for o, x in zip(enc, r):
            if not x.startswith("OK "):
                continue
            f = unhex(x[3:])
            pl = f[3:-3]
            ops.append("DECODE %s #valid" % hx(f))
            for cut in {len(pl) - 1, len(pl) - 2, max(2, len(pl) // 2), 2, 3}:
                if 2 <= cut < len(pl):
                    ops.append("DECODE %s #trunc" % hx(mkframe(pl[:cut])))
            for _ in range(3):
                b = bytearray(pl)
                k = rng.randrange(12, 8 * len(pl))
                b[k // 8] ^= 0x80 >> (k % 8)
                ops.append("DECODE %s #flip" % hx(mkframe(bytes(b))))
            ops.append("DECODE %s #ext" % hx(mkframe(pl + bytes(rng.getrandbits(8) for _ in range(min(20, 1023 - len(pl)))))))
        for _ in range(100 if ctx.tier == "quick" else 5000):
            s, _ = gf.gen_stream(rng)
            ops.append("ITER %s" % hx(s))
        # canonical frames of the three hand-written bias codecs with every boundary bit pattern of the bias field (all finite?)
        for o in bias_pattern_ops(ctx, full=False, n_random=60 if ctx.tier == "quick" else 3000):
            ops.append("DECODE " + o.split(" ")[1] + " #biasframe")
        # 1029 frames whose text is valid UTF-8 of every kind: one- to four-byte characters, every plane that has its own
        # lead/continuation pattern (1, 2, 3, 14, 15, 16), alone and mixed
        if 1029 in g.layouts:
            kinds = [[0x41], [0xe9], [0x4e65], [0x1f600], [0x20bb7], [0x30000], [0xe0001], [0xf0000], [0x10ffff], [0x10000],
                     [0x41, 0x20bb7, 0xe9], [0x1f6f0, 0x4e65, 0x10ffff, 0x7f, 0x80, 0x7ff, 0x800, 0xffff]]
            for cps in kinds:
                for rep in (1, 3, 20):
                    text = "".join(chr(c) for c in cps * rep).encode("utf-8")
                    if len(text) > 255 or len(cps) * rep > 127:
                        continue
                    b = set_bits(bytes(9 + len(text)), 0, 12, 1029)
                    b = set_bits(b, 57, 7, len(cps) * rep)
                    b = set_bits(b, 64, 8, len(text))
                    ops.append("DECODE %s #text1029" % hx(mkframe(b[:9] + text)))
        return ops

    def proj(self, op, res):
        return res

    def probe(self, op, res, ctx):
        if op.endswith("#text1029") and not res.startswith("VMsg1029("):
            return "a 1029 frame with valid UTF-8 text decoded to %s" % res[:40]
        if res.startswith("PANIC") or res.startswith("HANG") or res.startswith("CRASH") or "PANIC" in res.split(" ")[:1]:
            return "decoding %s: %s" % (op.split(" ")[0], res[:20])
        if op.startswith("DECODE"):
            if res.startswith("ERR "):
                return None
            cls = outcome_class(res)
            if cls == "other":
                return "decode returned an undocumented outcome: %s" % res[:50]
            if not res.endswith("refl=true"):
                return "decoded message does not compare equal to itself"
            if cls == "typed":
                m = vt.parse_msg(res.split(" ")[0])
                for k, b in vt.floats_of(m[2]):
                    if not vt.is_finite_bits(k, b):
                        return "decoded message contains a non-finite float"
        return None

    def nontrivial(self, op, res):
        return res.startswith("VMsg") and not res.startswith("VMsgNot") or res.startswith("VCorrupt")


# =====================================================================================
def frame_well_formed(f, number):
    if not (8 <= len(f) <= 1029):
        return "frame of %d bytes" % len(f)
    if f[0] != 0xD3:
        return "first byte %02x" % f[0]
    if f[1] >> 2:
        return "reserved bits not zero"
    L = ((f[1] & 3) << 8) | f[2]
    if L != len(f) - 6:
        return "length field %d but payload of %d bytes" % (L, len(f) - 6)
    if ((f[3] << 4) | (f[4] >> 4)) != number:
        return "first 12 payload bits are %d, the message number is %d" % ((f[3] << 4) | (f[4] >> 4), number)
    c = crc24q(f[:-3])
    if bytes(f[-3:]) != bytes([(c >> 16) & 255, (c >> 8) & 255, c & 255]):
        return "checksum does not match an independent CRC-24Q"
    return None


def message_ops(ctx, per_number_valid, per_number_hostile, opname):
    g = get_gen(ctx)
    rng = ctx.rng
    ops = []
    for n in g.numbers:
        for _ in range(per_number_valid):
            ops.append("%s %s" % (opname, g.gen_msg(n, rng.choice(["valid", "offgrid"]))))
        for _ in range(per_number_hostile):
            ops.append("%s %s" % (opname, g.gen_msg(n, "hostile")))
    return ops


@register
class C09(Prop):
    id = "C09"
    nostd = True          # also run on the library built without its `std` feature
    module = "C09"
    theorems = ["C09_well_formed_fresh", "C09_well_formed", "C09_no_wire_form", "C09_fits", "C09_put_no_panic",
                "C09_encode_no_panic_plain", "C09_build_no_panic_plain", "C09_number_plain",
                "C09_layouts_classified", "C09_encode_no_panic", "C09_build_total", "C09_encoder_framed", "C09_number"]
    table_obligations = ["layouts_fit", "layouts_classified"]
    partial_note = ("proved in the model: frame shape (length 8..1029, 0xD3, six zero bits, length field, accepted by MessageFrame::new with the model's CRC-24Q) for every builder history, "
                    "refusal of messages without a wire form, size bound, the bit writer's freedom from panics and the message's own number in the first 12 payload bits (C09_number) "
                    "are proved for every message of the table; freedom from panics of encoding and of build_message is proved for every message of the table (C09_build_total: "
                    "plain layouts, MSM data segments with any identifiers / duplicates / inconsistent sets, SSR bias lists, 1230, 1029 text) in the model, which marks every overflow, "
                    "out-of-range index, over-wide shift and push beyond capacity as Panic (the overflow-checks profile); that the optimised profile agrees is covered by the ENCODE/BUILDSEQ "
                    "correspondence in both build profiles and the probes")
    rule = ("ENCODE in both profiles on generated messages of all types: per field boundary / out-of-range / NaN / +-inf / huge values, empty and full lists, MSM with inconsistent "
            "satellite/signal sets and 0..70 mask cells, bias lists with wrapping counts, the three variants without a wire form; frames checked with an independent CRC; "
            "non-trivial = distinct messages")

    def gen(self, ctx):
        g = get_gen(ctx)
        rng = ctx.rng
        q = ctx.tier == "quick"
        ops = message_ops(ctx, 8 if q else 200, 20 if q else 600, "ENCODE")
        ops += ["ENCODE VEmpty", "ENCODE VCorrupt"] + ["ENCODE VMsgNotSupported(T{i%d})" % n for n in (0, 5, 1001, 1074, 4095, 65535)]
        for n in g.msm_numbers():
            for c in ("toomany", "toomany", "dupcell", "badsig", "sat65", "mismatch_extra_sat"):
                ops.append("ENCODE " + g.gen_msg(n, "hostile", msm_force=c))
            # a grid of more than 64 cells with few populated cells
            lay = [f for _, f in g.layouts[n]["fields"] if f["k"] == "msm"][0]
            table = g.sig[lay["gnss"]]
            if len(table) >= 2:
                sats = list(range(1, 34))
                cells = [(s, table[0]) for s in sats] + [(1, table[1])]
                m = vt.parse_msg(g.gen_msg(n, "valid"))
                srow = lambda s: ("T", [("i", s)] + [g.gen_field(fid, "valid") for _, fid in lay["sat_rows"]])
                crow = lambda s, sg: ("T", [("i", s), ("G", sg[0], sg[1])] + [g.gen_field(fid, "valid") for _, fid in lay["sig_rows"]])
                m[2][1][-1] = ("T", [("L", [srow(s) for s in sats]), ("L", [crow(s, sg) for s, sg in cells])])
                ops.append("ENCODE " + vt.show_msg(m))
        ops += ["ENCODE " + m for m in long_messages(ctx)]
        # frames of a builder that is used again (and again after a failed build)
        fails = failing_messages(ctx)
        for _ in range(60 if q else 3000):
            hist = [g.gen_msg(rng.choice(g.numbers), rng.choice(["valid", "hostile"]), n=rng.choice([0, 1, 2])) if rng.random() < 0.75 else rng.choice(fails)
                    for _ in range(rng.choice([2, 3, 4]))]
            ops.append("BUILDSEQ " + " ".join(hist))
        if 1029 in g.layouts:
            for _ in range(40 if q else 2000):
                k = rng.choice(["two", "bmp", "astral", "mixed"])
                nfill = rng.randint(240, 258)
                cps = [rng.randint(97, 122)] * (nfill - rng.randint(0, 6)) + g.gen_cps(rng.randint(1, 4), k)
                ops.append("ENCODE VMsg1029(T{i1,i2,i3,C%s})" % ".".join(map(str, cps)))
                cps = g.gen_cps(rng.randint(60, 130), k)
                ops.append("ENCODE VMsg1029(T{i1,i2,i3,C%s})" % ".".join(map(str, cps)))
        return ops

    def proj(self, op, res):
        return "ERR" if res.startswith("ERR ") else res

    def probe(self, op, res, ctx):
        if op.startswith("BUILDSEQ "):
            msgs = op.split(" ")[1:]
            for j, r in enumerate(res.split(" ; ")):
                if r.startswith("PANIC"):
                    return "build %d of a sequence on one builder panicked" % j
                if r.startswith("OK ") and j < len(msgs) and msgs[j].startswith("VMsg") and not msgs[j].startswith("VMsgNot"):
                    bad = frame_well_formed(unhex(r[3:]), int(msgs[j][4:msgs[j].index("(")]))
                    if bad:
                        return "build %d of a sequence on one builder returned a malformed frame: %s" % (j, bad)
            return None
        m = op.split(" ")[1]
        if res.startswith("PANIC") or res.startswith("HANG") or res.startswith("CRASH"):
            return "building %s...: %s" % (m[:40], res[:10])
        if m in ("VEmpty", "VCorrupt") or m.startswith("VMsgNotSupported"):
            return None if res.startswith("ERR") else "a message without a wire form was not refused: %s" % res[:40]
        if res.startswith("OK "):
            n = int(m[4:m.index("(")])
            return frame_well_formed(unhex(res[3:]), n)
        return None

    def nontrivial(self, op, res):
        return True


@register
class C01(Prop):
    id = "C01"
    nostd = True          # also run on the library built without its `std` feature
    module = "C01"
    theorems = ["C01_plain_count", "C01_decode_local", "C01_decoded_fixed_point", "C01_counts_ok", "C01_accepted_decodes", "C01_layouts_fit", "C01_numbers_fit", "C01_build_decodes"]
    partial_note = ("partial: for the 55 plain layouts (fields, structs, the three list forms, descriptor strings) it is proved that every body the encoder accepts decodes (never an error), with the same shape (list lengths and order), "
                    "to a value that is a fixed point of encode-then-decode, and that a body decoded from any buffer is such a fixed point (the encoder accepts it, writes as many bits as were read, "
                    "touches no earlier bit, decoding gives the same value); and at the public API: every frame build_message returns for such a message, from any builder history, is accepted by "
                    "MessageFrame::new, carries the message number and get_message returns a typed message of that number (never Corrupt/Empty/MsgNotSupported). "
                    "Byte-for-byte equality of the re-encoded frame for values the encoder wraps or saturates and the MSM / SSR bias / 1230 / free-text layouts are covered by the correspondence and the ROUNDTRIP, ROUNDTRIPH and REDECODE probes only")
    rule = ("ROUNDTRIP (E m, D(E m), E(D(E m)), D(E(D(E m)))) on generated messages of all types: on-grid and off-grid reals, boundary and out-of-range integers, NaN/inf, "
            "absent/present optionals, every list length class, permuted MSM lists, duplicate keys, unrecognised bias signals, arbitrary text; REDECODE (D f, E(D f), D(E(D f))) on "
            "CRC-valid frames with random payloads for every number; canonical bias frames (REDECODE), 1230 lists that repeat a signal, texts through both public constructors; non-trivial = distinct operations whose first build / decode succeeds")

    def gen(self, ctx):
        q = ctx.tier == "quick"
        rng = ctx.rng
        g = get_gen(ctx)
        ops = message_ops(ctx, 14 if q else 300, 12 if q else 300, "ROUNDTRIP")
        for n in g.numbers:
            for _ in range(10 if q else 300):
                L = rng.choice([8, 16, 40, 100, 300, rng.randint(2, 600)])
                ops.append("REDECODE %s" % hx(frame_of_payload(n, rng, L, rng.choice(["rand", "rand", "zero", "ones"]))))
        # the first build made by a builder that already built (or failed to build) something else
        fails = failing_messages(ctx)
        for n in g.numbers:
            for _ in range(2 if q else 30):
                ops.append("ROUNDTRIPH %s %s" % (g.gen_msg(n, "valid", n=rng.choice([0, 1, 2])), rng.choice(fails)))
        # sign-magnitude fields just beyond their range (a saturated / first out-of-range magnitude)
        for n in g.numbers:
            lay = g.layouts[n]
            if lay["k"] != "struct":
                continue
            for i, (_, f) in enumerate(lay["fields"]):
                if f["k"] == "field" and g.fields[f["id"]]["ck"] == "SM" and g.fields[f["id"]]["dt"] in ("f32", "f64"):
                    fd = g.fields[f["id"]]
                    for mult in (-1, 1, -2, -3):
                        m = vt.parse_msg(g.gen_msg(n, "valid"))
                        x = g.float_of_pattern(fd, mult * (1 << (fd["len"] - 1)))
                        m[2][1][i] = g.fbits(fd, x) if fd["inv"] is None else ("S", g.fbits(fd, x))
                        ops.append("ROUNDTRIP " + vt.show_msg(m))
                    if not q:
                        continue
                    break
        # canonical frames of the three hand-written bias codecs, every boundary bit pattern of the bias field
        ops += bias_pattern_ops(ctx, full=False, n_random=100 if q else 3000)
        # 1230 lists that repeat a signal (the encoder accepts them; the frame then carries more biases than mask bits):
        # still "a message of the same type, never Corrupt", and decoding twice agrees
        if 1230 in g.layouts:
            hdr = vt.parse_msg(g.gen_msg(1230, "valid"))[2][1][:-1]
            for keys in ([(1, 67), (2, 80), (2, 80)], [(1, 67), (1, 67)], [(2, 67)] * 4, [(1, 80), (1, 67), (1, 80), (2, 67)]):
                ents = [("T", [("G", b0, c0), ("f", f32_bits(0.02 * (i + 1)))]) for i, (b0, c0) in enumerate(keys)]
                ops.append("ROUNDTRIP " + vt.show_msg(("Msg", 1230, ("T", hdr + [("L", ents)]))))
        return ops

    def proj(self, op, res):
        return res

    def probe(self, op, res, ctx):
        if res.startswith("PANIC"):
            return None      # C02 / C09
        g = get_gen(ctx)
        if "#biaspat" in op:
            return bias_pattern_probe(op, res)
        if op.startswith("ROUNDTRIP"):
            if not res.startswith("OK "):
                return None
            if res.startswith("BADVAL"):
                return None
            m = op.split(" ")[1]
            n = int(m[4:m.index("(")]) if m.startswith("VMsg") and not m.startswith("VMsgNot") else None
            if " D1 " not in res:
                return "the emitted frame is not a valid frame: %s" % res[-40:]
            d1s = res.split(" D1 ")[1].split(" ")[0]
            if not d1s.startswith("VMsg%d(" % n):
                return "an accepted message of type %d decodes to %s" % (n, d1s[:30])
            if " E2ERR " in res:
                return "the decoded message is refused by the encoder: %s" % res.split(" E2ERR ")[1][:30]
            if "FRAMEERR" in res:
                return "re-encoded frame is not valid"
            msg = vt.parse_msg(m)
            exempt = _has_dup_or_unrecognised(g, msg)
            if " E2 same" not in res:
                if not exempt:
                    return "re-encoding the decoded message does not reproduce the frame (type %d)" % n
            if " D2EQ true" not in res:
                d2s = res.split(" D2 ")[1] if " D2 " in res else ""
                return "decoding twice gives different messages (type %d)" % n
            return None
        if op.startswith("REDECODE"):
            if not res.startswith("D1 VMsg") or res.startswith("D1 VMsgNot"):
                return None
            if " E1ERR " in res:
                return None
            if "FRAMEERR" in res:
                return "encoding a decoded message gave an invalid frame"
            if " D2EQ true" in res:
                return None
            d1 = vt.parse_msg(res.split(" ")[1])
            d2s = res.split(" D2 ")[1]
            d2 = vt.parse_msg(d2s.split(" ")[0])
            if d1[0] == "Msg" and d2[0] == "Msg" and d1[1] == d2[1] and d1[1] in (1059, 1065):
                if _group_sorted(d1) == _group_sorted(d2):
                    return None
            return "a decoded message of type %s is not a fixed point of encode/decode" % (d1[1] if d1[0] == "Msg" else d1[0])
        return None

    def nontrivial(self, op, res):
        return res.startswith("OK ") or res.startswith("D1 VMsg1")


def _norm_strings(lay, v):
    """what the public string constructors keep of the strings of a message value"""
    k = lay["k"]
    if k == "str":
        return ("C", [from_char(c) for c in v[1][:lay["cap"]]])
    if k == "utf8":
        return ("C", utf8_prefix(v[1], 255))
    if k == "struct":
        return ("T", [_norm_strings(f, x) for (_, f), x in zip(lay["fields"], v[1])])
    if k == "lenmid":
        n1, n2 = len(lay["fields1"]), len(lay["fields2"])
        out = [_norm_strings(f, x) for (_, f), x in zip(lay["fields1"], v[1][:n1])]
        out += [_norm_strings(f, x) for (_, f), x in zip(lay["fields2"], v[1][n1:n1 + n2])]
        out.append(("L", [_norm_strings(lay["elem"], x) for x in v[1][-1][1]]))
        return ("T", out)
    if k in ("veclen", "grid16"):
        return ("L", [_norm_strings(lay["elem"], x) for x in v[1]])
    return v


def _group_sorted(m):
    lst = m[2][1][-1][1]
    groups = {}
    for e in lst:
        groups.setdefault(e[1][0][1], []).append(vt.show(e))
    return sorted(groups.items())


def _has_dup_or_unrecognised(g, msg):
    if msg[0] != "Msg":
        return False
    n = msg[1]
    if n in (1059, 1065):
        table = {(b, c) for b, c, _ in g.ssr[str(n)]}
        ents = [(e[1][0][1], (e[1][1][1], e[1][1][2])) for e in msg[2][1][-1][1]]
        return any(sg not in table for _, sg in ents) or len(set(ents)) != len(ents)
    if n == 1230:
        ents = [(e[1][0][1], e[1][0][2]) for e in msg[2][1][-1][1]]
        return len(set(ents)) != len(ents)
    return False


# =====================================================================================
@register
class C15(Prop):
    id = "C15"
    nostd = True          # also run on the library built without its `std` feature
    module = "C15"
    theorems = ["C15_layouts_fit", "C15_counts_fit", "C15_size", "C15_truncated", "C15_over_capacity_vec", "C15_over_capacity_str", "C15_no_utf8_all_but_1029",
                "C15_lists_survive", "C15_shape_list"]
    partial_note = ("proved for the 55 plain layouts: size bound (every accepted message fits 8184 bits), count fields wide enough for their capacity, capacity rejection, 'a successful "
                    "decode never reads past the payload', and 'whatever the encoder accepts decodes with the same shape' (every list keeps its number of elements and their order at "
                    "every nesting level, so the count on the wire is the number of elements). Partial: message 1029 (free text) is covered by the correspondence only; MSM and code-bias "
                    "structures are C10/C16")
    table_obligations = ["counts_fit", "layouts_fit"]
    rule = ("for every list-bearing message type of the regenerated layouts: ROUNDTRIP with n elements for n in {0,1,2,cap-1,cap} and random n (thorough: every n), the count field read back "
            "from the wire; DECODE of frames with every count value above the capacity patched in; DECODE of every truncation of a full-length frame (re-framed, valid CRC); "
            "the same list type built five times on one builder (full, empty, one, half, full); the 1029 text at its byte and character capacities; lists of the smallest admissible elements; truncated frames followed by more bytes; non-trivial = distinct operations on messages with at least one element")

    def list_types(self, g):
        out = []
        for n in g.numbers:
            lay = g.layouts[n]
            if g.is_msm(n):
                continue
            lists = g.find_lists(lay)
            tops = [x for x in lists if "elem" not in x[0]]
            if tops:
                out.append((n, tops))
        return out

    def count_pos(self, g, n, path, kind):
        lay = g.layouts[n]
        if kind == "lenmid":
            return 12 + sum(g.fields[f["id"]]["len"] for _, f in lay["fields1"])
        if lay["k"] == "struct" and len(path) == 1:
            b = g.bits_before(lay["fields"], path[0])
            return None if b is None else 12 + b
        return None

    def gen(self, ctx):
        rng = ctx.rng
        g = get_gen(ctx)
        ops = []
        enc_full = []
        for n, tops in self.list_types(g):
            # drive the first list/str of the layout (generator's n applies to all lists of the message)
            caps = [c for _, k, c, _ in tops if k != "str"]
            if caps:
                cap = max(caps)
                ns = {0, 1, 2, cap - 1, cap, rng.randint(0, cap), rng.randint(0, cap)} if ctx.tier == "quick" else set(range(cap + 1))
                for k in sorted(x for x in ns if 0 <= x <= cap):
                    mode = rng.choice(["valid", "valid", "hostile"]) if k < cap else "valid"
                    ops.append("ROUNDTRIP %s #n=%d" % (g.gen_msg(n, mode, n=min(k, min(caps)) if len(set(caps)) > 1 and k > min(caps) else k), k))
                    # the same count with the smallest elements the types admit (every string empty)
                    mm = g.gen_msg(n, "valid", n=min(k, min(caps)) if len(set(caps)) > 1 and k > min(caps) else k)
                    m0 = vt.parse_msg(mm)
                    m1 = ("Msg", m0[1], _empty_strings(m0[2]))
                    if m1 != m0:
                        ops.append("ROUNDTRIP %s #n=%d min" % (vt.show_msg(m1), k))
                enc_full.append(("ENCODE " + g.gen_msg(n, "valid", n=min(caps)), n))
            else:
                for _ in range(4):
                    ops.append("ROUNDTRIP %s #str" % g.gen_msg(n, "valid"))
                enc_full.append(("ENCODE " + g.gen_msg(n, "valid"), n))
        # the same list type built several times on ONE builder: a full list first (frames of 256..1023 payload bytes), then
        # empty, one element, half -- the length field and the count on the wire must be those of each message
        for n, tops in self.list_types(g):
            caps = [c for _, k, c, _ in tops if k != "str"]
            if not caps:
                continue
            cap = min(caps)
            seq = [g.gen_msg(n, "valid", n=k) for k in (cap, 0, 1, cap // 2)]
            seq.append(seq[0])
            ops.append("BUILDSEQ " + " ".join(seq))
        # hand-built 1007 frames (descriptor of n characters) with NUL bytes among the characters: the decoded string has n elements
        if 1007 in g.layouts:
            for n_, zeros in ((5, (2,)), (1, (0,)), (31, (0, 30)), (8, (3, 4, 5)), (31, tuple(range(31)))):
                desc = bytes(0 if i in zeros else 65 + (i % 26) for i in range(n_))
                b = set_bits(bytes(4 + n_ + 1), 0, 12, 1007)
                b = set_bits(b, 24, 8, n_)
                ops.append("DECODE %s #desc:%d:%s" % (hx(mkframe(b[:4] + desc + b"\x07")), n_, desc.hex()))
        # the free text of 1029 at its two capacities (255 bytes, 127 characters) and just below
        if 1029 in g.layouts:
            for cps, tg in (([0x4e65] * 85, "255b"), ([0x4e65] * 84 + [0xe9], "254b"), ([0xe9] * 126 + [0x20ac], "255b"), ([0x61] * 127, "127c"), ([0xe9] * 127, "254b"), ([0x1f600] * 63 + [0x4e65], "255b")):
                ops.append("ROUNDTRIP VMsg1029(T{i1,i2,i3,C%s}) #text:%s" % (".".join(map(str, cps)), tg))
        r = ctx.run_impl([o for o, _ in enc_full], "rel", "c15a")
        for (o, n), x in zip(enc_full, r):
            if not x.startswith("OK "):
                continue
            f = unhex(x[3:])
            pl = f[3:-3]
            tops = dict((n2, t) for n2, t in self.list_types(g))[n]
            # counts above capacity
            for path, kind, cap, lb in tops:
                pos = self.count_pos(g, n, path, kind)
                if pos is None:
                    continue
                for cnt in range(cap + 1, 1 << lb):
                    if ctx.tier == "quick" and cnt not in (cap + 1, (1 << lb) - 1) and rng.random() < 0.8:
                        continue
                    body = set_bits(pl, pos, lb, cnt)
                    # give the decoder plenty of bytes so that only the capacity can be the reason
                    body = body + bytes(1023 - len(body))
                    ops.append("DECODE %s #overcap:%d:%d" % (hx(mkframe(body)), n, cnt))
            # truncations
            cuts = range(2, len(pl)) if (ctx.tier == "thorough" or len(pl) < 40) else sorted(set([2, 3, len(pl) - 1, len(pl) - 2] + [rng.randrange(2, len(pl)) for _ in range(6)]))
            for c in cuts:
                ops.append("DECODE %s #trunc:%d" % (hx(mkframe(pl[:c])), n))
            # the same truncated frames followed by more bytes in the caller's buffer (a stream): the bytes behind the
            # frame must not be taken for its body
            tails = [pl + f[-3:] + f, bytes(rng.getrandbits(8) for _ in range(200)), bytes(300)]
            for c in (cuts if ctx.tier == "thorough" else list(cuts)[:6]):
                for t in (tails if ctx.tier == "thorough" else [tails[0], rng.choice(tails[1:])]):
                    ops.append("DECODE %s #trunc+tail:%d" % (hx(mkframe(pl[:c]) + pl[c:] + t), n))
        return ops

    def probe(self, op, res, ctx):
        toks, tag = tagged(op)
        g = get_gen(ctx)
        if res.startswith("PANIC"):
            return "%s panicked" % toks[0]
        if toks[0] == "DECODE" and tag.startswith("desc:"):
            _, n_s, dh = tag.split(":")
            want = [164 if c == 0 else c for c in bytes.fromhex(dh)]
            if not res.startswith("VMsg1007("):
                return "a 1007 frame with a %s-character descriptor decoded to %s" % (n_s, res[:30])
            got = vt.parse_msg(res.split(" ")[0])[2][1][1][1]
            if got != want:
                return "descriptor of %s characters on the wire came back with %d: %r.." % (n_s, len(got), got[:8])
            return None
        if toks[0] == "DECODE":
            if tag.startswith("overcap"):
                return None if res.startswith("VCorrupt") else "a frame whose count field exceeds the capacity (%s) decoded to %s" % (tag, res[:30])
            if tag.startswith("trunc"):
                return None if res.startswith("VCorrupt") else "a frame whose body is shorter than its count implies decoded to %s" % res[:30]
            return None
        if toks[0] == "BUILDSEQ":
            num = int(toks[1][4:toks[1].index("(")])
            parts = res.split(" ; ")
            for j, (r, k) in enumerate(zip(parts, ("all", "0", "1", "half of the", "all"))):
                if not r.startswith("OK "):
                    return "build %d on a reused builder (type %d, %s elements) gave %s" % (j + 1, num, k, r[:30])
                bad = frame_well_formed(unhex(r[3:]), num)
                if bad:
                    return "build %d on a reused builder (type %d, %s elements): %s" % (j + 1, num, k, bad)
            # the first and the last build are the same message: the same frame
            if parts[0] != parts[-1]:
                return "the same full list (type %d) built first and fifth on one builder gives different frames" % num
            return None
        if toks[0] == "ROUNDTRIP" and tag.startswith("text:"):
            if not res.startswith("OK ") or " D1 VMsg1029(" not in res:
                return "a 1029 text at its capacity (%s) does not encode and decode: %s" % (tag[5:], res[:40])
            msg = vt.parse_msg(toks[1])
            d1 = vt.parse_msg(res.split(" D1 ")[1].split(" ")[0])
            if d1[2][1][-1][1] != msg[2][1][-1][1]:
                return "a 1029 text at its capacity (%s) comes back with %d characters instead of %d" % (tag[5:], len(d1[2][1][-1][1]), len(msg[2][1][-1][1]))
            return None
        if toks[0] == "ROUNDTRIP":
            msg = vt.parse_msg(toks[1])
            n = msg[1]
            if not res.startswith("OK "):
                if res.startswith("ERR") and _all_fields_valid_mode(op):
                    return "a message with an admissible list was refused: %s" % res[:40]
                return None
            f = unhex(res.split(" ")[1])
            if len(f) > 1029:
                return "frame exceeds 1029 bytes"
            if " D1 " not in res:
                return "emitted frame invalid"
            d1 = vt.parse_msg(res.split(" D1 ")[1].split(" ")[0])
            if d1[0] != "Msg":
                return "a message with an admissible list decodes to %s" % d1[0]
            tops = dict((n2, t) for n2, t in self.list_types(g))[n]
            pl = f[3:-3]
            for path, kind, cap, lb in tops:
                if kind == "lenmid":
                    lst_in = msg[2][1][-1][1]
                    lst_out = d1[2][1][-1][1]
                elif kind == "veclen":
                    lst_in = msg[2][1][path[0]][1]
                    lst_out = d1[2][1][path[0]][1]
                else:
                    continue
                if len(lst_in) != len(lst_out):
                    return "list of %d elements came back with %d" % (len(lst_in), len(lst_out))
                pos = self.count_pos(g, n, path, kind)
                if pos is not None and get_bits(pl, pos, lb) != len(lst_in):
                    return "count field on the wire is %d for %d elements" % (get_bits(pl, pos, lb), len(lst_in))
            if " E2 same" not in res:
                return "re-encoding the decoded list message changes the frame (order or content not preserved)"
        return None

    def nontrivial(self, op, res):
        return "#n=0" not in op


def _all_fields_valid_mode(op):
    return False


def _empty_strings(v):
    """the same value with every string emptied (the smallest admissible element of a list of strings)"""
    k = v[0]
    if k == "C":
        return ("C", [])
    if k == "S":
        return ("S", _empty_strings(v[1]))
    if k in ("L", "T"):
        return (k, [_empty_strings(x) for x in v[1]])
    return v


# =====================================================================================
@register
class C20(Prop):
    id = "C20"
    module = "C20"
    theorems = ["C20_88591", "C20_array_string"]
    partial_note = ("partial: the two hand-written serde impls are modelled and proved; the derived impls (serde_derive output) are exercised by the SERDE operations only")
    rule = ("SERDE on generated messages of all types (descriptor strings with high Latin-1 at capacity, text at 255 bytes, lists at capacity, absent optionals, no NaN) and SERDEFRAME "
            "on decoded random frames: serialise into the harness's self-describing tree, deserialise, compare with ==; every signal of the three bias tables, extreme floats (largest / smallest finite, subnormal, zeros, infinities), texts with NUL characters; non-trivial = distinct messages")

    def gen(self, ctx):
        rng = ctx.rng
        g = get_gen(ctx)
        q = ctx.tier == "quick"
        ops = message_ops(ctx, 5 if q else 300, 3 if q else 100, "SERDE")
        for num in (1007, 1008, 1033, 1021, 1022, 1300, 1302):
            if num in g.layouts:
                for _ in range(6):
                    m = vt.parse_msg(g.gen_msg(num, "valid"))
                    for i, (_, f) in enumerate(g.layouts[num]["fields"]):
                        if f["k"] == "str":
                            m[2][1][i] = ("C", [rng.choice([233, 255, 128, 164, 65]) for _ in range(f["cap"])])
                    ops.append("SERDE " + vt.show_msg(m))
        if 1029 in g.layouts:
            ops.append("SERDE VMsg1029(T{i1,i2,i3,C%s})" % ".".join(["8364"] * 85))
            ops.append("SERDE VMsg1029(T{i1,i2,i3,C%s})" % ".".join(["233"] * 127))
        for n in g.numbers:
            for _ in range(3 if q else 100):
                ops.append("SERDEFRAME %s" % hx(frame_of_payload(n, rng, rng.choice([20, 60, 200, 500]), "rand")))
        ops += ["SERDE VEmpty", "SERDE VCorrupt", "SERDE VMsgNotSupported(T{i4000})"]
        # every signal identifier of the three bias tables once (a validation on one table must not reject an identifier
        # another table admits)
        for num in (1059, 1065):
            if num in g.layouts:
                hdr = vt.parse_msg(g.gen_msg(num, "valid"))[2][1][:-1]
                ents = [("T", [("i", 3), ("G", b0, c0), ("f", f32_bits(0.25))]) for b0, c0, _ in g.ssr[str(num)]]
                ops.append("SERDE " + vt.show_msg(("Msg", num, ("T", hdr + [("L", ents)]))) + " #allsig")
        if 1230 in g.layouts:
            hdr = vt.parse_msg(g.gen_msg(1230, "valid"))[2][1][:-1]
            ents = [("T", [("G", b0, c0), ("f", f32_bits(0.5))]) for b0, c0 in ((1, 67), (1, 80), (2, 67), (2, 80))]
            ops.append("SERDE " + vt.show_msg(("Msg", 1230, ("T", hdr + [("L", ents)]))) + " #allsig")
            # every kind of float a caller can put into the message (no NaN): largest and smallest finite, subnormal, zeros, infinities
            for fb in (0x7F7FFFFF, 0xFF7FFFFF, 0x00000001, 0x80000001, 0x00800000, 0x00000000, 0x80000000, 0x7F800000, 0xFF800000, 0x3F7FFFFF):
                ents = [("T", [("G", 1, 67), ("f", fb)])]
                ops.append("SERDE " + vt.show_msg(("Msg", 1230, ("T", hdr + [("L", ents)]))) + " #allsig")
        for num in (1059, 1065):
            if num in g.layouts:
                hdr = vt.parse_msg(g.gen_msg(num, "valid"))[2][1][:-1]
                b0, c0, _ = g.ssr[str(num)][0]
                for fb in (0x7F7FFFFF, 0xFF7FFFFF, 0x00000001, 0x80000000, 0x7F800000):
                    ops.append("SERDE " + vt.show_msg(("Msg", num, ("T", hdr + [("L", [("T", [("i", 1), ("G", b0, c0), ("f", fb)])])]))) + " #allsig")
        # texts with NUL characters at the end, at the start and alone
        if 1029 in g.layouts:
            for cps in ([114, 101, 115, 116, 0], [0], [0, 0, 0], [0, 97], [97, 0, 98, 0]):
                ops.append("SERDE VMsg1029(T{i1,i2,i3,C%s}) #allsig" % ".".join(map(str, cps)))
        for num in (1007, 1033):
            if num in g.layouts:
                m = vt.parse_msg(g.gen_msg(num, "valid"))
                for i, (_, f) in enumerate(g.layouts[num]["fields"]):
                    if f["k"] == "str":
                        m[2][1][i] = ("C", [65, 66, 164])
                ops.append("SERDE " + vt.show_msg(m) + " #allsig")
        # frames built byte by byte (not through any constructor): text of 250..255 bytes, descriptors at capacity
        if 1029 in g.layouts:
            for cps in ([0x6e2c] * 85, [0x44f] * 125 + [49, 50, 51, 52, 53], [97] * 127, [0x6e2c] * 84 + [0xe9, 97], [0x1f600] * 63 + [97, 98, 99]):
                text = "".join(chr(c) for c in cps).encode("utf-8")
                b = set_bits(bytes(9 + len(text)), 0, 12, 1029)
                b = set_bits(b, 57, 7, len(cps))
                b = set_bits(b, 64, 8, len(text))
                ops.append("SERDEFRAME %s" % hx(mkframe(b[:9] + text)))
        if 1007 in g.layouts:
            for n in (31, 30, 16):
                desc = bytes(rng.choice([233, 252, 65, 255, 128]) for _ in range(n))
                b = set_bits(bytes(4 + n + 1), 0, 12, 1007)
                b = set_bits(b, 24, 8, n)
                ops.append("SERDEFRAME %s" % hx(mkframe(b[:4] + desc + b"\x07")))
        return ops

    def proj(self, op, res):
        return None          # the model does not run serde: only the probes speak (and C20's theorems)

    def probe(self, op, res, ctx):
        if res.startswith("PANIC"):
            return "serde round trip panicked"
        if op.endswith("#allsig") and not res.startswith("EQ true"):
            # the harness itself builds the message through Deserialize: a refusal here is a refusal of a valid message
            return "a valid message (all signals in its own table, finite or infinite floats, any text) does not pass through serde unchanged: %s" % res[:70]
        if res.startswith("EQ "):
            t = res.split(" ")
            if t[3] == "true" and t[1] != "true":
                return "message differs after a serde round trip"
            # the serialised tree must be the input message (strings as the public constructors keep them)
            if op.startswith("SERDE VMsg") and not op.startswith("SERDE VMsgNot"):
                g = get_gen(ctx)
                try:
                    want = vt.parse_msg(op.split(" ")[1])
                    got = vt.parse_msg(t[4])
                except Exception:
                    return None
                if want[0] == "Msg" and want[1] in g.layouts:
                    w = _norm_strings(g.layouts[want[1]], want[2])
                    if got[0] != "Msg" or got[1] != want[1] or vt.show(got[2]) != vt.show(w):
                        return "the message that serde hands back differs from the one put in (type %d)" % want[1]
        if res.startswith("DEERR") or res.startswith("SERERR"):
            return "serde round trip failed: %s" % res[:60]
        return None

    def nontrivial(self, op, res):
        return res.startswith("EQ ")


# =====================================================================================
@register
class C19(Prop):
    id = "C19"
    module = "C19"
    theorems = ["C19_features_closed", "C19_closed", "C19_hand_fields_gated", "C19_dispatch_empty", "C19_single_arms", "C19_dispatch_single"]
    table_obligations = ["features_closed"]
    partial_note = ("partial: the cfg gating tables are modelled and proved closed for every feature subset; that rustc accepts each selection and that a single-feature build "
                    "decodes like the full build is enumerated by running the compiler (quick: empty, all_msgs without std, 6 seeded single features incl. one with serde, "
                    "2 single-feature decode comparisons; thorough: every single feature)")
    rule = ("configurations: cargo check --no-default-features for {empty, all_msgs, seeded single features (always one per shared fragment module and per hand-written field codec)}, "
            "one with serde; decode comparison of single-feature builds against the full build on test-vector and random frames of every number; "
            "non-trivial = distinct configurations / distinct compared frames")

    def corpus(self, ctx):
        return []

    def gen(self, ctx):
        # the frames that the single-feature builds are compared on (also run through the full build + model)
        rng = ctx.rng
        ops = []
        for f in gf.testdata_frames()[:: (2 if ctx.tier == "quick" else 1)]:
            ops.append("DECODE %s" % hx(f))
        g = get_gen(ctx)
        for n in g.numbers:
            ops.append("DECODE %s" % hx(frame_of_payload(n, rng, rng.choice([30, 80, 200]), "rand")))
        for n in (0, 1000, 1018, 1028, 4095):
            ops.append("DECODE %s" % hx(frame_of_payload(n, rng, 20, "rand")))
        ops.append("DECODE %s" % hx(mkframe(b"")))
        # the shortest frames that carry a number (2 and 3 payload bytes), for every supported number and some others
        for n in list(g.numbers) + [0, 1, 1000, 1028, 4094, 4095]:
            for extra in (b"", b"\x00"):
                ops.append("DECODE %s" % hx(mkframe(bytes([(n >> 4) & 0xFF, (n & 15) << 4]) + extra)))
        return ops

    def probes(self, ops, rel, chk, ctx):
        out = []
        t = ctx.tables
        rng = ctx.rng
        feats = sorted(k for k in t["cargo_features"] if k.startswith("msg") and k[3:].isdigit())
        shared = {sm["module"]: sm["features"] for sm in t["shared_modules"]}
        must = []
        for sm, fl in shared.items():
            users = [f for f, deps in t["uses"].items() if sm in deps]
            if users:
                must.append(rng.choice(sorted(users)))
        must += [h["feature"] for h in t["hand_mods"]]       # every feature with a hand-written field codec, on both tiers
        # suspects first: message! rows, include_msg! rows or cfg lists that are not of the regular shape
        suspects = set()
        for row in t["messages"]:
            want = "msg%d" % row["number"]
            if row["feature"] != want or row["module"] != want or row["variant"] != "Msg%d" % row["number"]:
                suspects |= {row["feature"], want}
        for inc in t["includes"]:
            if inc["feature"] != inc["module"]:
                suspects |= {inc["feature"], inc["module"]}
        for mod_, deps in t["uses"].items():
            for sm in deps:
                if mod_ not in shared.get(sm, []):
                    suspects.add(mod_)
        for h in t["hand_mods"]:
            pass
        # message types on whose frames the model (regenerated tables) and the full build disagree: the single-feature builds of
        # exactly those types are compared first (a constant or table that depends on the feature selection shows there)
        model = getattr(ctx, "model", None)
        if model:
            for o, m_, c_ in zip(ops, model, chk):
                if o.startswith("DECODE ") and m_.split(" ")[0] != c_.split(" ")[0]:
                    d = unhex(o.split(" ")[1])
                    if len(d) >= 5 and (((d[1] & 3) << 8) | d[2]) >= 2:
                        suspects.add("msg%d" % ((d[3] << 4) | (d[4] >> 4)))
        # literal feature names outside the module that gates the hand-written field codecs (everything else is generated by the
        # message! / include_msg! tables): an irregular cfg, its features are suspects too
        import glob as _glob
        for fn in _glob.glob(os.path.join(REPO, "src", "**", "*.rs"), recursive=True):
            if fn.endswith(os.path.join("df", "dfs.rs")):
                continue
            for m_ in re.findall(r'feature\s*=\s*"(msg\d+)"', open(fn).read()):
                suspects.add(m_)
        suspects = sorted(x for x in suspects if x in feats)
        singles = feats if ctx.tier == "thorough" else sorted(set(must + rng.sample(feats, 2) + suspects))
        tdir = os.path.join(CACHE, "target-feat")
        configs = [("empty", []), ("all_msgs", ["all_msgs"])] + [(f, [f]) for f in singles]
        serde_cfg = rng.choice(singles)
        configs.append((serde_cfg + "+serde", [serde_cfg, "serde"]))
        self.config_results = {}
        for name, fl in configs:
            cmd = "cargo check --offline --lib --no-default-features" + (" --features " + ",".join(fl) if fl else "")
            rc, o, e = sh(cmd, cwd=REPO, timeout=900, env={"CARGO_TARGET_DIR": tdir})
            self.config_results[name] = rc
            if rc != 0:
                errs = [l for l in e.splitlines() if l.startswith("error")][:3]
                out.append((0, "the crate does not build without std with feature selection {%s}: %s" % (",".join(fl), " | ".join(errs)[:300])))
        # decode comparison
        hd = os.path.join(ROOT, "harness-feat")
        toml = ['[package]', 'name = "rtcm-verif-feat"', 'version = "0.1.0"', 'edition = "2021"', '', '[workspace]', '',
                '[dependencies]', 'rtcm-rs = { path = "%s", default-features = false, features = ["serde", "std"] }' % REPO,
                'serde = { version = "1.0", default-features = false, features = ["std"] }', '', '[features]']
        for f in feats:
            toml.append('%s = ["rtcm-rs/%s"]' % (f, f))
        content = "\n".join(toml) + "\n"
        tp = os.path.join(hd, "Cargo.toml")
        if not os.path.exists(tp) or open(tp).read() != content:
            open(tp, "w").write(content)
        lock_src = os.path.join(ROOT, "harness", "Cargo.lock")
        if os.path.exists(lock_src) and not os.path.exists(os.path.join(hd, "Cargo.lock")):
            open(os.path.join(hd, "Cargo.lock"), "w").write(open(lock_src).read().replace("rtcm-verif-harness", "rtcm-verif-feat"))
        opsfile = os.path.join(ctx.workdir, "feat-ops.txt")
        open(opsfile, "w").write("\n".join(ops) + "\n")
        cmp_feats = singles if ctx.tier == "thorough" else sorted(set(rng.sample(singles, 2) + suspects))
        self.compared = 0
        for f in cmp_feats + ["__none__"]:
            fl = [] if f == "__none__" else [f]
            cmd = "cargo build --offline" + (" --features " + ",".join(fl) if fl else "")
            rc, o, e = sh(cmd, cwd=hd, timeout=900, env={"CARGO_TARGET_DIR": os.path.join(CACHE, "target-featbin")})
            if rc != 0:
                out.append((0, "the decode driver does not build with feature selection {%s}: %s" % (f, e[-300:])))
                continue
            rc, o, e = sh([os.path.join(CACHE, "target-featbin", "debug", "rtcm-verif-feat"), opsfile], timeout=300)
            lines = o.split("\n")
            n_f = int(f[3:]) if f != "__none__" else None
            for i, (op, full) in enumerate(zip(ops, rel)):
                if i >= len(lines):
                    out.append((i, "single-feature driver produced no result"))
                    break
                got = lines[i]
                d = unhex(op.split(" ")[1])
                L = ((d[1] & 3) << 8) | d[2]
                num = ((d[3] << 4) | (d[4] >> 4)) if L >= 2 else None
                self.compared += 1
                if num is not None and num == n_f:
                    if got != full:
                        out.append((i, "a build with only feature %s decodes a frame of its own type differently from the full build: '%s' vs '%s'" % (f, got[:60], full[:60])))
                elif num is None:
                    if not got.startswith("VEmpty"):
                        out.append((i, "build {%s}: a frame without a number decodes to %s" % (f, got[:40])))
                else:
                    want = "VMsgNotSupported(T{i%d})" % num
                    if got.split(" ")[0] != want:
                        out.append((i, "a build with only feature %s reports number %d as '%s' instead of unsupported" % (f, num, got[:50])))
        return out[:20]

    def distribution(self, ops, res):
        d = {"configurations_checked": len(getattr(self, "config_results", {})), "frames_compared": getattr(self, "compared", 0)}
        d.update({"cfg:" + k: v for k, v in getattr(self, "config_results", {}).items()})
        return d

    def nontrivial(self, op, res):
        return True

(** C16 -- SSR code-bias and GLONASS bias lists keep every entry or report an error.
    Proofs are in Proofs/BiasProofs.v about Model/Bias.v (transliteration of df_msg1059_biases.rs,
    df_msg1065_biases.rs, df_msg1230_biases.rs after the capacity and count fixes).
    PARTIAL: proved -- decoding any payload never panics and never yields more entries than the list
    capacity; an accepted list has at most 63 satellites and at most 31 recognised entries per satellite
    and fits the list capacity (so no count field can wrap); the SSR signal tables are one-to-one with ids
    that fit 5 bits; and for 1059 and 1065 ([C16_roundtrip_1059/1065], Proofs/BiasRoundTrip.v): whatever
    list the encoder accepts, with every quantised bias inside its 14-bit field (|bias| <= 81.91 m; beyond it
    the field wraps), decodes to exactly its recognised entries, each once, grouped by ascending satellite,
    in list order within a satellite, with the signal unchanged and the bias on its 0.01 m grid.
    For 1230 ([C16_roundtrip_1230], Proofs/Bias1230.v): whatever list with pairwise distinct signals the
    encoder accepts decodes to the same entries, each once, in mask order (L1 C/A, L1 P, L2 C/A, L2 P),
    signal unchanged, bias on its 0.02 m grid (saturating at the 16-bit field); all its signals are among
    the four.  [C16_frame_1059/1065/1230] (Proofs/Ext2Special.v, Proofs/RoundTripAll.v) lift the three
    theorems to the public API: the frame build_message returns for such a message, from any builder history,
    is accepted by MessageFrame::new, carries the number, and get_message returns the typed message whose bias
    list is the one the layout-level theorem describes (never Corrupt). *)
From Coq Require Import ZArith List Lia Bool.
From RtcmModel Require Import Types BitIO SigId Bias Layout Top.
From RtcmGen Require Import GenSignals GenLayouts.
From Coq Require Import Sorting.Permutation Sorting.Sorted.
From RtcmModel Require Import Frame Message.
From RtcmGen Require Import GenMessages.
From RtcmProofs Require Import ListZ SigProofs BiasProofs BitProofs BiasRoundTrip Bias1230 DecodeTotal BuilderProofs SizeProofs BuildProofs RoundTrip RoundTripFrame EncodeTotalAll EncodeFrameAll Ext2Special RoundTripAll.
Import ListNotations.
Open Scope Z_scope.

(** table obligation: the two SSR signal tables are one-to-one and every id fits its 5-bit field *)
Theorem C16_ssr_tables_ok : table_ok 0 31 ssr_table_1059 = true /\ table_ok 0 31 ssr_table_1065 = true.
Proof. split; vm_compute; reflexivity. Qed.

Theorem C16_decode_bounded : forall data off l off',
  (t_decode_frag FBias1059 data off = Ok (VList l, off') -> zlen l <= SAT_CAP_1059) /\
  (t_decode_frag FBias1065 data off = Ok (VList l, off') -> zlen l <= SAT_CAP_1065).
Proof.
  intros data off l off'. split; intros H; cbn in H; eapply cb_decode_bounded; try eassumption; vm_compute; discriminate.
Qed.

Theorem C16_decode_no_panic : forall data off, bytes_ok data = true -> 0 <= off ->
  t_decode_frag FBias1059 data off <> Panic /\ t_decode_frag FBias1065 data off <> Panic.
Proof.
  intros data off Hb Ho. split; cbn [t_decode_frag decode_frag]; apply cb_decode_no_panic; try assumption; lia.
Qed.

(** what an accepted list looks like: no count can wrap in its field *)
Theorem C16_counts_fit_1059 : forall st l es st',
  t_encode_frag FBias1059 st (VList l) = Ok st' -> entries_of_vals l = Some es ->
  zlen es <= SAT_CAP_1059 /\
  exists sat_mask sat_num, cb_mask 63 es 0 0 = Ok (sat_mask, sat_num) /\ sat_num <= 63 /\
    forall s, 0 <= s <= 63 -> Z.testbit sat_mask s = true -> cb_count ssr_table_1059 s es <= 31.
Proof. intros st l es st' H He. cbn [t_encode_frag encode_frag] in H. eapply cb_encode_counts_fit; try eassumption. lia. Qed.

Theorem C16_counts_fit_1065 : forall st l es st',
  t_encode_frag FBias1065 st (VList l) = Ok st' -> entries_of_vals l = Some es ->
  zlen es <= SAT_CAP_1065 /\
  exists sat_mask sat_num, cb_mask 31 es 0 0 = Ok (sat_mask, sat_num) /\ sat_num <= 63 /\
    forall s, 0 <= s <= 31 -> Z.testbit sat_mask s = true -> cb_count ssr_table_1065 s es <= 31.
Proof. intros st l es st' H He. cbn [t_encode_frag encode_frag] in H. eapply cb_encode_counts_fit; try eassumption. lia. Qed.

(** what the encoder accepts, the decoder returns: with [mask] the set of satellites that occur in the list,
    the decoded list is, for t = 0, 1, 2, .. in this order, the recognised entries of satellite t in list order,
    each with its bias replaced by dequant (quant bias) -- nothing dropped, nothing duplicated *)
Theorem C16_roundtrip_1059 : forall d o l es d' o', bytes_ok d = true -> 0 <= o ->
  entries_of_vals l = Some es -> Forall (fun e => 0 <= be_sat e) es -> Forall in14 (filter (recog ssr_table_1059) es) ->
  t_encode_frag FBias1059 (d, o) (VList l) = Ok (d', o') ->
  exists mask, (forall t, 0 <= t -> Z.testbit mask t = existsb (fun e => be_sat e =? t) es) /\
    t_decode_frag FBias1059 d' o = Ok (VList (map val_of_entry (grouped ssr_table_1059 64 0 mask es)), o').
Proof.
  intros d o l es d' o' Hb Ho He Hn Hi H. cbn [t_encode_frag encode_frag] in H. cbn [t_decode_frag decode_frag].
  exact (cb_encode_decodes ssr_table_1059 (proj1 C16_ssr_tables_ok) SAT_CAP_1059 6 ltac:(lia) 63 ltac:(lia) ltac:(vm_compute; discriminate) d o l es d' o' Hb Ho He Hn Hi H).
Qed.
Theorem C16_roundtrip_1065 : forall d o l es d' o', bytes_ok d = true -> 0 <= o ->
  entries_of_vals l = Some es -> Forall (fun e => 0 <= be_sat e) es -> Forall in14 (filter (recog ssr_table_1065) es) ->
  t_encode_frag FBias1065 (d, o) (VList l) = Ok (d', o') ->
  exists mask, (forall t, 0 <= t -> Z.testbit mask t = existsb (fun e => be_sat e =? t) es) /\
    t_decode_frag FBias1065 d' o = Ok (VList (map val_of_entry (grouped ssr_table_1065 32 0 mask es)), o').
Proof.
  intros d o l es d' o' Hb Ho He Hn Hi H. cbn [t_encode_frag encode_frag] in H. cbn [t_decode_frag decode_frag].
  exact (cb_encode_decodes ssr_table_1065 (proj2 C16_ssr_tables_ok) SAT_CAP_1065 5 ltac:(lia) 31 ltac:(lia) ltac:(vm_compute; discriminate) d o l es d' o' Hb Ho He Hn Hi H).
Qed.

(** table obligation: on the four 1230 signals the order of SigId (by GLONASS signal id) is the mask order *)
Theorem C16_glo_order : forallb (fun i => forallb (fun j => match sig_cmp (sig_table G_glo) (sig1230 i) (sig1230 j), (i ?= j) with
                                                        | Lt, Lt | Eq, Eq | Gt, Gt => true | _, _ => false end) [0; 1; 2; 3]) [0; 1; 2; 3] = true.
Proof. vm_compute. reflexivity. Qed.

(** 1230: the decoded list is a rearrangement of the encoded one (nothing dropped, nothing duplicated), in
    strictly ascending mask position, each entry with its signal unchanged and its bias dequant (quant bias) *)
Theorem C16_roundtrip_1230 : forall d o l es d' o', bytes_ok d = true -> 0 <= o ->
  es1230_of_vals l = Some es -> NoDup (map fst es) ->
  t_encode_frag FBias1230 (d, o) (VList l) = Ok (d', o') ->
  exists sorted, Permutation sorted es /\ StronglySorted (fun x y => idx1230 x < idx1230 y) sorted /\
    (forall e, In e es -> 0 <= idx1230 e <= 3) /\
    t_decode_frag FBias1230 d' o = Ok (VList (map norm1230 sorted), o').
Proof.
  intros d o l es d' o' Hb Ho He Hn H. cbn [t_encode_frag encode_frag] in H. cbn [t_decode_frag decode_frag].
  apply (b1230_encode_decodes (sig_table G_glo) d o l es d' o'); try assumption.
  intros i j Hi Hj. pose proof C16_glo_order as T. rewrite forallb_forall in T. specialize (T i Hi). rewrite forallb_forall in T. specialize (T j Hj).
  destruct (sig_cmp (sig_table G_glo) (sig1230 i) (sig1230 j)), (i ?= j); (reflexivity || discriminate T).
Qed.
Check C16_roundtrip_1230 : forall d o l es d' o', bytes_ok d = true -> 0 <= o ->
  es1230_of_vals l = Some es -> NoDup (map fst es) ->
  t_encode_frag FBias1230 (d, o) (VList l) = Ok (d', o') ->
  exists sorted, Permutation sorted es /\ StronglySorted (fun x y => idx1230 x < idx1230 y) sorted /\
    (forall e, In e es -> 0 <= idx1230 e <= 3) /\
    t_decode_frag FBias1230 d' o = Ok (VList (map norm1230 sorted), o').

(** ---------- at the public API ---------- *)
Lemma caps_nonneg16 : 0 <= SAT_CAP_1059 /\ 0 <= SAT_CAP_1065.
Proof. split; vm_compute; discriminate. Qed.
Lemma layouts_fit16 : forallb (fun m => frag_wfb (snd m) && (12 + max_bits SAT_CAP_1059 SAT_CAP_1065 (snd m) <=? 8184)) messages = true.
Proof. vm_compute. reflexivity. Qed.
Lemma numbers_fit16 : forallb (fun m => (0 <=? fst m) && (fst m <? 4096)) messages = true.
Proof. vm_compute. reflexivity. Qed.

(** the side condition on an accepted 1059 / 1065 list, and what comes back *)
Definition cb_pre (table : sigtable) (v : val) : Prop :=
  exists l es, v = VList l /\ entries_of_vals l = Some es /\ Forall (fun e => 0 <= be_sat e) es /\ Forall in14 (filter (recog table) es).
Definition cb_post (table : sigtable) (nsat : nat) (v v' : val) : Prop :=
  exists l es mask, v = VList l /\ entries_of_vals l = Some es /\ (forall t, 0 <= t -> Z.testbit mask t = existsb (fun e => be_sat e =? t) es) /\
    v' = VList (map val_of_entry (grouped table nsat 0 mask es)).
Definition b1230_pre (v : val) : Prop := exists l es, v = VList l /\ es1230_of_vals l = Some es /\ NoDup (map fst es).
Definition b1230_post (v v' : val) : Prop :=
  exists l es sorted, v = VList l /\ es1230_of_vals l = Some es /\ Permutation sorted es /\
    StronglySorted (fun x y => idx1230 x < idx1230 y) sorted /\ v' = VList (map norm1230 sorted).

Section Api.
  Variable b : builder.
  Hypothesis Hreach : reach sig_table ssr_table_1059 ssr_table_1065 SAT_CAP_1059 SAT_CAP_1065 messages b.

  Lemma to_fresh n v fr : snd (t_build b (MTyped n v)) = Ok fr ->
    exists d', build_on sig_table ssr_table_1059 ssr_table_1065 SAT_CAP_1059 SAT_CAP_1065 messages fresh_data (MTyped n v) = Ok (fr, d').
  Proof.
    intros H. unfold t_build in H.
    rewrite (history_independent sig_table ssr_table_1059 ssr_table_1065 SAT_CAP_1059 SAT_CAP_1065 messages b (MTyped n v) Hreach) in H.
    unfold build_fresh, build in H. cbn [builder_new b_has_run b_data] in H. change (211 :: repeat 0 1028) with fresh_data in H.
    destruct (build_on sig_table ssr_table_1059 ssr_table_1065 SAT_CAP_1059 SAT_CAP_1065 messages fresh_data (MTyped n v)) as [[fr0 d']|e|]; cbn [snd] in H; try discriminate.
    inversion H; subst. exists d'. reflexivity.
  Qed.

  Theorem C16_frame_1059 : forall hdr x fr, snd (t_build b (MTyped 1059 (VStruct (hdr ++ [x])))) = Ok fr -> cb_pre ssr_table_1059 x ->
    exists f hdr' x', frame_new fr = Ok f /\ fr_number f = Some 1059 /\ t_from_frame f = Ok (MTyped 1059 (VStruct (hdr' ++ [x']))) /\
      Forall2 shape hdr hdr' /\ cb_post ssr_table_1059 64 x x'.
  Proof.
    intros hdr x fr H HQ. destruct (to_fresh _ _ _ H) as [d' Hb].
    refine (tail_build_decodes sig_table ssr_table_1059 ssr_table_1065 SAT_CAP_1059 SAT_CAP_1065 messages (proj1 caps_nonneg16) (proj2 caps_nonneg16) layouts_fit16 numbers_fit16
              FBias1059 (cb_pre ssr_table_1059) (cb_post ssr_table_1059 64) _ _ _ _ 1059 layout_1059 _ hdr x fr d' eq_refl eq_refl eq_refl eq_refl Hb HQ).
    - apply special_frame. reflexivity.
    - intros d o v d1 o1 Hbd Ho E [l [es [-> [He [Hn Hi]]]]].
      destruct (C16_roundtrip_1059 d o l es d1 o1 Hbd Ho He Hn Hi E) as [mask [Hm D]].
      eexists. split; [exact D|]. exists l, es, mask. repeat split; assumption.
    - cbn [decode_frag]. apply cb_decode_ext2. lia.
    - intros d off v off' _ _ E. cbn [decode_frag] in E. eapply cb_decode_mono; [|exact E]. lia.
  Qed.

  Theorem C16_frame_1065 : forall hdr x fr, snd (t_build b (MTyped 1065 (VStruct (hdr ++ [x])))) = Ok fr -> cb_pre ssr_table_1065 x ->
    exists f hdr' x', frame_new fr = Ok f /\ fr_number f = Some 1065 /\ t_from_frame f = Ok (MTyped 1065 (VStruct (hdr' ++ [x']))) /\
      Forall2 shape hdr hdr' /\ cb_post ssr_table_1065 32 x x'.
  Proof.
    intros hdr x fr H HQ. destruct (to_fresh _ _ _ H) as [d' Hb].
    refine (tail_build_decodes sig_table ssr_table_1059 ssr_table_1065 SAT_CAP_1059 SAT_CAP_1065 messages (proj1 caps_nonneg16) (proj2 caps_nonneg16) layouts_fit16 numbers_fit16
              FBias1065 (cb_pre ssr_table_1065) (cb_post ssr_table_1065 32) _ _ _ _ 1065 layout_1065 _ hdr x fr d' eq_refl eq_refl eq_refl eq_refl Hb HQ).
    - apply special_frame. reflexivity.
    - intros d o v d1 o1 Hbd Ho E [l [es [-> [He [Hn Hi]]]]].
      destruct (C16_roundtrip_1065 d o l es d1 o1 Hbd Ho He Hn Hi E) as [mask [Hm D]].
      eexists. split; [exact D|]. exists l, es, mask. repeat split; assumption.
    - cbn [decode_frag]. apply cb_decode_ext2. lia.
    - intros d off v off' _ _ E. cbn [decode_frag] in E. eapply cb_decode_mono; [|exact E]. lia.
  Qed.

  Theorem C16_frame_1230 : forall hdr x fr, snd (t_build b (MTyped 1230 (VStruct (hdr ++ [x])))) = Ok fr -> b1230_pre x ->
    exists f hdr' x', frame_new fr = Ok f /\ fr_number f = Some 1230 /\ t_from_frame f = Ok (MTyped 1230 (VStruct (hdr' ++ [x']))) /\
      Forall2 shape hdr hdr' /\ b1230_post x x'.
  Proof.
    intros hdr x fr H HQ. destruct (to_fresh _ _ _ H) as [d' Hb].
    refine (tail_build_decodes sig_table ssr_table_1059 ssr_table_1065 SAT_CAP_1059 SAT_CAP_1065 messages (proj1 caps_nonneg16) (proj2 caps_nonneg16) layouts_fit16 numbers_fit16
              FBias1230 b1230_pre b1230_post _ _ _ _ 1230 layout_1230 _ hdr x fr d' eq_refl eq_refl eq_refl eq_refl Hb HQ).
    - apply special_frame. reflexivity.
    - intros d o v d1 o1 Hbd Ho E [l [es [-> [He Hn]]]].
      destruct (C16_roundtrip_1230 d o l es d1 o1 Hbd Ho He Hn E) as [sorted [Pm [Ss [_ D]]]].
      eexists. split; [exact D|]. exists l, es, sorted. repeat split; assumption.
    - cbn [decode_frag]. apply b1230_decode_ext2.
    - intros d off v off' _ _ E. cbn [decode_frag] in E. eapply b1230_decode_mono; exact E.
  Qed.
End Api.
Check C16_frame_1230 : forall b, reach sig_table ssr_table_1059 ssr_table_1065 SAT_CAP_1059 SAT_CAP_1065 messages b ->
  forall hdr x fr, snd (t_build b (MTyped 1230 (VStruct (hdr ++ [x])))) = Ok fr -> b1230_pre x ->
    exists f hdr' x', frame_new fr = Ok f /\ fr_number f = Some 1230 /\ t_from_frame f = Ok (MTyped 1230 (VStruct (hdr' ++ [x']))) /\
      Forall2 shape hdr hdr' /\ b1230_post x x'.

(** non-vacuity of the 1230 theorem: three entries out of order, one bias beyond the field *)
Example C16_example_1230 :
  match t_encode_frag FBias1230 (repeat 0 10, 3) (VList [VStruct [VSig 2 80; VF32 1065353216]; VStruct [VSig 1 67; VF32 3221225472]; VStruct [VSig 2 67; VF32 1167867904]]) with
  | Ok (d', o') => match t_decode_frag FBias1230 d' 3 with
                   | Ok (VList [VStruct [VSig 1 67; _]; VStruct [VSig 2 67; _]; VStruct [VSig 2 80; _]], o'') => o'' =? o'
                   | _ => false end
  | _ => false end = true.
Proof. vm_compute. reflexivity. Qed.

(** non-vacuity: 40 entries on one satellite are refused (the D7 witness), 31 are accepted *)
Definition entries (n : nat) : list val := map (fun i => VStruct [VInt 7; VSig 1 67; VF32 0]) (seq 0 n).
Example C16_example : is_ok (t_encode_frag FBias1059 (repeat 0 200, 0) (VList (entries 40))) = false /\
                      is_ok (t_encode_frag FBias1059 (repeat 0 200, 0) (VList (entries 31))) = true.
Proof. split; vm_compute; reflexivity. Qed.

Print Assumptions C16_decode_bounded.
Print Assumptions C16_decode_no_panic.
Print Assumptions C16_counts_fit_1059.
Print Assumptions C16_roundtrip_1059.
Print Assumptions C16_roundtrip_1065.
Print Assumptions C16_glo_order.
Print Assumptions C16_roundtrip_1230.
Print Assumptions C16_frame_1059.
Print Assumptions C16_frame_1065.
Print Assumptions C16_frame_1230.

(** MSM data segment: msm_data_seg_frag!, msm_sat_frag!, msm_sig_frag!, mask_len_*, mask_to_id_vec_*,
    cell_mask_id_vec (src/msg/mod.rs, after the two cell-count fixes), statement by statement.
    Value shape: VStruct [VList sats; VList sigs];
      sat row = VStruct (VInt satellite_id :: fields),
      sig row = VStruct (VInt satellite_id :: VSig band cp :: fields). *)
From Coq Require Import ZArith List Bool.
From RtcmModel Require Import Types BitIO Floats Field SigId Bias.
Import ListNotations.
Open Scope Z_scope.

(** mask_len_u32 / mask_len_u64: number of set bits among the low [width] bits *)
Fixpoint popcount_loop (n : nat) (sh : Z) (mask : Z) (counter : Z) : Z :=
  match n with
  | O => counter
  | S n' => popcount_loop n' (sh + 1) mask (counter + (if Z.testbit mask sh then 1 else 0))
  end.
Definition mask_len (width : Z) (mask : Z) : Z := popcount_loop (Z.to_nat width) 0 mask 0.

(** mask_to_id_vec_u32 / _u64: ids (1-based, MSB first) of the set bits *)
Fixpoint mask_ids_loop (n : nat) (i : Z) (width mask : Z) : list Z :=
  match n with
  | O => []
  | S n' => if Z.testbit mask (width - 1 - i) then (i + 1) :: mask_ids_loop n' (i + 1) width mask
            else mask_ids_loop n' (i + 1) width mask
  end.
Definition mask_to_id_vec (width mask : Z) : list Z := mask_ids_loop (Z.to_nat width) 0 width mask.

(** the sat_indx / sig_indx arrays of encode: rank of every set position, 0 elsewhere *)
Fixpoint indx_loop (n : nat) (i : Z) (width mask : Z) (counter : Z) : list Z :=
  match n with
  | O => []
  | S n' => if Z.testbit mask (width - 1 - i)
            then counter :: indx_loop n' (i + 1) width mask (counter + 1)
            else 0 :: indx_loop n' (i + 1) width mask counter
  end.
Definition indx_array (width mask : Z) : list Z := indx_loop (Z.to_nat width) 0 width mask 0.

(** array indexing with bounds check *)
Definition aget (l : list Z) (i : Z) : outcome Z :=
  if (0 <=? i) && (i <? zlen l) then Ok (znth l i) else Panic.

(** cell_mask_id_vec *)
Fixpoint cells_loop (n : nat) (i : Z) (cell_cont_len cell_mask : Z) (sat_vec sig_vec : list Z)
  : outcome (list (Z * Z)) :=
  match n with
  | O => Ok []
  | S n' =>
      if Z.testbit cell_mask (cell_cont_len - 1 - i) then
        s <- aget sat_vec (i / zlen sig_vec) ;;
        g <- aget sig_vec (i mod zlen sig_vec) ;;
        r <- cells_loop n' (i + 1) cell_cont_len cell_mask sat_vec sig_vec ;;
        Ok ((s, g) :: r)
      else cells_loop n' (i + 1) cell_cont_len cell_mask sat_vec sig_vec
  end.

Definition cell_mask_id_vec (sat_mask sig_mask cell_mask : Z) : outcome (option (list Z * list (Z * Z))) :=
  let sat_vec := mask_to_id_vec 64 sat_mask in
  let sig_vec := mask_to_id_vec 32 sig_mask in
  let cell_cont_len := zlen sat_vec * zlen sig_vec in
  if (64 <? cell_cont_len) || (cell_cont_len =? 0) then Ok None
  else
    cv <- cells_loop (Z.to_nat cell_cont_len) 0 cell_cont_len cell_mask sat_vec sig_vec ;;
    Ok (Some (sat_vec, cv)).

(** ---------- value access ---------- *)
Definition sat_row_id (v : val) : option Z :=
  match v with VStruct (VInt s :: _) => Some s | _ => None end.
Definition sig_row_key (v : val) : option (Z * (Z * Z)) :=
  match v with VStruct (VInt s :: VSig b c :: _) => Some (s, (b, c)) | _ => None end.
Definition row_field (skip : nat) (k : nat) (v : val) : option val :=
  match v with VStruct l => nth_error l (skip + k) | _ => None end.

Section Msm.
  Variable tbl : sigtable.

  (** first loop of encode: satellite mask *)
  Fixpoint enc_sat_mask (sats : list val) (sat_mask : Z) : outcome Z :=
    match sats with
    | [] => Ok sat_mask
    | v :: r =>
        match sat_row_id v with
        | None => Panic
        | Some id =>
            if (0 <? id) && (id <=? 64) then
              let sat := 2 ^ (64 - id) in
              if 0 <? Z.land sat sat_mask then Err DuplicateSatellite
              else enc_sat_mask r (Z.lor sat_mask sat)
            else Err InvalidSatelliteId
        end
    end.

  (** second loop: signal mask, satellite mask of the cells, cell list *)
  Fixpoint enc_sig_loop (sigs : list val) (sig_mask sat_sig_mask : Z) (cell_vec : list (Z * Z))
    : outcome (Z * Z * list (Z * Z)) :=
    match sigs with
    | [] => Ok (sig_mask, sat_sig_mask, cell_vec)
    | v :: r =>
        match sig_row_key v with
        | None => Panic
        | Some (sat_id, sg) =>
            if (0 <? sat_id) && (sat_id <=? 64) then
              match to_id tbl sg with
              | None => Err InvalidSignalId
              | Some sig_id =>
                  let sat := 2 ^ (64 - sat_id) in
                  sig <- shl KU 32 1 (32 - sig_id) ;;
                  if 64 <=? zlen cell_vec then Panic          (* ArrayVec::push beyond capacity *)
                  else enc_sig_loop r (Z.lor sig_mask sig) (Z.lor sat_sig_mask sat) (cell_vec ++ [(sat_id, sig_id)])
              end
            else Err InvalidSatelliteId
        end
    end.

  (** third loop: the cell mask *)
  Fixpoint enc_cell_loop (cells : list (Z * Z)) (sat_indx sig_indx : list Z) (sig_mask_len cell_cont_len : Z)
           (cell_mask : Z) : outcome Z :=
    match cells with
    | [] => Ok cell_mask
    | (sat_id, sig_id) :: r =>
        si <- aget sat_indx (sat_id - 1) ;;
        gi <- aget sig_indx (sig_id - 1) ;;
        let cell_indx := si * sig_mask_len + gi in
        a <- usub cell_cont_len 1 ;;
        sh <- usub a cell_indx ;;
        cell <- shl KU 64 1 sh ;;
        if 0 <? Z.land cell cell_mask then Err DuplicateSatelliteSignal
        else enc_cell_loop r sat_indx sig_indx sig_mask_len cell_cont_len (Z.lor cell_mask cell)
    end.

  (** one column of a row fragment: [for v in value.iter() { frag::encode(asm, &v.field)?; }] *)
  Fixpoint enc_column (fs : field_spec) (skip k : nat) (rows : list val) (st : astate) : outcome astate :=
    match rows with
    | [] => Ok st
    | v :: r =>
        match row_field skip k v with
        | None => Panic
        | Some x => st' <- encode_field fs st x ;; enc_column fs skip k r st'
        end
    end.
  Fixpoint enc_columns (specs : list field_spec) (skip k : nat) (rows : list val) (st : astate) : outcome astate :=
    match specs with
    | [] => Ok st
    | fs :: r => st' <- enc_column fs skip k rows st ;; enc_columns r skip (S k) rows st'
    end.

  Definition sat_cmp (a b : val) : comparison :=
    match sat_row_id a, sat_row_id b with
    | Some x, Some y => x ?= y
    | _, _ => Eq
    end.
  Definition sig_row_cmp (a b : val) : comparison :=
    match sig_row_key a, sig_row_key b with
    | Some (s1, g1), Some (s2, g2) =>
        match s1 ?= s2 with
        | Lt => Lt
        | Eq => sig_cmp tbl g1 g2
        | Gt => Gt
        end
    | _, _ => Eq
    end.

  (** msm_sat_frag!::encode / msm_sig_frag!::encode: sort a copy, then column by column *)
  Definition enc_sat_rows (specs : list field_spec) (sats : list val) (st : astate) : outcome astate :=
    enc_columns specs 1 0 (sort_by sat_cmp sats) st.
  Definition enc_sig_rows (specs : list field_spec) (sigs : list val) (st : astate) : outcome astate :=
    enc_columns specs 2 0 (sort_by sig_row_cmp sigs) st.

  (** msm_data_seg_frag!::encode *)
  Definition msm_encode (sat_specs sig_specs : list field_spec) (st : astate) (v : val) : outcome astate :=
    match v with
    | VStruct [VList sats; VList sigs] =>
        if (64 <? zlen sats) || (64 <? zlen sigs) then Panic        (* DataVec<_,64> cannot hold them *)
        else
        match sats, sigs with
        | [], [] =>
            st1 <- put KU 64 (fst st) (snd st) 0 64 ;;
            put KU 32 (fst st1) (snd st1) 0 32
        | _, _ =>
            sat_mask <- enc_sat_mask sats 0 ;;
            '(sig_mask, sat_sig_mask, cell_vec) <- enc_sig_loop sigs 0 0 [] ;;
            if negb (sat_mask =? sat_sig_mask) then Err SatelliteMismatch
            else
              let sat_indx := indx_array 64 sat_mask in
              let sig_indx := indx_array 32 sig_mask in
              let sig_mask_len := mask_len 32 sig_mask in
              let cell_cont_len := sig_mask_len * zlen sats in
              if 64 <? cell_cont_len then Err InvalidSatelliteSignalCount
              else
                cell_mask <- enc_cell_loop cell_vec sat_indx sig_indx sig_mask_len cell_cont_len 0 ;;
                st1 <- put KU 64 (fst st) (snd st) sat_mask 64 ;;
                st2 <- put KU 32 (fst st1) (snd st1) sig_mask 32 ;;
                st3 <- put KU 64 (fst st2) (snd st2) cell_mask cell_cont_len ;;
                st4 <- enc_sat_rows sat_specs sats st3 ;;
                enc_sig_rows sig_specs sigs st4
        end
    | _ => Panic
    end.

  (** ---------- decode ---------- *)
  Fixpoint dec_column (fs : field_spec) (n : nat) (data : list Z) (off : Z) : outcome (list val * Z) :=
    match n with
    | O => Ok ([], off)
    | S n' =>
        '(x, off1) <- decode_field fs data off ;;
        '(r, off2) <- dec_column fs n' data off1 ;;
        Ok (x :: r, off2)
    end.

  Fixpoint snoc_each (rows : list (list val)) (col : list val) : list (list val) :=
    match rows, col with
    | r :: rs, c :: cs => (r ++ [c]) :: snoc_each rs cs
    | _, _ => []
    end.

  Fixpoint dec_columns (specs : list field_spec) (n : nat) (data : list Z) (off : Z) (rows : list (list val))
    : outcome (list (list val) * Z) :=
    match specs with
    | [] => Ok (rows, off)
    | fs :: r =>
        '(col, off1) <- dec_column fs n data off ;;
        dec_columns r n data off1 (snoc_each rows col)
    end.

  Definition dec_sat_rows (specs : list field_spec) (sat_vec : list Z) (data : list Z) (off : Z)
    : outcome (list val * Z) :=
    if 64 <? zlen sat_vec then Panic          (* set_len beyond capacity *)
    else
      '(rows, off1) <- dec_columns specs (length sat_vec) data off (map (fun s => [VInt s]) sat_vec) ;;
      Ok (map VStruct rows, off1).

  Fixpoint cells_to_rows (cells : list (Z * Z)) : outcome (list (list val)) :=
    match cells with
    | [] => Ok []
    | (s, g) :: r =>
        match to_sig tbl g with
        | None => Err InvalidSignalId
        | Some (b, c) => rs <- cells_to_rows r ;; Ok ([VInt s; VSig b c] :: rs)
        end
    end.

  Definition dec_sig_rows (specs : list field_spec) (cell_vec : list (Z * Z)) (data : list Z) (off : Z)
    : outcome (list val * Z) :=
    if 64 <? zlen cell_vec then Panic
    else
      rows0 <- cells_to_rows cell_vec ;;
      '(rows, off1) <- dec_columns specs (length cell_vec) data off rows0 ;;
      Ok (map VStruct rows, off1).

  (** msm_data_seg_frag!::decode *)
  Definition msm_decode (sat_specs sig_specs : list field_spec) (data : list Z) (off : Z) : outcome (val * Z) :=
    '(sat_mask, off1) <- parse KU 64 data off 64 ;;
    '(sig_mask, off2) <- parse KU 32 data off1 32 ;;
    if (sat_mask =? 0) && (sig_mask =? 0) then Ok (VStruct [VList []; VList []], off2)
    else
      let sat_len := mask_len 64 sat_mask in
      let sig_len := mask_len 32 sig_mask in
      if 64 <? sat_len * sig_len then Err InvalidSatelliteSignalCount
      else
        '(cell_mask, off3) <- parse KU 64 data off2 (sat_len * sig_len) ;;
        r <- cell_mask_id_vec sat_mask sig_mask cell_mask ;;
        match r with
        | Some (sat_vec, cell_vec) =>
            '(sats, off4) <- dec_sat_rows sat_specs sat_vec data off3 ;;
            '(sigs, off5) <- dec_sig_rows sig_specs cell_vec data off4 ;;
            Ok (VStruct [VList sats; VList sigs], off5)
        | None => Err InvalidSatelliteSignalCount
        end.
End Msm.

(** MSM data segment: what the encoder accepts (C10). *)
From Coq Require Import ZArith List Lia Bool.
From RtcmModel Require Import Types BitIO Floats Field SigId Bias Msm.
From RtcmProofs Require Import ListZ EncodeLen DecodeBound.
Import ListNotations.
Open Scope Z_scope.

Definition sat_ids (sats : list val) : list Z :=
  flat_map (fun v => match sat_row_id v with Some s => [s] | None => [] end) sats.

(** the satellite mask: every listed id is in 1..64, no id is listed twice, and bit 64-s is set exactly for the listed ids *)
Lemma enc_sat_mask_spec : forall sats m0 m, enc_sat_mask sats m0 = Ok m ->
  (forall v, In v sats -> exists s, sat_row_id v = Some s /\ 1 <= s <= 64) /\
  (forall s, 1 <= s <= 64 -> Z.testbit m (64 - s) = Z.testbit m0 (64 - s) || existsb (Z.eqb s) (sat_ids sats)) /\
  (forall s, In s (sat_ids sats) -> Z.testbit m0 (64 - s) = false) /\
  NoDup (sat_ids sats).
Proof.
  induction sats as [|v r IH]; intros m0 m H; cbn [enc_sat_mask] in H.
  - inversion H; subst. cbn. repeat split; try tauto; [intros s Hs; rewrite orb_false_r; reflexivity|constructor].
  - destruct (sat_row_id v) as [id|] eqn:Eid; [|discriminate].
    destruct ((0 <? id) && (id <=? 64)) eqn:Hr; [|discriminate]. apply andb_true_iff in Hr. destruct Hr as [Hr1 Hr2].
    apply Z.ltb_lt in Hr1. apply Z.leb_le in Hr2.
    destruct (0 <? Z.land (2 ^ (64 - id)) m0) eqn:Hdup; [discriminate|]. apply Z.ltb_ge in Hdup.
    assert (Hbit0 : Z.testbit m0 (64 - id) = false).
    { destruct (Z.testbit m0 (64 - id)) eqn:E; [|reflexivity]. exfalso.
      assert (Hb : Z.testbit (Z.land (2 ^ (64 - id)) m0) (64 - id) = true) by (rewrite Z.land_spec, Z.pow2_bits_true, E by lia; reflexivity).
      assert (Hz : Z.land (2 ^ (64 - id)) m0 = 0).
      { assert (0 <= Z.land (2 ^ (64 - id)) m0) by (apply Z.land_nonneg; left; apply Z.pow_nonneg; lia). lia. }
      rewrite Hz, Z.bits_0 in Hb. discriminate. }
    destruct (IH _ _ H) as [Hin [Hbits [Hfree Hnd]]].
    unfold sat_ids in *. cbn [flat_map]. rewrite Eid. cbn [app].
    split; [|split; [|split]].
    + intros w [<-|Hw]; [exists id; split; [exact Eid|lia]|apply Hin; exact Hw].
    + intros s Hs. rewrite (Hbits s Hs). rewrite Z.lor_spec, Z.pow2_bits_eqb by lia. cbn [existsb].
      destruct (Z.eqb_spec (64 - id) (64 - s)), (Z.eqb_spec s id); try lia; destruct (Z.testbit m0 (64 - s)); cbn; reflexivity.
    + intros s [<-|Hs]; [exact Hbit0|].
      specialize (Hfree s Hs). rewrite Z.lor_spec in Hfree. apply orb_false_iff in Hfree. tauto.
    + constructor; [|exact Hnd]. intros Hc. specialize (Hfree id Hc). rewrite Z.lor_spec, Z.pow2_bits_true in Hfree by lia.
      rewrite orb_true_r in Hfree. discriminate.
Qed.

(** every signal cell names a satellite in 1..64 and a recognised signal *)
Lemma enc_sig_loop_spec tbl : forall sigs sm ssm cv r, enc_sig_loop tbl sigs sm ssm cv = Ok r ->
  forall v, In v sigs -> exists s g i, sig_row_key v = Some (s, g) /\ 1 <= s <= 64 /\ to_id tbl g = Some i.
Proof.
  induction sigs as [|v0 rest IH]; intros sm ssm cv r H v Hin; [destruct Hin|]. cbn [enc_sig_loop] in H.
  destruct (sig_row_key v0) as [[s g]|] eqn:Ek; [|discriminate].
  destruct ((0 <? s) && (s <=? 64)) eqn:Hr; [|discriminate]. apply andb_true_iff in Hr. destruct Hr as [Hr1 Hr2].
  destruct (to_id tbl g) as [i|] eqn:Ei; [|discriminate].
  crush H. destruct Hin as [<-|Hin].
  - exists s, g, i. repeat split; try assumption; lia.
  - eapply IH; eassumption.
Qed.

(** what an accepted (non-empty) MSM data segment satisfies *)
Definition msm_accepts (tbl : sigtable) (sats sigs : list val) : Prop :=
  (forall v, In v sats -> exists s, sat_row_id v = Some s /\ 1 <= s <= 64) /\ NoDup (sat_ids sats) /\
  (forall v, In v sigs -> exists s g i, sig_row_key v = Some (s, g) /\ 1 <= s <= 64 /\ to_id tbl g = Some i) /\
  exists sat_mask sig_mask ssm cv, enc_sat_mask sats 0 = Ok sat_mask /\ enc_sig_loop tbl sigs 0 0 [] = Ok (sig_mask, ssm, cv) /\
    ssm = sat_mask /\ mask_len 32 sig_mask * zlen sats <= 64.

Lemma msm_main_accepts tbl a b st st' sats sigs :
    (sat_mask <- enc_sat_mask sats 0 ;;
     '(sig_mask, sat_sig_mask, cell_vec) <- enc_sig_loop tbl sigs 0 0 [] ;;
     if negb (sat_mask =? sat_sig_mask) then Err SatelliteMismatch
     else
       let sat_indx := indx_array 64 sat_mask in
       let sig_indx := indx_array 32 sig_mask in
       let sig_mask_len := mask_len 32 sig_mask in
       let cell_cont_len := sig_mask_len * zlen sats in
       if 64 <? cell_cont_len then Err InvalidSatelliteSignalCount
       else
         cell_mask <- enc_cell_loop cell_vec sat_indx sig_indx sig_mask_len cell_cont_len 0 ;;
         st1 <- put KU 64 (fst st) (snd st) sat_mask 64 ;;
         st2 <- put KU 32 (fst st1) (snd st1) sig_mask 32 ;;
         st3 <- put KU 64 (fst st2) (snd st2) cell_mask cell_cont_len ;;
         st4 <- enc_sat_rows a sats st3 ;;
         enc_sig_rows tbl b sigs st4) = Ok st' -> msm_accepts tbl sats sigs.
Proof.
  intros Hmain. bind_inv Hmain.
  destruct (negb _) eqn:Hneg in Hmain; [discriminate|]. cbv zeta in Hmain.
  destruct (_ <? _) eqn:Hccl in Hmain; [discriminate|]. clear Hmain.
  apply negb_false_iff in Hneg. apply Z.eqb_eq in Hneg. apply Z.ltb_ge in Hccl.
  match goal with E1 : enc_sat_mask sats 0 = Ok ?m |- _ => destruct (enc_sat_mask_spec sats 0 m E1) as [Hin [_ [_ Hnd]]] end.
  unfold msm_accepts. split; [exact Hin|]. split; [exact Hnd|].
  split; [intros v Hv; eapply enc_sig_loop_spec; eassumption|].
  eexists _, _, _, _. split; [eassumption|]. split; [eassumption|]. split; [congruence|exact Hccl].
Qed.

Theorem msm_encode_accepts tbl a b st v st' : msm_encode tbl a b st v = Ok st' ->
  exists sats sigs, v = VStruct [VList sats; VList sigs] /\ zlen sats <= 64 /\ zlen sigs <= 64 /\
    ((sats = [] /\ sigs = []) \/ msm_accepts tbl sats sigs).
Proof.
  intros H. unfold msm_encode in H. peel H.
  match type of H with (if ?c then _ else _) = _ => destruct c eqn:Hcap; [discriminate|] end.
  apply orb_false_iff in Hcap. destruct Hcap as [Hc1 Hc2]. apply Z.ltb_ge in Hc1, Hc2.
  eexists _, _. split; [reflexivity|]. split; [exact Hc1|]. split; [exact Hc2|].
  peel H; first [ left; split; reflexivity | right; eapply msm_main_accepts; exact H ].
Qed.

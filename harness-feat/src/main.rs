//! Feature-matrix driver (C19): built against /repo with exactly the message features under test
//! (+ serde, std for printing); decodes every frame of the given file and prints the same canonical
//! line as implrun's DECODE.
#[path = "../../harness/src/val.rs"]
mod val;
use rtcm_rs::prelude::*;
use std::io::BufRead;
use val::*;

fn unhex(s: &str) -> Vec<u8> {
    (0..s.len() / 2).map(|i| u8::from_str_radix(&s[2 * i..2 * i + 2], 16).unwrap()).collect()
}

fn main() {
    let args: Vec<String> = std::env::args().collect();
    let f = std::fs::File::open(&args[1]).expect("open");
    for line in std::io::BufReader::new(f).lines() {
        let line = line.unwrap();
        let toks: Vec<&str> = line.split(' ').collect();
        if toks.len() < 2 || toks[0] != "DECODE" {
            println!("BADOP");
            continue;
        }
        let d = unhex(toks[1]);
        match MessageFrame::new(&d) {
            Ok(fr) => {
                let m = fr.get_message();
                #[allow(clippy::eq_op)]
                let refl = m == m;
                match to_val(&m) {
                    Ok(v) => println!("{} refl={}", v, refl),
                    Err(e) => println!("SERERR {}", e),
                }
            }
            Err(e) => println!("ERR {:?}", e),
        }
    }
}

From Coq Require Import Reals ZArith Lia Lra Psatz Bool.
From Flocq Require Import Core Relative BinarySingleNaN.
Require Import P.c08_q_close_trunc_proto.
Open Scope R_scope.

Section Bridge.
Variables prec emax : Z.
Context (Hp : Prec_gt_0 prec) (Hpe : Prec_lt_emax prec emax).
Hypothesis Hprec : (4 <= prec)%Z.
Notation emin := (3 - emax - prec)%Z.
Notation fexp := (FLT_exp emin prec).
Notation rnd := (round radix2 fexp ZnearestE).
Notation bf := (binary_float prec emax).

Definition ofZ (n : Z) : bf := binary_normalize prec emax Hp Hpe mode_NE n 0 false.
Definition bmul := @Bmult prec emax Hp Hpe mode_NE.
Definition bdiv := @Bdiv prec emax Hp Hpe mode_NE.
Definition badd := @Bplus prec emax Hp Hpe mode_NE.

Variable r half : bf.
Hypothesis r_fin : is_finite r = true.
Hypothesis r_big : bpow radix2 (emin + prec - 1) <= B2R r.
Hypothesis half_val : B2R half = /2.
Hypothesis half_fin : is_finite half = true.

Definition dec (n : Z) : bf := bmul (ofZ n) r.
Definition enc (x : bf) : Z := Btrunc (badd (bdiv x r) half).

Variable n : Z.
Hypothesis n_pos : (0 < n)%Z.
Hypothesis n_small : (n < 2 ^ (prec - 3))%Z.
(* no overflow of the product: n * r * 2 <= 2^emax *)
Hypothesis no_ovf : IZR n * B2R r <= bpow radix2 (emax - 1).

Lemma emin_prec : (emin + prec <= 0)%Z.
Proof. unfold Prec_lt_emax in Hpe. unfold Prec_gt_0 in Hp. lia. Qed.

Lemma lt_emax_of_le x : Rabs x <= bpow radix2 (emax - 1) -> Rlt_bool (Rabs (rnd x)) (bpow radix2 emax) = true.
Proof.
  intros H. apply Rlt_bool_true.
  apply Rle_lt_trans with (bpow radix2 (emax - 1)); [|apply bpow_lt; lia].
  apply abs_round_le_generic; [apply FLT_exp_valid; exact Hp|apply valid_rnd_N| |exact H].
  apply generic_format_bpow. unfold FLT_exp. unfold Prec_lt_emax in Hpe. unfold Prec_gt_0 in Hp. lia.
Qed.

Lemma ofZ_correct : B2R (ofZ n) = IZR n /\ is_finite (ofZ n) = true.
Proof.
  unfold ofZ. pose proof (binary_normalize_correct prec emax Hp Hpe mode_NE n 0 false) as H.
  cbv zeta in H.
  assert (HF : F2R (Float radix2 n 0) = IZR n) by (unfold F2R; cbn [Fnum Fexp]; simpl bpow; ring).
  rewrite HF in H.
  assert (Hg : generic_format radix2 fexp (IZR n)).
  { rewrite <- HF. apply generic_format_FLT. exists (Float radix2 n 0); cbn [Fnum Fexp]; [reflexivity| |unfold Prec_lt_emax in Hpe; unfold Prec_gt_0 in Hp; lia].
    change (Z.abs n < 2 ^ prec)%Z. rewrite Z.abs_eq by lia.
    apply Z.lt_le_trans with (2 ^ (prec - 3))%Z; [exact n_small|]. apply Z.pow_le_mono_r; lia. }
  change (round_mode mode_NE) with ZnearestE in H. change (SpecFloat.fexp prec emax) with (FLT_exp (3 - emax - prec) prec) in H.
  rewrite (round_generic radix2 fexp ZnearestE _ Hg) in H.
  rewrite Rlt_bool_true in H.
  - destruct H as [H1 [H2 _]]. split; assumption.
  - rewrite Rabs_pos_eq by (apply IZR_le; lia).
    apply Rlt_le_trans with (bpow radix2 prec).
    + rewrite <- (IZR_Zpower radix2) by (unfold Prec_gt_0 in Hp; lia). apply IZR_lt.
      change (n < 2 ^ prec)%Z. apply Z.lt_le_trans with (2 ^ (prec - 3))%Z; [exact n_small|]. apply Z.pow_le_mono_r; lia.
    + apply bpow_le. unfold Prec_lt_emax in Hpe. lia.
Qed.

Theorem enc_dec : enc (dec n) = n.
Proof.
  destruct ofZ_correct as [Zv Zf].
  assert (Hn1 : 1 <= IZR n) by (apply IZR_le; lia).
  assert (Hr0 : 0 < B2R r) by (eapply Rlt_le_trans; [apply (bpow_gt_0 radix2)|exact r_big]).
  (* product *)
  pose proof (Bmult_correct prec emax Hp Hpe mode_NE (ofZ n) r) as HM.
  change (round_mode mode_NE) with ZnearestE in HM. change (SpecFloat.fexp prec emax) with (FLT_exp (3 - emax - prec) prec) in HM. rewrite Zv in HM.
  rewrite lt_emax_of_le in HM by (rewrite Rabs_pos_eq by nra; exact no_ovf).
  destruct HM as [Mv [Mf _]]. rewrite Zf, r_fin in Mf. cbn [andb] in Mf.
  fold (bmul (ofZ n) r) in Mv, Mf. fold (dec n) in Mv, Mf.
  (* real-level facts *)
  pose proof (@q_close prec emin Hp Hprec emin_prec (B2R r) r_big n n_pos n_small) as QC.
  pose proof (@trunc_ok prec emin Hp Hprec emin_prec (B2R r) r_big n n_pos n_small) as TR.
  cbv zeta in QC, TR.
  set (d := rnd (IZR n * B2R r)) in *.
  set (q := rnd (d / B2R r)) in *.
  apply Rabs_le_inv in QC.
  (* division *)
  pose proof (Bdiv_correct prec emax Hp Hpe mode_NE (dec n) r (Rgt_not_eq _ _ Hr0)) as HD.
  change (round_mode mode_NE) with ZnearestE in HD. change (SpecFloat.fexp prec emax) with (FLT_exp (3 - emax - prec) prec) in HD. rewrite Mv in HD. fold d in HD. fold q in HD.
  assert (Qb : Rabs q < bpow radix2 emax).
  { apply Rlt_le_trans with (bpow radix2 prec); [|apply bpow_le; unfold Prec_lt_emax in Hpe; lia].
    assert (IZR n + 1 <= bpow radix2 prec).
    { rewrite <- (IZR_Zpower radix2) by (unfold Prec_gt_0 in Hp; lia). rewrite <- plus_IZR. apply IZR_le.
      change (n + 1 <= 2 ^ prec)%Z. assert (2 ^ (prec - 3) <= 2 ^ prec)%Z by (apply Z.pow_le_mono_r; lia). lia. }
    apply Rabs_lt. lra. }
  rewrite Rlt_bool_true in HD by exact Qb.
  destruct HD as [Dv [Df _]]. rewrite Mf in Df.
  (* addition *)
  pose proof (Bplus_correct prec emax Hp Hpe mode_NE (bdiv (dec n) r) half Df half_fin) as HA.
  change (round_mode mode_NE) with ZnearestE in HA. change (SpecFloat.fexp prec emax) with (FLT_exp (3 - emax - prec) prec) in HA. unfold bdiv in HA. rewrite Dv, half_val in HA.
  assert (Ab : Rabs (rnd (q + / 2)) < bpow radix2 emax).
  { (* from trunc: n <= rnd(q+1/2) < n+1 *)
    assert (0 < IZR n) by lra.
    assert (L: IZR n <= rnd (q + /2) < IZR n + 1).
    { assert (Hpos : 0 <= rnd (q + /2)).
      { rewrite <- (round_0 radix2 fexp ZnearestE). apply round_le; [apply FLT_exp_valid; exact Hp|apply valid_rnd_N|lra]. }
      pose proof TR as TF. rewrite Ztrunc_floor in TF by exact Hpos.
      pose proof (Zfloor_lb (rnd (q + /2))) as F1. pose proof (Zfloor_ub (rnd (q + /2))) as F2.
      rewrite TF in F1, F2. lra. }
    apply Rlt_le_trans with (bpow radix2 prec); [|apply bpow_le; unfold Prec_lt_emax in Hpe; lia].
    assert (IZR n + 1 <= bpow radix2 prec).
    { rewrite <- (IZR_Zpower radix2) by (unfold Prec_gt_0 in Hp; lia). rewrite <- plus_IZR. apply IZR_le.
      change (n + 1 <= 2 ^ prec)%Z. assert (2 ^ (prec - 3) <= 2 ^ prec)%Z by (apply Z.pow_le_mono_r; lia). lia. }
    apply Rabs_lt. lra. }
  rewrite Rlt_bool_true in HA by exact Ab.
  destruct HA as [Av _].
  (* truncation *)
  unfold enc. apply eq_IZR. rewrite Btrunc_correct by exact Hpe. unfold badd, bdiv. rewrite Av.
  transitivity (IZR (Ztrunc (rnd (q + /2)))); [|rewrite TR; reflexivity].
  unfold round, F2R, scaled_mantissa, cexp, FIX_exp; cbn [Fnum Fexp]. simpl bpow. rewrite !Rmult_1_r. reflexivity.
Qed.
End Bridge.
Print Assumptions enc_dec.

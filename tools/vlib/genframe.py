"""Generators for the framing layer: frames, near-misses, streams, chunk schedules; and the reference
predicates (frame acceptance, scanner) the probes use.  Independent of the implementation and of the model."""
import os, glob
from .common import *


def rand_payload(rng, L):
    k = rng.random()
    if k < 0.1:
        return bytes(L)
    if k < 0.2:
        return bytes([0xFF]) * L
    if k < 0.3:
        return bytes([0xD3]) * L
    return bytes(rng.getrandbits(8) for _ in range(L))


def rand_len(rng, small=False):
    k = rng.random()
    if k < 0.25:
        return rng.choice([0, 1, 2, 3])
    if small or k < 0.8:
        return rng.randint(0, 40)
    if k < 0.9:
        return rng.choice([1021, 1022, 1023, 255, 256, 257, 511, 512, 767, 768])
    return rng.randint(0, 1023)


def testdata_frames():
    out = []
    for p in sorted(glob.glob(os.path.join(REPO, "testdata", "*.rtcm"))):
        d = open(p, "rb").read()
        # a file may hold a stream of several frames (msgs_1.rtcm): split it, one entry per frame
        i = 0
        while i + 6 <= len(d) and d[i] == 0xD3:
            n = (((d[i + 1] & 3) << 8) | d[i + 2]) + 6
            if i + n > len(d):
                break
            out.append(d[i:i + n])
            i += n
        if i == 0:
            out.append(d)
    return out


# ---------- reference semantics (from the property text, not from the code) ----------
def ref_frame(d):
    """-> ('OK', L) | 'Incomplete' | 'NotValid' for slices starting with 0xD3 or of >= 6 bytes;
    None where the property does not classify (short slice not starting with 0xD3)"""
    if len(d) == 0 or d[0] != 0xD3:
        if len(d) < 6:
            return None
        return "NotValid"
    if len(d) < 3:
        return "Incomplete"
    L = ((d[1] & 3) << 8) | d[2]
    if len(d) < L + 6:
        return "Incomplete"
    c = crc24q_fast(d[:L + 3])
    if bytes(d[L + 3:L + 6]) == bytes([(c >> 16) & 0xFF, (c >> 8) & 0xFF, c & 0xFF]):
        return ("OK", L)
    return "NotValid"


def ref_scan(d):
    """-> (consumed, None | (start, flen))"""
    for i in range(len(d)):
        if d[i] != 0xD3:
            continue
        r = ref_frame(d[i:])
        if isinstance(r, tuple):
            return i + r[1] + 6, (i, r[1] + 6)
        if r == "Incomplete":
            return i, None
    return len(d), None


def ref_drain(d):
    """repeated scanner calls until None -> (total consumed, [(start, flen)])"""
    pos = 0
    out = []
    while pos < len(d):
        c, f = ref_scan(d[pos:])
        if f is None:
            pos += c
            break
        out.append((pos + f[0], f[1]))
        pos += c
    return pos, out


# ---------- near misses of one frame ----------
def near_misses(rng, frame, thorough=False):
    """list of (tag, bytes) derived from a valid frame"""
    L = len(frame) - 6
    out = [("valid", frame)]
    n = len(frame)
    cuts = list(range(0, min(n, 12))) + [n - 1, n - 2, n - 3, n - 4, L + 2, L + 3]
    if thorough:
        cuts += list(range(0, n, max(1, n // 40)))
    else:
        cuts += [rng.randrange(n) for _ in range(3)]
    for c in sorted(set(x for x in cuts if 0 <= x < n)):
        out.append(("trunc%d" % c, frame[:c]))
    out.append(("preamble", bytes([rng.choice([0xD2, 0x53, 0xD1, 0x00, 0xFF])]) + frame[1:]))
    for k in (3, 2, 1):
        for delta in (1, -1):
            b = bytearray(frame)
            b[n - k] = (b[n - k] + delta) % 256
            out.append(("crcbyte%d%+d" % (k, delta), bytes(b)))
    bits = range(24) if thorough else rng.sample(range(24), 6)
    for bit in bits:
        b = bytearray(frame)
        b[n - 3 + bit // 8] ^= 1 << (bit % 8)
        out.append(("crcbit%d" % bit, bytes(b)))
    # only the high 8 / only the low 16 bits of the checksum wrong
    b = bytearray(frame); b[n - 3] ^= 0x55; out.append(("crchi", bytes(b)))
    b = bytearray(frame); b[n - 1] ^= 0x01; out.append(("crclo", bytes(b)))
    # length field perturbed
    for delta in (1, -1, 256, -256):
        L2 = L + delta
        if 0 <= L2 <= 1023:
            b = bytearray(frame)
            b[1] = (b[1] & 0xFC) | (L2 >> 8)
            b[2] = L2 & 0xFF
            out.append(("len%+d" % delta, bytes(b)))
            out.append(("len%+d+tail" % delta, bytes(b) + bytes(rng.getrandbits(8) for _ in range(300))))
    # reserved bits set without / with recomputed CRC
    r = rng.randint(1, 63)
    b = bytearray(frame); b[1] |= r << 2
    out.append(("reserved-stale-crc", bytes(b)))
    out.append(("reserved-fresh-crc", mkframe(frame[3:3 + L], reserved=r)))
    out.append(("tail", frame + bytes(rng.getrandbits(8) for _ in range(rng.choice([1, 2, 7, 100])))))
    if L >= 1:
        b = bytearray(frame); b[3 + rng.randrange(L)] ^= 1 << rng.randrange(8)
        out.append(("payloadbit", bytes(b)))
    return out


# ---------- streams ----------
def gen_stream(rng, max_len=3000, pieces=None):
    """-> bytes built from the stream grammar, and the list of piece tags"""
    out = bytearray()
    tags = []
    n = pieces or rng.randint(1, 8)
    for _ in range(n):
        k = rng.choice(["frame", "frame", "frame", "garbage", "d3run", "corrupt", "trunc", "longhdr", "nested_bad", "nested_ok", "short"])
        small = len(out) > max_len // 2
        if k == "frame":
            out += mkframe(rand_payload(rng, rand_len(rng, small)), reserved=rng.choice([0, 0, 0, rng.randint(0, 63)]))
        elif k == "garbage":
            out += bytes(rng.getrandbits(8) for _ in range(rng.randint(1, 40)))
        elif k == "d3run":
            out += bytes([0xD3]) * rng.randint(1, 8)
        elif k == "corrupt":
            f = bytearray(mkframe(rand_payload(rng, rand_len(rng, True))))
            f[rng.randrange(1, len(f))] ^= 1 << rng.randrange(8)
            out += f
        elif k == "trunc":
            f = mkframe(rand_payload(rng, rand_len(rng, True)))
            out += f[:rng.choice([1, 2, 3, 4, 5, len(f) - 1, len(f) - 3, rng.randrange(1, len(f))])]
        elif k == "longhdr":
            L = rng.choice([1023, 900, 500, 300])
            out += bytes([0xD3, L >> 8, L & 0xFF]) + bytes(rng.getrandbits(8) for _ in range(rng.randint(0, 30)))
        elif k == "nested_bad":
            inner = mkframe(rand_payload(rng, rng.randint(0, 20)))
            pl = bytes(rng.getrandbits(8) for _ in range(rng.randint(0, 6))) + inner + bytes(rng.getrandbits(8) for _ in range(rng.randint(0, 6)))
            f = bytearray(mkframe(pl))
            f[-1] ^= 0x40
            out += f
        elif k == "nested_ok":
            inner = mkframe(rand_payload(rng, rng.randint(0, 20)))
            pl = bytes(rng.getrandbits(8) for _ in range(rng.randint(0, 6))) + inner
            out += mkframe(pl)
        else:
            out += mkframe(rand_payload(rng, rng.choice([0, 1])))
        tags.append(k)
        if len(out) > max_len:
            break
    return bytes(out), tags


def gen_schedule(rng, n, style=None):
    """an append/call schedule covering n bytes, as the STREAM op expects; always ends drained"""
    style = style or rng.choice(["one", "bytes", "random", "bursty", "lazy"])
    ops = []
    fed = 0
    if style == "one":
        ops = ["a%d" % n, "c"]
        fed = n
    elif style == "bytes":
        for _ in range(n):
            ops += ["a1", "c"]
        fed = n
    elif style == "lazy":
        # several appends before a call, several calls in a row
        while fed < n:
            k = rng.randint(1, max(1, min(n - fed, 50)))
            ops.append("a%d" % k)
            fed += k
            if rng.random() < 0.5:
                ops += ["c"] * rng.randint(1, 3)
    else:
        while fed < n:
            k = rng.choice([0, 1, 2, 3, 5, 6, 7]) if style == "bursty" and rng.random() < 0.7 else rng.randint(0, max(1, min(n - fed, 200)))
            k = min(k, n - fed)
            ops.append("a%d" % k)
            fed += k
            ops.append("c")
    # drain: call until nothing more can come (each call consumes >= 1 byte or returns None)
    ops += ["c"] * 4
    return ops

(** C15 -- lists of every admissible length survive; counts and capacities agree.
    Proofs are in Proofs/SizeProofs.v and Proofs/DecodeBound.v; the layouts are regenerated from the
    msg!/frag_vec!/... invocations of /repo on every run and the table obligations re-checked.
    For the 55 plain layouts [C15_lists_survive] (from Proofs/RoundTrip.v): whatever the encoder accepts
    decodes, and the decoded value has the same shape -- every list, at every nesting level, has as many
    elements as were encoded, in the same positions (so the count on the wire is the number of elements).
    PARTIAL: the MSM and code-bias structures are covered separately (C10, C16); the 1029 text is not. *)
From Coq Require Import ZArith List Lia Bool.
From RtcmModel Require Import Types BitIO Field Layout Message Top.
From RtcmGen Require Import GenSignals GenLayouts.
From RtcmGen Require Import GenMessages.
From RtcmProofs Require Import ListZ SizeProofs DecodeBound FieldProofs RoundTrip.
Import ListNotations.
Open Scope Z_scope.

Notation mb := (max_bits SAT_CAP_1059 SAT_CAP_1065).

(** table obligation [layouts_fit]: every layout is well formed and, together with the 12-bit message
    number, its largest admissible content fits the 1023-byte (8184-bit) payload window *)
Theorem C15_layouts_fit : forallb (fun m => frag_wfb (snd m) && (12 + mb (snd m) <=? 8184)) messages = true.
Proof. vm_compute. reflexivity. Qed.

(** every count-prefixed list and string: (capacity, width of its count field) *)
Fixpoint counted (f : frag) : list (Z * Z) :=
  match f with
  | FStr cap lb => [(cap, lb)]
  | FStruct l => (fix go (l : list frag) : list (Z * Z) := match l with [] => [] | x :: r => counted x ++ go r end) l
  | FLenMid f1 lenf f2 elem cap =>
      (fix go (l : list frag) : list (Z * Z) := match l with [] => [] | x :: r => counted x ++ go r end) f1
      ++ [(cap, f_len lenf)]
      ++ (fix go (l : list frag) : list (Z * Z) := match l with [] => [] | x :: r => counted x ++ go r end) f2
      ++ counted elem
  | FVecLen elem cap lb => (cap, lb) :: counted elem
  | FGrid16 elem => counted elem
  | _ => []
  end.

(** table obligation [counts_fit]: every capacity is representable in its count field, so a count never wraps *)
Theorem C15_counts_fit :
  forallb (fun m => forallb (fun c => (0 <=? fst c) && (fst c <? 2 ^ snd c)) (counted (snd m))) messages = true.
Proof. vm_compute. reflexivity. Qed.

(** every message of the table that the encoder accepts ends within the payload window: at most 8184 bits
    (so BufferOverflow is unreachable through build_message and every frame is at most 1029 bytes) *)
Theorem C15_size : forall n lay st v st', In (n, lay) messages -> snd st = 12 ->
  t_encode_frag lay st v = Ok st' -> 12 <= snd st' <= 8184.
Proof.
  intros n lay st v st' Hin H12 H.
  pose proof C15_layouts_fit as Hfit. rewrite forallb_forall in Hfit. specialize (Hfit _ Hin). cbn [snd] in Hfit.
  apply andb_true_iff in Hfit. destruct Hfit as [Hwf Hle]. apply Z.leb_le in Hle.
  apply (encode_frag_grows sig_table ssr_table_1059 ssr_table_1065 SAT_CAP_1059 SAT_CAP_1065 ltac:(vm_compute; discriminate) ltac:(vm_compute; discriminate) lay Hwf) in H.
  lia.
Qed.

(** a successful decode of a layout without the free-text field never reads past the end of the payload:
    a body shorter than its counts imply cannot decode (it is Corrupt) *)
Theorem C15_truncated : forall lay data off v off', no_utf8 lay = true ->
  t_decode_frag lay data off = Ok (v, off') -> off <= 8 * zlen data -> off' <= 8 * zlen data.
Proof. intros lay data off v off' Hn. apply (decode_frag_within sig_table ssr_table_1059 ssr_table_1065 SAT_CAP_1059 SAT_CAP_1065 lay Hn). Qed.

(** a count field above the capacity is refused with CapacityExceeded (hence Corrupt) *)
Theorem C15_over_capacity_vec : forall elem cap lb data off len off1,
  parse KU 16 data off lb = Ok (len, off1) -> cap < len -> t_decode_frag (FVecLen elem cap lb) data off = Err CapacityExceeded.
Proof. intros. eapply veclen_over_capacity; eassumption. Qed.
Theorem C15_over_capacity_str : forall cap lb data off len off1,
  parse KU 8 data off lb = Ok (len, off1) -> cap < len -> t_decode_frag (FStr cap lb) data off = Err CapacityExceeded.
Proof. intros. eapply str_over_capacity; eassumption. Qed.

(** table obligation: in every plain layout each capacity is below 2^(width of its count field) *)
Lemma plain_counts : forallb (fun m => negb (plain (snd m)) || counts_ok (snd m)) messages = true.
Proof. vm_compute. reflexivity. Qed.

(** lists of every length the encoder accepts survive: the body decodes, and the decoded value has the shape of
    the encoded one -- each list keeps its number of elements and their order, at every nesting level *)
Theorem C15_lists_survive : forall n lay d o v d' o', In (n, lay) messages -> plain lay = true ->
  bytes_ok d = true -> 0 <= o -> t_encode_frag lay (d, o) v = Ok (d', o') ->
  exists v', t_decode_frag lay d' o = Ok (v', o') /\ shape v v'.
Proof.
  intros n lay d o v d' o' Hin Hp Hb Ho E.
  pose proof plain_counts as Hc. rewrite forallb_forall in Hc. specialize (Hc _ Hin). cbn [snd] in Hc. rewrite Hp in Hc. cbn [negb orb] in Hc.
  destruct (accepted_decodes sig_table ssr_table_1059 ssr_table_1065 SAT_CAP_1059 SAT_CAP_1065 lay Hp Hc d o v d' o' Hb Ho E) as [_ [_ [_ [_ Hv]]]]. exact Hv.
Qed.

(** what [shape] says about lists *)
Theorem C15_shape_list : forall l v', shape (VList l) v' -> exists l', v' = VList l' /\ length l' = length l /\ Forall2 shape l l'.
Proof.
  intros l v' H. inversion H as [la lb Hf| |a b Ha Hb]; subst; [|discriminate Ha].
  exists lb. split; [reflexivity|]. split; [|exact Hf]. clear H. induction Hf; cbn [length]; congruence.
Qed.

(** only message 1029 carries the free-text field excluded above *)
Theorem C15_no_utf8_all_but_1029 : forallb (fun m => no_utf8 (snd m) || (fst m =? 1029)) messages = true.
Proof. vm_compute. reflexivity. Qed.

Example C15_example : mb layout_1057 + 12 = 8168 /\ In (60, 6) (counted layout_1057).
Proof. split; [vm_compute; reflexivity|]. vm_compute. tauto. Qed.

Print Assumptions C15_layouts_fit.
Print Assumptions C15_counts_fit.
Print Assumptions C15_size.
Print Assumptions C15_truncated.
Print Assumptions C15_lists_survive.
Print Assumptions C15_shape_list.

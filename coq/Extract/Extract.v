(** Extraction of the executable model to OCaml.  Directives: ExtrOcamlBasic only (bool, option,
    unit, list, prod, sumbool, sumor to native OCaml types; andb/orb inlined).  Z, positive, nat,
    comparison, ascii/string and Flocq's binary_float stay the extracted inductive types. *)
From Coq Require Import Extraction ExtrOcamlBasic ZArith List String.
From RtcmModel Require Import Types BitIO Floats Field SigId Text Bias Msm Layout Crc Frame Scan Message Top Ops.
From RtcmGen Require Import GenFields GenSignals GenLayouts GenMessages.
Extraction Language OCaml.
Extraction "model.ml"
  Z.add Z.mul Z.sub Z.opp Z.div_eucl Z.of_nat Z.to_nat Z.eqb Z.ltb Z.leb Z.pow
  crc24q frame_new frame_len data_len scan iter_run op_stream cs_init
  t_decode_bytes t_from_frame t_build t_build_fresh t_msg_number builder_new
  op_put op_parse op_fenc op_fdec op_roundtrip op_redecode op_buildseq op_str88591 op_utf8str
  field_by_name all_fields sig_table all_gnss to_sig to_id is_valid sig_cmp sig_partial_cmp
  val_eqb msg_eqb val_finite msg_finite from_utf8 df88591_chars messages.

"""Shared helpers of the check driver: paths, subprocesses, CRC-24Q reference, frames, floats."""
import os, sys, json, struct, subprocess, hashlib, time, random

ROOT = os.path.dirname(os.path.dirname(os.path.dirname(os.path.abspath(__file__))))   # /verif
REPO = os.environ.get("VERIF_REPO", "/repo")
CACHE = os.path.join(ROOT, ".cache")
COQ = os.path.join(ROOT, "coq")
EVID = os.path.join(ROOT, "evidence")
REPLAYS = os.path.join(ROOT, "replays")
HOOK_CFG = "--cfg rtcm_rs_verif"


def log(*a):
    print("[check]", *a, file=sys.stderr, flush=True)


def sh(cmd, timeout=None, env=None, cwd=None, stdin=None):
    """run a command, return (rc, stdout, stderr); rc = 124 on timeout"""
    e = dict(os.environ)
    e["CARGO_NET_OFFLINE"] = "true"
    if env:
        e.update(env)
    try:
        p = subprocess.run(cmd, shell=isinstance(cmd, str), cwd=cwd, env=e, input=stdin,
                           stdout=subprocess.PIPE, stderr=subprocess.PIPE, timeout=timeout, text=True,
                           errors="replace")
        return p.returncode, p.stdout, p.stderr
    except subprocess.TimeoutExpired as ex:
        out = ex.stdout.decode(errors="replace") if isinstance(ex.stdout, bytes) else (ex.stdout or "")
        err = ex.stderr.decode(errors="replace") if isinstance(ex.stderr, bytes) else (ex.stderr or "")
        return 124, out, err + "\nTIMEOUT"


def sha(s):
    if isinstance(s, str):
        s = s.encode()
    return hashlib.sha1(s).hexdigest()


# ---------- independent CRC-24Q reference (bit serial; generator 0x1864CFB, init 0, no reflection) ----------
def crc24q(data):
    crc = 0
    for b in data:
        crc ^= b << 16
        for _ in range(8):
            crc <<= 1
            if crc & 0x1000000:
                crc ^= 0x1864CFB
    return crc & 0xFFFFFF


_CRC_TAB = None


def crc24q_fast(data):
    global _CRC_TAB
    if _CRC_TAB is None:
        _CRC_TAB = []
        for i in range(256):
            c = i << 16
            for _ in range(8):
                c <<= 1
                if c & 0x1000000:
                    c ^= 0x1864CFB
            _CRC_TAB.append(c & 0xFFFFFF)
    crc = 0
    for b in data:
        crc = ((crc << 8) & 0xFFFFFF) ^ _CRC_TAB[((crc >> 16) ^ b) & 0xFF]
    return crc


def mkframe(payload, reserved=0):
    """a valid frame around payload (bytes); reserved = value of the six reserved header bits"""
    L = len(payload)
    assert L <= 1023
    head = bytes([0xD3, ((reserved & 0x3F) << 2) | (L >> 8), L & 0xFF]) + bytes(payload)
    c = crc24q_fast(head)
    return head + bytes([(c >> 16) & 0xFF, (c >> 8) & 0xFF, c & 0xFF])


def hx(b):
    return bytes(b).hex() if len(b) else "-"


def unhex(s):
    return b"" if s == "-" else bytes.fromhex(s)


# ---------- floats as bit patterns ----------
def f32_bits(x):
    try:
        return struct.unpack(">I", struct.pack(">f", x))[0]
    except OverflowError:
        return 0x7F800000 if x > 0 else 0xFF800000


def f64_bits(x):
    return struct.unpack(">Q", struct.pack(">d", x))[0]


def bits_f32(b):
    return struct.unpack(">f", struct.pack(">I", b & 0xFFFFFFFF))[0]


def bits_f64(b):
    return struct.unpack(">d", struct.pack(">Q", b & 0xFFFFFFFFFFFFFFFF))[0]


def load_tables():
    with open(os.path.join(ROOT, "build", "tables.json")) as f:
        return json.load(f)


def seed_from_env():
    try:
        return int(os.environ.get("VERIF_SEED", "1"))
    except ValueError:
        return 1

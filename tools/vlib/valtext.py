"""The value grammar of the operation protocol (harness/src/val.rs, ocaml/driver.ml), in Python.
value ::= i<dec> | f<8hex> | d<16hex> | N | S(v) | L[v,..] | T{v,..} | C<cp>.<cp>.. | G<band>:<cp>"""


def parse(s):
    v, p = _at(s, 0)
    if p != len(s):
        raise ValueError("trailing input at %d" % p)
    return v


def _at(s, p):
    c = s[p]
    if c == "i":
        q = p + 1
        if q < len(s) and s[q] == "-":
            q += 1
        while q < len(s) and s[q].isdigit():
            q += 1
        return ("i", int(s[p + 1:q])), q
    if c == "f":
        return ("f", int(s[p + 1:p + 9], 16)), p + 9
    if c == "d":
        return ("d", int(s[p + 1:p + 17], 16)), p + 17
    if c == "N":
        return ("N",), p + 1
    if c == "S":
        v, q = _at(s, p + 2)
        assert s[q] == ")"
        return ("S", v), q + 1
    if c == "L":
        l, q = _lst(s, p + 2, "]")
        return ("L", l), q
    if c == "T":
        l, q = _lst(s, p + 2, "}")
        return ("T", l), q
    if c == "C":
        q = p + 1
        out = []
        while q < len(s) and s[q].isdigit():
            st = q
            while q < len(s) and s[q].isdigit():
                q += 1
            out.append(int(s[st:q]))
            if q < len(s) and s[q] == ".":
                q += 1
            else:
                break
        return ("C", out), q
    if c == "G":
        q = p + 1
        while s[q].isdigit():
            q += 1
        band = int(s[p + 1:q])
        assert s[q] == ":"
        st = q + 1
        q = st
        while q < len(s) and s[q].isdigit():
            q += 1
        return ("G", band, int(s[st:q])), q
    raise ValueError("unexpected %r at %d" % (c, p))


def _lst(s, p, close):
    out = []
    if s[p] == close:
        return out, p + 1
    while True:
        v, q = _at(s, p)
        out.append(v)
        if s[q] == ",":
            p = q + 1
        elif s[q] == close:
            return out, q + 1
        else:
            raise ValueError("list separator at %d" % q)


def show(v):
    k = v[0]
    if k == "i":
        return "i%d" % v[1]
    if k == "f":
        return "f%08x" % v[1]
    if k == "d":
        return "d%016x" % v[1]
    if k == "N":
        return "N"
    if k == "S":
        return "S(" + show(v[1]) + ")"
    if k == "L":
        return "L[" + ",".join(show(x) for x in v[1]) + "]"
    if k == "T":
        return "T{" + ",".join(show(x) for x in v[1]) + "}"
    if k == "C":
        return "C" + ".".join(str(c) for c in v[1])
    if k == "G":
        return "G%d:%d" % (v[1], v[2])
    raise ValueError(k)


def parse_msg(s):
    if s == "VEmpty":
        return ("Empty",)
    if s == "VCorrupt":
        return ("Corrupt",)
    if s.startswith("VMsgNotSupported("):
        v = parse(s[17:-1])
        return ("Unsupp", v[1][0][1])
    if s.startswith("VMsg"):
        p = s.index("(")
        return ("Msg", int(s[4:p]), parse(s[p + 1:-1]))
    raise ValueError("message " + s[:40])


def show_msg(m):
    if m[0] == "Empty":
        return "VEmpty"
    if m[0] == "Corrupt":
        return "VCorrupt"
    if m[0] == "Unsupp":
        return "VMsgNotSupported(T{i%d})" % m[1]
    return "VMsg%d(%s)" % (m[1], show(m[2]))


def floats_of(v, out=None):
    """all float leaves as (kind, bits)"""
    if out is None:
        out = []
    k = v[0]
    if k in ("f", "d"):
        out.append((k, v[1]))
    elif k == "S":
        floats_of(v[1], out)
    elif k in ("L", "T"):
        for x in v[1]:
            floats_of(x, out)
    return out


def is_finite_bits(kind, b):
    if kind == "f":
        return (b >> 23) & 0xFF != 0xFF
    return (b >> 52) & 0x7FF != 0x7FF

(** The MSM data-segment encoder never panics (C09): whatever satellite and signal rows the Rust types admit --
    any identifiers, any order, duplicates, inconsistent sets -- msm_encode returns Ok or Err.  The places the
    model marks Panic (array index out of bounds, usize subtraction below zero, shift by the width or more,
    push beyond capacity) are shown unreachable from the checks made before them. *)
From Coq Require Import ZArith List Lia Bool Sorting.Permutation Sorting.Sorted.
From RtcmModel Require Import Types BitIO Floats Field SigId Bias Msm.
From RtcmProofs Require Import ListZ EncodeLen DecodeBound BitProofs SigProofs MsmProofs MsmMasks SortProofs DecodeTotal FieldProofs
  DecodeFinite RoundTrip MsmDecode EncodeTotal.
Import ListNotations.
Open Scope Z_scope.

(** ---------- the three mask loops ---------- *)
Lemma enc_sat_mask_np : forall sats m0, (forall v, In v sats -> sat_row_id v <> None) -> enc_sat_mask sats m0 <> Panic.
Proof.
  induction sats as [|v r IH]; intros m0 H; cbn [enc_sat_mask]; [discriminate|].
  destruct (sat_row_id v) as [id|] eqn:E; [|exfalso; apply (H v (or_introl eq_refl)); exact E].
  destruct ((0 <? id) && (id <=? 64)); [|discriminate]. destruct (0 <? Z.land _ _); [discriminate|].
  apply IH. intros w Hw. apply H. right. exact Hw.
Qed.

Lemma enc_sig_loop_np tbl (Htbl : table_ok 1 32 tbl = true) : forall sigs sm ssm cv,
  (forall v, In v sigs -> sig_row_key v <> None) -> zlen cv + zlen sigs <= 64 -> enc_sig_loop tbl sigs sm ssm cv <> Panic.
Proof.
  induction sigs as [|v r IH]; intros sm ssm cv H Hlen; cbn [enc_sig_loop]; [discriminate|].
  destruct (sig_row_key v) as [[s g]|] eqn:E; [|exfalso; apply (H v (or_introl eq_refl)); exact E].
  destruct ((0 <? s) && (s <=? 64)); [|discriminate].
  destruct (to_id tbl g) as [i|] eqn:Ei; [|discriminate].
  pose proof (to_id_range tbl 1 32 Htbl g i Ei) as Hi.
  unfold shl. destruct (Z.leb_spec 0 (32 - i)); [|lia]. destruct (Z.ltb_spec (32 - i) 32); [|lia]. cbn [andb bind].
  rewrite zlen_cons in Hlen. pose proof (zlen_nonneg r).
  destruct (Z.leb_spec 64 (zlen cv)); [lia|].
  apply IH; [intros w Hw; apply H; right; exact Hw|]. rewrite zlen_app. unfold zlen at 2. cbn [length]. lia.
Qed.

Lemma enc_cell_loop_np SI GI nsig ccl : zlen SI = 64 -> zlen GI = 32 -> 1 <= ccl <= 64 ->
  forall cells cm, (forall c, In c cells -> 1 <= fst c <= 64 /\ 1 <= snd c <= 32 /\ 0 <= cidx SI GI nsig c <= ccl - 1) ->
  enc_cell_loop cells SI GI nsig ccl cm <> Panic.
Proof.
  intros LS LG Hccl. induction cells as [|[s g] r IH]; intros cm H; cbn [enc_cell_loop]; [discriminate|].
  destruct (H (s, g) (or_introl eq_refl)) as [Hs [Hg Hix]]. cbn [fst snd] in Hs, Hg. unfold cidx in Hix. cbn [fst snd] in Hix.
  unfold aget. rewrite LS, LG.
  destruct (Z.leb_spec 0 (s - 1)); [|lia]. destruct (Z.ltb_spec (s - 1) 64); [|lia].
  destruct (Z.leb_spec 0 (g - 1)); [|lia]. destruct (Z.ltb_spec (g - 1) 32); [|lia]. cbn [andb bind].
  unfold usub. destruct (Z.leb_spec 1 ccl); [|lia]. cbn [bind].
  destruct (Z.leb_spec (znth SI (s - 1) * nsig + znth GI (g - 1)) (ccl - 1)); [|lia]. cbn [bind].
  unfold shl. destruct (Z.leb_spec 0 (ccl - 1 - (znth SI (s - 1) * nsig + znth GI (g - 1)))); [|lia].
  destruct (Z.ltb_spec (ccl - 1 - (znth SI (s - 1) * nsig + znth GI (g - 1))) 64); [|lia]. cbn [andb bind].
  destruct (0 <? Z.land _ _); [discriminate|]. apply IH. intros c Hc. apply H. right. exact Hc.
Qed.

(** number of listed satellites = number of set bits of the satellite mask *)
Lemma sat_count sats sm sv : sv = mask_to_id_vec 64 sm ->
  (forall s, 1 <= s <= 64 -> Z.testbit sm (64 - s) = existsb (Z.eqb s) (sat_ids sats)) ->
  (forall v, In v sats -> exists s, sat_row_id v = Some s /\ 1 <= s <= 64) -> NoDup (sat_ids sats) ->
  zlen sv = zlen sats.
Proof.
  intros Esv Hsat Hgood Hnd. destruct (mask_to_id_vec_spec 64 sm ltac:(lia)) as [Hin Hs]. rewrite <- Esv in Hin, Hs.
  assert (P : Permutation sv (sat_ids sats)).
  { apply NoDup_Permutation; [apply sorted_lt_nodup; exact Hs|exact Hnd|]. intros s. rewrite Hin. split.
    - intros [Hr Hb]. rewrite (Hsat s Hr) in Hb. apply existsb_exists in Hb. destruct Hb as [x [Hx E]]. apply Z.eqb_eq in E. subst. exact Hx.
    - intros Hi. assert (Hr : 1 <= s <= 64). { apply sat_ids_in in Hi. destruct Hi as [v [Hv Es]]. destruct (Hgood v Hv) as [s' [Es' Hr]]. rewrite Es in Es'. inversion Es'; subst. exact Hr. }
      split; [exact Hr|]. rewrite (Hsat s Hr). apply existsb_exists. exists s. split; [exact Hi|apply Z.eqb_refl]. }
  unfold zlen. rewrite (Permutation_length P), sat_ids_len by exact Hgood. reflexivity.
Qed.

(** the body of msm_encode after the empty case, up to the cell mask *)
Lemma msm_masks_np tbl (Htbl : table_ok 1 32 tbl = true) sats sigs :
  (forall v, In v sats -> sat_row_id v <> None) -> (forall v, In v sigs -> sig_row_key v <> None) -> zlen sigs <= 64 ->
  forall sat_mask sig_mask cv, enc_sat_mask sats 0 = Ok sat_mask -> enc_sig_loop tbl sigs 0 0 [] = Ok (sig_mask, sat_mask, cv) ->
  mask_len 32 sig_mask * zlen sats <= 64 -> sigs <> [] ->
  1 <= mask_len 32 sig_mask * zlen sats /\
  enc_cell_loop cv (indx_array 64 sat_mask) (indx_array 32 sig_mask) (mask_len 32 sig_mask) (mask_len 32 sig_mask * zlen sats) 0 <> Panic.
Proof.
  intros Hs Hg Hlen sm gm cv E1 E2 Hccl Hne.
  destruct (enc_sat_mask_spec sats 0 sm E1) as [Hgood [Hsat [_ Hnd]]].
  destruct (enc_sig_loop_masks tbl sigs 0 0 [] gm sm cv E2) as [Hcv [Hrng [Hsm Hssm]]]. cbn [app] in Hcv. subst cv.
  pose proof (enc_sig_loop_spec tbl sigs 0 0 [] _ E2) as Hkeys.
  assert (Hcnt : zlen (mask_to_id_vec 64 sm) = zlen sats).
  { apply (sat_count sats sm _ eq_refl); [intros s Hr; rewrite (Hsat s Hr), Z.bits_0; reflexivity|exact Hgood|exact Hnd]. }
  (* bounds of the two ranks at every cell *)
  assert (Hidx : forall c, In c (cell_keys tbl sigs) ->
            1 <= fst c <= 64 /\ 1 <= snd c <= 32 /\
            0 <= rank sm 64 (fst c - 1) < zlen sats /\ 0 <= rank gm 32 (snd c - 1) < mask_len 32 gm /\
            cidx (indx_array 64 sm) (indx_array 32 gm) (mask_len 32 gm) c = rank sm 64 (fst c - 1) * mask_len 32 gm + rank gm 32 (snd c - 1)).
  { intros c Hc. destruct (Hrng c Hc) as [R1 R2].
    assert (Bs : Z.testbit sm (64 - fst c) = true).
    { rewrite (Hssm (fst c) R1), Z.bits_0. cbn [orb]. apply existsb_exists. exists c. split; [exact Hc|apply Z.eqb_refl]. }
    assert (Bg : Z.testbit gm (32 - snd c) = true).
    { rewrite (Hsm (snd c) R2), Z.bits_0. cbn [orb]. apply existsb_exists. exists c. split; [exact Hc|apply Z.eqb_refl]. }
    destruct (id_vec_nth 64 sm (fst c) ltac:(lia) R1 Bs) as [_ Rs]. destruct (id_vec_nth 32 gm (snd c) ltac:(lia) R2 Bg) as [_ Rg].
    rewrite Hcnt in Rs. rewrite <- (mask_len_ids 32 gm ltac:(lia)) in Rg.
    split; [exact R1|]. split; [exact R2|]. split; [exact Rs|]. split; [exact Rg|].
    unfold cidx.
    rewrite (indx_array_spec 64 sm (fst c - 1) ltac:(lia)) by (replace (64 - 1 - (fst c - 1)) with (64 - fst c) by lia; exact Bs).
    rewrite (indx_array_spec 32 gm (snd c - 1) ltac:(lia)) by (replace (32 - 1 - (snd c - 1)) with (32 - snd c) by lia; exact Bg).
    reflexivity. }
  (* there is at least one cell, hence at least one satellite and one signal *)
  assert (Hsome : exists c, In c (cell_keys tbl sigs)).
  { destruct sigs as [|v r]; [contradiction|]. destruct (Hkeys v (or_introl eq_refl)) as [s [g [i [Ek [_ Ei]]]]].
    exists (s, i). unfold cell_keys. cbn [flat_map]. rewrite Ek, Ei. left. reflexivity. }
  destruct Hsome as [c0 Hc0]. destruct (Hidx c0 Hc0) as [_ [_ [Rs0 [Rg0 _]]]].
  split; [nia|]. apply enc_cell_loop_np; [apply indx_array_len; lia|apply indx_array_len; lia|nia|].
  intros c Hc. destruct (Hidx c Hc) as [R1 [R2 [Rs [Rg Ec]]]]. split; [exact R1|]. split; [exact R2|]. rewrite Ec. nia.
Qed.

(** ---------- the rows ---------- *)
(** a row of a fragment: the key columns (1 for a satellite row, 2 for a signal row) followed by one
    well-typed value per field *)
Definition wt_row (skip : nat) (specs : list field_spec) (v : val) : Prop :=
  exists keys fields, v = VStruct (keys ++ fields) /\ length keys = skip /\ Forall2 wt_field specs fields.

Lemma row_field_wt skip specs v : wt_row skip specs v -> forall k fs, nth_error specs k = Some fs ->
  exists x, row_field skip k v = Some x /\ wt_field fs x.
Proof.
  intros [keys [fields [-> [Hk Hf]]]] k fs Hn. unfold row_field. rewrite <- Hk.
  assert (G : forall specs fields, Forall2 wt_field specs fields -> forall k fs, nth_error specs k = Some fs -> exists x, nth_error fields k = Some x /\ wt_field fs x).
  { clear. induction 1 as [|s x ss xs Hx _ IH]; intros k fs Hn; [destruct k; discriminate|].
    destruct k as [|k]; [inversion Hn; subst; exists x; split; [reflexivity|exact Hx]|]. cbn [nth_error] in *. apply IH. exact Hn. }
  destruct (G specs fields Hf k fs Hn) as [x [Ex Hx]]. exists x. split; [|exact Hx].
  rewrite nth_error_app2 by lia. replace (length keys + k - length keys)%nat with k by lia. exact Ex.
Qed.

Lemma enc_column_np fs skip k : fok fs = true -> forall rows d o, bytes_ok d = true -> 0 <= o ->
  (forall v, In v rows -> exists x, row_field skip k v = Some x /\ wt_field fs x) -> enc_column fs skip k rows (d, o) <> Panic.
Proof.
  intros Hf. unfold fok in Hf. apply andb_true_iff in Hf. destruct Hf as [Hrt Hok]. destruct (field_dec_ok_widths fs Hok) as [_ W].
  induction rows as [|v r IH]; intros d o Hb Ho H; cbn [enc_column]; [discriminate|].
  destruct (H v (or_introl eq_refl)) as [x [Ex Hx]]. rewrite Ex.
  pose proof (encode_field_no_panic fs d o x Hrt Hok Hx Hb Ho) as Hn.
  destruct (encode_field fs (d, o) x) as [[d1 o1]|e|] eqn:E; cbn [bind]; [|discriminate|contradiction].
  destruct (encode_field_frame fs d o x d1 o1 Hok Ho Hb E) as [-> [_ [_ [B1 _]]]].
  apply IH; [exact B1|lia|]. intros w Hw. apply H. right. exact Hw.
Qed.

Lemma enc_columns_np skip rows : forall specs all k d o, forallb fok specs = true -> bytes_ok d = true -> 0 <= o ->
  (forall j fs, nth_error specs j = Some fs -> nth_error all (k + j) = Some fs) ->
  (forall v, In v rows -> wt_row skip all v) -> enc_columns specs skip k rows (d, o) <> Panic.
Proof.
  induction specs as [|fs r IH]; intros all k d o Hf Hb Ho Hnth Hrows; cbn [enc_columns]; [discriminate|].
  cbn [forallb] in Hf. apply andb_true_iff in Hf. destruct Hf as [F1 F2].
  assert (Hcol : forall v, In v rows -> exists x, row_field skip k v = Some x /\ wt_field fs x).
  { intros v Hv. apply (row_field_wt skip all v (Hrows v Hv) k fs). specialize (Hnth O fs eq_refl). rewrite Nat.add_0_r in Hnth. exact Hnth. }
  pose proof (enc_column_np fs skip k F1 rows d o Hb Ho Hcol) as Hn.
  destruct (enc_column fs skip k rows (d, o)) as [[d1 o1]|e|] eqn:E; cbn [bind]; [|discriminate|contradiction].
  assert (Hok : field_dec_ok fs = true) by (unfold fok in F1; apply andb_true_iff in F1; tauto).
  destruct (enc_column_frame fs skip k Hok rows d o d1 o1 Hb Ho E) as [-> [B1 _]]. destruct (field_dec_ok_widths fs Hok) as [_ W]. pose proof (zlen_nonneg rows).
  apply (IH all (S k) d1 _ F2 B1); [nia| |exact Hrows].
  intros j fs' Hj. replace (S k + j)%nat with (k + S j)%nat by lia. apply Hnth. exact Hj.
Qed.

(** ---------- the data segment ---------- *)
Definition wt_msm (a b : list field_spec) (v : val) : Prop :=
  exists sats sigs, v = VStruct [VList sats; VList sigs] /\ zlen sats <= 64 /\ zlen sigs <= 64 /\
    (forall r, In r sats -> wt_row 1 a r /\ sat_row_id r <> None) /\
    (forall r, In r sigs -> wt_row 2 b r /\ sig_row_key r <> None).

Theorem msm_encode_no_panic tbl (Htbl : table_ok 1 32 tbl = true) a b : forallb fok a = true -> forallb fok b = true ->
  forall v d o, wt_msm a b v -> bytes_ok d = true -> 0 <= o -> msm_encode tbl a b (d, o) v <> Panic.
Proof.
  intros Ha Hb v d o [sats [sigs [-> [Ls [Lg [Ws Wg]]]]]] Hbd Ho. unfold msm_encode.
  destruct (Z.ltb_spec 64 (zlen sats)); [lia|]. destruct (Z.ltb_spec 64 (zlen sigs)); [lia|]. cbn [orb].
  assert (Hmain : ~ (sats = [] /\ sigs = []) ->
    (sat_mask <- enc_sat_mask sats 0 ;;
     '(sig_mask, sat_sig_mask, cell_vec) <- enc_sig_loop tbl sigs 0 0 [] ;;
     if negb (sat_mask =? sat_sig_mask) then Err SatelliteMismatch
     else
       let sat_indx := indx_array 64 sat_mask in
       let sig_indx := indx_array 32 sig_mask in
       let sig_mask_len := mask_len 32 sig_mask in
       let cell_cont_len := sig_mask_len * zlen sats in
       if 64 <? cell_cont_len then Err InvalidSatelliteSignalCount
       else
         cell_mask <- enc_cell_loop cell_vec sat_indx sig_indx sig_mask_len cell_cont_len 0 ;;
         st1 <- put KU 64 (fst (d, o)) (snd (d, o)) sat_mask 64 ;;
         st2 <- put KU 32 (fst st1) (snd st1) sig_mask 32 ;;
         st3 <- put KU 64 (fst st2) (snd st2) cell_mask cell_cont_len ;;
         st4 <- enc_sat_rows a sats st3 ;;
         enc_sig_rows tbl b sigs st4) <> Panic).
  { intros Hne. pose proof (enc_sat_mask_np sats 0 (fun v Hv => proj2 (Ws v Hv))) as N1.
    destruct (enc_sat_mask sats 0) as [sm|e|] eqn:E1; cbn [bind]; [|discriminate|contradiction].
    pose proof (enc_sig_loop_np tbl Htbl sigs 0 0 [] (fun v Hv => proj2 (Wg v Hv)) ltac:(unfold zlen at 1; cbn [length]; lia)) as N2.
    destruct (enc_sig_loop tbl sigs 0 0 []) as [[[gm ssm] cv]|e|] eqn:E2; cbn [bind]; [|discriminate|contradiction].
    destruct (Z.eqb_spec sm ssm) as [<-|]; cbn [negb]; [|discriminate]. cbv zeta.
    destruct (Z.ltb_spec 64 (mask_len 32 gm * zlen sats)) as [|Hccl]; [discriminate|].
    destruct sigs as [|g0 gr] eqn:Esigs.
    - (* no signal rows: then no satellite may be listed either, which is the empty case *)
      cbn [enc_sig_loop] in E2. inversion E2; subst gm sm cv. exfalso.
      destruct sats as [|s0 sr]; [apply Hne; split; reflexivity|].
      destruct (enc_sat_mask_spec _ 0 0 E1) as [Hgood [Hsat _]].
      destruct (Hgood s0 (or_introl eq_refl)) as [s [Es Hr]]. specialize (Hsat s Hr). rewrite !Z.bits_0 in Hsat. cbn [orb] in Hsat.
      unfold sat_ids in Hsat. cbn [flat_map] in Hsat. rewrite Es in Hsat. cbn [app existsb] in Hsat. rewrite Z.eqb_refl in Hsat. discriminate.
    - rewrite <- Esigs in *.
      destruct (msm_masks_np tbl Htbl sats sigs (fun v Hv => proj2 (Ws v Hv)) (fun v Hv => proj2 (Wg v Hv)) Lg sm gm cv E1 E2 Hccl ltac:(rewrite Esigs; discriminate)) as [Hc1 N3].
      destruct (enc_cell_loop cv _ _ _ _ 0) as [cm|e|] eqn:E3; cbn [bind]; [|discriminate|contradiction].
      cbn [fst snd].
      pose proof (put_no_panic KU 64 d o sm 64 ltac:(lia) ltac:(lia) Ho Hbd) as P1.
      destruct (put KU 64 d o sm 64) as [[d1 o1]|e|] eqn:Q1; cbn [bind]; [|discriminate|contradiction].
      destruct (put_frame KU 64 d o sm 64 d1 o1 ltac:(lia) ltac:(lia) Ho Hbd Q1) as [-> [_ [_ [B1 _]]]]. cbn [fst snd].
      pose proof (put_no_panic KU 32 d1 (o + 64) gm 32 ltac:(lia) ltac:(lia) ltac:(lia) B1) as P2.
      destruct (put KU 32 d1 (o + 64) gm 32) as [[d2 o2]|e|] eqn:Q2; cbn [bind]; [|discriminate|contradiction].
      destruct (put_frame KU 32 d1 (o + 64) gm 32 d2 o2 ltac:(lia) ltac:(lia) ltac:(lia) B1 Q2) as [-> [_ [_ [B2 _]]]]. cbn [fst snd].
      pose proof (put_no_panic KU 64 d2 (o + 64 + 32) cm (mask_len 32 gm * zlen sats) ltac:(lia) ltac:(lia) ltac:(lia) B2) as P3.
      destruct (put KU 64 d2 (o + 64 + 32) cm (mask_len 32 gm * zlen sats)) as [[d3 o3]|e|] eqn:Q3; cbn [bind]; [|discriminate|contradiction].
      destruct (put_frame KU 64 d2 (o + 64 + 32) cm (mask_len 32 gm * zlen sats) d3 o3 ltac:(lia) ltac:(lia) ltac:(lia) B2 Q3) as [-> [_ [_ [B3 _]]]].
      unfold enc_sat_rows, enc_sig_rows.
      pose proof (enc_columns_np 1 (sort_by sat_cmp sats) a a 0 d3 (o + 64 + 32 + mask_len 32 gm * zlen sats) Ha B3 ltac:(lia) (fun j fs Hj => Hj)
                    (fun v Hv => proj1 (Ws v (Permutation_in _ (sort_by_perm_any sat_cmp sats) Hv)))) as N4.
      destruct (enc_columns a 1 0 (sort_by sat_cmp sats) (d3, o + 64 + 32 + mask_len 32 gm * zlen sats)) as [[d4 o4]|e|] eqn:E4; cbn [bind]; [|discriminate|contradiction].
      destruct (enc_columns_frame 1 (sort_by sat_cmp sats) a 0 d3 (o + 64 + 32 + mask_len 32 gm * zlen sats) d4 o4 (fok_dec a Ha) B3 ltac:(lia) E4) as [-> [B4 _]].
      pose proof (specs_bits_nonneg a (fok_dec a Ha)). pose proof (zlen_nonneg (sort_by sat_cmp sats)).
      apply (enc_columns_np 2 (sort_by (sig_row_cmp tbl) sigs) b b 0 d4 (o + 64 + 32 + mask_len 32 gm * zlen sats + specs_bits a * zlen (sort_by sat_cmp sats)) Hb B4 ltac:(nia) (fun j fs Hj => Hj)).
      intros v Hv. apply (Wg v). apply (Permutation_in _ (sort_by_perm_any (sig_row_cmp tbl) sigs) Hv). }
  destruct sats as [|s0 sr]; destruct sigs as [|g0 gr]; try (apply Hmain; intros [X Y]; discriminate).
  cbn [fst snd].
  pose proof (put_no_panic KU 64 d o 0 64 ltac:(lia) ltac:(lia) Ho Hbd) as P1.
  destruct (put KU 64 d o 0 64) as [[d1 o1]|e|] eqn:Q1; cbn [bind]; [|discriminate|contradiction].
  destruct (put_frame KU 64 d o 0 64 d1 o1 ltac:(lia) ltac:(lia) Ho Hbd Q1) as [-> [_ [_ [B1 _]]]]. cbn [fst snd].
  apply put_no_panic; [lia|lia|lia|exact B1].
Qed.

(** the empty data segment (no satellites, no signals) is 96 zero bits and reads back as empty *)
Theorem msm_empty_decodes tbl a b d o d' o' : bytes_ok d = true -> 0 <= o ->
  msm_encode tbl a b (d, o) (VStruct [VList []; VList []]) = Ok (d', o') ->
  msm_decode tbl a b d' o = Ok (VStruct [VList []; VList []], o').
Proof.
  intros Hb Ho H. unfold msm_encode in H. replace ((64 <? zlen (@nil val)) || (64 <? zlen (@nil val))) with false in H by reflexivity. cbn [fst snd] in H.
  destruct (put KU 64 d o 0 64) as [[d1 o1]|e|] eqn:P1; cbn [bind] in H; try discriminate.
  destruct (put_frame KU 64 d o 0 64 d1 o1 ltac:(lia) ltac:(lia) Ho Hb P1) as [-> [F1 [L1 [B1 A1]]]]. cbn [fst snd] in H.
  destruct (put_frame KU 32 d1 (o + 64) 0 32 d' o' ltac:(lia) ltac:(lia) ltac:(lia) B1 H) as [-> [F2 [L2 [B2 A2]]]].
  assert (R64 : representable KU 64 0) by (cbn [representable]; split; [lia|apply Z.pow_pos_nonneg; lia]).
  assert (R32 : representable KU 32 0) by (cbn [representable]; split; [lia|apply Z.pow_pos_nonneg; lia]).
  destruct (put_parse_roundtrip KU 64 d o 0 64 ltac:(lia) ltac:(lia) Ho F1 Hb R64) as [x [Px Pa1]]. rewrite P1 in Px. inversion Px; subst x.
  destruct (put_parse_roundtrip KU 32 d1 (o + 64) 0 32 ltac:(lia) ltac:(lia) ltac:(lia) F2 B1 R32) as [y [Py Pa2]]. rewrite H in Py. inversion Py; subst y.
  unfold msm_decode.
  rewrite <- (parse_ext KU 64 d1 d' o 64 ltac:(lia) ltac:(lia) Ho B1 B2 ltac:(apply (agree_sub _ _ 0 (o + 64)); [exact A2|lia|lia])), Pa1. cbn [bind].
  rewrite Pa2. cbn [bind]. reflexivity.
Qed.

(** MessageFrame::new: acceptance, attributes, locality (C03, C13). *)
From Coq Require Import ZArith List Lia Bool.
From RtcmModel Require Import Types Crc Frame.
From RtcmProofs Require Import BitLemmas ListZ.
Import ListNotations.
Open Scope Z_scope.

(** ---------- the CRC state stays below 2^24 ---------- *)
Lemma crc_bit_range s b : 0 <= s < two24 -> 0 <= crc_bit s b < two24.
Proof.
  intros H. unfold crc_bit. assert (Hm : 0 <= (2 * s) mod two24 < two24) by (apply Z.mod_pos_bound; reflexivity).
  destruct (xorb _ _); [|exact Hm].
  change two24 with (2 ^ 24) in *. apply lxor_range; [lia|exact Hm|unfold crc_poly; lia].
Qed.
Lemma crc_byte_range s x : 0 <= s < two24 -> 0 <= crc_byte s x < two24.
Proof.
  intros H. unfold crc_byte. generalize (byte_bits x). intros l. revert s H.
  induction l as [|b l IH]; intros s H; cbn [fold_left]; [exact H|]. apply IH. apply crc_bit_range. exact H.
Qed.
Lemma crc_fold_range d s : 0 <= s < two24 -> 0 <= fold_left crc_byte d s < two24.
Proof.
  revert s. induction d as [|x d IH]; intros s H; cbn [fold_left]; [exact H|]. apply IH. apply crc_byte_range. exact H.
Qed.
Lemma crc24q_range d : 0 <= crc24q d < two24.
Proof. apply crc_fold_range. unfold two24. lia. Qed.

(** ---------- header arithmetic ---------- *)
Lemma frame_length_spec d :
  0 <= znth d 1 < 256 -> 0 <= znth d 2 < 256 ->
  frame_length d = (znth d 1 mod 4) * 256 + znth d 2 /\ 0 <= frame_length d <= 1023.
Proof.
  intros H1 H2. unfold frame_length.
  change 3 with (2 ^ 2 - 1). rewrite land_low_mod by lia. rewrite Z.shiftl_mul_pow2 by lia.
  rewrite lor_disjoint by lia. change (2 ^ 2) with 4. change (2 ^ 8) with 256.
  pose proof (Z.mod_pos_bound (znth d 1) 4 ltac:(lia)). lia.
Qed.

Lemma frame_length_bytes d : bytes_ok d = true ->
  frame_length d = (znth d 1 mod 4) * 256 + znth d 2 /\ 0 <= frame_length d <= 1023.
Proof. intros H. apply frame_length_spec; apply bytes_ok_znth; exact H. Qed.

Lemma be24_spec a b c : 0 <= a < 256 -> 0 <= b < 256 -> 0 <= c < 256 ->
  be24 a b c = a * 65536 + b * 256 + c.
Proof.
  intros Ha Hb Hc. unfold be24. rewrite !Z.shiftl_mul_pow2 by lia.
  rewrite (lor_disjoint a (b * 2 ^ 8) 16) by lia.
  replace (a * 2 ^ 16 + b * 2 ^ 8) with ((a * 256 + b) * 2 ^ 8) by (change (2 ^ 16) with (256 * 2 ^ 8); ring).
  rewrite lor_disjoint by lia. change (2 ^ 8) with 256. ring.
Qed.

Lemma be24_inj a b c a' b' c' :
  0 <= a < 256 -> 0 <= b < 256 -> 0 <= c < 256 -> 0 <= a' < 256 -> 0 <= b' < 256 -> 0 <= c' < 256 ->
  be24 a b c = be24 a' b' c' -> a = a' /\ b = b' /\ c = c'.
Proof. intros. rewrite !be24_spec in * by assumption. lia. Qed.

(** the three checksum bytes of a 24-bit value, big endian *)
Definition crc_bytes (c : Z) : list Z := [c / 65536; (c / 256) mod 256; c mod 256].
Lemma crc_bytes_be24 c : 0 <= c < two24 ->
  be24 (c / 65536) ((c / 256) mod 256) (c mod 256) = c.
Proof.
  unfold two24. intros H. rewrite be24_spec.
  - pose proof (Z.div_mod c 256 ltac:(lia)). pose proof (Z.div_mod (c / 256) 256 ltac:(lia)).
    rewrite Z.div_div in H1 by lia. change (256 * 256) with 65536 in H1. lia.
  - split; [apply Z.div_pos; lia|apply Z.div_lt_upper_bound; lia].
  - apply Z.mod_pos_bound; lia.
  - apply Z.mod_pos_bound; lia.
Qed.

(** ---------- the acceptance predicate of the property text ---------- *)
Definition crc_matches (d : list Z) : Prop :=
  let L := frame_length d in
  be24 (znth d (L + 3)) (znth d (L + 4)) (znth d (L + 5)) = crc24q (zfirstn (L + 3) d).

Definition frame_accept (d : list Z) : Prop :=
  6 <= zlen d /\ znth d 0 = 211 /\ frame_length d + 6 <= zlen d /\ crc_matches d.

Definition number_of (d : list Z) : option Z :=
  if 2 <=? frame_length d then Some (Z.lor (Z.shiftl (znth d 3) 4) (Z.shiftr (znth d 4) 4)) else None.

Definition frame_of (d : list Z) : frame :=
  let L := frame_length d in
  {| fr_frame_data := zfirstn (L + 6) d; fr_data := zfirstn L (zskipn 3 d);
     fr_crc := be24 (znth d (L + 3)) (znth d (L + 4)) (znth d (L + 5)); fr_number := number_of d |}.

Lemma frame_new_cases d :
  (zlen d < 6 /\ frame_new d = Err Incomplete) \/
  (6 <= zlen d /\ znth d 0 <> 211 /\ frame_new d = Err NotValid) \/
  (6 <= zlen d /\ znth d 0 = 211 /\ zlen d < frame_length d + 6 /\ frame_new d = Err Incomplete) \/
  (6 <= zlen d /\ znth d 0 = 211 /\ frame_length d + 6 <= zlen d /\ ~ crc_matches d /\ frame_new d = Err NotValid) \/
  (frame_accept d /\ frame_new d = Ok (frame_of d)).
Proof.
  unfold frame_new, frame_accept, crc_matches, frame_of, number_of.
  destruct (Z.ltb_spec (zlen d) 6) as [H6|H6]; [left; split; [exact H6|reflexivity]|right].
  destruct (Z.eqb_spec (znth d 0) 211) as [Hp|Hp]; cbn [negb]; [right|left; repeat split; assumption].
  destruct (Z.ltb_spec (zlen d) (frame_length d + 6)) as [Hl|Hl]; [left; repeat split; assumption|right].
  destruct (Z.eqb_spec (be24 (znth d (frame_length d + 3)) (znth d (frame_length d + 4)) (znth d (frame_length d + 5)))
                       (crc24q (zfirstn (frame_length d + 3) d))) as [Hc|Hc]; cbn [negb].
  - right. repeat split; assumption.
  - left. repeat split; assumption.
Qed.

Lemma frame_new_accept_iff d : (exists f, frame_new d = Ok f) <-> frame_accept d.
Proof.
  destruct (frame_new_cases d) as [[H E]|[[H [H1 E]]|[[H [H1 [H2 E]]]|[[H [H1 [H2 [H3 E]]]]|[Ha E]]]]]; rewrite E; split.
  all: try (intros [f Hf]; discriminate).
  all: try (unfold frame_accept; intros [A [B [C D]]]; exfalso; (lia || contradiction)).
  - intros _. exact Ha.
  - intros _. eexists. reflexivity.
Qed.

Lemma frame_new_ok_inv d f : frame_new d = Ok f -> frame_accept d /\ f = frame_of d.
Proof.
  intros Hf. destruct (frame_new_cases d) as [[H E]|[[H [H1 E]]|[[H [H1 [H2 E]]]|[[H [H1 [H2 [H3 E]]]]|[Ha E]]]]]; rewrite E in Hf; try discriminate.
  split; [exact Ha|congruence].
Qed.

Lemma frame_accept_ok d : frame_accept d -> frame_new d = Ok (frame_of d).
Proof.
  intros Ha. destruct (frame_new_cases d) as [[H E]|[[H [H1 E]]|[[H [H1 [H2 E]]]|[[H [H1 [H2 [H3 E]]]]|[_ E]]]]]; try exact E;
  exfalso; destruct Ha as [A [B [C D]]]; (lia || contradiction).
Qed.

(** attributes of an accepted frame *)
Lemma frame_attributes d f : bytes_ok d = true -> frame_new d = Ok f ->
  let L := frame_length d in
  0 <= L <= 1023 /\
  frame_len f = L + 6 /\ data_len f = L /\
  fr_frame_data f = zfirstn (L + 6) d /\
  fr_data f = zfirstn L (zskipn 3 d) /\
  fr_crc f = crc24q (zfirstn (L + 3) d) /\
  fr_number f = number_of d.
Proof.
  intros Hb Hf. destruct (frame_new_ok_inv d f Hf) as [[H6 [Hp [Hl Hc]]] ->].
  destruct (frame_length_bytes d Hb) as [_ HL]. cbv zeta.
  unfold frame_len, data_len, frame_of. cbn [fr_frame_data fr_data fr_crc fr_number].
  repeat split; try lia.
  - apply zlen_zfirstn. lia.
  - rewrite zlen_zfirstn; [reflexivity|]. rewrite zlen_zskipn by lia. lia.
  - exact Hc.
Qed.

(** ---------- locality: the verdict depends on the first L+6 bytes only ---------- *)
Lemma frame_length_app d e : 3 <= zlen d -> frame_length (d ++ e) = frame_length d.
Proof. intros H. unfold frame_length. rewrite !znth_app_l by lia. reflexivity. Qed.

Lemma frame_local d e : 0 <= frame_length d -> 6 <= zlen d -> frame_length d + 6 <= zlen d ->
  frame_new (d ++ e) = frame_new d.
Proof.
  intros L0 H6 Hl.
  assert (HL : frame_length (d ++ e) = frame_length d) by (apply frame_length_app; lia).
  assert (Hz := zlen_nonneg e).
  unfold frame_new. rewrite HL, zlen_app.
  destruct (Z.ltb_spec (zlen d + zlen e) 6); [lia|].
  destruct (Z.ltb_spec (zlen d) 6); [lia|].
  rewrite (znth_app_l d e 0) by lia.
  destruct (Z.eqb_spec (znth d 0) 211); cbn [negb]; [|reflexivity].
  destruct (Z.ltb_spec (zlen d + zlen e) (frame_length d + 6)); [lia|].
  destruct (Z.ltb_spec (zlen d) (frame_length d + 6)); [lia|].
  rewrite !znth_app_l by lia. rewrite !zfirstn_app_le by lia.
  destruct (_ =? _); cbn [negb]; [|reflexivity].
  rewrite zskipn_app_le by lia.
  rewrite (zfirstn_app_le (frame_length d)); [reflexivity|]. rewrite zlen_zskipn by lia. lia.
Qed.

(** ---------- every payload length 0..1023 and every value of the reserved bits is accepted ---------- *)
Definition mkframe (r : Z) (payload : list Z) : list Z :=
  let L := zlen payload in
  let head := [211; r * 4 + L / 256; L mod 256] ++ payload in
  head ++ crc_bytes (crc24q head).

Lemma mkframe_accept r payload :
  zlen payload <= 1023 -> 0 <= r < 64 ->
  frame_accept (mkframe r payload) /\ frame_length (mkframe r payload) = zlen payload.
Proof.
  intros HL Hr. pose proof (zlen_nonneg payload) as H0.
  set (L := zlen payload) in *.
  assert (Hlen : frame_length (mkframe r payload) = L).
  { unfold frame_length, mkframe. fold L. cbn [app].
    rewrite znth_cons_S by lia. cbn [Z.sub]. rewrite znth_cons_0.
    rewrite znth_cons_S by lia. rewrite znth_cons_S by lia. cbn [Z.sub Z.pos_sub Pos.pred_double]. rewrite znth_cons_0.
    change 3 with (2 ^ 2 - 1). rewrite land_low_mod by lia. rewrite Z.shiftl_mul_pow2 by lia.
    assert (Hq : 0 <= L / 256 < 4) by (split; [apply Z.div_pos; lia|apply Z.div_lt_upper_bound; lia]).
    change (2 ^ 2) with 4. replace ((r * 4 + L / 256) mod 4) with (L / 256).
    2:{ rewrite Z.add_comm, Z.mod_add by lia. rewrite Z.mod_small by lia. reflexivity. }
    rewrite lor_disjoint; [|lia|apply Z.mod_pos_bound; lia].
    change (2 ^ 8) with 256. pose proof (Z.div_mod L 256 ltac:(lia)). lia. }
  split; [|exact Hlen].
  unfold frame_accept, crc_matches. rewrite Hlen.
  set (head := [211; r * 4 + L / 256; L mod 256] ++ payload).
  assert (Hm : mkframe r payload = head ++ crc_bytes (crc24q head)) by reflexivity.
  assert (Hh : zlen head = L + 3).
  { unfold head. rewrite zlen_app. fold L. unfold zlen. cbn [length]. lia. }
  assert (Hz : zlen (mkframe r payload) = L + 6).
  { rewrite Hm, zlen_app, Hh. unfold crc_bytes, zlen. cbn [length]. lia. }
  rewrite Hz. split; [lia|]. split; [reflexivity|]. split; [lia|].
  rewrite Hm.
  replace (zfirstn (L + 3) (head ++ crc_bytes (crc24q head))) with head
    by (rewrite <- Hh; symmetry; apply zfirstn_app_exact).
  rewrite !znth_app_r by lia. rewrite Hh.
  replace (L + 3 - (L + 3)) with 0 by ring. replace (L + 4 - (L + 3)) with 1 by ring. replace (L + 5 - (L + 3)) with 2 by ring.
  unfold crc_bytes. cbn [znth Z.to_nat nth Pos.to_nat Pos.iter_op Nat.add].
  apply crc_bytes_be24. apply crc24q_range.
Qed.

Lemma mkframe_data r payload : zlen payload <= 1023 -> 0 <= r < 64 ->
  exists f, frame_new (mkframe r payload) = Ok f /\ fr_data f = payload /\ frame_len f = zlen payload + 6.
Proof.
  intros HL Hr. destruct (mkframe_accept r payload HL Hr) as [Ha Hlen].
  exists (frame_of (mkframe r payload)). split; [apply frame_accept_ok; exact Ha|].
  pose proof (zlen_nonneg payload) as H0.
  unfold frame_of, frame_len. cbn [fr_data fr_frame_data]. rewrite Hlen.
  unfold mkframe.
  change ([211; r * 4 + zlen payload / 256; zlen payload mod 256] ++ payload) with ([211; r * 4 + zlen payload / 256; zlen payload mod 256] ++ payload).
  split.
  - rewrite <- app_assoc.
    change 3 with (zlen [211; r * 4 + zlen payload / 256; zlen payload mod 256]).
    rewrite zskipn_app_exact. apply zfirstn_app_exact.
  - apply zlen_zfirstn. rewrite !zlen_app. unfold crc_bytes, zlen. cbn [length]. lia.
Qed.

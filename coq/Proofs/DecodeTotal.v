(** Decoding never panics (C02): by induction over the layout, from the totality of Parser::parse. *)
From Coq Require Import ZArith List Lia Bool.
From Flocq Require Import Core BinarySingleNaN.
From RtcmModel Require Import Types BitIO Floats Field SigId Text Bias Msm Layout.
From RtcmProofs Require Import ListZ FragInd EncodeLen BitProofs DecodeBound BiasProofs TextProofs.
Import ListNotations.
Open Scope Z_scope.

(** ---------- data fields ---------- *)
Definition pat_lo (ck : ckind) (len : Z) : Z := match ck with KU => 0 | KI => - 2 ^ (len - 1) | KSM => - (2 ^ (len - 1) - 1) end.
Definition pat_hi (ck : ckind) (len : Z) : Z := match ck with KU => 2 ^ len - 1 | KI => 2 ^ (len - 1) - 1 | KSM => 2 ^ (len - 1) - 1 end.

Lemma representable_range ck len v : representable ck len v -> pat_lo ck len <= v <= pat_hi ck len.
Proof. destruct ck; cbn; lia. Qed.

Definition int_safe (dk : ckind * Z) (r b : option Z) (ck : ckind) (len : Z) : bool :=
  let lo := pat_lo ck len in let hi := pat_hi ck len in
  let r' := match r with Some x => x | None => 1 end in
  let b' := match b with Some x => x | None => 0 end in
  (1 <=? snd dk) && (0 <=? r') &&
  in_carrier (fst dk) (snd dk) lo && in_carrier (fst dk) (snd dk) hi &&
  in_carrier (fst dk) (snd dk) (lo * r') && in_carrier (fst dk) (snd dk) (hi * r') &&
  in_carrier (fst dk) (snd dk) (lo * r' + b') && in_carrier (fst dk) (snd dk) (hi * r' + b').

Definition num_is_flt (n : option num) : bool := match n with None | Some (NFlt _ _) => true | Some (NInt _) => false end.

Definition field_dec_ok (fs : field_spec) : bool :=
  (8 <=? f_cbits fs) && (1 <=? f_len fs) && (f_len fs <=? f_cbits fs) &&
  match f_dt fs with
  | DF32 | DF64 => num_is_flt (f_res fs) && num_is_flt (f_bias fs)
  | d => match dty_int d, num_int (f_res fs), num_int (f_bias fs) with
         | Some dk, Some r, Some b => int_safe dk r b (f_ck fs) (f_len fs)
         | _, _, _ => false
         end
  end.

Lemma in_carrier_between k bits lo hi x : in_carrier k bits lo = true -> in_carrier k bits hi = true -> lo <= x <= hi -> in_carrier k bits x = true.
Proof. unfold in_carrier. intros H1 H2 Hx. apply andb_true_iff in H1, H2. apply andb_true_iff. lia. Qed.

Lemma idec_core_no_panic dk r b ck len v : int_safe dk r b ck len = true -> pat_lo ck len <= v <= pat_hi ck len ->
  idec_core dk r b v <> Panic.
Proof.
  unfold int_safe. cbv zeta. intros H Hv.
  apply andb_true_iff in H. destruct H as [H H6]. apply andb_true_iff in H. destruct H as [H H0].
  apply andb_true_iff in H. destruct H as [H H1]. apply andb_true_iff in H. destruct H as [H H2].
  apply andb_true_iff in H. destruct H as [H H3]. apply andb_true_iff in H. destruct H as [H H4].
  apply andb_true_iff in H. destruct H as [H H5]. apply Z.leb_le in H, H5.
  set (lo := pat_lo ck len) in *. set (hi := pat_hi ck len) in *.
  assert (Hw : wrapc (fst dk) (snd dk) v = v).
  { apply wrapc_in_range; [lia|]. pose proof (in_carrier_between _ _ lo hi v H4 H3 Hv) as Hc. unfold in_carrier in Hc. apply andb_true_iff in Hc. lia. }
  unfold idec_core. rewrite Hw.
  destruct r as [r|]; cbn [bind].
  - assert (Hp : in_carrier (fst dk) (snd dk) (v * r) = true) by (eapply in_carrier_between; [exact H2|exact H1|nia]).
    rewrite Hp. cbn [bind]. destruct b as [b|]; [|discriminate].
    assert (Hs : in_carrier (fst dk) (snd dk) (v * r + b) = true) by (eapply in_carrier_between; [exact H0|exact H6|nia]).
    rewrite Hs. discriminate.
  - destruct b as [b|]; [|discriminate].
    assert (Hs : in_carrier (fst dk) (snd dk) (v + b) = true) by (eapply in_carrier_between; [exact H0|exact H6|lia]).
    rewrite Hs. discriminate.
Qed.

Lemma decode_core_no_panic fs v : field_dec_ok fs = true -> pat_lo (f_ck fs) (f_len fs) <= v <= pat_hi (f_ck fs) (f_len fs) ->
  decode_core fs v <> Panic.
Proof.
  unfold field_dec_ok. intros H Hv. apply andb_true_iff in H. destruct H as [_ H]. unfold decode_core.
  destruct (f_dt fs) eqn:Ed; cbn [dty_int] in *;
    try (destruct (num_int (f_res fs)) as [r|]; [|discriminate]; destruct (num_int (f_bias fs)) as [b|]; [|discriminate];
         pose proof (idec_core_no_panic _ r b _ _ v H Hv) as Hn; destruct (idec_core _ r b v); [discriminate|discriminate|contradiction]).
  - apply andb_true_iff in H. destruct H as [H1 H2].
    destruct (f_res fs) as [[z|m e]|]; cbn in H1; try discriminate; destruct (f_bias fs) as [[z'|m' e']|]; cbn in H2; try discriminate; cbn; discriminate.
  - apply andb_true_iff in H. destruct H as [H1 H2].
    destruct (f_res fs) as [[z|m e]|]; cbn in H1; try discriminate; destruct (f_bias fs) as [[z'|m' e']|]; cbn in H2; try discriminate; cbn; discriminate.
Qed.

Lemma field_dec_ok_widths fs : field_dec_ok fs = true -> 8 <= f_cbits fs /\ 1 <= f_len fs <= f_cbits fs.
Proof. unfold field_dec_ok. intros H. repeat (apply andb_true_iff in H; destruct H as [H ?]). lia. Qed.

Lemma decode_field_no_panic fs data off : field_dec_ok fs = true -> bytes_ok data = true -> 0 <= off ->
  decode_field fs data off <> Panic.
Proof.
  intros Hok Hb Ho. destruct (field_dec_ok_widths fs Hok) as [Hc Hl]. unfold decode_field.
  destruct (parse (f_ck fs) (f_cbits fs) data off (f_len fs)) as [[value off']|e|] eqn:P; cbn [bind];
    [|discriminate|exfalso; exact (parse_no_panic _ _ _ _ _ Hc Hl Ho Hb P)].
  destruct (parse_range _ _ _ _ _ _ _ Hc Hl Ho Hb P) as [Hr _].
  pose proof (decode_core_no_panic fs value Hok (representable_range _ _ _ Hr)) as Hn.
  destruct (decode_core fs value); cbn [bind]; [|discriminate|contradiction].
  destruct (f_inv fs); [destruct (_ =? _)|]; discriminate.
Qed.

(** where a successful field decode leaves the cursor *)
Lemma decode_field_off fs data off v off' : decode_field fs data off = Ok (v, off') -> off' = off + f_len fs.
Proof. unfold decode_field. intros H. crush H; inversion H; subst; offs; reflexivity. Qed.

(** ---------- strings ---------- *)
Lemma parse_str_bytes_no_panic data : bytes_ok data = true -> forall n off acc, 0 <= off -> parse_str_bytes n data off acc <> Panic.
Proof.
  intros Hb. induction n as [|n IH]; intros off acc Ho; cbn [parse_str_bytes]; [discriminate|].
  destruct (parse KU 8 data off 8) as [[v o1]|e|] eqn:P; cbn [bind]; [|discriminate|exfalso; exact (parse_no_panic KU 8 data off 8 ltac:(lia) ltac:(lia) Ho Hb P)].
  apply parse_off in P. destruct P as [-> _]. apply IH. lia.
Qed.

Lemma decode_str_no_panic cap lb data off : 1 <= lb <= 8 -> bytes_ok data = true -> 0 <= off -> decode_str cap lb data off <> Panic.
Proof.
  intros Hl Hb Ho. unfold decode_str.
  destruct (parse KU 8 data off lb) as [[len o1]|e|] eqn:P; cbn [bind]; [|discriminate|exfalso; exact (parse_no_panic KU 8 data off lb ltac:(lia) Hl Ho Hb P)].
  apply parse_off in P. destruct P as [-> _]. destruct (_ <? _); [discriminate|].
  pose proof (parse_str_bytes_no_panic data Hb (Z.to_nat len) (off + lb) [] ltac:(lia)) as Hn.
  destruct (parse_str_bytes _ _ _ _) as [[bs o2]|e|]; cbn [bind]; [discriminate|discriminate|contradiction].
Qed.

(** what from_utf8 yields are Unicode scalar values *)
Lemma utf8_decode_scalars : forall f l cs, utf8_decode f l = Some cs -> forallb scalar_ok cs = true.
Proof.
  induction f as [|f IH]; intros l cs H.
  - destruct l; [inversion H; reflexivity|discriminate].
  - destruct l as [|b0 r]; [inversion H; reflexivity|]. rewrite utf8_decode_S in H. unfold utf8_step in H.
    unfold inr, cont in H.
    destruct ((0 <=? b0) && (b0 <=? 127)) eqn:C1.
    { destruct (utf8_decode f r) as [cs'|] eqn:E; [|discriminate]. inversion H; subst. cbn [forallb]. rewrite (IH _ _ E).
      unfold scalar_ok. replace ((0 <=? b0) && (b0 <? 55296)) with true by lia. reflexivity. }
    destruct ((194 <=? b0) && (b0 <=? 223)) eqn:C2.
    { destruct r as [|b1 r1]; [discriminate|]. destruct ((128 <=? b1) && (b1 <=? 191)) eqn:D1; [|discriminate].
      destruct (utf8_decode f r1) as [cs'|] eqn:E; [|discriminate]. inversion H; subst. cbn [forallb]. rewrite (IH _ _ E).
      unfold scalar_ok. replace ((0 <=? (b0 - 192) * 64 + (b1 - 128)) && ((b0 - 192) * 64 + (b1 - 128) <? 55296)) with true by lia. reflexivity. }
    destruct ((224 <=? b0) && (b0 <=? 239)) eqn:C3.
    { destruct r as [|b1 [|b2 r2]]; try discriminate. cbv zeta in H.
      destruct ((if b0 =? 224 then (160 <=? b1) && (b1 <=? 191) else if b0 =? 237 then (128 <=? b1) && (b1 <=? 159) else (128 <=? b1) && (b1 <=? 191))
                && ((128 <=? b2) && (b2 <=? 191))) eqn:D1; [|discriminate].
      destruct (utf8_decode f r2) as [cs'|] eqn:E; [|discriminate]. inversion H; subst. cbn [forallb]. rewrite (IH _ _ E). rewrite andb_true_r.
      unfold scalar_ok. apply andb_true_iff in D1. destruct D1 as [D1 D2].
      destruct (Z.eqb_spec b0 224); [|destruct (Z.eqb_spec b0 237)]; lia. }
    destruct ((240 <=? b0) && (b0 <=? 244)) eqn:C4; [|discriminate].
    destruct r as [|b1 [|b2 [|b3 r3]]]; try discriminate. cbv zeta in H.
    destruct ((if b0 =? 240 then (144 <=? b1) && (b1 <=? 191) else if b0 =? 244 then (128 <=? b1) && (b1 <=? 143) else (128 <=? b1) && (b1 <=? 191))
              && ((128 <=? b2) && (b2 <=? 191)) && ((128 <=? b3) && (b3 <=? 191))) eqn:D1; [|discriminate].
    destruct (utf8_decode f r3) as [cs'|] eqn:E; [|discriminate]. inversion H; subst. cbn [forallb]. rewrite (IH _ _ E). rewrite andb_true_r.
    unfold scalar_ok. apply andb_true_iff in D1. destruct D1 as [D1 D3]. apply andb_true_iff in D1. destruct D1 as [D1 D2].
    destruct (Z.eqb_spec b0 240); [|destruct (Z.eqb_spec b0 244)]; lia.
Qed.

Lemma decode_utf8_no_panic data off : bytes_ok data = true -> 0 <= off -> decode_utf8 data off <> Panic.
Proof.
  intros Hb Ho. unfold decode_utf8.
  destruct (parse KU 8 data off 7) as [[n o1]|e|] eqn:P1; cbn [bind]; [|discriminate|exfalso; exact (parse_no_panic KU 8 data off 7 ltac:(lia) ltac:(lia) Ho Hb P1)].
  apply parse_off in P1. destruct P1 as [-> _].
  destruct (parse KU 8 data (off + 7) 8) as [[len o2]|e|] eqn:P2; cbn [bind]; [|discriminate|exfalso; exact (parse_no_panic KU 8 data (off + 7) 8 ltac:(lia) ltac:(lia) ltac:(lia) Hb P2)].
  apply parse_off in P2. destruct P2 as [-> Hfit].
  destruct (Z.ltb_spec (zlen data) ((off + 7 + 8) / 8)) as [Hbad|_].
  - exfalso. assert ((off + 7 + 8) / 8 <= zlen data) by (apply Z.div_le_upper_bound; lia). lia.
  - destruct (_ <? _); [discriminate|].
    destruct (from_utf8 (zfirstn len _)) as [chars|] eqn:E; [|discriminate].
    assert (Hs : forallb scalar_ok chars = true) by (eapply utf8_decode_scalars; exact E).
    rewrite (array_string_valid 255 chars ltac:(lia) Hs). discriminate.
Qed.

(** ---------- 1230 ---------- *)
Lemma b1230_dec_no_panic data : bytes_ok data = true -> forall n i mask off acc, 0 <= off -> b1230_dec n i mask data off acc <> Panic.
Proof.
  intros Hb. induction n as [|n IH]; intros i mask off acc Ho; cbn [b1230_dec]; [discriminate|].
  destruct (Z.testbit mask (3 - i)); [|apply IH; exact Ho].
  destruct (parse KI 16 data off 16) as [[b o1]|e|] eqn:P; cbn [bind]; [|discriminate|exfalso; exact (parse_no_panic KI 16 data off 16 ltac:(lia) ltac:(lia) Ho Hb P)].
  apply parse_off in P. destruct P as [-> _]. apply IH. lia.
Qed.
Lemma b1230_decode_no_panic data off : bytes_ok data = true -> 0 <= off -> b1230_decode data off <> Panic.
Proof.
  intros Hb Ho. unfold b1230_decode.
  destruct (parse KU 8 data off 4) as [[m o1]|e|] eqn:P; cbn [bind]; [|discriminate|exfalso; exact (parse_no_panic KU 8 data off 4 ltac:(lia) ltac:(lia) Ho Hb P)].
  apply parse_off in P. destruct P as [-> _].
  pose proof (b1230_dec_no_panic data Hb 4 0 m (off + 4) [] ltac:(lia)) as Hn.
  destruct (b1230_dec _ _ _ _ _ _) as [[l o2]|e|]; cbn [bind]; [discriminate|discriminate|contradiction].
Qed.

(** ---------- MSM ---------- *)
Lemma popcount_nonneg_dec n : forall sh mask c, 0 <= c -> 0 <= popcount_loop n sh mask c.
Proof. induction n as [|n IH]; intros sh mask c H; cbn [popcount_loop]; [exact H|]. apply IH. destruct (Z.testbit mask sh); lia. Qed.
Lemma mask_len_nonneg_dec w m : 0 <= mask_len w m.
Proof. unfold mask_len. apply popcount_nonneg_dec. lia. Qed.

Lemma mask_ids_loop_len width mask : forall n i, zlen (mask_ids_loop n i width mask) <= Z.of_nat n.
Proof.
  induction n as [|n IH]; intros i; cbn [mask_ids_loop]; [unfold zlen; cbn; lia|].
  specialize (IH (i + 1)). destruct (Z.testbit mask (width - 1 - i)); rewrite ?zlen_cons; lia.
Qed.
Lemma mask_to_id_vec_len width mask : 0 <= width -> zlen (mask_to_id_vec width mask) <= width.
Proof. intros H. unfold mask_to_id_vec. pose proof (mask_ids_loop_len width mask (Z.to_nat width) 0). lia. Qed.

Lemma cells_loop_ok sat_vec sig_vec ccl cell_mask : 0 < zlen sig_vec -> ccl = zlen sat_vec * zlen sig_vec ->
  forall n i, 0 <= i -> i + Z.of_nat n <= ccl ->
  exists cv, cells_loop n i ccl cell_mask sat_vec sig_vec = Ok cv /\ zlen cv <= Z.of_nat n.
Proof.
  intros Hs Hccl. induction n as [|n IH]; intros i Hi Hn; cbn [cells_loop].
  - exists []. split; [reflexivity|unfold zlen; cbn; lia].
  - destruct (IH (i + 1) ltac:(lia) ltac:(lia)) as [cv [E Hl]].
    destruct (Z.testbit cell_mask (ccl - 1 - i)).
    + unfold aget.
      assert (Hq : 0 <= i / zlen sig_vec < zlen sat_vec).
      { split; [apply Z.div_pos; lia|]. apply Z.div_lt_upper_bound; [lia|]. nia. }
      assert (Hr : 0 <= i mod zlen sig_vec < zlen sig_vec) by (apply Z.mod_pos_bound; lia).
      replace ((0 <=? i / zlen sig_vec) && (i / zlen sig_vec <? zlen sat_vec)) with true by lia.
      replace ((0 <=? i mod zlen sig_vec) && (i mod zlen sig_vec <? zlen sig_vec)) with true by lia.
      cbn [bind]. rewrite E. cbn [bind]. eexists. split; [reflexivity|]. rewrite zlen_cons. lia.
    + exists cv. split; [exact E|lia].
Qed.

Lemma cell_mask_id_vec_ok sat_mask sig_mask cell_mask :
  exists r, cell_mask_id_vec sat_mask sig_mask cell_mask = Ok r /\
            match r with Some (sv, cv) => zlen sv <= 64 /\ zlen cv <= 64 | None => True end.
Proof.
  unfold cell_mask_id_vec.
  set (sv := mask_to_id_vec 64 sat_mask). set (gv := mask_to_id_vec 32 sig_mask).
  pose proof (mask_to_id_vec_len 64 sat_mask ltac:(lia)) as Hs. fold sv in Hs.
  destruct ((64 <? zlen sv * zlen gv) || (zlen sv * zlen gv =? 0)) eqn:C; [exists None; split; [reflexivity|exact I]|].
  apply orb_false_iff in C. destruct C as [C1 C2]. apply Z.ltb_ge in C1. apply Z.eqb_neq in C2.
  pose proof (zlen_nonneg sv). pose proof (zlen_nonneg gv).
  assert (Hg : 0 < zlen gv) by nia.
  destruct (cells_loop_ok sv gv (zlen sv * zlen gv) cell_mask Hg eq_refl (Z.to_nat (zlen sv * zlen gv)) 0 ltac:(lia) ltac:(nia)) as [cv [E Hl]].
  rewrite E. cbn [bind]. eexists. split; [reflexivity|]. split; [exact Hs|]. rewrite Z2Nat.id in Hl by (apply Z.mul_nonneg_nonneg; assumption). lia.
Qed.

Lemma dec_column_no_panic fs data : field_dec_ok fs = true -> bytes_ok data = true -> forall n off, 0 <= off -> dec_column fs n data off <> Panic.
Proof.
  intros Hok Hb. induction n as [|n IH]; intros off Ho; cbn [dec_column]; [discriminate|].
  pose proof (decode_field_no_panic fs data off Hok Hb Ho) as Hn.
  destruct (decode_field fs data off) as [[x o1]|e|] eqn:E; cbn [bind]; [|discriminate|contradiction].
  apply decode_field_off in E. destruct (field_dec_ok_widths fs Hok) as [_ Hl].
  specialize (IH o1 ltac:(lia)). destruct (dec_column fs n data o1) as [[r o2]|e|]; cbn [bind]; [discriminate|discriminate|contradiction].
Qed.

Lemma dec_column_off fs data : 0 <= f_len fs -> forall n off col off', dec_column fs n data off = Ok (col, off') -> off <= off'.
Proof.
  intros Hl. induction n as [|n IH]; intros off col off' H; cbn [dec_column] in H; [inversion H; lia|].
  crush H. inversion H; subst.
  match goal with E : decode_field _ _ _ = Ok _ |- _ => apply decode_field_off in E end.
  match goal with E : dec_column _ _ _ _ = Ok _ |- _ => apply IH in E end. lia.
Qed.

Lemma dec_columns_no_panic data n : bytes_ok data = true -> forall specs, forallb field_dec_ok specs = true ->
  forall off rows, 0 <= off -> dec_columns specs n data off rows <> Panic.
Proof.
  intros Hb. induction specs as [|fs r IH]; intros Hok off rows Ho; cbn [dec_columns]; [discriminate|].
  cbn [forallb] in Hok. apply andb_true_iff in Hok. destruct Hok as [Hf Hr].
  pose proof (dec_column_no_panic fs data Hf Hb n off Ho) as Hn.
  destruct (dec_column fs n data off) as [[col o1]|e|] eqn:E; cbn [bind]; [|discriminate|contradiction].
  destruct (field_dec_ok_widths fs Hf) as [_ Hl]. apply dec_column_off in E; [|lia]. apply IH; [exact Hr|lia].
Qed.

Lemma dec_columns_off data n : forall specs, forallb field_dec_ok specs = true ->
  forall off rows rows' off', dec_columns specs n data off rows = Ok (rows', off') -> off <= off'.
Proof.
  induction specs as [|fs r IH]; intros Hok off rows rows' off' H; cbn [dec_columns] in H; [inversion H; lia|].
  cbn [forallb] in Hok. apply andb_true_iff in Hok. destruct Hok as [Hf Hr]. destruct (field_dec_ok_widths fs Hf) as [_ Hl].
  crush H. match goal with E : dec_column _ _ _ _ = Ok _ |- _ => apply dec_column_off in E; [|lia] end.
  apply (IH Hr) in H. lia.
Qed.

Lemma msm_decode_no_panic tbl a b data off : forallb field_dec_ok a = true -> forallb field_dec_ok b = true ->
  bytes_ok data = true -> 0 <= off -> msm_decode tbl a b data off <> Panic.
Proof.
  intros Ha Hbk Hb Ho. unfold msm_decode.
  destruct (parse KU 64 data off 64) as [[sm o1]|e|] eqn:P1; cbn [bind]; [|discriminate|exfalso; exact (parse_no_panic KU 64 data off 64 ltac:(lia) ltac:(lia) Ho Hb P1)].
  apply parse_off in P1. destruct P1 as [-> _].
  destruct (parse KU 32 data (off + 64) 32) as [[gm o2]|e|] eqn:P2; cbn [bind]; [|discriminate|exfalso; exact (parse_no_panic KU 32 data (off + 64) 32 ltac:(lia) ltac:(lia) ltac:(lia) Hb P2)].
  apply parse_off in P2. destruct P2 as [-> _].
  destruct (_ && _); [discriminate|].
  destruct (Z.ltb_spec 64 (mask_len 64 sm * mask_len 32 gm)) as [|Hccl]; [discriminate|].
  pose proof (mask_len_nonneg_dec 64 sm) as M1. pose proof (mask_len_nonneg_dec 32 gm) as M2.
  set (w := mask_len 64 sm * mask_len 32 gm) in *.
  assert (Hw : 0 <= w) by (unfold w; nia).
  destruct (parse KU 64 data (off + 64 + 32) w) as [[cm o3]|e|] eqn:P3; cbn [bind]; [|discriminate|exfalso].
  2:{ destruct (Z.eq_dec w 0) as [E0|E0].
      - rewrite E0 in P3. exact (parse_ku_zero 64 data (off + 64 + 32) ltac:(lia) ltac:(lia) Hb P3).
      - exact (parse_no_panic KU 64 data (off + 64 + 32) w ltac:(lia) ltac:(lia) ltac:(lia) Hb P3). }
  assert (Ho3 : 0 <= o3).
  { unfold parse in P3. destruct (_ <? _) in P3; [discriminate|]. crush P3. inversion P3. lia. }
  destruct (cell_mask_id_vec_ok sm gm cm) as [r [E Hr]]. rewrite E. cbn [bind].
  destruct r as [[sv cv]|]; [|discriminate]. destruct Hr as [Hsv Hcv].
  unfold dec_sat_rows. destruct (Z.ltb_spec 64 (zlen sv)); [lia|].
  pose proof (dec_columns_no_panic data (length sv) Hb a Ha o3 (map (fun s => [VInt s]) sv) Ho3) as N1.
  destruct (dec_columns a (length sv) data o3 _) as [[rows o4]|e|] eqn:E4; cbn [bind]; [|discriminate|contradiction].
  apply (dec_columns_off data (length sv) a Ha) in E4.
  unfold dec_sig_rows. destruct (Z.ltb_spec 64 (zlen cv)); [lia|].
  destruct (cells_to_rows tbl cv) as [rows0|e|] eqn:E5; cbn [bind]; [|discriminate|].
  - pose proof (dec_columns_no_panic data (length cv) Hb b Hbk o4 rows0 ltac:(lia)) as N2.
    destruct (dec_columns b (length cv) data o4 rows0) as [[rows2 o5]|e|]; cbn [bind]; [discriminate|discriminate|contradiction].
  - exfalso. clear - E5. revert E5. induction cv as [|[s g] r IH]; cbn [cells_to_rows]; [discriminate|].
    destruct (to_sig tbl g) as [[b0 c0]|]; [|discriminate]. destruct (cells_to_rows tbl r); cbn [bind]; try discriminate. intros _. apply IH. reflexivity.
Qed.

(** ---------- cursor never moves backwards ---------- *)
Lemma parse_str_bytes_mono data : forall n off acc bs off', parse_str_bytes n data off acc = Ok (bs, off') -> off <= off'.
Proof.
  induction n as [|n IH]; intros off acc bs off' H; cbn [parse_str_bytes] in H; [inversion H; lia|].
  crush H. offs. apply IH in H. lia.
Qed.
Lemma decode_str_mono cap lb data off v off' : 0 <= lb -> decode_str cap lb data off = Ok (v, off') -> off <= off'.
Proof. unfold decode_str. intros Hl H. crush H. inversion H; subst. offs. match goal with E : parse_str_bytes _ _ _ _ = Ok _ |- _ => apply parse_str_bytes_mono in E end. lia. Qed.
Lemma cb_dec_entries_mono table cap data : forall n sat off acc es off', cb_dec_entries table cap n sat data off acc = Ok (es, off') -> off <= off'.
Proof.
  induction n as [|n IH]; intros sat off acc es off' H; cbn [cb_dec_entries] in H; [inversion H; lia|].
  crush H; offs; apply IH in H; lia.
Qed.
Lemma cb_dec_sats_mono table sat_bits cap data : 0 <= sat_bits -> forall n off acc es off', cb_dec_sats table sat_bits cap n data off acc = Ok (es, off') -> off <= off'.
Proof.
  intros Hs. induction n as [|n IH]; intros off acc es off' H; cbn [cb_dec_sats] in H; [inversion H; lia|].
  crush H. offs. match goal with E : cb_dec_entries _ _ _ _ _ _ _ = Ok _ |- _ => apply cb_dec_entries_mono in E end. apply IH in H. lia.
Qed.
Lemma cb_decode_mono table sat_bits cap data off v off' : 0 <= sat_bits -> cb_decode table sat_bits cap data off = Ok (v, off') -> off <= off'.
Proof. unfold cb_decode. intros Hs H. crush H. inversion H; subst. offs. match goal with E : cb_dec_sats _ _ _ _ _ _ _ = Ok _ |- _ => apply cb_dec_sats_mono in E; [|assumption] end. lia. Qed.
Lemma b1230_dec_mono data : forall n i mask off acc l off', b1230_dec n i mask data off acc = Ok (l, off') -> off <= off'.
Proof.
  induction n as [|n IH]; intros i mask off acc l off' H; cbn [b1230_dec] in H; [inversion H; lia|].
  crush H; offs; apply IH in H; lia.
Qed.
Lemma b1230_decode_mono data off v off' : b1230_decode data off = Ok (v, off') -> off <= off'.
Proof. unfold b1230_decode. intros H. crush H. inversion H; subst. offs. match goal with E : b1230_dec _ _ _ _ _ _ = Ok _ |- _ => apply b1230_dec_mono in E end. lia. Qed.
Lemma decode_utf8_mono data off v off' : bytes_ok data = true -> 0 <= off -> decode_utf8 data off = Ok (v, off') -> off <= off'.
Proof.
  unfold decode_utf8. intros Hb Ho H. crush H. inversion H; subst.
  match goal with E : parse KU 8 data off 7 = Ok _ |- _ => apply parse_off in E; destruct E as [-> _] end.
  match goal with E : parse KU 8 data _ 8 = Ok _ |- _ => apply (parse_range KU 8 data _ 8) in E; try lia; try assumption; destruct E as [R [-> _]] end.
  unfold representable in R. lia.
Qed.
Lemma msm_decode_mono tbl a b data off v off' : forallb field_dec_ok a = true -> forallb field_dec_ok b = true ->
  msm_decode tbl a b data off = Ok (v, off') -> off <= off'.
Proof.
  intros Ha Hb. unfold msm_decode. intros H. crush H; try (inversion H; subst; offs).
  all: try match goal with C : (64 <? ?w) = false |- _ => apply Z.ltb_ge in C end.
  all: pose proof (mask_len_nonneg_dec 64 z) as M1; pose proof (mask_len_nonneg_dec 32 z1) as M2.
  all: try nia.
  match goal with E : dec_sat_rows _ _ _ _ = Ok _ |- _ => unfold dec_sat_rows in E; crush E; inversion E; subst end.
  match goal with E : dec_sig_rows _ _ _ _ _ = Ok _ |- _ => unfold dec_sig_rows in E; crush E; inversion E; subst end.
  repeat match goal with E : dec_columns _ _ _ _ _ = Ok _ |- _ => apply dec_columns_off in E; [|assumption] end.
  nia.
Qed.

(** ---------- layouts ---------- *)
Definition is_int_field (fs : field_spec) : bool :=
  match f_dt fs with DF32 | DF64 => false | _ => true end && match f_inv fs with None => true | Some _ => false end.

Lemma decode_field_int fs data off v off' : is_int_field fs = true -> decode_field fs data off = Ok (v, off') -> exists x, v = VInt x.
Proof.
  unfold is_int_field, decode_field, decode_core. intros Hi H. apply andb_true_iff in Hi. destruct Hi as [Hd Hinv].
  destruct (f_inv fs); [discriminate|].
  destruct (f_dt fs); try discriminate; crush H; inversion H; subst;
    match goal with E0 : _ = Ok v |- _ => crush E0; inversion E0; subst end; eexists; reflexivity.
Qed.

Section FragTotal.
  Variable sigt : gnss -> sigtable.
  Variable ssr59 ssr65 : sigtable.
  Variable cap59 cap65 : Z.
  Notation dec := (decode_frag sigt ssr59 ssr65 cap59 cap65).

  Fixpoint frag_dec_ok (f : frag) : bool :=
    match f with
    | FField fs => field_dec_ok fs
    | FStr _ lb => (1 <=? lb) && (lb <=? 8)
    | FStruct l => (fix all (l : list frag) : bool := match l with [] => true | x :: r => frag_dec_ok x && all r end) l
    | FLenMid f1 lenf f2 elem _ =>
        (fix all (l : list frag) : bool := match l with [] => true | x :: r => frag_dec_ok x && all r end) f1
        && (field_dec_ok lenf && is_int_field lenf)
        && (fix all (l : list frag) : bool := match l with [] => true | x :: r => frag_dec_ok x && all r end) f2
        && frag_dec_ok elem
    | FVecLen elem _ lb => (1 <=? lb) && (lb <=? 16) && frag_dec_ok elem
    | FGrid16 elem => frag_dec_ok elem
    | FMsm _ a b => forallb field_dec_ok a && forallb field_dec_ok b
    | _ => true
    end.
  Lemma all_dec_ok_eq l : (fix all (l : list frag) : bool := match l with [] => true | x :: r => frag_dec_ok x && all r end) l = forallb frag_dec_ok l.
  Proof. induction l as [|x r IH]; [reflexivity|]. cbn [forallb]. f_equal; exact IH. Qed.

  (** decoding a layout never panics, and the cursor never moves backwards *)
  Definition total_at (f : frag) : Prop :=
    frag_dec_ok f = true -> forall data off, bytes_ok data = true -> 0 <= off ->
      dec f data off <> Panic /\ (forall v off', dec f data off = Ok (v, off') -> off <= off').

  Notation go_list := (fun data => fix go (fl : list frag) (off : Z) {struct fl} : outcome (list val * Z) :=
         match fl with
         | [] => Ok ([], off)
         | f' :: fl' => '(x, off1) <- dec f' data off ;; '(r, off2) <- go fl' off1 ;; Ok (x :: r, off2)
         end).
  Notation go_elems := (fun elem data => fix elems (n : nat) (off : Z) {struct n} : outcome (list val * Z) :=
         match n with
         | O => Ok ([], off)
         | S n' => '(x, o1) <- dec elem data off ;; '(r, o2) <- elems n' o1 ;; Ok (x :: r, o2)
         end).

  Lemma decode_list_total : forall fl, Forall total_at fl -> forallb frag_dec_ok fl = true ->
    forall data off, bytes_ok data = true -> 0 <= off ->
      go_list data fl off <> Panic /\ (forall vs off', go_list data fl off = Ok (vs, off') -> off <= off').
  Proof.
    induction 1 as [|f fl Hf _ IH]; intros Hn data off Hb Ho.
    - split; [discriminate|]. intros vs off' H. inversion H; lia.
    - cbn [forallb] in Hn. apply andb_true_iff in Hn. destruct Hn as [Hn1 Hn2].
      destruct (Hf Hn1 data off Hb Ho) as [Np Hm].
      destruct (dec f data off) as [[x o1]|e|] eqn:E; cbn [bind]; [|split; [discriminate|intros ? ? H; discriminate]|contradiction].
      specialize (Hm x o1 eq_refl).
      destruct (IH Hn2 data o1 Hb ltac:(lia)) as [Np2 Hm2].
      destruct (go_list data fl o1) as [[r o2]|e|] eqn:E2; cbn [bind]; [|split; [discriminate|intros ? ? H; discriminate]|contradiction].
      specialize (Hm2 r o2 eq_refl). split; [discriminate|]. intros vs off' H. inversion H; subst. lia.
  Qed.

  Lemma decode_elems_total elem : total_at elem -> frag_dec_ok elem = true ->
    forall data, bytes_ok data = true -> forall n off, 0 <= off ->
      go_elems elem data n off <> Panic /\ (forall l off', go_elems elem data n off = Ok (l, off') -> off <= off').
  Proof.
    intros He Hn data Hb. induction n as [|n IH]; intros off Ho.
    - split; [discriminate|]. intros l off' H. inversion H; lia.
    - destruct (He Hn data off Hb Ho) as [Np Hm].
      destruct (dec elem data off) as [[x o1]|e|] eqn:E; cbn [bind]; [|split; [discriminate|intros ? ? H; discriminate]|contradiction].
      specialize (Hm x o1 eq_refl).
      destruct (IH o1 ltac:(lia)) as [Np2 Hm2].
      destruct (go_elems elem data n o1) as [[r o2]|e|] eqn:E2; cbn [bind]; [|split; [discriminate|intros ? ? H; discriminate]|contradiction].
      specialize (Hm2 r o2 eq_refl). split; [discriminate|]. intros l off' H. inversion H; subst. lia.
  Qed.

  Ltac fin_err := split; [discriminate|intros ? ? HH; discriminate].

  Theorem decode_frag_total : forall f, total_at f.
  Proof.
    apply frag_ind'; unfold total_at.
    - intros fs Hok data off Hb Ho. cbn [frag_dec_ok decode_frag] in *. split; [apply decode_field_no_panic; assumption|].
      intros v off' H. apply decode_field_off in H. destruct (field_dec_ok_widths fs Hok). lia.
    - intros cap lb Hok data off Hb Ho. cbn [frag_dec_ok decode_frag] in *. apply andb_true_iff in Hok. destruct Hok as [L1 L2].
      split; [apply decode_str_no_panic; try assumption; lia|]. intros v off' H. eapply decode_str_mono; [|eassumption]. lia.
    - intros _ data off Hb Ho. cbn [decode_frag]. split; [apply decode_utf8_no_panic; assumption|]. intros v off' H. eapply decode_utf8_mono; eassumption.
    - intros _ data off Hb Ho. cbn [decode_frag]. split; [apply cb_decode_no_panic; try assumption; lia|]. intros v off' H. eapply cb_decode_mono; [|eassumption]. lia.
    - intros _ data off Hb Ho. cbn [decode_frag]. split; [apply cb_decode_no_panic; try assumption; lia|]. intros v off' H. eapply cb_decode_mono; [|eassumption]. lia.
    - intros _ data off Hb Ho. cbn [decode_frag]. split; [apply b1230_decode_no_panic; assumption|]. intros v off' H. eapply b1230_decode_mono; eassumption.
    - intros l Hl Hok data off Hb Ho. cbn [frag_dec_ok decode_frag] in *. rewrite all_dec_ok_eq in Hok.
      destruct (decode_list_total l Hl Hok data off Hb Ho) as [Np Hm].
      destruct (go_list data l off) as [[vs o1]|e|] eqn:E; cbn [bind]; [|fin_err|contradiction].
      split; [discriminate|]. intros v off' H. inversion H; subst. apply (Hm vs off' eq_refl).
    - intros f1 lenf f2 elem cap H1 H2 He Hok data off Hb Ho. cbn [frag_dec_ok decode_frag] in *. rewrite !all_dec_ok_eq in Hok.
      apply andb_true_iff in Hok. destruct Hok as [Hok Hoe]. apply andb_true_iff in Hok. destruct Hok as [Hok Ho2].
      apply andb_true_iff in Hok. destruct Hok as [Ho1 Hol]. apply andb_true_iff in Hol. destruct Hol as [Hol Hoi].
      destruct (decode_list_total f1 H1 Ho1 data off Hb Ho) as [Np Hm].
      destruct (go_list data f1 off) as [[vs1 o1]|e|] eqn:E1; cbn [bind]; [|fin_err|contradiction].
      specialize (Hm vs1 o1 eq_refl).
      pose proof (decode_field_no_panic lenf data o1 Hol Hb ltac:(lia)) as Npl.
      destruct (decode_field lenf data o1) as [[lenv o2]|e|] eqn:El; cbn [bind]; [|fin_err|contradiction].
      destruct (decode_field_int lenf data o1 lenv o2 Hoi El) as [n ->].
      apply decode_field_off in El. destruct (field_dec_ok_widths lenf Hol) as [_ Hw].
      destruct (decode_list_total f2 H2 Ho2 data o2 Hb ltac:(lia)) as [Np2 Hm2].
      destruct (go_list data f2 o2) as [[vs2 o3]|e|] eqn:E2; cbn [bind]; [|fin_err|contradiction].
      specialize (Hm2 vs2 o3 eq_refl).
      destruct (cap <? n); [fin_err|].
      destruct (decode_elems_total elem He Hoe data Hb (Z.to_nat n) o3 ltac:(lia)) as [Np3 Hm3].
      destruct (go_elems elem data (Z.to_nat n) o3) as [[l o4]|e|] eqn:E3; cbn [bind]; [|fin_err|contradiction].
      specialize (Hm3 l o4 eq_refl). split; [discriminate|]. intros v off' H. inversion H; subst. lia.
    - intros elem cap lb He Hok data off Hb Ho. cbn [frag_dec_ok decode_frag] in *.
      apply andb_true_iff in Hok. destruct Hok as [Hok Hoe]. apply andb_true_iff in Hok. destruct Hok as [L1 L2].
      destruct (parse KU 16 data off lb) as [[len o1]|e|] eqn:P; cbn [bind]; [|fin_err|exfalso; exact (parse_no_panic KU 16 data off lb ltac:(lia) ltac:(lia) Ho Hb P)].
      apply parse_off in P. destruct P as [-> _].
      destruct (cap <? len); [fin_err|].
      destruct (decode_elems_total elem He Hoe data Hb (Z.to_nat len) (off + lb) ltac:(lia)) as [Np3 Hm3].
      destruct (go_elems elem data (Z.to_nat len) (off + lb)) as [[l o4]|e|] eqn:E3; cbn [bind]; [|fin_err|contradiction].
      specialize (Hm3 l o4 eq_refl). split; [discriminate|]. intros v off' H. inversion H; subst. lia.
    - intros elem He Hok data off Hb Ho. cbn [frag_dec_ok] in Hok.
      change (dec (FGrid16 elem) data off) with ('(l, off1) <- go_elems elem data 16%nat off ;; Ok (VList l, off1)).
      remember 16%nat as n16 eqn:Hn16. clear Hn16.
      destruct (decode_elems_total elem He Hok data Hb n16 off Ho) as [Np3 Hm3].
      destruct (go_elems elem data n16 off) as [[l o4]|e|] eqn:E3; cbn [bind]; [|fin_err|contradiction].
      specialize (Hm3 l o4 eq_refl). split; [discriminate|]. intros v off' H. inversion H; subst. lia.
    - intros g a b Hok data off Hb Ho. cbn [frag_dec_ok decode_frag] in *. apply andb_true_iff in Hok. destruct Hok as [Ha Hbb].
      split; [apply msm_decode_no_panic; assumption|]. intros v off' H. exact (msm_decode_mono _ a b data off v off' Ha Hbb H).
  Qed.
End FragTotal.

(** C16 -- SSR code-bias and GLONASS bias lists keep every entry or report an error.
    Proofs are in Proofs/BiasProofs.v about Model/Bias.v (transliteration of df_msg1059_biases.rs,
    df_msg1065_biases.rs, df_msg1230_biases.rs after the capacity and count fixes).
    PARTIAL: proved -- decoding any payload never panics and never yields more entries than the list
    capacity; an accepted list has at most 63 satellites and at most 31 recognised entries per satellite
    and fits the list capacity (so no count field can wrap); the SSR signal tables are one-to-one with ids
    that fit 5 bits; and for 1059 and 1065 ([C16_roundtrip_1059/1065], Proofs/BiasRoundTrip.v): whatever
    list the encoder accepts, with every quantised bias inside its 14-bit field (|bias| <= 81.91 m; beyond it
    the field wraps), decodes to exactly its recognised entries, each once, grouped by ascending satellite,
    in list order within a satellite, with the signal unchanged and the bias on its 0.01 m grid.
    Not proved: the same for 1230 (four entries in mask order: needs the sort) and the frame wrapper;
    covered by the ROUNDTRIP correspondence and the impl-side probes. *)
From Coq Require Import ZArith List Lia Bool.
From RtcmModel Require Import Types BitIO SigId Bias Layout Top.
From RtcmGen Require Import GenSignals GenLayouts.
From RtcmProofs Require Import ListZ SigProofs BiasProofs BitProofs BiasRoundTrip.
Import ListNotations.
Open Scope Z_scope.

(** table obligation: the two SSR signal tables are one-to-one and every id fits its 5-bit field *)
Theorem C16_ssr_tables_ok : table_ok 0 31 ssr_table_1059 = true /\ table_ok 0 31 ssr_table_1065 = true.
Proof. split; vm_compute; reflexivity. Qed.

Theorem C16_decode_bounded : forall data off l off',
  (t_decode_frag FBias1059 data off = Ok (VList l, off') -> zlen l <= SAT_CAP_1059) /\
  (t_decode_frag FBias1065 data off = Ok (VList l, off') -> zlen l <= SAT_CAP_1065).
Proof.
  intros data off l off'. split; intros H; cbn in H; eapply cb_decode_bounded; try eassumption; vm_compute; discriminate.
Qed.

Theorem C16_decode_no_panic : forall data off, bytes_ok data = true -> 0 <= off ->
  t_decode_frag FBias1059 data off <> Panic /\ t_decode_frag FBias1065 data off <> Panic.
Proof.
  intros data off Hb Ho. split; cbn [t_decode_frag decode_frag]; apply cb_decode_no_panic; try assumption; lia.
Qed.

(** what an accepted list looks like: no count can wrap in its field *)
Theorem C16_counts_fit_1059 : forall st l es st',
  t_encode_frag FBias1059 st (VList l) = Ok st' -> entries_of_vals l = Some es ->
  zlen es <= SAT_CAP_1059 /\
  exists sat_mask sat_num, cb_mask 63 es 0 0 = Ok (sat_mask, sat_num) /\ sat_num <= 63 /\
    forall s, 0 <= s <= 63 -> Z.testbit sat_mask s = true -> cb_count ssr_table_1059 s es <= 31.
Proof. intros st l es st' H He. cbn [t_encode_frag encode_frag] in H. eapply cb_encode_counts_fit; try eassumption. lia. Qed.

Theorem C16_counts_fit_1065 : forall st l es st',
  t_encode_frag FBias1065 st (VList l) = Ok st' -> entries_of_vals l = Some es ->
  zlen es <= SAT_CAP_1065 /\
  exists sat_mask sat_num, cb_mask 31 es 0 0 = Ok (sat_mask, sat_num) /\ sat_num <= 63 /\
    forall s, 0 <= s <= 31 -> Z.testbit sat_mask s = true -> cb_count ssr_table_1065 s es <= 31.
Proof. intros st l es st' H He. cbn [t_encode_frag encode_frag] in H. eapply cb_encode_counts_fit; try eassumption. lia. Qed.

(** what the encoder accepts, the decoder returns: with [mask] the set of satellites that occur in the list,
    the decoded list is, for t = 0, 1, 2, .. in this order, the recognised entries of satellite t in list order,
    each with its bias replaced by dequant (quant bias) -- nothing dropped, nothing duplicated *)
Theorem C16_roundtrip_1059 : forall d o l es d' o', bytes_ok d = true -> 0 <= o ->
  entries_of_vals l = Some es -> Forall (fun e => 0 <= be_sat e) es -> Forall in14 (filter (recog ssr_table_1059) es) ->
  t_encode_frag FBias1059 (d, o) (VList l) = Ok (d', o') ->
  exists mask, (forall t, 0 <= t -> Z.testbit mask t = existsb (fun e => be_sat e =? t) es) /\
    t_decode_frag FBias1059 d' o = Ok (VList (map val_of_entry (grouped ssr_table_1059 64 0 mask es)), o').
Proof.
  intros d o l es d' o' Hb Ho He Hn Hi H. cbn [t_encode_frag encode_frag] in H. cbn [t_decode_frag decode_frag].
  exact (cb_encode_decodes ssr_table_1059 (proj1 C16_ssr_tables_ok) SAT_CAP_1059 6 ltac:(lia) 63 ltac:(lia) ltac:(vm_compute; discriminate) d o l es d' o' Hb Ho He Hn Hi H).
Qed.
Theorem C16_roundtrip_1065 : forall d o l es d' o', bytes_ok d = true -> 0 <= o ->
  entries_of_vals l = Some es -> Forall (fun e => 0 <= be_sat e) es -> Forall in14 (filter (recog ssr_table_1065) es) ->
  t_encode_frag FBias1065 (d, o) (VList l) = Ok (d', o') ->
  exists mask, (forall t, 0 <= t -> Z.testbit mask t = existsb (fun e => be_sat e =? t) es) /\
    t_decode_frag FBias1065 d' o = Ok (VList (map val_of_entry (grouped ssr_table_1065 32 0 mask es)), o').
Proof.
  intros d o l es d' o' Hb Ho He Hn Hi H. cbn [t_encode_frag encode_frag] in H. cbn [t_decode_frag decode_frag].
  exact (cb_encode_decodes ssr_table_1065 (proj2 C16_ssr_tables_ok) SAT_CAP_1065 5 ltac:(lia) 31 ltac:(lia) ltac:(vm_compute; discriminate) d o l es d' o' Hb Ho He Hn Hi H).
Qed.

(** non-vacuity: 40 entries on one satellite are refused (the D7 witness), 31 are accepted *)
Definition entries (n : nat) : list val := map (fun i => VStruct [VInt 7; VSig 1 67; VF32 0]) (seq 0 n).
Example C16_example : is_ok (t_encode_frag FBias1059 (repeat 0 200, 0) (VList (entries 40))) = false /\
                      is_ok (t_encode_frag FBias1059 (repeat 0 200, 0) (VList (entries 31))) = true.
Proof. split; vm_compute; reflexivity. Qed.

Print Assumptions C16_decode_bounded.
Print Assumptions C16_decode_no_panic.
Print Assumptions C16_counts_fit_1059.
Print Assumptions C16_roundtrip_1059.
Print Assumptions C16_roundtrip_1065.

(** MSM data rows (C10): the encoder writes them sorted by ascending satellite, then ascending signal identifier,
    whatever order the caller listed them in. *)
From Coq Require Import ZArith List Lia Bool Sorting.Permutation Sorting.Sorted.
From RtcmModel Require Import Types BitIO Floats Field SigId Bias Msm.
From RtcmProofs Require Import ListZ EncodeLen DecodeBound BitProofs MsmProofs MsmMasks SortProofs.
Import ListNotations.
Open Scope Z_scope.

Definition sat_key (v : val) : Z * Z := (match sat_row_id v with Some x => x | None => 0 end, 0).
Definition sig_key (tbl : sigtable) (v : val) : Z * Z :=
  match sig_row_key v with
  | Some (s, g) => (s, match to_id tbl g with Some i => i | None => 0 end)
  | None => (0, 0)
  end.

Lemma sat_cmp_key a b x y : sat_row_id a = Some x -> sat_row_id b = Some y -> sat_cmp a b = kcmp sat_key a b.
Proof.
  intros Ha Hb. unfold sat_cmp, kcmp, sat_key, lexcmp. rewrite Ha, Hb. cbn [fst snd]. destruct (x ?= y); reflexivity.
Qed.

Lemma sig_cmp_key tbl a b s1 g1 i1 s2 g2 i2 : sig_row_key a = Some (s1, g1) -> to_id tbl g1 = Some i1 ->
  sig_row_key b = Some (s2, g2) -> to_id tbl g2 = Some i2 -> sig_row_cmp tbl a b = kcmp (sig_key tbl) a b.
Proof.
  intros Ha Ia Hb Ib. unfold sig_row_cmp, kcmp, sig_key, lexcmp. rewrite Ha, Hb, Ia, Ib. cbn [fst snd].
  unfold sig_cmp. rewrite Ia, Ib. reflexivity.
Qed.

Lemma sat_ids_keys sats : (forall v, In v sats -> exists s, sat_row_id v = Some s /\ 1 <= s <= 64) ->
  map sat_key sats = map (fun s => (s, 0)) (sat_ids sats).
Proof.
  induction sats as [|v r IH]; intros H; [reflexivity|]. unfold sat_ids in *. cbn [map flat_map].
  destruct (H v (or_introl eq_refl)) as [s [Es _]]. unfold sat_key at 1. rewrite Es. cbn [app map]. f_equal. apply IH. intros w Hw. apply H. right. exact Hw.
Qed.

Lemma cell_keys_keys tbl sigs : (forall v, In v sigs -> exists s g i, sig_row_key v = Some (s, g) /\ 1 <= s <= 64 /\ to_id tbl g = Some i) ->
  cell_keys tbl sigs = map (sig_key tbl) sigs.
Proof.
  induction sigs as [|v r IH]; intros H; [reflexivity|]. unfold cell_keys in *. cbn [map flat_map].
  destruct (H v (or_introl eq_refl)) as [s [g [i [Ek [_ Ei]]]]]. unfold sig_key at 1. rewrite Ek, Ei. cbn [app]. f_equal. apply IH. intros w Hw. apply H. right. exact Hw.
Qed.

Lemma NoDup_map_inv' {A B} (f : A -> B) l : NoDup (map f l) -> NoDup l.
Proof.
  induction l as [|x r IH]; intros H; [constructor|]. cbn [map] in H. inversion H as [|? ? Hx Hr]; subst. constructor; [|apply IH; exact Hr].
  intros Hin. apply Hx. apply in_map. exact Hin.
Qed.

Definition rows_sorted {A} (key : A -> Z * Z) (cmp : A -> A -> comparison) (l : list A) : Prop :=
  Permutation (sort_by cmp l) l /\ StronglySorted (fun a b => lexle (key a) (key b)) (sort_by cmp l) /\
  forall l', Permutation l l' -> sort_by cmp l' = sort_by cmp l.

Lemma rows_sorted_of {A} (key : A -> Z * Z) (cmp : A -> A -> comparison) l :
  (forall a b, In a l -> In b l -> cmp a b = kcmp key a b) -> NoDup (map key l) -> rows_sorted key cmp l.
Proof.
  intros Hc Hn. destruct (key_sort key l Hn) as [P [S U]]. unfold rows_sorted.
  rewrite (sort_by_congr cmp (kcmp key) l Hc). split; [exact P|]. split; [exact S|].
  intros l' Pl. rewrite (sort_by_congr cmp (kcmp key) l'); [apply U; exact Pl|].
  intros a b Ia Ib. apply Hc; apply (Permutation_in _ (Permutation_sym Pl)); assumption.
Qed.

(** what the row encoders write: [enc_sat_rows] encodes [sort_by sat_cmp sats], [enc_sig_rows] encodes
    [sort_by (sig_row_cmp tbl) sigs], column by column *)
Theorem msm_rows_sorted tbl a b st st' sats sigs : msm_encode tbl a b st (VStruct [VList sats; VList sigs]) = Ok st' ->
  ~ (sats = [] /\ sigs = []) ->
  rows_sorted sat_key sat_cmp sats /\ rows_sorted (sig_key tbl) (sig_row_cmp tbl) sigs.
Proof.
  intros H Hne. unfold msm_encode in H.
  match type of H with (if ?c then _ else _) = _ => destruct c eqn:Hcap; [discriminate|] end.
  assert (Hmain : exists sat_mask sig_mask cv cell_mask,
            enc_sat_mask sats 0 = Ok sat_mask /\ enc_sig_loop tbl sigs 0 0 [] = Ok (sig_mask, sat_mask, cv) /\
            enc_cell_loop cv (indx_array 64 sat_mask) (indx_array 32 sig_mask) (mask_len 32 sig_mask) (mask_len 32 sig_mask * zlen sats) 0 = Ok cell_mask).
  { destruct sats as [|s0 sr]; destruct sigs as [|g0 gr]; try (exfalso; apply Hne; split; reflexivity);
      (destruct (msm_main_inv tbl a b st st' _ _ H) as [sm [gm [cv [cm [st1 [st2 [st3 [E1 [E2 [Hc [E3 _]]]]]]]]]]]; exists sm, gm, cv, cm; repeat split; assumption). }
  destruct Hmain as [sm [gm [cv [cm [E1 [E2 E3]]]]]].
  destruct (enc_sat_mask_spec sats 0 sm E1) as [Hgood [_ [_ Hnd]]].
  pose proof (enc_sig_loop_spec tbl sigs 0 0 [] _ E2) as Hsgood.
  destruct (enc_sig_loop_masks tbl sigs 0 0 [] gm sm cv E2) as [Hcv _]. cbn [app] in Hcv. subst cv.
  destruct (enc_cell_loop_spec _ _ _ _ _ _ _ E3) as [_ [_ [_ Hcnd]]].
  split.
  - apply rows_sorted_of.
    + intros x y Ix Iy. destruct (Hgood x Ix) as [sx [Ex _]]. destruct (Hgood y Iy) as [sy [Ey _]]. eapply sat_cmp_key; eassumption.
    + rewrite (sat_ids_keys sats Hgood). clear - Hnd. induction Hnd as [|s l Hs _ IH]; cbn [map]; constructor; [|exact IH].
      intros Hin. apply in_map_iff in Hin. destruct Hin as [t [Et It]]. inversion Et; subst. contradiction.
  - apply rows_sorted_of.
    + intros x y Ix Iy. destruct (Hsgood x Ix) as [sx [gx [ix [Ex [_ Eix]]]]]. destruct (Hsgood y Iy) as [sy [gy [iy [Ey [_ Eiy]]]]]. eapply sig_cmp_key; eassumption.
    + rewrite <- (cell_keys_keys tbl sigs Hsgood). eapply NoDup_map_inv'. exact Hcnd.
Qed.

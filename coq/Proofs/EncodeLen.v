(** Every encoder keeps the length of the buffer it writes into. *)
From Coq Require Import ZArith List Lia Bool.
From Flocq Require Import Core BinarySingleNaN.
From RtcmModel Require Import Types BitIO Floats Field SigId Text Bias Msm Layout.
From RtcmProofs Require Import ListZ FragInd.
Import ListNotations.
Open Scope Z_scope.

Lemma upd_length l i f : length (upd l i f) = length l.
Proof. revert i. induction l as [|x r IH]; intros i; [reflexivity|]. destruct i; cbn; [reflexivity|f_equal; apply IH]. Qed.

(** destruct a chain of binds in hypothesis H *)
Ltac bind_inv H :=
  repeat match type of H with
         | bind ?x _ = Ok _ => let E := fresh "E" in destruct x eqn:E; cbn [bind] in H; [|discriminate|discriminate]
         | (let '(_, _) := ?p in _) = Ok _ => destruct p
         | (match ?p with (_, _) => _ end) = Ok _ => destruct p
         end.

Lemma put_loop_len k bits value lh_st rh_en dlen sti : forall n i data lenlft data',
  put_loop k bits value lh_st rh_en dlen sti n i data lenlft = Ok data' -> length data' = length data.
Proof.
  induction n as [|n IH]; intros i data lenlft data' H; cbn [put_loop] in H.
  - inversion H. reflexivity.
  - destruct (nth_error data (sti + Z.to_nat i)); [|inversion H; reflexivity].
    bind_inv H. apply IH in H. rewrite H. apply upd_length.
Qed.

Lemma put_len k bits data off v len data' off' :
  put k bits data off v len = Ok (data', off') -> zlen data' = zlen data /\ off' = off + len.
Proof.
  unfold put. destruct (_ <? _); [discriminate|]. intros H. bind_inv H. inversion H; subst.
  split; [|reflexivity]. unfold zlen. f_equal. eapply put_loop_len. eassumption.
Qed.

Definition keeps_len {A} (enc : astate -> A -> outcome astate) : Prop :=
  forall st v st', enc st v = Ok st' -> zlen (fst st') = zlen (fst st).

Lemma put_st_len k bits (st : astate) v len st' :
  put k bits (fst st) (snd st) v len = Ok st' -> zlen (fst st') = zlen (fst st).
Proof. destruct st' as [d o]. intros H. apply put_len in H. tauto. Qed.

Lemma encode_field_len fs : keeps_len (encode_field fs).
Proof.
  intros [data off] v st' H. unfold encode_field in H.
  destruct (f_inv fs).
  - destruct v; try discriminate.
    + destruct st'. apply put_len in H. tauto.
    + bind_inv H. destruct st'. apply put_len in H. tauto.
  - bind_inv H. destruct st'. apply put_len in H. tauto.
Qed.

Lemma put_bytes_len : forall bs st st', put_bytes st bs = Ok st' -> zlen (fst st') = zlen (fst st).
Proof.
  induction bs as [|b r IH]; intros st st' H; cbn [put_bytes] in H; [inversion H; reflexivity|].
  bind_inv H. apply IH in H. rewrite H. eapply put_st_len. eassumption.
Qed.

Lemma encode_str_len cap lb : keeps_len (encode_str cap lb).
Proof.
  intros st v st' H. unfold encode_str in H. destruct v; try discriminate. bind_inv H.
  apply put_bytes_len in H. rewrite H. eapply put_st_len. eassumption.
Qed.

Lemma encode_utf8_len : keeps_len encode_utf8.
Proof.
  intros st v st' H. unfold encode_utf8 in H. destruct v; try discriminate.
  destruct (from_utf8 _); [|discriminate]. destruct (_ || _); [discriminate|]. bind_inv H.
  apply put_bytes_len in H. rewrite H.
  match goal with E1 : put _ _ (fst ?a) _ _ _ = Ok ?b |- zlen (fst ?b) = _ => rewrite (put_st_len _ _ _ _ _ _ E1) end.
  eapply put_st_len. eassumption.
Qed.

Lemma cb_put_entries_len table : forall es st s st', cb_put_entries table st s es = Ok st' -> zlen (fst st') = zlen (fst st).
Proof.
  induction es as [|e r IH]; intros st s st' H; cbn [cb_put_entries] in H; [inversion H; reflexivity|].
  destruct (_ =? _); [|eapply IH; eassumption].
  destruct (to_id table (be_sig e)); [|eapply IH; eassumption].
  bind_inv H. apply IH in H. rewrite H.
  match goal with E1 : put _ _ (fst ?a) _ _ _ = Ok ?b |- zlen (fst ?b) = _ => rewrite (put_st_len _ _ _ _ _ _ E1) end.
  eapply put_st_len. eassumption.
Qed.

Lemma cb_sats_len table sat_bits es sat_mask : forall n s st st',
  cb_sats table sat_bits n s sat_mask es st = Ok st' -> zlen (fst st') = zlen (fst st).
Proof.
  induction n as [|n IH]; intros s st st' H; cbn [cb_sats] in H; [inversion H; reflexivity|].
  destruct (Z.testbit sat_mask s); [|eapply IH; eassumption].
  bind_inv H. destruct (_ <? _); [discriminate|]. bind_inv H. apply IH in H. rewrite H.
  match goal with E1 : cb_put_entries _ _ _ _ = Ok _ |- _ => rewrite (cb_put_entries_len _ _ _ _ _ E1) end.
  match goal with E1 : put _ _ (fst ?a) _ _ _ = Ok ?b |- zlen (fst ?b) = _ => rewrite (put_st_len _ _ _ _ _ _ E1) end.
  eapply put_st_len. eassumption.
Qed.

Lemma cb_encode_len table max_sat sat_bits cap : keeps_len (cb_encode table max_sat sat_bits cap).
Proof.
  intros st v st' H. unfold cb_encode in H. destruct v; try discriminate.
  destruct (entries_of_vals l); [|discriminate]. destruct (_ <? _); [discriminate|]. bind_inv H. destruct (_ <? _); [discriminate|]. bind_inv H.
  apply cb_sats_len in H. rewrite H. eapply put_st_len. eassumption.
Qed.

Lemma b1230_put_len : forall es st st', b1230_put st es = Ok st' -> zlen (fst st') = zlen (fst st).
Proof.
  induction es as [|[s x] r IH]; intros st st' H; cbn [b1230_put] in H; [inversion H; reflexivity|].
  bind_inv H. apply IH in H. rewrite H. eapply put_st_len. eassumption.
Qed.

Lemma b1230_encode_len glo : keeps_len (b1230_encode glo).
Proof.
  intros st v st' H. unfold b1230_encode in H. destruct v; try discriminate.
  destruct (es1230_of_vals l); [|discriminate]. destruct (_ <? _); [discriminate|]. bind_inv H.
  apply b1230_put_len in H. rewrite H. eapply put_st_len. eassumption.
Qed.

Lemma enc_column_len fs skip k : forall rows st st', enc_column fs skip k rows st = Ok st' -> zlen (fst st') = zlen (fst st).
Proof.
  induction rows as [|v r IH]; intros st st' H; cbn [enc_column] in H; [inversion H; reflexivity|].
  destruct (row_field skip k v); [|discriminate]. bind_inv H. apply IH in H. rewrite H.
  eapply encode_field_len. eassumption.
Qed.

Lemma enc_columns_len skip rows : forall specs k st st', enc_columns specs skip k rows st = Ok st' -> zlen (fst st') = zlen (fst st).
Proof.
  induction specs as [|fs r IH]; intros k st st' H; cbn [enc_columns] in H; [inversion H; reflexivity|].
  bind_inv H. apply IH in H. rewrite H. eapply enc_column_len. eassumption.
Qed.

(** peel the pattern matching on a value (variables only) *)
Ltac peel H :=
  repeat match type of H with
         | match ?x with _ => _ end = Ok _ => is_var x; destruct x; try discriminate
         end.

Ltac peel_any H :=
  repeat match type of H with
         | match ?x with _ => _ end = Ok _ => destruct x eqn:?; try discriminate
         end.

Lemma msm_put0_len (st st1 st' : astate) :
  put KU 64 (fst st) (snd st) 0 64 = Ok st1 -> put KU 32 (fst st1) (snd st1) 0 32 = Ok st' -> zlen (fst st') = zlen (fst st).
Proof. intros E1 E2. rewrite (put_st_len _ _ _ _ _ _ E2). eapply put_st_len. eassumption. Qed.

Lemma msm_main_len tbl a b st st' sats sigs :
    (sat_mask <- enc_sat_mask sats 0 ;;
     '(sig_mask, sat_sig_mask, cell_vec) <- enc_sig_loop tbl sigs 0 0 [] ;;
     if negb (sat_mask =? sat_sig_mask) then Err SatelliteMismatch
     else
       let sat_indx := indx_array 64 sat_mask in
       let sig_indx := indx_array 32 sig_mask in
       let sig_mask_len := mask_len 32 sig_mask in
       let cell_cont_len := sig_mask_len * zlen sats in
       if 64 <? cell_cont_len then Err InvalidSatelliteSignalCount
       else
         cell_mask <- enc_cell_loop cell_vec sat_indx sig_indx sig_mask_len cell_cont_len 0 ;;
         st1 <- put KU 64 (fst st) (snd st) sat_mask 64 ;;
         st2 <- put KU 32 (fst st1) (snd st1) sig_mask 32 ;;
         st3 <- put KU 64 (fst st2) (snd st2) cell_mask cell_cont_len ;;
         st4 <- enc_sat_rows a sats st3 ;;
         enc_sig_rows tbl b sigs st4) = Ok st' -> zlen (fst st') = zlen (fst st).
Proof.
  intros H1. bind_inv H1. destruct (negb _); [discriminate|]. cbv zeta in H1.
  destruct (_ <? _); [discriminate|]. bind_inv H1.
  unfold enc_sig_rows in H1. apply enc_columns_len in H1. rewrite H1.
  match goal with E1 : enc_sat_rows _ _ _ = Ok _ |- _ => unfold enc_sat_rows in E1; apply enc_columns_len in E1; rewrite E1 end.
  repeat match goal with E1 : put _ _ (fst ?a) _ _ _ = Ok ?b |- context [zlen (fst ?b)] => rewrite (put_st_len _ _ _ _ _ _ E1) end.
  reflexivity.
Qed.

Lemma msm_encode_len tbl a b : keeps_len (msm_encode tbl a b).
Proof.
  intros st v st' H. unfold msm_encode in H. peel H.
  destruct (_ || _); [discriminate|]. peel H;
    first [ bind_inv H; eapply msm_put0_len; eassumption | eapply msm_main_len; exact H ].
Qed.

Section Frag.
  Variable sigt : gnss -> sigtable.
  Variable ssr59 ssr65 : sigtable.
  Variable cap59 cap65 : Z.

  Lemma encode_list_len (P : frag -> Prop) :
    forall fl, Forall (fun f => keeps_len (encode_frag sigt ssr59 ssr65 cap59 cap65 f)) fl ->
    forall vs st st',
      (fix go (fl : list frag) (vs : list val) (st : astate) {struct fl} : outcome astate :=
         match fl, vs with
         | [], [] => Ok st
         | f' :: fl', v' :: vs' => st' <- encode_frag sigt ssr59 ssr65 cap59 cap65 f' st v' ;; go fl' vs' st'
         | _, _ => Panic
         end) fl vs st = Ok st' -> zlen (fst st') = zlen (fst st).
  Proof.
    induction 1 as [|f fl Hf _ IH]; intros vs st st' H.
    - destruct vs; [inversion H; reflexivity|discriminate].
    - destruct vs as [|v vs]; [discriminate|]. bind_inv H. apply IH in H. rewrite H. eapply Hf. eassumption.
  Qed.

  Lemma encode_elems_len elem : keeps_len (encode_frag sigt ssr59 ssr65 cap59 cap65 elem) ->
    forall l st st',
      (fix elems (l : list val) (st : astate) {struct l} : outcome astate :=
         match l with
         | [] => Ok st
         | x :: r => st' <- encode_frag sigt ssr59 ssr65 cap59 cap65 elem st x ;; elems r st'
         end) l st = Ok st' -> zlen (fst st') = zlen (fst st).
  Proof.
    intros He. induction l as [|x r IH]; intros st st' H; [inversion H; reflexivity|].
    bind_inv H. apply IH in H. rewrite H. eapply He. eassumption.
  Qed.

  Theorem encode_frag_len : forall f, keeps_len (encode_frag sigt ssr59 ssr65 cap59 cap65 f).
  Proof.
    apply frag_ind'.
    - intros fs. exact (encode_field_len fs).
    - intros cap lb. exact (encode_str_len cap lb).
    - exact encode_utf8_len.
    - apply cb_encode_len.
    - apply cb_encode_len.
    - apply b1230_encode_len.
    - intros l Hl st v st' H. cbn [encode_frag] in H. destruct v; try discriminate.
      eapply (encode_list_len (fun _ => True)); eassumption.
    - intros f1 lenf f2 elem cap H1 H2 He st v st' H. cbn [encode_frag] in H. destruct v; try discriminate.
      peel_any H. bind_inv H.
      apply (encode_elems_len elem He) in H. rewrite H.
      match goal with E1 : _ f2 _ _ = Ok _ |- _ => apply (encode_list_len (fun _ => True) f2 H2) in E1; rewrite E1 end.
      match goal with E1 : encode_field _ _ _ = Ok _ |- _ => apply encode_field_len in E1; rewrite E1 end.
      match goal with E1 : _ f1 _ _ = Ok _ |- _ => apply (encode_list_len (fun _ => True) f1 H1) in E1; rewrite E1 end.
      reflexivity.
    - intros elem cap lb He st v st' H. cbn [encode_frag] in H. destruct v; try discriminate.
      destruct (_ <? _); [discriminate|]. bind_inv H.
      apply (encode_elems_len elem He) in H. rewrite H. eapply put_st_len. eassumption.
    - intros elem He st v st' H. cbn [encode_frag] in H. destruct v; try discriminate.
      destruct (negb _); [discriminate|]. eapply (encode_elems_len elem He). eassumption.
    - intros g a b. apply msm_encode_len.
  Qed.
End Frag.

(** C08 -- every data field is lossless on its grid and has exactly one "absent" value.
    Proofs are in Proofs/FieldProofs.v (integer rows, the absent marker, the bits), Proofs/FloatProofs.v
    (scaled rows: an error-bound argument on Flocq's binary32/binary64 operations, generic in the row,
    with the row's side conditions a boolean on exact rationals) and Proofs/FloatBits.v.  The 309 rows are
    regenerated from the df! invocations of /repo on every run and the table obligations re-checked.
    Statements are at the level of the carrier value c that Parser::parse returns for the field's bits
    (C07 characterises c bit by bit: unsigned and two's complement patterns correspond one to one to c;
    the two sign-magnitude zeros both read as c = 0, which is the exception the property names). *)
From Coq Require Import ZArith List Lia Bool String.
From Flocq Require Import Core BinarySingleNaN.
From RtcmModel Require Import Types BitIO Floats Field Bias Layout Message Top.
From RtcmGen Require Import GenFields GenLayouts GenMessages.
From RtcmProofs Require Import ListZ BitProofs DecodeTotal FloatProofs FloatBits FieldProofs.
Import ListNotations.
Open Scope Z_scope.

(** table obligation: every df! row meets the round-trip side conditions -- integer rows: no overflow in
    either direction, resolution >= 1, bias only on non-negative ranges; scaled rows: [frow_ok], i.e. the
    accumulated rounding error of  c*res (+bias) (-bias) /res  is at most 1/4 of a step and nothing overflows *)
Theorem C08_rows_ok : forallb (fun p => field_rt_ok (snd p) && field_dec_ok (snd p)) all_fields = true.
Proof. vm_compute. reflexivity. Qed.

(** and every field that occurs in a message layout (incl. list counts and MSM columns) meets them too *)
Theorem C08_layout_fields_ok :
  forallb (fun m => forallb (fun fs => field_rt_ok fs && field_dec_ok fs) (frag_fields (snd m))) messages = true.
Proof. vm_compute. reflexivity. Qed.

(** every carrier value of the field's range decodes to a (finite) value that encodes to that carrier value *)
Theorem C08_carrier_roundtrip : forall name fs c, In (name, fs) all_fields ->
  pat_lo (f_ck fs) (f_len fs) <= c <= pat_hi (f_ck fs) (f_len fs) ->
  exists v, decode_core fs c = Ok v /\ val_finite v /\ encode_core fs v = Ok c.
Proof.
  intros name fs c Hin Hc. pose proof C08_rows_ok as H. rewrite forallb_forall in H. specialize (H _ Hin). cbn [snd] in H.
  apply andb_true_iff in H. destruct H as [H _]. exact (core_roundtrip fs c H Hc).
Qed.
Check C08_carrier_roundtrip : forall name fs c, In (name, fs) all_fields ->
  match f_ck fs with
  | KU => 0 | KI => - 2 ^ (f_len fs - 1) | KSM => - (2 ^ (f_len fs - 1) - 1) end <= c <=
  match f_ck fs with
  | KU => 2 ^ f_len fs - 1 | KI => 2 ^ (f_len fs - 1) - 1 | KSM => 2 ^ (f_len fs - 1) - 1 end ->
  exists v, decode_core fs c = Ok v /\ val_finite v /\ encode_core fs v = Ok c.

(** whole field at any position of any buffer: whatever carrier value c the bits read as, the decoded
    value is "absent" exactly when c is the marker, otherwise present and finite; and encoding that
    value writes c *)
Theorem C08_field : forall name fs data off c off', In (name, fs) all_fields ->
  bytes_ok data = true -> 0 <= off ->
  parse (f_ck fs) (f_cbits fs) data off (f_len fs) = Ok (c, off') ->
  exists v, decode_field fs data off = Ok (v, off') /\
    match f_inv fs with
    | Some i => (c = i -> v = VNone) /\ (c <> i -> exists x, v = VSome x /\ val_finite x)
    | None => val_finite v /\ v <> VNone
    end /\
    forall d o, encode_field fs (d, o) v = put (f_ck fs) (f_cbits fs) d o c (f_len fs).
Proof.
  intros name fs data off c off' Hin. pose proof C08_rows_ok as H. rewrite forallb_forall in H. specialize (H _ Hin). cbn [snd] in H.
  apply andb_true_iff in H. destruct H as [H1 H2]. apply field_roundtrip; assumption.
Qed.

(** "absent" encodes to the marker *)
Theorem C08_absent : forall fs i d o, f_inv fs = Some i ->
  encode_field fs (d, o) VNone = put (f_ck fs) (f_cbits fs) d o i (f_len fs).
Proof. exact encode_absent. Qed.

(** a decoded value written anywhere there is room reads back as itself *)
Theorem C08_value_roundtrip : forall name fs data off v off' d o, In (name, fs) all_fields ->
  bytes_ok data = true -> 0 <= off -> decode_field fs data off = Ok (v, off') ->
  bytes_ok d = true -> 0 <= o -> o + f_len fs <= 8 * zlen d ->
  exists d', encode_field fs (d, o) v = Ok (d', o + f_len fs) /\ decode_field fs d' o = Ok (v, o + f_len fs).
Proof.
  intros name fs data off v off' d o Hin. pose proof C08_rows_ok as H. rewrite forallb_forall in H. specialize (H _ Hin). cbn [snd] in H.
  apply andb_true_iff in H. destruct H as [H1 H2]. apply field_value_roundtrip; assumption.
Qed.

(** the hand-written bias quantisers of 1059/1065 (14 bits, 0.01) and 1230 (16 bits, 0.02): exhaustive *)
Fixpoint zrange (n : nat) (lo : Z) : list Z := match n with O => [] | S n' => lo :: zrange n' (lo + 1) end.
Lemma zrange_In n : forall lo x, lo <= x < lo + Z.of_nat n -> In x (zrange n lo).
Proof. induction n as [|n IH]; intros lo x H; [lia|]. cbn [zrange]. destruct (Z.eq_dec x lo) as [->|]; [left; reflexivity|right; apply IH; lia]. Qed.

Theorem C08_bias_0_01 : forall v, - 8192 <= v <= 8191 -> bias_quant f32_0_01 (bias_dequant f32_0_01 v) = v.
Proof.
  assert (H : forallb (fun v => bias_quant f32_0_01 (bias_dequant f32_0_01 v) =? v) (zrange (Z.to_nat 16384) (-8192)) = true) by (vm_cast_no_check (eq_refl true)).
  intros v Hv. rewrite forallb_forall in H. apply Z.eqb_eq. apply H. apply zrange_In. lia.
Qed.
Theorem C08_bias_0_02 : forall v, - 32768 <= v <= 32767 -> bias_quant f32_0_02 (bias_dequant f32_0_02 v) = v.
Proof.
  assert (H : forallb (fun v => bias_quant f32_0_02 (bias_dequant f32_0_02 v) =? v) (zrange (Z.to_nat 65536) (-32768)) = true) by (vm_cast_no_check (eq_refl true)).
  intros v Hv. rewrite forallb_forall in H. apply Z.eqb_eq. apply H. apply zrange_In. lia.
Qed.

(** non-vacuity: df025 (38-bit, 0.0001 m, f64) at its largest pattern; the sign-magnitude exception *)
Example C08_example : f_len df025 = 38 /\
  match decode_core df025 (2 ^ 37 - 1) with Ok v => encode_core df025 v = Ok (2 ^ 37 - 1) | _ => False end.
Proof. split; [reflexivity|]. vm_compute. reflexivity. Qed.
Example C08_negative_zero : parse KSM 8 [128] 0 8 = Ok (0, 8) /\ parse KSM 8 [0] 0 8 = Ok (0, 8).
Proof. split; vm_compute; reflexivity. Qed.

Print Assumptions C08_rows_ok.
Print Assumptions C08_layout_fields_ok.
Print Assumptions C08_carrier_roundtrip.
Print Assumptions C08_field.
Print Assumptions C08_value_roundtrip.
Print Assumptions C08_bias_0_01.
Print Assumptions C08_bias_0_02.

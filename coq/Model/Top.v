(** The model instantiated with the tables generated from /repo. *)
From Coq Require Import ZArith List Bool String.
From RtcmModel Require Import Types BitIO Floats Field SigId Text Bias Msm Layout Crc Frame Scan Message.
From RtcmGen Require Import GenFields GenSignals GenLayouts GenMessages.
Import ListNotations.
Open Scope Z_scope.

Definition t_encode_frag := encode_frag sig_table ssr_table_1059 ssr_table_1065 SAT_CAP_1059 SAT_CAP_1065.
Definition t_decode_frag := decode_frag sig_table ssr_table_1059 ssr_table_1065 SAT_CAP_1059 SAT_CAP_1065.
Definition t_from_frame := from_frame sig_table ssr_table_1059 ssr_table_1065 SAT_CAP_1059 SAT_CAP_1065 messages.
Definition t_build := build sig_table ssr_table_1059 ssr_table_1065 SAT_CAP_1059 SAT_CAP_1065 messages.
Definition t_build_fresh := build_fresh sig_table ssr_table_1059 ssr_table_1065 SAT_CAP_1059 SAT_CAP_1065 messages.
Definition t_decode_bytes := decode_bytes sig_table ssr_table_1059 ssr_table_1065 SAT_CAP_1059 SAT_CAP_1065 messages.
Definition t_msg_number := msg_number messages.

Fixpoint find_field (name : string) (l : list (string * field_spec)) : option field_spec :=
  match l with
  | [] => None
  | (n, f) :: r => if String.eqb name n then Some f else find_field name r
  end.
Definition field_by_name (name : string) : option field_spec := find_field name all_fields.

(** SSR code-bias lists (1059 / 1065): what the encoder accepts, the decoder returns -- every recognised entry,
    grouped by ascending satellite, in list order within a satellite, nothing dropped or duplicated (C16). *)
From Coq Require Import ZArith List Lia Bool.
From Flocq Require Import Core BinarySingleNaN.
From RtcmModel Require Import Types BitIO Floats Field SigId Bias.
From RtcmProofs Require Import ListZ EncodeLen BitProofs DecodeBound SigProofs BiasProofs DecodeTotal FieldProofs RoundTrip.
Import ListNotations.
Open Scope Z_scope.

Section CB.
  Variable table : sigtable.
  Hypothesis Hok : table_ok 0 31 table = true.
  Variable cap : Z.

  Definition recog (e : bias_entry) : bool := match to_id table (be_sig e) with Some _ => true | None => false end.
  Definition mine (s : Z) (e : bias_entry) : bool := (be_sat e =? s) && recog e.
  (** what an entry looks like after the wire: its bias on the 0.01 grid *)
  Definition norm (e : bias_entry) : bias_entry :=
    {| be_sat := be_sat e; be_sig := be_sig e; be_bias := bias_dequant f32_0_01 (bias_quant f32_0_01 (be_bias e)) |}.
  (** the quantised bias fits its 14-bit field (|bias| <= 81.91 m); otherwise the field wraps *)
  Definition in14 (e : bias_entry) : Prop := representable KI 14 (bias_quant f32_0_01 (be_bias e)).

  (** the entries of one satellite *)
  Lemma put_entries_dec s : forall es d o d' o', bytes_ok d = true -> 0 <= o ->
    cb_put_entries table (d, o) s es = Ok (d', o') -> Forall in14 (filter (mine s) es) ->
    o <= o' /\ bytes_ok d' = true /\ zlen d' = zlen d /\ agree d d' 0 o /\
    forall dfin acc, bytes_ok dfin = true -> agree d' dfin 0 o' -> zlen acc + zlen (filter (mine s) es) <= cap ->
      cb_dec_entries table cap (length (filter (mine s) es)) s dfin o acc = Ok (acc ++ map norm (filter (mine s) es), o').
  Proof.
    induction es as [|e r IH]; intros d o d' o' Hb Ho H Hin.
    - cbn [cb_put_entries] in H. inversion H; subst. split; [lia|]. split; [exact Hb|]. split; [reflexivity|]. split; [apply agree_refl|].
      intros dfin acc _ _ _. cbn. rewrite app_nil_r. reflexivity.
    - cbn [cb_put_entries] in H.
      destruct (be_sat e =? s) eqn:Es.
      2:{ assert (Em : mine s e = false) by (unfold mine; rewrite Es; reflexivity). cbn [filter] in *. rewrite Em in *. exact (IH d o d' o' Hb Ho H Hin). }
      destruct (to_id table (be_sig e)) as [i|] eqn:Ei.
      2:{ assert (Em : mine s e = false) by (unfold mine, recog; rewrite Es, Ei; reflexivity). cbn [filter] in *. rewrite Em in *. exact (IH d o d' o' Hb Ho H Hin). }
      assert (Em : mine s e = true) by (unfold mine, recog; rewrite Es, Ei; reflexivity). cbn [filter] in *. rewrite Em in *.
      apply Z.eqb_eq in Es.
      pose proof (Forall_inv Hin) as Hq. pose proof (Forall_inv_tail Hin) as Hin'.
      pose proof (to_id_range table 0 31 Hok _ _ Ei) as Hir.
      cbn [fst snd] in H.
      destruct (put KU 8 d o i 5) as [[d1 o1]|e1|] eqn:P1; cbn [bind fst snd] in H; try discriminate.
      destruct (put_frame KU 8 d o i 5 d1 o1 ltac:(lia) ltac:(lia) Ho Hb P1) as [-> [F1 [L1 [B1 A1]]]].
      destruct (put KI 16 d1 (o + 5) (bias_quant f32_0_01 (be_bias e)) 14) as [[d2 o2]|e2|] eqn:P2; cbn [bind] in H; try discriminate.
      destruct (put_frame KI 16 d1 (o + 5) _ 14 d2 o2 ltac:(lia) ltac:(lia) ltac:(lia) B1 P2) as [-> [F2 [L2 [B2 A2]]]].
      destruct (IH d2 (o + 5 + 14) d' o' B2 ltac:(lia) H Hin') as [M3 [B3 [L3 [A3 D3]]]].
      split; [lia|]. split; [exact B3|]. split; [lia|]. split.
      + eapply agree_trans; [exact A1|]. eapply agree_trans; [apply (agree_sub _ _ 0 (o + 5)); [exact A2|lia|lia]|].
        apply (agree_sub _ _ 0 (o + 5 + 14)); [exact A3|lia|lia].
      + intros dfin acc Bf Af Hcap. cbn [length map]. rewrite zlen_cons in Hcap. pose proof (zlen_nonneg (filter (mine s) r)) as Hnn. pose proof (zlen_nonneg acc).
        cbn [cb_dec_entries].
        (* the signal id *)
        assert (Hri : representable KU 5 i) by (cbn [representable]; change (2 ^ 5) with 32; lia).
        destruct (put_parse_roundtrip KU 8 d o i 5 ltac:(lia) ltac:(lia) Ho F1 Hb Hri) as [d1' [P1' Pa1]]. rewrite P1 in P1'. inversion P1'; subst d1'.
        assert (Ag1 : agree d1 dfin 0 (o + 5)).
        { eapply agree_trans; [exact A2|]. eapply agree_trans; [apply (agree_sub _ _ 0 (o + 5 + 14)); [exact A3|lia|lia]|]. apply (agree_sub _ _ 0 o'); [exact Af|lia|lia]. }
        rewrite <- (parse_ext KU 8 d1 dfin o 5 ltac:(lia) ltac:(lia) Ho B1 Bf ltac:(apply (agree_sub _ _ 0 (o + 5)); [exact Ag1|lia|lia])), Pa1. cbn [bind].
        rewrite (to_sig_to_id table 0 31 Hok _ _ Ei).
        (* the bias *)
        destruct (put_parse_roundtrip KI 16 d1 (o + 5) _ 14 ltac:(lia) ltac:(lia) ltac:(lia) F2 B1 Hq) as [d2' [P2' Pa2]]. rewrite P2 in P2'. inversion P2'; subst d2'.
        assert (Ag2 : agree d2 dfin 0 (o + 5 + 14)).
        { eapply agree_trans; [exact A3|]. apply (agree_sub _ _ 0 o'); [exact Af|lia|lia]. }
        rewrite <- (parse_ext KI 16 d2 dfin (o + 5) 14 ltac:(lia) ltac:(lia) ltac:(lia) B2 Bf ltac:(apply (agree_sub _ _ 0 (o + 5 + 14)); [exact Ag2|lia|lia])), Pa2. cbn [bind].
        destruct (Z.leb_spec cap (zlen acc)); [lia|].
        erewrite (D3 dfin); [|exact Bf|exact Af|rewrite zlen_app; unfold zlen at 2; cbn [length]; lia].
        rewrite <- app_assoc. cbn [app]. unfold norm at 2. rewrite Es. reflexivity.
  Qed.

  (** ---------- the satellite loop ---------- *)
  Variable sat_bits : Z.
  Hypothesis Hsb : 1 <= sat_bits <= 8.

  Fixpoint gcount (n : nat) (s mask : Z) : nat :=
    match n with O => O | S n' => ((if Z.testbit mask s then 1 else 0) + gcount n' (s + 1) mask)%nat end.
  Fixpoint grouped (n : nat) (s mask : Z) (es : list bias_entry) : list bias_entry :=
    match n with
    | O => []
    | S n' => (if Z.testbit mask s then map norm (filter (mine s) es) else []) ++ grouped n' (s + 1) mask es
    end.

  Lemma cb_count_eq s es : cb_count table s es = zlen (filter (mine s) es).
  Proof. reflexivity. Qed.

  Lemma sats_dec es (Hin : Forall in14 (filter recog es)) mask : forall n s d o d' o', bytes_ok d = true -> 0 <= o -> 0 <= s ->
    s + Z.of_nat n <= 2 ^ sat_bits -> cb_sats table sat_bits n s mask es (d, o) = Ok (d', o') ->
    o <= o' /\ bytes_ok d' = true /\ zlen d' = zlen d /\ agree d d' 0 o /\
    forall dfin acc, bytes_ok dfin = true -> agree d' dfin 0 o' -> zlen acc + zlen (grouped n s mask es) <= cap ->
      cb_dec_sats table sat_bits cap (gcount n s mask) dfin o acc = Ok (acc ++ grouped n s mask es, o').
  Proof.
    induction n as [|n IH]; intros s d o d' o' Hb Ho Hs Hrange H.
    - cbn [cb_sats] in H. inversion H; subst. split; [lia|]. split; [exact Hb|]. split; [reflexivity|]. split; [apply agree_refl|].
      intros dfin acc _ _ _. cbn. rewrite app_nil_r. reflexivity.
    - cbn [cb_sats] in H. cbn [gcount grouped].
      destruct (Z.testbit mask s) eqn:Eb.
      2:{ destruct (IH (s + 1) d o d' o' Hb Ho ltac:(lia) ltac:(lia) H) as [M [B [L [A D]]]].
          split; [exact M|]. split; [exact B|]. split; [exact L|]. split; [exact A|]. intros dfin acc Bf Af Hcap. cbn [app plus]. apply D; assumption. }
      cbn [fst snd] in H.
      destruct (put KU 8 d o s sat_bits) as [[d1 o1]|e1|] eqn:P1; cbn [bind fst snd] in H; try discriminate.
      destruct (put_frame KU 8 d o s sat_bits d1 o1 ltac:(lia) ltac:(lia) Ho Hb P1) as [-> [F1 [L1 [B1 A1]]]].
      rewrite cb_count_eq in H. set (mineS := filter (mine s) es) in *.
      destruct (Z.ltb_spec 31 (zlen mineS)) as [|H31]; [discriminate|].
      destruct (put KU 8 d1 (o + sat_bits) (zlen mineS) 5) as [[d2 o2]|e2|] eqn:P2; cbn [bind fst snd] in H; try discriminate.
      destruct (put_frame KU 8 d1 (o + sat_bits) _ 5 d2 o2 ltac:(lia) ltac:(lia) ltac:(lia) B1 P2) as [-> [F2 [L2 [B2 A2]]]].
      destruct (cb_put_entries table (d2, o + sat_bits + 5) s es) as [[d3 o3]|e3|] eqn:P3; cbn [bind] in H; try discriminate.
      assert (Hin_s : Forall in14 (filter (mine s) es)).
      { rewrite Forall_forall in *. intros x Hx. apply Hin. apply filter_In in Hx. destruct Hx as [Hx1 Hx2]. apply filter_In. split; [exact Hx1|].
        unfold mine in Hx2. apply andb_true_iff in Hx2. tauto. }
      destruct (put_entries_dec s es d2 (o + sat_bits + 5) d3 o3 B2 ltac:(lia) P3 Hin_s) as [M3 [B3 [L3 [A3 D3]]]]. fold mineS in D3.
      destruct (IH (s + 1) d3 o3 d' o' B3 ltac:(lia) ltac:(lia) ltac:(lia) H) as [M4 [B4 [L4 [A4 D4]]]].
      split; [lia|]. split; [exact B4|]. split; [lia|]. split.
      + eapply agree_trans; [exact A1|]. eapply agree_trans; [apply (agree_sub _ _ 0 (o + sat_bits)); [exact A2|lia|lia]|].
        eapply agree_trans; [apply (agree_sub _ _ 0 (o + sat_bits + 5)); [exact A3|lia|lia]|]. apply (agree_sub _ _ 0 o3); [exact A4|lia|lia].
      + intros dfin acc Bf Af Hcap. rewrite zlen_app in Hcap. unfold zlen at 2 in Hcap. rewrite map_length in Hcap. fold (zlen mineS) in Hcap.
        pose proof (zlen_nonneg mineS) as Hnn. pose proof (zlen_nonneg acc). pose proof (zlen_nonneg (grouped n (s + 1) mask es)).
        change (1 + gcount n (s + 1) mask)%nat with (S (gcount n (s + 1) mask)). cbn [cb_dec_sats].
        assert (Hrs : representable KU sat_bits s) by (cbn [representable]; lia).
        destruct (put_parse_roundtrip KU 8 d o s sat_bits ltac:(lia) ltac:(lia) Ho F1 Hb Hrs) as [d1' [P1' Pa1]]. rewrite P1 in P1'. inversion P1'; subst d1'.
        assert (Ag3 : agree d3 dfin 0 o3) by (eapply agree_trans; [exact A4|apply (agree_sub _ _ 0 o'); [exact Af|lia|lia]]).
        assert (Ag2 : agree d2 dfin 0 (o + sat_bits + 5)) by (eapply agree_trans; [exact A3|apply (agree_sub _ _ 0 o3); [exact Ag3|lia|lia]]).
        assert (Ag1 : agree d1 dfin 0 (o + sat_bits)) by (eapply agree_trans; [exact A2|apply (agree_sub _ _ 0 (o + sat_bits + 5)); [exact Ag2|lia|lia]]).
        rewrite <- (parse_ext KU 8 d1 dfin o sat_bits ltac:(lia) ltac:(lia) Ho B1 Bf ltac:(apply (agree_sub _ _ 0 (o + sat_bits)); [exact Ag1|lia|lia])), Pa1. cbn [bind].
        assert (Hrn : representable KU 5 (zlen mineS)) by (cbn [representable]; change (2 ^ 5) with 32; lia).
        destruct (put_parse_roundtrip KU 8 d1 (o + sat_bits) (zlen mineS) 5 ltac:(lia) ltac:(lia) ltac:(lia) F2 B1 Hrn) as [d2' [P2' Pa2]]. rewrite P2 in P2'. inversion P2'; subst d2'.
        rewrite <- (parse_ext KU 8 d2 dfin (o + sat_bits) 5 ltac:(lia) ltac:(lia) ltac:(lia) B2 Bf ltac:(apply (agree_sub _ _ 0 (o + sat_bits + 5)); [exact Ag2|lia|lia])), Pa2. cbn [bind].
        replace (Z.to_nat (zlen mineS)) with (length mineS) by (unfold zlen; lia).
        rewrite (D3 dfin acc Bf Ag3 ltac:(lia)). cbn [bind].
        erewrite (D4 dfin); [|exact Bf|exact Af|rewrite zlen_app; unfold zlen at 2; rewrite map_length; fold (zlen mineS); lia].
        rewrite <- app_assoc. reflexivity.
  Qed.

  (** ---------- the satellite mask and the whole list ---------- *)
  Variable max_sat : Z.
  Hypothesis Hms : 0 <= max_sat.
  Hypothesis Hms2 : max_sat + 1 <= 2 ^ sat_bits.

  Lemma gcount_ext n : forall s m1 m2, (forall t, s <= t < s + Z.of_nat n -> Z.testbit m1 t = Z.testbit m2 t) -> gcount n s m1 = gcount n s m2.
  Proof.
    induction n as [|n IH]; intros s m1 m2 H; [reflexivity|]. cbn [gcount]. rewrite (H s ltac:(lia)). f_equal. apply IH. intros t Ht. apply H. lia.
  Qed.

  Lemma gcount_setbit n : forall s m p, 0 <= s -> 0 <= p -> Z.testbit m p = false ->
    gcount n s (Z.setbit m p) = (gcount n s m + (if andb (Z.leb s p) (Z.ltb p (s + Z.of_nat n)) then 1 else 0))%nat.
  Proof.
    induction n as [|n IH]; intros s m p Hs Hp0 Hp.
    - cbn [gcount]. replace (s + Z.of_nat 0) with s by lia. destruct (Z.leb_spec s p); destruct (Z.ltb_spec p s); cbn [andb]; lia.
    - cbn [gcount]. rewrite (IH (s + 1) m p ltac:(lia) Hp0 Hp). rewrite Z.setbit_eqb by lia.
      destruct (Z.eqb_spec p s) as [->|Hne].
      + rewrite Hp. cbn [orb]. destruct (Z.leb_spec (s + 1) s); [lia|]. cbn [andb]. destruct (Z.leb_spec s s); [|lia]. destruct (Z.ltb_spec s (s + Z.of_nat (S n))); [|lia]. cbn [andb]. lia.
      + cbn [orb]. destruct (Z.testbit m s); destruct (Z.leb_spec (s + 1) p), (Z.ltb_spec p (s + 1 + Z.of_nat n)), (Z.leb_spec s p), (Z.ltb_spec p (s + Z.of_nat (S n))); cbn [andb]; lia.
  Qed.

  Lemma cb_mask_spec : forall es m c m' c', Forall (fun e => 0 <= be_sat e) es -> cb_mask max_sat es m c = Ok (m', c') ->
    (forall e, In e es -> be_sat e <= max_sat) /\
    (forall t, 0 <= t -> Z.testbit m' t = Z.testbit m t || existsb (fun e => be_sat e =? t) es) /\
    Z.of_nat (gcount (Z.to_nat (max_sat + 1)) 0 m') = Z.of_nat (gcount (Z.to_nat (max_sat + 1)) 0 m) + (c' - c).
  Proof.
    induction es as [|e r IH]; intros m c m' c' Hnn H; cbn [cb_mask] in H.
    - inversion H; subst. split; [intros e []|]. split; [intros t _; cbn; rewrite orb_false_r; reflexivity|lia].
    - pose proof (Forall_inv Hnn) as He. cbv beta in He. pose proof (Forall_inv_tail Hnn) as Hr.
      destruct (Z.leb_spec (be_sat e) max_sat) as [Hle|]; [|discriminate].
      destruct (Z.testbit m (be_sat e)) eqn:Eb.
      + destruct (IH _ _ _ _ Hr H) as [H1 [H2 H3]]. split; [intros x [<-|Hx]; [exact Hle|apply H1; exact Hx]|]. split; [|exact H3].
        intros t Ht. rewrite (H2 t Ht). cbn [existsb]. destruct (Z.eqb_spec (be_sat e) t) as [<-|]; [rewrite Eb; reflexivity|reflexivity].
      + destruct (Z.ltb_spec 255 (c + 1)); [discriminate|].
        destruct (IH _ _ _ _ Hr H) as [H1 [H2 H3]]. split; [intros x [<-|Hx]; [exact Hle|apply H1; exact Hx]|]. split.
        * intros t Ht. rewrite (H2 t Ht), Z.setbit_eqb by lia. cbn [existsb]. destruct (be_sat e =? t), (Z.testbit m t); reflexivity.
        * rewrite H3, (gcount_setbit _ 0 m (be_sat e) ltac:(lia) He Eb).
          destruct (Z.leb_spec 0 (be_sat e)); [|lia]. destruct (Z.ltb_spec (be_sat e) (0 + Z.of_nat (Z.to_nat (max_sat + 1)))); [|lia]. cbn [andb]. lia.
  Qed.

  Lemma filter_split_len (p q r : bias_entry -> bool) : forall l, (forall x, p x = true -> q x = false) -> (forall x, p x = true -> r x = true) ->
    (forall x, q x = true -> r x = true) -> zlen (filter p l) + zlen (filter q l) <= zlen (filter r l).
  Proof.
    intros l H1 H2 H3. induction l as [|x l IH]; [cbn; lia|]. cbn [filter].
    destruct (p x) eqn:Ep; destruct (q x) eqn:Eq; destruct (r x) eqn:Er; rewrite ?zlen_cons;
      try (rewrite (H1 x Ep) in Eq; discriminate); try (rewrite (H2 x Ep) in Er; discriminate); try (rewrite (H3 x Eq) in Er; discriminate); lia.
  Qed.

  Lemma grouped_len mask es : forall n s, zlen (grouped n s mask es) <= zlen (filter (fun e => (s <=? be_sat e) && (be_sat e <? s + Z.of_nat n)) es).
  Proof.
    induction n as [|n IH]; intros s; cbn [grouped]; [unfold zlen at 1; cbn [length]; apply zlen_nonneg|].
    rewrite zlen_app. specialize (IH (s + 1)).
    assert (Hm : zlen (if Z.testbit mask s then map norm (filter (mine s) es) else []) <= zlen (filter (mine s) es)).
    { destruct (Z.testbit mask s); [unfold zlen; rewrite map_length; lia|apply zlen_nonneg]. }
    pose proof (filter_split_len (mine s) (fun e => (s + 1 <=? be_sat e) && (be_sat e <? s + 1 + Z.of_nat n))
                  (fun e => (s <=? be_sat e) && (be_sat e <? s + Z.of_nat (S n))) es) as Hs.
    assert (zlen (filter (mine s) es) + zlen (filter (fun e => (s + 1 <=? be_sat e) && (be_sat e <? s + 1 + Z.of_nat n)) es)
            <= zlen (filter (fun e => (s <=? be_sat e) && (be_sat e <? s + Z.of_nat (S n))) es)).
    { apply Hs.
      - intros x Hx. unfold mine in Hx. apply andb_true_iff in Hx. destruct Hx as [Hx _]. apply Z.eqb_eq in Hx. rewrite Hx. destruct (Z.leb_spec (s + 1) s); [lia|reflexivity].
      - intros x Hx. unfold mine in Hx. apply andb_true_iff in Hx. destruct Hx as [Hx _]. apply Z.eqb_eq in Hx. rewrite Hx. destruct (Z.leb_spec s s), (Z.ltb_spec s (s + Z.of_nat (S n))); try lia; reflexivity.
      - intros x Hx. apply andb_true_iff in Hx. destruct Hx as [Ha Hb]. apply Z.leb_le in Ha. apply Z.ltb_lt in Hb. apply andb_true_iff. split; [apply Z.leb_le|apply Z.ltb_lt]; lia. }
    lia.
  Qed.

  Lemma filter_len_le {A} (p : A -> bool) l : zlen (filter p l) <= zlen l.
  Proof. induction l as [|x l IH]; [cbn; lia|]. cbn [filter]. destruct (p x); rewrite ?zlen_cons; lia. Qed.

  (** what the encoder accepts, the decoder returns: the recognised entries, grouped by ascending satellite *)
  Theorem cb_encode_decodes d o l es d' o' : bytes_ok d = true -> 0 <= o ->
    entries_of_vals l = Some es -> Forall (fun e => 0 <= be_sat e) es -> Forall in14 (filter recog es) ->
    cb_encode table max_sat sat_bits cap (d, o) (VList l) = Ok (d', o') ->
    exists mask, (forall t, 0 <= t -> Z.testbit mask t = existsb (fun e => be_sat e =? t) es) /\
      cb_decode table sat_bits cap d' o = Ok (VList (map val_of_entry (grouped (Z.to_nat (max_sat + 1)) 0 mask es)), o').
  Proof.
    intros Hb Ho Hes Hnn Hin H. unfold cb_encode in H. rewrite Hes in H.
    destruct (Z.ltb_spec cap (zlen es)) as [|Hcap]; [discriminate|].
    destruct (cb_mask max_sat es 0 0) as [[mask sn]|e|] eqn:Em; cbn [bind] in H; try discriminate.
    destruct (Z.ltb_spec 63 sn) as [|Hsn]; [discriminate|].
    cbn [fst snd] in H.
    destruct (put KU 8 d o sn 6) as [[d1 o1]|e1|] eqn:P1; cbn [bind] in H; try discriminate.
    destruct (put_frame KU 8 d o sn 6 d1 o1 ltac:(lia) ltac:(lia) Ho Hb P1) as [-> [F1 [L1 [B1 A1]]]].
    destruct (cb_mask_spec es 0 0 mask sn Hnn Em) as [Hle [Hbits Hcnt]].
    assert (Hg0 : gcount (Z.to_nat (max_sat + 1)) 0 0 = O).
    { assert (G : forall n s, gcount n s 0 = O) by (induction n as [|n IHn]; intros z; cbn [gcount]; [reflexivity|]; rewrite Z.bits_0, IHn; reflexivity). apply G. }
    rewrite Hg0 in Hcnt. cbn [Z.of_nat] in Hcnt.
    exists mask. split; [intros t Ht; rewrite (Hbits t Ht), Z.bits_0; reflexivity|].
    destruct (sats_dec es Hin mask (Z.to_nat (max_sat + 1)) 0 d1 (o + 6) d' o' B1 ltac:(lia) ltac:(lia) ltac:(lia) H) as [M [B [L [A D]]]].
    unfold cb_decode.
    assert (Hrs : representable KU 6 sn) by (cbn [representable]; change (2 ^ 6) with 64; lia).
    destruct (put_parse_roundtrip KU 8 d o sn 6 ltac:(lia) ltac:(lia) Ho F1 Hb Hrs) as [d1' [P1' Pa1]]. rewrite P1 in P1'. inversion P1'; subst d1'.
    rewrite <- (parse_ext KU 8 d1 d' o 6 ltac:(lia) ltac:(lia) Ho B1 B ltac:(apply (agree_sub _ _ 0 (o + 6)); [exact A|lia|lia])), Pa1. cbn [bind].
    replace (Z.to_nat sn) with (gcount (Z.to_nat (max_sat + 1)) 0 mask) by lia.
    rewrite (D d' [] B (agree_refl _ _ _)); [reflexivity|].
    pose proof (grouped_len mask es (Z.to_nat (max_sat + 1)) 0). pose proof (filter_len_le (fun e => (0 <=? be_sat e) && (be_sat e <? 0 + Z.of_nat (Z.to_nat (max_sat + 1)))) es).
    unfold zlen at 1. cbn [length]. lia.
  Qed.
End CB.

(** Assembler::put / Parser::parse: exact bit-level behaviour (C07). *)
From Coq Require Import ZArith List Lia Bool.
From RtcmModel Require Import Types BitIO.
From RtcmProofs Require Import BitLemmas ListZ EncodeLen.
Import ListNotations.
Open Scope Z_scope.

(** MSB-first bit [g] of a byte buffer *)
Definition bitat (data : list Z) (g : Z) : bool := Z.testbit (znth data (g / 8)) (7 - g mod 8).

(** ---------- bits of the byte masks ---------- *)
Lemma testbit_255 t : 0 <= t -> Z.testbit 255 t = (t <? 8).
Proof. intros H. change 255 with (Z.ones 8). apply Z.testbit_ones_nonneg; lia. Qed.

Lemma testbit_mask_r n t : 0 <= n -> 0 <= t -> Z.testbit (mask_r n) t = (t + n <? 8).
Proof. intros Hn Ht. unfold mask_r. rewrite Z.shiftr_spec by lia. apply testbit_255. lia. Qed.

Lemma testbit_mask_l n t : 0 <= n -> 0 <= t < 8 -> Z.testbit (mask_l n) t = (n <=? t).
Proof.
  intros Hn Ht. unfold mask_l. change 256 with (2 ^ 8). rewrite Z.mod_pow2_bits_low by lia.
  rewrite Z.mul_pow2_bits by lia. destruct (Z.leb_spec n t).
  - rewrite testbit_255 by lia. lia.
  - apply Z.testbit_neg_r. lia.
Qed.

Lemma mask_r_range n : 0 <= n -> 0 <= mask_r n < 256.
Proof.
  intros H. unfold mask_r. rewrite Z.shiftr_div_pow2 by lia. split; [apply Z.div_pos; lia|].
  apply Z.div_lt_upper_bound; [lia|]. assert (1 <= 2 ^ n) by (apply Z.pow_le_mono_r with (b := 0) (c := n) (a := 2); lia || lia). nia.
Qed.
Lemma mask_l_range n : 0 <= mask_l n < 256.
Proof. unfold mask_l. apply Z.mod_pos_bound. lia. Qed.

(** low bits survive the wrap into a carrier *)
Lemma testbit_wrapc k bits x m : 0 <= m < bits -> Z.testbit (wrapc k bits x) m = Z.testbit x m.
Proof.
  intros H. unfold wrapc. destruct (signed_kind k && _).
  - replace (x mod 2 ^ bits - 2 ^ bits) with (x mod 2 ^ bits + (-1) * 2 ^ bits) by ring.
    rewrite <- (Z.mod_pow2_bits_low (x mod 2 ^ bits + -1 * 2 ^ bits) bits m) by lia.
    rewrite Z.mod_add by (apply Z.pow_nonzero; lia). rewrite Z.mod_mod by (apply Z.pow_nonzero; lia).
    apply Z.mod_pow2_bits_low. lia.
  - apply Z.mod_pow2_bits_low. lia.
Qed.

Lemma testbit_val_cast x t : 0 <= t < 8 -> Z.testbit (val_cast x) t = Z.testbit x t.
Proof. intros H. unfold val_cast. change 256 with (2 ^ 8). apply Z.mod_pow2_bits_low. lia. Qed.
Lemma val_cast_range x : 0 <= val_cast x < 256.
Proof. unfold val_cast. apply Z.mod_pos_bound. lia. Qed.

(** a byte is determined by its 8 bits, and bitwise combinations of bytes are bytes *)
Lemma byte_lor a b : 0 <= a < 256 -> 0 <= b < 256 -> 0 <= Z.lor a b < 256.
Proof.
  intros Ha Hb. split; [apply Z.lor_nonneg; lia|].
  destruct (Z.eq_dec (Z.lor a b) 0) as [->|Hz]; [lia|].
  change 256 with (2 ^ 8). apply Z.log2_lt_pow2; [assert (0 <= Z.lor a b) by (apply Z.lor_nonneg; lia); lia|].
  rewrite Z.log2_lor by lia. apply Z.max_lub_lt.
  - destruct (Z.eq_dec a 0) as [->|]; [cbn; lia|]. apply Z.log2_lt_pow2; lia.
  - destruct (Z.eq_dec b 0) as [->|]; [cbn; lia|]. apply Z.log2_lt_pow2; lia.
Qed.
Lemma lt_pow2_of_bits x n : 0 <= x -> 0 <= n -> (forall m, n <= m -> Z.testbit x m = false) -> x < 2 ^ n.
Proof.
  intros Hx Hn Hb. destruct (Z_lt_ge_dec x (2 ^ n)) as [|Hge]; [assumption|exfalso].
  assert (Hpos : 0 < x) by (assert (0 < 2 ^ n) by (apply Z.pow_pos_nonneg; lia); lia).
  assert (Hl : n <= Z.log2 x) by (apply Z.log2_le_pow2; lia).
  pose proof (Z.bit_log2 x Hpos) as Hbit. rewrite (Hb _ Hl) in Hbit. discriminate.
Qed.

Lemma testbit_byte_high d m : 0 <= d < 256 -> 8 <= m -> Z.testbit d m = false.
Proof.
  intros Hd Hm. destruct (Z.eq_dec d 0) as [->|Hz]; [apply Z.bits_0|].
  apply Z.bits_above_log2; [lia|]. apply Z.lt_le_trans with 8; [|lia]. apply Z.log2_lt_pow2; lia.
Qed.

(** ---------- one byte of Assembler::put ---------- *)
Section PutStep.
  Variables (k : ckind) (bits value lh_st rh_en dlen len : Z).
  Hypothesis Hlh : 0 <= lh_st < 8.
  Hypothesis Hrh : 0 <= rh_en < 8.
  Hypothesis Hdlen : 1 <= dlen.
  Hypothesis Hsum : 8 * dlen = lh_st + len + rh_en.
  Hypothesis Hlen : 1 <= len <= bits.
  Hypothesis Hbits : 8 <= bits.

  (** bits still to be written when byte i of the window is reached *)
  Definition lenlft_in (i : Z) : Z := if i =? 0 then len else len - 8 * i + lh_st.
  (** ... and after it *)
  Definition lenlft_out (i : Z) : Z := if i =? dlen - 1 then 0 else len - 8 * (i + 1) + lh_st.
  (** bit t (LSB = 0) of window byte i belongs to the field *)
  Definition in_bset (i t : Z) : bool :=
    (if i =? 0 then t + lh_st <? 8 else true) && (if i =? dlen - 1 then rh_en <=? t else true).

  Lemma lenlft_step i : 0 <= i < dlen - 1 -> lenlft_out i = lenlft_in (i + 1).
  Proof. intros H. unfold lenlft_out, lenlft_in. destruct (Z.eqb_spec i (dlen - 1)); [lia|]. destruct (Z.eqb_spec (i + 1) 0); lia. Qed.

  Ltac usub_ok :=
    unfold usub; cbn [bind]; repeat match goal with |- context [if ?b <=? ?a then _ else _] => destruct (Z.leb_spec b a); [|lia]; cbn [bind] end.

  (** bit t of the shifted value that lands in the byte *)
  Lemma shl_ok a : 0 <= a < 8 -> shl k bits value a = Ok (wrapc k bits (value * 2 ^ a)).
  Proof. intros Ha. unfold shl. replace ((0 <=? a) && (a <? bits)) with true by lia. reflexivity. Qed.
  Lemma shl_bits a t : 0 <= a <= t -> t < 8 -> Z.testbit (val_cast (wrapc k bits (value * 2 ^ a))) t = Z.testbit value (t - a).
  Proof. intros Ha Ht. rewrite testbit_val_cast by lia. rewrite testbit_wrapc by lia. apply Z.mul_pow2_bits. lia. Qed.
  Lemma shr_ok n : 0 <= n < bits -> shr k bits value n = Ok (Z.shiftr value n).
  Proof. intros Hn. unfold shr. replace ((0 <=? n) && (n <? bits)) with true by lia. reflexivity. Qed.
  Lemma shr_bits n t : 0 <= n -> 0 <= t < 8 -> Z.testbit (val_cast (Z.shiftr value n)) t = Z.testbit value (t + n).
  Proof. intros Hn Ht. rewrite testbit_val_cast by lia. apply Z.shiftr_spec. lia. Qed.

  (** the merge of a byte with the new bits *)
  Lemma merge_bits d bset bval t : 0 <= t -> Z.testbit (255 - bset) t = negb (Z.testbit bset t) ->
    Z.testbit (Z.lor (Z.land d (Z.lor (255 - bset) bval)) (Z.land bset bval)) t =
    if Z.testbit bset t then Z.testbit bval t else Z.testbit d t.
  Proof.
    intros Ht Hn. rewrite Z.lor_spec, !Z.land_spec, Z.lor_spec, Hn.
    destruct (Z.testbit bset t), (Z.testbit bval t), (Z.testbit d t); reflexivity.
  Qed.

  Lemma testbit_255_minus bset t : 0 <= bset < 256 -> 0 <= t < 8 -> Z.testbit (255 - bset) t = negb (Z.testbit bset t).
  Proof.
    intros Hb Ht. replace (255 - bset) with (Z.lxor 255 bset).
    - rewrite Z.lxor_spec, testbit_255 by lia. replace (t <? 8) with true by lia. destruct (Z.testbit bset t); reflexivity.
    - (* 255 - b = 255 xor b for a byte b: no borrow *)
      change 255 with (Z.ones 8). symmetry. rewrite Z.lxor_comm.
      assert (Hl : Z.land bset (Z.ones 8) = bset) by (rewrite Z.land_ones by lia; apply Z.mod_small; change (2 ^ 8) with 256; lia).
      assert (Hd : Z.ldiff bset (Z.ones 8) = 0).
      { apply Z.bits_inj'. intros m Hm. rewrite Z.ldiff_spec, Z.bits_0. destruct (Z_lt_ge_dec m 8).
        - rewrite Z.testbit_ones_nonneg by lia. replace (m <? 8) with true by lia. apply andb_false_r.
        - rewrite testbit_byte_high by lia. reflexivity. }
      rewrite (Z.sub_nocarry_ldiff _ _ Hd). apply Z.bits_inj'. intros m Hm.
      rewrite Z.ldiff_spec, Z.lxor_spec. destruct (Z_lt_ge_dec m 8).
      + rewrite Z.testbit_ones_nonneg by lia. replace (m <? 8) with true by lia. destruct (Z.testbit bset m); reflexivity.
      + rewrite Z.testbit_ones_nonneg by lia. replace (m <? 8) with false by lia. rewrite testbit_byte_high by lia. reflexivity.
  Qed.
  Lemma bset_bits_range b : 0 <= b < 256 -> forall m, 0 <= m -> 0 <= Z.land b m < 256.
  Proof.
    intros Hb m Hm. split; [apply Z.land_nonneg; lia|]. change 256 with (2 ^ 8). apply lt_pow2_of_bits; [apply Z.land_nonneg; lia|lia|].
    intros j Hj. rewrite Z.land_spec, testbit_byte_high by lia. reflexivity.
  Qed.

  Lemma merged_range d bset bval : 0 <= d < 256 -> 0 <= bset < 256 -> 0 <= bval < 256 ->
    0 <= Z.lor (Z.land d (Z.lor (255 - bset) bval)) (Z.land bset bval) < 256.
  Proof.
    intros Hd Hb Hv. assert (H1 : 0 <= Z.land d (Z.lor (255 - bset) bval)) by (apply Z.land_nonneg; lia).
    assert (H2 : 0 <= Z.land bset bval) by (apply Z.land_nonneg; lia).
    split; [apply Z.lor_nonneg; lia|]. change 256 with (2 ^ 8). apply lt_pow2_of_bits; [apply Z.lor_nonneg; lia|lia|].
    intros j Hj. rewrite Z.lor_spec, !Z.land_spec, (testbit_byte_high d), (testbit_byte_high bset) by lia. reflexivity.
  Qed.

  Lemma put_step_ok i d : 0 <= i < dlen -> 0 <= d < 256 ->
    exists d', put_step k bits value lh_st rh_en dlen i d (lenlft_in i) = Ok (d', lenlft_out i) /\
               0 <= d' < 256 /\
               forall t, 0 <= t < 8 ->
                 Z.testbit d' t = if in_bset i t then Z.testbit value (t + len + lh_st - 8 * (i + 1)) else Z.testbit d t.
  Proof.
    intros Hi Hd. unfold put_step, lenlft_in, lenlft_out, in_bset.
    pose proof (mask_r_range lh_st ltac:(lia)) as Rr. pose proof (mask_l_range rh_en) as Rl.
    destruct (Z.eqb_spec i 0) as [F|F]; destruct (Z.eqb_spec i (dlen - 1)) as [L|L].
    - (* single byte *)
      usub_ok. replace (len - (8 - lh_st - rh_en) <=? rh_en) with true by lia.
      replace (rh_en - (len - (8 - lh_st - rh_en))) with rh_en by lia. rewrite shl_ok by lia. cbn [bind].
      set (bset := Z.land (Z.land 255 (mask_r lh_st)) (mask_l rh_en)).
      assert (Hb : 0 <= bset < 256) by (apply bset_bits_range; [apply bset_bits_range; lia|lia]).
      eexists. split; [f_equal; f_equal; lia|]. split; [apply merged_range; [lia|exact Hb|apply val_cast_range]|].
      intros t Ht. rewrite merge_bits by (try lia; apply testbit_255_minus; lia).
      unfold bset. rewrite !Z.land_spec, testbit_255, testbit_mask_r, testbit_mask_l by lia.
      replace (t <? 8) with true by lia. cbn [andb].
      destruct (Z.ltb_spec (t + lh_st) 8), (Z.leb_spec rh_en t); cbn [andb]; try reflexivity.
      rewrite shl_bits by lia. f_equal. lia.
    - (* first of several bytes *)
      usub_ok. replace (len - (8 - lh_st) <=? 0) with false by lia.
      rewrite shr_ok by lia. cbn [bind].
      set (bset := Z.land 255 (mask_r lh_st)).
      assert (Hb : 0 <= bset < 256) by (apply bset_bits_range; lia).
      eexists. split; [f_equal; f_equal; lia|]. split; [apply merged_range; [lia|exact Hb|apply val_cast_range]|].
      intros t Ht. rewrite merge_bits by (try lia; apply testbit_255_minus; lia).
      unfold bset. rewrite !Z.land_spec, testbit_255, testbit_mask_r by lia.
      replace (t <? 8) with true by lia. cbn [andb]. rewrite andb_true_r.
      destruct (Z.ltb_spec (t + lh_st) 8); try reflexivity.
      rewrite shr_bits by lia. f_equal. lia.
    - (* last of several bytes *)
      usub_ok. replace (len - 8 * i + lh_st - (8 - rh_en) <=? rh_en) with true by lia.
      replace (rh_en - (len - 8 * i + lh_st - (8 - rh_en))) with rh_en by lia. rewrite shl_ok by lia. cbn [bind].
      set (bset := Z.land 255 (mask_l rh_en)).
      assert (Hb : 0 <= bset < 256) by (apply bset_bits_range; lia).
      eexists. split; [f_equal; f_equal; lia|]. split; [apply merged_range; [lia|exact Hb|apply val_cast_range]|].
      intros t Ht. rewrite merge_bits by (try lia; apply testbit_255_minus; lia).
      unfold bset. rewrite !Z.land_spec, testbit_255, testbit_mask_l by lia.
      replace (t <? 8) with true by lia. cbn [andb].
      destruct (Z.leb_spec rh_en t); try reflexivity.
      rewrite shl_bits by lia. f_equal. lia.
    - (* a middle byte *)
      usub_ok. replace (len - 8 * i + lh_st - 8 <=? 0) with false by lia.
      rewrite shr_ok by lia. cbn [bind].
      eexists. split; [f_equal; f_equal; lia|]. split; [apply merged_range; [lia|lia|apply val_cast_range]|].
      intros t Ht. rewrite merge_bits by (try lia; apply testbit_255_minus; lia).
      rewrite testbit_255 by lia. replace (t <? 8) with true by lia. cbn [andb].
      rewrite shr_bits by lia. f_equal. lia.
  Qed.
End PutStep.

(** ---------- list plumbing ---------- *)
Lemma nth_upd_same : forall (l : list Z) j f, (j < length l)%nat -> nth j (upd l j f) 0 = f (nth j l 0).
Proof. induction l as [|x r IH]; intros j f H; [cbn in H; lia|]. destruct j; cbn; [reflexivity|apply IH; cbn in H; lia]. Qed.
Lemma nth_upd_other : forall (l : list Z) j m f, m <> j -> nth m (upd l j f) 0 = nth m l 0.
Proof.
  induction l as [|x r IH]; intros j m f H; [reflexivity|]. destruct j, m; cbn; try reflexivity; try lia. apply IH. lia.
Qed.
Lemma nth_error_nth (l : list Z) j : (j < length l)%nat -> nth_error l j = Some (nth j l 0).
Proof. revert j. induction l as [|x r IH]; intros j H; [cbn in H; lia|]. destruct j; cbn; [reflexivity|apply IH; cbn in H; lia]. Qed.
Lemma bytes_ok_nth (l : list Z) j : bytes_ok l = true -> 0 <= nth j l 0 < 256.
Proof.
  intros H. destruct (nth_in_or_default j l 0) as [Hin|Hd]; [|rewrite Hd; lia].
  unfold bytes_ok in H. rewrite forallb_forall in H. specialize (H _ Hin). unfold byte_ok in H. lia.
Qed.
Lemma bytes_ok_upd : forall (l : list Z) j x, bytes_ok l = true -> 0 <= x < 256 -> bytes_ok (upd l j (fun _ => x)) = true.
Proof.
  induction l as [|y r IH]; intros j x H Hx; [reflexivity|]. unfold bytes_ok in *. cbn [forallb] in H. apply andb_true_iff in H. destruct H as [Hy Hr].
  destruct j; cbn [upd forallb]; apply andb_true_iff; split; try assumption; [unfold byte_ok; lia|apply IH; assumption].
Qed.

(** ---------- the loop of Assembler::put ---------- *)
Section PutLoop.
  Variables (k : ckind) (bits value lh_st rh_en dlen len : Z) (sti : nat).
  Hypothesis Hlh : 0 <= lh_st < 8.
  Hypothesis Hrh : 0 <= rh_en < 8.
  Hypothesis Hdlen : 1 <= dlen.
  Hypothesis Hsum : 8 * dlen = lh_st + len + rh_en.
  Hypothesis Hlen : 1 <= len <= bits.
  Hypothesis Hbits : 8 <= bits.

  Definition new_bit (data : list Z) (j : nat) (t : Z) : bool :=
    let i := Z.of_nat j - Z.of_nat sti in
    if in_bset lh_st rh_en dlen i t then Z.testbit value (t + len + lh_st - 8 * (i + 1)) else Z.testbit (nth j data 0) t.

  Lemma put_loop_spec : forall n i data, Z.of_nat n = dlen - i -> 0 <= i ->
    (sti + Z.to_nat dlen <= length data)%nat -> bytes_ok data = true ->
    exists data', put_loop k bits value lh_st rh_en dlen sti n i data (lenlft_in lh_st len i) = Ok data' /\
                  length data' = length data /\ bytes_ok data' = true /\
                  forall (j : nat) t, 0 <= t < 8 ->
                    Z.testbit (nth j data' 0) t =
                    if (sti + Z.to_nat i <=? j)%nat && (j <? sti + Z.to_nat dlen)%nat then new_bit data j t else Z.testbit (nth j data 0) t.
  Proof.
    induction n as [|n IH]; intros i data Hn Hi Hlen' Hb.
    - exists data. cbn [put_loop]. repeat split; try assumption. intros j t Ht.
      replace ((sti + Z.to_nat i <=? j)%nat && (j <? sti + Z.to_nat dlen)%nat) with false; [reflexivity|].
      symmetry. apply andb_false_iff. destruct (Nat.leb_spec (sti + Z.to_nat i) j); [right; apply Nat.ltb_ge; lia|left; reflexivity].
    - cbn [put_loop]. set (j0 := (sti + Z.to_nat i)%nat).
      assert (Hj0 : (j0 < length data)%nat) by (unfold j0; lia).
      rewrite (nth_error_nth data j0 Hj0).
      destruct (put_step_ok k bits value lh_st rh_en dlen len Hlh Hrh Hsum Hlen Hbits i (nth j0 data 0) ltac:(lia) (bytes_ok_nth data j0 Hb))
        as [d' [Hstep [Hd' Hbits']]].
      rewrite Hstep. cbn [bind].
      set (data1 := upd data j0 (fun _ => d')).
      assert (Hl1 : length data1 = length data) by apply upd_length.
      assert (Hb1 : bytes_ok data1 = true) by (apply bytes_ok_upd; assumption).
      destruct n as [|n'].
      + (* that was the last byte *)
        cbn [put_loop]. exists data1. repeat split; try assumption. intros j t Ht.
        assert (Hil : i = dlen - 1) by lia.
        destruct (Nat.eq_dec j j0) as [->|Hne].
        * unfold data1. rewrite nth_upd_same by exact Hj0. rewrite Hbits' by exact Ht.
          assert (Hc : ((j0 <=? j0)%nat && (j0 <? sti + Z.to_nat dlen)%nat) = true)
            by (apply andb_true_iff; split; [apply Nat.leb_le|apply Nat.ltb_lt]; unfold j0; lia).
          rewrite Hc.
          unfold new_bit. replace (Z.of_nat j0 - Z.of_nat sti) with i by (unfold j0; lia). reflexivity.
        * unfold data1. rewrite nth_upd_other by exact Hne.
          assert (Hc : ((j0 <=? j)%nat && (j <? sti + Z.to_nat dlen)%nat) = false).
          { apply andb_false_iff. destruct (Nat.leb_spec j0 j); [right; apply Nat.ltb_ge; unfold j0 in *; lia|left; reflexivity]. }
          rewrite Hc. reflexivity.
      + assert (Hil : 0 <= i < dlen - 1) by lia.
        rewrite (lenlft_step lh_st dlen len i Hil).
        destruct (IH (i + 1) data1 ltac:(lia) ltac:(lia) ltac:(lia) Hb1) as [data' [Hloop [Hl' [Hb' Hspec]]]].
        exists data'. split; [exact Hloop|]. split; [lia|]. split; [exact Hb'|].
        intros j t Ht. rewrite (Hspec j t Ht).
        replace (Z.to_nat (i + 1)) with (S (Z.to_nat i)) by lia.
        destruct (Nat.eq_dec j j0) as [->|Hne].
        * (* byte j0 was written in this iteration and is left alone afterwards *)
          assert (Hc1 : ((sti + S (Z.to_nat i) <=? j0)%nat && (j0 <? sti + Z.to_nat dlen)%nat) = false)
            by (apply andb_false_iff; left; apply Nat.leb_gt; unfold j0; lia).
          assert (Hc2 : ((j0 <=? j0)%nat && (j0 <? sti + Z.to_nat dlen)%nat) = true)
            by (apply andb_true_iff; split; [apply Nat.leb_le|apply Nat.ltb_lt]; unfold j0; lia).
          rewrite Hc1, Hc2.
          unfold data1. rewrite nth_upd_same by exact Hj0. rewrite Hbits' by exact Ht.
          unfold new_bit. replace (Z.of_nat j0 - Z.of_nat sti) with i by (unfold j0; lia). reflexivity.
        * assert (Hc : (sti + S (Z.to_nat i) <=? j)%nat = (j0 <=? j)%nat).
          { destruct (Nat.leb_spec j0 j), (Nat.leb_spec (sti + S (Z.to_nat i)) j); try reflexivity; unfold j0 in *; lia. }
          rewrite Hc. unfold new_bit, data1. rewrite !nth_upd_other by exact Hne. reflexivity.
  Qed.
End PutLoop.

(** ---------- Assembler::put ---------- *)
Ltac Zify.zify_post_hook ::= Z.div_mod_to_equations.

Lemma window_arith offset len :
  0 <= offset -> 1 <= len ->
  let lh_st := offset mod 8 in
  let rh_en := (8 - (offset + len) mod 8) mod 8 in
  let sti := offset / 8 in
  let dlen := (offset + len - 1) / 8 - sti + 1 in
  0 <= lh_st < 8 /\ 0 <= rh_en < 8 /\ 1 <= dlen /\ 8 * dlen = lh_st + len + rh_en /\ offset = 8 * sti + lh_st.
Proof. intros Ho Hl. cbv zeta. lia. Qed.

Theorem put_bits k bits data offset value len value' :
  8 <= bits -> 1 <= len <= bits -> 0 <= offset -> offset + len <= 8 * zlen data -> bytes_ok data = true ->
  sign_fix_rev k bits value len = Ok value' ->
  exists data', put k bits data offset value len = Ok (data', offset + len) /\
                zlen data' = zlen data /\ bytes_ok data' = true /\
                forall g, 0 <= g < 8 * zlen data ->
                  bitat data' g = if (offset <=? g) && (g <? offset + len) then Z.testbit value' (offset + len - 1 - g) else bitat data g.
Proof.
  intros Hbits Hlen Ho Hfit Hb Hsfr. unfold put.
  destruct (Z.ltb_spec (zlen data * 8) (offset + len)) as [Hlt|_]; [lia|].
  rewrite Hsfr. cbn [bind].
  destruct (window_arith offset len Ho ltac:(lia)) as [Hlh [Hrh [Hdlen [Hsum Hoff]]]].
  set (lh_st := offset mod 8) in *. set (rh_en := (8 - (offset + len) mod 8) mod 8) in *.
  set (sti := offset / 8) in *. set (dlen := (offset + len - 1) / 8 - sti + 1) in *.
  unfold usub. destruct (Z.leb_spec 1 (offset + len)) as [_|Hc]; [|lia]. cbn [bind].
  change ((offset + len - 1) / 8 - sti + 1) with dlen.
  assert (Hwin : (Z.to_nat sti + Z.to_nat dlen <= length data)%nat).
  { unfold zlen in Hfit. assert (0 <= sti) by (unfold sti; apply Z.div_pos; lia). assert (8 * (sti + dlen) <= 8 * Z.of_nat (length data)) by lia. lia. }
  destruct (put_loop_spec k bits value' lh_st rh_en dlen len (Z.to_nat sti) Hlh Hrh Hdlen Hsum Hlen Hbits
              (Z.to_nat dlen) 0 data ltac:(lia) ltac:(lia) Hwin Hb) as [data' [Hloop [Hl' [Hb' Hspec]]]].
  change (lenlft_in lh_st len 0) with len in Hloop. rewrite Hloop. cbn [bind].
  exists data'. split; [reflexivity|]. split; [unfold zlen; lia|]. split; [exact Hb'|].
  intros g Hg. unfold bitat, znth.
  assert (Hq : 0 <= g / 8) by (apply Z.div_pos; lia).
  assert (Ht : 0 <= 7 - g mod 8 < 8) by lia.
  rewrite (Hspec (Z.to_nat (g / 8)) (7 - g mod 8) Ht). clear Hspec Hloop.
  assert (Hsti : 0 <= sti) by (unfold sti; apply Z.div_pos; lia).
  unfold new_bit, in_bset.
  replace (Z.of_nat (Z.to_nat (g / 8)) - Z.of_nat (Z.to_nat sti)) with (g / 8 - sti) by lia.
  (* window membership and field membership *)
  destruct (Z.leb_spec offset g) as [Hog|Hog]; destruct (Z.ltb_spec g (offset + len)) as [Hgl|Hgl]; cbn [andb].
  - (* inside the field *)
    replace ((Z.to_nat sti + Z.to_nat 0 <=? Z.to_nat (g / 8))%nat) with true by (symmetry; apply Nat.leb_le; lia).
    replace ((Z.to_nat (g / 8) <? Z.to_nat sti + Z.to_nat dlen)%nat) with true by (symmetry; apply Nat.ltb_lt; lia).
    cbn [andb].
    replace (if g / 8 - sti =? 0 then 7 - g mod 8 + lh_st <? 8 else true) with true
      by (destruct (Z.eqb_spec (g / 8 - sti) 0); [symmetry; apply Z.ltb_lt; lia|reflexivity]).
    replace (if g / 8 - sti =? dlen - 1 then rh_en <=? 7 - g mod 8 else true) with true
      by (destruct (Z.eqb_spec (g / 8 - sti) (dlen - 1)); [symmetry; apply Z.leb_le; lia|reflexivity]).
    cbn [andb]. f_equal. lia.
  - (* at or beyond the end of the field *)
    destruct ((Z.to_nat sti + Z.to_nat 0 <=? Z.to_nat (g / 8))%nat && (Z.to_nat (g / 8) <? Z.to_nat sti + Z.to_nat dlen)%nat) eqn:Hw; [|reflexivity].
    apply andb_true_iff in Hw. destruct Hw as [Hw1 Hw2]. apply Nat.leb_le in Hw1. apply Nat.ltb_lt in Hw2.
    replace (if g / 8 - sti =? dlen - 1 then rh_en <=? 7 - g mod 8 else true) with false
      by (destruct (Z.eqb_spec (g / 8 - sti) (dlen - 1)); [symmetry; apply Z.leb_gt; lia|lia]).
    rewrite andb_false_r. reflexivity.
  - (* before the field *)
    destruct ((Z.to_nat sti + Z.to_nat 0 <=? Z.to_nat (g / 8))%nat && (Z.to_nat (g / 8) <? Z.to_nat sti + Z.to_nat dlen)%nat) eqn:Hw; [|reflexivity].
    apply andb_true_iff in Hw. destruct Hw as [Hw1 Hw2]. apply Nat.leb_le in Hw1. apply Nat.ltb_lt in Hw2.
    replace (if g / 8 - sti =? 0 then 7 - g mod 8 + lh_st <? 8 else true) with false
      by (destruct (Z.eqb_spec (g / 8 - sti) 0); [symmetry; apply Z.ltb_ge; lia|lia]).
    reflexivity.
  - exfalso. clear - Hog Hgl Hlen. lia.
Qed.

(** a write that would extend past the end of the buffer reports BufferOverflow and nothing else happens
    (an [Err] carries no new buffer and no new cursor) *)
Theorem put_overflow k bits data offset value len :
  8 * zlen data < offset + len -> put k bits data offset value len = Err BufferOverflow.
Proof. intros H. unfold put. destruct (Z.ltb_spec (zlen data * 8) (offset + len)); [reflexivity|lia]. Qed.

(** ---------- carriers: canonical values ---------- *)
Lemma pow2_pos n : 0 <= n -> 0 < 2 ^ n.
Proof. intros. apply Z.pow_pos_nonneg; lia. Qed.

Lemma wrapc_mod k bits x : 0 < bits -> (wrapc k bits x) mod 2 ^ bits = x mod 2 ^ bits.
Proof.
  intros Hb. unfold wrapc. pose proof (pow2_pos bits ltac:(lia)) as Hp.
  destruct (signed_kind k && _).
  - replace (x mod 2 ^ bits - 2 ^ bits) with (x mod 2 ^ bits + (-1) * 2 ^ bits) by ring.
    rewrite Z.mod_add by lia. apply Z.mod_mod. lia.
  - apply Z.mod_mod. lia.
Qed.
Lemma wrapc_congr k bits x y : x mod 2 ^ bits = y mod 2 ^ bits -> wrapc k bits x = wrapc k bits y.
Proof. intros H. unfold wrapc. rewrite H. reflexivity. Qed.
Lemma wrapc_idem k bits x : 0 < bits -> wrapc k bits (wrapc k bits x) = wrapc k bits x.
Proof. intros Hb. apply wrapc_congr. apply wrapc_mod. exact Hb. Qed.

Definition canon (k : ckind) (bits v : Z) : Prop := wrapc k bits v = v.

Lemma canon_wrapc k bits x : 0 < bits -> canon k bits (wrapc k bits x).
Proof. intros. apply wrapc_idem. assumption. Qed.

Lemma canon_range k bits v : 1 <= bits -> (canon k bits v <-> cmin k bits <= v <= cmax k bits).
Proof.
  intros Hb. unfold canon, wrapc, cmin, cmax.
  assert (Hp : 2 ^ bits = 2 * 2 ^ (bits - 1)) by (replace bits with (1 + (bits - 1)) at 1 by lia; rewrite Z.pow_add_r by lia; reflexivity).
  pose proof (pow2_pos (bits - 1) ltac:(lia)) as Hq. set (P := 2 ^ (bits - 1)) in *. rewrite Hp.
  pose proof (Z.mod_pos_bound v (2 * P) ltac:(lia)) as Hm.
  destruct (signed_kind k); cbn [andb].
  - split.
    + intros H'. destruct (Z.leb_spec P (v mod (2 * P))); lia.
    + intros H'. destruct (Z_lt_ge_dec v 0) as [Hneg|Hpos].
      * assert (E : v mod (2 * P) = v + 2 * P) by (symmetry; apply Z.mod_unique with (-1); lia).
        rewrite E. destruct (Z.leb_spec P (v + 2 * P)); lia.
      * rewrite Z.mod_small by lia. destruct (Z.leb_spec P v); lia.
  - split.
    + intros H'. lia.
    + intros H'. apply Z.mod_small. lia.
Qed.

Lemma lor_range a b n : 0 <= n -> 0 <= a < 2 ^ n -> 0 <= b < 2 ^ n -> 0 <= Z.lor a b < 2 ^ n.
Proof.
  intros Hn Ha Hb. split; [apply Z.lor_nonneg; lia|]. apply lt_pow2_of_bits; [apply Z.lor_nonneg; lia|lia|].
  intros m Hm. rewrite Z.lor_spec.
  assert (Hbit : forall x, 0 <= x < 2 ^ n -> Z.testbit x m = false).
  { intros x Hx. destruct (Z.eq_dec x 0) as [->|Hz]; [apply Z.bits_0|]. apply Z.bits_above_log2; [lia|].
    apply Z.lt_le_trans with n; [apply Z.log2_lt_pow2; lia|lia]. }
  rewrite (Hbit a Ha), (Hbit b Hb). reflexivity.
Qed.

(** a value lies in the signed range of [b] bits iff all its bits from b-1 upwards agree *)
Lemma signed_range_bits b x : 1 <= b ->
  (- 2 ^ (b - 1) <= x < 2 ^ (b - 1) <-> forall m, b - 1 <= m -> Z.testbit x m = Z.testbit x (b - 1)).
Proof.
  intros Hb. pose proof (pow2_pos (b - 1) ltac:(lia)) as Hp. split.
  - intros Hr m Hm. destruct (Z_lt_ge_dec x 0) as [Hneg|Hpos].
    + assert (Hall : forall j, b - 1 <= j -> Z.testbit x j = true).
      { intros j Hj. replace x with (- (- x)) by lia. rewrite Z.bits_opp by lia.
        replace (Z.testbit (Z.pred (- x)) j) with false; [reflexivity|]. symmetry.
        destruct (Z.eq_dec (Z.pred (- x)) 0) as [->|Hz]; [apply Z.bits_0|].
        apply Z.bits_above_log2; [lia|]. apply Z.lt_le_trans with (b - 1); [apply Z.log2_lt_pow2; lia|lia]. }
      rewrite (Hall m Hm), (Hall (b - 1)) by lia. reflexivity.
    + assert (Hall : forall j, b - 1 <= j -> Z.testbit x j = false).
      { intros j Hj. destruct (Z.eq_dec x 0) as [->|Hz]; [apply Z.bits_0|].
        apply Z.bits_above_log2; [lia|]. apply Z.lt_le_trans with (b - 1); [apply Z.log2_lt_pow2; lia|lia]. }
      rewrite (Hall m Hm), (Hall (b - 1)) by lia. reflexivity.
  - intros Hbits. destruct (Z.testbit x (b - 1)) eqn:Hs.
    + (* all high bits set: negative *)
      assert (Hneg : x < 0).
      { apply Z.bits_iff_neg_ex. exists (b - 1). intros m Hm. rewrite Hbits by lia. reflexivity. }
      assert (Hy : Z.pred (- x) < 2 ^ (b - 1)).
      { apply lt_pow2_of_bits; [lia|lia|]. intros m Hm.
        assert (Hx : Z.testbit x m = true) by (rewrite Hbits by lia; reflexivity).
        replace x with (- (- x)) in Hx by lia. rewrite Z.bits_opp in Hx by lia. destruct (Z.testbit (Z.pred (- x)) m); [discriminate|reflexivity]. }
      lia.
    + assert (Hpos : 0 <= x).
      { apply Z.bits_iff_nonneg_ex. exists (b - 1). intros m Hm. rewrite Hbits by lia. reflexivity. }
      split; [lia|]. apply lt_pow2_of_bits; [lia|lia|]. intros m Hm. rewrite Hbits by lia. reflexivity.
Qed.

Lemma canon_lor k bits a b : 1 <= bits -> canon k bits a -> canon k bits b -> canon k bits (Z.lor a b).
Proof.
  intros Hb Ha Hc. rewrite canon_range in * by exact Hb. unfold cmin, cmax in *. destruct (signed_kind k).
  - assert (Hra : - 2 ^ (bits - 1) <= a < 2 ^ (bits - 1)) by lia. assert (Hrb : - 2 ^ (bits - 1) <= b < 2 ^ (bits - 1)) by lia.
    rewrite signed_range_bits in Hra, Hrb by exact Hb.
    assert (Hr : - 2 ^ (bits - 1) <= Z.lor a b < 2 ^ (bits - 1)).
    { apply signed_range_bits; [exact Hb|]. intros m Hm. rewrite !Z.lor_spec, (Hra m Hm), (Hrb m Hm). reflexivity. }
    lia.
  - pose proof (lor_range a b bits ltac:(lia) ltac:(lia) ltac:(lia)). lia.
Qed.

Lemma canon_0 k bits : 1 <= bits -> canon k bits 0.
Proof. intros Hb. apply canon_range; [exact Hb|]. unfold cmin, cmax. pose proof (pow2_pos (bits - 1) ltac:(lia)). pose proof (pow2_pos bits ltac:(lia)). destruct (signed_kind k); lia. Qed.

(** ---------- one byte of Parser::parse ---------- *)
Section ParseStep.
  Variables (k : ckind) (bits lh_st rh_en dlen len : Z).
  Hypothesis Hlh : 0 <= lh_st < 8.
  Hypothesis Hrh : 0 <= rh_en < 8.
  Hypothesis Hdlen : 1 <= dlen.
  Hypothesis Hsum : 8 * dlen = lh_st + len + rh_en.
  Hypothesis Hlen : 1 <= len <= bits.
  Hypothesis Hbits : 8 <= bits.

  Ltac usub_ok :=
    unfold usub; cbn [bind]; repeat match goal with |- context [if ?b <=? ?a then _ else _] => destruct (Z.leb_spec b a); [|lia]; cbn [bind] end.

  (** the bit of window byte i that bit m of the field value comes from *)
  Definition src_t (i m : Z) : Z := m - (len + lh_st - 8 * (i + 1)).

  Lemma testbit_masked d bset t : 0 <= d < 256 -> 0 <= t -> Z.testbit (Z.land d bset) t = Z.testbit d t && Z.testbit bset t.
  Proof. intros. apply Z.land_spec. Qed.

  Lemma parse_step_ok i d val : 0 <= i < dlen -> 0 <= d < 256 -> canon k bits val ->
    exists val', parse_step k bits lh_st rh_en dlen i d (lenlft_in lh_st len i) val = Ok (val', lenlft_out lh_st dlen len i) /\
                 canon k bits val' /\
                 forall m, 0 <= m < bits ->
                   Z.testbit val' m = Z.testbit val m ||
                     ((0 <=? src_t i m) && (src_t i m <? 8) && in_bset lh_st rh_en dlen i (src_t i m) && Z.testbit d (src_t i m)).
  Proof.
    intros Hi Hd Hcv. unfold parse_step, lenlft_in, lenlft_out, in_bset, src_t.
    assert (Hb1 : 1 <= bits) by lia.
    destruct (Z.eqb_spec i 0) as [F|F]; destruct (Z.eqb_spec i (dlen - 1)) as [L|L].
    - (* single byte *)
      usub_ok. unfold u8_cast.
      eexists. split; [f_equal; f_equal; lia|]. split; [apply canon_lor; [lia|exact Hcv|apply canon_wrapc; lia]|].
      intros m Hm. rewrite Z.lor_spec. f_equal. rewrite testbit_wrapc by lia.
      replace (rh_en - (len - (8 - lh_st - rh_en))) with rh_en by lia.
      rewrite Z.shiftr_spec by lia. rewrite !Z.land_spec.
      destruct (Z.leb_spec 0 (m - (len + lh_st - 8 * (i + 1)))) as [Hz0|Hz0]; [|lia].
      replace (m - (len + lh_st - 8 * (i + 1))) with (m + rh_en) by lia.
      destruct (Z.ltb_spec (m + rh_en) 8) as [Hz8|Hz8]; cbn [andb].
      + rewrite testbit_mask_r, testbit_mask_l by lia. destruct (Z.testbit d (m + rh_en)), (m + rh_en + lh_st <? 8), (rh_en <=? m + rh_en); reflexivity.
      + rewrite (testbit_byte_high d) by lia. reflexivity.
    - (* first of several bytes *)
      usub_ok. replace (len - (8 - lh_st) <=? 0) with false by lia. unfold u8_cast, shl.
      replace ((0 <=? len - (8 - lh_st) - 0) && (len - (8 - lh_st) - 0 <? bits)) with true by lia. cbn [bind].
      eexists. split; [f_equal; f_equal; lia|]. split; [apply canon_lor; [lia|exact Hcv|apply canon_wrapc; lia]|].
      intros m Hm. rewrite Z.lor_spec. f_equal. rewrite testbit_wrapc by lia.
      rewrite Z.mul_pow2_bits by lia.
      replace (m - (len + lh_st - 8 * (i + 1))) with (m - (len - (8 - lh_st) - 0)) by lia.
      set (t := m - (len - (8 - lh_st) - 0)).
      destruct (Z.leb_spec 0 t) as [Hz0|Hz0]; [|rewrite Z.testbit_neg_r by lia; reflexivity].
      rewrite testbit_wrapc by lia. rewrite Z.land_spec. cbn [andb].
      destruct (Z.ltb_spec t 8) as [Hz8|Hz8]; cbn [andb].
      + rewrite testbit_mask_r by lia. rewrite andb_true_r. destruct (Z.testbit d t), (t + lh_st <? 8); reflexivity.
      + rewrite (testbit_byte_high d) by lia. reflexivity.
    - (* last of several bytes *)
      usub_ok. unfold u8_cast.
      eexists. split; [f_equal; f_equal; lia|]. split; [apply canon_lor; [lia|exact Hcv|apply canon_wrapc; lia]|].
      intros m Hm. rewrite Z.lor_spec. f_equal. rewrite testbit_wrapc by lia.
      replace (rh_en - (len - 8 * i + lh_st - (8 - rh_en))) with rh_en by lia.
      rewrite Z.shiftr_spec by lia. rewrite Z.land_spec.
      destruct (Z.leb_spec 0 (m - (len + lh_st - 8 * (i + 1)))) as [Hz0|Hz0]; [|lia].
      replace (m - (len + lh_st - 8 * (i + 1))) with (m + rh_en) by lia.
      destruct (Z.ltb_spec (m + rh_en) 8) as [Hz8|Hz8]; cbn [andb].
      + rewrite testbit_mask_l by lia. destruct (Z.testbit d (m + rh_en)), (rh_en <=? m + rh_en); reflexivity.
      + rewrite (testbit_byte_high d) by lia. reflexivity.
    - (* a middle byte *)
      usub_ok. replace (len - 8 * i + lh_st - 8 <=? 0) with false by lia. unfold u8_cast, shl.
      replace ((0 <=? len - 8 * i + lh_st - 8 - 0) && (len - 8 * i + lh_st - 8 - 0 <? bits)) with true by lia. cbn [bind].
      eexists. split; [f_equal; f_equal; lia|]. split; [apply canon_lor; [lia|exact Hcv|apply canon_wrapc; lia]|].
      intros m Hm. rewrite Z.lor_spec. f_equal. rewrite testbit_wrapc by lia.
      rewrite Z.mul_pow2_bits by lia.
      replace (m - (len + lh_st - 8 * (i + 1))) with (m - (len - 8 * i + lh_st - 8 - 0)) by lia.
      set (t := m - (len - 8 * i + lh_st - 8 - 0)).
      destruct (Z.leb_spec 0 t) as [Hz0|Hz0]; [|rewrite Z.testbit_neg_r by lia; reflexivity].
      rewrite testbit_wrapc by lia. cbn [andb].
      destruct (Z.ltb_spec t 8) as [Hz8|Hz8]; cbn [andb]; [reflexivity|].
      rewrite (testbit_byte_high d) by lia. reflexivity.
  Qed.
End ParseStep.

(** ---------- the loop of Parser::parse ---------- *)
Section ParseLoop.
  Variables (k : ckind) (bits lh_st rh_en dlen len offset : Z) (sti : nat) (data : list Z).
  Hypothesis Hlh : 0 <= lh_st < 8.
  Hypothesis Hrh : 0 <= rh_en < 8.
  Hypothesis Hdlen : 1 <= dlen.
  Hypothesis Hsum : 8 * dlen = lh_st + len + rh_en.
  Hypothesis Hlen : 1 <= len <= bits.
  Hypothesis Hbits : 8 <= bits.
  Hypothesis Hoff : offset = 8 * Z.of_nat sti + lh_st.
  Hypothesis Hwin : (sti + Z.to_nat dlen <= length data)%nat.
  Hypothesis Hb : bytes_ok data = true.

  Definition src (m : Z) : bool := bitat data (offset + len - 1 - m).

  (** bits [lo, len) of the value have been read so far *)
  Definition filled (lo val : Z) : Prop :=
    canon k bits val /\ forall m, 0 <= m < bits -> Z.testbit val m = (lo <=? m) && (m <? len) && src m.

  Lemma src_byte i m : 0 <= i < dlen -> 0 <= m ->
    0 <= src_t lh_st len i m < 8 ->
    Z.testbit (nth (sti + Z.to_nat i) data 0) (src_t lh_st len i m) = src m.
  Proof.
    intros Hi Hm Ht. unfold src, bitat, znth, src_t in *.
    set (g := offset + len - 1 - m).
    assert (Hg : g = 8 * (Z.of_nat sti + i) + (7 - (m - (len + lh_st - 8 * (i + 1))))) by (unfold g; lia).
    assert (Hq : g / 8 = Z.of_nat sti + i) by (symmetry; apply Z.div_unique with (7 - (m - (len + lh_st - 8 * (i + 1)))); lia).
    assert (Hr : g mod 8 = 7 - (m - (len + lh_st - 8 * (i + 1)))) by (symmetry; apply Z.mod_unique with (Z.of_nat sti + i); lia).
    rewrite Hq, Hr. f_equal; [f_equal; lia|lia].
  Qed.

  Lemma window_cond i m : 0 <= i < dlen -> 0 <= m ->
    (0 <=? src_t lh_st len i m) && (src_t lh_st len i m <? 8) && in_bset lh_st rh_en dlen i (src_t lh_st len i m)
    = (lenlft_out lh_st dlen len i <=? m) && (m <? lenlft_in lh_st len i).
  Proof.
    intros Hi Hm. unfold src_t, in_bset, lenlft_out, lenlft_in.
    destruct (Z.eqb_spec i 0), (Z.eqb_spec i (dlen - 1));
      repeat match goal with |- context [?a <=? ?b] => destruct (Z.leb_spec a b) | |- context [?a <? ?b] => destruct (Z.ltb_spec a b) end;
      cbn [andb]; try reflexivity; lia.
  Qed.

  Lemma lenlft_bounds i : 0 <= i < dlen -> 0 <= lenlft_out lh_st dlen len i <= lenlft_in lh_st len i /\ lenlft_in lh_st len i <= len.
  Proof. intros Hi. unfold lenlft_out, lenlft_in. destruct (Z.eqb_spec i 0), (Z.eqb_spec i (dlen - 1)); lia. Qed.

  Lemma parse_loop_spec : forall n i val, Z.of_nat n = dlen - i -> 0 <= i ->
    filled (lenlft_in lh_st len i) val ->
    exists v, parse_loop k bits lh_st rh_en dlen sti n i data (lenlft_in lh_st len i) val = Ok v /\
              (n = O -> v = val) /\ ((0 < n)%nat -> filled 0 v).
  Proof.
    induction n as [|n IH]; intros i val Hn Hi Hf.
    - exists val. cbn [parse_loop]. split; [reflexivity|]. split; [reflexivity|lia].
    - cbn [parse_loop]. set (j0 := (sti + Z.to_nat i)%nat).
      assert (Hj0 : (j0 < length data)%nat) by (unfold j0; lia).
      rewrite (nth_error_nth data j0 Hj0).
      destruct Hf as [Hcv Hfb].
      destruct (parse_step_ok k bits lh_st rh_en dlen len Hlh Hrh Hsum Hlen Hbits i (nth j0 data 0) val ltac:(lia) (bytes_ok_nth data j0 Hb) Hcv)
        as [val' [Hstep [Hcv' Hbits']]].
      rewrite Hstep. cbn [bind].
      assert (Hf' : filled (lenlft_out lh_st dlen len i) val').
      { split; [exact Hcv'|]. intros m Hm. rewrite (Hbits' m Hm), (Hfb m Hm).
        rewrite (window_cond i m) by lia.
        destruct (lenlft_bounds i ltac:(lia)) as [[B0 B1] B2].
        destruct (Z.leb_spec (lenlft_out lh_st dlen len i) m) as [Hlo|Hlo]; destruct (Z.ltb_spec m (lenlft_in lh_st len i)) as [Hhi|Hhi]; cbn [andb].
        - (* this byte supplies bit m *)
          replace (lenlft_in lh_st len i <=? m) with false by lia. cbn [andb orb].
          replace (m <? len) with true by lia. cbn [andb].
          assert (Hc := window_cond i m ltac:(lia) ltac:(lia)).
          replace ((lenlft_out lh_st dlen len i <=? m) && (m <? lenlft_in lh_st len i)) with true in Hc by lia.
          apply andb_true_iff in Hc. destruct Hc as [Hc _]. apply andb_true_iff in Hc. destruct Hc as [Hc1 Hc2].
          apply src_byte; lia.
        - replace (lenlft_in lh_st len i <=? m) with true by lia. rewrite orb_false_r. reflexivity.
        - replace (lenlft_in lh_st len i <=? m) with false by lia. reflexivity.
        - lia. }
      destruct n as [|n'].
      + cbn [parse_loop]. exists val'. split; [reflexivity|]. split; [discriminate|]. intros _.
        assert (Hil : i = dlen - 1) by lia.
        replace 0 with (lenlft_out lh_st dlen len i); [exact Hf'|]. unfold lenlft_out. destruct (Z.eqb_spec i (dlen - 1)); lia.
      + assert (Hil : 0 <= i < dlen - 1) by lia.
        rewrite (lenlft_step lh_st dlen len i Hil) in *.
        destruct (IH (i + 1) val' ltac:(lia) ltac:(lia) Hf') as [v [Hloop [_ Hfin]]].
        exists v. split; [exact Hloop|]. split; [discriminate|]. intros _. apply Hfin. lia.
  Qed.
End ParseLoop.

(** ---------- Parser::parse ---------- *)
Theorem parse_bits k bits data offset len :
  8 <= bits -> 1 <= len <= bits -> 0 <= offset -> offset + len <= 8 * zlen data -> bytes_ok data = true ->
  exists v, canon k bits v /\
            (forall m, 0 <= m < bits -> Z.testbit v m = (m <? len) && bitat data (offset + len - 1 - m)) /\
            parse k bits data offset len = (r <- sign_fix k bits v len ;; Ok (r, offset + len)).
Proof.
  intros Hbits Hlen Ho Hfit Hb. unfold parse.
  destruct (Z.ltb_spec (zlen data * 8) (offset + len)) as [Hlt|_]; [lia|].
  destruct (window_arith offset len Ho ltac:(lia)) as [Hlh [Hrh [Hdlen [Hsum Hoff]]]].
  set (lh_st := offset mod 8) in *. set (rh_en := (8 - (offset + len) mod 8) mod 8) in *.
  set (sti := offset / 8) in *. set (dlen := (offset + len - 1) / 8 - sti + 1) in *.
  unfold usub. destruct (Z.leb_spec 1 (offset + len)) as [_|Hc]; [|lia]. cbn [bind].
  change ((offset + len - 1) / 8 - sti + 1) with dlen.
  assert (Hsti : 0 <= sti) by (unfold sti; apply Z.div_pos; lia).
  assert (Hwin : (Z.to_nat sti + Z.to_nat dlen <= length data)%nat).
  { unfold zlen in Hfit. assert (8 * (sti + dlen) <= 8 * Z.of_nat (length data)) by lia. lia. }
  assert (Hoff' : offset = 8 * Z.of_nat (Z.to_nat sti) + lh_st) by lia.
  assert (Hf0 : filled k bits len offset data (lenlft_in lh_st len 0) 0).
  { split; [apply canon_0; lia|]. intros m Hm. rewrite Z.bits_0. change (lenlft_in lh_st len 0) with len.
    destruct (Z.leb_spec len m), (Z.ltb_spec m len); cbn [andb]; try reflexivity; lia. }
  destruct (parse_loop_spec k bits lh_st rh_en dlen len offset (Z.to_nat sti) data Hlh Hrh Hdlen Hsum Hlen Hbits Hoff' Hwin Hb
              (Z.to_nat dlen) 0 0 ltac:(lia) ltac:(lia) Hf0) as [v [Hloop [_ Hfin]]].
  change (lenlft_in lh_st len 0) with len in Hloop. rewrite Hloop. cbn [bind].
  destruct (Hfin ltac:(lia)) as [Hcv Hbitsv].
  exists v. split; [exact Hcv|]. split; [|reflexivity].
  intros m Hm. rewrite (Hbitsv m Hm). replace (0 <=? m) with true by lia. reflexivity.
Qed.

Theorem parse_overflow k bits data offset len :
  8 * zlen data < offset + len -> parse k bits data offset len = Err BufferOverflow.
Proof. intros H. unfold parse. destruct (Z.ltb_spec (zlen data * 8) (offset + len)); [reflexivity|lia]. Qed.

(** ---------- sign handling: BitValue::sign_fix / sign_fix_rev ---------- *)
Definition representable (k : ckind) (len v : Z) : Prop :=
  match k with
  | KU => 0 <= v < 2 ^ len
  | KI => - 2 ^ (len - 1) <= v < 2 ^ (len - 1)
  | KSM => - (2 ^ (len - 1) - 1) <= v <= 2 ^ (len - 1) - 1
  end.

Lemma mod_eq_of_bits a b n : 0 <= n -> (forall m, 0 <= m < n -> Z.testbit a m = Z.testbit b m) -> a mod 2 ^ n = b mod 2 ^ n.
Proof.
  intros Hn H. apply Z.bits_inj'. intros m Hm. destruct (Z_lt_ge_dec m n).
  - rewrite !Z.mod_pow2_bits_low by lia. apply H. lia.
  - rewrite !Z.mod_pow2_bits_high by lia. reflexivity.
Qed.

Lemma canon_eq k bits a b : 0 < bits -> canon k bits a -> canon k bits b -> a mod 2 ^ bits = b mod 2 ^ bits -> a = b.
Proof. intros Hb Ha Hc H. rewrite <- Ha, <- Hc. apply wrapc_congr. exact H. Qed.

Lemma canon_eq_bits k bits a b : 0 < bits -> canon k bits a -> canon k bits b ->
  (forall m, 0 <= m < bits -> Z.testbit a m = Z.testbit b m) -> a = b.
Proof. intros Hb Ha Hc H. apply (canon_eq k bits); try assumption. apply mod_eq_of_bits; [lia|exact H]. Qed.

Lemma testbit_small x n m : 0 <= x < 2 ^ n -> n <= m -> Z.testbit x m = false.
Proof.
  intros Hx Hm. destruct (Z.eq_dec x 0) as [->|Hz]; [apply Z.bits_0|].
  assert (0 <= n) by (destruct (Z_lt_ge_dec n 0); [rewrite Z.pow_neg_r in Hx by lia; lia|lia]).
  apply Z.bits_above_log2; [lia|]. apply Z.lt_le_trans with n; [apply Z.log2_lt_pow2; lia|lia].
Qed.

Lemma land_pow2_test a n : 0 <= n -> (Z.land a (2 ^ n) =? 0) = negb (Z.testbit a n).
Proof.
  intros Hn. destruct (Z.testbit a n) eqn:E; cbn [negb].
  - apply Z.eqb_neq. intros H0. assert (Hb : Z.testbit (Z.land a (2 ^ n)) n = true) by (rewrite Z.land_spec, E, Z.pow2_bits_true by lia; reflexivity).
    rewrite H0, Z.bits_0 in Hb. discriminate.
  - apply Z.eqb_eq. apply Z.bits_inj'. intros m Hm. rewrite Z.land_spec, Z.bits_0, Z.pow2_bits_eqb by lia.
    destruct (Z.eqb_spec n m) as [<-|]; [rewrite E; reflexivity|apply andb_false_r].
Qed.

Lemma shl_eq k bits v n : 0 <= n < bits -> shl k bits v n = Ok (wrapc k bits (v * 2 ^ n)).
Proof. intros H. unfold shl. replace ((0 <=? n) && (n <? bits)) with true by lia. reflexivity. Qed.

Lemma wrapc_in_range k bits x : 1 <= bits -> cmin k bits <= x <= cmax k bits -> wrapc k bits x = x.
Proof. intros Hb Hr. apply canon_range; assumption. Qed.

Lemma pow2_half n : 1 <= n -> 2 ^ n = 2 * 2 ^ (n - 1).
Proof. intros. replace n with (1 + (n - 1)) at 1 by lia. rewrite Z.pow_add_r by lia. reflexivity. Qed.

Lemma pow2_le_mono a b : 0 <= a <= b -> 2 ^ a <= 2 ^ b.
Proof. intros. apply Z.pow_le_mono_r; lia. Qed.

(** the sign-fixed value handed to the writer has the right low bits; stated per kind below *)
Lemma sign_fix_rev_ku bits v len : sign_fix_rev KU bits v len = Ok v.
Proof. reflexivity. Qed.
Lemma sign_fix_rev_ki bits v len : sign_fix_rev KI bits v len = Ok v.
Proof. reflexivity. Qed.

Lemma lnot_neg_pow2 n : 0 <= n -> Z.lnot (- 2 ^ n) = Z.ones n.
Proof. intros. unfold Z.lnot. rewrite Z.ones_equiv. f_equal. lia. Qed.

Lemma sign_fix_rev_ksm bits v len : 8 <= bits -> 1 <= len <= bits -> representable KSM len v ->
  exists v', sign_fix_rev KSM bits v len = Ok v' /\
             (forall m, 0 <= m < len -> Z.testbit v' m = if m =? len - 1 then (v <? 0) else Z.testbit (Z.abs v) m).
Proof.
  intros Hb Hl Hr. cbn [representable] in Hr. unfold sign_fix_rev, usub.
  destruct (Z.leb_spec 1 len) as [_|]; [|lia]. cbn [bind]. rewrite shl_eq by lia. cbn [bind].
  pose proof (pow2_pos (len - 1) ltac:(lia)) as Hp. pose proof (pow2_le_mono (len - 1) (bits - 1) ltac:(lia)) as Hle.
  pose proof (pow2_half bits ltac:(lia)) as Hh.
  assert (Hm : wrapc KSM bits (-1 * 2 ^ (len - 1)) = - 2 ^ (len - 1)).
  { replace (-1 * 2 ^ (len - 1)) with (- 2 ^ (len - 1)) by ring. apply wrapc_in_range; [lia|]. unfold cmin, cmax. cbn [signed_kind]. lia. }
  rewrite Hm, lnot_neg_pow2 by lia.
  destruct (Z.leb_spec 0 v) as [Hpos|Hneg].
  - eexists. split; [reflexivity|]. intros m Hmm. rewrite Z.land_ones by lia. rewrite Z.mod_small by lia.
    replace (v <? 0) with false by lia. rewrite Z.abs_eq by lia.
    destruct (Z.eqb_spec m (len - 1)) as [->|]; [apply (testbit_small v (len - 1)); lia|reflexivity].
  - assert (Hw : wrapc KSM bits (- v) = - v) by (apply wrapc_in_range; [lia|]; unfold cmin, cmax; cbn [signed_kind]; lia).
    rewrite Hw. rewrite Z.land_ones by lia. rewrite (Z.mod_small (- v)) by lia.
    destruct (Z.eqb_spec (- v) 0); [lia|]. rewrite shl_eq by lia. cbn [bind].
    eexists. split; [reflexivity|]. intros m Hmm. rewrite Z.lor_spec, testbit_wrapc by lia.
    replace (1 * 2 ^ (len - 1)) with (2 ^ (len - 1)) by ring. rewrite Z.pow2_bits_eqb by lia.
    replace (v <? 0) with true by lia. replace (Z.abs v) with (- v) by lia.
    destruct (Z.eqb_spec m (len - 1)) as [->|Hne].
    + rewrite Z.eqb_refl. apply orb_true_r.
    + replace (len - 1 =? m) with false by lia. apply orb_false_r.
Qed.

Lemma testbit_mod_pow2 a n m : 0 <= n -> 0 <= m -> Z.testbit (a mod 2 ^ n) m = (m <? n) && Z.testbit a m.
Proof.
  intros Hn Hm. destruct (Z.ltb_spec m n); cbn [andb]; [apply Z.mod_pow2_bits_low; lia|apply Z.mod_pow2_bits_high; lia].
Qed.

Lemma sign_fix_roundtrip_ku bits value len v : 8 <= bits -> 1 <= len <= bits -> 0 <= value < 2 ^ len ->
  canon KU bits v -> (forall m, 0 <= m < bits -> Z.testbit v m = (m <? len) && Z.testbit value m) ->
  sign_fix KU bits v len = Ok value.
Proof.
  intros Hb Hl Hr Hc Hbits. cbn [sign_fix]. f_equal.
  apply (canon_eq_bits KU bits); [lia|exact Hc| |].
  - apply canon_range; [lia|]. unfold cmin, cmax. cbn [signed_kind]. pose proof (pow2_le_mono len bits ltac:(lia)). lia.
  - intros m Hm. rewrite (Hbits m Hm). destruct (Z.ltb_spec m len); cbn [andb]; [reflexivity|].
    symmetry. apply (testbit_small value len); lia.
Qed.

Lemma testbit_sign_nonneg x n : 0 <= n -> 0 <= x < 2 ^ n -> Z.testbit x n = false.
Proof. intros. apply (testbit_small x n); lia. Qed.

Lemma testbit_sign_neg x n : 0 <= n -> - 2 ^ n <= x < 0 -> Z.testbit x n = true.
Proof.
  intros Hn Hx. replace x with (- (- x)) by lia. rewrite Z.bits_opp by lia.
  replace (Z.testbit (Z.pred (- x)) n) with false; [reflexivity|]. symmetry. apply (testbit_small (Z.pred (- x)) n); lia.
Qed.

Lemma sign_fix_roundtrip_ki bits value len v : 8 <= bits -> 1 <= len <= bits -> - 2 ^ (len - 1) <= value < 2 ^ (len - 1) ->
  canon KI bits v -> (forall m, 0 <= m < bits -> Z.testbit v m = (m <? len) && Z.testbit value m) ->
  sign_fix KI bits v len = Ok value.
Proof.
  intros Hb Hl Hr Hc Hbits. cbn [sign_fix]. unfold usub. destruct (Z.leb_spec 1 len) as [_|]; [|lia]. cbn [bind].
  rewrite shl_eq by lia. cbn [bind].
  pose proof (pow2_pos (len - 1) ltac:(lia)) as Hp. pose proof (pow2_half len ltac:(lia)) as Hhl. pose proof (pow2_half bits ltac:(lia)) as Hhb.
  destruct (Z.eqb_spec len bits) as [Heq|Hne].
  - (* full width: the carrier value itself *)
    rewrite orb_true_r. f_equal. subst len.
    apply (canon_eq_bits KI bits); [lia|exact Hc| |].
    + apply canon_range; [lia|]. unfold cmin, cmax. cbn [signed_kind]. lia.
    + intros m Hm. rewrite (Hbits m Hm). replace (m <? bits) with true by lia. reflexivity.
  - assert (Hlt : len < bits) by lia. rewrite orb_false_r.
    pose proof (pow2_le_mono len (bits - 1) ltac:(lia)) as Hle.
    assert (Hone : wrapc KI bits (1 * 2 ^ (len - 1)) = 2 ^ (len - 1)).
    { replace (1 * 2 ^ (len - 1)) with (2 ^ (len - 1)) by ring. apply wrapc_in_range; [lia|]. unfold cmin, cmax. cbn [signed_kind]. lia. }
    rewrite Hone. rewrite land_pow2_test by lia. rewrite (Hbits (len - 1)) by lia. replace (len - 1 <? len) with true by lia. cbn [andb].
    assert (Hv : v = value mod 2 ^ len).
    { apply (canon_eq_bits KI bits); [lia|exact Hc| |].
      - apply canon_range; [lia|]. unfold cmin, cmax. cbn [signed_kind]. pose proof (Z.mod_pos_bound value (2 ^ len) ltac:(lia)). lia.
      - intros m Hm. rewrite (Hbits m Hm). rewrite testbit_mod_pow2 by lia. reflexivity. }
    destruct (Z_lt_ge_dec value 0) as [Hneg|Hpos].
    + rewrite (testbit_sign_neg value (len - 1)) by lia. cbn [negb]. rewrite shl_eq by lia. cbn [bind]. f_equal.
      assert (Hm : wrapc KI bits (-1 * 2 ^ len) = -1 * 2 ^ len).
      { apply wrapc_in_range; [lia|]. unfold cmin, cmax. cbn [signed_kind]. lia. }
      rewrite Hm, Z.lor_comm. rewrite lor_disjoint by (try lia; rewrite Hv; apply Z.mod_pos_bound; lia).
      rewrite Hv. assert (E : value mod 2 ^ len = value + 2 ^ len) by (symmetry; apply Z.mod_unique with (-1); lia). lia.
    + rewrite (testbit_sign_nonneg value (len - 1)) by lia. cbn [negb]. f_equal. rewrite Hv. apply Z.mod_small. lia.
Qed.

Lemma land_sign_test bits v len : 8 <= bits -> 1 <= len <= bits -> canon KSM bits v ->
  (Z.land v (wrapc KSM bits (1 * 2 ^ (len - 1))) =? 0) = negb (Z.testbit v (len - 1)).
Proof.
  intros Hb Hl Hc. replace (1 * 2 ^ (len - 1)) with (2 ^ (len - 1)) by ring.
  pose proof (pow2_pos (len - 1) ltac:(lia)) as Hp. pose proof (pow2_half bits ltac:(lia)) as Hhb.
  destruct (Z.eq_dec len bits) as [Heq|Hne].
  - (* the sign bit is the carrier's own sign bit: one = -2^(bits-1) *)
    subst len.
    assert (Hone : wrapc KSM bits (2 ^ (bits - 1)) = - 2 ^ (bits - 1)).
    { unfold wrapc. cbn [signed_kind andb]. rewrite Z.mod_small by lia. destruct (Z.leb_spec (2 ^ (bits - 1)) (2 ^ (bits - 1))); lia. }
    rewrite Hone.
    apply canon_range in Hc; [|lia]. unfold cmin, cmax in Hc. cbn [signed_kind] in Hc.
    destruct (Z_lt_ge_dec v 0) as [Hneg|Hpos].
    + rewrite (testbit_sign_neg v (bits - 1)) by lia. cbn [negb]. apply Z.eqb_neq. intros H0.
      assert (Hbt : Z.testbit (Z.land v (- 2 ^ (bits - 1))) (bits - 1) = true).
      { rewrite Z.land_spec, (testbit_sign_neg v (bits - 1)), (testbit_sign_neg (- 2 ^ (bits - 1)) (bits - 1)) by lia. reflexivity. }
      rewrite H0, Z.bits_0 in Hbt. discriminate.
    + rewrite (testbit_sign_nonneg v (bits - 1)) by lia. cbn [negb]. apply Z.eqb_eq. apply Z.bits_inj'. intros m Hm.
      rewrite Z.land_spec, Z.bits_0. destruct (Z_lt_ge_dec m (bits - 1)).
      * replace (- 2 ^ (bits - 1)) with ((-1) * 2 ^ (bits - 1)) by ring. rewrite Z.mul_pow2_bits_low by lia. apply andb_false_r.
      * rewrite (testbit_small v (bits - 1)) by lia. reflexivity.
  - pose proof (pow2_le_mono (len - 1) (bits - 2) ltac:(lia)) as Hle.
    assert (Hh2 : 2 ^ (bits - 1) = 2 * 2 ^ (bits - 2)) by (replace (bits - 2) with (bits - 1 - 1) by lia; apply pow2_half; lia).
    rewrite wrapc_in_range by (try lia; unfold cmin, cmax; cbn [signed_kind]; lia).
    apply land_pow2_test. lia.
Qed.

Lemma sign_fix_roundtrip_ksm bits value len value' v : 8 <= bits -> 1 <= len <= bits -> representable KSM len value ->
  (forall m, 0 <= m < len -> Z.testbit value' m = if m =? len - 1 then (value <? 0) else Z.testbit (Z.abs value) m) ->
  canon KSM bits v -> (forall m, 0 <= m < bits -> Z.testbit v m = (m <? len) && Z.testbit value' m) ->
  sign_fix KSM bits v len = Ok value.
Proof.
  intros Hb Hl Hr Hv' Hc Hbits. cbn [representable] in Hr. cbn [sign_fix]. unfold usub. destruct (Z.leb_spec 1 len) as [_|]; [|lia]. cbn [bind].
  rewrite shl_eq by lia. cbn [bind]. rewrite land_sign_test by assumption.
  rewrite (Hbits (len - 1)) by lia. replace (len - 1 <? len) with true by lia. cbn [andb].
  rewrite (Hv' (len - 1)) by lia. rewrite Z.eqb_refl.
  pose proof (pow2_pos (len - 1) ltac:(lia)) as Hp. pose proof (pow2_le_mono (len - 1) (bits - 1) ltac:(lia)) as Hle.
  pose proof (pow2_half bits ltac:(lia)) as Hhb.
  (* the magnitude is what the low len-1 bits of v hold *)
  assert (Hmag : v mod 2 ^ (len - 1) = Z.abs value).
  { rewrite <- (Z.mod_small (Z.abs value) (2 ^ (len - 1))) by lia. apply mod_eq_of_bits; [lia|]. intros m Hm.
    rewrite (Hbits m) by lia. replace (m <? len) with true by lia. cbn [andb]. rewrite (Hv' m) by lia.
    replace (m =? len - 1) with false by lia. reflexivity. }
  destruct (Z.ltb_spec value 0) as [Hneg|Hpos]; cbn [negb].
  - rewrite shl_eq by lia. cbn [bind].
    assert (Hm : wrapc KSM bits (-1 * 2 ^ (len - 1)) = - 2 ^ (len - 1)).
    { replace (-1 * 2 ^ (len - 1)) with (- 2 ^ (len - 1)) by ring. apply wrapc_in_range; [lia|]. unfold cmin, cmax. cbn [signed_kind]. lia. }
    rewrite Hm, lnot_neg_pow2 by lia. rewrite Z.land_ones by lia. rewrite Hmag.
    replace (-1 * Z.abs value) with value by lia.
    replace (in_carrier KSM bits value) with true; [reflexivity|]. symmetry. unfold in_carrier, cmin, cmax. cbn [signed_kind]. lia.
  - f_equal. apply (canon_eq_bits KSM bits); [lia|exact Hc| |].
    + apply canon_range; [lia|]. unfold cmin, cmax. cbn [signed_kind]. lia.
    + intros m Hm. rewrite (Hbits m Hm). destruct (Z.ltb_spec m len) as [Hml|Hml]; cbn [andb].
      * rewrite (Hv' m) by lia. destruct (Z.eqb_spec m (len - 1)) as [->|Hne].
        -- replace (value <? 0) with false by lia. symmetry. apply (testbit_small value (len - 1)); lia.
        -- rewrite Z.abs_eq by lia. reflexivity.
      * symmetry. apply (testbit_small value (len - 1)); lia.
Qed.

(** ---------- reading back what was written ---------- *)
Theorem put_parse_roundtrip k bits data offset value len :
  8 <= bits -> 1 <= len <= bits -> 0 <= offset -> offset + len <= 8 * zlen data -> bytes_ok data = true ->
  representable k len value ->
  exists data', put k bits data offset value len = Ok (data', offset + len) /\
                parse k bits data' offset len = Ok (value, offset + len).
Proof.
  intros Hb Hl Ho Hfit Hbd Hr.
  assert (Hsfr : exists value', sign_fix_rev k bits value len = Ok value' /\
                   forall v, canon k bits v -> (forall m, 0 <= m < bits -> Z.testbit v m = (m <? len) && Z.testbit value' m) ->
                             sign_fix k bits v len = Ok value).
  { destruct k.
    - exists value. split; [reflexivity|]. intros v Hc Hv. apply sign_fix_roundtrip_ku; assumption.
    - exists value. split; [reflexivity|]. intros v Hc Hv. apply sign_fix_roundtrip_ki; assumption.
    - destruct (sign_fix_rev_ksm bits value len Hb Hl Hr) as [value' [E Hv']]. exists value'. split; [exact E|].
      intros v Hc Hv. eapply sign_fix_roundtrip_ksm; eassumption. }
  destruct Hsfr as [value' [Hsfr Hfix]].
  destruct (put_bits k bits data offset value len value' Hb Hl Ho Hfit Hbd Hsfr) as [data' [Hput [Hz [Hbd' Hspec]]]].
  exists data'. split; [exact Hput|].
  destruct (parse_bits k bits data' offset len Hb Hl Ho ltac:(lia) Hbd') as [v [Hc [Hv Hparse]]].
  rewrite Hparse. rewrite (Hfix v Hc); [reflexivity|].
  intros m Hm. rewrite (Hv m Hm). destruct (Z.ltb_spec m len) as [Hml|Hml]; cbn [andb]; [|reflexivity].
  rewrite Hspec by lia. replace ((offset <=? offset + len - 1 - m) && (offset + len - 1 - m <? offset + len)) with true by lia.
  f_equal. lia.
Qed.

(** reading never panics *)
Lemma sign_fix_no_panic k bits v len : 8 <= bits -> 1 <= len <= bits -> canon k bits v -> sign_fix k bits v len <> Panic.
Proof.
  intros Hb Hl Hc. destruct k; cbn [sign_fix]; unfold usub.
  - discriminate.
  - destruct (Z.leb_spec 1 len) as [_|]; [|lia]. cbn [bind]. rewrite shl_eq by lia. cbn [bind].
    destruct (Z.eqb_spec len bits); [rewrite orb_true_r; discriminate|]. rewrite orb_false_r.
    destruct (_ =? 0); [discriminate|]. rewrite shl_eq by lia. discriminate.
  - destruct (Z.leb_spec 1 len) as [_|]; [|lia]. cbn [bind]. rewrite shl_eq by lia. cbn [bind].
    destruct (_ =? 0); [discriminate|]. rewrite shl_eq by lia. cbn [bind].
    pose proof (pow2_pos (len - 1) ltac:(lia)) as Hp. pose proof (pow2_le_mono (len - 1) (bits - 1) ltac:(lia)) as Hle.
    assert (Hm : wrapc KSM bits (-1 * 2 ^ (len - 1)) = - 2 ^ (len - 1)).
    { replace (-1 * 2 ^ (len - 1)) with (- 2 ^ (len - 1)) by ring. apply wrapc_in_range; [lia|]. unfold cmin, cmax. cbn [signed_kind]. lia. }
    rewrite Hm, lnot_neg_pow2 by lia. rewrite Z.land_ones by lia.
    pose proof (Z.mod_pos_bound v (2 ^ (len - 1)) ltac:(lia)).
    replace (in_carrier KSM bits (-1 * (v mod 2 ^ (len - 1)))) with true; [discriminate|].
    symmetry. unfold in_carrier, cmin, cmax. cbn [signed_kind]. lia.
Qed.

Theorem parse_no_panic k bits data offset len :
  8 <= bits -> 1 <= len <= bits -> 0 <= offset -> bytes_ok data = true -> parse k bits data offset len <> Panic.
Proof.
  intros Hb Hl Ho Hbd. destruct (Z_lt_ge_dec (8 * zlen data) (offset + len)) as [Hov|Hfit].
  - rewrite parse_overflow by exact Hov. discriminate.
  - destruct (parse_bits k bits data offset len Hb Hl Ho ltac:(lia) Hbd) as [v [Hc [_ Hparse]]]. rewrite Hparse.
    pose proof (sign_fix_no_panic k bits v len Hb Hl Hc). destruct (sign_fix k bits v len); [discriminate|discriminate|contradiction].
Qed.

(** writing never panics either, for any value of the carrier type *)
Lemma sign_fix_rev_no_panic k bits v len : 8 <= bits -> 1 <= len <= bits -> exists v', sign_fix_rev k bits v len = Ok v'.
Proof.
  intros Hb Hl. destruct k; cbn [sign_fix_rev]; try (eexists; reflexivity).
  unfold usub. destruct (Z.leb_spec 1 len) as [_|]; [|lia]. cbn [bind]. rewrite shl_eq by lia. cbn [bind].
  destruct (0 <=? v); [eexists; reflexivity|]. destruct (_ =? 0); [eexists; reflexivity|]. rewrite shl_eq by lia. eexists. reflexivity.
Qed.

Theorem put_no_panic k bits data offset value len :
  8 <= bits -> 1 <= len <= bits -> 0 <= offset -> bytes_ok data = true -> put k bits data offset value len <> Panic.
Proof.
  intros Hb Hl Ho Hbd. destruct (Z_lt_ge_dec (8 * zlen data) (offset + len)) as [Hov|Hfit].
  - rewrite put_overflow by exact Hov. discriminate.
  - destruct (sign_fix_rev_no_panic k bits value len Hb Hl) as [v' Hv'].
    destruct (put_bits k bits data offset value len v' Hb Hl Ho ltac:(lia) Hbd Hv') as [d' [E _]]. rewrite E. discriminate.
Qed.

(** ---------- the range of what Parser::parse returns ---------- *)
Lemma sign_fix_range k bits v len r : 8 <= bits -> 1 <= len <= bits -> canon k bits v ->
  (forall m, len <= m < bits -> Z.testbit v m = false) ->
  sign_fix k bits v len = Ok r -> representable k len r.
Proof.
  intros Hb Hl Hc Hhigh H.
  pose proof (pow2_pos (len - 1) ltac:(lia)) as Hp. pose proof (pow2_half len ltac:(lia)) as Hhl. pose proof (pow2_half bits ltac:(lia)) as Hhb.
  (* v mod 2^bits is below 2^len *)
  assert (Hu : v mod 2 ^ bits < 2 ^ len).
  { apply lt_pow2_of_bits; [apply Z.mod_pos_bound; lia|lia|]. intros m Hm. rewrite testbit_mod_pow2 by lia.
    destruct (Z.ltb_spec m bits); cbn [andb]; [apply Hhigh; lia|reflexivity]. }
  pose proof (Z.mod_pos_bound v (2 ^ bits) ltac:(lia)) as Hmod.
  destruct k; cbn [sign_fix representable] in *.
  - inversion H; subst r. apply canon_range in Hc; [|lia]. unfold cmin, cmax in Hc. cbn [signed_kind] in Hc.
    rewrite Z.mod_small in Hu by lia. lia.
  - unfold usub in H. destruct (Z.leb_spec 1 len) as [_|]; [|lia]. cbn [bind] in H. rewrite shl_eq in H by lia. cbn [bind] in H.
    destruct (Z.eqb_spec len bits) as [Heq|Hne].
    + rewrite orb_true_r in H. inversion H; subst r. subst len. apply canon_range in Hc; [|lia]. unfold cmin, cmax in Hc. cbn [signed_kind] in Hc. lia.
    + assert (Hlt : len < bits) by lia. pose proof (pow2_le_mono len (bits - 1) ltac:(lia)) as Hle.
      assert (Hv : v = v mod 2 ^ bits).
      { apply (canon_eq KI bits); [lia|exact Hc| |rewrite Z.mod_mod by lia; reflexivity].
        apply canon_range; [lia|]. unfold cmin, cmax. cbn [signed_kind]. lia. }
      rewrite orb_false_r in H.
      assert (Hone : wrapc KI bits (1 * 2 ^ (len - 1)) = 2 ^ (len - 1)).
      { replace (1 * 2 ^ (len - 1)) with (2 ^ (len - 1)) by ring. apply wrapc_in_range; [lia|]. unfold cmin, cmax. cbn [signed_kind]. lia. }
      rewrite Hone, land_pow2_test in H by lia.
      destruct (Z.testbit v (len - 1)) eqn:Eb; cbn [negb] in H.
      * rewrite shl_eq in H by lia. cbn [bind] in H. inversion H; subst r.
        assert (Hm : wrapc KI bits (-1 * 2 ^ len) = -1 * 2 ^ len) by (apply wrapc_in_range; [lia|]; unfold cmin, cmax; cbn [signed_kind]; lia).
        assert (Hm' : forall x, x = -1 * 2 ^ len -> wrapc KI bits x = -1 * 2 ^ len) by (intros x ->; exact Hm).
        match goal with |- context [wrapc KI bits ?x] => rewrite (Hm' x eq_refl) end. rewrite Z.lor_comm, lor_disjoint by lia.
        (* bit len-1 set: v >= 2^(len-1) *)
        assert (Hge : 2 ^ (len - 1) <= v).
        { destruct (Z_lt_ge_dec v (2 ^ (len - 1))) as [Hs|]; [|lia]. rewrite (testbit_small v (len - 1)) in Eb by lia. discriminate. }
        lia.
      * inversion H; subst r.
        assert (Hlt2 : v < 2 ^ (len - 1)).
        { apply lt_pow2_of_bits; [lia|lia|]. intros m Hm. destruct (Z.eq_dec m (len - 1)) as [->|]; [exact Eb|].
          destruct (Z_lt_ge_dec m bits); [apply Hhigh; lia|]. apply (testbit_small v bits); lia. }
        lia.
  - unfold usub in H. destruct (Z.leb_spec 1 len) as [_|]; [|lia]. cbn [bind] in H. rewrite shl_eq in H by lia. cbn [bind] in H.
    rewrite land_sign_test in H by assumption.
    pose proof (pow2_le_mono (len - 1) (bits - 1) ltac:(lia)) as Hle.
    destruct (Z.testbit v (len - 1)) eqn:Eb; cbn [negb] in H.
    + rewrite shl_eq in H by lia. cbn [bind] in H.
      assert (Hm : wrapc KSM bits (-1 * 2 ^ (len - 1)) = - 2 ^ (len - 1)).
      { replace (-1 * 2 ^ (len - 1)) with (- 2 ^ (len - 1)) by ring. apply wrapc_in_range; [lia|]. unfold cmin, cmax. cbn [signed_kind]. lia. }
      rewrite Hm, lnot_neg_pow2, Z.land_ones in H by lia.
      pose proof (Z.mod_pos_bound v (2 ^ (len - 1)) ltac:(lia)).
      destruct (in_carrier KSM bits _) in H; [|discriminate].
      assert (Hr : r = - (v mod 2 ^ (len - 1))) by (inversion H; reflexivity). rewrite Hr. lia.
    + inversion H; subst r.
      (* sign bit clear and nothing above: 0 <= v < 2^(len-1) *)
      assert (Hnn : 0 <= v).
      { apply canon_range in Hc; [|lia]. unfold cmin, cmax in Hc. cbn [signed_kind] in Hc.
        destruct (Z_lt_ge_dec v 0) as [Hneg|]; [|lia]. exfalso.
        destruct (Z.eq_dec len bits) as [->|Hne2].
        - rewrite (testbit_sign_neg v (bits - 1)) in Eb by lia. discriminate.
        - assert (Hb1 : Z.testbit v (bits - 1) = false) by (apply Hhigh; lia).
          rewrite (testbit_sign_neg v (bits - 1)) in Hb1 by lia. discriminate. }
      assert (Hlt2 : v < 2 ^ (len - 1)).
      { apply lt_pow2_of_bits; [lia|lia|]. intros m Hm. destruct (Z.eq_dec m (len - 1)) as [->|]; [exact Eb|].
        destruct (Z_lt_ge_dec m bits); [apply Hhigh; lia|].
        apply canon_range in Hc; [|lia]. unfold cmin, cmax in Hc. cbn [signed_kind] in Hc. apply (testbit_small v (bits - 1)); lia. }
      lia.
Qed.

Theorem parse_range k bits data offset len r off' :
  8 <= bits -> 1 <= len <= bits -> 0 <= offset -> bytes_ok data = true ->
  parse k bits data offset len = Ok (r, off') -> representable k len r /\ off' = offset + len /\ offset + len <= 8 * zlen data.
Proof.
  intros Hb Hl Ho Hbd H. destruct (Z_lt_ge_dec (8 * zlen data) (offset + len)) as [Hov|Hfit].
  - rewrite parse_overflow in H by exact Hov. discriminate.
  - destruct (parse_bits k bits data offset len Hb Hl Ho ltac:(lia) Hbd) as [v [Hc [Hv Hparse]]]. rewrite Hparse in H.
    destruct (sign_fix k bits v len) as [r0|e|] eqn:Es; cbn [bind] in H; try discriminate. inversion H; subst.
    split; [|split; [reflexivity|lia]]. eapply sign_fix_range; try eassumption.
    intros m Hm. rewrite Hv by lia. replace (m <? len) with false by lia. reflexivity.
Qed.

(** a zero-width read (only the MSM decoder can ask for one) is harmless *)
Lemma parse_ku_zero bits data offset : 8 <= bits -> 1 <= offset -> bytes_ok data = true -> parse KU bits data offset 0 <> Panic.
Proof.
  intros Hb Ho Hbd. unfold parse. destruct (_ <? _); [discriminate|].
  unfold usub. destruct (Z.leb_spec 1 (offset + 0)) as [_|]; [|lia]. cbn [bind].
  replace ((offset + 0) mod 8) with (offset mod 8) by (f_equal; lia).
  set (lh := offset mod 8). assert (Hlh : 0 <= lh < 8) by (apply Z.mod_pos_bound; lia).
  assert (Hd : (offset + 0 - 1) / 8 - offset / 8 + 1 = if lh =? 0 then 0 else 1).
  { unfold lh. destruct (Z.eqb_spec (offset mod 8) 0); lia. }
  rewrite Hd. destruct (Z.eqb_spec lh 0) as [E0|E0].
  - cbn. discriminate.
  - change (Z.to_nat 1) with 1%nat. cbn [parse_loop]. destruct (nth_error data _) as [d|]; [|cbn; discriminate].
    unfold parse_step. replace (0 =? 0) with true by reflexivity. replace (0 =? 1 - 1) with true by reflexivity.
    replace ((8 - lh) mod 8) with (8 - lh) by (rewrite Z.mod_small; lia).
    unfold usub. destruct (Z.leb_spec lh 8) as [_|]; [|lia]. cbn [bind].
    destruct (Z.leb_spec (8 - lh) (8 - lh)) as [_|]; [|lia]. cbn [bind].
    replace (8 - lh - (8 - lh)) with 0 by lia. destruct (Z.leb_spec 0 0) as [_|]; [|lia]. cbn [bind].
    change (0 - 0) with 0. destruct (Z.leb_spec 0 (8 - lh)) as [_|]; [|lia]. cbn [bind parse_loop sign_fix]. discriminate.
Qed.

(** Encoding never panics (C09) for well-typed values of the plain layouts, and neither does build_message. *)
From Coq Require Import ZArith List Lia Bool.
From Flocq Require Import Core BinarySingleNaN.
From RtcmModel Require Import Types BitIO Floats Field SigId Text Bias Msm Layout Crc Frame Message.
From RtcmProofs Require Import BitLemmas ListZ FragInd EncodeLen BitProofs DecodeBound DecodeTotal FieldProofs TextProofs
  FrameProofs BuilderProofs SizeProofs BuildProofs RoundTrip.
Import ListNotations.
Open Scope Z_scope.

Ltac Zify.zify_post_hook ::= Z.div_mod_to_equations.

(** a value of the row's Rust type: any f32/f64 (NaN and infinities included), any integer of the integer type *)
Definition wt_core (fs : field_spec) (v : val) : Prop :=
  match f_dt fs, v with
  | DF32, VF32 _ => True
  | DF64, VF64 _ => True
  | DF32, _ | DF64, _ => False
  | d, VInt x => match dty_int d with Some dk => in_carrier (fst dk) (snd dk) x = true | None => False end
  | _, _ => False
  end.
Definition wt_field (fs : field_spec) (v : val) : Prop :=
  match f_inv fs with
  | Some _ => v = VNone \/ exists x, v = VSome x /\ wt_core fs x
  | None => wt_core fs v
  end.

Lemma quot_in_carrier k bits x r : 1 <= bits -> 1 <= r -> in_carrier k bits x = true -> in_carrier k bits (Z.quot x r) = true.
Proof.
  intros Hb Hr H. unfold in_carrier, cmin, cmax in *. apply andb_true_iff in H. destruct H as [H1 H2]. apply Z.leb_le in H1, H2.
  assert (Hp : 0 < 2 ^ (bits - 1)) by (apply Z.pow_pos_nonneg; lia). assert (Hp2 : 0 < 2 ^ bits) by (apply Z.pow_pos_nonneg; lia).
  apply andb_true_iff. split; apply Z.leb_le.
  - destruct (Z_lt_ge_dec x 0) as [Hn|Hn].
    + assert (x <= Z.quot x r <= 0). { pose proof (Z.quot_opp_l x r ltac:(lia)). pose proof (Z.quot_le_upper_bound (- x) r (- x) ltac:(lia) ltac:(nia)). pose proof (Z.quot_pos (- x) r ltac:(lia) ltac:(lia)). lia. }
      destruct (signed_kind k); lia.
    + pose proof (Z.quot_pos x r ltac:(lia) ltac:(lia)). destruct (signed_kind k); lia.
  - destruct (Z_lt_ge_dec x 0) as [Hn|Hn].
    + assert (Z.quot x r <= 0). { pose proof (Z.quot_opp_l x r ltac:(lia)). pose proof (Z.quot_pos (- x) r ltac:(lia) ltac:(lia)). lia. }
      destruct (signed_kind k); lia.
    + pose proof (Z.quot_le_upper_bound x r x ltac:(lia) ltac:(nia)). destruct (signed_kind k); lia.
Qed.

Lemma encode_core_no_panic fs v : field_rt_ok fs = true -> wt_core fs v -> encode_core fs v <> Panic.
Proof.
  unfold field_rt_ok, wt_core, encode_core. intros Hrt Hw.
  destruct (f_dt fs) eqn:Ed; destruct v as [x|b|b| | | | | |]; try contradiction; cbn [dty_int] in *;
    try (destruct (num_int (f_res fs)) as [r|] eqn:Er; [|discriminate]; destruct (num_int (f_bias fs)) as [bi|] eqn:Eb; [|discriminate];
         rewrite Hw; unfold int_rt_ok in Hrt;
         repeat (apply andb_true_iff in Hrt; destruct Hrt as [Hrt ?]);
         match goal with X : (1 <=? match r with Some x => x | None => 1 end) = true |- _ => apply Z.leb_le in X; rename X into Hr1 end;
         unfold int_safe in Hrt; cbv zeta in Hrt; repeat (apply andb_true_iff in Hrt; destruct Hrt as [Hrt ?]);
         match goal with X : (1 <=? snd _) = true |- _ => apply Z.leb_le in X; rename X into Hb1 end;
         unfold ienc_core;
         destruct bi as [bi|]; cbn [bind];
         [destruct (bi <=? x); [|discriminate]; destruct (in_carrier _ _ (x - bi)) eqn:Ec; [|discriminate]; cbn [bind];
          destruct r as [r|]; cbn [bind]; [|discriminate];
          destruct (Z.eqb_spec r 0); [lia|]; rewrite (quot_in_carrier _ _ (x - bi) r Hb1 Hr1 Ec); discriminate
         |destruct r as [r|]; cbn [bind]; [|discriminate];
          destruct (Z.eqb_spec r 0); [lia|]; rewrite (quot_in_carrier _ _ x r Hb1 Hr1 Hw); discriminate]).
  - unfold flt_rt_ok in Hrt. destruct (num_flt 24 128 Hp32 Hpe32 (f_res fs)) as [[r|]|]; try discriminate.
    destruct (num_flt 24 128 Hp32 Hpe32 (f_bias fs)) as [bi|]; try discriminate.
    unfold fenc_core. destruct bi as [bb|]; cbn [bind]; [destruct (fge _ _ _ _); cbn [bind]; discriminate|discriminate].
  - unfold flt_rt_ok in Hrt. destruct (num_flt 53 1024 Hp64 Hpe64 (f_res fs)) as [[r|]|]; try discriminate.
    destruct (num_flt 53 1024 Hp64 Hpe64 (f_bias fs)) as [bi|]; try discriminate.
    unfold fenc_core. destruct bi as [bb|]; cbn [bind]; [destruct (fge _ _ _ _); cbn [bind]; discriminate|discriminate].
Qed.

Lemma encode_field_no_panic fs d o v : field_rt_ok fs = true -> field_dec_ok fs = true -> wt_field fs v ->
  bytes_ok d = true -> 0 <= o -> encode_field fs (d, o) v <> Panic.
Proof.
  intros Hrt Hok Hw Hb Ho. destruct (field_dec_ok_widths fs Hok) as [W1 W2]. unfold wt_field in Hw. unfold encode_field.
  destruct (f_inv fs) as [i|].
  - destruct Hw as [->|[x [-> Hx]]]; [apply put_no_panic; assumption|].
    pose proof (encode_core_no_panic fs x Hrt Hx) as Hn. destruct (encode_core fs x) as [c|e|]; cbn [bind]; [apply put_no_panic; assumption|discriminate|contradiction].
  - pose proof (encode_core_no_panic fs v Hrt Hw) as Hn. destruct (encode_core fs v) as [c|e|]; cbn [bind]; [apply put_no_panic; assumption|discriminate|contradiction].
Qed.

Lemma put_bytes_no_panic : forall l d o, bytes_ok d = true -> 0 <= o -> put_bytes (d, o) l <> Panic.
Proof.
  induction l as [|b l IH]; intros d o Hb Ho; cbn [put_bytes fst snd]; [discriminate|].
  pose proof (put_no_panic KU 8 d o b 8 ltac:(lia) ltac:(lia) Ho Hb) as Hn.
  destruct (put KU 8 d o b 8) as [[d1 o1]|e|] eqn:P; cbn [bind]; [|discriminate|contradiction].
  destruct (put_frame KU 8 d o b 8 d1 o1 ltac:(lia) ltac:(lia) Ho Hb P) as [-> [_ [_ [B1 _]]]]. apply IH; [exact B1|lia].
Qed.

(** well-typed values of a layout: what the Rust types admit *)
Section WT.
  Variable sigt : gnss -> sigtable.
  Variable ssr59 ssr65 : sigtable.
  Variable cap59 cap65 : Z.
  Notation enc := (encode_frag sigt ssr59 ssr65 cap59 cap65).

  Inductive wt : frag -> val -> Prop :=
  | wt_fld fs v : wt_field fs v -> wt (FField fs) v
  | wt_str cap lb cs : wt (FStr cap lb) (VStr cs)
  | wt_struct l vs : Forall2 wt l vs -> wt (FStruct l) (VStruct vs)
  | wt_lenmid f1 lenf f2 elem cap vs1 vs2 l : Forall2 wt f1 vs1 -> Forall2 wt f2 vs2 -> Forall (wt elem) l -> zlen l <= cap ->
      wt (FLenMid f1 lenf f2 elem cap) (VStruct (vs1 ++ vs2 ++ [VList l]))
  | wt_veclen elem cap lb l : Forall (wt elem) l -> zlen l <= cap -> wt (FVecLen elem cap lb) (VList l)
  | wt_grid elem l : Forall (wt elem) l -> zlen l = 16 -> wt (FGrid16 elem) (VList l).

  Notation go_enc := (fix go (fl : list frag) (vs : list val) (st : astate) {struct fl} : outcome astate :=
         match fl, vs with
         | [], [] => Ok st
         | f' :: fl', v' :: vs' => st' <- enc f' st v' ;; go fl' vs' st'
         | _, _ => Panic
         end).
  Notation el_enc := (fun elem => fix elems (l : list val) (st : astate) {struct l} : outcome astate :=
         match l with
         | [] => Ok st
         | x :: r => st' <- enc elem st x ;; elems r st'
         end).

  Definition np_at (f : frag) : Prop :=
    plain f = true -> counts_ok f = true -> forall v d o, wt f v -> bytes_ok d = true -> 0 <= o -> enc f (d, o) v <> Panic.

  Notation acc := (accepted_decodes sigt ssr59 ssr65 cap59 cap65).

  Lemma list_np : forall fl, Forall np_at fl -> forallb plain fl = true -> forallb counts_ok fl = true ->
    forall vs d o, Forall2 wt fl vs -> bytes_ok d = true -> 0 <= o -> go_enc fl vs (d, o) <> Panic.
  Proof.
    induction 1 as [|f fl Hf _ IH]; intros Hp Hc vs d o Hw Hb Ho.
    - inversion Hw; subst. discriminate.
    - inversion Hw as [|? x ? vs' Hx Hr]; subst. cbn [forallb] in Hp, Hc. apply andb_true_iff in Hp, Hc. destruct Hp as [Hp1 Hp2]. destruct Hc as [Hc1 Hc2].
      pose proof (Hf Hp1 Hc1 x d o Hx Hb Ho) as Hn.
      destruct (enc f (d, o) x) as [[d1 o1]|e|] eqn:E; cbn [bind]; [|discriminate|contradiction].
      destruct (acc f Hp1 Hc1 d o x d1 o1 Hb Ho E) as [M [B _]]. apply IH; try assumption. lia.
  Qed.

  Lemma elems_np elem : np_at elem -> plain elem = true -> counts_ok elem = true ->
    forall l d o, Forall (wt elem) l -> bytes_ok d = true -> 0 <= o -> el_enc elem l (d, o) <> Panic.
  Proof.
    intros He Hp Hc. induction l as [|x l IH]; intros d o Hw Hb Ho; [discriminate|].
    inversion Hw; subst.
    pose proof (He Hp Hc x d o ltac:(assumption) Hb Ho) as Hn.
    destruct (enc elem (d, o) x) as [[d1 o1]|e|] eqn:E; cbn [bind]; [|discriminate|contradiction].
    destruct (acc elem Hp Hc d o x d1 o1 Hb Ho E) as [M [B _]]. apply IH; try assumption. lia.
  Qed.

  Lemma Forall2_length' {A B} (R : A -> B -> Prop) l1 l2 : Forall2 R l1 l2 -> length l2 = length l1.
  Proof. induction 1; cbn; congruence. Qed.

  Lemma len_field_wt fs n : field_dec_ok fs = true -> len_field_ok fs = true -> 0 <= n < 2 ^ f_len fs -> wt_field fs (VInt n).
  Proof.
    intros Hok Hl Hn. unfold len_field_ok in Hl.
    destruct (f_dt fs) eqn:Edt; try discriminate. destruct (f_ck fs) eqn:Eck; try discriminate.
    destruct (f_res fs) eqn:Eres; try discriminate. destruct (f_bias fs) eqn:Ebias; try discriminate. destruct (f_inv fs) eqn:Einv; try discriminate.
    assert (Hp64 : 2 ^ f_len fs <= 2 ^ 64).
    { unfold field_dec_ok in Hok. rewrite Edt, Eres, Ebias, Eck in Hok. cbn [dty_int num_int] in Hok.
      apply andb_true_iff in Hok. destruct Hok as [_ Hs]. unfold int_safe in Hs. cbv zeta in Hs. cbn [fst snd pat_hi pat_lo] in Hs.
      repeat (apply andb_true_iff in Hs; destruct Hs as [Hs ?]).
      match goal with X : in_carrier KU 64 (2 ^ f_len fs - 1) = true |- _ => unfold in_carrier, cmin, cmax in X; cbn [signed_kind] in X; apply andb_true_iff in X; destruct X as [_ X]; apply Z.leb_le in X end. lia. }
    unfold wt_field, wt_core. rewrite Einv, Edt. cbn [dty_int fst snd]. unfold in_carrier, cmin, cmax. cbn [signed_kind].
    apply andb_true_iff. split; apply Z.leb_le; lia.
  Qed.

  Theorem encode_no_panic : forall f, np_at f.
  Proof.
    apply frag_ind'; unfold np_at; cbn [plain counts_ok]; try discriminate.
    - intros fs Hp _ v d o Hw Hb Ho. apply andb_true_iff in Hp. destruct Hp as [Hrt Hok]. inversion Hw; subst.
      cbn [encode_frag]. apply encode_field_no_panic; assumption.
    - intros cap lb Hp Hc v d o Hw Hb Ho. apply andb_true_iff in Hp. destruct Hp as [Hp L3]. apply andb_true_iff in Hp. destruct Hp as [L1 L2]. apply Z.leb_le in L1, L2.
      inversion Hw; subst. cbn [encode_frag]. unfold encode_str. cbn [fst snd].
      pose proof (put_no_panic KU 8 d o (zlen (df88591_from_str cap cs) mod 256) lb ltac:(lia) ltac:(lia) Ho Hb) as Hn.
      destruct (put KU 8 d o _ lb) as [[d1 o1]|e|] eqn:P; cbn [bind]; [|discriminate|contradiction].
      destruct (put_frame KU 8 d o _ lb d1 o1 ltac:(lia) ltac:(lia) Ho Hb P) as [-> [_ [_ [B1 _]]]]. apply put_bytes_no_panic; [exact B1|lia].
    - intros l Hl Hp Hc v d o Hw Hb Ho. rewrite all_plain_eq in Hp. rewrite all_counts_eq in Hc. inversion Hw; subst. cbn [encode_frag].
      apply list_np; assumption.
    - intros f1 lenf f2 elem cap H1 H2 He Hp Hc v d o Hw Hb Ho.
      rewrite (all_plain_eq f1), (all_plain_eq f2) in Hp. rewrite (all_counts_eq f1), (all_counts_eq f2) in Hc.
      apply andb_true_iff in Hp. destruct Hp as [Hp Pe]. apply andb_true_iff in Hp. destruct Hp as [Hp P2]. apply andb_true_iff in Hp. destruct Hp as [P1 Pl].
      apply andb_true_iff in Pl. destruct Pl as [Pl Pl3]. apply andb_true_iff in Pl. destruct Pl as [Pl1 Pl2].
      apply andb_true_iff in Hc. destruct Hc as [Hc Ce]. apply andb_true_iff in Hc. destruct Hc as [Hc C2]. apply andb_true_iff in Hc. destruct Hc as [C1 Cl]. apply Z.ltb_lt in Cl.
      inversion Hw as [| | |? ? ? ? ? vs1 vs2 l W1 W2 Wl Hcap| |]; subst. cbn [encode_frag].
      pose proof (Forall2_length' _ _ _ W1) as Ln1. pose proof (Forall2_length' _ _ _ W2) as Ln2.
      rewrite (firstn_app_exact vs1 _ _ Ln1), (skipn_app_exact vs1 _ _ Ln1), (firstn_app_exact vs2 _ _ Ln2).
      replace (length f1 + length f2)%nat with (length (vs1 ++ vs2)) by (rewrite app_length; lia).
      rewrite app_assoc, (skipn_app_exact (vs1 ++ vs2) _ _ eq_refl).
      destruct (Z.ltb_spec cap (zlen l)); [lia|].
      pose proof (list_np f1 H1 P1 C1 vs1 d o W1 Hb Ho) as N1.
      destruct (go_enc f1 vs1 (d, o)) as [[d1 o1]|e|] eqn:E1; cbn [bind]; [|discriminate|contradiction].
      destruct (list_acc sigt ssr59 ssr65 cap59 cap65 f1 ltac:(apply Forall_forall; intros x _; apply acc) P1 C1 vs1 d o d1 o1 Hb Ho E1) as [M1 [B1 _]].
      pose proof (zlen_nonneg l) as Hl0.
      pose proof (encode_field_no_panic lenf d1 o1 (VInt (zlen l)) Pl1 Pl2 (len_field_wt lenf (zlen l) Pl2 Pl3 ltac:(lia)) B1 ltac:(lia)) as N2.
      destruct (encode_field lenf (d1, o1) (VInt (zlen l))) as [[d2 o2]|e|] eqn:E2; cbn [bind]; [|discriminate|contradiction].
      destruct (encode_field_frame lenf d1 o1 _ d2 o2 Pl2 ltac:(lia) B1 E2) as [-> [_ [_ [B2 _]]]]. destruct (field_dec_ok_widths lenf Pl2) as [_ Wl'].
      pose proof (list_np f2 H2 P2 C2 vs2 d2 (o1 + f_len lenf) W2 B2 ltac:(lia)) as N3.
      destruct (go_enc f2 vs2 (d2, o1 + f_len lenf)) as [[d3 o3]|e|] eqn:E3; cbn [bind]; [|discriminate|contradiction].
      destruct (list_acc sigt ssr59 ssr65 cap59 cap65 f2 ltac:(apply Forall_forall; intros x _; apply acc) P2 C2 vs2 d2 (o1 + f_len lenf) d3 o3 B2 ltac:(lia) E3) as [M3 [B3 _]].
      apply (elems_np elem He Pe Ce l d3 o3 Wl B3). lia.
    - intros elem cap lb He Hp Hc v d o Hw Hb Ho.
      apply andb_true_iff in Hp. destruct Hp as [Hp Pe]. apply andb_true_iff in Hp. destruct Hp as [L1 L2]. apply Z.leb_le in L1, L2.
      apply andb_true_iff in Hc. destruct Hc as [Cl Ce].
      inversion Hw; subst. cbn [encode_frag fst snd]. destruct (Z.ltb_spec cap (zlen l)); [lia|].
      pose proof (put_no_panic KU 16 d o (zlen l mod 65536) lb ltac:(lia) ltac:(lia) Ho Hb) as Hn.
      destruct (put KU 16 d o _ lb) as [[d1 o1]|e|] eqn:P; cbn [bind]; [|discriminate|contradiction].
      destruct (put_frame KU 16 d o _ lb d1 o1 ltac:(lia) ltac:(lia) Ho Hb P) as [-> [_ [_ [B1 _]]]].
      apply (elems_np elem He Pe Ce l d1 (o + lb)); try assumption. lia.
    - intros elem He Hp Hc v d o Hw Hb Ho. inversion Hw; subst. cbn [encode_frag].
      destruct (Z.eqb_spec (zlen l) 16) as [_|]; [|lia]. cbn [negb]. apply (elems_np elem He Hp Hc l d o); assumption.
  Qed.
End WT.

Section BuildTotal.
  Variable sigt : gnss -> sigtable.
  Variable ssr59 ssr65 : sigtable.
  Variable cap59 cap65 : Z.
  Variable table : list (Z * frag).
  Hypothesis Hc59 : 0 <= cap59.
  Hypothesis Hc65 : 0 <= cap65.
  Hypothesis Hfit : forallb (fun m => frag_wfb (snd m) && (12 + max_bits cap59 cap65 (snd m) <=? 8184)) table = true.

  Notation build_on := (build_on sigt ssr59 ssr65 cap59 cap65 table).
  Notation enc := (encode_frag sigt ssr59 ssr65 cap59 cap65).

  (** build_message on a fresh buffer never panics for a well-typed message of a plain layout *)
  Theorem build_no_panic n v lay : lookup n table = Some lay -> plain lay = true -> counts_ok lay = true ->
    wt lay v -> build_on fresh_data (MTyped n v) <> Panic.
  Proof.
    intros Hlk Hp Hcn Hw.
    pose proof (lookup_In table n lay Hlk) as Hin.
    pose proof Hfit as Hf'. rewrite forallb_forall in Hf'. specialize (Hf' _ Hin). cbn [snd] in Hf'. apply andb_true_iff in Hf'. destruct Hf' as [Hwf Hmax]. apply Z.leb_le in Hmax.
    unfold Message.build_on. rewrite Hlk.
    set (window := firstn 1023 (skipn 3 fresh_data)).
    assert (Hwl : zlen window = 1023) by (vm_compute; reflexivity).
    assert (Hwb : bytes_ok window = true) by (vm_compute; reflexivity).
    pose proof (put_no_panic KU 16 window 0 n 12 ltac:(lia) ltac:(lia) ltac:(lia) Hwb) as N0.
    destruct (put KU 16 window 0 n 12) as [[d0 o0]|e|] eqn:Pu; cbn [bind]; [|discriminate|contradiction].
    destruct (put_frame KU 16 window 0 n 12 d0 o0 ltac:(lia) ltac:(lia) ltac:(lia) Hwb Pu) as [-> [_ [L0 [B0 _]]]].
    pose proof (encode_no_panic sigt ssr59 ssr65 cap59 cap65 lay Hp Hcn v d0 (0 + 12) Hw B0 ltac:(lia)) as N1.
    destruct (enc lay (d0, 0 + 12) v) as [[d1 o1]|e|] eqn:En; cbn [bind]; [|discriminate|contradiction].
    pose proof (encode_frag_grows sigt ssr59 ssr65 cap59 cap65 Hc59 Hc65 lay Hwf (d0, 0 + 12) v (d1, o1) En) as Hg. cbn [snd] in Hg.
    pose proof (encode_frag_len sigt ssr59 ssr65 cap59 cap65 lay (d0, 0 + 12) v (d1, o1) En) as Hl1. cbn [fst] in Hl1.
    cbn [fst snd]. unfold usub. destruct (Z.leb_spec 1 o1) as [_|]; [|lia]. cbn [bind]. cbv zeta.
    match goal with |- (if ?c then _ else _) <> _ => destruct c eqn:Hshort end; [|discriminate].
    exfalso. apply Z.ltb_lt in Hshort. revert Hshort. rewrite !zlen_set_nth, !zlen_app.
    replace (zlen (firstn 3 fresh_data)) with 3 by (vm_compute; reflexivity).
    replace (zlen (skipn 1026 fresh_data)) with 3 by (vm_compute; reflexivity). lia.
  Qed.
End BuildTotal.

#!/usr/bin/env python3
"""Translator: regenerates the Coq tables (coq/Generated/*.v), the Rust glue
(harness/src/glue_gen.rs) and a JSON mirror (build/tables.json, used by the generators and
probes) from the macro tables of /repo on every run.

It refuses (exit 2) any macro invocation or shape it does not know; the check driver then
reports the property as no longer shown instead of guessing.
"""
import json
import os
import re
import sys
import hashlib
from fractions import Fraction

REPO = os.environ.get("VERIF_REPO", "/repo")
VERIF = os.path.dirname(os.path.dirname(os.path.abspath(__file__)))


class TranslateError(Exception):
    pass


def die(msg):
    raise TranslateError(msg)


# ----------------------------------------------------------------------------------------------
# lexical helpers
# ----------------------------------------------------------------------------------------------
def strip_comments(src):
    out = []
    i = 0
    n = len(src)
    while i < n:
        c = src[i]
        if src.startswith("//", i):
            j = src.find("\n", i)
            if j < 0:
                j = n
            i = j
        elif src.startswith("/*", i):
            depth = 1
            i += 2
            while i < n and depth:
                if src.startswith("/*", i):
                    depth += 1
                    i += 2
                elif src.startswith("*/", i):
                    depth -= 1
                    i += 2
                else:
                    i += 1
        elif c == '"':
            j = i + 1
            while j < n and src[j] != '"':
                if src[j] == "\\":
                    j += 1
                j += 1
            out.append(src[i : j + 1])
            i = j + 1
        elif c == "'" and i + 2 < n and (src[i + 2] == "'" or (src[i + 1] == "\\" and "'" in src[i + 2 : i + 8])):
            j = src.find("'", i + 2 if src[i + 1] != "\\" else i + 3)
            out.append(src[i : j + 1])
            i = j + 1
        else:
            out.append(c)
            i += 1
    return "".join(out)


def find_invocations(src, names=None):
    """Yield (name, body, start) for every top-level `name!( body );` / `name![ body ];` outside
    macro_rules! definitions."""
    res = []
    i = 0
    n = len(src)
    pat = re.compile(r"\b([a-z_][a-z_0-9]*)!\s*([(\[{])")
    while True:
        m = pat.search(src, i)
        if not m:
            break
        name = m.group(1)
        open_c = m.group(2)
        close_c = {"(": ")", "[": "]", "{": "}"}[open_c]
        # find matching close
        depth = 0
        j = m.end() - 1
        k = j
        while k < n:
            ch = src[k]
            if ch in "([{":
                depth += 1
            elif ch in ")]}":
                depth -= 1
                if depth == 0:
                    break
            elif ch == '"':
                k = src.find('"', k + 1)
            elif ch == "'" and k + 2 < n and src[k + 2] == "'":
                k += 2
            k += 1
        if k >= n:
            die("unbalanced macro invocation %s at %d" % (name, m.start()))
        body = src[j + 1 : k]
        if name == "macro_rules":
            # skip the definition: name!  ident { ... }
            # macro_rules! foo { ... } : our regex only matches `macro_rules! {`? no: `macro_rules! name {`
            pass
        res.append((name, body, m.start()))
        i = k + 1
    return res


def skip_macro_rules(src):
    """Remove `macro_rules! name { ... }` definitions entirely."""
    out = []
    i = 0
    pat = re.compile(r"macro_rules!\s*[a-z_0-9]+\s*\{")
    while True:
        m = pat.search(src, i)
        if not m:
            out.append(src[i:])
            break
        out.append(src[i : m.start()])
        depth = 0
        k = m.end() - 1
        n = len(src)
        while k < n:
            ch = src[k]
            if ch == "{":
                depth += 1
            elif ch == "}":
                depth -= 1
                if depth == 0:
                    break
            elif ch == '"':
                k = src.find('"', k + 1)
            elif ch == "'" and k + 2 < n and src[k + 2] == "'":
                k += 2
            k += 1
        i = k + 1
    return "".join(out)


def split_top(s, sep=","):
    parts = []
    depth = 0
    cur = []
    i = 0
    while i < len(s):
        ch = s[i]
        if ch in "([{":
            depth += 1
        elif ch in ")]}":
            depth -= 1
        if ch == "'" and i + 2 < len(s) and s[i + 2] == "'":
            cur.append(s[i : i + 3])
            i += 3
            continue
        if ch == sep and depth == 0:
            parts.append("".join(cur).strip())
            cur = []
        else:
            cur.append(ch)
        i += 1
    last = "".join(cur).strip()
    if last:
        parts.append(last)
    return parts


def parse_kv(body, allow_bare=()):
    """`k: v, k: v, k: a, b,` -> list of (k, v) with order kept.  `vec_field: name, frag,` has two
    values; they are joined with ','."""
    items = split_top(body)
    kv = []
    for it in items:
        m = re.match(r"^([a-z_0-9]+)\s*:\s*(.*)$", it, re.S)
        if m:
            kv.append([m.group(1), m.group(2).strip()])
        else:
            if not kv:
                die("cannot parse macro argument %r" % it)
            kv[-1][1] += "," + it
    return [(k, v) for k, v in kv]


def parse_pairs(v):
    v = v.strip()
    if not (v.startswith("[") and v.endswith("]")):
        die("expected [..] list, got %r" % v[:40])
    out = []
    for it in split_top(v[1:-1]):
        it = it.strip()
        if not (it.startswith("(") and it.endswith(")")):
            die("expected (name, frag), got %r" % it)
        ab = [x.strip() for x in split_top(it[1:-1])]
        if len(ab) != 2:
            die("field tuple with %d elements not supported: %r" % (len(ab), it))
        out.append((ab[0], ab[1]))
    return out


# ----------------------------------------------------------------------------------------------
# exact float arithmetic as rustc does it
# ----------------------------------------------------------------------------------------------
FMT = {"f32": (24, 128), "f64": (53, 1024)}


def round_frac(q, prec, emax):
    """round-to-nearest-even of a rational to binary(prec, emax); returns (m, e) with value m*2^e, m odd or 0
    normalised so that |m| < 2^prec.  Overflow -> die (no constant here overflows)."""
    if q == 0:
        return (0, 0)
    sign = -1 if q < 0 else 1
    q = abs(q)
    emin = 3 - emax - prec
    # find e such that 2^(prec-1) <= q / 2^e < 2^prec
    num, den = q.numerator, q.denominator
    e = num.bit_length() - den.bit_length() - prec
    while Fraction(num, den) / Fraction(2) ** e >= 2 ** prec:
        e += 1
    while Fraction(num, den) / Fraction(2) ** e < 2 ** (prec - 1):
        e -= 1
    if e < emin:
        e = emin
    scaled = Fraction(num, den) / Fraction(2) ** e
    m = scaled.numerator // scaled.denominator
    rem = scaled - m
    if rem > Fraction(1, 2) or (rem == Fraction(1, 2) and m % 2 == 1):
        m += 1
    if m == 2 ** prec:
        m //= 2
        e += 1
    if e + prec > emax:
        die("float constant overflows")
    # normalise m odd
    while m != 0 and m % 2 == 0:
        m //= 2
        e += 1
    return (sign * m, e)


def frac_of(me):
    m, e = me
    return Fraction(m) * Fraction(2) ** e


def parse_dec_literal(tok):
    tok = tok.replace("_", "")
    m = re.match(r"^(\d+)(?:\.(\d*))?(?:[eE]([+-]?\d+))?$", tok)
    if not m:
        die("unknown float literal %r" % tok)
    ip, fp, ex = m.group(1), m.group(2) or "", m.group(3)
    q = Fraction(int(ip + fp), 10 ** len(fp))
    if ex:
        q *= Fraction(10) ** int(ex)
    return q


def eval_float_expr(expr, dt):
    """Evaluate a constant expression of float literals, * / and parentheses in precision dt,
    rounding after the literal conversion and after each operation (rustc const evaluation)."""
    prec, emax = FMT[dt]
    toks = re.findall(r"\d[\d_]*\.?[\d_]*(?:[eE][+-]?\d+)?|[()*/+-]", expr.replace(" ", ""))
    if "".join(toks) != expr.replace(" ", ""):
        die("cannot tokenise float expression %r" % expr)
    pos = [0]

    def peek():
        return toks[pos[0]] if pos[0] < len(toks) else None

    def nxt():
        t = peek()
        pos[0] += 1
        return t

    def atom():
        t = nxt()
        if t == "(":
            v = term()
            if nxt() != ")":
                die("missing ) in %r" % expr)
            return v
        if t == "-":
            m, e = atom()
            return (-m, e)
        if t is None or not t[0].isdigit():
            die("unexpected token %r in %r" % (t, expr))
        if "." not in t and "e" not in t.lower():
            die("integer literal in float expression %r" % expr)
        return round_frac(parse_dec_literal(t), prec, emax)

    def term():
        v = atom()
        while peek() in ("*", "/"):
            op = nxt()
            w = atom()
            if op == "*":
                v = round_frac(frac_of(v) * frac_of(w), prec, emax)
            else:
                if w[0] == 0:
                    die("division by zero in %r" % expr)
                v = round_frac(frac_of(v) / frac_of(w), prec, emax)
        return v

    v = term()
    if peek() is not None:
        die("trailing tokens in %r" % expr)
    return v


def parse_int_literal(tok):
    t = tok.replace("_", "").replace(" ", "")
    neg = t.startswith("-")
    if neg:
        t = t[1:]
    if t.startswith("0x"):
        v = int(t[2:], 16)
    elif t.startswith("0b"):
        v = int(t[2:], 2)
    elif re.match(r"^\d+$", t):
        v = int(t)
    else:
        die("unknown integer literal %r" % tok)
    return -v if neg else v


# ----------------------------------------------------------------------------------------------
# dfs.rs
# ----------------------------------------------------------------------------------------------
CARRIERS = {}
for _k, _p in (("U", "u"), ("I", "i"), ("SM", "sm")):
    for _b in (8, 16, 32, 64):
        CARRIERS["%s%d" % (_k, _b)] = (_k, _b)
DTYPES = {"u8": "DU8", "u16": "DU16", "u32": "DU32", "usize": "DUsize", "i8": "DI8", "i16": "DI16", "i32": "DI32", "f32": "DF32", "f64": "DF64"}
DT_RANGE = {
    "u8": (0, 255),
    "u16": (0, 65535),
    "u32": (0, 2 ** 32 - 1),
    "usize": (0, 2 ** 64 - 1),
    "i8": (-128, 127),
    "i16": (-32768, 32767),
    "i32": (-(2 ** 31), 2 ** 31 - 1),
}


def parse_dfs(consts):
    path = os.path.join(REPO, "src/df/dfs.rs")
    src = skip_macro_rules(strip_comments(open(path).read()))
    fields = []  # ordered
    strings = []
    hand_mods = []
    seen = set()
    consumed_spans = []
    for name, body, start in find_invocations(src):
        if name == "df":
            kv = parse_kv(body)
            keys = [k for k, _ in kv]
            d = dict(kv)
            allowed = ["id", "dt", "it", "len", "res", "bias", "round", "cap", "inv", "ord"]
            if any(k not in allowed for k in keys):
                die("df!: unknown key in %r" % keys)
            if [k for k in allowed if k in keys] != keys:
                die("df! %s: keys out of macro order %r" % (d.get("id"), keys))
            if ("inv" in d) == ("ord" in d):
                die("df! %s: exactly one of inv/ord expected" % d.get("id"))
            fid = d["id"]
            if fid in seen:
                die("duplicate df id %s" % fid)
            seen.add(fid)
            dt = d["dt"]
            if dt not in DTYPES:
                die("df! %s: unknown dt %s" % (fid, dt))
            if d["it"] not in CARRIERS:
                die("df! %s: unknown carrier %s" % (fid, d["it"]))
            ck, cb = CARRIERS[d["it"]]
            isf = dt in FMT
            spec = {"id": fid, "dt": dt, "it": d["it"], "ck": ck, "cbits": cb, "len": parse_int_literal(d["len"])}
            for key in ("res", "bias"):
                if key in d:
                    if isf:
                        m, e = eval_float_expr(d[key], dt)
                        spec[key] = {"flt": [m, e], "src": d[key]}
                    else:
                        spec[key] = {"int": parse_int_literal(d[key]), "src": d[key]}
                else:
                    spec[key] = None
            if "round" in d:
                if d["round"] not in ("true", "false"):
                    die("df! %s: round must be a bool literal" % fid)
                if not isf:
                    die("df! %s: round on an integer row" % fid)
                spec["round"] = d["round"] == "true"
            else:
                spec["round"] = False
            spec["inv"] = parse_int_literal(d["inv"]) if "inv" in d else None
            if "ord" in d:
                parse_int_literal(d["ord"])
            if "cap" in d:
                if d["cap"] not in consts:
                    die("df! %s: unknown capacity constant %s" % (fid, d["cap"]))
                spec["cap"] = consts[d["cap"]]
                spec["cap_name"] = d["cap"]
            else:
                spec["cap"] = None
            fields.append(spec)
        elif name == "df_88591_string_with_len":
            d = dict(parse_kv(body))
            if sorted(d) != ["cap", "id", "len_bits"]:
                die("df_88591_string_with_len!: unexpected keys %r" % sorted(d))
            if d["cap"] not in consts:
                die("unknown capacity constant %s" % d["cap"])
            strings.append({"id": d["id"], "cap": consts[d["cap"]], "cap_name": d["cap"], "len_bits": parse_int_literal(d["len_bits"])})
        else:
            die("dfs.rs: unknown macro %s!" % name)
    # hand-written modules
    for m in re.finditer(r'#\[cfg\(feature\s*=\s*"([a-z0-9_]+)"\)\]\s*pub mod ([a-z0-9_]+);', src):
        hand_mods.append({"feature": m.group(1), "module": m.group(2)})
    known_hand = {"df_msg1029_utf8_str", "df_msg1059_biases", "df_msg1065_biases", "df_msg1230_biases"}
    for h in hand_mods:
        if h["module"] not in known_hand:
            die("dfs.rs: unknown hand-written field module %s" % h["module"])
    # anything else left at top level?
    rest = src
    rest = re.sub(r'#\[cfg\(feature\s*=\s*"[a-z0-9_]+"\)\]\s*pub mod [a-z0-9_]+;', "", rest)
    for name, body, start in find_invocations(src):
        pass
    return fields, strings, hand_mods


# ----------------------------------------------------------------------------------------------
# msg/mod.rs constants, cfg lists, include list
# ----------------------------------------------------------------------------------------------
def parse_mod_rs():
    path = os.path.join(REPO, "src/msg/mod.rs")
    raw = open(path).read()
    src = skip_macro_rules(strip_comments(raw))
    consts = {}
    for m in re.finditer(r"pub const ([A-Z_0-9]+)\s*:\s*usize\s*=\s*([0-9_]+)\s*;", src):
        consts[m.group(1)] = int(m.group(2).replace("_", ""))
    includes = []
    for name, body, start in find_invocations(src):
        if name == "include_msg":
            a = [x.strip() for x in split_top(body)]
            if len(a) != 2 or not re.match(r'^"[a-z0-9_]+"$', a[1]):
                die("include_msg!: unexpected arguments %r" % body)
            includes.append({"module": a[0], "feature": a[1].strip('"')})
        else:
            die("msg/mod.rs: unknown macro invocation %s!" % name)
    shared = []
    for m in re.finditer(r"#\[cfg\(any\((.*?)\)\)\]\s*mod ([a-z0-9_]+);", src, re.S):
        feats = re.findall(r'feature\s*=\s*"([a-z0-9_]+)"', m.group(1))
        shared.append({"module": m.group(2), "features": feats})
    return consts, includes, shared


# ----------------------------------------------------------------------------------------------
# message files
# ----------------------------------------------------------------------------------------------
MSG_MACROS = {"msg", "msg_len_middle", "frag_vec", "frag_vec_with_len", "frag_grid16p", "msm_data_seg_frag", "msm_sat_frag", "msm_sig_frag"}
GNSS = ["gps", "glo", "gal", "sbas", "qzss", "bds", "navic"]


def parse_msg_file(path, consts):
    src = strip_comments(open(path).read())
    uses = re.findall(r"use\s+super::([a-z0-9_]+)::\*\s*;", src)
    rest = re.sub(r"use\s+super::([a-z0-9_]+)::\*\s*;", "", src)
    frags = []
    spans = []
    for name, body, start in find_invocations(src):
        if name not in MSG_MACROS:
            die("%s: unknown macro %s!" % (path, name))
        kv = parse_kv(body)
        d = dict(kv)
        keys = [k for k, _ in kv]
        f = {"macro": name, "id": d.get("id")}
        if name == "msg":
            if keys != ["id", "type_name", "fields"]:
                die("%s: msg! keys %r" % (path, keys))
            f["type_name"] = d["type_name"]
            f["fields"] = parse_pairs(d["fields"])
        elif name == "msg_len_middle":
            if keys != ["id", "type_name", "fields1", "len_field", "fields2", "vec_field"]:
                die("%s: msg_len_middle! keys %r" % (path, keys))
            f["type_name"] = d["type_name"]
            f["fields1"] = parse_pairs(d["fields1"])
            f["len_field"] = d["len_field"]
            f["fields2"] = parse_pairs(d["fields2"])
            vf = [x.strip() for x in d["vec_field"].split(",") if x.strip()]
            if len(vf) != 2:
                die("%s: vec_field %r" % (path, d["vec_field"]))
            f["vec_field"] = vf
        elif name == "frag_vec":
            if keys != ["id", "frag_id", "cap_name"]:
                die("%s: frag_vec! keys %r" % (path, keys))
            f["frag_id"] = d["frag_id"]
            f["cap"] = consts.get(d["cap_name"])
            if f["cap"] is None:
                die("%s: unknown capacity %s" % (path, d["cap_name"]))
        elif name == "frag_vec_with_len":
            if keys != ["id", "frag_id", "cap", "len_bits"]:
                die("%s: frag_vec_with_len! keys %r" % (path, keys))
            f["frag_id"] = d["frag_id"]
            f["cap"] = consts.get(d["cap"])
            if f["cap"] is None:
                die("%s: unknown capacity %s" % (path, d["cap"]))
            f["len_bits"] = parse_int_literal(d["len_bits"])
        elif name == "frag_grid16p":
            if keys != ["id", "frag_id"]:
                die("%s: frag_grid16p! keys %r" % (path, keys))
            f["frag_id"] = d["frag_id"]
        elif name == "msm_sat_frag":
            if keys != ["id", "type_name", "fields"]:
                die("%s: msm_sat_frag! keys %r" % (path, keys))
            f["type_name"] = d["type_name"]
            f["fields"] = parse_pairs(d["fields"])
        elif name == "msm_sig_frag":
            if keys != ["id", "type_name", "gnss", "fields"]:
                die("%s: msm_sig_frag! keys %r" % (path, keys))
            f["type_name"] = d["type_name"]
            f["gnss"] = d["gnss"]
            f["fields"] = parse_pairs(d["fields"])
        elif name == "msm_data_seg_frag":
            if keys != ["id", "type_name", "gnss", "sat_id", "sig_id"]:
                die("%s: msm_data_seg_frag! keys %r" % (path, keys))
            f["type_name"] = d["type_name"]
            f["gnss"] = d["gnss"]
            f["sat_id"] = d["sat_id"]
            f["sig_id"] = d["sig_id"]
        if "gnss" in f and f["gnss"] not in GNSS:
            die("%s: unknown gnss %s" % (path, f["gnss"]))
        frags.append(f)
    # leftover text check: after removing invocations and `use`, only whitespace may remain
    tmp = rest
    for name, body, start in find_invocations(src):
        pass
    stripped = re.sub(r"\b[a-z_0-9]+!\s*\((?:[^()]|\((?:[^()]|\([^()]*\))*\))*\)\s*;", "", rest, flags=re.S)
    if stripped.strip():
        die("%s: unrecognised top-level code: %r" % (path, stripped.strip()[:80]))
    return frags, uses


def parse_messages():
    path = os.path.join(REPO, "src/msg/message.rs")
    src = skip_macro_rules(strip_comments(open(path).read()))
    rows = []
    found = False
    for name, body, start in find_invocations(src):
        if name == "message":
            found = True
            for it in split_top(body):
                m = re.match(r'^"([a-z0-9_]+)"\s*:\s*([A-Za-z0-9_]+)\(([a-z0-9_]+)\)\s*=\s*(\d+)$', it.strip())
                if not m:
                    die("message!: cannot parse row %r" % it)
                rows.append({"feature": m.group(1), "variant": m.group(2), "module": m.group(3), "number": int(m.group(4))})
    if not found:
        die("message.rs: message! invocation not found")
    return rows


def parse_sig_tables():
    path = os.path.join(REPO, "src/msg/msm_mappings.rs")
    src = skip_macro_rules(strip_comments(open(path).read()))
    tables = {}
    for name, body, start in find_invocations(src):
        if name != "msm_mappings":
            die("msm_mappings.rs: unknown macro %s!" % name)
        d = dict(parse_kv(body))
        g = d["gnss"]
        if g not in GNSS or g in tables:
            die("msm_mappings!: bad gnss %r" % g)
        rows = []
        v = d["mappings"].strip()
        for it in split_top(v[1:-1]):
            m = re.match(r"^(\d+)\s*=>\s*(\d+)\s*\|\s*'(.)'$", it.strip())
            if not m:
                die("msm_mappings! %s: cannot parse %r" % (g, it))
            rows.append([int(m.group(1)), int(m.group(2)), ord(m.group(3))])
        tables[g] = rows
    if sorted(tables) != sorted(GNSS):
        die("msm_mappings.rs: expected 7 constellations, got %r" % sorted(tables))
    return tables


def parse_ssr_sig_table(fname):
    path = os.path.join(REPO, "src/df/dfs", fname)
    src = skip_macro_rules(strip_comments(open(path).read()))
    rows = None
    for name, body, start in find_invocations(src):
        if name == "sig_mappings":
            rows = []
            for it in split_top(body):
                m = re.match(r"^(\d+)\s*=>\s*(\d+)\s*\|\s*'(.)'$", it.strip())
                if not m:
                    die("%s sig_mappings!: cannot parse %r" % (fname, it))
                rows.append([int(m.group(1)), int(m.group(2)), ord(m.group(3))])
    if rows is None:
        die("%s: sig_mappings! not found" % fname)
    return rows


def parse_cargo():
    path = os.path.join(REPO, "Cargo.toml")
    txt = open(path).read()
    m = re.search(r"^\[features\](.*?)(?=^\[|\Z)", txt, re.S | re.M)
    if not m:
        die("Cargo.toml: no [features]")
    feats = {}
    body = m.group(1)
    for fm in re.finditer(r"^([A-Za-z0-9_]+)\s*=\s*\[(.*?)\]", body, re.S | re.M):
        feats[fm.group(1)] = re.findall(r'"([^"]+)"', fm.group(2))
    return feats


# ----------------------------------------------------------------------------------------------
# region hashes of hand-modelled code (staleness trigger, DESIGN 2.4)
# ----------------------------------------------------------------------------------------------
HAND_REGIONS = [
    "src/df/assembler.rs",
    "src/df/parser.rs",
    "src/df/bit_value.rs",
    "src/df/mod.rs",
    "src/message_frame.rs",
    "src/lib.rs",
    "src/msg/mod.rs:macros",
    "src/msg/message.rs:macros",
    "src/msg/msm_mappings.rs:macros",
    "src/df/dfs/df_msg1029_utf8_str.rs",
    "src/df/dfs/df_msg1059_biases.rs",
    "src/df/dfs/df_msg1065_biases.rs",
    "src/df/dfs/df_msg1230_biases.rs",
    "src/util/mod.rs",
    "src/util/array_string.rs",
    "src/util/data_vec.rs",
    "src/util/grid16p.rs",
]


def region_hashes():
    out = {}
    for r in HAND_REGIONS:
        p = r.split(":")[0]
        src = strip_comments(open(os.path.join(REPO, p)).read())
        if r.endswith(":macros"):
            # only the macro_rules bodies + free functions: remove table invocations
            src = re.sub(r"\b(include_msg|message|msm_mappings)!\s*\((?:[^()]|\((?:[^()]|\([^()]*\))*\))*\)\s*;", "", src, flags=re.S)
            src = re.sub(r"pub const [A-Z_0-9]+\s*:\s*usize\s*=\s*[0-9_]+\s*;", "", src)
            src = re.sub(r"#\[cfg\(any\(.*?\)\)\]\s*mod [a-z0-9_]+;", "", src, flags=re.S)
        norm = " ".join(src.split())
        out[r] = hashlib.sha1(norm.encode()).hexdigest()[:16]
    return out


def loop_keywords():
    """Loop constructs outside cfg(feature = "test_gen") code (termination guard for C02/C05)."""
    found = {}
    for root, _, files in os.walk(os.path.join(REPO, "src")):
        for fn in files:
            if not fn.endswith(".rs") or fn in ("val_gen.rs", "source_repr.rs"):
                continue
            src = strip_comments(open(os.path.join(root, fn)).read())
            # drop generate functions (test_gen): crude but conservative: remove fn generate...{ } blocks
            src2 = remove_generate_fns(src)
            for kw in ("while", "loop"):
                c = len(re.findall(r"\b%s\b" % kw, src2))
                if c:
                    found["%s:%s" % (os.path.relpath(os.path.join(root, fn), REPO), kw)] = c
    return found


def remove_generate_fns(src):
    out = []
    i = 0
    pat = re.compile(r"pub fn (generate|build_generated_message|random_id|id_len_div64)\b")
    while True:
        m = pat.search(src, i)
        if not m:
            out.append(src[i:])
            break
        out.append(src[i : m.start()])
        k = src.find("{", m.end())
        # skip where-clauses containing no braces
        depth = 0
        n = len(src)
        while k < n:
            if src[k] == "{":
                depth += 1
            elif src[k] == "}":
                depth -= 1
                if depth == 0:
                    break
            k += 1
        i = k + 1
    return "".join(out)


# ----------------------------------------------------------------------------------------------
# assemble
# ----------------------------------------------------------------------------------------------
def build_tables():
    consts, includes, shared = parse_mod_rs()
    fields, strings, hand_mods = parse_dfs(consts)
    messages = parse_messages()
    sig_tables = parse_sig_tables()
    ssr = {"1059": parse_ssr_sig_table("df_msg1059_biases.rs"), "1065": parse_ssr_sig_table("df_msg1065_biases.rs")}
    cargo = parse_cargo()

    field_ids = {f["id"] for f in fields}
    string_ids = {s["id"] for s in strings}
    hand_ids = {h["module"] for h in hand_mods}

    msg_dir = os.path.join(REPO, "src/msg")
    files_present = sorted(fn[:-3] for fn in os.listdir(msg_dir) if re.match(r"^msg\d+\.rs$", fn))
    frag_by_file = {}
    uses_by_file = {}
    for fn in sorted(os.listdir(msg_dir)):
        if fn in ("mod.rs", "message.rs", "msm_mappings.rs") or not fn.endswith(".rs"):
            continue
        fr, uses = parse_msg_file(os.path.join(msg_dir, fn), consts)
        frag_by_file[fn[:-3]] = fr
        uses_by_file[fn[:-3]] = uses
    known_files = set(files_present) | {s["module"] for s in shared}
    for fn in frag_by_file:
        if fn not in known_files:
            die("src/msg/%s.rs is neither an included message nor a shared fragment module" % fn)

    # resolve each message's layout into a tree
    def resolve(file, fid, stack=()):
        scope = list(frag_by_file[file])
        for u in uses_by_file[file]:
            if u not in frag_by_file:
                die("%s: use super::%s::* of unknown module" % (file, u))
            scope += frag_by_file[u]
        byid = {}
        for f in scope:
            if f["id"] in byid:
                die("%s: duplicate fragment id %s" % (file, f["id"]))
            byid[f["id"]] = f

        def res(fid, stack):
            if fid in stack:
                die("%s: cyclic fragment reference %s" % (file, fid))
            if fid in byid:
                f = byid[fid]
                st = stack + (fid,)
                mac = f["macro"]
                if mac == "msg":
                    return {"k": "struct", "type": f["type_name"], "fields": [[n, res(x, st)] for n, x in f["fields"]]}
                if mac == "msg_len_middle":
                    lf = f["len_field"]
                    if lf not in field_ids:
                        die("%s: len_field %s is not a df! row" % (file, lf))
                    vec = byid.get(f["vec_field"][1])
                    if vec is None or vec["macro"] != "frag_vec":
                        die("%s: vec_field %s must be a frag_vec!" % (file, f["vec_field"][1]))
                    return {
                        "k": "lenmid",
                        "type": f["type_name"],
                        "fields1": [[n, res(x, st)] for n, x in f["fields1"]],
                        "len_field": lf,
                        "fields2": [[n, res(x, st)] for n, x in f["fields2"]],
                        "vec_name": f["vec_field"][0],
                        "elem": res(vec["frag_id"], st),
                        "cap": vec["cap"],
                    }
                if mac == "frag_vec":
                    die("%s: frag_vec! %s used outside msg_len_middle!" % (file, fid))
                if mac == "frag_vec_with_len":
                    return {"k": "veclen", "elem": res(f["frag_id"], st), "cap": f["cap"], "len_bits": f["len_bits"]}
                if mac == "frag_grid16p":
                    return {"k": "grid16", "elem": res(f["frag_id"], st)}
                if mac == "msm_data_seg_frag":
                    sat = byid.get(f["sat_id"])
                    sig = byid.get(f["sig_id"])
                    if sat is None or sat["macro"] != "msm_sat_frag" or sig is None or sig["macro"] != "msm_sig_frag":
                        die("%s: msm_data_seg_frag! %s: bad sat/sig fragments" % (file, fid))
                    if sig["gnss"] != f["gnss"]:
                        die("%s: gnss mismatch between data segment and signal fragment" % file)
                    for n, x in sat["fields"] + sig["fields"]:
                        if x not in field_ids:
                            die("%s: MSM row field %s is not a df! row" % (file, x))
                    return {
                        "k": "msm",
                        "type": f["type_name"],
                        "gnss": f["gnss"],
                        "sat_type": sat["type_name"],
                        "sig_type": sig["type_name"],
                        "sat_rows": [[n, x] for n, x in sat["fields"]],
                        "sig_rows": [[n, x] for n, x in sig["fields"]],
                    }
                die("%s: fragment %s (%s!) cannot be used as a field" % (file, fid, mac))
            if fid in field_ids:
                return {"k": "field", "id": fid}
            if fid in string_ids:
                s = [s for s in strings if s["id"] == fid][0]
                return {"k": "str", "cap": s["cap"], "len_bits": s["len_bits"], "id": fid}
            if fid == "df_msg1029_utf8_str":
                return {"k": "utf8"}
            if fid == "df_msg1059_biases":
                return {"k": "bias1059"}
            if fid == "df_msg1065_biases":
                return {"k": "bias1065"}
            if fid == "df_msg1230_biases":
                return {"k": "bias1230"}
            die("%s: unknown fragment or field id %s" % (file, fid))

        return res(fid, stack)

    layouts = []
    for row in messages:
        mod = row["module"]
        if mod not in frag_by_file:
            die("message! row %s: no file src/msg/%s.rs" % (row["variant"], mod))
        layouts.append({"number": row["number"], "variant": row["variant"], "module": mod, "feature": row["feature"], "layout": resolve(mod, mod)})

    tables = {
        "consts": consts,
        "fields": fields,
        "strings": strings,
        "hand_mods": hand_mods,
        "messages": messages,
        "layouts": layouts,
        "sig_tables": sig_tables,
        "ssr_tables": ssr,
        "cargo_features": cargo,
        "includes": includes,
        "shared_modules": shared,
        "uses": {k: v for k, v in uses_by_file.items() if v},
        "files_present": files_present,
        "region_hashes": region_hashes(),
        "loop_keywords": loop_keywords(),
    }
    return tables


# ----------------------------------------------------------------------------------------------
# Coq emission
# ----------------------------------------------------------------------------------------------
def zlit(v):
    return "(%d)" % v if v < 0 else "%d" % v


def coq_num(n):
    if n is None:
        return "None"
    if "int" in n:
        return "(Some (NInt %s))" % zlit(n["int"])
    m, e = n["flt"]
    return "(Some (NFlt %s %s))" % (zlit(m), zlit(e))


def coq_opt_z(v):
    return "None" if v is None else "(Some %s)" % zlit(v)


def coq_field(f):
    return "{| f_dt := %s; f_ck := K%s; f_cbits := %d; f_len := %d; f_res := %s; f_bias := %s; f_round := %s; f_inv := %s; f_cap := %s |}" % (
        DTYPES[f["dt"]],
        f["ck"],
        f["cbits"],
        f["len"],
        coq_num(f["res"]),
        coq_num(f["bias"]),
        "true" if f["round"] else "false",
        coq_opt_z(f["inv"]),
        coq_opt_z(f["cap"]),
    )


def coq_frag(l, indent=2):
    k = l["k"]
    if k == "field":
        return "FField %s" % l["id"]
    if k == "str":
        return "FStr %d %d" % (l["cap"], l["len_bits"])
    if k == "utf8":
        return "FUtf8"
    if k in ("bias1059", "bias1065", "bias1230"):
        return "FB" + k[1:]
    if k == "struct":
        return "FStruct [%s]" % "; ".join("(%s)" % coq_frag(x) for _, x in l["fields"])
    if k == "lenmid":
        return "FLenMid [%s] %s [%s] (%s) %d" % (
            "; ".join("(%s)" % coq_frag(x) for _, x in l["fields1"]),
            l["len_field"],
            "; ".join("(%s)" % coq_frag(x) for _, x in l["fields2"]),
            coq_frag(l["elem"]),
            l["cap"],
        )
    if k == "veclen":
        return "FVecLen (%s) %d %d" % (coq_frag(l["elem"]), l["cap"], l["len_bits"])
    if k == "grid16":
        return "FGrid16 (%s)" % coq_frag(l["elem"])
    if k == "msm":
        return "FMsm G_%s [%s] [%s]" % (l["gnss"], "; ".join(x for _, x in l["sat_rows"]), "; ".join(x for _, x in l["sig_rows"]))
    die("unknown layout kind %s" % k)


def emit_coq(t, outdir):
    os.makedirs(outdir, exist_ok=True)
    hdr = "(* GENERATED by tools/translate.py from /repo -- do not edit. *)\n"
    # fields
    o = [hdr, "From Coq Require Import ZArith List String.\nFrom RtcmModel Require Import Types.\nImport ListNotations.\nOpen Scope Z_scope.\nOpen Scope string_scope.\n"]
    for f in t["fields"]:
        o.append("Definition %s : field_spec := %s." % (f["id"], coq_field(f)))
    o.append("\nDefinition all_fields : list (string * field_spec) := [")
    o.append(";\n".join('  ("%s", %s)' % (f["id"], f["id"]) for f in t["fields"]))
    o.append("].\n")
    o.append("Definition all_strings : list (string * (Z * Z)) := [")
    o.append(";\n".join('  ("%s", (%d, %d))' % (s["id"], s["cap"], s["len_bits"]) for s in t["strings"]))
    o.append("].\n")
    write_if_changed(os.path.join(outdir, "GenFields.v"), "\n".join(o))
    # signals
    o = [hdr, "From Coq Require Import ZArith List.\nFrom RtcmModel Require Import Types.\nImport ListNotations.\nOpen Scope Z_scope.\n"]
    for g in GNSS:
        o.append("Definition sig_table_%s : list (Z * (Z * Z)) := [%s]." % (g, "; ".join("(%d, (%d, %d))" % (i, b, c) for i, b, c in t["sig_tables"][g])))
    o.append("\nDefinition sig_table (g : gnss) : list (Z * (Z * Z)) :=\n  match g with\n%s\n  end.\n" % "\n".join("  | G_%s => sig_table_%s" % (g, g) for g in GNSS))
    o.append("Definition all_gnss : list gnss := [%s].\n" % "; ".join("G_%s" % g for g in GNSS))
    for k in ("1059", "1065"):
        o.append("Definition ssr_table_%s : list (Z * (Z * Z)) := [%s]." % (k, "; ".join("(%d, (%d, %d))" % (i, b, c) for i, b, c in t["ssr_tables"][k])))
    write_if_changed(os.path.join(outdir, "GenSignals.v"), "\n".join(o) + "\n")
    # layouts + messages
    o = [hdr, "From Coq Require Import ZArith List String.\nFrom RtcmModel Require Import Types.\nFrom RtcmGen Require Import GenFields.\nImport ListNotations.\nOpen Scope Z_scope.\n"]
    for l in t["layouts"]:
        o.append("Definition layout_%d : frag := %s." % (l["number"], coq_frag(l["layout"])))
    o.append("\nDefinition messages : list (Z * frag) := [")
    o.append(";\n".join("  (%d, layout_%d)" % (l["number"], l["number"]) for l in t["layouts"]))
    o.append("].\n")
    for k, v in sorted(t["consts"].items()):
        o.append("Definition %s : Z := %d." % (k, v))
    write_if_changed(os.path.join(outdir, "GenLayouts.v"), "\n".join(o) + "\n")
    # message table / features
    o = [hdr, "From Coq Require Import ZArith List String.\nImport ListNotations.\nOpen Scope Z_scope.\nOpen Scope string_scope.\n"]
    o.append("(* message! rows: (feature, variant, module, number) *)")
    o.append("Definition message_rows : list (string * string * string * Z) := [")
    o.append(";\n".join('  ("%s", "%s", "%s", %d)' % (r["feature"], r["variant"], r["module"], r["number"]) for r in t["messages"]))
    o.append("].\n")
    o.append("Definition include_rows : list (string * string) := [%s].\n" % "; ".join('("%s", "%s")' % (r["module"], r["feature"]) for r in t["includes"]))
    o.append("Definition files_present : list string := [%s].\n" % "; ".join('"%s"' % f for f in t["files_present"]))
    o.append("Definition cargo_feature_decls : list string := [%s].\n" % "; ".join('"%s"' % f for f in t["cargo_features"] if f.startswith("msg")))
    o.append("Definition cargo_all_msgs : list string := [%s].\n" % "; ".join('"%s"' % f for f in t["cargo_features"].get("all_msgs", [])))
    o.append("(* shared fragment modules and the features whose cfg(any(..)) list enables them *)")
    o.append("Definition shared_modules : list (string * list string) := [")
    o.append(";\n".join('  ("%s", [%s])' % (s["module"], "; ".join('"%s"' % f for f in s["features"])) for s in t["shared_modules"]))
    o.append("].\n")
    o.append("(* `use super::X::*` edges: (message module, shared module) *)")
    edges = []
    for mod, us in sorted(t["uses"].items()):
        for u in us:
            edges.append('("%s", "%s")' % (mod, u))
    o.append("Definition uses_edges : list (string * string) := [%s].\n" % "; ".join(edges))
    o.append("(* hand-written field modules gated per message feature: (feature, module), and the layouts that use them *)")
    o.append("Definition hand_field_gates : list (string * string) := [%s].\n" % "; ".join('("%s", "%s")' % (h["feature"], h["module"]) for h in t["hand_mods"]))
    hand_users = []
    kinds = {"utf8": "df_msg1029_utf8_str", "bias1059": "df_msg1059_biases", "bias1065": "df_msg1065_biases", "bias1230": "df_msg1230_biases"}

    def walk(l, acc):
        if l["k"] in kinds:
            acc.add(kinds[l["k"]])
        for key in ("fields", "fields1", "fields2"):
            for _, x in l.get(key, []):
                walk(x, acc)
        if "elem" in l:
            walk(l["elem"], acc)

    for l in t["layouts"]:
        acc = set()
        walk(l["layout"], acc)
        for h in sorted(acc):
            hand_users.append('("%s", "%s")' % (l["feature"], h))
    o.append("Definition hand_field_users : list (string * string) := [%s].\n" % "; ".join(hand_users))
    o.append("Definition loop_keywords_found : list string := [%s].\n" % "; ".join('"%s"' % k for k in sorted(t["loop_keywords"])))
    write_if_changed(os.path.join(outdir, "GenMessages.v"), "\n".join(o) + "\n")


def write_if_changed(path, content):
    try:
        if open(path).read() == content:
            return False
    except FileNotFoundError:
        pass
    os.makedirs(os.path.dirname(path), exist_ok=True)
    with open(path, "w") as fh:
        fh.write(content)
    return True


def emit_rust_glue(t, path):
    ids = [f["id"] for f in t["fields"]]
    sids = [s["id"] for s in t["strings"]]
    o = ["// GENERATED by tools/translate.py from /repo/src/df/dfs.rs -- do not edit.\n"]
    o.append("use crate::val::Val;\nuse rtcm_rs::rtcm_error::RtcmError;\nuse rtcm_rs::verif_hooks::{dfs, Assembler, Parser};\n")
    o.append(
        """
pub trait FromVal: Sized { fn from_val(v: &Val) -> Result<Self, String>; }
pub trait ToVal { fn to_val(&self) -> Val; }
macro_rules! int_conv { ($($t:ty),*) => { $(
    impl FromVal for $t { fn from_val(v: &Val) -> Result<Self, String> { match v { Val::Int(i) => <$t>::try_from(*i).map_err(|_| format!("{} out of range", i)), _ => Err("int expected".into()) } } }
    impl ToVal for $t { fn to_val(&self) -> Val { Val::Int(*self as i128) } }
)* } }
int_conv!(u8, u16, u32, u64, usize, i8, i16, i32, i64);
impl FromVal for f32 { fn from_val(v: &Val) -> Result<Self, String> { match v { Val::F32(b) => Ok(f32::from_bits(*b)), _ => Err("f32 expected".into()) } } }
impl ToVal for f32 { fn to_val(&self) -> Val { Val::F32(self.to_bits()) } }
impl FromVal for f64 { fn from_val(v: &Val) -> Result<Self, String> { match v { Val::F64(b) => Ok(f64::from_bits(*b)), _ => Err("f64 expected".into()) } } }
impl ToVal for f64 { fn to_val(&self) -> Val { Val::F64(self.to_bits()) } }
impl<T: FromVal> FromVal for Option<T> { fn from_val(v: &Val) -> Result<Self, String> { match v { Val::None => Ok(None), Val::Some(x) => Ok(Some(T::from_val(x)?)), _ => Err("option expected".into()) } } }
impl<T: ToVal> ToVal for Option<T> { fn to_val(&self) -> Val { match self { None => Val::None, Some(x) => Val::Some(Box::new(x.to_val())) } } }
impl<const N: usize> FromVal for rtcm_rs::util::Df88591String<N> { fn from_val(v: &Val) -> Result<Self, String> { match v { Val::Str(cps) => { let mut s = String::new(); for c in cps { s.push(char::from_u32(*c).ok_or("bad char")?); } Ok(rtcm_rs::util::Df88591String::<N>::from(s.as_str())) }, _ => Err("string expected".into()) } } }
impl<const N: usize> ToVal for rtcm_rs::util::Df88591String<N> { fn to_val(&self) -> Val { Val::Str(self.chars().map(|c| c as u32).collect()) } }

macro_rules! df_dispatch { ($($id:ident),*) => {
    pub fn fenc(name: &str, v: &Val, asm: &mut Assembler) -> Option<Result<Result<(), RtcmError>, String>> {
        match name {
            $( stringify!($id) => Some(match <dfs::$id::DataType as FromVal>::from_val(v) { Ok(x) => Ok(dfs::$id::encode(asm, &x)), Err(e) => Err(e) }), )*
            _ => None,
        }
    }
    pub fn fdec(name: &str, par: &mut Parser) -> Option<Result<Val, RtcmError>> {
        match name {
            $( stringify!($id) => Some(dfs::$id::decode(par).map(|x| x.to_val())), )*
            _ => None,
        }
    }
    pub const FIELD_IDS: &[&str] = &[ $( stringify!($id) ),* ];
} }
"""
    )
    o.append("df_dispatch!(%s);\n" % ", ".join(ids + sids))
    write_if_changed(path, "\n".join(o))


def main():
    outdir = os.path.join(VERIF, "coq", "Generated")
    try:
        t = build_tables()
        emit_coq(t, outdir)
        emit_rust_glue(t, os.path.join(VERIF, "harness", "src", "glue_gen.rs"))
        os.makedirs(os.path.join(VERIF, "build"), exist_ok=True)
        write_if_changed(os.path.join(VERIF, "build", "tables.json"), json.dumps(t, indent=1, sort_keys=True))
    except TranslateError as e:
        sys.stderr.write("TRANSLATE-ERROR: %s\n" % e)
        print("TRANSLATE-ERROR: %s" % e)
        sys.exit(2)
    print("translated: %d fields, %d strings, %d messages, %d signal rows" % (len(t["fields"]), len(t["strings"]), len(t["messages"]), sum(len(v) for v in t["sig_tables"].values())))


if __name__ == "__main__":
    main()

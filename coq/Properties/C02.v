(** C02 -- decoding is total: no panic and no hang on any byte input.
    Proofs are in Proofs/BitProofs.v (Parser::parse), Proofs/DecodeTotal.v (fields, strings, bias lists,
    MSM, every layout by induction) and Proofs/DecodeStream.v (frame, scanner, iterator).  The layouts and
    field parameters are regenerated from /repo on every run and the table obligation re-checked; an
    arithmetic step that can overflow (the model marks it Panic, as the overflow-checks profile does)
    makes [C02_layouts_decode_safe] fail for the row concerned.
    "Every floating-point field of a decoded message is finite" is [C02_finite] / [C02_message_finite]
    (Proofs/DecodeFinite.v, from the per-row bounds of C08); a finite value is not a NaN, so the derived
    PartialEq of the decoded message is reflexive on it. *)
From Coq Require Import ZArith List Lia Bool.
From RtcmModel Require Import Types BitIO Field Layout Frame Scan Message Top.
From RtcmGen Require Import GenSignals GenLayouts GenMessages.
From RtcmProofs Require Import ListZ FrameProofs ScanProofs BuildProofs DecodeTotal DecodeStream FieldProofs DecodeFinite.
Import ListNotations.
Open Scope Z_scope.

(** table obligation: for every field of every layout the carrier is at least 8 bits wide and holds the
    field, and the decode arithmetic (widen, times resolution, plus bias, in the row's Rust integer type)
    stays inside that type for the whole range of bit patterns; count fields are 1..8 / 1..16 bits wide;
    the count field of a length-in-the-middle layout is a plain integer *)
Theorem C02_layouts_decode_safe : forallb (fun m => frag_dec_ok (snd m)) messages = true.
Proof. vm_compute. reflexivity. Qed.

(** no layout of the table panics, whatever the payload bytes and wherever the cursor stands *)
Theorem C02_layout_total : forall n lay data off, In (n, lay) messages -> bytes_ok data = true -> 0 <= off ->
  t_decode_frag lay data off <> Panic.
Proof. intros n lay data off. apply (layout_total _ _ _ _ _ messages C02_layouts_decode_safe n). Qed.

(** Message::from_message_frame returns one of the four documented outcomes *)
Theorem C02_outcomes : forall f, bytes_ok (fr_data f) = true ->
  t_from_frame f = Ok MEmpty \/ t_from_frame f = Ok MCorrupt \/
  (exists n, t_from_frame f = Ok (MUnsupp n)) \/ (exists n v, t_from_frame f = Ok (MTyped n v)).
Proof. intros f. apply (from_frame_total _ _ _ _ _ messages C02_layouts_decode_safe). Qed.

(** MessageFrame::new followed by get_message on any byte string *)
Theorem C02_decode_bytes_total : forall d, bytes_ok d = true -> t_decode_bytes d <> Panic.
Proof. intros d. apply (decode_bytes_total _ _ _ _ _ messages C02_layouts_decode_safe). Qed.

(** scanning any buffer to exhaustion terminates (the fuel of [iter_run] is never exhausted) and every
    frame it yields decodes without panic *)
Theorem C02_stream_total : forall data, bytes_ok data = true ->
  exists t l, iter_run data = Ok (t, l) /\ forall p f, In (p, f) l -> t_from_frame f <> Panic.
Proof. intros data. apply (stream_total _ _ _ _ _ messages C02_layouts_decode_safe). Qed.
Check C02_stream_total : forall data, bytes_ok data = true ->
  exists t l, iter_run data = Ok (t, l) /\ forall p f, In (p, f) l -> t_from_frame f <> Panic.

(** table obligation: every field of every layout meets the round-trip side conditions of C08 (which bound
    the magnitude of every intermediate float) *)
Theorem C02_layouts_finite_ok : forallb (fun m => fin_ok (snd m)) messages = true.
Proof. vm_cast_no_check (eq_refl true). Qed.

(** every float inside a decoded body is finite *)
Theorem C02_finite : forall n lay data off v off', In (n, lay) messages -> bytes_ok data = true -> 0 <= off ->
  t_decode_frag lay data off = Ok (v, off') -> vfin v.
Proof.
  intros n lay data off v off' Hin Hb Ho H.
  pose proof C02_layouts_finite_ok as H1. rewrite forallb_forall in H1. specialize (H1 _ Hin). cbn [snd] in H1.
  pose proof C02_layouts_decode_safe as H2. rewrite forallb_forall in H2. specialize (H2 _ Hin). cbn [snd] in H2.
  exact (decode_frag_vfin sig_table ssr_table_1059 ssr_table_1065 SAT_CAP_1059 SAT_CAP_1065 lay H1 H2 data off v off' Hb Ho H).
Qed.

Theorem C02_message_finite : forall f n v, bytes_ok (fr_data f) = true -> t_from_frame f = Ok (MTyped n v) -> vfin v.
Proof.
  intros f n v Hb H. unfold t_from_frame, from_frame in H.
  destruct (fr_number f) as [k|]; [|discriminate].
  destruct (lookup k messages) as [lay|] eqn:Hlk; [|discriminate].
  destruct (decode_frag sig_table ssr_table_1059 ssr_table_1065 SAT_CAP_1059 SAT_CAP_1065 lay (fr_data f) 12) as [[v' o]|e|] eqn:D; try discriminate.
  inversion H; subst. eapply (C02_finite n lay); [apply lookup_In; exact Hlk|exact Hb| |exact D]. lia.
Qed.
Check C02_message_finite : forall f n v, bytes_ok (fr_data f) = true -> t_from_frame f = Ok (MTyped n v) -> vfin v.

(** non-vacuity: a hostile 1077 frame (all-ones masks: 64 x 32 cells) is Corrupt, not a panic *)
Example C02_example :
  t_decode_bytes (mkframe 0 ([67; 80] ++ repeat 255 40)) = Ok MCorrupt.
Proof. vm_compute. reflexivity. Qed.

Print Assumptions C02_layouts_decode_safe.
Print Assumptions C02_layout_total.
Print Assumptions C02_outcomes.
Print Assumptions C02_decode_bytes_total.
Print Assumptions C02_stream_total.
Print Assumptions C02_layouts_finite_ok.
Print Assumptions C02_finite.
Print Assumptions C02_message_finite.

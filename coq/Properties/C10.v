(** C10 -- MSM satellite, signal and cell masks follow the standard for any input order.
    Proofs are in Proofs/MsmProofs.v about Model/Msm.v (transliteration of msm_data_seg_frag!, msm_sat_frag!,
    msm_sig_frag!, mask_len_*, mask_to_id_vec_*, cell_mask_id_vec after the two cell-count fixes).
    PARTIAL: proved -- whatever the encoder accepts satisfies the preconditions of the property (satellites
    within 1..64 and pairwise distinct, every cell on a satellite within 1..64 with a recognised signal, the
    satellites of the cells equal to the satellites listed, at most 64 mask cells, at most 64 rows); and for
    every accepted input, in whatever order the caller listed it ([C10_masks], Proofs/MsmMasks.v): the three
    masks are written first, in the order satellite (64 bits), signal (32 bits), cell (|G| x |S| bits); the
    satellite mask has exactly the bits of the listed satellites, which are exactly the satellites of the
    cells; the signal mask has exactly the bits of the cells' signal identifiers; and the cell mask has
    exactly the bits at the row-major index of each cell -- (rank of its satellite among the listed
    satellites) x (number of signals) + (rank of its signal among the used signals), counted from the most
    significant bit -- with no two cells at one index.  The masks of all 49 MSM layouts start at payload
    bits 73 / 137 / 169.  The rows the encoder writes ([C10_rows], Proofs/MsmRows.v, Proofs/SortProofs.v) are
    a permutation of the caller's rows sorted by ascending satellite and, for signal rows, by ascending
    (satellite, signal identifier); every arrangement of the same rows gives the same sorted list, so the
    encoding does not depend on the caller's order.  And every non-empty data segment the encoder accepts, the
    decoder reads without error ([C10_segment_decodes], Proofs/MsmDecode.v): it finds the same masks, the listed
    satellites in ascending order, exactly the encoder's cells, and as many satellite and signal rows as were
    given, consuming exactly the bits written.  Not proved: that the decoded row *contents* are the encoded
    ones in normal form (the column-wise field round trip); covered by the ROUNDTRIP correspondence (model =
    implementation on every generated message) and by the probe that recomputes masks and rows independently. *)
From Coq Require Import ZArith List Lia Bool.
From RtcmModel Require Import Types BitIO SigId Msm Layout Top.
From RtcmGen Require Import GenSignals GenLayouts.
From Coq Require Import Sorting.Permutation Sorting.Sorted.
From RtcmModel Require Import Bias.
From RtcmGen Require Import GenMessages.
From RtcmProofs Require Import ListZ SigProofs MsmProofs MsmMasks SortProofs MsmRows DecodeFinite MsmDecode.
From RtcmModel Require Import Frame Message.
From RtcmGen Require Import GenMessages.
From RtcmProofs Require Import BuilderProofs SizeProofs BuildProofs RoundTrip RoundTripFrame EncodeTotalAll EncodeFrameAll Ext2Special RoundTripAll DecodeTotal MsmTotal MsmDecoded.
Import ListNotations.
Open Scope Z_scope.

(** everything the MSM encoder accepts is either the empty segment or satisfies the preconditions *)
Theorem C10_rejects : forall g a b st v st', t_encode_frag (FMsm g a b) st v = Ok st' ->
  exists sats sigs, v = VStruct [VList sats; VList sigs] /\ zlen sats <= 64 /\ zlen sigs <= 64 /\
    ((sats = [] /\ sigs = []) \/ msm_accepts (sig_table g) sats sigs).
Proof. intros g a b st v st' H. cbn [t_encode_frag encode_frag] in H. eapply msm_encode_accepts. exact H. Qed.
Check C10_rejects : forall g a b st v st', t_encode_frag (FMsm g a b) st v = Ok st' ->
  exists sats sigs, v = VStruct [VList sats; VList sigs] /\ zlen sats <= 64 /\ zlen sigs <= 64 /\
    ((sats = [] /\ sigs = []) \/
     ((forall w, In w sats -> exists s, sat_row_id w = Some s /\ 1 <= s <= 64) /\ NoDup (sat_ids sats) /\
      (forall w, In w sigs -> exists s sg i, sig_row_key w = Some (s, sg) /\ 1 <= s <= 64 /\ to_id (sig_table g) sg = Some i) /\
      exists sat_mask sig_mask ssm cv, enc_sat_mask sats 0 = Ok sat_mask /\ enc_sig_loop (sig_table g) sigs 0 0 [] = Ok (sig_mask, ssm, cv) /\
        ssm = sat_mask /\ mask_len 32 sig_mask * zlen sats <= 64)).

(** the satellite mask has bit 64-s (the most significant bit being satellite 1) exactly for the listed satellites *)
Theorem C10_sat_mask_bits : forall sats m, enc_sat_mask sats 0 = Ok m ->
  forall s, 1 <= s <= 64 -> Z.testbit m (64 - s) = existsb (Z.eqb s) (sat_ids sats).
Proof.
  intros sats m H s Hs. destruct (enc_sat_mask_spec sats 0 m H) as [_ [Hb _]]. rewrite (Hb s Hs), Z.bits_0. reflexivity.
Qed.

(** the masks of every accepted non-empty MSM data segment: see [msm_masks_spec] in Proofs/MsmMasks.v *)
Theorem C10_masks : forall g a b st sats sigs st', t_encode_frag (FMsm g a b) st (VStruct [VList sats; VList sigs]) = Ok st' ->
  ~ (sats = [] /\ sigs = []) ->
  exists sat_mask sig_mask cell_mask st1 st2 st3,
    put KU 64 (fst st) (snd st) sat_mask 64 = Ok st1 /\ put KU 32 (fst st1) (snd st1) sig_mask 32 = Ok st2 /\
    put KU 64 (fst st2) (snd st2) cell_mask (mask_len 32 sig_mask * zlen sats) = Ok st3 /\
    msm_masks_spec (sig_table g) sats sigs sat_mask sig_mask cell_mask.
Proof. intros g a b st sats sigs st' H. cbn [t_encode_frag encode_frag] in H. eapply msm_encode_masks. exact H. Qed.
Check C10_masks : forall g a b st sats sigs st', t_encode_frag (FMsm g a b) st (VStruct [VList sats; VList sigs]) = Ok st' ->
  ~ (sats = [] /\ sigs = []) ->
  exists sat_mask sig_mask cell_mask st1 st2 st3,
    put KU 64 (fst st) (snd st) sat_mask 64 = Ok st1 /\ put KU 32 (fst st1) (snd st1) sig_mask 32 = Ok st2 /\
    put KU 64 (fst st2) (snd st2) cell_mask (mask_len 32 sig_mask * zlen sats) = Ok st3 /\
    (let cells := cell_keys (sig_table g) sigs in
     let ccl := mask_len 32 sig_mask * zlen sats in
     (forall s, 1 <= s <= 64 -> Z.testbit sat_mask (64 - s) = existsb (Z.eqb s) (sat_ids sats)) /\
     (forall s, 1 <= s <= 64 -> existsb (Z.eqb s) (sat_ids sats) = existsb (fun c => fst c =? s) cells) /\
     (forall g0, 1 <= g0 <= 32 -> Z.testbit sig_mask (32 - g0) = existsb (fun c => snd c =? g0) cells) /\
     ccl <= 64 /\
     (forall t, 0 <= t -> Z.testbit cell_mask t = existsb (fun c => ccl - 1 - cell_index sat_mask sig_mask c =? t) cells) /\
     (forall c, In c cells -> 0 <= cell_index sat_mask sig_mask c <= ccl - 1) /\
     NoDup (map (cell_index sat_mask sig_mask) cells)).

(** the rows the row encoders receive: [enc_sat_rows] encodes [sort_by sat_cmp sats] and [enc_sig_rows] encodes
    [sort_by (sig_row_cmp tbl) sigs], column by column (Model/Msm.v); both are sorted permutations that do not
    depend on the caller's order *)
Theorem C10_rows : forall g a b st sats sigs st', t_encode_frag (FMsm g a b) st (VStruct [VList sats; VList sigs]) = Ok st' ->
  ~ (sats = [] /\ sigs = []) ->
  rows_sorted sat_key sat_cmp sats /\ rows_sorted (sig_key (sig_table g)) (sig_row_cmp (sig_table g)) sigs.
Proof. intros g a b st sats sigs st' H. cbn [t_encode_frag encode_frag] in H. eapply msm_rows_sorted. exact H. Qed.
Check C10_rows : forall g a b st sats sigs st', t_encode_frag (FMsm g a b) st (VStruct [VList sats; VList sigs]) = Ok st' ->
  ~ (sats = [] /\ sigs = []) ->
  (Permutation (sort_by sat_cmp sats) sats /\
   StronglySorted (fun x y => lexle (sat_key x) (sat_key y)) (sort_by sat_cmp sats) /\
   forall sats', Permutation sats sats' -> sort_by sat_cmp sats' = sort_by sat_cmp sats) /\
  (Permutation (sort_by (sig_row_cmp (sig_table g)) sigs) sigs /\
   StronglySorted (fun x y => lexle (sig_key (sig_table g) x) (sig_key (sig_table g) y)) (sort_by (sig_row_cmp (sig_table g)) sigs) /\
   forall sigs', Permutation sigs sigs' -> sort_by (sig_row_cmp (sig_table g)) sigs' = sort_by (sig_row_cmp (sig_table g)) sigs).

(** the decoder's reading of the masks: identifiers of the set bits in strictly ascending order (satellites from
    the 64-bit mask, signals from the 32-bit mask), and the cells in row-major order -- cell j (counting from
    the most significant bit of the cell mask) is (satellite j / |G|, signal j mod |G|) *)
Theorem C10_decode_ids : forall w m, 0 <= w ->
  (forall s, In s (mask_to_id_vec w m) <-> (1 <= s <= w /\ Z.testbit m (w - s) = true)) /\
  StronglySorted Z.lt (mask_to_id_vec w m).
Proof. exact mask_to_id_vec_spec. Qed.
Theorem C10_decode_cells : forall sat_vec sig_vec ccl cm cv, cells_loop (Z.to_nat ccl) 0 ccl cm sat_vec sig_vec = Ok cv ->
  cv = map (fun j => (znth sat_vec (j / zlen sig_vec), znth sig_vec (j mod zlen sig_vec)))
           (filter (fun j => Z.testbit cm (ccl - 1 - j)) (map (fun k => 0 + Z.of_nat k) (seq 0 (Z.to_nat ccl)))).
Proof. intros sat_vec sig_vec ccl cm cv. apply cells_loop_spec. Qed.

Lemma C18_tables g : table_ok 2 32 (sig_table g) = true.
Proof. destruct g; vm_compute; reflexivity. Qed.

(** table obligation: the row fields of every MSM layout meet the field conditions of C08/C02 *)
Fixpoint msm_specs_ok (f : frag) : bool :=
  match f with
  | FMsm _ a b => forallb fok a && forallb fok b
  | FStruct l => forallb msm_specs_ok l
  | _ => true
  end.
Theorem C10_msm_specs_ok : forallb (fun m => msm_specs_ok (snd m)) messages = true.
Proof. vm_cast_no_check (eq_refl true). Qed.

(** every non-empty data segment the encoder accepts decodes, never to InvalidSatelliteSignalCount,
    InvalidSignalId or a buffer overflow, with as many satellite rows and signal rows as were given, and the
    decoder stops exactly where the encoder stopped *)
Theorem C10_segment_decodes : forall g a b d o sats sigs d' o', forallb fok a = true -> forallb fok b = true ->
  bytes_ok d = true -> 0 <= o ->
  t_encode_frag (FMsm g a b) (d, o) (VStruct [VList sats; VList sigs]) = Ok (d', o') -> ~ (sats = [] /\ sigs = []) ->
  exists sats' sigs', t_decode_frag (FMsm g a b) d' o = Ok (VStruct [VList sats'; VList sigs'], o') /\
    length sats' = length sats /\ length sigs' = length sigs.
Proof.
  intros g a b d o sats sigs d' o' Ha Hb Hbd Ho H Hne. cbn [t_encode_frag t_decode_frag encode_frag decode_frag] in *.
  exact (msm_segment_decodes (sig_table g) 2 32 (C18_tables g) a b Ha Hb d o sats sigs d' o' Hbd Ho H Hne).
Qed.

(** non-vacuity: GPS satellites {5, 3} with signals 1C on 5 and 2W, 1C on 3, listed out of order:
    satellite mask 00101000.., signal mask bits 2 (1C) and 10 (2W), cell mask 11|10 (satellite 3: both, satellite 5: 1C) *)
Example C10_masks_example :
  match t_encode_frag (FMsm G_gps [] []) (repeat 0 30, 0)
          (VStruct [VList [VStruct [VInt 5]; VStruct [VInt 3]];
                    VList [VStruct [VInt 5; VSig 1 67]; VStruct [VInt 3; VSig 2 87]; VStruct [VInt 3; VSig 1 67]]]) with
  | Ok (d, o) => o = 100 /\ firstn 13 d = [40; 0; 0; 0; 0; 0; 0; 0; 64; 64; 0; 0; 224]
  | _ => False
  end.
Proof. vm_compute. split; reflexivity. Qed.

(** table obligation [msm_mask_offsets]: in every MSM layout the data segment is the last fragment and is
    preceded by 61 header bits, so that with the 12-bit message number the masks start at bits 73, 137, 169 *)
Definition header_bits (f : frag) : option Z :=
  match f with
  | FStruct l =>
      (fix go (l : list frag) (acc : Z) : option Z :=
         match l with
         | [] => None
         | [FMsm _ _ _] => Some acc
         | FField fs :: r => go r (acc + f_len fs)
         | _ => None
         end) l 0
  | _ => None
  end.
Fixpoint has_msm (f : frag) : bool :=
  match f with
  | FMsm _ _ _ => true
  | FStruct l => existsb has_msm l
  | _ => false
  end.
Theorem C10_mask_offsets :
  forallb (fun m => negb (has_msm (snd m)) || match header_bits (snd m) with Some h => 12 + h =? 73 | None => false end) messages = true /\
  List.length (filter (fun m => has_msm (snd m)) messages) = 49%nat.
Proof. split; vm_compute; reflexivity. Qed.

(** every data segment the decoder accepts, whatever the frame: satellite rows in strictly ascending order of
    identifier (all within 1..64), signal rows in strictly ascending (satellite, signal identifier) order --
    row-major -- each on a listed satellite and a recognised signal *)
Theorem C10_decoded_order : forall g a b data off sats sigs off',
  t_decode_frag (FMsm g a b) data off = Ok (VStruct [VList sats; VList sigs], off') ->
  exists ids cells, map sat_row_id sats = map Some ids /\ StronglySorted Z.lt ids /\ (forall s, In s ids -> 1 <= s <= 64) /\
    map sig_row_key sigs = map (cell_key (sig_table g)) cells /\ Forall (fun c => cell_key (sig_table g) c <> None) cells /\
    StronglySorted lexlt cells /\ (forall c, In c cells -> In (fst c) ids /\ 1 <= snd c <= 32).
Proof. intros g a b data off sats sigs off' H. cbn [t_decode_frag decode_frag] in H. exact (msm_decoded_order (sig_table g) a b data off sats sigs off' H). Qed.

(** ---------- at the public API ---------- *)
(** table obligation: every layout that ends in an MSM data segment is plain header fields followed by that
    segment, and the row fields of the segment meet the side conditions of C08 *)
Theorem C10_msm_layouts_tail : forallb (fun m => match tail_form (snd m) with
                                                  | Some (hd, FMsm g a b) => forallb plain hd && forallb counts_ok hd && forallb fok a && forallb fok b
                                                  | _ => true end) messages = true.
Proof. vm_cast_no_check (eq_refl true). Qed.

Lemma caps_nonneg10 : 0 <= SAT_CAP_1059 /\ 0 <= SAT_CAP_1065.
Proof. split; vm_compute; discriminate. Qed.
Lemma layouts_fit10 : forallb (fun m => frag_wfb (snd m) && (12 + max_bits SAT_CAP_1059 SAT_CAP_1065 (snd m) <=? 8184)) messages = true.
Proof. vm_compute. reflexivity. Qed.
Lemma numbers_fit10 : forallb (fun m => (0 <=? fst m) && (fst m <? 4096)) messages = true.
Proof. vm_compute. reflexivity. Qed.

(** every MSM message that build_message accepts (empty data segment included), from any builder history:
    the frame is accepted by MessageFrame::new, carries the message's number, and get_message returns the
    typed message of that number (never Corrupt) with a header of the same shape and as many satellite rows
    and signal rows as were given *)
Theorem C10_frame_decodes : forall bld n lay hd g a b hdr sats sigs fr,
  reach sig_table ssr_table_1059 ssr_table_1065 SAT_CAP_1059 SAT_CAP_1065 messages bld ->
  lookup n messages = Some lay -> tail_form lay = Some (hd, FMsm g a b) ->
  snd (t_build bld (MTyped n (VStruct (hdr ++ [VStruct [VList sats; VList sigs]])))) = Ok fr ->
  exists f hdr' sats' sigs', frame_new fr = Ok f /\ fr_number f = Some n /\
    t_from_frame f = Ok (MTyped n (VStruct (hdr' ++ [VStruct [VList sats'; VList sigs']]))) /\
    Forall2 shape hdr hdr' /\ length sats' = length sats /\ length sigs' = length sigs.
Proof.
  intros bld n lay hd g a b hdr sats sigs fr Hreach Hlk Ht H.
  pose proof (lookup_In messages n lay Hlk) as Hin.
  pose proof C10_msm_layouts_tail as Hc. rewrite forallb_forall in Hc. specialize (Hc _ Hin). cbn [snd] in Hc. rewrite Ht in Hc.
  apply andb_true_iff in Hc. destruct Hc as [Hc Hfb]. apply andb_true_iff in Hc. destruct Hc as [Hc Hfa]. apply andb_true_iff in Hc. destruct Hc as [Hp Hcn].
  unfold t_build in H.
  rewrite (history_independent sig_table ssr_table_1059 ssr_table_1065 SAT_CAP_1059 SAT_CAP_1065 messages bld _ Hreach) in H.
  unfold build_fresh, build in H. cbn [builder_new b_has_run b_data] in H. change (211 :: repeat 0 1028) with fresh_data in H.
  destruct (build_on sig_table ssr_table_1059 ssr_table_1065 SAT_CAP_1059 SAT_CAP_1065 messages fresh_data _) as [[fr0 d']|e|] eqn:Hb; cbn [snd] in H; try discriminate.
  inversion H; subst fr0. clear H.
  set (Q := fun v : val => exists s1 s2, v = VStruct [VList s1; VList s2]).
  set (R := fun v v' : val => exists s1 s2 s1' s2', v = VStruct [VList s1; VList s2] /\ v' = VStruct [VList s1'; VList s2'] /\ length s1' = length s1 /\ length s2' = length s2).
  destruct (tail_build_decodes sig_table ssr_table_1059 ssr_table_1065 SAT_CAP_1059 SAT_CAP_1065 messages (proj1 caps_nonneg10) (proj2 caps_nonneg10) layouts_fit10 numbers_fit10
              (FMsm g a b) Q R) with (n := n) (lay := lay) (hd := hd) (vs1 := hdr) (x := VStruct [VList sats; VList sigs]) (fr := fr) (d' := d')
    as [f [hdr' [x' [Hn [Hnum [Hfrom [Sh [s1 [s2 [s1' [s2' [E1 [E2 [L1 L2]]]]]]]]]]]]]]; try assumption.
  - apply special_frame. cbn [special_ok]. rewrite Hfa, Hfb. replace (SigProofs.table_ok 1 32 (sig_table g)) with true by (destruct g; vm_compute; reflexivity). reflexivity.
  - intros d o v d1 o1 Hbd Ho E [s1 [s2 ->]].
    assert (Hcase : (s1 = [] /\ s2 = []) \/ ~ (s1 = [] /\ s2 = [])) by (destruct s1; [destruct s2; [left; split; reflexivity|right; intros [_ X]; discriminate X]|right; intros [X _]; discriminate X]).
    destruct Hcase as [[-> ->]|Hne2].
    + cbn [encode_frag] in E. pose proof (msm_empty_decodes (sig_table g) a b d o d1 o1 Hbd Ho E) as D.
      eexists. split; [cbn [decode_frag]; exact D|]. exists [], [], [], []. repeat split; reflexivity.
    + destruct (C10_segment_decodes g a b d o s1 s2 d1 o1 Hfa Hfb Hbd Ho E Hne2) as [s1' [s2' [D [L1 L2]]]].
      eexists. split; [exact D|]. exists s1, s2, s1', s2'. repeat split; assumption.
  - cbn [decode_frag]. apply msm_decode_ext2; apply fok_dec; assumption.
  - intros d off v off' _ _ E. cbn [decode_frag] in E. eapply msm_decode_mono; [| |exact E]; apply fok_dec; assumption.
  - exists sats, sigs. reflexivity.
  - inversion E1; subst s1 s2. exists f, hdr', s1', s2'. subst x'. repeat split; assumption.
Qed.

Print Assumptions C10_rejects.
Print Assumptions C10_sat_mask_bits.
Print Assumptions C10_mask_offsets.
Print Assumptions C10_masks.
Print Assumptions C10_rows.
Print Assumptions C10_decode_ids.
Print Assumptions C10_decode_cells.
Print Assumptions C10_msm_specs_ok.
Print Assumptions C10_segment_decodes.
Print Assumptions C10_msm_layouts_tail.
Print Assumptions C10_frame_decodes.
Print Assumptions C10_decoded_order.

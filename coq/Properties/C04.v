(** C04 -- corrupted frames are never delivered.
    Statements only; proofs are in Proofs/CrcProofs.v (the LFSR algebra) and Proofs/CorruptProofs.v.
    The error pattern E is a byte string xor-ed onto a valid frame F; [keeps_header E] says it touches
    neither the preamble nor the ten length bits (so: reserved bits, payload, checksum only); its bit
    string [bits E] (MSB first) is classified by [single_bit], [double_bit], [odd_weight], [burst24]. *)
From Coq Require Import ZArith List Lia Bool.
From RtcmModel Require Import Types Crc Frame Scan.
From RtcmProofs Require Import ListZ FrameProofs ScanProofs CrcProofs CorruptProofs.
Import ListNotations.
Open Scope Z_scope.

Definition valid_exact (F : list Z) : Prop :=
  bytes_ok F = true /\ frame_accept F /\ zlen F = frame_length F + 6.

Definition in_class (e : list bool) : Prop :=
  single_bit e \/ double_bit e \/ odd_weight e \/ burst24 e.

Lemma frame_bits_bound F E : valid_exact F -> length E = length F -> Z.of_nat (length (bits E)) <= 8232.
Proof.
  intros [Hb [_ Hz]] Hl. rewrite bits_length, Hl. destruct (frame_length_bytes F Hb) as [_ HL]. unfold zlen in Hz. lia.
Qed.

Lemma class_detected F E : valid_exact F -> length E = length F -> in_class (bits E) -> crc_bits (bits E) 0 <> 0.
Proof.
  intros HF Hl [H|[H|[H|H]]].
  - apply single_bit_detected; exact H.
  - apply double_bit_detected; [exact H|eapply frame_bits_bound; eassumption].
  - apply odd_weight_detected; exact H.
  - apply burst24_detected; exact H.
Qed.

(** one flipped bit, any two flipped bits, any odd number of flipped bits, or any non-zero pattern confined
    to at most 24 contiguous bits: the damaged frame, followed by anything, is reported not valid ... *)
Theorem C04_rejected : forall F E suffix, valid_exact F -> length E = length F -> keeps_header E ->
  in_class (bits E) -> frame_new (xorbytes F E ++ suffix) = Err NotValid.
Proof.
  intros F E suffix HF Hl Hk Hc. pose proof (class_detected F E HF Hl Hc) as Hs. destruct HF as [Hb [Ha Hz]].
  apply damaged_frame_not_valid_suffix; assumption.
Qed.

Theorem C04_single : forall F E suffix, valid_exact F -> length E = length F -> keeps_header E ->
  single_bit (bits E) -> frame_new (xorbytes F E ++ suffix) = Err NotValid.
Proof. intros. apply C04_rejected; try assumption. left; assumption. Qed.
Theorem C04_double : forall F E suffix, valid_exact F -> length E = length F -> keeps_header E ->
  double_bit (bits E) -> frame_new (xorbytes F E ++ suffix) = Err NotValid.
Proof. intros. apply C04_rejected; try assumption. right; left; assumption. Qed.
Theorem C04_odd : forall F E suffix, valid_exact F -> length E = length F -> keeps_header E ->
  odd_weight (bits E) -> frame_new (xorbytes F E ++ suffix) = Err NotValid.
Proof. intros. apply C04_rejected; try assumption. right; right; left; assumption. Qed.
Theorem C04_burst24 : forall F E suffix, valid_exact F -> length E = length F -> keeps_header E ->
  burst24 (bits E) -> frame_new (xorbytes F E ++ suffix) = Err NotValid.
Proof. intros. apply C04_rejected; try assumption. right; right; right; assumption. Qed.

(** ... and the scanner does not deliver it: whatever it delivers from that buffer starts after byte 0 *)
Theorem C04_not_delivered : forall F E suffix c f, valid_exact F -> bytes_ok suffix = true ->
  length E = length F -> keeps_header E -> in_class (bits E) ->
  scan (xorbytes F E ++ suffix) = Ok (c, Some f) -> 1 <= c - frame_len f.
Proof.
  intros F E suffix c f HF Hbs Hl Hk Hc. pose proof (class_detected F E HF Hl Hc) as Hs. destruct HF as [Hb [Ha Hz]].
  apply damaged_frame_not_delivered; assumption.
Qed.

(** the finite obligation behind the two-bit case: x^k <> 1 modulo the generator for 1 <= k <= 8232,
    8232 being the number of bits of the longest frame (1029 bytes) *)
Theorem C04_x_order : forall j, 1 <= Z.of_nat j <= 8232 -> mulxn j 1 <> 1.
Proof. exact x_order. Qed.

(** non-vacuity: a concrete valid frame, and one member of each class *)
Example C04_example_valid : valid_exact (mkframe 0 [62; 128]).
Proof.
  split; [vm_compute; reflexivity|]. split; [apply (mkframe_accept 0 [62; 128]); cbn; lia|vm_compute; reflexivity].
Qed.
Example C04_example_single : keeps_header [0; 0; 0; 0; 16; 0; 0; 0] /\ single_bit (bits [0; 0; 0; 0; 16; 0; 0; 0]).
Proof. split; [repeat split; vm_compute; reflexivity|]. exists 35%nat, 28%nat. vm_compute. reflexivity. Qed.
Example C04_example_burst : keeps_header [0; 4; 0; 0; 0; 129; 255; 1] /\ burst24 (bits [0; 0; 0; 0; 0; 129; 255; 1]).
Proof.
  split; [repeat split; vm_compute; reflexivity|].
  exists 40%nat, (bits [129; 255; 1]), 0%nat. split; [vm_compute; reflexivity|]. split; [cbn; lia|vm_compute; discriminate].
Qed.
Example C04_example_run : frame_new (xorbytes (mkframe 0 [62; 128]) [0; 0; 0; 0; 16; 0; 0; 0]) = Err NotValid.
Proof. vm_compute. reflexivity. Qed.

Print Assumptions C04_rejected.
Print Assumptions C04_not_delivered.
Print Assumptions C04_x_order.

From Coq Require Import ZArith List Lia Bool Btauto.
Import ListNotations.
Open Scope Z_scope.

Definition G : Z := 0x864CFB.
Definition st_ok (s : Z) := 0 <= s < 2 ^ 24.
Definition mulx (s : Z) : Z := Z.lxor ((2 * s) mod 2 ^ 24) (if Z.testbit s 23 then G else 0).
Definition step (s : Z) (b : bool) : Z := Z.lxor (mulx s) (if b then 1 else 0).
Definition synd (bits : list bool) : Z := fold_left step bits 0.

Lemma lxor_range a b n : 0 <= n -> 0 <= a < 2 ^ n -> 0 <= b < 2 ^ n -> 0 <= Z.lxor a b < 2 ^ n.
Proof.
  intros Hn Ha Hb. assert (H0: 0 <= Z.lxor a b) by (apply Z.lxor_nonneg; split; lia).
  split; [exact H0|].
  destruct (Z.eq_dec (Z.lxor a b) 0) as [->|Hz]; [apply Z.pow_pos_nonneg; lia|].
  assert (Hn0 : 0 < n).
  { destruct (Z.eq_dec n 0) as [->|]; [|lia]. simpl in Ha, Hb. assert (a = 0) by lia. assert (b = 0) by lia. subst. simpl in Hz. congruence. }
  apply Z.log2_lt_pow2; [lia|].
  eapply Z.le_lt_trans; [apply Z.log2_lxor; lia|].
  apply Z.max_lub_lt.
  - destruct (Z.eq_dec a 0) as [->|]; [simpl; lia|]. apply Z.log2_lt_pow2; lia.
  - destruct (Z.eq_dec b 0) as [->|]; [simpl; lia|]. apply Z.log2_lt_pow2; lia.
Qed.

Lemma mulx_ok s : st_ok s -> st_ok (mulx s).
Proof.
  unfold st_ok, mulx. intros H. apply lxor_range; [lia| |].
  - apply Z.mod_pos_bound. lia.
  - destruct (Z.testbit s 23); unfold G; lia.
Qed.

Lemma mod_lxor a b n : 0 <= n -> (Z.lxor a b) mod 2 ^ n = Z.lxor (a mod 2 ^ n) (b mod 2 ^ n).
Proof.
  intros. rewrite <- !Z.land_ones by lia. apply Z.bits_inj'. intros k Hk.
  rewrite !Z.land_spec, !Z.lxor_spec, !Z.land_spec.
  destruct (Z.testbit a k), (Z.testbit b k), (Z.testbit (Z.ones n) k); reflexivity.
Qed.

Lemma double_lxor a b : 2 * Z.lxor a b = Z.lxor (2 * a) (2 * b).
Proof. rewrite !(Z.mul_comm 2). change 2 with (2 ^ 1). rewrite <- !Z.shiftl_mul_pow2 by lia. apply Z.shiftl_lxor. Qed.

Lemma cond_lxor (x y : bool) (g : Z) :
  (if xorb x y then g else 0) = Z.lxor (if x then g else 0) (if y then g else 0).
Proof. destruct x, y; cbn [xorb]; rewrite ?Z.lxor_nilpotent, ?Z.lxor_0_l, ?Z.lxor_0_r; reflexivity. Qed.

Lemma mulx_linear a b : mulx (Z.lxor a b) = Z.lxor (mulx a) (mulx b).
Proof.
  unfold mulx. rewrite Z.lxor_spec, double_lxor, mod_lxor, cond_lxor by lia.
  rewrite !Z.lxor_assoc. f_equal.
  rewrite <- !Z.lxor_assoc. rewrite (Z.lxor_comm ((2 * b) mod 2 ^ 24)). reflexivity.
Qed.

Lemma testbit23 s : st_ok s -> Z.testbit s 23 = (2 ^ 23 <=? s).
Proof.
  unfold st_ok. intros H. rewrite Z.testbit_odd, Z.shiftr_div_pow2 by lia.
  destruct (Z.leb_spec (2 ^ 23) s).
  - replace (s / 2 ^ 23) with 1; [reflexivity|]. apply Z.div_unique with (s - 2 ^ 23); lia.
  - rewrite Z.div_small by lia. reflexivity.
Qed.

(* inverse of mulx *)
Definition divx (s : Z) : Z := if Z.testbit s 0 then Z.lxor s G / 2 + 2 ^ 23 else s / 2.

Lemma mulx_inv s : st_ok s -> divx (mulx s) = s.
Proof.
  intros H. unfold mulx, divx. rewrite (testbit23 s H). unfold st_ok in H.
  destruct (Z.leb_spec (2 ^ 23) s) as [Hs|Hs].
  - replace ((2 * s) mod 2 ^ 24) with (2 * (s - 2 ^ 23)).
    2:{ apply Z.mod_unique_pos with 1; lia. }
    set (t := s - 2 ^ 23).
    assert (T0: Z.testbit (Z.lxor (2 * t) G) 0 = true).
    { rewrite Z.lxor_spec, Z.testbit_even_0. reflexivity. }
    rewrite T0. rewrite Z.lxor_assoc, Z.lxor_nilpotent, Z.lxor_0_r.
    rewrite Z.mul_comm, Z.div_mul by lia. subst t. lia.
  - rewrite Z.lxor_0_r. rewrite Z.mod_small by lia.
    rewrite Z.testbit_even_0. rewrite Z.mul_comm, Z.div_mul by lia. reflexivity.
Qed.

Lemma mulx_inj a b : st_ok a -> st_ok b -> mulx a = mulx b -> a = b.
Proof. intros Ha Hb E. rewrite <- (mulx_inv a Ha), <- (mulx_inv b Hb), E. reflexivity. Qed.

Lemma mulx_0 : mulx 0 = 0. Proof. reflexivity. Qed.
Lemma mulx_nonzero s : st_ok s -> s <> 0 -> mulx s <> 0.
Proof. intros H Hn E. apply Hn. apply mulx_inj; [assumption|unfold st_ok; lia|]. rewrite E. reflexivity. Qed.

(* order of x exceeds the longest frame: finite obligation *)
Fixpoint order_ok (k : nat) (s : Z) : bool :=
  match k with O => true | S k' => let s' := mulx s in negb (s' =? 1) && order_ok k' s' end.
Lemma x_order_gt_8232 : order_ok (Z.to_nat 8232) 1 = true.
Proof. vm_compute. reflexivity. Qed.

(* parity *)
Definition parity (s : Z) : bool := fold_right xorb false (map (fun i => Z.testbit s (Z.of_nat i)) (seq 0 24)).
Lemma parity_lxor a b : parity (Z.lxor a b) = xorb (parity a) (parity b).
Proof.
  unfold parity. induction (seq 0 24) as [|i l IH]; cbn [map fold_right]; [reflexivity|].
  rewrite IH, Z.lxor_spec. destruct (Z.testbit a (Z.of_nat i)), (Z.testbit b (Z.of_nat i)), (fold_right xorb false (map (fun i => Z.testbit a (Z.of_nat i)) l)), (fold_right xorb false (map (fun i => Z.testbit b (Z.of_nat i)) l)); reflexivity.
Qed.
Lemma parity_G : parity G = true. Proof. vm_compute. reflexivity. Qed.
Lemma parity_double s : st_ok s -> parity ((2 * s) mod 2 ^ 24) = xorb (parity s) (Z.testbit s 23).
Proof.
  intros H. unfold parity.
  assert (B: forall i, (0 <= i < 24) -> Z.testbit ((2 * s) mod 2 ^ 24) i = if i =? 0 then false else Z.testbit s (i - 1)).
  { intros i Hi. rewrite Z.mod_pow2_bits_low by lia. destruct (Z.eqb_spec i 0) as [->|Hne].
    - apply Z.testbit_even_0.
    - replace i with (Z.succ (i - 1)) at 1 by lia. apply Z.testbit_even_succ. lia. }
  cbn [seq map fold_right].
  rewrite !B by (cbn; lia). cbn [Z.of_nat Pos.of_succ_nat Pos.succ Z.eqb Z.sub Z.add Z.opp Z.pos_sub Pos.pred_double Z.succ_double Z.pred_double Z.double].
  repeat match goal with |- context [Z.testbit s ?k] => let b := fresh "b" in set (b := Z.testbit s k); clearbody b end.
  btauto.
Qed.

#!/bin/bash
# usage: seedtest.sh <patch.diff> Cxx [Cyy ...]   -- apply a seeded change to /repo, run the quick checks, undo it
patch="$1"; shift
git -C /repo apply "$patch" || { echo "patch does not apply"; exit 2; }
for p in "$@"; do
  out=$(/verif/check $p --tier quick 2>/dev/null | tail -3)
  echo "== $p: $(echo "$out" | tr '\n' '|' | cut -c1-700)"
done
git -C /repo checkout -- . 

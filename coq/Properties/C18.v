(** C18 -- signal identifier tables are one-to-one and ordered as on the wire.
    The tables are regenerated from src/msg/msm_mappings.rs on every run (Generated/GenSignals.v); the
    table obligations below are re-checked by computation against what the source says now. *)
From Coq Require Import ZArith List Lia Bool.
From RtcmModel Require Import Types SigId.
From RtcmGen Require Import GenSignals.
From RtcmProofs Require Import SigProofs.
Import ListNotations.
Open Scope Z_scope.

(** table obligation: for each of the 7 constellations the ids are pairwise distinct, the descriptors
    are pairwise distinct and every id lies in 2..32 *)
Theorem C18_tables_ok : forall g, table_ok 2 32 (sig_table g) = true.
Proof. intros g; destruct g; vm_compute; reflexivity. Qed.

(** bijection between recognised descriptors and their positions *)
Theorem C18_bijection : forall g s i,
  (to_id (sig_table g) s = Some i -> to_sig (sig_table g) i = Some s /\ 2 <= i <= 32) /\
  (to_sig (sig_table g) i = Some s -> to_id (sig_table g) s = Some i).
Proof.
  intros g s i. split.
  - intros H. split; [eapply to_sig_to_id; [apply C18_tables_ok|exact H]|eapply to_id_range; [apply C18_tables_ok|exact H]].
  - intros H. eapply to_id_to_sig; [apply C18_tables_ok|exact H].
Qed.

Theorem C18_is_valid_iff : forall g s, is_valid (sig_table g) s = true <-> In s (map snd (sig_table g)).
Proof. intros g s. eapply is_valid_iff. apply C18_tables_ok. Qed.

(** the comparison is a consistent total order *)
Theorem C18_cmp_total_order : forall g a b c,
  sig_cmp (sig_table g) a a = Eq /\
  (sig_cmp (sig_table g) a b = Eq -> a = b) /\
  sig_cmp (sig_table g) a b = CompOpp (sig_cmp (sig_table g) b a) /\
  (sig_cmp (sig_table g) a b = Lt -> sig_cmp (sig_table g) b c = Lt -> sig_cmp (sig_table g) a c = Lt).
Proof.
  intros g a b c. split; [apply cmp_refl|]. split; [eapply cmp_eq; apply C18_tables_ok|].
  split; [apply cmp_antisym|apply cmp_trans].
Qed.

(** recognised descriptors compare in the order of their positions, unrecognised ones after them *)
Theorem C18_cmp_recognised : forall g a b i j, to_id (sig_table g) a = Some i -> to_id (sig_table g) b = Some j ->
  sig_cmp (sig_table g) a b = (i ?= j).
Proof. intros g. apply cmp_recognised. Qed.
Theorem C18_cmp_unrecognised_last : forall g a b i, to_id (sig_table g) a = Some i -> to_id (sig_table g) b = None ->
  sig_cmp (sig_table g) a b = Lt /\ sig_cmp (sig_table g) b a = Gt.
Proof. intros g. apply cmp_unrecognised_last. Qed.

(** the standardised positions (RTCM 10403.x MSM signal tables / RINEX band+attribute), typed by hand
    from the standard, are rows of the regenerated tables: (constellation, band, attribute code, position) *)
Definition standard_positions : list (gnss * (Z * Z) * Z) :=
  (* GPS *)
  [(G_gps, (1, 67), 2); (G_gps, (1, 80), 3); (G_gps, (1, 87), 4); (G_gps, (2, 67), 8); (G_gps, (2, 80), 9); (G_gps, (2, 87), 10);
   (G_gps, (2, 83), 15); (G_gps, (2, 76), 16); (G_gps, (2, 88), 17); (G_gps, (5, 73), 22); (G_gps, (5, 81), 23); (G_gps, (5, 88), 24);
   (G_gps, (1, 83), 30); (G_gps, (1, 76), 31); (G_gps, (1, 88), 32);
  (* GLONASS *)
   (G_glo, (1, 67), 2); (G_glo, (1, 80), 3); (G_glo, (2, 67), 8); (G_glo, (2, 80), 9);
  (* Galileo *)
   (G_gal, (1, 67), 2); (G_gal, (1, 65), 3); (G_gal, (1, 66), 4); (G_gal, (1, 88), 5); (G_gal, (1, 90), 6);
   (G_gal, (6, 67), 8); (G_gal, (6, 65), 9); (G_gal, (6, 66), 10); (G_gal, (6, 88), 11); (G_gal, (6, 90), 12);
   (G_gal, (7, 73), 14); (G_gal, (7, 81), 15); (G_gal, (7, 88), 16); (G_gal, (8, 73), 18); (G_gal, (8, 81), 19); (G_gal, (8, 88), 20);
   (G_gal, (5, 73), 22); (G_gal, (5, 81), 23); (G_gal, (5, 88), 24);
  (* SBAS *)
   (G_sbas, (1, 67), 2); (G_sbas, (5, 73), 22); (G_sbas, (5, 81), 23); (G_sbas, (5, 88), 24);
  (* QZSS *)
   (G_qzss, (1, 67), 2); (G_qzss, (6, 83), 9); (G_qzss, (6, 76), 10); (G_qzss, (6, 88), 11); (G_qzss, (2, 83), 15); (G_qzss, (2, 76), 16);
   (G_qzss, (2, 88), 17); (G_qzss, (5, 73), 22); (G_qzss, (5, 81), 23); (G_qzss, (5, 88), 24); (G_qzss, (1, 83), 30); (G_qzss, (1, 76), 31); (G_qzss, (1, 88), 32);
  (* BeiDou *)
   (G_bds, (2, 73), 2); (G_bds, (2, 81), 3); (G_bds, (2, 88), 4); (G_bds, (6, 73), 8); (G_bds, (6, 81), 9); (G_bds, (6, 88), 10);
   (G_bds, (7, 73), 14); (G_bds, (7, 81), 15); (G_bds, (7, 88), 16);
  (* NavIC *)
   (G_navic, (5, 65), 22)].

Theorem C18_standard_positions :
  forallb (fun r => match to_id (sig_table (fst (fst r))) (snd (fst r)) with Some i => i =? snd r | None => false end)
          standard_positions = true.
Proof. vm_compute. reflexivity. Qed.

Example C18_example : to_id (sig_table G_gps) (2, 87) = Some 10 /\ sig_cmp (sig_table G_gps) (5, 88) (1, 83) = Lt /\
                      sig_cmp (sig_table G_gps) (9, 63) (1, 88) = Gt.
Proof. repeat split; vm_compute; reflexivity. Qed.

Print Assumptions C18_tables_ok.
Print Assumptions C18_bijection.
Print Assumptions C18_cmp_total_order.
Print Assumptions C18_standard_positions.

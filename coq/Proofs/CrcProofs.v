(** CRC-24Q as a linear feedback shift register over GF(2): linearity, invertibility of the shift,
    order of x, parity; what error patterns can leave the syndrome zero (C04). *)
From Coq Require Import ZArith List Lia Bool Btauto.
From RtcmModel Require Import Types Crc.
From RtcmProofs Require Import BitLemmas ListZ.
Import ListNotations.
Open Scope Z_scope.

Definition st_ok (s : Z) : Prop := 0 <= s < two24.
Definition G : Z := crc_poly.

Lemma two24_pow : two24 = 2 ^ 24. Proof. reflexivity. Qed.

Lemma mulx_alt s : mulx s = Z.lxor ((2 * s) mod two24) (if Z.testbit s 23 then G else 0).
Proof. unfold mulx. destruct (Z.testbit s 23); [reflexivity|rewrite Z.lxor_0_r; reflexivity]. Qed.

Lemma mulx_ok s : st_ok s -> st_ok (mulx s).
Proof.
  unfold st_ok. intros H. rewrite mulx_alt. rewrite two24_pow in *. apply lxor_range; [lia| |].
  - apply Z.mod_pos_bound. lia.
  - destruct (Z.testbit s 23); unfold G, crc_poly; lia.
Qed.

Lemma cond_lxor (x y : bool) (g : Z) :
  (if xorb x y then g else 0) = Z.lxor (if x then g else 0) (if y then g else 0).
Proof. destruct x, y; cbn [xorb]; rewrite ?Z.lxor_nilpotent, ?Z.lxor_0_l, ?Z.lxor_0_r; reflexivity. Qed.

Lemma mulx_linear a b : mulx (Z.lxor a b) = Z.lxor (mulx a) (mulx b).
Proof.
  rewrite !mulx_alt. rewrite two24_pow. rewrite Z.lxor_spec, double_lxor, mod_lxor, cond_lxor by lia.
  rewrite !Z.lxor_assoc. f_equal.
  rewrite <- !Z.lxor_assoc. rewrite (Z.lxor_comm ((2 * b) mod 2 ^ 24)). reflexivity.
Qed.

Lemma mulx_0 : mulx 0 = 0. Proof. reflexivity. Qed.

Lemma testbit23 s : st_ok s -> Z.testbit s 23 = (2 ^ 23 <=? s).
Proof.
  unfold st_ok. rewrite two24_pow. intros H. rewrite Z.testbit_odd, Z.shiftr_div_pow2 by lia.
  destruct (Z.leb_spec (2 ^ 23) s).
  - replace (s / 2 ^ 23) with 1; [reflexivity|]. apply Z.div_unique with (s - 2 ^ 23); lia.
  - rewrite Z.div_small by lia. reflexivity.
Qed.

(** multiplication by x is invertible: g has constant term 1 *)
Definition divx (s : Z) : Z := if Z.testbit s 0 then Z.lxor s G / 2 + 2 ^ 23 else s / 2.

Lemma mulx_inv s : st_ok s -> divx (mulx s) = s.
Proof.
  intros H. rewrite mulx_alt. unfold divx. rewrite (testbit23 s H). unfold st_ok in H. rewrite two24_pow in *.
  destruct (Z.leb_spec (2 ^ 23) s) as [Hs|Hs].
  - replace ((2 * s) mod 2 ^ 24) with (2 * (s - 2 ^ 23)).
    2:{ apply Z.mod_unique_pos with 1; lia. }
    set (t := s - 2 ^ 23).
    assert (T0: Z.testbit (Z.lxor (2 * t) G) 0 = true).
    { rewrite Z.lxor_spec, Z.testbit_even_0. reflexivity. }
    rewrite T0. rewrite Z.lxor_assoc, Z.lxor_nilpotent, Z.lxor_0_r.
    rewrite Z.mul_comm, Z.div_mul by lia. subst t. lia.
  - rewrite Z.lxor_0_r. rewrite Z.mod_small by lia.
    rewrite Z.testbit_even_0. rewrite Z.mul_comm, Z.div_mul by lia. reflexivity.
Qed.

Lemma mulx_inj a b : st_ok a -> st_ok b -> mulx a = mulx b -> a = b.
Proof. intros Ha Hb E. rewrite <- (mulx_inv a Ha), <- (mulx_inv b Hb), E. reflexivity. Qed.

(** n-fold multiplication by x *)
Fixpoint mulxn (n : nat) (s : Z) : Z := match n with O => s | S n' => mulxn n' (mulx s) end.

Lemma mulxn_ok n : forall s, st_ok s -> st_ok (mulxn n s).
Proof. induction n as [|n IH]; intros s H; cbn; [exact H|]. apply IH. apply mulx_ok. exact H. Qed.
Lemma mulxn_linear n : forall a b, mulxn n (Z.lxor a b) = Z.lxor (mulxn n a) (mulxn n b).
Proof. induction n as [|n IH]; intros a b; cbn; [reflexivity|]. rewrite mulx_linear. apply IH. Qed.
Lemma mulxn_0 n : mulxn n 0 = 0.
Proof. induction n as [|n IH]; cbn [mulxn]; [reflexivity|]. rewrite mulx_0. exact IH. Qed.
Lemma mulxn_inj n : forall a b, st_ok a -> st_ok b -> mulxn n a = mulxn n b -> a = b.
Proof.
  induction n as [|n IH]; intros a b Ha Hb E; cbn in E; [exact E|].
  apply mulx_inj; try assumption. apply IH; try apply mulx_ok; assumption.
Qed.
Lemma mulxn_nonzero n s : st_ok s -> s <> 0 -> mulxn n s <> 0.
Proof.
  intros H Hn E. apply Hn. apply (mulxn_inj n); [exact H|unfold st_ok, two24; lia|]. rewrite mulxn_0. exact E.
Qed.
Lemma mulxn_add n m s : mulxn (n + m) s = mulxn m (mulxn n s).
Proof. revert s. induction n as [|n IH]; intros s; cbn; [reflexivity|]. apply IH. Qed.
Lemma mulxn_S_out n s : mulxn (S n) s = mulx (mulxn n s).
Proof. replace (S n) with (n + 1)%nat by lia. rewrite mulxn_add. reflexivity. Qed.

Lemma mulx_mulxn n s : mulx (mulxn n s) = mulxn n (mulx s).
Proof. rewrite <- mulxn_S_out. reflexivity. Qed.

(** ---------- shifting message bits in ---------- *)
Lemma crc_bit_alt s b : crc_bit s b = Z.lxor (mulx s) (if b then G else 0).
Proof.
  unfold crc_bit. rewrite mulx_alt. destruct (Z.testbit s 23), b; cbn [xorb];
    rewrite ?Z.lxor_0_r, ?Z.lxor_assoc, ?Z.lxor_nilpotent, ?Z.lxor_0_r; reflexivity.
Qed.

Definition crc_bits (l : list bool) (s : Z) : Z := fold_left crc_bit l s.

Lemma G_ok : st_ok G. Proof. unfold st_ok, G, crc_poly, two24. lia. Qed.
Lemma bG_ok (b : bool) : st_ok (if b then G else 0).
Proof. destruct b; [exact G_ok|unfold st_ok, two24; lia]. Qed.

Lemma crc_bits_ok l : forall s, st_ok s -> st_ok (crc_bits l s).
Proof.
  unfold crc_bits. induction l as [|b l IH]; intros s H; cbn [fold_left]; [exact H|]. apply IH.
  rewrite crc_bit_alt. unfold st_ok in *. rewrite two24_pow in *. apply lxor_range; [lia| |].
  - apply (mulx_ok s). unfold st_ok. rewrite two24_pow. exact H.
  - apply (bG_ok b).
Qed.

(** affine decomposition: the state contributes through mulxn, the message through crc_bits _ 0 *)
Lemma crc_bits_affine l : forall s, crc_bits l s = Z.lxor (mulxn (length l) s) (crc_bits l 0).
Proof.
  unfold crc_bits. induction l as [|b l IH]; intros s; cbn [fold_left length mulxn].
  - rewrite Z.lxor_0_r. reflexivity.
  - rewrite (IH (crc_bit s b)), (IH (crc_bit 0 b)). rewrite !crc_bit_alt, mulx_0, Z.lxor_0_l.
    rewrite mulxn_linear. rewrite Z.lxor_assoc. reflexivity.
Qed.

Lemma crc_bits_app a b s : crc_bits (a ++ b) s = crc_bits b (crc_bits a s).
Proof. unfold crc_bits. apply fold_left_app. Qed.

Lemma crc_bits_zeros k s : crc_bits (repeat false k) s = mulxn k s.
Proof.
  revert s. induction k as [|k IH]; intros s; cbn [repeat]; [reflexivity|].
  unfold crc_bits in *. cbn [fold_left mulxn]. rewrite IH. rewrite crc_bit_alt, Z.lxor_0_r. reflexivity.
Qed.

(** xor of two messages of equal length *)
Fixpoint xorl (a b : list bool) : list bool :=
  match a, b with
  | x :: r, y :: s => xorb x y :: xorl r s
  | _, _ => []
  end.

Lemma crc_bits_xor : forall a e s1 s2, length a = length e ->
  crc_bits (xorl a e) (Z.lxor s1 s2) = Z.lxor (crc_bits a s1) (crc_bits e s2).
Proof.
  unfold crc_bits. induction a as [|x a IH]; intros e s1 s2 Hl; destruct e as [|y e]; try discriminate; cbn [xorl fold_left].
  - reflexivity.
  - rewrite <- IH by (cbn in Hl; lia). f_equal. rewrite !crc_bit_alt, mulx_linear, cond_lxor.
    rewrite !Z.lxor_assoc. f_equal. rewrite <- !Z.lxor_assoc. rewrite (Z.lxor_comm (mulx s2)). reflexivity.
Qed.

(** ---------- the value of up to 24 bits ---------- *)
Fixpoint bval (l : list bool) (acc : Z) : Z :=
  match l with [] => acc | b :: r => bval r (2 * acc + (if b then 1 else 0)) end.

Lemma bval_app a b acc : bval (a ++ b) acc = bval b (bval a acc).
Proof. revert acc. induction a as [|x a IH]; intros acc; cbn; [reflexivity|]. apply IH. Qed.
Lemma bval_range l : forall acc, 0 <= acc -> 0 <= bval l acc < (acc + 1) * 2 ^ Z.of_nat (length l).
Proof.
  induction l as [|b l IH]; intros acc H; cbn [bval length].
  - cbn. lia.
  - assert (Hb : 0 <= (if b then 1 else 0) <= 1) by (destruct b; lia).
    specialize (IH (2 * acc + (if b then 1 else 0)) ltac:(lia)).
    rewrite Nat2Z.inj_succ, Z.pow_succ_r by lia. nia.
Qed.

Lemma G_is_x24 : mulxn 24 1 = G. Proof. vm_compute. reflexivity. Qed.

Lemma mulx_small v : 0 <= v < 2 ^ 23 -> mulx v = 2 * v.
Proof.
  intros H. rewrite mulx_alt, testbit23 by (unfold st_ok, two24; lia).
  destruct (Z.leb_spec (2 ^ 23) v); [lia|]. rewrite Z.lxor_0_r. apply Z.mod_small. unfold two24. lia.
Qed.

Lemma lxor_low_bit v (b : bool) : 0 <= v -> Z.lxor (2 * v) (if b then 1 else 0) = 2 * v + (if b then 1 else 0).
Proof.
  intros H. destruct b; [|rewrite Z.lxor_0_r; lia].
  replace (2 * v) with (v * 2 ^ 1) by lia. rewrite <- lor_disjoint by lia. 
  rewrite <- Z.lxor_lor; [reflexivity|]. apply land_disjoint; lia.
Qed.

(** feeding at most 24 bits into the zero state leaves x^24 times their value *)
Lemma crc_bits_value l : (length l <= 24)%nat -> crc_bits l 0 = mulxn 24 (bval l 0).
Proof.
  induction l as [|b l IH] using rev_ind; intros Hl.
  - unfold crc_bits. cbn [fold_left bval]. symmetry. apply (mulxn_0 24).
  - rewrite app_length in Hl. cbn [length] in Hl.
    rewrite crc_bits_app, bval_app, IH by lia. unfold crc_bits at 1. cbn [fold_left bval].
    rewrite crc_bit_alt. rewrite mulx_mulxn.
    assert (Hv : 0 <= bval l 0 < 2 ^ 23).
    { pose proof (bval_range l 0 ltac:(lia)) as R. split; [lia|]. eapply Z.lt_le_trans; [apply R|].
      rewrite Z.add_0_l, Z.mul_1_l. apply Z.pow_le_mono_r; lia. }
    rewrite mulx_small by exact Hv.
    replace (if b then G else 0) with (mulxn 24 (if b then 1 else 0)) by (destruct b; [exact G_is_x24|apply (mulxn_0 24)]).
    rewrite <- mulxn_linear. rewrite lxor_low_bit by lia. reflexivity.
Qed.

(** ---------- order of x, parity ---------- *)
Fixpoint order_ok (k : nat) (s : Z) : bool :=
  match k with O => true | S k' => let s' := mulx s in negb (s' =? 1) && order_ok k' s' end.

(** finite obligation: x^k <> 1 for all 1 <= k <= 8232 (the number of bits of the longest frame) *)
Lemma x_order_gt_8232 : order_ok (Z.to_nat 8232) 1 = true.
Proof. vm_compute. reflexivity. Qed.

Lemma order_ok_spec k : forall s, order_ok k s = true -> forall j, (1 <= j <= k)%nat -> mulxn j s <> 1.
Proof.
  induction k as [|k IH]; intros s H j Hj; [lia|]. cbn [order_ok] in H. apply andb_true_iff in H. destruct H as [H1 H2].
  destruct j as [|j]; [lia|]. cbn [mulxn]. destruct j as [|j].
  - cbn. apply negb_true_iff in H1. apply Z.eqb_neq in H1. exact H1.
  - apply (IH (mulx s) H2 (S j)). lia.
Qed.

Lemma x_order j : 1 <= Z.of_nat j <= 8232 -> mulxn j 1 <> 1.
Proof. intros H. apply (order_ok_spec (Z.to_nat 8232) 1 x_order_gt_8232). lia. Qed.

Definition parity (s : Z) : bool := fold_right xorb false (map (fun i => Z.testbit s (Z.of_nat i)) (seq 0 24)).
Lemma parity_lxor a b : parity (Z.lxor a b) = xorb (parity a) (parity b).
Proof.
  unfold parity. induction (seq 0 24) as [|i l IH]; cbn [map fold_right]; [reflexivity|].
  rewrite IH, Z.lxor_spec. destruct (Z.testbit a (Z.of_nat i)), (Z.testbit b (Z.of_nat i)), (fold_right xorb false (map (fun i => Z.testbit a (Z.of_nat i)) l)), (fold_right xorb false (map (fun i => Z.testbit b (Z.of_nat i)) l)); reflexivity.
Qed.
Lemma parity_G : parity G = true. Proof. vm_compute. reflexivity. Qed.
Lemma parity_0 : parity 0 = false. Proof. vm_compute. reflexivity. Qed.
Lemma parity_double s : st_ok s -> parity ((2 * s) mod two24) = xorb (parity s) (Z.testbit s 23).
Proof.
  intros H. unfold parity. rewrite two24_pow.
  assert (B: forall i, (0 <= i < 24) -> Z.testbit ((2 * s) mod 2 ^ 24) i = if i =? 0 then false else Z.testbit s (i - 1)).
  { intros i Hi. rewrite Z.mod_pow2_bits_low by lia. destruct (Z.eqb_spec i 0) as [->|Hne].
    - apply Z.testbit_even_0.
    - replace i with (Z.succ (i - 1)) at 1 by lia. apply Z.testbit_even_succ. lia. }
  cbn [seq map fold_right].
  rewrite !B by (cbn; lia). cbn [Z.of_nat Pos.of_succ_nat Pos.succ Z.eqb Z.sub Z.add Z.opp Z.pos_sub Pos.pred_double Z.succ_double Z.pred_double Z.double].
  repeat match goal with |- context [Z.testbit s ?k] => let b := fresh "b" in set (b := Z.testbit s k); clearbody b end.
  btauto.
Qed.

(** g(1) = 0: multiplication by x keeps the parity of the state *)
Lemma parity_mulx s : st_ok s -> parity (mulx s) = parity s.
Proof.
  intros H. rewrite mulx_alt, parity_lxor, parity_double by exact H.
  destruct (Z.testbit s 23); [rewrite parity_G|rewrite parity_0]; destruct (parity s); reflexivity.
Qed.

Definition xsum (l : list bool) : bool := fold_right xorb false l.

Lemma parity_crc_bits l : forall s, st_ok s -> parity (crc_bits l s) = xorb (parity s) (xsum l).
Proof.
  unfold crc_bits. induction l as [|b l IH]; intros s H; cbn [fold_left xsum fold_right].
  - destruct (parity s); reflexivity.
  - assert (Hs : st_ok (crc_bit s b)) by (apply (crc_bits_ok [b] s H)).
    rewrite (IH _ Hs). rewrite crc_bit_alt, parity_lxor, parity_mulx by exact H.
    change (fold_right xorb false l) with (xsum l).
    destruct b; [rewrite parity_G|rewrite parity_0]; destruct (parity s), (xsum l); reflexivity.
Qed.

(** ---------- bytes as bit strings ---------- *)
Definition bits (d : list Z) : list bool := flat_map byte_bits d.

Lemma crc24q_bits d : crc24q d = crc_bits (bits d) 0.
Proof.
  unfold crc24q, crc_bits, bits. generalize 0. induction d as [|x d IH]; intros s; cbn [fold_left flat_map]; [reflexivity|].
  rewrite fold_left_app. rewrite <- IH. reflexivity.
Qed.

Lemma bits_app a b : bits (a ++ b) = bits a ++ bits b.
Proof. unfold bits. apply flat_map_app. Qed.
Lemma bits_length d : length (bits d) = (8 * length d)%nat.
Proof. unfold bits. induction d as [|x d IH]; cbn [flat_map length]; [reflexivity|]. rewrite app_length, IH. cbn [byte_bits length]. lia. Qed.

Fixpoint zrange (n : nat) : list Z := match n with O => [] | S k => zrange k ++ [Z.of_nat k] end.
Lemma zrange_In n x : 0 <= x < Z.of_nat n -> In x (zrange n).
Proof.
  induction n as [|n IH]; intros H; [lia|]. cbn [zrange]. apply in_or_app.
  destruct (Z.eq_dec x (Z.of_nat n)) as [->|Hne]; [right; left; reflexivity|left; apply IH; lia].
Qed.

Lemma bval_byte_all : forallb (fun x => bval (byte_bits x) 0 =? x) (zrange 256) = true.
Proof. vm_compute. reflexivity. Qed.
Lemma bval_shift l : forall acc, bval l acc = acc * 2 ^ Z.of_nat (length l) + bval l 0.
Proof.
  induction l as [|b l IH]; intros acc; cbn [bval length]; [cbn; lia|].
  rewrite (IH (2 * acc + _)), (IH (2 * 0 + _)). rewrite Nat2Z.inj_succ, Z.pow_succ_r by lia. ring.
Qed.
Lemma bval_byte x acc : 0 <= x < 256 -> bval (byte_bits x) acc = acc * 256 + x.
Proof.
  intros H. pose proof bval_byte_all as A. rewrite forallb_forall in A. specialize (A x (zrange_In 256 x ltac:(lia))).
  apply Z.eqb_eq in A. rewrite bval_shift, A. reflexivity.
Qed.

Lemma bval_3bytes a b c : 0 <= a < 256 -> 0 <= b < 256 -> 0 <= c < 256 ->
  bval (bits [a; b; c]) 0 = a * 65536 + b * 256 + c.
Proof.
  intros Ha Hb Hc. unfold bits. cbn [flat_map]. rewrite app_nil_r, !bval_app, !bval_byte by assumption. lia.
Qed.

(** the syndrome of head ++ [a;b;c] vanishes exactly when a b c is the checksum of head *)
Lemma syndrome_zero_iff head a b c : 0 <= a < 256 -> 0 <= b < 256 -> 0 <= c < 256 ->
  (crc24q (head ++ [a; b; c]) = 0 <-> a * 65536 + b * 256 + c = crc24q head).
Proof.
  intros Ha Hb Hc. rewrite !crc24q_bits, bits_app, crc_bits_app.
  set (r := crc_bits (bits head) 0).
  assert (Hr : st_ok r) by (apply crc_bits_ok; unfold st_ok, two24; lia).
  rewrite crc_bits_affine. rewrite bits_length. cbn [length Nat.mul Nat.add].
  rewrite crc_bits_value by (rewrite bits_length; cbn [length]; lia).
  rewrite bval_3bytes by assumption. set (v := a * 65536 + b * 256 + c).
  assert (Hv : st_ok v) by (unfold st_ok, two24, v; lia).
  rewrite <- mulxn_linear. split.
  - intros E. assert (Hz : Z.lxor r v = 0).
    { apply (mulxn_inj 24); [|unfold st_ok, two24; lia|rewrite mulxn_0; exact E].
      unfold st_ok in *. rewrite two24_pow in *. apply lxor_range; lia. }
    apply Z.lxor_eq in Hz. lia.
  - intros E. rewrite E. rewrite Z.lxor_nilpotent. apply mulxn_0.
Qed.

(** ---------- xor of byte strings ---------- *)
Fixpoint xorbytes (a b : list Z) : list Z :=
  match a, b with
  | x :: r, y :: s => Z.lxor x y :: xorbytes r s
  | _, _ => []
  end.

Lemma byte_bits_lxor x y : byte_bits (Z.lxor x y) = xorl (byte_bits x) (byte_bits y).
Proof. unfold byte_bits. cbn [xorl]. rewrite !Z.lxor_spec. reflexivity. Qed.

Lemma xorl_app a b c d : length a = length c -> xorl (a ++ b) (c ++ d) = xorl a c ++ xorl b d.
Proof.
  revert c. induction a as [|x a IH]; intros c H; destruct c as [|y c]; try discriminate; cbn [app xorl]; [reflexivity|].
  f_equal. apply IH. cbn in H. lia.
Qed.

Lemma bits_xorbytes : forall a b, length a = length b -> bits (xorbytes a b) = xorl (bits a) (bits b).
Proof.
  induction a as [|x a IH]; intros b H; destruct b as [|y b]; try discriminate; [reflexivity|].
  cbn [xorbytes]. unfold bits in *. cbn [flat_map]. rewrite xorl_app by reflexivity.
  rewrite byte_bits_lxor. f_equal. apply IH. cbn in H. lia.
Qed.

Lemma xorbytes_length : forall a b, length a = length b -> length (xorbytes a b) = length a.
Proof.
  induction a as [|x a IH]; intros b H; destruct b as [|y b]; try discriminate; [reflexivity|].
  cbn. f_equal. apply IH. cbn in H. lia.
Qed.

Lemma crc24q_xor a e : length a = length e -> crc24q (xorbytes a e) = Z.lxor (crc24q a) (crc24q e).
Proof.
  intros H. rewrite !crc24q_bits, bits_xorbytes by exact H.
  rewrite <- (Z.lxor_0_l 0) at 1. apply crc_bits_xor. rewrite !bits_length. lia.
Qed.

(** ---------- the four error classes, as bit strings ---------- *)
Definition zeros (n : nat) : list bool := repeat false n.

Definition single_bit (e : list bool) : Prop := exists p k, e = zeros p ++ [true] ++ zeros k.
Definition double_bit (e : list bool) : Prop := exists p d k, e = zeros p ++ [true] ++ zeros d ++ [true] ++ zeros k.
Definition odd_weight (e : list bool) : Prop := xsum e = true.
Definition burst24 (e : list bool) : Prop :=
  exists p w k, e = zeros p ++ w ++ zeros k /\ (length w <= 24)%nat /\ bval w 0 <> 0.

Lemma crc_zeros_prefix p l : crc_bits (zeros p ++ l) 0 = crc_bits l 0.
Proof. rewrite crc_bits_app. unfold zeros. rewrite crc_bits_zeros, mulxn_0. reflexivity. Qed.

Lemma crc_one : crc_bits [true] 0 = G.
Proof. reflexivity. Qed.

Lemma G_nonzero : G <> 0. Proof. unfold G, crc_poly. lia. Qed.

Theorem single_bit_detected e : single_bit e -> crc_bits e 0 <> 0.
Proof.
  intros [p [k ->]]. rewrite crc_zeros_prefix, crc_bits_app, crc_one. unfold zeros. rewrite crc_bits_zeros.
  apply mulxn_nonzero; [exact G_ok|exact G_nonzero].
Qed.

Theorem double_bit_detected e : double_bit e -> Z.of_nat (length e) <= 8232 -> crc_bits e 0 <> 0.
Proof.
  intros [p [d [k ->]]] Hlen. rewrite crc_zeros_prefix. rewrite !crc_bits_app, crc_one.
  unfold zeros. rewrite crc_bits_zeros. unfold crc_bits at 1. cbn [fold_left]. rewrite crc_bit_alt. fold G.
  rewrite crc_bits_zeros. rewrite mulx_mulxn.
  intros E.
  assert (Hok : st_ok (Z.lxor (mulxn d (mulx G)) G)).
  { pose proof (mulxn_ok d (mulx G) (mulx_ok G G_ok)) as H1. pose proof G_ok as H2. unfold st_ok in *. rewrite two24_pow in *. apply lxor_range; lia. }
  assert (Hz : Z.lxor (mulxn d (mulx G)) G = 0).
  { apply (mulxn_inj k); [exact Hok|unfold st_ok, two24; lia|rewrite mulxn_0; exact E]. }
  apply Z.lxor_eq in Hz.
  (* G = x^24: cancel it *)
  change (mulxn d (mulx G)) with (mulxn (S d) G) in Hz.
  rewrite <- G_is_x24 in Hz. rewrite <- mulxn_add in Hz.
  replace (24 + S d)%nat with (S d + 24)%nat in Hz by lia. rewrite mulxn_add in Hz.
  apply mulxn_inj in Hz; [|apply mulxn_ok; unfold st_ok, two24; lia|unfold st_ok, two24; lia].
  revert Hz. apply x_order.
  unfold zeros in Hlen. rewrite !app_length in Hlen. cbn [length] in Hlen. rewrite !repeat_length in Hlen. lia.
Qed.

Theorem odd_weight_detected e : odd_weight e -> crc_bits e 0 <> 0.
Proof.
  unfold odd_weight. intros H E.
  pose proof (parity_crc_bits e 0 ltac:(unfold st_ok, two24; lia)) as P. rewrite E, H, parity_0 in P. discriminate.
Qed.

Theorem burst24_detected e : burst24 e -> crc_bits e 0 <> 0.
Proof.
  intros [p [w [k [-> [Hw Hv]]]]]. rewrite crc_zeros_prefix, crc_bits_app. unfold zeros. rewrite crc_bits_zeros.
  rewrite crc_bits_value by exact Hw.
  assert (Hok : st_ok (bval w 0)).
  { pose proof (bval_range w 0 ltac:(lia)) as R. unfold st_ok. rewrite two24_pow. split; [lia|].
    eapply Z.lt_le_trans; [apply R|]. rewrite Z.add_0_l, Z.mul_1_l. apply Z.pow_le_mono_r; lia. }
  apply mulxn_nonzero; [apply mulxn_ok; exact Hok|]. apply mulxn_nonzero; assumption.
Qed.

(** The body of the df! macro (src/df/mod.rs), as an interpreter over a [field_spec], and the
    df_88591_string_with_len! codec.  Encode/decode thread the assembler/parser state
    (data, offset) explicitly. *)
From Coq Require Import ZArith List Bool.
From Flocq Require Import Core BinarySingleNaN.
From RtcmModel Require Import Types BitIO Floats.
Import ListNotations.
Open Scope Z_scope.

(** (kind, width) of an integer Rust type *)
Definition dty_int (d : dty) : option (ckind * Z) :=
  match d with
  | DU8 => Some (KU, 8) | DU16 => Some (KU, 16) | DU32 => Some (KU, 32) | DUsize => Some (KU, 64)
  | DI8 => Some (KI, 8) | DI16 => Some (KI, 16) | DI32 => Some (KI, 32)
  | DF32 | DF64 => None
  end.

Definition num_int (n : option num) : option (option Z) :=
  match n with None => Some None | Some (NInt z) => Some (Some z) | Some (NFlt _ _) => None end.

(** ---------- float rows: generic in the format ---------- *)
Section FloatCore.
  Variables prec emax : Z.
  Context (Hp : Prec_gt_0 prec) (Hpe : Prec_lt_emax prec emax).
  Notation bf := (binary_float prec emax).

  Definition num_flt (n : option num) : option (option bf) :=
    match n with
    | None => Some None
    | Some (NFlt m e) => Some (Some (of_me prec emax Hp Hpe m e))
    | Some (NInt _) => None
    end.

  (** encode: bias, resolution, rounding, saturating cast to the carrier *)
  Definition fenc_core (res bias : option bf) (round : bool) (ck : ckind) (cbits : Z) (x : bf)
    : outcome Z :=
    x1 <- match bias with
          | None => Ok x
          | Some b => if fge prec emax x b then Ok (fsub prec emax Hp Hpe x b) else Err OutOfRange
          end ;;
    let x2 := match res with None => x1 | Some r => fdiv prec emax Hp Hpe x1 r end in
    let x3 := if round
              then fadd prec emax Hp Hpe x2
                        (if fge prec emax x2 (fzero prec emax) then fhalf prec emax Hp Hpe else fmhalf prec emax Hp Hpe)
              else x2 in
    Ok (to_int_sat prec emax (cmin ck cbits) (cmax ck cbits) x3).

  (** decode: int -> float, times resolution, plus bias *)
  Definition fdec_core (res bias : option bf) (v : Z) : bf :=
    let x := ofZ prec emax Hp Hpe v in
    let x := match res with None => x | Some r => fmul prec emax Hp Hpe x r end in
    match bias with None => x | Some b => fadd prec emax Hp Hpe x b end.
End FloatCore.

(** ---------- integer rows ---------- *)
Definition ienc_core (dk : ckind * Z) (res bias : option Z) (ck : ckind) (cbits : Z) (x : Z) : outcome Z :=
  x1 <- match bias with
        | None => Ok x
        | Some b =>
            if b <=? x then (let r := x - b in if in_carrier (fst dk) (snd dk) r then Ok r else Err OutOfRange)
            else Err OutOfRange
        end ;;
  x2 <- match res with
        | None => Ok x1
        | Some r => if r =? 0 then Panic
                    else let q := Z.quot x1 r in if in_carrier (fst dk) (snd dk) q then Ok q else Panic
        end ;;
  Ok (wrapc ck cbits x2).

Definition idec_core (dk : ckind * Z) (res bias : option Z) (v : Z) : outcome Z :=
  let x := wrapc (fst dk) (snd dk) v in
  x1 <- match res with
        | None => Ok x
        | Some r => let p := x * r in if in_carrier (fst dk) (snd dk) p then Ok p else Panic
        end ;;
  match bias with
  | None => Ok x1
  | Some b => let s := x1 + b in if in_carrier (fst dk) (snd dk) s then Ok s else Panic
  end.

(** value of the row's Rust type -> carrier integer (everything of df!::encode before [put]) *)
Definition encode_core (fs : field_spec) (v : val) : outcome Z :=
  match f_dt fs, v with
  | DF32, VF32 b =>
      match num_flt 24 128 Hp32 Hpe32 (f_res fs), num_flt 24 128 Hp32 Hpe32 (f_bias fs) with
      | Some r, Some bi => fenc_core 24 128 Hp32 Hpe32 r bi (f_round fs) (f_ck fs) (f_cbits fs) (f32_of_bits b)
      | _, _ => Panic
      end
  | DF64, VF64 b =>
      match num_flt 53 1024 Hp64 Hpe64 (f_res fs), num_flt 53 1024 Hp64 Hpe64 (f_bias fs) with
      | Some r, Some bi => fenc_core 53 1024 Hp64 Hpe64 r bi (f_round fs) (f_ck fs) (f_cbits fs) (f64_of_bits b)
      | _, _ => Panic
      end
  | d, VInt x =>
      match dty_int d, num_int (f_res fs), num_int (f_bias fs) with
      | Some dk, Some r, Some bi =>
          if in_carrier (fst dk) (snd dk) x then ienc_core dk r bi (f_ck fs) (f_cbits fs) x else Panic
      | _, _, _ => Panic
      end
  | _, _ => Panic     (* ill-typed value: not constructible in Rust *)
  end.

(** carrier integer -> value of the row's Rust type (df!::decode after [parse], before the inv test) *)
Definition decode_core (fs : field_spec) (v : Z) : outcome val :=
  match f_dt fs with
  | DF32 =>
      match num_flt 24 128 Hp32 Hpe32 (f_res fs), num_flt 24 128 Hp32 Hpe32 (f_bias fs) with
      | Some r, Some bi => Ok (VF32 (f32_to_bits (fdec_core 24 128 Hp32 Hpe32 r bi v)))
      | _, _ => Panic
      end
  | DF64 =>
      match num_flt 53 1024 Hp64 Hpe64 (f_res fs), num_flt 53 1024 Hp64 Hpe64 (f_bias fs) with
      | Some r, Some bi => Ok (VF64 (f64_to_bits (fdec_core 53 1024 Hp64 Hpe64 r bi v)))
      | _, _ => Panic
      end
  | d =>
      match dty_int d, num_int (f_res fs), num_int (f_bias fs) with
      | Some dk, Some r, Some bi => x <- idec_core dk r bi v ;; Ok (VInt x)
      | _, _, _ => Panic
      end
  end.

Definition astate := (list Z * Z)%type.    (* Assembler: data, offset *)

(** df!::encode *)
Definition encode_field (fs : field_spec) (st : astate) (v : val) : outcome astate :=
  let '(data, off) := st in
  match f_inv fs with
  | Some i =>
      match v with
      | VNone => put (f_ck fs) (f_cbits fs) data off i (f_len fs)
      | VSome x => c <- encode_core fs x ;; put (f_ck fs) (f_cbits fs) data off c (f_len fs)
      | _ => Panic
      end
  | None => c <- encode_core fs v ;; put (f_ck fs) (f_cbits fs) data off c (f_len fs)
  end.

(** df!::decode: value and new parser offset *)
Definition decode_field (fs : field_spec) (data : list Z) (off : Z) : outcome (val * Z) :=
  '(value, off') <- parse (f_ck fs) (f_cbits fs) data off (f_len fs) ;;
  dt_val <- decode_core fs value ;;
  match f_inv fs with
  | Some i => if value =? i then Ok (VNone, off') else Ok (VSome dt_val, off')
  | None => Ok (dt_val, off')
  end.

(** Totality of the whole receive path (C02): frame parse, scan, iterate, decode every frame found. *)
From Coq Require Import ZArith List Lia Bool.
From RtcmModel Require Import Types BitIO Floats Field SigId Text Bias Msm Layout Crc Frame Scan Message.
From RtcmProofs Require Import ListZ FragInd FrameProofs ScanProofs BuildProofs DecodeTotal.
Import ListNotations.
Open Scope Z_scope.

Lemma frame_data_bytes d f : bytes_ok d = true -> frame_new d = Ok f -> bytes_ok (fr_data f) = true.
Proof.
  intros Hb Hf. destruct (frame_attributes d f Hb Hf) as [_ [_ [_ [_ [E _]]]]]. rewrite E.
  apply bytes_ok_zfirstn. apply bytes_ok_zskipn. exact Hb.
Qed.

Lemma scan_frame_bytes d c f : bytes_ok d = true -> scan d = Ok (c, Some f) -> bytes_ok (fr_data f) = true.
Proof.
  intros Hb E. destruct (scan_spec d) as [c' [mf' [E' [k [Hk [_ Hcase]]]]]]. rewrite E in E'. inversion E'; subst c' mf'.
  destruct Hcase as [[K1 [K2 K3]]|[K1 [K2 [[f' [F1 [F2 F3]]]|[F1 [F2 F3]]]]]]; try discriminate.
  inversion F3; subst f'. eapply frame_data_bytes; [|exact F1]. apply bytes_ok_skipn. exact Hb.
Qed.

Lemma drains_frames_bytes d base t l : drains d base t l -> bytes_ok d = true ->
  forall p f, In (p, f) l -> bytes_ok (fr_data f) = true.
Proof.
  induction 1 as [d base c E|d base c f t l E _ IH]; intros Hb p f0 Hin; [destruct Hin|].
  destruct Hin as [Heq|Hin].
  - inversion Heq; subst. eapply scan_frame_bytes; eassumption.
  - eapply IH; [apply bytes_ok_zskipn; exact Hb|exact Hin].
Qed.

Section Total.
  Variable sigt : gnss -> sigtable.
  Variable ssr59 ssr65 : sigtable.
  Variable cap59 cap65 : Z.
  Variable table : list (Z * frag).
  (** table obligation: every layout of the table meets the decode-safety conditions *)
  Hypothesis Hsafe : forallb (fun m => frag_dec_ok (snd m)) table = true.

  Notation from_frame := (from_frame sigt ssr59 ssr65 cap59 cap65 table).
  Notation decode_bytes := (decode_bytes sigt ssr59 ssr65 cap59 cap65 table).

  Lemma layout_total n lay data off : In (n, lay) table -> bytes_ok data = true -> 0 <= off ->
    decode_frag sigt ssr59 ssr65 cap59 cap65 lay data off <> Panic.
  Proof.
    intros Hin Hb Ho. rewrite forallb_forall in Hsafe. specialize (Hsafe _ Hin). cbn [snd] in Hsafe.
    exact (proj1 (decode_frag_total sigt ssr59 ssr65 cap59 cap65 lay Hsafe data off Hb Ho)).
  Qed.

  (** Message::from_message_frame returns one of the four documented outcomes *)
  Theorem from_frame_total f : bytes_ok (fr_data f) = true ->
    from_frame f = Ok MEmpty \/ from_frame f = Ok MCorrupt \/
    (exists n, from_frame f = Ok (MUnsupp n)) \/ (exists n v, from_frame f = Ok (MTyped n v)).
  Proof.
    intros Hb. unfold Message.from_frame. destruct (fr_number f) as [n|]; [|left; reflexivity].
    destruct (lookup n table) as [lay|] eqn:Hlk; [|right; right; left; exists n; reflexivity].
    pose proof (layout_total n lay (fr_data f) 12 (lookup_In table n lay Hlk) Hb ltac:(lia)) as Np.
    destruct (decode_frag sigt ssr59 ssr65 cap59 cap65 lay (fr_data f) 12) as [[v o]|e|]; [|right; left; reflexivity|contradiction].
    right; right; right. exists n, v. reflexivity.
  Qed.

  Theorem decode_bytes_total d : bytes_ok d = true -> decode_bytes d <> Panic.
  Proof.
    intros Hb. unfold Message.decode_bytes.
    destruct (frame_new_cases d) as [[H E]|[[H [H1 E]]|[[H [H1 [H2 E]]]|[[H [H1 [H2 [H3 E]]]]|[Ha E]]]]]; rewrite E; cbn [bind]; try discriminate.
    pose proof (frame_data_bytes d _ Hb E) as Hfd.
    destruct (from_frame_total (frame_of d) Hfd) as [R|[R|[[n R]|[n [v R]]]]]; rewrite R; discriminate.
  Qed.

  (** scanning a whole buffer and decoding every frame found: terminates, no panic anywhere *)
  Theorem stream_total data : bytes_ok data = true ->
    exists t l, iter_run data = Ok (t, l) /\ forall p f, In (p, f) l -> from_frame f <> Panic.
  Proof.
    intros Hb. destruct (iter_run_spec data Hb) as [t [l [Hd Hi]]]. exists t, l. split; [exact Hi|].
    intros p f Hin. pose proof (drains_frames_bytes data 0 t l Hd Hb p f Hin) as Hfd.
    destruct (from_frame_total f Hfd) as [R|[R|[[n R]|[n [v R]]]]]; rewrite R; discriminate.
  Qed.
End Total.

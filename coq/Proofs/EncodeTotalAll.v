(** Encoding never panics (C09), the layouts that are not plain: the SSR code-bias lists (1059, 1065), the
    GLONASS bias list (1230), the free text of 1029 and the MSM data segment -- each preceded by plain header
    fields -- and build_message for every message of the table. *)
From Coq Require Import ZArith List Lia Bool Sorting.Permutation.
From Flocq Require Import Core BinarySingleNaN.
From RtcmModel Require Import Types BitIO Floats Field SigId Text Bias Msm Layout Crc Frame Message.
From RtcmProofs Require Import BitLemmas ListZ FragInd EncodeLen BitProofs DecodeBound DecodeTotal FieldProofs TextProofs
  FrameProofs BuilderProofs SizeProofs BuildProofs RoundTrip SigProofs DecodeFinite BiasRoundTrip MsmDecode EncodeTotal MsmTotal.
Import ListNotations.
Open Scope Z_scope.

(** ---------- SSR code-bias lists ---------- *)
Section CBTotal.
  Variable table : sigtable.
  Variable max_sat sat_bits cap : Z.
  Hypothesis Hmax : 0 <= max_sat <= 63.
  Hypothesis Hsb : 1 <= sat_bits <= 8.

  Lemma gcount_le n : forall s m, (gcount n s m <= n)%nat.
  Proof. induction n as [|n IH]; intros s m; cbn [gcount]; [lia|]. specialize (IH (s + 1) m). destruct (Z.testbit m s); lia. Qed.

  Lemma cb_mask_np : forall es m c, Forall (fun e => 0 <= be_sat e) es -> c = Z.of_nat (gcount (Z.to_nat (max_sat + 1)) 0 m) ->
    cb_mask max_sat es m c <> Panic.
  Proof.
    induction es as [|e r IH]; intros m c Hnn Hc; cbn [cb_mask]; [discriminate|].
    pose proof (Forall_inv Hnn) as He. cbv beta in He. pose proof (Forall_inv_tail Hnn) as Hr.
    destruct (Z.leb_spec (be_sat e) max_sat) as [Hle|]; [|discriminate].
    destruct (Z.testbit m (be_sat e)) eqn:Eb; [apply IH; assumption|].
    assert (Hg : gcount (Z.to_nat (max_sat + 1)) 0 (Z.setbit m (be_sat e)) = (gcount (Z.to_nat (max_sat + 1)) 0 m + 1)%nat).
    { rewrite (gcount_setbit table 0 (Z.to_nat (max_sat + 1)) 0 m (be_sat e) ltac:(lia) He Eb).
      destruct (Z.leb_spec 0 (be_sat e)); [|lia]. destruct (Z.ltb_spec (be_sat e) (0 + Z.of_nat (Z.to_nat (max_sat + 1)))); [|lia]. reflexivity. }
    pose proof (gcount_le (Z.to_nat (max_sat + 1)) 0 (Z.setbit m (be_sat e))) as Hle2.
    destruct (Z.ltb_spec 255 (c + 1)); [lia|]. apply IH; [exact Hr|]. rewrite Hg. lia.
  Qed.

  Lemma cb_put_entries_np s : forall es d o, bytes_ok d = true -> 0 <= o -> cb_put_entries table (d, o) s es <> Panic.
  Proof.
    induction es as [|e r IH]; intros d o Hb Ho; cbn [cb_put_entries]; [discriminate|].
    destruct (be_sat e =? s); [|apply IH; assumption].
    destruct (to_id table (be_sig e)) as [id|]; [|apply IH; assumption]. cbn [fst snd].
    pose proof (put_no_panic KU 8 d o id 5 ltac:(lia) ltac:(lia) Ho Hb) as P1.
    destruct (put KU 8 d o id 5) as [[d1 o1]|x|] eqn:Q1; cbn [bind]; [|discriminate|contradiction].
    destruct (put_frame KU 8 d o id 5 d1 o1 ltac:(lia) ltac:(lia) Ho Hb Q1) as [-> [_ [_ [B1 _]]]]. cbn [fst snd].
    pose proof (put_no_panic KI 16 d1 (o + 5) (bias_quant f32_0_01 (be_bias e)) 14 ltac:(lia) ltac:(lia) ltac:(lia) B1) as P2.
    destruct (put KI 16 d1 (o + 5) (bias_quant f32_0_01 (be_bias e)) 14) as [[d2 o2]|x|] eqn:Q2; cbn [bind]; [|discriminate|contradiction].
    destruct (put_frame KI 16 d1 (o + 5) _ 14 d2 o2 ltac:(lia) ltac:(lia) ltac:(lia) B1 Q2) as [-> [_ [_ [B2 _]]]].
    apply IH; [exact B2|lia].
  Qed.

  Lemma cb_put_entries_frame s : forall es d o d' o', bytes_ok d = true -> 0 <= o -> cb_put_entries table (d, o) s es = Ok (d', o') ->
    bytes_ok d' = true /\ o <= o'.
  Proof.
    induction es as [|e r IH]; intros d o d' o' Hb Ho H; cbn [cb_put_entries] in H; [inversion H; subst; split; [exact Hb|lia]|].
    destruct (be_sat e =? s); [|apply (IH d o); assumption].
    destruct (to_id table (be_sig e)) as [id|]; [|apply (IH d o); assumption]. cbn [fst snd] in H.
    destruct (put KU 8 d o id 5) as [[d1 o1]|x|] eqn:Q1; cbn [bind] in H; try discriminate.
    destruct (put_frame KU 8 d o id 5 d1 o1 ltac:(lia) ltac:(lia) Ho Hb Q1) as [-> [_ [_ [B1 _]]]]. cbn [fst snd] in H.
    destruct (put KI 16 d1 (o + 5) (bias_quant f32_0_01 (be_bias e)) 14) as [[d2 o2]|x|] eqn:Q2; cbn [bind] in H; try discriminate.
    destruct (put_frame KI 16 d1 (o + 5) _ 14 d2 o2 ltac:(lia) ltac:(lia) ltac:(lia) B1 Q2) as [-> [_ [_ [B2 _]]]].
    destruct (IH d2 (o + 5 + 14) d' o' B2 ltac:(lia) H) as [B3 M]. split; [exact B3|lia].
  Qed.

  Lemma cb_sats_np mask es : forall n s d o, bytes_ok d = true -> 0 <= o -> cb_sats table sat_bits n s mask es (d, o) <> Panic.
  Proof.
    induction n as [|n IH]; intros s d o Hb Ho; cbn [cb_sats]; [discriminate|].
    destruct (Z.testbit mask s); [|apply IH; assumption]. cbn [fst snd].
    pose proof (put_no_panic KU 8 d o s sat_bits ltac:(lia) ltac:(lia) Ho Hb) as P1.
    destruct (put KU 8 d o s sat_bits) as [[d1 o1]|x|] eqn:Q1; cbn [bind]; [|discriminate|contradiction].
    destruct (put_frame KU 8 d o s sat_bits d1 o1 ltac:(lia) ltac:(lia) Ho Hb Q1) as [-> [_ [_ [B1 _]]]]. cbn [fst snd].
    destruct (31 <? cb_count table s es); [discriminate|].
    pose proof (put_no_panic KU 8 d1 (o + sat_bits) (cb_count table s es) 5 ltac:(lia) ltac:(lia) ltac:(lia) B1) as P2.
    destruct (put KU 8 d1 (o + sat_bits) (cb_count table s es) 5) as [[d2 o2]|x|] eqn:Q2; cbn [bind]; [|discriminate|contradiction].
    destruct (put_frame KU 8 d1 (o + sat_bits) _ 5 d2 o2 ltac:(lia) ltac:(lia) ltac:(lia) B1 Q2) as [-> [_ [_ [B2 _]]]].
    pose proof (cb_put_entries_np s es d2 (o + sat_bits + 5) B2 ltac:(lia)) as P3.
    destruct (cb_put_entries table (d2, o + sat_bits + 5) s es) as [[d3 o3]|x|] eqn:Q3; cbn [bind]; [|discriminate|contradiction].
    destruct (cb_put_entries_frame s es d2 (o + sat_bits + 5) d3 o3 B2 ltac:(lia) Q3) as [B3 M3].
    apply IH; [exact B3|lia].
  Qed.

  (** what the Rust type admits: at most [cap] entries, satellite identifiers of an unsigned type *)
  Definition wt_cb (v : val) : Prop :=
    exists l es, v = VList l /\ entries_of_vals l = Some es /\ zlen es <= cap /\ Forall (fun e => 0 <= be_sat e) es.

  Theorem cb_encode_no_panic v d o : wt_cb v -> bytes_ok d = true -> 0 <= o -> cb_encode table max_sat sat_bits cap (d, o) v <> Panic.
  Proof.
    intros [l [es [-> [He [Hc Hnn]]]]] Hb Ho. unfold cb_encode. rewrite He.
    destruct (Z.ltb_spec cap (zlen es)); [lia|].
    assert (G0 : forall n s, gcount n s 0 = O) by (induction n as [|n IHn]; intros z; cbn [gcount]; [reflexivity|]; rewrite Z.bits_0, IHn; reflexivity).
    pose proof (cb_mask_np es 0 0 Hnn ltac:(rewrite G0; reflexivity)) as N1.
    destruct (cb_mask max_sat es 0 0) as [[mask sn]|x|] eqn:Em; cbn [bind]; [|discriminate|contradiction].
    destruct (63 <? sn); [discriminate|]. cbn [fst snd].
    pose proof (put_no_panic KU 8 d o sn 6 ltac:(lia) ltac:(lia) Ho Hb) as P1.
    destruct (put KU 8 d o sn 6) as [[d1 o1]|x|] eqn:Q1; cbn [bind]; [|discriminate|contradiction].
    destruct (put_frame KU 8 d o sn 6 d1 o1 ltac:(lia) ltac:(lia) Ho Hb Q1) as [-> [_ [_ [B1 _]]]].
    apply cb_sats_np; [exact B1|lia].
  Qed.
End CBTotal.

(** ---------- 1230 ---------- *)
Definition wt_1230 (v : val) : Prop := exists l es, v = VList l /\ es1230_of_vals l = Some es /\ zlen es <= 4.

Lemma b1230_mask_np glo : forall es m, b1230_mask glo es m <> Panic.
Proof. induction es as [|[s x] r IH]; intros m; cbn [b1230_mask]; [discriminate|]. destruct (glo1230_bit s); [apply IH|discriminate]. Qed.

Lemma b1230_put_np : forall es d o, bytes_ok d = true -> 0 <= o -> b1230_put (d, o) es <> Panic.
Proof.
  induction es as [|[s x] r IH]; intros d o Hb Ho; cbn [b1230_put]; [discriminate|]. cbn [fst snd].
  pose proof (put_no_panic KI 16 d o (bias_quant f32_0_02 x) 16 ltac:(lia) ltac:(lia) Ho Hb) as P1.
  destruct (put KI 16 d o (bias_quant f32_0_02 x) 16) as [[d1 o1]|e|] eqn:Q1; cbn [bind]; [|discriminate|contradiction].
  destruct (put_frame KI 16 d o _ 16 d1 o1 ltac:(lia) ltac:(lia) Ho Hb Q1) as [-> [_ [_ [B1 _]]]]. apply IH; [exact B1|lia].
Qed.

Theorem b1230_encode_no_panic glo v d o : wt_1230 v -> bytes_ok d = true -> 0 <= o -> b1230_encode glo (d, o) v <> Panic.
Proof.
  intros [l [es [-> [He Hc]]]] Hb Ho. unfold b1230_encode. rewrite He. destruct (Z.ltb_spec 4 (zlen es)); [lia|]. cbv zeta.
  pose proof (b1230_mask_np glo (sort_by (fun a b : Z * Z * Z => sig_cmp glo (fst a) (fst b)) es) 0) as N1.
  destruct (b1230_mask glo _ 0) as [mask|e|]; cbn [bind]; [|discriminate|contradiction]. cbn [fst snd].
  pose proof (put_no_panic KU 8 d o mask 4 ltac:(lia) ltac:(lia) Ho Hb) as P1.
  destruct (put KU 8 d o mask 4) as [[d1 o1]|e|] eqn:Q1; cbn [bind]; [|discriminate|contradiction].
  destruct (put_frame KU 8 d o mask 4 d1 o1 ltac:(lia) ltac:(lia) Ho Hb Q1) as [-> [_ [_ [B1 _]]]]. apply b1230_put_np; [exact B1|lia].
Qed.

(** ---------- the free text of 1029 ---------- *)
(** a Rust [&str]: a sequence of Unicode scalar values *)
Definition wt_utf8 (v : val) : Prop := exists cs, v = VStr cs /\ forallb scalar_ok cs = true.

Theorem encode_utf8_no_panic v d o : wt_utf8 v -> bytes_ok d = true -> 0 <= o -> encode_utf8 (d, o) v <> Panic.
Proof.
  intros [cs [-> Hs]] Hb Ho. unfold encode_utf8. rewrite (array_string_valid 255 cs ltac:(lia) Hs).
  destruct ((255 <? zlen (array_string_from 255 cs)) || (127 <? zlen (firstn (fit_count 255 0 cs) cs))); [discriminate|]. cbn [fst snd].
  pose proof (put_no_panic KU 8 d o (zlen (firstn (fit_count 255 0 cs) cs) mod 256) 7 ltac:(lia) ltac:(lia) Ho Hb) as P1.
  destruct (put KU 8 d o _ 7) as [[d1 o1]|e|] eqn:Q1; cbn [bind]; [|discriminate|contradiction].
  destruct (put_frame KU 8 d o _ 7 d1 o1 ltac:(lia) ltac:(lia) Ho Hb Q1) as [-> [_ [_ [B1 _]]]]. cbn [fst snd].
  pose proof (put_no_panic KU 8 d1 (o + 7) (zlen (array_string_from 255 cs) mod 256) 8 ltac:(lia) ltac:(lia) ltac:(lia) B1) as P2.
  destruct (put KU 8 d1 (o + 7) _ 8) as [[d2 o2]|e|] eqn:Q2; cbn [bind]; [|discriminate|contradiction].
  destruct (put_frame KU 8 d1 (o + 7) _ 8 d2 o2 ltac:(lia) ltac:(lia) ltac:(lia) B1 Q2) as [-> [_ [_ [B2 _]]]].
  apply put_bytes_no_panic; [exact B2|lia].
Qed.

(** ---------- layouts: plain header fields followed by one special fragment ---------- *)
Section Tail.
  Variable sigt : gnss -> sigtable.
  Variable ssr59 ssr65 : sigtable.
  Variable cap59 cap65 : Z.
  Notation enc := (encode_frag sigt ssr59 ssr65 cap59 cap65).

  (** the special fragments and the conditions on their parameters *)
  Definition special_ok (f : frag) : bool :=
    match f with
    | FUtf8 | FBias1059 | FBias1065 | FBias1230 => true
    | FMsm g a b => table_ok 1 32 (sigt g) && forallb fok a && forallb fok b
    | _ => false
    end.
  Definition wt_special (f : frag) (v : val) : Prop :=
    match f with
    | FUtf8 => wt_utf8 v
    | FBias1059 => wt_cb cap59 v
    | FBias1065 => wt_cb cap65 v
    | FBias1230 => wt_1230 v
    | FMsm g a b => wt_msm a b v
    | _ => False
    end.

  Lemma special_np f v d o : special_ok f = true -> wt_special f v -> bytes_ok d = true -> 0 <= o -> enc f (d, o) v <> Panic.
  Proof.
    intros Hs Hw Hb Ho. destruct f; try discriminate; cbn [encode_frag wt_special] in *.
    - apply encode_utf8_no_panic; assumption.
    - apply cb_encode_no_panic; try assumption; lia.
    - apply cb_encode_no_panic; try assumption; lia.
    - apply b1230_encode_no_panic; assumption.
    - cbn [special_ok] in Hs. apply andb_true_iff in Hs. destruct Hs as [Hs Hb']. apply andb_true_iff in Hs. destruct Hs as [Ht Ha].
      apply msm_encode_no_panic; assumption.
  Qed.

  Notation go_enc := (fix go (fl : list frag) (vs : list val) (st : astate) {struct fl} : outcome astate :=
         match fl, vs with
         | [], [] => Ok st
         | f' :: fl', v' :: vs' => st' <- enc f' st v' ;; go fl' vs' st'
         | _, _ => Panic
         end).

  (** [tail_form lay = Some (hd, sp)]: lay is FStruct (hd ++ [sp]) *)
  Definition tail_form (lay : frag) : option (list frag * frag) :=
    match lay with
    | FStruct l => match rev l with sp :: rhd => Some (rev rhd, sp) | [] => None end
    | _ => None
    end.
  Lemma tail_form_eq lay hd sp : tail_form lay = Some (hd, sp) -> lay = FStruct (hd ++ [sp]).
  Proof.
    destruct lay; try discriminate. cbn [tail_form]. match goal with |- context [rev ?x] => rename x into l end. destruct (rev l) as [|x r] eqn:E; [discriminate|]. intros H. inversion H; subst.
    f_equal. rewrite <- (rev_involutive l), E. reflexivity.
  Qed.

  Definition tail_ok (lay : frag) : bool :=
    match tail_form lay with
    | Some (hd, sp) => forallb plain hd && forallb counts_ok hd && special_ok sp
    | None => false
    end.
  Inductive wt_tail : frag -> val -> Prop :=
  | wt_tail_intro lay hd sp vs v : tail_form lay = Some (hd, sp) -> Forall2 wt hd vs -> wt_special sp v -> wt_tail lay (VStruct (vs ++ [v])).

  Lemma go_enc_tail : forall hd vs sp v d o, forallb plain hd = true -> forallb counts_ok hd = true -> Forall2 wt hd vs ->
    bytes_ok d = true -> 0 <= o ->
    (forall d1 o1, bytes_ok d1 = true -> 0 <= o1 -> enc sp (d1, o1) v <> Panic) ->
    go_enc (hd ++ [sp]) (vs ++ [v]) (d, o) <> Panic.
  Proof.
    induction hd as [|f hd IH]; intros vs sp v d o Hp Hc Hw Hb Ho Hsp.
    - inversion Hw; subst. cbn [app]. specialize (Hsp d o Hb Ho). destruct (enc sp (d, o) v) as [st|e|]; cbn [bind]; [discriminate|discriminate|contradiction].
    - inversion Hw as [|? x ? vs' Hx Hr]; subst. cbn [forallb] in Hp, Hc. apply andb_true_iff in Hp, Hc. destruct Hp as [Hp1 Hp2]. destruct Hc as [Hc1 Hc2].
      cbn [app].
      pose proof (encode_no_panic sigt ssr59 ssr65 cap59 cap65 f Hp1 Hc1 x d o Hx Hb Ho) as Hn.
      destruct (enc f (d, o) x) as [[d1 o1]|e|] eqn:E; cbn [bind]; [|discriminate|contradiction].
      destruct (accepted_decodes sigt ssr59 ssr65 cap59 cap65 f Hp1 Hc1 d o x d1 o1 Hb Ho E) as [M [B _]].
      apply IH; try assumption. lia.
  Qed.

  Theorem encode_no_panic_tail lay v d o : tail_ok lay = true -> wt_tail lay v -> bytes_ok d = true -> 0 <= o -> enc lay (d, o) v <> Panic.
  Proof.
    intros Hok Hw Hb Ho. inversion Hw as [lay' hd sp vs x Ht Hvs Hx]; subst.
    unfold tail_ok in Hok. rewrite Ht in Hok. apply andb_true_iff in Hok. destruct Hok as [Hok Hs]. apply andb_true_iff in Hok. destruct Hok as [Hp Hc].
    rewrite (tail_form_eq lay hd sp Ht). cbn [encode_frag].
    apply go_enc_tail; try assumption. intros d1 o1 B1 O1. apply special_np; assumption.
  Qed.
End Tail.

(** ---------- build_message ---------- *)
Section BuildTotalAll.
  Variable sigt : gnss -> sigtable.
  Variable ssr59 ssr65 : sigtable.
  Variable cap59 cap65 : Z.
  Variable table : list (Z * frag).
  Hypothesis Hc59 : 0 <= cap59.
  Hypothesis Hc65 : 0 <= cap65.
  Hypothesis Hfit : forallb (fun m => frag_wfb (snd m) && (12 + max_bits cap59 cap65 (snd m) <=? 8184)) table = true.

  Notation build_on := (build_on sigt ssr59 ssr65 cap59 cap65 table).
  Notation enc := (encode_frag sigt ssr59 ssr65 cap59 cap65).

  (** build_message on a fresh buffer does not panic when encoding the body does not *)
  Theorem build_no_panic_gen n v lay : lookup n table = Some lay ->
    (forall d o, bytes_ok d = true -> 0 <= o -> enc lay (d, o) v <> Panic) -> build_on fresh_data (MTyped n v) <> Panic.
  Proof.
    intros Hlk Hnp.
    pose proof (lookup_In table n lay Hlk) as Hin.
    pose proof Hfit as Hf'. rewrite forallb_forall in Hf'. specialize (Hf' _ Hin). cbn [snd] in Hf'. apply andb_true_iff in Hf'. destruct Hf' as [Hwf Hmax]. apply Z.leb_le in Hmax.
    unfold Message.build_on. rewrite Hlk.
    set (window := firstn 1023 (skipn 3 fresh_data)).
    assert (Hwl : zlen window = 1023) by (vm_compute; reflexivity).
    assert (Hwb : bytes_ok window = true) by (vm_compute; reflexivity).
    pose proof (put_no_panic KU 16 window 0 n 12 ltac:(lia) ltac:(lia) ltac:(lia) Hwb) as N0.
    destruct (put KU 16 window 0 n 12) as [[d0 o0]|e|] eqn:Pu; cbn [bind]; [|discriminate|contradiction].
    destruct (put_frame KU 16 window 0 n 12 d0 o0 ltac:(lia) ltac:(lia) ltac:(lia) Hwb Pu) as [-> [_ [L0 [B0 _]]]].
    pose proof (Hnp d0 (0 + 12) B0 ltac:(lia)) as N1.
    destruct (enc lay (d0, 0 + 12) v) as [[d1 o1]|e|] eqn:En; cbn [bind]; [|discriminate|contradiction].
    pose proof (encode_frag_grows sigt ssr59 ssr65 cap59 cap65 Hc59 Hc65 lay Hwf (d0, 0 + 12) v (d1, o1) En) as Hg. cbn [snd] in Hg.
    pose proof (encode_frag_len sigt ssr59 ssr65 cap59 cap65 lay (d0, 0 + 12) v (d1, o1) En) as Hl1. cbn [fst] in Hl1.
    cbn [fst snd]. unfold usub. destruct (Z.leb_spec 1 o1) as [_|]; [|lia]. cbn [bind]. cbv zeta.
    match goal with |- (if ?c then _ else _) <> _ => destruct c eqn:Hshort end; [|discriminate].
    exfalso. apply Z.ltb_lt in Hshort. revert Hshort. rewrite !zlen_set_nth, !zlen_app.
    replace (zlen (firstn 3 fresh_data)) with 3 by (vm_compute; reflexivity).
    replace (zlen (skipn 1026 fresh_data)) with 3 by (vm_compute; reflexivity). lia.
  Qed.
End BuildTotalAll.

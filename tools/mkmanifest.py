#!/usr/bin/env python3
"""Regenerate /verif/MANIFEST.json from the property registry (tools/vlib/props.py)."""
import json, os, sys
sys.path.insert(0, os.path.dirname(os.path.abspath(__file__)))
from vlib import props
ROOT = os.path.dirname(os.path.dirname(os.path.abspath(__file__)))
all_ids = [json.loads(l)["id"] for l in open(os.path.join(ROOT, "properties.jsonl"))]
checks = []
claimed = set()
for pid in all_ids:
    if pid not in props.REGISTRY:
        continue
    P = props.REGISTRY[pid]()
    claimed.add(pid)
    checks.append({
        "property_id": pid,
        "quick_cmd": "./check %s --tier quick" % pid,
        "thorough_cmd": "./check %s --tier thorough" % pid,
        "evidence_file": "/verif/evidence/%s.json" % pid,
        "replay_cmd_template": "./check %s --replay {path}" % pid,
        "engine": "coq-model+correspondence",
        "level_claimed": {"category": P.level, "text": P.level_text, "design_ref": "DESIGN.md section 4, %s" % pid},
        "level_note": P.level_note,
        "technique": P.technique,
    })
na = [{"property_id": pid, "reason": props.NOT_APPLICABLE.get(pid, "check not built yet in this commit; see DESIGN.md section 4")}
      for pid in all_ids if pid not in claimed]
m = {
    "version": 1,
    "setup_cmd": "./check --setup",
    "hooks": {
        "guard": "rtcm_rs_verif",
        "enable": "RUSTFLAGS=\"--cfg rtcm_rs_verif\" (set by the check driver when it builds /verif/harness against /repo)",
        "baseline_off_cmd": "cd /repo && cargo test --workspace --no-fail-fast --offline",
        "source_commits": ["9ee6450", "c7c0b4c"],
        "add_only": True,
    },
    "engines": [
        {"name": "coq-model", "path": "/verif/coq", "serves_properties": [c["property_id"] for c in checks],
         "kind_free_text": "hand-written executable Gallina model + tables regenerated from /repo by tools/translate.py; theorems in coq/Properties, proofs in coq/Proofs; Coq 8.16.1 full .vo build"},
        {"name": "correspondence", "path": "/verif/harness, /verif/ocaml, /verif/tools/vlib", "serves_properties": [c["property_id"] for c in checks],
         "kind_free_text": "the model extracted to OCaml and the implementation (release and release+overflow-checks, hooks on) run the same operation lines; differences and impl-side property probes give the replays"},
    ],
    "checks": checks,
    "not_applicable": na,
    "notes": "See DESIGN.md. Known findings: known_findings.json (all entries fixed by 'fix:' commits in /repo).",
}
json.dump(m, open(os.path.join(ROOT, "MANIFEST.json"), "w"), indent=1)
print("MANIFEST.json: %d checks, %d not applicable" % (len(checks), len(na)))

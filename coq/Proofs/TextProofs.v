(** Strings: Df88591String, ArrayString, UTF-8 (C17) and the hand-written serde impls (C20). *)
From Coq Require Import ZArith List Lia Bool ZifyBool.
From RtcmModel Require Import Types BitIO Field Text.
From RtcmProofs Require Import ListZ.
Import ListNotations.
Open Scope Z_scope.

Ltac Zify.zify_post_hook ::= Z.div_mod_to_equations.

(** ---------- Df88591String ---------- *)
Lemma from_char_range c : 1 <= from_char c <= 255.
Proof. unfold from_char. destruct ((0 <? c) && (c <? 256)) eqn:E; lia. Qed.
Lemma from_char_id c : 1 <= c <= 255 -> from_char c = c.
Proof. unfold from_char. intros H. destruct ((0 <? c) && (c <? 256)) eqn:E; lia. Qed.
Lemma from_char_other c : ~ (1 <= c <= 255) -> from_char c = 164.
Proof. unfold from_char. intros H. destruct ((0 <? c) && (c <? 256)) eqn:E; lia. Qed.
Lemma to_char_from_char c : to_char (from_char c) = from_char c.
Proof. unfold to_char. pose proof (from_char_range c). destruct (from_char c =? 0) eqn:E; lia. Qed.

Lemma df88591_collect_spec cap : forall cs buf, zlen buf <= cap ->
  df88591_collect cap buf cs = buf ++ map from_char (firstn (Z.to_nat (cap - zlen buf)) cs).
Proof.
  induction cs as [|c r IH]; intros buf Hb; cbn [df88591_collect].
  - rewrite firstn_nil. cbn. rewrite app_nil_r. reflexivity.
  - destruct (Z.ltb_spec cap (zlen buf + 1)) as [Hfull|Hroom].
    + replace (Z.to_nat (cap - zlen buf)) with 0%nat by lia. cbn. rewrite app_nil_r. reflexivity.
    + rewrite IH by (rewrite zlen_app; change (zlen [from_char c]) with 1; lia).
      rewrite zlen_app. change (zlen [from_char c]) with 1.
      replace (Z.to_nat (cap - zlen buf)) with (S (Z.to_nat (cap - (zlen buf + 1)))) by lia.
      cbn [firstn map]. rewrite <- app_assoc. reflexivity.
Qed.

(** converting any string keeps its first N characters, each with code 1..255 as that byte, every other as 0xA4 *)
Theorem df88591_from_str_spec N s : 0 <= N -> df88591_from_str N s = map from_char (firstn (Z.to_nat N) s).
Proof.
  intros HN. unfold df88591_from_str. rewrite df88591_collect_spec by (unfold zlen; cbn; lia).
  unfold zlen. cbn [length Z.of_nat app]. rewrite Z.sub_0_r. reflexivity.
Qed.

(** reading the characters back returns that mapping *)
Theorem df88591_chars_spec N s : 0 <= N -> df88591_chars (df88591_from_str N s) = map from_char (firstn (Z.to_nat N) s).
Proof.
  intros HN. rewrite df88591_from_str_spec by exact HN. unfold df88591_chars. rewrite map_map.
  apply map_ext. intros c. apply to_char_from_char.
Qed.

(** ---------- UTF-8 ---------- *)
Definition utf8_total (cs : list Z) : Z := fold_right (fun c acc => utf8_len c + acc) 0 cs.

Lemma utf8_len_pos c : 1 <= utf8_len c <= 4.
Proof. unfold utf8_len. repeat destruct (_ <? _); lia. Qed.
Lemma utf8_encode_char_len c : zlen (utf8_encode_char c) = utf8_len c.
Proof. unfold utf8_encode_char, utf8_len, zlen. repeat destruct (_ <? _); reflexivity. Qed.
Lemma utf8_encode_len cs : zlen (utf8_encode cs) = utf8_total cs.
Proof.
  induction cs as [|c r IH]; [reflexivity|]. unfold utf8_encode in *. cbn [flat_map utf8_total fold_right].
  rewrite zlen_app, utf8_encode_char_len. fold (utf8_total r). rewrite IH. reflexivity.
Qed.
Lemma utf8_total_nonneg cs : 0 <= utf8_total cs.
Proof. induction cs as [|c r IH]; cbn [utf8_total fold_right]; [lia|]. pose proof (utf8_len_pos c). fold (utf8_total r). lia. Qed.

(** the longest prefix of whole characters that fits the byte capacity *)
Fixpoint fit_count (cap : Z) (used : Z) (cs : list Z) : nat :=
  match cs with
  | [] => O
  | c :: r => if cap <? used + utf8_len c then O else S (fit_count cap (used + utf8_len c) r)
  end.

Lemma array_string_collect_spec cap : forall cs buf,
  array_string_collect cap buf cs = buf ++ utf8_encode (firstn (fit_count cap (zlen buf) cs) cs).
Proof.
  induction cs as [|c r IH]; intros buf; cbn [array_string_collect fit_count].
  - cbn. rewrite app_nil_r. reflexivity.
  - destruct (cap <? zlen buf + utf8_len c); [cbn; rewrite app_nil_r; reflexivity|].
    rewrite IH. rewrite zlen_app, utf8_encode_char_len. cbn [firstn]. unfold utf8_encode. cbn [flat_map].
    rewrite <- app_assoc. reflexivity.
Qed.

Lemma fit_count_le cap : forall cs used, (fit_count cap used cs <= length cs)%nat.
Proof. induction cs as [|c r IH]; intros used; cbn [fit_count length]; [lia|]. destruct (_ <? _); [lia|]. specialize (IH (used + utf8_len c)). lia. Qed.

Lemma fit_count_fits cap : forall cs used, used <= cap -> used + utf8_total (firstn (fit_count cap used cs) cs) <= cap.
Proof.
  induction cs as [|c r IH]; intros used H; cbn [fit_count].
  - cbn. lia.
  - destruct (Z.ltb_spec cap (used + utf8_len c)); [cbn; lia|].
    cbn [firstn utf8_total fold_right]. fold (utf8_total (firstn (fit_count cap (used + utf8_len c) r) r)).
    specialize (IH (used + utf8_len c) ltac:(lia)). lia.
Qed.

Lemma fit_count_maximal cap : forall cs used, (fit_count cap used cs < length cs)%nat ->
  cap < used + utf8_total (firstn (S (fit_count cap used cs)) cs).
Proof.
  induction cs as [|c r IH]; intros used H; cbn [fit_count length] in *; [lia|].
  destruct (Z.ltb_spec cap (used + utf8_len c)).
  - cbn [firstn utf8_total fold_right]. lia.
  - specialize (IH (used + utf8_len c) ltac:(lia)).
    cbn [firstn utf8_total fold_right] in *. fold (utf8_total (firstn (S (fit_count cap (used + utf8_len c) r)) r)) in *.
    cbn [firstn] in IH. lia.
Qed.

(** converting to a UTF-8 text field keeps the longest prefix of whole characters that fits the capacity *)
Theorem array_string_from_spec N s : 0 <= N ->
  let k := fit_count N 0 s in
  array_string_from N s = utf8_encode (firstn k s) /\
  utf8_total (firstn k s) <= N /\
  ((k < length s)%nat -> N < utf8_total (firstn (S k) s)).
Proof.
  intros HN k. unfold array_string_from. rewrite array_string_collect_spec. cbn [app].
  change (zlen (@nil Z)) with 0. fold k. split; [reflexivity|]. split.
  - pose proof (fit_count_fits N s 0 HN). fold k in H. lia.
  - intros Hk. pose proof (fit_count_maximal N s 0 Hk). fold k in H. lia.
Qed.

(** ---------- core::str::from_utf8 on what char::encode_utf8 wrote ---------- *)
Definition utf8_step (rec : list Z -> option (list Z)) (b0 : Z) (r : list Z) : option (list Z) :=
  if inr 0 127 b0 then option_map (cons b0) (rec r)
  else if inr 194 223 b0 then
    match r with
    | b1 :: r1 => if cont b1 then option_map (cons ((b0 - 192) * 64 + (b1 - 128))) (rec r1) else None
    | _ => None
    end
  else if inr 224 239 b0 then
    match r with
    | b1 :: b2 :: r2 =>
        let ok1 := if b0 =? 224 then inr 160 191 b1 else if b0 =? 237 then inr 128 159 b1 else cont b1 in
        if ok1 && cont b2 then option_map (cons ((b0 - 224) * 4096 + (b1 - 128) * 64 + (b2 - 128))) (rec r2) else None
    | _ => None
    end
  else if inr 240 244 b0 then
    match r with
    | b1 :: b2 :: b3 :: r3 =>
        let ok1 := if b0 =? 240 then inr 144 191 b1 else if b0 =? 244 then inr 128 143 b1 else cont b1 in
        if ok1 && cont b2 && cont b3
        then option_map (cons ((b0 - 240) * 262144 + (b1 - 128) * 4096 + (b2 - 128) * 64 + (b3 - 128))) (rec r3)
        else None
    | _ => None
    end
  else None.

Lemma utf8_decode_S f b0 r : utf8_decode (S f) (b0 :: r) = utf8_step (utf8_decode f) b0 r.
Proof. reflexivity. Qed.

(** extra fuel is harmless *)
Lemma utf8_decode_fuel : forall f l, (length l <= f)%nat -> utf8_decode (S f) l = utf8_decode f l.
Proof.
  induction f as [|f IH]; intros l H.
  - destruct l; [reflexivity|cbn in H; lia].
  - destruct l as [|b0 r]; [reflexivity|]. cbn [length] in H.
    rewrite (utf8_decode_S (S f)), (utf8_decode_S f). unfold utf8_step.
    destruct (inr 0 127 b0); [rewrite IH by lia; reflexivity|].
    destruct (inr 194 223 b0).
    { destruct r as [|b1 r1]; [reflexivity|]. cbn [length] in H. destruct (cont b1); [rewrite IH by lia; reflexivity|reflexivity]. }
    destruct (inr 224 239 b0).
    { destruct r as [|b1 [|b2 r2]]; try reflexivity. cbn [length] in H. cbv zeta. destruct (_ && _); [rewrite IH by lia; reflexivity|reflexivity]. }
    destruct (inr 240 244 b0); [|reflexivity].
    destruct r as [|b1 [|b2 [|b3 r3]]]; try reflexivity. cbn [length] in H. cbv zeta. destruct (_ && _ && _); [rewrite IH by lia; reflexivity|reflexivity].
Qed.

Lemma utf8_decode_fuel_ge f l : (length l <= f)%nat -> utf8_decode f l = utf8_decode (length l) l.
Proof.
  intros H. induction f as [|f IH].
  - assert (length l = 0%nat) by lia. rewrite H0. reflexivity.
  - destruct (Nat.eq_dec (length l) (S f)) as [->|Hne]; [reflexivity|].
    rewrite utf8_decode_fuel by lia. apply IH. lia.
Qed.

Lemma from_utf8_cons_char c rest : scalar_ok c = true ->
  from_utf8 (utf8_encode_char c ++ rest) = option_map (cons c) (from_utf8 rest).
Proof.
  intros Hs. unfold from_utf8. unfold scalar_ok in Hs.
  assert (Hfuel : forall k l, (length l + k)%nat = length (utf8_encode_char c ++ rest) -> (1 <= k)%nat -> l = rest ->
                              utf8_decode (length (utf8_encode_char c ++ rest) - 1) l = utf8_decode (length rest) rest).
  { intros k l Hk H1 ->. apply utf8_decode_fuel_ge. lia. }
  unfold utf8_encode_char in *.
  destruct (Z.ltb_spec c 128) as [H1|H1].
  - cbn [app length]. rewrite utf8_decode_S. unfold utf8_step, inr.
    replace ((0 <=? c) && (c <=? 127)) with true by lia. reflexivity.
  - destruct (Z.ltb_spec c 2048) as [H2|H2].
    + cbn [app length]. rewrite utf8_decode_S. unfold utf8_step, inr, cont.
      replace ((0 <=? 192 + c / 64) && (192 + c / 64 <=? 127)) with false by lia.
      replace ((194 <=? 192 + c / 64) && (192 + c / 64 <=? 223)) with true by lia.
      replace ((128 <=? 128 + c mod 64) && (128 + c mod 64 <=? 191)) with true by lia.
      replace ((192 + c / 64 - 192) * 64 + (128 + c mod 64 - 128)) with c by lia.
      rewrite (utf8_decode_fuel_ge (S (length rest)) rest) by lia. reflexivity.
    + destruct (Z.ltb_spec c 65536) as [H3|H3].
      * cbn [app length]. rewrite utf8_decode_S. unfold utf8_step, inr, cont.
        replace ((0 <=? 224 + c / 4096) && (224 + c / 4096 <=? 127)) with false by lia.
        replace ((194 <=? 224 + c / 4096) && (224 + c / 4096 <=? 223)) with false by lia.
        replace ((224 <=? 224 + c / 4096) && (224 + c / 4096 <=? 239)) with true by lia.
        replace ((if 224 + c / 4096 =? 224 then (160 <=? 128 + (c / 64) mod 64) && (128 + (c / 64) mod 64 <=? 191)
                  else if 224 + c / 4096 =? 237 then (128 <=? 128 + (c / 64) mod 64) && (128 + (c / 64) mod 64 <=? 159)
                       else (128 <=? 128 + (c / 64) mod 64) && (128 + (c / 64) mod 64 <=? 191))
                 && ((128 <=? 128 + c mod 64) && (128 + c mod 64 <=? 191))) with true.
        2:{ symmetry. destruct (Z.eqb_spec (224 + c / 4096) 224); [lia|]. destruct (Z.eqb_spec (224 + c / 4096) 237); lia. }
        replace ((224 + c / 4096 - 224) * 4096 + (128 + (c / 64) mod 64 - 128) * 64 + (128 + c mod 64 - 128)) with c by lia.
        rewrite (utf8_decode_fuel_ge (S (S (length rest))) rest) by lia. reflexivity.
      * cbn [app length]. rewrite utf8_decode_S. unfold utf8_step, inr, cont.
        replace ((0 <=? 240 + c / 262144) && (240 + c / 262144 <=? 127)) with false by lia.
        replace ((194 <=? 240 + c / 262144) && (240 + c / 262144 <=? 223)) with false by lia.
        replace ((224 <=? 240 + c / 262144) && (240 + c / 262144 <=? 239)) with false by lia.
        replace ((240 <=? 240 + c / 262144) && (240 + c / 262144 <=? 244)) with true by lia.
        replace ((if 240 + c / 262144 =? 240 then (144 <=? 128 + (c / 4096) mod 64) && (128 + (c / 4096) mod 64 <=? 191)
                  else if 240 + c / 262144 =? 244 then (128 <=? 128 + (c / 4096) mod 64) && (128 + (c / 4096) mod 64 <=? 143)
                       else (128 <=? 128 + (c / 4096) mod 64) && (128 + (c / 4096) mod 64 <=? 191))
                 && ((128 <=? 128 + (c / 64) mod 64) && (128 + (c / 64) mod 64 <=? 191))
                 && ((128 <=? 128 + c mod 64) && (128 + c mod 64 <=? 191))) with true.
        2:{ symmetry. destruct (Z.eqb_spec (240 + c / 262144) 240); [lia|]. destruct (Z.eqb_spec (240 + c / 262144) 244); lia. }
        replace ((240 + c / 262144 - 240) * 262144 + (128 + (c / 4096) mod 64 - 128) * 4096 + (128 + (c / 64) mod 64 - 128) * 64 + (128 + c mod 64 - 128)) with c by lia.
        rewrite (utf8_decode_fuel_ge (S (S (S (length rest)))) rest) by lia. reflexivity.
Qed.

(** whatever ArrayString holds is valid UTF-8 and reads back as the characters that were kept *)
Theorem utf8_roundtrip cs : forallb scalar_ok cs = true -> from_utf8 (utf8_encode cs) = Some cs.
Proof.
  induction cs as [|c r IH]; intros H; [reflexivity|]. cbn [forallb] in H. apply andb_true_iff in H. destruct H as [Hc Hr].
  unfold utf8_encode in *. cbn [flat_map]. rewrite from_utf8_cons_char by exact Hc. rewrite IH by exact Hr. reflexivity.
Qed.

Lemma forallb_firstn {A} (p : A -> bool) n l : forallb p l = true -> forallb p (firstn n l) = true.
Proof.
  revert l. induction n as [|n IH]; intros l H; [reflexivity|]. destruct l as [|x l]; [reflexivity|].
  cbn [forallb firstn] in *. apply andb_true_iff in H. destruct H as [H1 H2]. rewrite H1, (IH l H2). reflexivity.
Qed.

Theorem array_string_valid N s : 0 <= N -> forallb scalar_ok s = true ->
  from_utf8 (array_string_from N s) = Some (firstn (fit_count N 0 s) s).
Proof.
  intros HN Hs. destruct (array_string_from_spec N s HN) as [E _]. rewrite E. apply utf8_roundtrip. apply forallb_firstn. exact Hs.
Qed.

(** ---------- the hand-written serde impls (C20) ---------- *)
(** Serialize for Df88591String<N>: the characters; Deserialize: push_char of the first N characters *)
Definition ser_88591 (bytes : list Z) : list Z := df88591_chars bytes.
Definition de_88591 (N : Z) (str : list Z) : list Z := map from_char (firstn (Z.to_nat N) str).
Definition wf_88591 (N : Z) (bytes : list Z) : Prop := zlen bytes <= N /\ Forall (fun b => 1 <= b <= 255) bytes.

Theorem serde_88591_roundtrip N bytes : wf_88591 N bytes -> de_88591 N (ser_88591 bytes) = bytes.
Proof.
  intros [Hl Hb]. unfold de_88591, ser_88591, df88591_chars.
  rewrite firstn_all2 by (rewrite map_length; unfold zlen in Hl; lia).
  rewrite map_map. rewrite <- (map_id bytes) at 2. apply map_ext_in. intros b Hin.
  rewrite Forall_forall in Hb. specialize (Hb b Hin). unfold to_char.
  destruct (b =? 0) eqn:E; [lia|]. apply from_char_id. exact Hb.
Qed.

(** Serialize for ArrayString<N>: the str; Deserialize: try_push every character until one does not fit *)
Definition de_array_string (N : Z) (str : list Z) : list Z := array_string_from N str.

Lemma fit_count_all cap : forall cs used, used + utf8_total cs <= cap -> fit_count cap used cs = length cs.
Proof.
  induction cs as [|c r IH]; intros used H; cbn [fit_count length]; [reflexivity|].
  cbn [utf8_total fold_right] in H. fold (utf8_total r) in H. pose proof (utf8_total_nonneg r).
  destruct (Z.ltb_spec cap (used + utf8_len c)); [lia|]. f_equal. apply IH. lia.
Qed.

Theorem serde_array_string_roundtrip N cs : 0 <= N -> utf8_total cs <= N ->
  de_array_string N cs = utf8_encode cs.
Proof.
  intros HN H. unfold de_array_string. destruct (array_string_from_spec N cs HN) as [E _]. rewrite E.
  rewrite fit_count_all by lia. rewrite firstn_all. reflexivity.
Qed.

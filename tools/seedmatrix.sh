#!/bin/bash
# usage: tools/seedmatrix.sh [pattern]   -- every seeded change (or those whose directory name matches the pattern) against the
# quick check of its own property; one line per change.  /repo must be clean before; it is put back after every change.
# Takes 1-4 minutes per change (the harness is rebuilt against the changed source in three profiles).
cd "$(dirname "$0")/.."
for d in seeded/*${1:-}*/; do
  n=$(basename "$d"); p=${n:0:3}
  [ -f "$d/patch.diff" ] || continue
  git -C /repo apply "$d/patch.diff" || { echo "$n: patch does not apply"; continue; }
  o=$(./check "$p" --tier quick 2>/dev/null | tail -2 | tr '\n' '|' | cut -c1-300)
  git -C /repo checkout -- .
  git checkout -- "evidence/$p.json" 2>/dev/null
  echo "$n -> $p: $o"
done

(** C05 -- the stream scanner finds the first deliverable frame and skips only dead bytes.
    Statements only; proofs are in Proofs/ScanProofs.v. *)
From Coq Require Import ZArith List Lia Bool.
From RtcmModel Require Import Types Crc Frame Scan.
From RtcmProofs Require Import ListZ FrameProofs ScanProofs.
Import ListNotations.
Open Scope Z_scope.

(** For every buffer the scanner returns, without panicking, the answer of the specification
    [scan_post]: with k the first position that is not dead (a position is dead when its byte is not
    0xD3 or its candidate is complete with a wrong checksum):
      - no such position: no frame, the whole buffer consumed;
      - the candidate at k is a valid frame f: f is delivered and consumed = k + frame_len f;
      - the candidate at k is incomplete: no frame, exactly the k bytes before it consumed. *)
Theorem C05_scan_spec : forall d, exists c mf, scan d = Ok (c, mf) /\ scan_post d 0 c mf.
Proof. exact scan_spec. Qed.
Check C05_scan_spec : forall d, exists c mf, scan d = Ok (c, mf) /\
  exists k : nat, (k <= length d)%nat /\
    (forall j, (j < k)%nat -> hd 0 (skipn j d) <> 211 \/ frame_new (skipn j d) = Err NotValid) /\
    ((k = length d /\ c = 0 + zlen d /\ mf = None) \/
     ((k < length d)%nat /\ hd 0 (skipn k d) = 211 /\
      ((exists f, frame_new (skipn k d) = Ok f /\ c = 0 + Z.of_nat k + frame_len f /\ mf = Some f) \/
       (frame_new (skipn k d) = Err Incomplete /\ c = 0 + Z.of_nat k /\ mf = None)))).

Theorem C05_consumed_le : forall d c mf, bytes_ok d = true -> scan d = Ok (c, mf) -> 0 <= c <= zlen d.
Proof. exact scan_consumed_le. Qed.

(** the delivered frame's bytes are the buffer bytes ending at the consumed mark *)
Theorem C05_frame_is_buffer_slice : forall d c f, bytes_ok d = true -> scan d = Ok (c, Some f) ->
  0 <= c - frame_len f /\ fr_frame_data f = zfirstn (frame_len f) (zskipn (c - frame_len f) d).
Proof. exact scan_frame_slice. Qed.

(** every byte consumed without being part of the delivered frame cannot begin a valid frame,
    whatever data follows *)
Theorem C05_skipped_are_dead : forall d c mf, bytes_ok d = true -> scan d = Ok (c, mf) ->
  forall j, (Z.of_nat j < match mf with Some f => c - frame_len f | None => c end) ->
  forall e f, frame_new (skipn j d ++ e) <> Ok f.
Proof. exact scan_skipped_dead. Qed.

(** the iterator yields exactly the frames, in order, and the consumed total of repeated scanner calls
    ([drains]), and terminates: the fuel |data| + 1 of [iter_run] is never exhausted *)
Theorem C05_iter : forall data, bytes_ok data = true ->
  exists t l, drains data 0 t l /\ iter_run data = Ok (t, l).
Proof. exact iter_run_spec. Qed.

Theorem C05_drain_deterministic : forall d base t l, drains d base t l ->
  forall t' l', drains d base t' l' -> t = t' /\ l = l'.
Proof. exact drains_det. Qed.

(** non-vacuity: two garbage bytes, a valid 8-byte frame, then the first two bytes of another frame;
    and a stray 0xD3 whose candidate announces more bytes than are there *)
Example C05_example :
  exists f, scan ([1; 2] ++ mkframe 0 [62; 128] ++ [211; 0]) = Ok (10, Some f) /\ fr_number f = Some 1000.
Proof. eexists. split; vm_compute; reflexivity. Qed.
Example C05_example_incomplete : scan ([7; 211; 0; 2; 62]) = Ok (1, None).
Proof. vm_compute. reflexivity. Qed.
Example C05_example_stray : scan ([1; 211] ++ mkframe 0 [62; 128]) = Ok (1, None).
Proof. vm_compute. reflexivity. Qed.

Print Assumptions C05_scan_spec.
Print Assumptions C05_consumed_le.
Print Assumptions C05_frame_is_buffer_slice.
Print Assumptions C05_skipped_are_dead.
Print Assumptions C05_iter.

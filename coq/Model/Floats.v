(** IEEE-754 binary32 / binary64 as used by the df! codecs, on Flocq's BinarySingleNaN.
    Everything here is executable.  Rust semantics assumed: round-to-nearest-even for
    [* / + -] and int->float [as]; float->int [as] truncates, saturates and maps NaN to 0. *)
From Coq Require Import ZArith Bool.
From Flocq Require Import Core BinarySingleNaN.
From RtcmModel Require Import Types.
Open Scope Z_scope.

Section Fmt.
  Variables prec emax : Z.
  Context (Hp : Prec_gt_0 prec) (Hpe : Prec_lt_emax prec emax).
  Notation bf := (binary_float prec emax).

  Definition femin : Z := 3 - emax - prec.
  Definition mantw : Z := prec - 1.                 (* stored mantissa bits *)

  (** m * 2^e rounded to nearest even (exact whenever representable) *)
  Definition of_me (m e : Z) : bf := binary_normalize prec emax Hp Hpe mode_NE m e false.
  Definition ofZ (n : Z) : bf := of_me n 0.
  Definition fzero : bf := B754_zero false.
  Definition fhalf : bf := of_me 1 (-1).
  Definition fmhalf : bf := of_me (-1) (-1).

  Definition fmul (x y : bf) : bf := Bmult mode_NE x y.
  Definition fdiv (x y : bf) : bf := Bdiv mode_NE x y.
  Definition fadd (x y : bf) : bf := Bplus mode_NE x y.
  Definition fsub (x y : bf) : bf := Bminus mode_NE x y.

  (** x >= y (false when unordered) *)
  Definition fge (x y : bf) : bool :=
    match Bcompare x y with Some Gt | Some Eq => true | _ => false end.
  (** x > y *)
  Definition fgt (x y : bf) : bool :=
    match Bcompare x y with Some Gt => true | _ => false end.

  (** Rust's [x as iN/uN]: NaN -> 0, saturating, truncating toward zero *)
  Definition to_int_sat (lo hi : Z) (x : bf) : Z :=
    match x with
    | B754_nan => 0
    | B754_infinity s => if s then lo else hi
    | B754_zero _ => 0
    | B754_finite _ _ _ _ => let t := Btrunc x in if t <? lo then lo else if hi <? t then hi else t
    end.

  Definition ffinite (x : bf) : bool := is_finite x.

  (** IEEE interchange encoding; [ebits] = exponent field width = total - prec *)
  Definition of_bits (ebits : Z) (b : Z) : bf :=
    let m := b mod 2 ^ mantw in
    let e := (b / 2 ^ mantw) mod 2 ^ ebits in
    let s := Z.odd (b / 2 ^ (mantw + ebits)) in
    if e =? 0 then
      (if m =? 0 then B754_zero s else of_me (if s then - m else m) femin)
    else if e =? 2 ^ ebits - 1 then
      (if m =? 0 then B754_infinity s else B754_nan)
    else
      of_me (if s then - (m + 2 ^ mantw) else m + 2 ^ mantw) (e - 1 + femin).

  Definition to_bits (ebits : Z) (x : bf) : Z :=
    let sb (s : bool) := if s then 2 ^ (mantw + ebits) else 0 in
    match x with
    | B754_zero s => sb s
    | B754_infinity s => sb s + (2 ^ ebits - 1) * 2 ^ mantw
    | B754_nan => (2 ^ ebits - 1) * 2 ^ mantw + 2 ^ (mantw - 1)
    | B754_finite s m e _ =>
        if Zpos m <? 2 ^ mantw then sb s + Zpos m
        else sb s + (e - femin + 1) * 2 ^ mantw + (Zpos m - 2 ^ mantw)
    end.
End Fmt.

Lemma Hp32 : Prec_gt_0 24. Proof. reflexivity. Qed.
Lemma Hpe32 : Prec_lt_emax 24 128. Proof. reflexivity. Qed.
Lemma Hp64 : Prec_gt_0 53. Proof. reflexivity. Qed.
Lemma Hpe64 : Prec_lt_emax 53 1024. Proof. reflexivity. Qed.

Definition f32 := binary_float 24 128.
Definition f64 := binary_float 53 1024.
Definition f32_of_bits : Z -> f32 := of_bits 24 128 Hp32 Hpe32 8.
Definition f32_to_bits : f32 -> Z := to_bits 24 128 8.
Definition f64_of_bits : Z -> f64 := of_bits 53 1024 Hp64 Hpe64 11.
Definition f64_to_bits : f64 -> Z := to_bits 53 1024 11.

(** Signal identifier mappings: the body of msm_mappings! (src/msg/msm_mappings.rs) over a table
    of (id, (band, attribute code point)) rows, and the sig_mappings! of the SSR bias codecs. *)
From Coq Require Import ZArith List Bool.
From RtcmModel Require Import Types.
Import ListNotations.
Open Scope Z_scope.

Definition sigtable := list (Z * (Z * Z)).

(** [match id { $num => Some(SigId($band,$attr)), .. _ => None }]: first matching arm wins *)
Fixpoint to_sig (t : sigtable) (id : Z) : option (Z * Z) :=
  match t with
  | [] => None
  | (n, s) :: r => if id =? n then Some s else to_sig r id
  end.

(** [match sig { SigId($band,$attr) => Some($num), .. _ => None }] *)
Fixpoint to_id (t : sigtable) (s : Z * Z) : option Z :=
  match t with
  | [] => None
  | (n, (b, a)) :: r => if (fst s =? b) && (snd s =? a) then Some n else to_id r s
  end.

Definition is_valid (t : sigtable) (s : Z * Z) : bool :=
  match to_id t s with Some _ => true | None => false end.

(** impl Ord for SigId *)
Definition sig_cmp (t : sigtable) (a b : Z * Z) : comparison :=
  match to_id t a, to_id t b with
  | Some l, Some r => l ?= r
  | None, Some _ => Gt
  | Some _, None => Lt
  | None, None =>
      match fst a ?= fst b with
      | Lt => Lt
      | Eq => snd a ?= snd b
      | Gt => Gt
      end
  end.

(** impl PartialOrd for SigId *)
Definition sig_partial_cmp (t : sigtable) (a b : Z * Z) : option comparison :=
  match to_id t a, to_id t b with
  | Some l, Some r => Some (l ?= r)
  | _, _ => None
  end.

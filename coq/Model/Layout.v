(** Message layouts: the bodies of msg!, msg_len_middle!, frag_vec!, frag_vec_with_len!, frag_grid16p!
    (src/msg/mod.rs) as an interpreter over [frag].  Struct values are positional:
    msg! -> VStruct fields; msg_len_middle! -> VStruct (fields1 ++ fields2 ++ [VList elems]). *)
From Coq Require Import ZArith List Bool.
From RtcmModel Require Import Types BitIO Floats Field SigId Text Bias Msm.
Import ListNotations.
Open Scope Z_scope.

Section Layout.
  (** signal tables (generated from msm_mappings.rs and the two SSR sig_mappings!) *)
  Variable sigt : gnss -> sigtable.
  Variable ssr59 ssr65 : sigtable.
  Variable cap59 cap65 : Z.           (* SAT_CAP_1059 / SAT_CAP_1065 *)

  Fixpoint encode_frag (f : frag) (st : astate) (v : val) {struct f} : outcome astate :=
    match f with
    | FField fs => encode_field fs st v
    | FStr cap lb => encode_str cap lb st v
    | FUtf8 => encode_utf8 st v
    | FBias1059 => cb_encode ssr59 63 6 cap59 st v
    | FBias1065 => cb_encode ssr65 31 5 cap65 st v
    | FBias1230 => b1230_encode (sigt G_glo) st v
    | FStruct fields =>
        match v with
        | VStruct vs =>
            (fix go (fl : list frag) (vs : list val) (st : astate) {struct fl} : outcome astate :=
               match fl, vs with
               | [], [] => Ok st
               | f' :: fl', v' :: vs' => st' <- encode_frag f' st v' ;; go fl' vs' st'
               | _, _ => Panic
               end) fields vs st
        | _ => Panic
        end
    | FLenMid f1 lenf f2 elem cap =>
        match v with
        | VStruct vs =>
            let n1 := length f1 in
            let n2 := length f2 in
            let vs1 := firstn n1 vs in
            let vs2 := firstn n2 (skipn n1 vs) in
            match skipn (n1 + n2) vs with
            | [VList l] =>
                if cap <? zlen l then Panic else               (* DataVec cannot hold more than cap *)
                st1 <- (fix go (fl : list frag) (vs : list val) (st : astate) {struct fl} : outcome astate :=
                          match fl, vs with
                          | [], [] => Ok st
                          | f' :: fl', v' :: vs' => st' <- encode_frag f' st v' ;; go fl' vs' st'
                          | _, _ => Panic
                          end) f1 vs1 st ;;
                st2 <- encode_field lenf st1 (VInt (zlen l)) ;;
                st3 <- (fix go (fl : list frag) (vs : list val) (st : astate) {struct fl} : outcome astate :=
                          match fl, vs with
                          | [], [] => Ok st
                          | f' :: fl', v' :: vs' => st' <- encode_frag f' st v' ;; go fl' vs' st'
                          | _, _ => Panic
                          end) f2 vs2 st2 ;;
                (fix elems (l : list val) (st : astate) {struct l} : outcome astate :=
                   match l with
                   | [] => Ok st
                   | x :: r => st' <- encode_frag elem st x ;; elems r st'
                   end) l st3
            | _ => Panic
            end
        | _ => Panic
        end
    | FVecLen elem cap lb =>
        match v with
        | VList l =>
            if cap <? zlen l then Panic else
            st1 <- put KU 16 (fst st) (snd st) (zlen l mod 65536) lb ;;
            (fix elems (l : list val) (st : astate) {struct l} : outcome astate :=
               match l with
               | [] => Ok st
               | x :: r => st' <- encode_frag elem st x ;; elems r st'
               end) l st1
        | _ => Panic
        end
    | FGrid16 elem =>
        match v with
        | VList l =>
            if negb (zlen l =? 16) then Panic else
            (fix elems (l : list val) (st : astate) {struct l} : outcome astate :=
               match l with
               | [] => Ok st
               | x :: r => st' <- encode_frag elem st x ;; elems r st'
               end) l st
        | _ => Panic
        end
    | FMsm g sat_specs sig_specs => msm_encode (sigt g) sat_specs sig_specs st v
    end.

  Fixpoint decode_frag (f : frag) (data : list Z) (off : Z) {struct f} : outcome (val * Z) :=
    match f with
    | FField fs => decode_field fs data off
    | FStr cap lb => decode_str cap lb data off
    | FUtf8 => decode_utf8 data off
    | FBias1059 => cb_decode ssr59 6 cap59 data off
    | FBias1065 => cb_decode ssr65 5 cap65 data off
    | FBias1230 => b1230_decode data off
    | FStruct fields =>
        '(vs, off') <- (fix go (fl : list frag) (off : Z) {struct fl} : outcome (list val * Z) :=
                          match fl with
                          | [] => Ok ([], off)
                          | f' :: fl' =>
                              '(x, off1) <- decode_frag f' data off ;;
                              '(r, off2) <- go fl' off1 ;;
                              Ok (x :: r, off2)
                          end) fields off ;;
        Ok (VStruct vs, off')
    | FLenMid f1 lenf f2 elem cap =>
        '(vs1, off1) <- (fix go (fl : list frag) (off : Z) {struct fl} : outcome (list val * Z) :=
                           match fl with
                           | [] => Ok ([], off)
                           | f' :: fl' =>
                               '(x, o1) <- decode_frag f' data off ;;
                               '(r, o2) <- go fl' o1 ;;
                               Ok (x :: r, o2)
                           end) f1 off ;;
        '(lenv, off2) <- decode_field lenf data off1 ;;
        match lenv with
        | VInt vec_len =>
            '(vs2, off3) <- (fix go (fl : list frag) (off : Z) {struct fl} : outcome (list val * Z) :=
                               match fl with
                               | [] => Ok ([], off)
                               | f' :: fl' =>
                                   '(x, o1) <- decode_frag f' data off ;;
                                   '(r, o2) <- go fl' o1 ;;
                                   Ok (x :: r, o2)
                               end) f2 off2 ;;
            if cap <? vec_len then Err CapacityExceeded
            else
              '(l, off4) <- (fix elems (n : nat) (off : Z) {struct n} : outcome (list val * Z) :=
                               match n with
                               | O => Ok ([], off)
                               | S n' =>
                                   '(x, o1) <- decode_frag elem data off ;;
                                   '(r, o2) <- elems n' o1 ;;
                                   Ok (x :: r, o2)
                               end) (Z.to_nat vec_len) off3 ;;
              Ok (VStruct (vs1 ++ vs2 ++ [VList l]), off4)
        | _ => Panic
        end
    | FVecLen elem cap lb =>
        '(len, off1) <- parse KU 16 data off lb ;;
        if cap <? len then Err CapacityExceeded
        else
          '(l, off2) <- (fix elems (n : nat) (off : Z) {struct n} : outcome (list val * Z) :=
                           match n with
                           | O => Ok ([], off)
                           | S n' =>
                               '(x, o1) <- decode_frag elem data off ;;
                               '(r, o2) <- elems n' o1 ;;
                               Ok (x :: r, o2)
                           end) (Z.to_nat len) off1 ;;
          Ok (VList l, off2)
    | FGrid16 elem =>
        '(l, off1) <- (fix elems (n : nat) (off : Z) {struct n} : outcome (list val * Z) :=
                         match n with
                         | O => Ok ([], off)
                         | S n' =>
                             '(x, o1) <- decode_frag elem data off ;;
                             '(r, o2) <- elems n' o1 ;;
                             Ok (x :: r, o2)
                         end) 16%nat off ;;
        Ok (VList l, off1)
    | FMsm g sat_specs sig_specs => msm_decode (sigt g) sat_specs sig_specs data off
    end.
End Layout.

(** What every successfully decoded MSM data segment looks like (C10, decoder side): the satellite rows carry the
    identifiers of the set bits of the satellite mask in strictly ascending order, the signal rows carry the
    cells in row-major order -- ascending satellite, then ascending signal identifier -- whatever the frame. *)
From Coq Require Import ZArith List Lia Bool Sorting.Permutation Sorting.Sorted.
From RtcmModel Require Import Types BitIO Floats Field SigId Bias Msm.
From RtcmProofs Require Import ListZ EncodeLen DecodeBound BitProofs SigProofs MsmProofs MsmMasks SortProofs DecodeTotal FieldProofs
  DecodeFinite RoundTrip MsmDecode Ext2Special.
Import ListNotations.
Open Scope Z_scope.

Ltac Zify.zify_post_hook ::= Z.div_mod_to_equations.

(** ---------- columns are appended to the rows ---------- *)
Lemma dec_column_length fs data : forall n off col off', dec_column fs n data off = Ok (col, off') -> length col = n.
Proof.
  induction n as [|n IH]; intros off col off' H; cbn [dec_column] in H; [inversion H; reflexivity|].
  destruct (decode_field fs data off) as [[x o1]|e|]; cbn [bind] in H; try discriminate.
  destruct (dec_column fs n data o1) as [[r o2]|e|] eqn:E; cbn [bind] in H; try discriminate. inversion H; subst. cbn [length]. f_equal. eapply IH. exact E.
Qed.

(** every row keeps what it had in front *)
Definition extends (r r' : list val) : Prop := exists t, r' = r ++ t.

Lemma snoc_each_extends : forall rows col, length col = length rows -> Forall2 extends rows (snoc_each rows col).
Proof.
  induction rows as [|r rs IH]; intros col H; destruct col as [|c cs]; try discriminate; cbn [snoc_each]; [constructor|].
  constructor; [exists [c]; reflexivity|]. apply IH. cbn [length] in H. lia.
Qed.

Lemma Forall2_extends_trans : forall a b c, Forall2 extends a b -> Forall2 extends b c -> Forall2 extends a c.
Proof.
  intros a b c H1. revert c. induction H1 as [|x y a b [t1 ->] _ IH]; intros c H2; inversion H2 as [|? z ? c' [t2 ->] Hbc]; subst; constructor.
  - exists (t1 ++ t2). rewrite app_assoc. reflexivity.
  - apply IH. exact Hbc.
Qed.

Lemma Forall2_extends_refl : forall a, Forall2 extends a a.
Proof. induction a; constructor; [exists []; rewrite app_nil_r; reflexivity|assumption]. Qed.

Lemma dec_columns_extends data n : forall specs off rows rows' off', length rows = n ->
  dec_columns specs n data off rows = Ok (rows', off') -> Forall2 extends rows rows'.
Proof.
  induction specs as [|fs r IH]; intros off rows rows' off' Hl H; cbn [dec_columns] in H; [inversion H; subst; apply Forall2_extends_refl|].
  destruct (dec_column fs n data off) as [[col o1]|e|] eqn:E; cbn [bind] in H; try discriminate.
  pose proof (dec_column_length fs data n off col o1 E) as Lc.
  eapply Forall2_extends_trans; [apply (snoc_each_extends rows col); lia|].
  eapply IH; [|exact H]. rewrite snoc_each_len; lia.
Qed.

(** ---------- the identifiers of the decoded rows ---------- *)
Lemma sat_rows_ids a sv data off sats off' : dec_sat_rows a sv data off = Ok (sats, off') -> map sat_row_id sats = map Some sv.
Proof.
  unfold dec_sat_rows. intros H. destruct (64 <? zlen sv); [discriminate|].
  destruct (dec_columns a (length sv) data off (map (fun s => [VInt s]) sv)) as [[rows o1]|e|] eqn:E; cbn [bind] in H; try discriminate.
  injection H as Hs Ho'. subst sats. pose proof (dec_columns_extends data (length sv) a off _ rows o1 ltac:(rewrite map_length; reflexivity) E) as F.
  clear E Ho'. revert rows F. induction sv as [|s sv IH]; intros rows F; cbn [map] in F; inversion F as [|? r' ? rows' [t ->] F']; subst; [reflexivity|].
  cbn [map app sat_row_id]. f_equal. apply IH. exact F'.
Qed.

Definition cell_key (tbl : sigtable) (c : Z * Z) : option (Z * (Z * Z)) :=
  match to_sig tbl (snd c) with Some sg => Some (fst c, sg) | None => None end.

Lemma cells_to_rows_keys tbl : forall cv rows, cells_to_rows tbl cv = Ok rows ->
  Forall2 (fun c r => exists b0 c0, to_sig tbl (snd c) = Some (b0, c0) /\ r = [VInt (fst c); VSig b0 c0]) cv rows.
Proof.
  induction cv as [|[s g] cv IH]; intros rows H; cbn [cells_to_rows] in H; [inversion H; constructor|].
  destruct (to_sig tbl g) as [[b0 c0]|] eqn:E; [|discriminate].
  destruct (cells_to_rows tbl cv) as [rs|e|]; cbn [bind] in H; try discriminate. inversion H; subst.
  constructor; [exists b0, c0; split; [exact E|reflexivity]|]. apply IH. reflexivity.
Qed.

Lemma sig_rows_keys tbl b cv data off sigs off' : dec_sig_rows tbl b cv data off = Ok (sigs, off') ->
  map sig_row_key sigs = map (cell_key tbl) cv /\ Forall (fun c => cell_key tbl c <> None) cv.
Proof.
  unfold dec_sig_rows. intros H. destruct (64 <? zlen cv); [discriminate|].
  destruct (cells_to_rows tbl cv) as [r0|e|] eqn:CR; cbn [bind] in H; try discriminate.
  destruct (dec_columns b (length cv) data off r0) as [[rows o1]|e|] eqn:E; cbn [bind] in H; try discriminate.
  injection H as Hs Ho'. subst sigs. pose proof (cells_to_rows_keys tbl cv r0 CR) as K.
  assert (Lr : length r0 = length cv) by (clear - K; induction K; cbn; congruence).
  pose proof (dec_columns_extends data (length cv) b off r0 rows o1 Lr E) as F.
  clear E Ho' CR Lr. revert rows F. induction K as [|c r cv r0 [b0 [c0 [Es ->]]] K IH]; intros rows F; inversion F as [|? r' ? rows' [t ->] F']; subst; [split; constructor|].
  destruct (IH _ F') as [M A]. cbn [map app sig_row_key]. assert (Ek : cell_key tbl c = Some (fst c, (b0, c0))) by (unfold cell_key; rewrite Es; reflexivity).
  rewrite Ek. split; [f_equal; exact M|]. constructor; [rewrite Ek; discriminate|exact A].
Qed.

(** ---------- the whole segment, with the cell-list function as a parameter ---------- *)
Section Gen.
  Variable F : Z -> Z -> Z -> outcome (option (list Z * list (Z * Z))).
  Variable tbl : sigtable.

  Theorem msm_decode_gen_rows a b data off sats sigs off' :
    msm_decode_gen F tbl a b data off = Ok (VStruct [VList sats; VList sigs], off') ->
    (sats = [] /\ sigs = []) \/
    exists sm gm cm sv cv, F sm gm cm = Ok (Some (sv, cv)) /\
      map sat_row_id sats = map Some sv /\ map sig_row_key sigs = map (cell_key tbl) cv /\ Forall (fun c => cell_key tbl c <> None) cv.
  Proof.
    intros H. unfold msm_decode_gen in H.
    destruct (parse KU 64 data off 64) as [[sm o1]|e|]; cbn [bind] in H; try discriminate.
    destruct (parse KU 32 data o1 32) as [[gm o2]|e|]; cbn [bind] in H; try discriminate.
    destruct ((sm =? 0) && (gm =? 0)); [inversion H; subst; left; split; reflexivity|]. right.
    destruct (Z.ltb_spec 64 (mask_len 64 sm * mask_len 32 gm)); [discriminate|].
    destruct (parse KU 64 data o2 (mask_len 64 sm * mask_len 32 gm)) as [[cm o3]|e|]; cbn [bind] in H; try discriminate.
    destruct (F sm gm cm) as [[[sv cv]|]|e|] eqn:EF; cbn [bind] in H; try discriminate.
    destruct (dec_sat_rows a sv data o3) as [[s1 o4]|e|] eqn:R1; cbn [bind] in H; try discriminate.
    destruct (dec_sig_rows tbl b cv data o4) as [[s2 o5]|e|] eqn:R2; cbn [bind] in H; try discriminate. inversion H; subst.
    exists sm, gm, cm, sv, cv. split; [exact EF|].
    destruct (sig_rows_keys tbl b cv data o4 sigs off' R2) as [K A].
    split; [exact (sat_rows_ids a sv data o3 sats o4 R1)|split; [exact K|exact A]].
  Qed.
End Gen.

(** ---------- the order of the identifiers ---------- *)
Definition lexlt (x y : Z * Z) : Prop := fst x < fst y \/ (fst x = fst y /\ snd x < snd y).

Lemma sorted_znth_lt l : StronglySorted Z.lt l -> forall i j, 0 <= i -> i < j -> j < zlen l -> znth l i < znth l j.
Proof.
  induction 1 as [|x l Hs IH Hx]; intros i j Hi Hij Hj; [unfold zlen in Hj; cbn in Hj; lia|].
  rewrite zlen_cons in Hj. unfold znth. destruct (Z.to_nat i) as [|i'] eqn:Ei; destruct (Z.to_nat j) as [|j'] eqn:Ej; try lia.
  - cbn [nth]. rewrite Forall_forall in Hx. apply Hx. apply nth_In. unfold zlen in Hj. lia.
  - cbn [nth]. specialize (IH (Z.of_nat i') (Z.of_nat j') ltac:(lia) ltac:(lia) ltac:(lia)). unfold znth in IH. rewrite !Nat2Z.id in IH. exact IH.
Qed.

Lemma sorted_znth_in l i : 0 <= i < zlen l -> In (znth l i) l.
Proof. intros H. unfold znth. apply nth_In. unfold zlen in H. lia. Qed.

Lemma sorted_map {A B} (R1 : A -> A -> Prop) (R2 : B -> B -> Prop) (f : A -> B) l :
  StronglySorted R1 l -> (forall x y, In x l -> In y l -> R1 x y -> R2 (f x) (f y)) -> StronglySorted R2 (map f l).
Proof.
  induction 1 as [|x l Hs IH Hx]; intros Hf; cbn [map]; constructor.
  - apply IH. intros a b Ia Ib. apply Hf; right; assumption.
  - rewrite Forall_forall in *. intros y Hy. apply in_map_iff in Hy. destruct Hy as [z [<- Hz]]. apply Hf; [left; reflexivity|right; exact Hz|apply Hx; exact Hz].
Qed.

Lemma sorted_filter {A} (R : A -> A -> Prop) p l : StronglySorted R l -> StronglySorted R (filter p l).
Proof.
  induction 1 as [|x l Hs IH Hx]; cbn [filter]; [constructor|]. destruct (p x); [|exact IH].
  constructor; [exact IH|]. rewrite Forall_forall in *. intros y Hy. apply filter_In in Hy. apply Hx. tauto.
Qed.

Lemma seq_sorted : forall k s, StronglySorted Z.lt (map (fun i => 0 + Z.of_nat i) (seq s k)).
Proof.
  induction k as [|k IH]; intros s; cbn [seq map]; constructor; [apply IH|].
  rewrite Forall_forall. intros y Hy. apply in_map_iff in Hy. destruct Hy as [z [<- Hz]]. apply in_seq in Hz. lia.
Qed.

(** cell_mask_id_vec with the two identifier lists as parameters (the kernel must not unfold mask_to_id_vec on a
    symbolic mask) *)
Definition cmiv_body (sv gv : list Z) (cm : Z) : outcome (option (list Z * list (Z * Z))) :=
  let ccl := zlen sv * zlen gv in
  if (64 <? ccl) || (ccl =? 0) then Ok None
  else cv <- cells_loop (Z.to_nat ccl) 0 ccl cm sv gv ;; Ok (Some (sv, cv)).

Lemma cmiv_body_order sv0 gv cm sv cv : StronglySorted Z.lt sv0 -> StronglySorted Z.lt gv ->
  cmiv_body sv0 gv cm = Ok (Some (sv, cv)) ->
  sv = sv0 /\ StronglySorted lexlt cv /\ (forall c, In c cv -> In (fst c) sv0 /\ In (snd c) gv).
Proof.
  intros Hs Hgs H. unfold cmiv_body in H. cbv zeta in H.
  destruct ((64 <? zlen sv0 * zlen gv) || (zlen sv0 * zlen gv =? 0)) eqn:C; [discriminate|].
  apply orb_false_iff in C. destruct C as [C1 C2]. apply Z.ltb_ge in C1. apply Z.eqb_neq in C2.
  destruct (cells_loop (Z.to_nat (zlen sv0 * zlen gv)) 0 (zlen sv0 * zlen gv) cm sv0 gv) as [cv0|e|] eqn:E; cbn [bind] in H; try discriminate.
  inversion H; subst sv cv. clear H. split; [reflexivity|].
  pose proof (cells_loop_spec sv0 gv (zlen sv0 * zlen gv) cm _ 0 cv0 E) as Hcv.
  pose proof (zlen_nonneg sv0) as N1. pose proof (zlen_nonneg gv) as N2. assert (Hn : 0 < zlen gv) by nia.
  set (idx := filter (fun j => Z.testbit cm (zlen sv0 * zlen gv - 1 - j)) (map (fun k => 0 + Z.of_nat k) (seq 0 (Z.to_nat (zlen sv0 * zlen gv))))) in *.
  assert (Hidx : forall j, In j idx -> 0 <= j < zlen sv0 * zlen gv).
  { intros j Hj. unfold idx in Hj. apply filter_In in Hj. destruct Hj as [Hj _]. apply in_map_iff in Hj. destruct Hj as [k [<- Hk]]. apply in_seq in Hk. lia. }
  assert (Sidx : StronglySorted Z.lt idx) by (unfold idx; apply sorted_filter; apply seq_sorted).
  rewrite Hcv. split.
  - apply (sorted_map Z.lt lexlt _ idx Sidx). intros x y Hx Hy Hxy. pose proof (Hidx x Hx) as Rx. pose proof (Hidx y Hy) as Ry.
    unfold lexlt. cbn [fst snd].
    assert (Qx : 0 <= x / zlen gv < zlen sv0) by (split; [apply Z.div_pos; lia|apply Z.div_lt_upper_bound; nia]).
    assert (Qy : 0 <= y / zlen gv < zlen sv0) by (split; [apply Z.div_pos; lia|apply Z.div_lt_upper_bound; nia]).
    assert (Mx : 0 <= x mod zlen gv < zlen gv) by (apply Z.mod_pos_bound; lia).
    assert (My : 0 <= y mod zlen gv < zlen gv) by (apply Z.mod_pos_bound; lia).
    assert (Hle : x / zlen gv <= y / zlen gv) by (apply Z.div_le_mono; lia).
    destruct (Z.eq_dec (x / zlen gv) (y / zlen gv)) as [Eq|Ne].
    + right. split; [rewrite Eq; reflexivity|]. apply sorted_znth_lt; [exact Hgs|lia| |lia].
      pose proof (Z.div_mod x (zlen gv) ltac:(lia)). pose proof (Z.div_mod y (zlen gv) ltac:(lia)). nia.
    + left. apply sorted_znth_lt; [exact Hs|lia|lia|lia].
  - intros c Hc. apply in_map_iff in Hc. destruct Hc as [j [<- Hj]]. pose proof (Hidx j Hj) as Rj. cbn [fst snd].
    assert (Qj : 0 <= j / zlen gv < zlen sv0) by (split; [apply Z.div_pos; lia|apply Z.div_lt_upper_bound; nia]).
    assert (Mj : 0 <= j mod zlen gv < zlen gv) by (apply Z.mod_pos_bound; lia).
    split; apply sorted_znth_in; assumption.
Qed.

Lemma cmiv_eq sm gm cm : cell_mask_id_vec sm gm cm = cmiv_body (mask_to_id_vec 64 sm) (mask_to_id_vec 32 gm) cm.
Proof. unfold cell_mask_id_vec, cmiv_body. reflexivity. Qed.

(** the cells a mask triple stands for: strictly ascending by satellite, then by signal identifier, every
    satellite among the listed ones *)
Theorem cell_mask_id_vec_order sm gm cm sv cv : cell_mask_id_vec sm gm cm = Ok (Some (sv, cv)) ->
  StronglySorted Z.lt sv /\ (forall s, In s sv <-> (1 <= s <= 64 /\ Z.testbit sm (64 - s) = true)) /\
  StronglySorted lexlt cv /\ (forall c, In c cv -> In (fst c) sv /\ 1 <= snd c <= 32 /\ Z.testbit gm (32 - snd c) = true).
Proof.
  intros H. rewrite cmiv_eq in H.
  destruct (mask_to_id_vec_spec 64 sm ltac:(lia)) as [Hin Hs]. destruct (mask_to_id_vec_spec 32 gm ltac:(lia)) as [Hgin Hgs].
  revert H Hin Hs Hgin Hgs. generalize (mask_to_id_vec 64 sm) (mask_to_id_vec 32 gm). intros sv0 gv H Hin Hs Hgin Hgs.
  destruct (cmiv_body_order sv0 gv cm sv cv Hs Hgs H) as [-> [S2 I2]].
  split; [exact Hs|]. split; [exact Hin|]. split; [exact S2|].
  intros c Hc. destruct (I2 c Hc) as [A B]. split; [exact A|]. apply Hgin. exact B.
Qed.

(** every decoded data segment: satellite rows in strictly ascending order of identifier, signal rows in
    strictly ascending (satellite, signal identifier) order, each on a listed satellite and a recognised signal *)
Theorem msm_decoded_order tbl a b data off sats sigs off' : msm_decode tbl a b data off = Ok (VStruct [VList sats; VList sigs], off') ->
  exists ids cells, map sat_row_id sats = map Some ids /\ StronglySorted Z.lt ids /\ (forall s, In s ids -> 1 <= s <= 64) /\
    map sig_row_key sigs = map (cell_key tbl) cells /\ Forall (fun c => cell_key tbl c <> None) cells /\
    StronglySorted lexlt cells /\ (forall c, In c cells -> In (fst c) ids /\ 1 <= snd c <= 32).
Proof.
  intros H. change (msm_decode tbl a b data off) with (msm_decode_gen cell_mask_id_vec tbl a b data off) in H.
  destruct (msm_decode_gen_rows cell_mask_id_vec tbl a b data off sats sigs off' H) as [[-> ->]|[sm [gm [cm [sv [cv [EF [Hs [Hk Hn]]]]]]]]].
  - exists [], []. split; [reflexivity|]. split; [constructor|]. split; [intros s []|]. split; [reflexivity|]. split; [constructor|]. split; [constructor|]. intros c [].
  - destruct (cell_mask_id_vec_order sm gm cm sv cv EF) as [S1 [I1 [S2 I2]]].
    exists sv, cv. split; [exact Hs|]. split; [exact S1|]. split; [intros s Hi; apply I1 in Hi; tauto|].
    split; [exact Hk|]. split; [exact Hn|]. split; [exact S2|]. intros c Hc. destruct (I2 c Hc) as [A [B _]]. split; assumption.
Qed.

(** C13 -- a frame's interpretation does not depend on the bytes that follow it.
    Statements only; proofs are in Proofs/FrameProofs.v. *)
From Coq Require Import ZArith List Lia Bool.
From RtcmModel Require Import Types Crc Frame.
From RtcmProofs Require Import BitLemmas ListZ FrameProofs.
Import ListNotations.
Open Scope Z_scope.

(** appending bytes after a complete candidate changes nothing: the same verdict and, when accepted,
    the very same frame record (lengths, payload, frame bytes, checksum, message number) -- hence the
    same decoded message, which is a function of that record *)
Theorem C13_suffix : forall d e, bytes_ok d = true -> 6 <= zlen d -> frame_length d + 6 <= zlen d ->
  frame_new (d ++ e) = frame_new d.
Proof.
  intros d e Hb H6 Hl. destruct (frame_length_bytes d Hb) as [_ HL]. apply frame_local; lia.
Qed.

Theorem C13_suffix_accepted : forall d e f, bytes_ok d = true -> frame_new d = Ok f -> frame_new (d ++ e) = Ok f.
Proof.
  intros d e f Hb E. destruct (frame_new_ok_inv d f E) as [[H6 [_ [Hl _]]] _].
  rewrite C13_suffix by assumption. exact E.
Qed.

(** the message number is the first 12 payload bits when the payload has at least two bytes, absent otherwise *)
Theorem C13_number : forall d f, bytes_ok d = true -> frame_new d = Ok f ->
  fr_number f = if 2 <=? data_len f then Some (znth d 3 * 16 + znth d 4 / 16) else None.
Proof.
  intros d f Hb E. destruct (frame_attributes d f Hb E) as [HL [_ [Hdl [_ [_ [_ Hn]]]]]].
  rewrite Hn, Hdl. unfold number_of. destruct (2 <=? frame_length d); [|reflexivity]. f_equal.
  pose proof (bytes_ok_znth d 3 Hb). pose proof (bytes_ok_znth d 4 Hb).
  rewrite Z.shiftl_mul_pow2, Z.shiftr_div_pow2 by lia.
  rewrite lor_disjoint; [reflexivity|lia|]. change (2 ^ 4) with 16.
  split; [apply Z.div_pos; lia|apply Z.div_lt_upper_bound; lia].
Qed.

(** non-vacuity: the 6-byte frame with an empty payload followed by four more bytes still has no number *)
Example C13_example : exists f, frame_new (mkframe 0 [] ++ [1; 2; 3; 4]) = Ok f /\ fr_number f = None /\ frame_len f = 6.
Proof. eexists. split; [vm_compute; reflexivity|]. split; vm_compute; reflexivity. Qed.

Print Assumptions C13_suffix.
Print Assumptions C13_suffix_accepted.
Print Assumptions C13_number.

(** Decoding what the MSM encoder wrote (C10): the masks read back, the counts agree, the identifier lists are
    the listed satellites and signals in ascending order, and the data segment decodes without error. *)
From Coq Require Import ZArith List Lia Bool Sorting.Permutation Sorting.Sorted.
From RtcmModel Require Import Types BitIO Floats Field SigId Bias Msm.
From RtcmProofs Require Import ListZ EncodeLen DecodeBound BitProofs SigProofs MsmProofs MsmMasks SortProofs DecodeTotal FieldProofs DecodeFinite RoundTrip.
Import ListNotations.
Open Scope Z_scope.

(** ---------- counting set positions ---------- *)
(** popcount_loop counts bit positions sh, sh+1, .. (least significant first) *)
Fixpoint lcnt (m : Z) (sh : Z) (n : nat) : Z :=
  match n with O => 0 | S n' => (if Z.testbit m sh then 1 else 0) + lcnt m (sh + 1) n' end.

Lemma popcount_lcnt m : forall n sh c, popcount_loop n sh m c = c + lcnt m sh n.
Proof. induction n as [|n IH]; intros sh c; cbn [popcount_loop lcnt]; [lia|]. rewrite IH. destruct (Z.testbit m sh); lia. Qed.

(** the same count, most significant position first *)
Lemma cnt_lcnt m w : forall j i, cnt m w i j = lcnt m (w - i - Z.of_nat j) j.
Proof.
  induction j as [|j IH]; intros i; [reflexivity|].
  rewrite cnt_snoc, IH. cbn [lcnt]. replace (w - i - Z.of_nat (S j) + 1) with (w - i - Z.of_nat j) by lia.
  replace (w - 1 - (i + Z.of_nat j)) with (w - i - Z.of_nat (S j)) by lia. lia.
Qed.

Lemma mask_len_cnt w m : 0 <= w -> mask_len w m = cnt m w 0 (Z.to_nat w).
Proof. intros Hw. unfold mask_len. rewrite popcount_lcnt, cnt_lcnt. rewrite Z2Nat.id by lia. replace (w - 0 - w) with 0 by lia. lia. Qed.

Lemma mask_ids_len w m : forall n i, zlen (mask_ids_loop n i w m) = cnt m w i n.
Proof.
  induction n as [|n IH]; intros i; cbn [mask_ids_loop cnt]; [reflexivity|].
  destruct (Z.testbit m (w - 1 - i)); rewrite ?zlen_cons, IH; lia.
Qed.

Theorem mask_len_ids w m : 0 <= w -> mask_len w m = zlen (mask_to_id_vec w m).
Proof. intros Hw. rewrite mask_len_cnt by exact Hw. unfold mask_to_id_vec. rewrite mask_ids_len. reflexivity. Qed.

(** the k-th listed identifier: position p (bit set) sits at index rank(p) of the identifier list *)
Lemma mask_ids_nth w m : forall n i p, 0 <= i -> i <= p < i + Z.of_nat n -> Z.testbit m (w - 1 - p) = true ->
  znth (mask_ids_loop n i w m) (cnt m w i (Z.to_nat (p - i))) = p + 1 /\ cnt m w i (Z.to_nat (p - i)) < cnt m w i n.
Proof.
  induction n as [|n IH]; intros i p Hi Hp Hb; [lia|]. cbn [mask_ids_loop].
  destruct (Z.eq_dec p i) as [->|Hne].
  - replace (Z.to_nat (i - i)) with O by lia. cbn [cnt]. rewrite Hb. rewrite znth_cons_0. split; [lia|].
    pose proof (cnt_nonneg m w n (i + 1)). lia.
  - destruct (IH (i + 1) p ltac:(lia) ltac:(lia) Hb) as [H1 H2].
    replace (Z.to_nat (p - i)) with (S (Z.to_nat (p - (i + 1)))) by lia. cbn [cnt].
    pose proof (cnt_nonneg m w (Z.to_nat (p - (i + 1))) (i + 1)) as Hnn.
    destruct (Z.testbit m (w - 1 - i)).
    + rewrite znth_cons_S by lia. replace (1 + cnt m w (i + 1) (Z.to_nat (p - (i + 1))) - 1) with (cnt m w (i + 1) (Z.to_nat (p - (i + 1)))) by lia.
      split; [exact H1|lia].
    + rewrite Z.add_0_l. split; [exact H1|lia].
Qed.

Theorem id_vec_nth w m s : 0 <= w -> 1 <= s <= w -> Z.testbit m (w - s) = true ->
  znth (mask_to_id_vec w m) (rank m w (s - 1)) = s /\ 0 <= rank m w (s - 1) < zlen (mask_to_id_vec w m).
Proof.
  intros Hw Hs Hb. unfold mask_to_id_vec, rank.
  destruct (mask_ids_nth w m (Z.to_nat w) 0 (s - 1) ltac:(lia) ltac:(lia) ltac:(replace (w - 1 - (s - 1)) with (w - s) by lia; exact Hb)) as [H1 H2].
  replace (s - 1 - 0) with (s - 1) in H1, H2 by lia. split; [rewrite H1; lia|]. rewrite mask_ids_len. split; [apply cnt_nonneg|exact H2].
Qed.

(** ---------- ranges of the masks the encoder computes ---------- *)
Lemma bits_range m w : 0 <= w -> 0 <= m -> (forall t, w <= t -> Z.testbit m t = false) -> m < 2 ^ w.
Proof.
  intros Hw Hm H. destruct (Z_lt_ge_dec m (2 ^ w)) as [L|G]; [exact L|]. exfalso.
  assert (Hpos : 0 < m) by (assert (0 < 2 ^ w) by (apply Z.pow_pos_nonneg; lia); lia).
  assert (Hl : w <= Z.log2 m) by (apply Z.log2_le_pow2; lia).
  specialize (H (Z.log2 m) Hl). rewrite Z.bit_log2 in H by exact Hpos. discriminate.
Qed.

Lemma lor_pow2_range m w k : 0 <= m < 2 ^ w -> 0 <= k < w -> 0 <= Z.lor m (2 ^ k) < 2 ^ w.
Proof.
  intros Hm Hk. split; [apply Z.lor_nonneg; split; [lia|apply Z.pow_nonneg; lia]|].
  apply bits_range; [lia|apply Z.lor_nonneg; split; [lia|apply Z.pow_nonneg; lia]|].
  intros t Ht. rewrite Z.lor_spec, Z.pow2_bits_false by lia. rewrite (testbit_small m w t) by lia. reflexivity.
Qed.

Lemma enc_sat_mask_range : forall sats m0 m, 0 <= m0 < 2 ^ 64 -> enc_sat_mask sats m0 = Ok m -> 0 <= m < 2 ^ 64.
Proof.
  induction sats as [|v r IH]; intros m0 m H0 H; cbn [enc_sat_mask] in H; [inversion H; subst; exact H0|].
  destruct (sat_row_id v) as [id|]; [|discriminate].
  destruct ((0 <? id) && (id <=? 64)) eqn:Hr; [|discriminate]. apply andb_true_iff in Hr. destruct Hr as [Hr1 Hr2]. apply Z.ltb_lt in Hr1. apply Z.leb_le in Hr2.
  destruct (0 <? Z.land (2 ^ (64 - id)) m0); [discriminate|]. eapply IH; [|exact H]. apply lor_pow2_range; lia.
Qed.

Lemma enc_sig_loop_range tbl : forall sigs sm ssm cv sm' ssm' cv', 0 <= sm < 2 ^ 32 ->
  enc_sig_loop tbl sigs sm ssm cv = Ok (sm', ssm', cv') -> 0 <= sm' < 2 ^ 32.
Proof.
  induction sigs as [|v r IH]; intros sm ssm cv sm' ssm' cv' H0 H; cbn [enc_sig_loop] in H; [inversion H; subst; exact H0|].
  destruct (sig_row_key v) as [[s g]|]; [|discriminate].
  destruct ((0 <? s) && (s <=? 64)); [|discriminate].
  destruct (to_id tbl g) as [i|]; [|discriminate].
  unfold shl in H. destruct ((0 <=? 32 - i) && (32 - i <? 32)) eqn:Hs; cbn [bind] in H; [|discriminate].
  apply andb_true_iff in Hs. destruct Hs as [Hs1 Hs2]. apply Z.leb_le in Hs1. apply Z.ltb_lt in Hs2.
  destruct (64 <=? zlen cv); [discriminate|].
  assert (Hw : wrapc KU 32 (1 * 2 ^ (32 - i)) = 2 ^ (32 - i)).
  { rewrite Z.mul_1_l. apply wrapc_in_range; [lia|]. unfold cmin, cmax. cbn [signed_kind].
    assert (0 < 2 ^ (32 - i)) by (apply Z.pow_pos_nonneg; lia). assert (2 ^ (32 - i) < 2 ^ 32) by (apply Z.pow_lt_mono_r; lia). lia. }
  rewrite Hw in H. eapply IH; [|exact H]. apply lor_pow2_range; lia.
Qed.

Lemma indx_loop_nonneg m w : forall n i c, 0 <= c -> Forall (fun x => 0 <= x) (indx_loop n i w m c).
Proof. induction n as [|n IH]; intros i c Hc; cbn [indx_loop]; [constructor|]. destruct (Z.testbit m (w - 1 - i)); constructor; try lia; apply IH; lia. Qed.
Lemma znth_nonneg l j : Forall (fun x => 0 <= x) l -> 0 <= znth l j.
Proof.
  intros H. unfold znth. destruct (nth_in_or_default (Z.to_nat j) l 0) as [Hin|Hd]; [|rewrite Hd; lia].
  rewrite Forall_forall in H. apply H. exact Hin.
Qed.
Lemma indx_array_nonneg w m j : 0 <= znth (indx_array w m) j.
Proof. apply znth_nonneg. apply indx_loop_nonneg. lia. Qed.

Lemma enc_cell_loop_range SI GI nsig ccl : 0 <= ccl <= 64 -> 0 <= nsig -> (forall j, 0 <= znth SI j) -> (forall j, 0 <= znth GI j) ->
  forall cells cm cm', 0 <= cm < 2 ^ ccl -> enc_cell_loop cells SI GI nsig ccl cm = Ok cm' -> 0 <= cm' < 2 ^ ccl.
Proof.
  intros Hccl Hns HSI HGI. induction cells as [|[s g] r IH]; intros cm cm' H0 H; cbn [enc_cell_loop] in H; [inversion H; subst; exact H0|].
  unfold aget in H.
  destruct ((0 <=? s - 1) && (s - 1 <? zlen SI)); cbn [bind] in H; [|discriminate].
  destruct ((0 <=? g - 1) && (g - 1 <? zlen GI)); cbn [bind] in H; [|discriminate].
  unfold usub in H. destruct (Z.leb_spec 1 ccl) as [Hc1|]; cbn [bind] in H; [|discriminate].
  pose proof (HSI (s - 1)) as Hs0. pose proof (HGI (g - 1)) as Hg0.
  set (ix := znth SI (s - 1) * nsig + znth GI (g - 1)) in *.
  assert (Hix0 : 0 <= ix) by (unfold ix; nia).
  destruct (Z.leb_spec ix (ccl - 1)) as [Hix|]; cbn [bind] in H; [|discriminate].
  unfold shl in H. destruct ((0 <=? ccl - 1 - ix) && (ccl - 1 - ix <? 64)) eqn:Hs; cbn [bind] in H; [|discriminate].
  assert (Hw : wrapc KU 64 (1 * 2 ^ (ccl - 1 - ix)) = 2 ^ (ccl - 1 - ix)).
  { rewrite Z.mul_1_l. apply wrapc_in_range; [lia|]. unfold cmin, cmax. cbn [signed_kind].
    assert (0 < 2 ^ (ccl - 1 - ix)) by (apply Z.pow_pos_nonneg; lia). assert (2 ^ (ccl - 1 - ix) < 2 ^ 64) by (apply Z.pow_lt_mono_r; lia). lia. }
  rewrite Hw in H. destruct (0 <? Z.land (2 ^ (ccl - 1 - ix)) cm); [discriminate|].
  eapply IH; [|exact H]. apply lor_pow2_range; [exact H0|lia].
Qed.

(** ---------- the identifier lists and the cells the decoder rebuilds ---------- *)
Lemma sorted_lt_nodup l : StronglySorted Z.lt l -> NoDup l.
Proof.
  induction 1 as [|x r Hr IH Hx]; constructor; [|exact IH]. intros Hin. rewrite Forall_forall in Hx. specialize (Hx x Hin). lia.
Qed.

Lemma sat_ids_len sats : (forall v, In v sats -> exists s, sat_row_id v = Some s /\ 1 <= s <= 64) -> length (sat_ids sats) = length sats.
Proof.
  induction sats as [|v r IH]; intros H; [reflexivity|]. unfold sat_ids in *. cbn [flat_map].
  destruct (H v (or_introl eq_refl)) as [s [Es _]]. rewrite Es. cbn [app length]. f_equal. apply IH. intros w Hw. apply H. right. exact Hw.
Qed.
Lemma sat_ids_in sats s : In s (sat_ids sats) <-> exists v, In v sats /\ sat_row_id v = Some s.
Proof.
  unfold sat_ids. rewrite in_flat_map. split.
  - intros [v [Hv Hs]]. exists v. split; [exact Hv|]. destruct (sat_row_id v) as [x|]; [|destruct Hs]. destruct Hs as [<-|[]]. reflexivity.
  - intros [v [Hv Es]]. exists v. split; [exact Hv|]. rewrite Es. left. reflexivity.
Qed.

Section Rebuild.
  Variable tbl : sigtable.
  Variables (sats sigs : list val) (sm gm cm : Z).
  Hypothesis Hspec : msm_masks_spec tbl sats sigs sm gm cm.
  Hypothesis Hgood : forall v, In v sats -> exists s, sat_row_id v = Some s /\ 1 <= s <= 64.
  Hypothesis Hnd : NoDup (sat_ids sats).
  Hypothesis Hrng : forall c, In c (cell_keys tbl sigs) -> 1 <= fst c <= 64 /\ 1 <= snd c <= 32.
  Notation cells := (cell_keys tbl sigs).
  Notation sv := (mask_to_id_vec 64 sm).
  Notation gv := (mask_to_id_vec 32 gm).
  Notation nsig := (mask_len 32 gm).
  Notation ccl := (mask_len 32 gm * zlen sats).

  Lemma existsb_eqb_in s l : existsb (Z.eqb s) l = true <-> In s l.
  Proof. rewrite existsb_exists. split; [intros [x [Hx E]]; apply Z.eqb_eq in E; subst; exact Hx|intros H; exists s; split; [exact H|apply Z.eqb_refl]]. Qed.

  (** the satellites the decoder lists are the listed satellites, ascending *)
  Lemma sat_vec_perm : Permutation sv (sat_ids sats) /\ StronglySorted Z.lt sv /\ zlen sv = zlen sats /\ mask_len 64 sm = zlen sats.
  Proof.
    destruct Hspec as [Hsat _]. destruct (mask_to_id_vec_spec 64 sm ltac:(lia)) as [Hin Hs].
    assert (P : Permutation sv (sat_ids sats)).
    { apply NoDup_Permutation; [apply sorted_lt_nodup; exact Hs|exact Hnd|]. intros s. rewrite Hin. split.
      - intros [Hr Hb]. rewrite (Hsat s Hr) in Hb. apply existsb_eqb_in. exact Hb.
      - intros Hi. assert (Hr : 1 <= s <= 64). { apply sat_ids_in in Hi. destruct Hi as [v [Hv Es]]. destruct (Hgood v Hv) as [s' [Es' Hr]]. rewrite Es in Es'. inversion Es'; subst. exact Hr. }
        split; [exact Hr|]. rewrite (Hsat s Hr). apply existsb_eqb_in. exact Hi. }
    split; [exact P|]. split; [exact Hs|].
    assert (L : zlen sv = zlen sats) by (unfold zlen; rewrite (Permutation_length P), sat_ids_len by exact Hgood; reflexivity).
    split; [exact L|]. rewrite mask_len_ids by lia. exact L.
  Qed.

  (** the cell at a cell's row-major index is that cell *)
  Lemma cell_at_index c : In c cells ->
    (znth sv (cell_index sm gm c / zlen gv), znth gv (cell_index sm gm c mod zlen gv)) = c.
  Proof.
    intros Hc. destruct (Hrng c Hc) as [R1 R2]. destruct Hspec as [Hsat [Hss [Hsig _]]].
    assert (Bs : Z.testbit sm (64 - fst c) = true).
    { rewrite (Hsat _ R1), (Hss _ R1). apply existsb_exists. exists c. split; [exact Hc|apply Z.eqb_refl]. }
    assert (Bg : Z.testbit gm (32 - snd c) = true).
    { rewrite (Hsig _ R2). apply existsb_exists. exists c. split; [exact Hc|apply Z.eqb_refl]. }
    destruct (id_vec_nth 64 sm (fst c) ltac:(lia) R1 Bs) as [Ns Rs]. destruct (id_vec_nth 32 gm (snd c) ltac:(lia) R2 Bg) as [Ng Rg].
    unfold cell_index. rewrite (mask_len_ids 32 gm ltac:(lia)).
    set (rs := rank sm 64 (fst c - 1)) in *. set (rg := rank gm 32 (snd c - 1)) in *. set (n := zlen gv) in *.
    assert (Hn : 0 < n) by lia.
    replace ((rs * n + rg) / n) with rs by (rewrite Z.div_add_l by lia; rewrite Z.div_small by lia; lia).
    replace ((rs * n + rg) mod n) with rg by (rewrite Z.add_comm, Z.mod_add by lia; rewrite Z.mod_small by lia; reflexivity).
    rewrite Ns, Ng. destruct c; reflexivity.
  Qed.

  (** the cells the decoder lists are the encoder's cells *)
  Lemma cells_perm cv : cells_loop (Z.to_nat ccl) 0 ccl cm sv gv = Ok cv -> Permutation cv cells.
  Proof.
    intros H. apply cells_loop_spec in H. destruct Hspec as [_ [_ [_ [Hccl [Hcm [Hidx Hndx]]]]]].
    pose proof (mask_len_nonneg_dec 32 gm) as Hn0. pose proof (zlen_nonneg sats) as Hs0.
    set (P := filter (fun j => Z.testbit cm (ccl - 1 - j)) (map (fun k => 0 + Z.of_nat k) (seq 0 (Z.to_nat ccl)))) in *.
    assert (HP : Permutation P (map (cell_index sm gm) cells)).
    { apply NoDup_Permutation; [|exact Hndx|].
      - unfold P. apply NoDup_filter. apply FinFun.Injective_map_NoDup; [intros a b E; lia|apply seq_NoDup].
      - intros j. unfold P. rewrite filter_In, in_map_iff. split.
        + intros [[k [<- Hk]] Hb]. apply in_seq in Hk. rewrite (Hcm (ccl - 1 - (0 + Z.of_nat k)) ltac:(lia)) in Hb.
          apply existsb_exists in Hb. destruct Hb as [c [Hc E]]. apply Z.eqb_eq in E. apply in_map_iff. exists c. split; [lia|exact Hc].
        + intros Hj. apply in_map_iff in Hj. destruct Hj as [c [<- Hc]]. destruct (Hidx c Hc) as [I1 I2]. split.
          * exists (Z.to_nat (cell_index sm gm c)). split; [lia|]. apply in_seq. lia.
          * rewrite (Hcm (ccl - 1 - cell_index sm gm c) ltac:(lia)). apply existsb_exists. exists c. split; [exact Hc|apply Z.eqb_refl]. }
    rewrite H. eapply Permutation_trans; [apply Permutation_map; exact HP|]. rewrite map_map.
    rewrite (map_ext_in _ (fun c => c)); [rewrite map_id; apply Permutation_refl|]. intros c Hc. apply cell_at_index. exact Hc.
  Qed.
End Rebuild.

(** ---------- the data rows: what the column encoders write, the column decoders can read ---------- *)
Definition specs_bits (specs : list field_spec) : Z := fold_right (fun fs acc => f_len fs + acc) 0 specs.

Lemma specs_bits_nonneg specs : forallb field_dec_ok specs = true -> 0 <= specs_bits specs.
Proof.
  induction specs as [|fs r IH]; intros H; cbn [specs_bits fold_right]; [lia|]. cbn [forallb] in H. apply andb_true_iff in H. destruct H as [H1 H2].
  destruct (field_dec_ok_widths fs H1). specialize (IH H2). unfold specs_bits in IH. lia.
Qed.

Lemma enc_column_frame fs skip k : field_dec_ok fs = true -> forall rows d o d' o', bytes_ok d = true -> 0 <= o ->
  enc_column fs skip k rows (d, o) = Ok (d', o') ->
  o' = o + f_len fs * zlen rows /\ bytes_ok d' = true /\ zlen d' = zlen d /\ agree d d' 0 o /\ (rows <> [] -> o' <= 8 * zlen d).
Proof.
  intros Hok. destruct (field_dec_ok_widths fs Hok) as [_ W]. induction rows as [|v r IH]; intros d o d' o' Hb Ho H; cbn [enc_column] in H.
  - inversion H; subst. unfold zlen; cbn [length]. split; [lia|]. split; [exact Hb|]. split; [reflexivity|]. split; [apply agree_refl|]. intros X; contradiction.
  - destruct (row_field skip k v) as [x|]; [|discriminate].
    destruct (encode_field fs (d, o) x) as [[d1 o1]|e|] eqn:E; cbn [bind] in H; try discriminate.
    destruct (encode_field_frame fs d o x d1 o1 Hok Ho Hb E) as [-> [Hfit [L1 [B1 A1]]]].
    destruct (IH d1 (o + f_len fs) d' o' B1 ltac:(lia) H) as [-> [B2 [L2 [A2 Hr]]]].
    rewrite zlen_cons. split; [lia|]. split; [exact B2|]. split; [lia|]. split.
    + eapply agree_trans; [exact A1|]. apply (agree_sub _ _ 0 (o + f_len fs)); [exact A2|lia|lia].
    + intros _. destruct r as [|w r']; [unfold zlen in *; cbn [length]; lia|]. rewrite <- L1. apply Hr. discriminate.
Qed.

Lemma enc_columns_frame skip rows : forall specs k d o d' o', forallb field_dec_ok specs = true -> bytes_ok d = true -> 0 <= o ->
  enc_columns specs skip k rows (d, o) = Ok (d', o') ->
  o' = o + specs_bits specs * zlen rows /\ bytes_ok d' = true /\ zlen d' = zlen d /\ agree d d' 0 o /\ (o < o' -> o' <= 8 * zlen d).
Proof.
  induction specs as [|fs r IH]; intros k d o d' o' Hok Hb Ho H; cbn [enc_columns] in H.
  - inversion H; subst. cbn [specs_bits fold_right]. split; [lia|]. split; [exact Hb|]. split; [reflexivity|]. split; [apply agree_refl|lia].
  - cbn [forallb] in Hok. apply andb_true_iff in Hok. destruct Hok as [H1 H2].
    destruct (enc_column fs skip k rows (d, o)) as [[d1 o1]|e|] eqn:E; cbn [bind] in H; try discriminate.
    destruct (enc_column_frame fs skip k H1 rows d o d1 o1 Hb Ho E) as [-> [B1 [L1 [A1 R1]]]].
    destruct (field_dec_ok_widths fs H1) as [_ W]. pose proof (zlen_nonneg rows) as Hn. pose proof (specs_bits_nonneg r H2) as Hs.
    destruct (IH (S k) d1 (o + f_len fs * zlen rows) d' o' H2 B1 ltac:(nia) H) as [-> [B2 [L2 [A2 R2]]]].
    cbn [specs_bits fold_right]. fold (specs_bits r). split; [lia|]. split; [exact B2|]. split; [lia|]. split.
    + eapply agree_trans; [exact A1|]. apply (agree_sub _ _ 0 (o + f_len fs * zlen rows)); [exact A2|lia|nia].
    + intros Hlt. destruct (Z_lt_ge_dec (o + f_len fs * zlen rows) (o + f_len fs * zlen rows + specs_bits r * zlen rows)) as [L|G].
      * rewrite <- L1. apply R2. exact L.
      * assert (specs_bits r * zlen rows = 0) by nia. replace (o + f_len fs * zlen rows + specs_bits r * zlen rows) with (o + f_len fs * zlen rows) by lia.
        apply R1. intros X. subst rows. unfold zlen in Hlt. cbn in Hlt. lia.
Qed.

(** a column decoder succeeds whenever its bits are inside the buffer *)
Lemma dec_column_ok fs data : fok fs = true -> bytes_ok data = true -> forall n off, 0 <= off -> off + f_len fs * Z.of_nat n <= 8 * zlen data ->
  exists col, dec_column fs n data off = Ok (col, off + f_len fs * Z.of_nat n) /\ length col = n.
Proof.
  intros Hf Hb. unfold fok in Hf. apply andb_true_iff in Hf. destruct Hf as [Hrt Hok]. destruct (field_dec_ok_widths fs Hok) as [W1 W2].
  induction n as [|n IH]; intros off Ho Hfit; cbn [dec_column].
  - exists []. split; [f_equal; f_equal; lia|reflexivity].
  - destruct (parse_ok (f_ck fs) (f_cbits fs) data off (f_len fs) W1 W2 Ho ltac:(nia) Hb) as [c P].
    destruct (field_roundtrip fs data off c _ Hrt Hok Hb Ho P) as [v [D _]]. rewrite D. cbn [bind].
    destruct (IH (off + f_len fs) ltac:(lia) ltac:(nia)) as [col [E L]]. rewrite E. cbn [bind].
    exists (v :: col). split; [f_equal; f_equal; nia|cbn [length]; lia].
Qed.

Lemma snoc_each_len : forall rows col, length col = length rows -> length (snoc_each rows col) = length rows.
Proof. induction rows as [|r rs IH]; intros col H; destruct col as [|c cs]; try discriminate; [reflexivity|]. cbn [snoc_each length]. f_equal. apply IH. cbn [length] in H. lia. Qed.

Lemma dec_columns_ok data n : bytes_ok data = true -> forall specs, forallb fok specs = true ->
  forall off rows, 0 <= off -> length rows = n -> off + specs_bits specs * Z.of_nat n <= 8 * zlen data ->
  exists rows', dec_columns specs n data off rows = Ok (rows', off + specs_bits specs * Z.of_nat n) /\ length rows' = n.
Proof.
  intros Hb. induction specs as [|fs r IH]; intros Hf off rows Ho Hl Hfit; cbn [dec_columns].
  - exists rows. split; [cbn [specs_bits fold_right]; f_equal; f_equal; lia|exact Hl].
  - cbn [forallb] in Hf. apply andb_true_iff in Hf. destruct Hf as [H1 H2].
    assert (Hok : field_dec_ok fs = true) by (unfold fok in H1; apply andb_true_iff in H1; tauto).
    destruct (field_dec_ok_widths fs Hok) as [_ W].
    assert (Fr : forallb field_dec_ok r = true) by (rewrite forallb_forall in *; intros x Hx; specialize (H2 x Hx); unfold fok in H2; apply andb_true_iff in H2; tauto).
    pose proof (specs_bits_nonneg r Fr) as Hs. cbn [specs_bits fold_right] in Hfit. fold (specs_bits r) in Hfit.
    destruct (dec_column_ok fs data H1 Hb n off Ho ltac:(nia)) as [col [E L]]. rewrite E. cbn [bind].
    destruct (IH H2 (off + f_len fs * Z.of_nat n) (snoc_each rows col) ltac:(nia) ltac:(rewrite snoc_each_len; lia) ltac:(nia)) as [rows' [E' L']].
    rewrite E'. exists rows'. split; [cbn [specs_bits fold_right]; fold (specs_bits r); f_equal; f_equal; lia|exact L'].
Qed.

(** ---------- the whole data segment ---------- *)
Lemma msm_main_inv2 tbl a b st st' sats sigs :
    (sat_mask <- enc_sat_mask sats 0 ;;
     '(sig_mask, sat_sig_mask, cell_vec) <- enc_sig_loop tbl sigs 0 0 [] ;;
     if negb (sat_mask =? sat_sig_mask) then Err SatelliteMismatch
     else
       let sat_indx := indx_array 64 sat_mask in
       let sig_indx := indx_array 32 sig_mask in
       let sig_mask_len := mask_len 32 sig_mask in
       let cell_cont_len := sig_mask_len * zlen sats in
       if 64 <? cell_cont_len then Err InvalidSatelliteSignalCount
       else
         cell_mask <- enc_cell_loop cell_vec sat_indx sig_indx sig_mask_len cell_cont_len 0 ;;
         st1 <- put KU 64 (fst st) (snd st) sat_mask 64 ;;
         st2 <- put KU 32 (fst st1) (snd st1) sig_mask 32 ;;
         st3 <- put KU 64 (fst st2) (snd st2) cell_mask cell_cont_len ;;
         st4 <- enc_sat_rows a sats st3 ;;
         enc_sig_rows tbl b sigs st4) = Ok st' ->
  exists sat_mask sig_mask cv cell_mask st1 st2 st3 st4,
    enc_sat_mask sats 0 = Ok sat_mask /\ enc_sig_loop tbl sigs 0 0 [] = Ok (sig_mask, sat_mask, cv) /\
    mask_len 32 sig_mask * zlen sats <= 64 /\
    enc_cell_loop cv (indx_array 64 sat_mask) (indx_array 32 sig_mask) (mask_len 32 sig_mask) (mask_len 32 sig_mask * zlen sats) 0 = Ok cell_mask /\
    put KU 64 (fst st) (snd st) sat_mask 64 = Ok st1 /\ put KU 32 (fst st1) (snd st1) sig_mask 32 = Ok st2 /\
    put KU 64 (fst st2) (snd st2) cell_mask (mask_len 32 sig_mask * zlen sats) = Ok st3 /\
    enc_sat_rows a sats st3 = Ok st4 /\ enc_sig_rows tbl b sigs st4 = Ok st'.
Proof.
  intros Hmain. bind_inv Hmain.
  destruct (negb _) eqn:Hneg in Hmain; [discriminate|]. cbv zeta in Hmain.
  destruct (_ <? _) eqn:Hccl in Hmain; [discriminate|].
  apply negb_false_iff in Hneg. apply Z.eqb_eq in Hneg. apply Z.ltb_ge in Hccl.
  bind_inv Hmain. subst.
  eexists _, _, _, _, _, _, _, _. split; [reflexivity|]. split; [reflexivity|]. split; [eassumption|]. repeat (split; [eassumption|]). exact Hmain.
Qed.

Lemma cell_keys_len tbl sigs : (forall v, In v sigs -> exists s g i, sig_row_key v = Some (s, g) /\ 1 <= s <= 64 /\ to_id tbl g = Some i) ->
  length (cell_keys tbl sigs) = length sigs.
Proof.
  induction sigs as [|v r IH]; intros H; [reflexivity|]. unfold cell_keys in *. cbn [flat_map].
  destruct (H v (or_introl eq_refl)) as [s [g [i [Ek [_ Ei]]]]]. rewrite Ek, Ei. cbn [app length]. f_equal. apply IH. intros w Hw. apply H. right. exact Hw.
Qed.

Lemma cells_to_rows_ok tbl lo hi (Htbl : table_ok lo hi tbl = true) : forall cv,
  (forall c, In c cv -> exists sg, to_sig tbl (snd c) = Some sg) -> exists rows, cells_to_rows tbl cv = Ok rows /\ length rows = length cv.
Proof.
  induction cv as [|[s g] r IH]; intros H; cbn [cells_to_rows]; [exists []; split; reflexivity|].
  destruct (H (s, g) (or_introl eq_refl)) as [[b0 c0] E]. cbn [snd] in E. rewrite E.
  destruct (IH (fun c Hc => H c (or_intror Hc))) as [rs [Er Lr]]. rewrite Er. cbn [bind]. eexists. split; [reflexivity|]. cbn [length]. lia.
Qed.

Lemma msm_rows_sorted_lengths tbl sats sigs ss gs : ss = sort_by sat_cmp sats -> gs = sort_by (sig_row_cmp tbl) sigs ->
  zlen ss = zlen sats /\ zlen gs = zlen sigs.
Proof.
  intros -> ->. unfold zlen. split; f_equal; apply Permutation_length; apply sort_by_perm_any.
Qed.

(** msm_decode, assembled from the results of its steps *)
Lemma msm_decode_assemble tbl a b data o sm gm cm ccl sv gv cvd rowsS o4 rows0 rowsG o5 :
  sv = mask_to_id_vec 64 sm -> gv = mask_to_id_vec 32 gm ->
  parse KU 64 data o 64 = Ok (sm, o + 64) -> parse KU 32 data (o + 64) 32 = Ok (gm, o + 64 + 32) -> sm <> 0 ->
  mask_len 64 sm * mask_len 32 gm = ccl -> 1 <= ccl <= 64 ->
  parse KU 64 data (o + 64 + 32) ccl = Ok (cm, o + 64 + 32 + ccl) ->
  zlen sv * zlen gv = ccl ->
  cells_loop (Z.to_nat ccl) 0 ccl cm sv gv = Ok cvd ->
  zlen sv <= 64 -> zlen cvd <= 64 ->
  dec_columns a (length sv) data (o + 64 + 32 + ccl) (map (fun s => [VInt s]) sv) = Ok (rowsS, o4) ->
  cells_to_rows tbl cvd = Ok rows0 ->
  dec_columns b (length cvd) data o4 rows0 = Ok (rowsG, o5) ->
  msm_decode tbl a b data o = Ok (VStruct [VList (map VStruct rowsS); VList (map VStruct rowsG)], o5).
Proof.
  intros -> -> P1 P2 Hsm Hprod Hccl P3 Hvec Hcells Hsv Hcv DS E0 DG.
  unfold msm_decode. rewrite P1. cbn [bind]. rewrite P2. cbn [bind].
  destruct (Z.eqb_spec sm 0) as [|_]; [contradiction|]. cbn [andb]. rewrite Hprod.
  destruct (Z.ltb_spec 64 ccl); [lia|]. rewrite P3. cbn [bind].
  unfold cell_mask_id_vec. rewrite Hvec. destruct (Z.ltb_spec 64 ccl); [lia|]. destruct (Z.eqb_spec ccl 0); [lia|]. cbn [orb].
  rewrite Hcells. cbn [bind]. unfold dec_sat_rows. destruct (Z.ltb_spec 64 (zlen (mask_to_id_vec 64 sm))); [lia|]. rewrite DS. cbn [bind].
  unfold dec_sig_rows. destruct (Z.ltb_spec 64 (zlen cvd)); [lia|]. rewrite E0. cbn [bind]. rewrite DG. cbn [bind]. reflexivity.
Qed.

Section Segment.
  Variable tbl : sigtable.
  Variables lo hi : Z.
  Hypothesis Htbl : table_ok lo hi tbl = true.
  Variables a b : list field_spec.
  Hypothesis Ha : forallb fok a = true.
  Hypothesis Hb : forallb fok b = true.

  Lemma fok_dec specs : forallb fok specs = true -> forallb field_dec_ok specs = true.
  Proof. intros H. rewrite forallb_forall in *. intros x Hx. specialize (H x Hx). unfold fok in H. apply andb_true_iff in H. tauto. Qed.

  (** whatever non-empty data segment the encoder accepts, the decoder reads without error: as many satellite
      rows and signal rows as were given, consuming exactly the bits written *)
  (** the decoder's second half, with the identifier lists as plain variables *)
  Lemma segment_tail d' o (sats sigs : list val) sm gm cm ccl sv gv cvd : bytes_ok d' = true -> 0 <= o ->
    sv = mask_to_id_vec 64 sm -> gv = mask_to_id_vec 32 gm ->
    parse KU 64 d' o 64 = Ok (sm, o + 64) -> parse KU 32 d' (o + 64) 32 = Ok (gm, o + 64 + 32) -> sm <> 0 ->
    mask_len 64 sm * mask_len 32 gm = ccl -> 1 <= ccl <= 64 ->
    parse KU 64 d' (o + 64 + 32) ccl = Ok (cm, o + 64 + 32 + ccl) ->
    zlen sv = zlen sats -> zlen sv * zlen gv = ccl -> zlen sats <= 64 -> zlen sigs <= 64 ->
    cells_loop (Z.to_nat ccl) 0 ccl cm sv gv = Ok cvd -> zlen cvd = zlen sigs ->
    (forall c, In c cvd -> exists sg, to_sig tbl (snd c) = Some sg) ->
    o + 64 + 32 + ccl + specs_bits a * zlen sats + specs_bits b * zlen sigs <= 8 * zlen d' ->
    exists sats' sigs' : list val, msm_decode tbl a b d' o = Ok (VStruct [VList sats'; VList sigs'], o + 64 + 32 + ccl + specs_bits a * zlen sats + specs_bits b * zlen sigs) /\
      zlen sats' = zlen sats /\ zlen sigs' = zlen sigs.
  Proof.
    intros B5 Ho Esv Egv Pd1 Pd2 Hsm0 Hprod Hccl1 Pd3 Lsv Hvec Hc1 Hc2 Ecv Lcv Hcin Hend.
    pose proof (specs_bits_nonneg a (fok_dec a Ha)) as Hba. pose proof (specs_bits_nonneg b (fok_dec b Hb)) as Hbb.
    pose proof (zlen_nonneg sats) as Hs0. pose proof (zlen_nonneg sigs) as Hg0.
    destruct (dec_columns_ok d' (length sv) B5 a Ha (o + 64 + 32 + ccl) (map (fun s => [VInt s]) sv) ltac:(lia)
                ltac:(rewrite map_length; reflexivity) ltac:(fold (zlen sv); rewrite Lsv; nia)) as [rowsS [DS LS]].
    destruct (cells_to_rows_ok tbl lo hi Htbl cvd Hcin) as [rows0 [E0 L0]].
    fold (zlen sv) in DS. rewrite Lsv in DS.
    destruct (dec_columns_ok d' (length cvd) B5 b Hb (o + 64 + 32 + ccl + specs_bits a * zlen sats) rows0
                ltac:(nia) L0 ltac:(fold (zlen cvd); rewrite Lcv; nia)) as [rowsG [DG LG]].
    fold (zlen cvd) in DG. rewrite Lcv in DG.
    exists (map VStruct rowsS), (map VStruct rowsG). split.
    - exact (msm_decode_assemble tbl a b d' o sm gm cm ccl sv gv cvd rowsS _ rows0 rowsG _ Esv Egv Pd1 Pd2 Hsm0 Hprod Hccl1 Pd3 Hvec Ecv
               ltac:(rewrite Lsv; exact Hc1) ltac:(rewrite Lcv; exact Hc2) DS E0 DG).
    - unfold zlen at 1 3. rewrite !map_length, LS, LG. fold (zlen sv). fold (zlen cvd). split; assumption.
  Qed.

  Lemma segment_decodes_from d o sats sigs d' o' sm gm cm d1 o1 d2 o2 d3 o3 d4 o4 : bytes_ok d = true -> 0 <= o ->
    zlen sats <= 64 -> zlen sigs <= 64 -> ~ (sats = [] /\ sigs = []) ->
    enc_sat_mask sats 0 = Ok sm -> enc_sig_loop tbl sigs 0 0 [] = Ok (gm, sm, cell_keys tbl sigs) -> mask_len 32 gm * zlen sats <= 64 ->
    enc_cell_loop (cell_keys tbl sigs) (indx_array 64 sm) (indx_array 32 gm) (mask_len 32 gm) (mask_len 32 gm * zlen sats) 0 = Ok cm ->
    put KU 64 d o sm 64 = Ok (d1, o1) -> put KU 32 d1 o1 gm 32 = Ok (d2, o2) ->
    put KU 64 d2 o2 cm (mask_len 32 gm * zlen sats) = Ok (d3, o3) ->
    enc_sat_rows a sats (d3, o3) = Ok (d4, o4) -> enc_sig_rows tbl b sigs (d4, o4) = Ok (d', o') ->
    exists sats' sigs', msm_decode tbl a b d' o = Ok (VStruct [VList sats'; VList sigs'], o') /\
      length sats' = length sats /\ length sigs' = length sigs.
  Proof.
    intros Hbd Ho Hc1 Hc2 Hne E1 E2 Hccl E3 P1 P2 P3 R1 R2.
    destruct (enc_sat_mask_spec sats 0 sm E1) as [Hgood [_ [_ Hnd]]].
    pose proof (enc_sig_loop_spec tbl sigs 0 0 [] _ E2) as Hsgood.
    destruct (enc_sig_loop_masks tbl sigs 0 0 [] gm sm _ E2) as [_ [Hrng _]].
    pose proof (msm_masks_from tbl sats sigs sm gm _ cm E1 E2 Hccl E3) as Hspec.
    destruct (sat_vec_perm tbl sats sigs sm gm cm Hspec Hgood Hnd) as [Psv [Ssv [Lsv Msv]]].
    pose proof (enc_sat_mask_range sats 0 sm ltac:(change (2 ^ 64) with 18446744073709551616; lia) E1) as Rsm.
    pose proof (enc_sig_loop_range tbl sigs 0 0 [] gm sm _ ltac:(change (2 ^ 32) with 4294967296; lia) E2) as Rgm.
    pose proof (mask_len_nonneg_dec 32 gm) as Hn0. pose proof (zlen_nonneg sats) as Hs0.
    pose proof (enc_cell_loop_range (indx_array 64 sm) (indx_array 32 gm) (mask_len 32 gm) (mask_len 32 gm * zlen sats) ltac:(nia) Hn0
                  (indx_array_nonneg 64 sm) (indx_array_nonneg 32 gm) _ 0 cm ltac:(split; [lia|apply Z.pow_pos_nonneg; [lia|nia]]) E3) as Rcm.
    (* both lists are non-empty, so both masks are non-zero and there is at least one mask cell *)
    assert (Hsats : sats <> []).
    { intros X. subst sats. destruct sigs as [|g0 gr]; [apply Hne; split; reflexivity|].
      cbn [enc_sat_mask] in E1. inversion E1; subst sm. destruct Hspec as [_ [Hss _]].
      destruct (Hsgood g0 (or_introl eq_refl)) as [s [g [i [Ek [Hsr Ei]]]]].
      specialize (Hss s Hsr). cbn [sat_ids flat_map existsb] in Hss. symmetry in Hss. apply not_true_iff_false in Hss. apply Hss.
      apply existsb_exists. exists (s, i). split; [|apply Z.eqb_refl]. unfold cell_keys. cbn [flat_map]. rewrite Ek, Ei. left. reflexivity. }
    assert (Hzs : 1 <= zlen sats) by (destruct sats; [contradiction|rewrite zlen_cons; pose proof (zlen_nonneg sats); lia]).
    assert (Hsigs : sigs <> []).
    { intros X. subst sigs. cbn [enc_sig_loop] in E2. inversion E2; subst. cbn [enc_sat_mask] in *.
      destruct sats as [|v r]; [contradiction|]. destruct Hspec as [Hsat _]. destruct (Hgood v (or_introl eq_refl)) as [s [Es Hr]].
      specialize (Hsat s Hr). rewrite Z.bits_0 in Hsat. symmetry in Hsat. apply not_true_iff_false in Hsat. apply Hsat.
      apply existsb_exists. exists s. split; [|apply Z.eqb_refl]. apply sat_ids_in. exists v. split; [left; reflexivity|exact Es]. }
    assert (Hgv : 1 <= mask_len 32 gm).
    { destruct sigs as [|g0 gr]; [contradiction|]. destruct (Hsgood g0 (or_introl eq_refl)) as [s [g [i [Ek [Hsr Ei]]]]].
      assert (Hc : In (s, i) (cell_keys tbl (g0 :: gr))) by (unfold cell_keys; cbn [flat_map]; rewrite Ek, Ei; left; reflexivity).
      destruct (Hrng _ Hc) as [_ Ri]. cbn [snd] in Ri. destruct Hspec as [_ [_ [Hsig _]]].
      assert (Bg : Z.testbit gm (32 - i) = true) by (rewrite (Hsig i Ri); apply existsb_exists; exists (s, i); split; [exact Hc|apply Z.eqb_refl]).
      destruct (id_vec_nth 32 gm i ltac:(lia) Ri Bg) as [_ Rg]. rewrite (mask_len_ids 32 gm ltac:(lia)). lia. }
    assert (Lgv : mask_len 32 gm = zlen (mask_to_id_vec 32 gm)) by (apply mask_len_ids; lia).
    remember (mask_len 32 gm * zlen sats) as ccl eqn:Eccl.
    assert (Hccl1 : 1 <= ccl <= 64) by nia.
    (* the writes *)
    destruct (put_frame KU 64 d o sm 64 d1 o1 ltac:(lia) ltac:(lia) Ho Hbd P1) as [-> [F1 [L1 [B1 A1]]]].
    destruct (put_frame KU 32 d1 (o + 64) gm 32 d2 o2 ltac:(lia) ltac:(lia) ltac:(lia) B1 P2) as [-> [F2 [L2 [B2 A2]]]].
    destruct (put_frame KU 64 d2 (o + 64 + 32) cm ccl d3 o3 ltac:(lia) ltac:(lia) ltac:(lia) B2 P3) as [-> [F3 [L3 [B3 A3]]]].
    unfold enc_sat_rows in R1. unfold enc_sig_rows in R2.
    remember (sort_by sat_cmp sats) as ssorted eqn:Ess. remember (sort_by (sig_row_cmp tbl) sigs) as gsorted eqn:Egs.
    destruct (msm_rows_sorted_lengths tbl sats sigs ssorted gsorted Ess Egs) as [Lss Lgs].
    destruct (enc_columns_frame 1 ssorted a 0%nat d3 (o + 64 + 32 + ccl) d4 o4 (fok_dec a Ha) B3 ltac:(lia) R1) as [-> [B4 [L4 [A4 F4]]]].
    pose proof (specs_bits_nonneg a (fok_dec a Ha)) as Hba. pose proof (specs_bits_nonneg b (fok_dec b Hb)) as Hbb.
    pose proof (zlen_nonneg ssorted) as Hzss. pose proof (zlen_nonneg gsorted) as Hzgs.
    destruct (enc_columns_frame 2 gsorted b 0%nat d4 (o + 64 + 32 + ccl + specs_bits a * zlen ssorted) d' o' (fok_dec b Hb) B4 ltac:(nia) R2) as [-> [B5 [L5 [A5 F5]]]].
    remember (o + 64 + 32 + ccl) as o3 eqn:Eo3. remember (o3 + specs_bits a * zlen ssorted) as o4 eqn:Eo4.
    assert (Hend : o4 + specs_bits b * zlen gsorted <= 8 * zlen d').
    { destruct (Z_lt_ge_dec o4 (o4 + specs_bits b * zlen gsorted)) as [L|G]; [specialize (F5 L); lia|].
      assert (specs_bits b * zlen gsorted = 0) by nia.
      destruct (Z_lt_ge_dec o3 o4) as [L'|G']; [specialize (F4 L'); lia|]. nia. }
    (* reading the masks back *)
    assert (Ag3 : agree d3 d' 0 o3) by (eapply agree_trans; [exact A4|apply (agree_sub _ _ 0 o4); [exact A5|lia|nia]]).
    assert (Ag2 : agree d2 d' 0 (o + 64 + 32)) by (eapply agree_trans; [exact A3|apply (agree_sub _ _ 0 o3); [exact Ag3|lia|lia]]).
    assert (Ag1 : agree d1 d' 0 (o + 64)) by (eapply agree_trans; [exact A2|apply (agree_sub _ _ 0 (o + 64 + 32)); [exact Ag2|lia|lia]]).
    assert (Rs : representable KU 64 sm) by (cbn [representable]; lia).
    assert (Rg : representable KU 32 gm) by (cbn [representable]; lia).
    assert (Rc : representable KU ccl cm) by (cbn [representable]; exact Rcm).
    destruct (put_parse_roundtrip KU 64 d o sm 64 ltac:(lia) ltac:(lia) Ho F1 Hbd Rs) as [x1 [Q1 Pa1]]. rewrite P1 in Q1. inversion Q1; subst x1.
    destruct (put_parse_roundtrip KU 32 d1 (o + 64) gm 32 ltac:(lia) ltac:(lia) ltac:(lia) F2 B1 Rg) as [x2 [Q2 Pa2]]. rewrite P2 in Q2. inversion Q2; subst x2.
    destruct (put_parse_roundtrip KU 64 d2 (o + 64 + 32) cm ccl ltac:(lia) ltac:(lia) ltac:(lia) ltac:(lia) B2 Rc) as [x3 [Q3 Pa3]]. rewrite P3 in Q3. inversion Q3; subst x3.
    assert (Pd1 : parse KU 64 d' o 64 = Ok (sm, o + 64)).
    { rewrite <- (parse_ext KU 64 d1 d' o 64 ltac:(lia) ltac:(lia) Ho B1 B5 ltac:(apply (agree_sub _ _ 0 (o + 64)); [exact Ag1|lia|lia])). exact Pa1. }
    assert (Pd2 : parse KU 32 d' (o + 64) 32 = Ok (gm, o + 64 + 32)).
    { rewrite <- (parse_ext KU 32 d2 d' (o + 64) 32 ltac:(lia) ltac:(lia) ltac:(lia) B2 B5 ltac:(apply (agree_sub _ _ 0 (o + 64 + 32)); [exact Ag2|lia|lia])). exact Pa2. }
    assert (Pd3 : parse KU 64 d' (o + 64 + 32) ccl = Ok (cm, o + 64 + 32 + ccl)).
    { rewrite <- (parse_ext KU 64 d3 d' (o + 64 + 32) ccl ltac:(lia) ltac:(lia) ltac:(lia) B3 B5 ltac:(apply (agree_sub _ _ 0 o3); [exact Ag3|lia|lia])). exact Pa3. }
    assert (Hsm0 : sm <> 0).
    { intros X. destruct sats as [|v r]; [contradiction|]. destruct Hspec as [Hsat _]. destruct (Hgood v (or_introl eq_refl)) as [s [Es Hr]].
      specialize (Hsat s Hr). rewrite X, Z.bits_0 in Hsat. symmetry in Hsat. apply not_true_iff_false in Hsat. apply Hsat.
      apply existsb_exists. exists s. split; [|apply Z.eqb_refl]. apply sat_ids_in. exists v. split; [left; reflexivity|exact Es]. }
    assert (Hprod : mask_len 64 sm * mask_len 32 gm = ccl) by (rewrite Msv; lia).
    destruct (cells_loop_ok (mask_to_id_vec 64 sm) (mask_to_id_vec 32 gm) ccl cm ltac:(rewrite <- Lgv; lia)
                ltac:(rewrite Lsv, <- Lgv; lia) (Z.to_nat ccl) 0 ltac:(lia) ltac:(lia)) as [cvd [Ecv _]].
    pose proof Ecv as Ecv'. rewrite Eccl in Ecv'.
    pose proof (cells_perm tbl sats sigs sm gm cm Hspec Hrng cvd Ecv') as Pcv. clear Ecv'.
    assert (Lcv : length cvd = length sigs) by (rewrite (Permutation_length Pcv); apply cell_keys_len; exact Hsgood).
    assert (Hcin : forall c, In c cvd -> exists sg, to_sig tbl (snd c) = Some sg).
    { intros c Hc. apply (Permutation_in _ Pcv) in Hc. unfold cell_keys in Hc. apply in_flat_map in Hc. destruct Hc as [v [Hv Hc]].
      destruct (sig_row_key v) as [[s g]|]; [|destruct Hc]. destruct (to_id tbl g) as [i|] eqn:Ei; [|destruct Hc]. destruct Hc as [<-|[]]. cbn [snd].
      exists g. exact (to_sig_to_id tbl lo hi Htbl g i Ei). }
    assert (Lcvz : zlen cvd = zlen sigs) by (unfold zlen; rewrite Lcv; reflexivity).
    assert (Hvec : zlen (mask_to_id_vec 64 sm) * zlen (mask_to_id_vec 32 gm) = ccl) by (rewrite Lsv, <- Lgv; lia).
    assert (Hend' : o + 64 + 32 + ccl + specs_bits a * zlen sats + specs_bits b * zlen sigs <= 8 * zlen d') by (rewrite <- Lss, <- Lgs; lia).
    destruct (segment_tail d' o sats sigs sm gm cm ccl (mask_to_id_vec 64 sm) (mask_to_id_vec 32 gm) cvd B5 Ho eq_refl eq_refl
                Pd1 Pd2 Hsm0 Hprod Hccl1 Pd3 Lsv Hvec Hc1 Hc2 Ecv Lcvz Hcin Hend') as [sats' [sigs' [D [LA LB]]]].
    exists sats', sigs'. split; [|split; [apply Nat2Z.inj; exact LA|apply Nat2Z.inj; exact LB]].
    replace (o4 + specs_bits b * zlen gsorted) with (o + 64 + 32 + ccl + specs_bits a * zlen sats + specs_bits b * zlen sigs) by (rewrite <- Lss, <- Lgs; lia).
    exact D.
  Qed.

  Theorem msm_segment_decodes d o sats sigs d' o' : bytes_ok d = true -> 0 <= o ->
    msm_encode tbl a b (d, o) (VStruct [VList sats; VList sigs]) = Ok (d', o') -> ~ (sats = [] /\ sigs = []) ->
    exists sats' sigs', msm_decode tbl a b d' o = Ok (VStruct [VList sats'; VList sigs'], o') /\
      length sats' = length sats /\ length sigs' = length sigs.
  Proof.
    intros Hbd Ho H Hne. unfold msm_encode in H.
    match type of H with (if ?c then _ else _) = _ => destruct c eqn:Hcap; [discriminate|] end.
    apply orb_false_iff in Hcap. destruct Hcap as [Hc1 Hc2]. apply Z.ltb_ge in Hc1, Hc2.
    assert (Hmain : exists sm gm cv cm st1 st2 st3 st4,
      enc_sat_mask sats 0 = Ok sm /\ enc_sig_loop tbl sigs 0 0 [] = Ok (gm, sm, cv) /\ mask_len 32 gm * zlen sats <= 64 /\
      enc_cell_loop cv (indx_array 64 sm) (indx_array 32 gm) (mask_len 32 gm) (mask_len 32 gm * zlen sats) 0 = Ok cm /\
      put KU 64 d o sm 64 = Ok st1 /\ put KU 32 (fst st1) (snd st1) gm 32 = Ok st2 /\
      put KU 64 (fst st2) (snd st2) cm (mask_len 32 gm * zlen sats) = Ok st3 /\
      enc_sat_rows a sats st3 = Ok st4 /\ enc_sig_rows tbl b sigs st4 = Ok (d', o')).
    { destruct sats as [|s0 sr]; destruct sigs as [|g0 gr]; try (exfalso; apply Hne; split; reflexivity);
        exact (msm_main_inv2 tbl a b (d, o) (d', o') _ _ H). }
    clear H. destruct Hmain as [sm [gm [cv [cm [[d1 o1] [[d2 o2] [[d3 o3] [[d4 o4] [E1 [E2 [Hccl [E3 [P1 [P2 [P3 [R1 R2]]]]]]]]]]]]]]]].
    cbn [fst snd] in P2, P3.
    destruct (enc_sig_loop_masks tbl sigs 0 0 [] gm sm cv E2) as [Hcv _]. cbn [app] in Hcv. subst cv.
    exact (segment_decodes_from d o sats sigs d' o' sm gm cm d1 o1 d2 o2 d3 o3 d4 o4 Hbd Ho Hc1 Hc2 Hne E1 E2 Hccl E3 P1 P2 P3 R1 R2).
  Qed.
End Segment.

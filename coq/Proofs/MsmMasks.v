(** MSM masks written by the encoder (C10): the signal mask, the satellite mask of the cells, the cell list,
    the rank arrays and the cell mask, for every accepted input in whatever order the caller listed it. *)
From Coq Require Import ZArith List Lia Bool Sorting.Sorted.
From RtcmModel Require Import Types BitIO Floats Field SigId Bias Msm.
From RtcmProofs Require Import ListZ EncodeLen DecodeBound BitProofs MsmProofs DecodeTotal.
Import ListNotations.
Open Scope Z_scope.

(** the (satellite, signal id) keys of the signal rows, in the caller's order *)
Definition cell_keys (tbl : sigtable) (sigs : list val) : list (Z * Z) :=
  flat_map (fun v => match sig_row_key v with
                     | Some (s, g) => match to_id tbl g with Some i => [(s, i)] | None => [] end
                     | None => [] end) sigs.

Lemma pow2_testbit n m : 0 <= n -> 0 <= m -> Z.testbit (2 ^ n) m = (n =? m).
Proof. intros Hn Hm. apply Z.pow2_bits_eqb. exact Hn. Qed.

(** second loop of the encoder *)
Lemma enc_sig_loop_masks tbl : forall sigs sm ssm cv sm' ssm' cv', enc_sig_loop tbl sigs sm ssm cv = Ok (sm', ssm', cv') ->
  cv' = cv ++ cell_keys tbl sigs /\
  (forall c, In c (cell_keys tbl sigs) -> 1 <= fst c <= 64 /\ 1 <= snd c <= 32) /\
  (forall g, 1 <= g <= 32 -> Z.testbit sm' (32 - g) = Z.testbit sm (32 - g) || existsb (fun c => snd c =? g) (cell_keys tbl sigs)) /\
  (forall s, 1 <= s <= 64 -> Z.testbit ssm' (64 - s) = Z.testbit ssm (64 - s) || existsb (fun c => fst c =? s) (cell_keys tbl sigs)).
Proof.
  induction sigs as [|v r IH]; intros sm ssm cv sm' ssm' cv' H; cbn [enc_sig_loop] in H.
  - inversion H; subst. cbn. rewrite app_nil_r. repeat split; try tauto; intros; rewrite orb_false_r; reflexivity.
  - destruct (sig_row_key v) as [[s g]|] eqn:Ek; [|discriminate].
    destruct ((0 <? s) && (s <=? 64)) eqn:Hr; [|discriminate]. apply andb_true_iff in Hr. destruct Hr as [Hr1 Hr2]. apply Z.ltb_lt in Hr1. apply Z.leb_le in Hr2.
    destruct (to_id tbl g) as [i|] eqn:Ei; [|discriminate].
    unfold shl in H. destruct ((0 <=? 32 - i) && (32 - i <? 32)) eqn:Hs; cbn [bind] in H; [|discriminate].
    apply andb_true_iff in Hs. destruct Hs as [Hs1 Hs2]. apply Z.leb_le in Hs1. apply Z.ltb_lt in Hs2.
    destruct (64 <=? zlen cv); [discriminate|].
    assert (Hw : wrapc KU 32 (1 * 2 ^ (32 - i)) = 2 ^ (32 - i)).
    { rewrite Z.mul_1_l. apply wrapc_in_range; [lia|]. unfold cmin, cmax. cbn [signed_kind].
      assert (0 < 2 ^ (32 - i)) by (apply Z.pow_pos_nonneg; lia). assert (2 ^ (32 - i) < 2 ^ 32) by (apply Z.pow_lt_mono_r; lia). lia. }
    rewrite Hw in H.
    destruct (IH _ _ _ _ _ _ H) as [Hcv [Hrng [Hsm Hssm]]].
    unfold cell_keys in *. cbn [flat_map]. rewrite Ek, Ei. cbn [app].
    split; [rewrite Hcv, <- app_assoc; reflexivity|]. split; [|split].
    + intros c [<-|Hc]; [cbn [fst snd]; lia|apply Hrng; exact Hc].
    + intros g0 Hg. rewrite (Hsm g0 Hg), Z.lor_spec, pow2_testbit by lia. cbn [existsb snd].
      destruct (Z.eqb_spec (32 - i) (32 - g0)), (Z.eqb_spec i g0); try lia; destruct (Z.testbit sm (32 - g0)); cbn; reflexivity.
    + intros s0 Hs0. rewrite (Hssm s0 Hs0), Z.lor_spec, pow2_testbit by lia. cbn [existsb fst].
      destruct (Z.eqb_spec (64 - s) (64 - s0)), (Z.eqb_spec s s0); try lia; destruct (Z.testbit ssm (64 - s0)); cbn; reflexivity.
Qed.

(** ---------- ranks ---------- *)
(** number of set positions among i, i+1, .., i+j-1 (position p is bit w-1-p: the most significant bit is position 0) *)
Fixpoint cnt (m w : Z) (i : Z) (j : nat) : Z :=
  match j with
  | O => 0
  | S j' => (if Z.testbit m (w - 1 - i) then 1 else 0) + cnt m w (i + 1) j'
  end.
Definition rank (m w p : Z) : Z := cnt m w 0 (Z.to_nat p).

Lemma cnt_nonneg m w : forall j i, 0 <= cnt m w i j.
Proof. induction j as [|j IH]; intros i; cbn [cnt]; [lia|]. specialize (IH (i + 1)). destruct (Z.testbit m (w - 1 - i)); lia. Qed.

Lemma cnt_snoc m w : forall j i, cnt m w i (S j) = cnt m w i j + (if Z.testbit m (w - 1 - (i + Z.of_nat j)) then 1 else 0).
Proof.
  induction j as [|j IH]; intros i.
  - cbn [cnt]. replace (i + Z.of_nat 0) with i by lia. lia.
  - change (cnt m w i (S (S j))) with ((if Z.testbit m (w - 1 - i) then 1 else 0) + cnt m w (i + 1) (S j)).
    rewrite IH. cbn [cnt]. replace (i + 1 + Z.of_nat j) with (i + Z.of_nat (S j)) by lia. lia.
Qed.

Lemma indx_loop_nth m w : forall n i c j, (j < n)%nat ->
  nth j (indx_loop n i w m c) 0 = if Z.testbit m (w - 1 - (i + Z.of_nat j)) then c + cnt m w i j else 0.
Proof.
  induction n as [|n IH]; intros i c j Hj; [lia|]. cbn [indx_loop].
  destruct j as [|j].
  - replace (i + Z.of_nat 0) with i by lia. cbn [cnt]. destruct (Z.testbit m (w - 1 - i)); cbn [nth]; lia.
  - replace (i + Z.of_nat (S j)) with (i + 1 + Z.of_nat j) by lia. cbn [cnt].
    destruct (Z.testbit m (w - 1 - i)) eqn:Eb; cbn [nth]; rewrite IH by lia; destruct (Z.testbit m (w - 1 - (i + 1 + Z.of_nat j))); lia.
Qed.
Lemma indx_loop_len m w : forall n i c, length (indx_loop n i w m c) = n.
Proof. induction n as [|n IH]; intros i c; cbn [indx_loop]; [reflexivity|]. destruct (Z.testbit m (w - 1 - i)); cbn [length]; rewrite IH; reflexivity. Qed.

(** the rank arrays: at a set position, the number of set positions before it *)
Lemma indx_array_spec w m p : 0 <= p < w -> Z.testbit m (w - 1 - p) = true -> znth (indx_array w m) p = rank m w p.
Proof.
  intros Hp Hb. unfold indx_array, znth, rank. rewrite indx_loop_nth by lia. rewrite Z2Nat.id by lia. cbn. rewrite Hb. lia.
Qed.
Lemma indx_array_len w m : 0 <= w -> zlen (indx_array w m) = w.
Proof. intros Hw. unfold indx_array, zlen. rewrite indx_loop_len. lia. Qed.

(** ---------- third loop: the cell mask ---------- *)
Section CellLoop.
  Variables (SI GI : list Z) (nsig ccl : Z).
  Definition cidx (c : Z * Z) : Z := znth SI (fst c - 1) * nsig + znth GI (snd c - 1).

  Lemma enc_cell_loop_spec : forall cells cm cm', enc_cell_loop cells SI GI nsig ccl cm = Ok cm' ->
    (forall c, In c cells -> 0 <= ccl - 1 - cidx c < 64 /\ cidx c <= ccl - 1) /\
    (forall t, 0 <= t -> Z.testbit cm' t = Z.testbit cm t || existsb (fun c => ccl - 1 - cidx c =? t) cells) /\
    (forall c, In c cells -> Z.testbit cm (ccl - 1 - cidx c) = false) /\
    NoDup (map cidx cells).
  Proof.
    induction cells as [|[s g] r IH]; intros cm cm' H; cbn [enc_cell_loop] in H.
    - inversion H; subst. cbn. repeat split; try tauto; [intros; rewrite orb_false_r; reflexivity|constructor].
    - unfold aget in H.
      destruct ((0 <=? s - 1) && (s - 1 <? zlen SI)); cbn [bind] in H; [|discriminate].
      destruct ((0 <=? g - 1) && (g - 1 <? zlen GI)); cbn [bind] in H; [|discriminate].
      unfold usub in H. destruct (Z.leb_spec 1 ccl) as [Hc1|]; cbn [bind] in H; [|discriminate].
      set (ix := znth SI (s - 1) * nsig + znth GI (g - 1)) in *.
      destruct (Z.leb_spec ix (ccl - 1)) as [Hix|]; cbn [bind] in H; [|discriminate].
      unfold shl in H. destruct ((0 <=? ccl - 1 - ix) && (ccl - 1 - ix <? 64)) eqn:Hs; cbn [bind] in H; [|discriminate].
      apply andb_true_iff in Hs. destruct Hs as [Hs1 Hs2]. apply Z.leb_le in Hs1. apply Z.ltb_lt in Hs2.
      assert (Hw : wrapc KU 64 (1 * 2 ^ (ccl - 1 - ix)) = 2 ^ (ccl - 1 - ix)).
      { rewrite Z.mul_1_l. apply wrapc_in_range; [lia|]. unfold cmin, cmax. cbn [signed_kind].
        assert (0 < 2 ^ (ccl - 1 - ix)) by (apply Z.pow_pos_nonneg; lia). assert (2 ^ (ccl - 1 - ix) < 2 ^ 64) by (apply Z.pow_lt_mono_r; lia). lia. }
      rewrite Hw in H.
      destruct (0 <? Z.land (2 ^ (ccl - 1 - ix)) cm) eqn:Hdup; [discriminate|]. apply Z.ltb_ge in Hdup.
      assert (Hbit0 : Z.testbit cm (ccl - 1 - ix) = false).
      { destruct (Z.testbit cm (ccl - 1 - ix)) eqn:E; [|reflexivity]. exfalso.
        assert (Hb : Z.testbit (Z.land (2 ^ (ccl - 1 - ix)) cm) (ccl - 1 - ix) = true) by (rewrite Z.land_spec, Z.pow2_bits_true, E by lia; reflexivity).
        assert (Hz : Z.land (2 ^ (ccl - 1 - ix)) cm = 0).
        { assert (0 <= Z.land (2 ^ (ccl - 1 - ix)) cm) by (apply Z.land_nonneg; left; apply Z.pow_nonneg; lia). lia. }
        rewrite Hz, Z.bits_0 in Hb. discriminate. }
      destruct (IH _ _ H) as [Hrng [Hbits [Hfree Hnd]]].
      assert (Eix : cidx (s, g) = ix) by reflexivity.
      split; [|split; [|split]].
      + intros c [<-|Hc]; [rewrite Eix; lia|apply Hrng; exact Hc].
      + intros t Ht. rewrite (Hbits t Ht), Z.lor_spec, pow2_testbit by lia. cbn [existsb]. rewrite Eix.
        destruct (Z.testbit cm t); cbn [orb]; reflexivity.
      + intros c [<-|Hc]; [rewrite Eix; exact Hbit0|].
        specialize (Hfree c Hc). rewrite Z.lor_spec in Hfree. apply orb_false_iff in Hfree. tauto.
      + cbn [map]. rewrite Eix. constructor; [|exact Hnd]. intros Hin. apply in_map_iff in Hin. destruct Hin as [c [Ec Hc]].
        specialize (Hfree c Hc). rewrite Ec in Hfree. rewrite Z.lor_spec, Z.pow2_bits_true in Hfree by lia. rewrite orb_true_r in Hfree. discriminate.
  Qed.
End CellLoop.

Lemma existsb_ext_in {A} (f g : A -> bool) l : (forall x, In x l -> f x = g x) -> existsb f l = existsb g l.
Proof. induction l as [|x r IH]; intros H; [reflexivity|]. cbn [existsb]. rewrite (H x (or_introl eq_refl)), IH; [reflexivity|]. intros y Hy. apply H. right. exact Hy. Qed.

(** row-major index of a cell: (rank of its satellite among the listed satellites) * (number of signals) + (rank of its signal) *)
Definition cell_index (sat_mask sig_mask : Z) (c : Z * Z) : Z :=
  rank sat_mask 64 (fst c - 1) * mask_len 32 sig_mask + rank sig_mask 32 (snd c - 1).

Definition msm_masks_spec (tbl : sigtable) (sats sigs : list val) (sat_mask sig_mask cell_mask : Z) : Prop :=
  let cells := cell_keys tbl sigs in
  let ccl := mask_len 32 sig_mask * zlen sats in
  (forall s, 1 <= s <= 64 -> Z.testbit sat_mask (64 - s) = existsb (Z.eqb s) (sat_ids sats)) /\
  (forall s, 1 <= s <= 64 -> existsb (Z.eqb s) (sat_ids sats) = existsb (fun c => fst c =? s) cells) /\
  (forall g, 1 <= g <= 32 -> Z.testbit sig_mask (32 - g) = existsb (fun c => snd c =? g) cells) /\
  ccl <= 64 /\
  (forall t, 0 <= t -> Z.testbit cell_mask t = existsb (fun c => ccl - 1 - cell_index sat_mask sig_mask c =? t) cells) /\
  (forall c, In c cells -> 0 <= cell_index sat_mask sig_mask c <= ccl - 1) /\
  NoDup (map (cell_index sat_mask sig_mask) cells).

Lemma msm_main_inv tbl a b st st' sats sigs :
    (sat_mask <- enc_sat_mask sats 0 ;;
     '(sig_mask, sat_sig_mask, cell_vec) <- enc_sig_loop tbl sigs 0 0 [] ;;
     if negb (sat_mask =? sat_sig_mask) then Err SatelliteMismatch
     else
       let sat_indx := indx_array 64 sat_mask in
       let sig_indx := indx_array 32 sig_mask in
       let sig_mask_len := mask_len 32 sig_mask in
       let cell_cont_len := sig_mask_len * zlen sats in
       if 64 <? cell_cont_len then Err InvalidSatelliteSignalCount
       else
         cell_mask <- enc_cell_loop cell_vec sat_indx sig_indx sig_mask_len cell_cont_len 0 ;;
         st1 <- put KU 64 (fst st) (snd st) sat_mask 64 ;;
         st2 <- put KU 32 (fst st1) (snd st1) sig_mask 32 ;;
         st3 <- put KU 64 (fst st2) (snd st2) cell_mask cell_cont_len ;;
         st4 <- enc_sat_rows a sats st3 ;;
         enc_sig_rows tbl b sigs st4) = Ok st' ->
  exists sat_mask sig_mask cv cell_mask st1 st2 st3,
    enc_sat_mask sats 0 = Ok sat_mask /\ enc_sig_loop tbl sigs 0 0 [] = Ok (sig_mask, sat_mask, cv) /\
    mask_len 32 sig_mask * zlen sats <= 64 /\
    enc_cell_loop cv (indx_array 64 sat_mask) (indx_array 32 sig_mask) (mask_len 32 sig_mask) (mask_len 32 sig_mask * zlen sats) 0 = Ok cell_mask /\
    put KU 64 (fst st) (snd st) sat_mask 64 = Ok st1 /\ put KU 32 (fst st1) (snd st1) sig_mask 32 = Ok st2 /\
    put KU 64 (fst st2) (snd st2) cell_mask (mask_len 32 sig_mask * zlen sats) = Ok st3.
Proof.
  intros Hmain. bind_inv Hmain.
  destruct (negb _) eqn:Hneg in Hmain; [discriminate|]. cbv zeta in Hmain.
  destruct (_ <? _) eqn:Hccl in Hmain; [discriminate|].
  apply negb_false_iff in Hneg. apply Z.eqb_eq in Hneg. apply Z.ltb_ge in Hccl.
  bind_inv Hmain. clear Hmain. subst.
  exists z0, z, l, a1, a2, a3, a4. split; [reflexivity|]. split; [reflexivity|]. repeat (split; [assumption|]). assumption.
Qed.

Lemma msm_masks_from tbl sats sigs sat_mask sig_mask cv cell_mask :
  enc_sat_mask sats 0 = Ok sat_mask -> enc_sig_loop tbl sigs 0 0 [] = Ok (sig_mask, sat_mask, cv) ->
  mask_len 32 sig_mask * zlen sats <= 64 ->
  enc_cell_loop cv (indx_array 64 sat_mask) (indx_array 32 sig_mask) (mask_len 32 sig_mask) (mask_len 32 sig_mask * zlen sats) 0 = Ok cell_mask ->
  msm_masks_spec tbl sats sigs sat_mask sig_mask cell_mask.
Proof.
  intros E1 E2 Hccl E3.
  destruct (enc_sat_mask_spec sats 0 sat_mask E1) as [_ [Hsat [_ _]]].
  destruct (enc_sig_loop_masks tbl sigs 0 0 [] sig_mask sat_mask cv E2) as [Hcv [Hrng [Hsm Hssm]]]. cbn [app] in Hcv. subst cv.
  destruct (enc_cell_loop_spec _ _ _ _ _ _ _ E3) as [Hcr [Hcb [_ Hnd]]].
  (* the rank arrays at the cells *)
  assert (Hidx : forall c, In c (cell_keys tbl sigs) ->
            cidx (indx_array 64 sat_mask) (indx_array 32 sig_mask) (mask_len 32 sig_mask) c = cell_index sat_mask sig_mask c).
  { intros c Hc. destruct (Hrng c Hc) as [R1 R2]. unfold cidx, cell_index.
    assert (Bs : Z.testbit sat_mask (64 - 1 - (fst c - 1)) = true).
    { replace (64 - 1 - (fst c - 1)) with (64 - fst c) by lia. rewrite (Hssm (fst c) R1), Z.bits_0. cbn [orb].
      apply existsb_exists. exists c. split; [exact Hc|apply Z.eqb_refl]. }
    assert (Bg : Z.testbit sig_mask (32 - 1 - (snd c - 1)) = true).
    { replace (32 - 1 - (snd c - 1)) with (32 - snd c) by lia. rewrite (Hsm (snd c) R2), Z.bits_0. cbn [orb].
      apply existsb_exists. exists c. split; [exact Hc|apply Z.eqb_refl]. }
    rewrite (indx_array_spec 64 sat_mask (fst c - 1) ltac:(lia) Bs), (indx_array_spec 32 sig_mask (snd c - 1) ltac:(lia) Bg).
    reflexivity. }
  unfold msm_masks_spec. cbv zeta.
  split; [intros s Hs; rewrite (Hsat s Hs), Z.bits_0; reflexivity|].
  split; [intros s Hs; transitivity (Z.testbit sat_mask (64 - s)); [rewrite (Hsat s Hs), Z.bits_0; reflexivity|rewrite (Hssm s Hs), Z.bits_0; reflexivity]|].
  split; [intros g Hg; rewrite (Hsm g Hg), Z.bits_0; reflexivity|].
  split; [exact Hccl|].
  split; [intros t Ht; rewrite (Hcb t Ht), Z.bits_0; cbn [orb]; apply existsb_ext_in; intros c Hc; rewrite (Hidx c Hc); reflexivity|].
  split.
  - intros c Hc. destruct (Hcr c Hc) as [R1 R2]. rewrite (Hidx c Hc) in R1, R2.
    split; [|lia]. unfold cell_index. pose proof (cnt_nonneg sat_mask 64 (Z.to_nat (fst c - 1)) 0). pose proof (cnt_nonneg sig_mask 32 (Z.to_nat (snd c - 1)) 0).
    pose proof (mask_len_nonneg_dec 32 sig_mask). unfold rank. nia.
  - rewrite (map_ext_in _ (cidx (indx_array 64 sat_mask) (indx_array 32 sig_mask) (mask_len 32 sig_mask))); [exact Hnd|].
    intros c Hc. symmetry. apply Hidx. exact Hc.
Qed.

Lemma msm_main_masks tbl a b st st' sats sigs :
    (sat_mask <- enc_sat_mask sats 0 ;;
     '(sig_mask, sat_sig_mask, cell_vec) <- enc_sig_loop tbl sigs 0 0 [] ;;
     if negb (sat_mask =? sat_sig_mask) then Err SatelliteMismatch
     else
       let sat_indx := indx_array 64 sat_mask in
       let sig_indx := indx_array 32 sig_mask in
       let sig_mask_len := mask_len 32 sig_mask in
       let cell_cont_len := sig_mask_len * zlen sats in
       if 64 <? cell_cont_len then Err InvalidSatelliteSignalCount
       else
         cell_mask <- enc_cell_loop cell_vec sat_indx sig_indx sig_mask_len cell_cont_len 0 ;;
         st1 <- put KU 64 (fst st) (snd st) sat_mask 64 ;;
         st2 <- put KU 32 (fst st1) (snd st1) sig_mask 32 ;;
         st3 <- put KU 64 (fst st2) (snd st2) cell_mask cell_cont_len ;;
         st4 <- enc_sat_rows a sats st3 ;;
         enc_sig_rows tbl b sigs st4) = Ok st' ->
  exists sat_mask sig_mask cell_mask st1 st2 st3,
    put KU 64 (fst st) (snd st) sat_mask 64 = Ok st1 /\ put KU 32 (fst st1) (snd st1) sig_mask 32 = Ok st2 /\
    put KU 64 (fst st2) (snd st2) cell_mask (mask_len 32 sig_mask * zlen sats) = Ok st3 /\
    msm_masks_spec tbl sats sigs sat_mask sig_mask cell_mask.
Proof.
  intros Hmain. destruct (msm_main_inv tbl a b st st' sats sigs Hmain) as [sm [gm [cv [cm [st1 [st2 [st3 [E1 [E2 [Hc [E3 [P1 [P2 P3]]]]]]]]]]]]].
  exists sm, gm, cm, st1, st2, st3. split; [exact P1|]. split; [exact P2|]. split; [exact P3|].
  exact (msm_masks_from tbl sats sigs sm gm cv cm E1 E2 Hc E3).
Qed.

(** the masks of every accepted non-empty MSM data segment, and the three writes that put them on the wire *)
Theorem msm_encode_masks tbl a b st sats sigs st' : msm_encode tbl a b st (VStruct [VList sats; VList sigs]) = Ok st' ->
  ~ (sats = [] /\ sigs = []) ->
  exists sat_mask sig_mask cell_mask st1 st2 st3,
    put KU 64 (fst st) (snd st) sat_mask 64 = Ok st1 /\ put KU 32 (fst st1) (snd st1) sig_mask 32 = Ok st2 /\
    put KU 64 (fst st2) (snd st2) cell_mask (mask_len 32 sig_mask * zlen sats) = Ok st3 /\
    msm_masks_spec tbl sats sigs sat_mask sig_mask cell_mask.
Proof.
  intros H Hne. unfold msm_encode in H.
  match type of H with (if ?c then _ else _) = _ => destruct c eqn:Hcap; [discriminate|] end.
  destruct sats as [|s0 sr]; destruct sigs as [|g0 gr];
    first [ exfalso; apply Hne; split; reflexivity | eapply msm_main_masks; exact H ].
Qed.

(** ---------- the decoder's view of the masks ---------- *)
(** ids of the set positions, ascending: position p (MSB first) is id p+1 *)
Lemma mask_ids_loop_spec w m : forall n i, 0 <= i ->
  (forall s, In s (mask_ids_loop n i w m) <-> (i + 1 <= s <= i + Z.of_nat n /\ Z.testbit m (w - s) = true)) /\
  StronglySorted Z.lt (mask_ids_loop n i w m).
Proof.
  induction n as [|n IH]; intros i Hi; cbn [mask_ids_loop].
  - split; [intros s; split; [intros []|intros [H _]; lia]|constructor].
  - destruct (IH (i + 1) ltac:(lia)) as [Hin Hs].
    destruct (Z.testbit m (w - 1 - i)) eqn:Eb.
    + split.
      * intros s. cbn [In]. rewrite Hin. split.
        -- intros [<-|[H1 H2]]; [split; [lia|replace (w - (i + 1)) with (w - 1 - i) by lia; exact Eb]|split; [lia|exact H2]].
        -- intros [H1 H2]. destruct (Z.eq_dec s (i + 1)) as [->|Hne]; [left; reflexivity|right; split; [lia|exact H2]].
      * constructor; [exact Hs|]. apply Forall_forall. intros s Hsin. apply Hin in Hsin. lia.
    + split; [|exact Hs]. intros s. rewrite Hin. split.
      * intros [H1 H2]. split; [lia|exact H2].
      * intros [H1 H2]. split; [|exact H2]. destruct (Z.eq_dec s (i + 1)) as [->|Hne]; [|lia].
        replace (w - (i + 1)) with (w - 1 - i) in H2 by lia. rewrite Eb in H2. discriminate.
Qed.

Theorem mask_to_id_vec_spec w m : 0 <= w ->
  (forall s, In s (mask_to_id_vec w m) <-> (1 <= s <= w /\ Z.testbit m (w - s) = true)) /\
  StronglySorted Z.lt (mask_to_id_vec w m).
Proof.
  intros Hw. unfold mask_to_id_vec. destruct (mask_ids_loop_spec w m (Z.to_nat w) 0 ltac:(lia)) as [H1 H2].
  split; [|exact H2]. intros s. rewrite H1. rewrite Z2Nat.id by lia. split; intros [A B]; (split; [lia|exact B]).
Qed.

(** the cells, row-major: cell i (MSB first in the cell mask) is (satellite i / nsig, signal i mod nsig) *)
Lemma cells_loop_spec sat_vec sig_vec ccl cm : forall n i cv, cells_loop n i ccl cm sat_vec sig_vec = Ok cv ->
  cv = map (fun j => (znth sat_vec (j / zlen sig_vec), znth sig_vec (j mod zlen sig_vec)))
           (filter (fun j => Z.testbit cm (ccl - 1 - j)) (map (fun k => i + Z.of_nat k) (seq 0 n))).
Proof.
  induction n as [|n IH]; intros i cv H; cbn [cells_loop] in H; [inversion H; reflexivity|].
  cbn [seq map filter]. replace (i + Z.of_nat 0) with i by lia.
  assert (Hshift : map (fun k => i + Z.of_nat k) (seq 1 n) = map (fun k => i + 1 + Z.of_nat k) (seq 0 n)).
  { rewrite <- seq_shift, map_map. apply map_ext. intros k. lia. }
  rewrite Hshift.
  destruct (Z.testbit cm (ccl - 1 - i)).
  - unfold aget in H. destruct ((0 <=? i / zlen sig_vec) && (i / zlen sig_vec <? zlen sat_vec)); cbn [bind] in H; [|discriminate].
    destruct ((0 <=? i mod zlen sig_vec) && (i mod zlen sig_vec <? zlen sig_vec)); cbn [bind] in H; [|discriminate].
    destruct (cells_loop n (i + 1) ccl cm sat_vec sig_vec) as [r|e|] eqn:E; cbn [bind] in H; try discriminate. inversion H; subst.
    cbn [map]. f_equal. apply IH. exact E.
  - apply IH. exact H.
Qed.

(** MessageBuilder::build_message: every frame it returns is well formed (C09). *)
From Coq Require Import ZArith List Lia Bool.
From RtcmModel Require Import Types BitIO Floats Field SigId Text Bias Msm Layout Crc Frame Message.
From RtcmProofs Require Import BitLemmas ListZ FragInd EncodeLen FrameProofs BuilderProofs SizeProofs BitProofs.
Import ListNotations.
Open Scope Z_scope.

Ltac Zify.zify_post_hook ::= Z.div_mod_to_equations.

Lemma znth_set_nth_same l i x : 0 <= i < zlen l -> znth (set_nth l i x) i = x.
Proof. unfold znth, set_nth, zlen. intros H. rewrite nth_upd_same by lia. reflexivity. Qed.
Lemma znth_set_nth_other l i j x : 0 <= i -> 0 <= j -> i <> j -> znth (set_nth l i x) j = znth l j.
Proof. unfold znth, set_nth. intros Hi Hj Hne. apply nth_upd_other. lia. Qed.
Lemma zlen_set_nth l i x : zlen (set_nth l i x) = zlen l.
Proof. unfold zlen. rewrite set_nth_length. reflexivity. Qed.

Lemma zfirstn_set_nth_ge l i x n : 0 <= n <= i -> zfirstn n (set_nth l i x) = zfirstn n l.
Proof.
  unfold zfirstn, set_nth. intros H. assert (Hle : (Z.to_nat n <= Z.to_nat i)%nat) by lia. revert Hle. generalize (Z.to_nat n) (Z.to_nat i). clear.
  intros a b. revert a b. induction l as [|y r IH]; intros a b Hle; [destruct a, b; reflexivity|].
  destruct a; [reflexivity|]. destruct b; [lia|]. cbn. f_equal. apply IH. lia.
Qed.

Lemma bytes_ok_set_nth l i x : bytes_ok l = true -> 0 <= x < 256 -> bytes_ok (set_nth l i x) = true.
Proof.
  unfold set_nth. generalize (Z.to_nat i). intros n Hb Hx. revert n. induction l as [|y r IH]; intros n; [reflexivity|].
  unfold bytes_ok in *. cbn [forallb] in Hb. apply andb_true_iff in Hb. destruct Hb as [Hy Hr].
  destruct n; cbn [upd forallb]; apply andb_true_iff; split; try assumption; [unfold byte_ok; lia|apply IH; assumption].
Qed.

Lemma lookup_In : forall (t : list (Z * frag)) n lay, lookup n t = Some lay -> In (n, lay) t.
Proof.
  induction t as [|[k f] r IH]; intros n lay; cbn [lookup]; [discriminate|].
  destruct (Z.eqb_spec n k) as [->|]; [intros H; inversion H; left; reflexivity|intros H; right; apply IH; exact H].
Qed.

Section Build.
  Variable sigt : gnss -> sigtable.
  Variable ssr59 ssr65 : sigtable.
  Variable cap59 cap65 : Z.
  Variable table : list (Z * frag).
  Hypothesis Hc59 : 0 <= cap59.
  Hypothesis Hc65 : 0 <= cap65.
  (** table obligation: every layout is well formed and fits the 8184-bit window after the 12-bit number *)
  Hypothesis Hfit : forallb (fun m => frag_wfb (snd m) && (12 + max_bits cap59 cap65 (snd m) <=? 8184)) table = true.

  Notation build_on := (build_on sigt ssr59 ssr65 cap59 cap65 table).

  Lemma fresh_len : zlen fresh_data = 1029.
  Proof. unfold fresh_data, zlen. cbn [length]. rewrite repeat_length. reflexivity. Qed.
  Lemma fresh_bytes : bytes_ok fresh_data = true.
  Proof. vm_compute. reflexivity. Qed.

  Lemma crc_parts c : 0 <= c < two24 ->
    be24 (Z.land (Z.shiftr c 16) 255) (Z.land (Z.shiftr c 8) 255) (Z.land c 255) = c.
  Proof.
    intros Hc. unfold two24 in Hc. change 255 with (2 ^ 8 - 1). rewrite !land_low_mod by lia. rewrite !Z.shiftr_div_pow2 by lia.
    change (2 ^ 16) with 65536. change (2 ^ 8) with 256.
    rewrite (Z.mod_small (c / 65536) 256) by (split; [apply Z.div_pos; lia|apply Z.div_lt_upper_bound; lia]).
    apply crc_bytes_be24. unfold two24. lia.
  Qed.

  (** the bytes of a frame returned by build_message *)
  Theorem build_well_formed m fr d' : build_on fresh_data m = Ok (fr, d') ->
    exists n v lay, m = MTyped n v /\ lookup n table = Some lay /\
      8 <= zlen fr <= 1029 /\ znth fr 0 = 211 /\ 0 <= znth fr 1 < 4 /\
      frame_length fr = zlen fr - 6 /\ frame_accept fr.
  Proof.
    unfold Message.build_on. destruct m as [| |k|n v]; try discriminate.
    destruct (lookup n table) as [lay|] eqn:Hlk; [|discriminate].
    intros H. bind_inv H.
    match goal with E1 : put _ _ _ _ _ _ = Ok ?a |- _ => destruct a as [d0 o0]; apply put_len in E1; destruct E1 as [L0 O0] end.
    match goal with E1 : encode_frag _ _ _ _ _ _ _ _ = Ok ?s |- _ => rename s into st; pose proof E1 as Henc; apply encode_frag_len in E1; cbn [fst] in E1; rename E1 into Lst end.
    match goal with E1 : usub _ _ = Ok ?z |- _ => unfold usub in E1; destruct (_ <=? _) eqn:Hle in E1; [|discriminate]; inversion E1; subst z; clear E1 end.
    apply Z.leb_le in Hle.
    (* size of the encoded body *)
    pose proof (lookup_In table n lay Hlk) as Hin.
    rewrite forallb_forall in Hfit. specialize (Hfit _ Hin). cbn [snd] in Hfit. apply andb_true_iff in Hfit. destruct Hfit as [Hwf Hmax]. apply Z.leb_le in Hmax.
    apply (encode_frag_grows sigt ssr59 ssr65 cap59 cap65 Hc59 Hc65 lay Hwf) in Henc. cbn [snd] in Henc. subst o0.
    set (dl := (snd st - 1) / 8 + 1) in *.
    assert (Hdl : 2 <= dl <= 1023) by (unfold dl; lia).
    (* the buffer *)
    assert (Hw : zlen (firstn 1023 (skipn 3 fresh_data)) = 1023) by (vm_compute; reflexivity).
    assert (Hst : zlen (fst st) = 1023) by lia.
    set (data1 := firstn 3 fresh_data ++ fst st ++ skipn 1026 fresh_data) in *.
    assert (Hl1 : zlen data1 = 1029).
    { unfold data1. rewrite !zlen_app, Hst. vm_compute. reflexivity. }
    destruct (_ <? _) eqn:Hshort in H; [discriminate|]. inversion H; subst fr d'. clear H.
    set (data2 := set_nth data1 1 (Z.shiftr dl 8 mod 256)) in *.
    set (data3 := set_nth data2 2 (Z.land dl 255)) in *.
    set (crc := crc24q (zfirstn (dl + 3) data3)) in *.
    set (data4 := set_nth data3 (dl + 3) (Z.land (Z.shiftr crc 16) 255)) in *.
    set (data5 := set_nth data4 (dl + 4) (Z.land (Z.shiftr crc 8) 255)) in *.
    set (data6 := set_nth data5 (dl + 5) (Z.land crc 255)) in *.
    assert (Hl6 : zlen data6 = 1029) by (unfold data6, data5, data4, data3, data2; rewrite !zlen_set_nth; exact Hl1).
    assert (Hzfr : zlen (zfirstn (dl + 6) data6) = dl + 6) by (apply zlen_zfirstn; lia).
    assert (Hcrc : 0 <= crc < two24) by apply crc24q_range.
    set (fr := zfirstn (dl + 6) data6) in *.
    assert (Hn : forall j, 0 <= j < dl + 6 -> znth fr j = znth data6 j) by (intros j Hj; apply znth_zfirstn; exact Hj).
    assert (H0 : znth data6 0 = 211).
    { unfold data6, data5, data4, data3, data2. rewrite !znth_set_nth_other by lia. reflexivity. }
    assert (H1 : znth data6 1 = Z.shiftr dl 8 mod 256).
    { unfold data6, data5, data4, data3. rewrite !znth_set_nth_other by lia. unfold data2. apply znth_set_nth_same. lia. }
    assert (H2 : znth data6 2 = Z.land dl 255).
    { unfold data6, data5, data4. rewrite !znth_set_nth_other by lia. unfold data3. apply znth_set_nth_same.
      unfold data2. rewrite zlen_set_nth. lia. }
    assert (Hl3 : zlen data3 = 1029) by (unfold data3, data2; rewrite !zlen_set_nth; exact Hl1).
    assert (Hl4 : zlen data4 = 1029) by (unfold data4; rewrite zlen_set_nth; exact Hl3).
    assert (Hl5 : zlen data5 = 1029) by (unfold data5; rewrite zlen_set_nth; exact Hl4).
    assert (H3 : znth data6 (dl + 3) = Z.land (Z.shiftr crc 16) 255).
    { unfold data6, data5. rewrite !znth_set_nth_other by lia. unfold data4. apply znth_set_nth_same. lia. }
    assert (H4 : znth data6 (dl + 4) = Z.land (Z.shiftr crc 8) 255).
    { unfold data6. rewrite !znth_set_nth_other by lia. unfold data5. apply znth_set_nth_same. lia. }
    assert (H5 : znth data6 (dl + 5) = Z.land crc 255).
    { unfold data6. apply znth_set_nth_same. lia. }
    assert (Hpre : zfirstn (dl + 3) fr = zfirstn (dl + 3) data3).
    { unfold fr. rewrite zfirstn_zfirstn by lia. unfold data6, data5, data4. rewrite !zfirstn_set_nth_ge by lia. reflexivity. }
    assert (Hf1 : 0 <= znth fr 1 < 4).
    { rewrite Hn, H1 by lia. rewrite Z.shiftr_div_pow2 by lia. change (2 ^ 8) with 256. lia. }
    assert (Hfl : frame_length fr = dl).
    { destruct (frame_length_spec fr) as [E _].
      - rewrite Hn, H1 by lia. apply Z.mod_pos_bound. lia.
      - rewrite Hn, H2 by lia. change 255 with (2 ^ 8 - 1). rewrite land_low_mod by lia. apply Z.mod_pos_bound. lia.
      - rewrite E, !Hn, H1, H2 by lia. change 255 with (2 ^ 8 - 1). rewrite land_low_mod by lia.
        rewrite Z.shiftr_div_pow2 by lia. change (2 ^ 8) with 256. lia. }
    exists n, v, lay. split; [reflexivity|]. split; [exact Hlk|].
    split; [rewrite ?Hzfr; lia|]. split; [rewrite Hn by lia; exact H0|]. split; [exact Hf1|]. split; [rewrite Hfl, Hzfr; lia|].
    unfold frame_accept, crc_matches. rewrite Hfl. split; [rewrite ?Hzfr; lia|]. split; [rewrite Hn by lia; exact H0|]. split; [rewrite ?Hzfr; lia|].
    rewrite !Hn by lia. rewrite H3, H4, H5, Hpre. apply crc_parts. exact Hcrc.
  Qed.

  (** messages without a wire form are refused *)
  Theorem build_no_wire_form m : (forall n v, m <> MTyped n v) -> forall data, build_on data m = Err EncodingNotSupported.
  Proof. intros H data. unfold Message.build_on. destruct m as [| |k|n v]; try reflexivity. exfalso. apply (H n v). reflexivity. Qed.
End Build.

(** SSR code-bias lists (1059/1065) and the 1230 biases: counts, capacities, totality of the decoders (C16). *)
From Coq Require Import ZArith List Lia Bool.
From Flocq Require Import Core BinarySingleNaN.
From RtcmModel Require Import Types BitIO Floats Field SigId Bias.
From RtcmProofs Require Import ListZ EncodeLen BitProofs DecodeBound SigProofs.
Import ListNotations.
Open Scope Z_scope.

(** ---------- decoding never yields more entries than the list capacity, and never panics ---------- *)
Lemma cb_dec_entries_bounded table cap data : forall n sat off acc es off',
  cb_dec_entries table cap n sat data off acc = Ok (es, off') -> zlen acc <= cap -> zlen es <= cap.
Proof.
  induction n as [|n IH]; intros sat off acc es off' H Hle; cbn [cb_dec_entries] in H; [inversion H; subst; exact Hle|].
  crush H.
  - eapply IH; [eassumption|]. rewrite zlen_app. change (zlen [_]) with 1. apply Z.leb_gt in C. lia.
  - eapply IH; eassumption.
Qed.

Lemma cb_dec_sats_bounded table sat_bits cap data : forall n off acc es off',
  cb_dec_sats table sat_bits cap n data off acc = Ok (es, off') -> zlen acc <= cap -> zlen es <= cap.
Proof.
  induction n as [|n IH]; intros off acc es off' H Hle; cbn [cb_dec_sats] in H; [inversion H; subst; exact Hle|].
  crush H. eapply IH; [eassumption|]. eapply cb_dec_entries_bounded; eassumption.
Qed.

Theorem cb_decode_bounded table sat_bits cap data off l off' : 0 <= cap ->
  cb_decode table sat_bits cap data off = Ok (VList l, off') -> zlen l <= cap.
Proof.
  intros Hc H. unfold cb_decode in H. crush H. inversion H; subst.
  unfold zlen. rewrite map_length. fold (zlen l0). eapply cb_dec_sats_bounded; [eassumption|]. unfold zlen. cbn. lia.
Qed.

Lemma cb_dec_entries_no_panic table cap data : bytes_ok data = true -> forall n sat off acc, 0 <= off ->
  cb_dec_entries table cap n sat data off acc <> Panic.
Proof.
  intros Hb. induction n as [|n IH]; intros sat off acc Ho; cbn [cb_dec_entries]; [discriminate|].
  destruct (parse KU 8 data off 5) as [[id o1]|e|] eqn:P1; cbn [bind]; [|discriminate|exfalso; exact (parse_no_panic KU 8 data off 5 ltac:(lia) ltac:(lia) Ho Hb P1)].
  apply parse_off in P1. destruct P1 as [-> _].
  destruct (to_sig table id).
  - destruct (parse KI 16 data (off + 5) 14) as [[b o2]|e|] eqn:P2; cbn [bind]; [|discriminate|exfalso; exact (parse_no_panic KI 16 data (off + 5) 14 ltac:(lia) ltac:(lia) ltac:(lia) Hb P2)].
    apply parse_off in P2. destruct P2 as [-> _]. destruct (_ <=? _); [discriminate|]. apply IH. lia.
  - apply IH. lia.
Qed.

Lemma cb_dec_sats_no_panic table sat_bits cap data : bytes_ok data = true -> 1 <= sat_bits <= 8 -> forall n off acc, 0 <= off ->
  cb_dec_sats table sat_bits cap n data off acc <> Panic.
Proof.
  intros Hb Hs. induction n as [|n IH]; intros off acc Ho; cbn [cb_dec_sats]; [discriminate|].
  destruct (parse KU 8 data off sat_bits) as [[sat o1]|e|] eqn:P1; cbn [bind]; [|discriminate|exfalso; exact (parse_no_panic KU 8 data off sat_bits ltac:(lia) ltac:(lia) Ho Hb P1)].
  apply parse_off in P1. destruct P1 as [-> _].
  destruct (parse KU 8 data (off + sat_bits) 5) as [[bn o2]|e|] eqn:P2; cbn [bind]; [|discriminate|exfalso; exact (parse_no_panic KU 8 data (off + sat_bits) 5 ltac:(lia) ltac:(lia) ltac:(lia) Hb P2)].
  apply parse_off in P2. destruct P2 as [-> _].
  destruct (cb_dec_entries table cap (Z.to_nat bn) sat data (off + sat_bits + 5) acc) as [[acc' o3]|e|] eqn:P3; cbn [bind];
    [|discriminate|exfalso; exact (cb_dec_entries_no_panic table cap data Hb (Z.to_nat bn) sat (off + sat_bits + 5) acc ltac:(lia) P3)].
  apply IH.
  assert (off + sat_bits + 5 <= o3); [|lia].
  clear - P3 Ho Hs. revert P3. generalize (Z.to_nat bn) (off + sat_bits + 5) acc. intros n.
  induction n as [|n IHn]; intros o a P3; cbn [cb_dec_entries] in P3; [inversion P3; lia|].
  crush P3; offs; match goal with E : cb_dec_entries _ _ _ _ _ _ _ = Ok _ |- _ => apply IHn in E; lia end.
Qed.

Theorem cb_decode_no_panic table sat_bits cap data off : bytes_ok data = true -> 1 <= sat_bits <= 8 -> 0 <= off ->
  cb_decode table sat_bits cap data off <> Panic.
Proof.
  intros Hb Hs Ho. unfold cb_decode.
  destruct (parse KU 8 data off 6) as [[sn o1]|e|] eqn:P1; cbn [bind]; [|discriminate|exfalso; exact (parse_no_panic KU 8 data off 6 ltac:(lia) ltac:(lia) Ho Hb P1)].
  apply parse_off in P1. destruct P1 as [-> _].
  destruct (cb_dec_sats table sat_bits cap (Z.to_nat sn) data (off + 6) []) as [[es o2]|e|] eqn:P2; cbn [bind];
    [discriminate|discriminate|exfalso; exact (cb_dec_sats_no_panic table sat_bits cap data Hb Hs (Z.to_nat sn) (off + 6) [] ltac:(lia) P2)].
Qed.

(** ---------- the encoder refuses what its count fields cannot hold ---------- *)
Lemma cb_sats_counts table sat_bits es sat_mask : forall n s0 st st',
  cb_sats table sat_bits n s0 sat_mask es st = Ok st' ->
  forall s, s0 <= s < s0 + Z.of_nat n -> Z.testbit sat_mask s = true -> cb_count table s es <= 31.
Proof.
  induction n as [|n IH]; intros s0 st st' H s Hs Hbit; [lia|]. cbn [cb_sats] in H.
  destruct (Z.eq_dec s s0) as [->|Hne].
  - rewrite Hbit in H. crush H. apply Z.ltb_ge in C. exact C.
  - destruct (Z.testbit sat_mask s0).
    + crush H. eapply IH; [eassumption|lia|exact Hbit].
    + eapply IH; [eassumption|lia|exact Hbit].
Qed.

Theorem cb_encode_counts_fit table max_sat sat_bits cap st l es st' : 0 <= max_sat ->
  cb_encode table max_sat sat_bits cap st (VList l) = Ok st' -> entries_of_vals l = Some es ->
  zlen es <= cap /\
  exists sat_mask sat_num, cb_mask max_sat es 0 0 = Ok (sat_mask, sat_num) /\ sat_num <= 63 /\
    forall s, 0 <= s <= max_sat -> Z.testbit sat_mask s = true -> cb_count table s es <= 31.
Proof.
  intros Hm H He. unfold cb_encode in H. rewrite He in H. crush H.
  split; [apply Z.ltb_ge in C; exact C|]. eexists _, _. split; [reflexivity|]. split; [apply Z.ltb_ge in C0; exact C0|].
  intros s Hs Hbit. eapply cb_sats_counts; [eassumption| |exact Hbit]. rewrite Z2Nat.id by lia. lia.
Qed.

(** Damaged frames are rejected (C04): from the syndrome lemmas of CrcProofs to MessageFrame::new and the scanner. *)
From Coq Require Import ZArith List Lia Bool.
From RtcmModel Require Import Types Crc Frame Scan.
From RtcmProofs Require Import BitLemmas ListZ FrameProofs ScanProofs CrcProofs.
Import ListNotations.
Open Scope Z_scope.

Lemma land_lxor_distr a b c : Z.land (Z.lxor a b) c = Z.lxor (Z.land a c) (Z.land b c).
Proof.
  apply Z.bits_inj'. intros n Hn. rewrite !Z.land_spec, !Z.lxor_spec, !Z.land_spec.
  destruct (Z.testbit a n), (Z.testbit b n), (Z.testbit c n); reflexivity.
Qed.

Lemma znth_xorbytes : forall a b i, length a = length b -> 0 <= i < zlen a ->
  znth (xorbytes a b) i = Z.lxor (znth a i) (znth b i).
Proof.
  induction a as [|x a IH]; intros b i Hl Hi; destruct b as [|y b]; try discriminate.
  - unfold zlen in Hi. cbn in Hi. lia.
  - cbn [xorbytes]. destruct (Z.eq_dec i 0) as [->|Hne]; [reflexivity|].
    rewrite !znth_cons_S by lia. apply IH; [cbn in Hl; lia|rewrite zlen_cons in Hi; lia].
Qed.

Lemma bytes_ok_xorbytes : forall a b, bytes_ok a = true -> bytes_ok b = true -> bytes_ok (xorbytes a b) = true.
Proof.
  induction a as [|x a IH]; intros b Ha Hb; destruct b as [|y b]; try reflexivity.
  cbn [xorbytes]. unfold bytes_ok in *. cbn [forallb] in *. apply andb_true_iff in Ha, Hb. destruct Ha as [Hx Ha], Hb as [Hy Hb].
  apply andb_true_iff. split; [|apply IH; assumption].
  unfold byte_ok in *. pose proof (lxor_range x y 8 ltac:(lia) ltac:(lia) ltac:(lia)). change (2 ^ 8) with 256 in H. lia.
Qed.

(** an error pattern that leaves the preamble and the ten length bits alone *)
Definition keeps_header (E : list Z) : Prop :=
  bytes_ok E = true /\ znth E 0 = 0 /\ Z.land (znth E 1) 3 = 0 /\ znth E 2 = 0.

Lemma nth_skipn_add {A} (n k : nat) (l : list A) (x : A) : nth k (skipn n l) x = nth (n + k) l x.
Proof.
  revert l. induction n as [|n IH]; intros l; [reflexivity|]. destruct l as [|y l]; [destruct k; reflexivity|]. cbn. apply IH.
Qed.

Lemma split_last3 (d : list Z) L : zlen d = L + 6 -> 0 <= L ->
  d = zfirstn (L + 3) d ++ [znth d (L + 3); znth d (L + 4); znth d (L + 5)].
Proof.
  intros Hz HL. rewrite <- (firstn_skipn (Z.to_nat (L + 3)) d) at 1. unfold zfirstn. f_equal.
  assert (Hlen : length (skipn (Z.to_nat (L + 3)) d) = 3%nat) by (rewrite skipn_length; unfold zlen in Hz; lia).
  destruct (skipn (Z.to_nat (L + 3)) d) as [|a [|b [|c [|x r]]]] eqn:E; try (cbn in Hlen; lia).
  assert (Hn : forall k, (k < 3)%nat -> znth d (L + 3 + Z.of_nat k) = nth k [a; b; c] 0).
  { intros k Hk. unfold znth. rewrite <- E. rewrite nth_skipn_add. f_equal. lia. }
  pose proof (Hn 0%nat ltac:(lia)) as H0. pose proof (Hn 1%nat ltac:(lia)) as H1. pose proof (Hn 2%nat ltac:(lia)) as H2.
  cbn [nth Z.of_nat Pos.of_succ_nat Pos.succ] in *.
  replace (L + 3 + 0) with (L + 3) in H0 by lia. replace (L + 3 + 1) with (L + 4) in H1 by lia. replace (L + 3 + 2) with (L + 5) in H2 by lia.
  rewrite H0, H1, H2. reflexivity.
Qed.

(** for a buffer holding exactly one candidate, the checksum test is "syndrome = 0" *)
Lemma crc_matches_iff_syndrome d : bytes_ok d = true -> zlen d = frame_length d + 6 ->
  (crc_matches d <-> crc24q d = 0).
Proof.
  intros Hb Hz. destruct (frame_length_bytes d Hb) as [_ HL]. unfold crc_matches. cbv zeta.
  set (L := frame_length d) in *.
  pose proof (bytes_ok_znth d (L + 3) Hb) as Ha. pose proof (bytes_ok_znth d (L + 4) Hb) as Hbb. pose proof (bytes_ok_znth d (L + 5) Hb) as Hc.
  rewrite be24_spec by assumption.
  pose proof (split_last3 d L Hz ltac:(lia)) as Hs.
  pose proof (syndrome_zero_iff (zfirstn (L + 3) d) _ _ _ Ha Hbb Hc) as Hsyn. rewrite <- Hs in Hsyn.
  tauto.
Qed.

Theorem damaged_frame_not_valid F E :
  bytes_ok F = true -> frame_accept F -> zlen F = frame_length F + 6 ->
  length E = length F -> keeps_header E -> crc_bits (bits E) 0 <> 0 ->
  frame_new (xorbytes F E) = Err NotValid.
Proof.
  intros HbF Hacc Hz Hlen [HbE [E0 [E1 E2]]] Hsyn.
  destruct Hacc as [H6 [Hp [Hl Hc]]].
  set (F' := xorbytes F E).
  assert (HbF' : bytes_ok F' = true) by (apply bytes_ok_xorbytes; assumption).
  assert (HzF' : zlen F' = zlen F) by (unfold zlen, F'; rewrite xorbytes_length by lia; reflexivity).
  assert (Hn : forall i, 0 <= i < zlen F -> znth F' i = Z.lxor (znth F i) (znth E i)) by (intros i Hi; apply znth_xorbytes; [lia|exact Hi]).
  assert (Hp' : znth F' 0 = 211) by (rewrite Hn by lia; rewrite E0, Z.lxor_0_r; exact Hp).
  assert (HL' : frame_length F' = frame_length F).
  { unfold frame_length. rewrite !Hn by lia. rewrite E2, Z.lxor_0_r. rewrite land_lxor_distr, E1, Z.lxor_0_r. reflexivity. }
  destruct (frame_new_cases F') as [[H E']|[[H [H1 E']]|[[H [H1 [H2 E']]]|[[H [H1 [H2 [H3 E']]]]|[[A [B [C D]]] E']]]]]; try exact E'; try lia; try contradiction.
  exfalso.
  assert (S1 : crc24q F' = 0) by (apply crc_matches_iff_syndrome; [exact HbF'|lia|exact D]).
  assert (S0 : crc24q F = 0) by (apply crc_matches_iff_syndrome; assumption).
  unfold F' in S1. rewrite crc24q_xor in S1 by lia. rewrite S0, Z.lxor_0_l, crc24q_bits in S1. contradiction.
Qed.

(** the same with arbitrary bytes following the damaged frame, and for the scanner *)
Theorem damaged_frame_not_valid_suffix F E suffix :
  bytes_ok F = true -> frame_accept F -> zlen F = frame_length F + 6 ->
  length E = length F -> keeps_header E -> crc_bits (bits E) 0 <> 0 ->
  frame_new (xorbytes F E ++ suffix) = Err NotValid.
Proof.
  intros HbF Hacc Hz Hlen Hk Hsyn.
  pose proof (damaged_frame_not_valid F E HbF Hacc Hz Hlen Hk Hsyn) as Hnv.
  destruct Hk as [HbE [E0 [E1 E2]]]. destruct Hacc as [H6 [Hp [Hl Hc]]].
  set (F' := xorbytes F E) in *.
  assert (HbF' : bytes_ok F' = true) by (apply bytes_ok_xorbytes; assumption).
  assert (HzF' : zlen F' = zlen F) by (unfold zlen, F'; rewrite xorbytes_length by lia; reflexivity).
  destruct (frame_length_bytes F' HbF') as [_ HL].
  assert (HL' : frame_length F' = frame_length F).
  { unfold frame_length, F'. rewrite !znth_xorbytes by lia. rewrite E2, Z.lxor_0_r. rewrite land_lxor_distr, E1, Z.lxor_0_r. reflexivity. }
  rewrite frame_local by lia. exact Hnv.
Qed.

Theorem damaged_frame_not_delivered F E suffix c f :
  bytes_ok F = true -> bytes_ok suffix = true -> frame_accept F -> zlen F = frame_length F + 6 ->
  length E = length F -> keeps_header E -> crc_bits (bits E) 0 <> 0 ->
  scan (xorbytes F E ++ suffix) = Ok (c, Some f) -> 1 <= c - frame_len f.
Proof.
  intros HbF Hbs Hacc Hz Hlen Hk Hsyn Hscan.
  pose proof (damaged_frame_not_valid_suffix F E suffix HbF Hacc Hz Hlen Hk Hsyn) as Hnv.
  assert (HbF' : bytes_ok (xorbytes F E) = true) by (apply bytes_ok_xorbytes; [exact HbF|apply Hk]).
  destruct (xorbytes F E ++ suffix) as [|x rest] eqn:Ed.
  - cbn in Hnv. discriminate.
  - assert (Hbr : bytes_ok rest = true).
    { assert (Hall : bytes_ok (x :: rest) = true) by (rewrite <- Ed, bytes_ok_app, HbF', Hbs; reflexivity).
      unfold bytes_ok in *. cbn [forallb] in Hall. apply andb_true_iff in Hall. tauto. }
    unfold scan in Hscan. cbn [scan_from] in Hscan. rewrite Hnv in Hscan.
    assert (Hrest : scan_from (0 + 1) rest = Ok (c, Some f)) by (destruct (x =? 211); exact Hscan).
    rewrite scan_from_shift in Hrest. destruct (scan_from 0 rest) as [[c0 mf0]|?|] eqn:E0; try discriminate.
    assert (Hc : c = 0 + 1 + c0) by congruence. assert (Hm : mf0 = Some f) by congruence. subst mf0.
    destruct (scan_frame_slice rest c0 f Hbr E0) as [Hge _]. lia.
Qed.
